import CCVerif.Lemmas.EvalUnfold
import CCVerif.Lemmas.EvalSetOps
import CCVerif.Lemmas.EvalPow
/-! Well-formed values (`WF v τ`: structurally typed and canonical) and the value operations of
the evaluator on them: every operation keeps `WF` and coincides with the reference operation of
`Spec/Denote.lean`.  Used by the simulation of C01 / C02 (`Lemmas/EvalSim.lean`). -/
namespace CCVerif.Eval
open CCVerif.Syntax CCVerif.Spec
open Val Ty

/-- the invariant of every value the evaluator handles: it has the (R0-free) type and is canonical -/
def WF (v : Val) (τ : Ty) : Prop := hasTy v τ = true ∧ canon v = true

theorem WF_set_iff {xs : List Val} {τ : Ty} :
    WF (.s xs) (.coll τ) ↔ hasTyAll xs τ = true ∧ canonAll xs = true ∧ sortedStrict xs = true := by
  simp [WF, hasTy, canon, and_assoc]

theorem WF.mem {xs : List Val} {τ : Ty} {x : Val} (h : WF (.s xs) (.coll τ)) (hx : x ∈ xs) : WF x τ := by
  rw [WF_set_iff] at h
  exact ⟨hasTyAll_iff.mp h.1 x hx, (canonAll_iff xs).mp h.2.1 x hx⟩

theorem WF.sorted {xs : List Val} {τ : Ty} (h : WF (.s xs) (.coll τ)) : sortedStrict xs = true :=
  (WF_set_iff.mp h).2.2

theorem WF.of_mems {xs : List Val} {τ : Ty} (h : ∀ x ∈ xs, WF x τ) (hs : sortedStrict xs = true) :
    WF (.s xs) (.coll τ) := by
  rw [WF_set_iff]
  exact ⟨hasTyAll_iff.mpr (fun x hx => (h x hx).1), (canonAll_iff xs).mpr (fun x hx => (h x hx).2), hs⟩

theorem WF.comparable {a b : Val} {τ : Ty} (hn : noAny τ = true) (ha : WF a τ) (hb : WF b τ) : Comparable a b :=
  typed_comparable a b τ hn ha.1 hb.1

theorem WF.pairComparable {xs ys : List Val} {τ : Ty} (hn : noAny τ = true)
    (hx : WF (.s xs) (.coll τ)) (hy : WF (.s ys) (.coll τ)) : PairComparable (xs ++ ys) := by
  intro a ha b hb
  have wa : WF a τ := by rcases List.mem_append.mp ha with m | m; exact hx.mem m; exact hy.mem m
  have wb : WF b τ := by rcases List.mem_append.mp hb with m | m; exact hx.mem m; exact hy.mem m
  exact WF.comparable hn wa wb

theorem WF_int (n : Int) (id : String) : WF (.e n) (.base id) := by simp [WF, hasTy, canon]

theorem WF_empty (τ : Ty) : WF (.s []) (.coll τ) := by simp [WF, hasTy, hasTyAll, canon, canonAll, sortedStrict]

/-! ## binary set operations -/

theorem setOp_mem_sub {t : Tok} {xs ys : List Val} {z : Val} (h : z ∈ setOp t xs ys) : z ∈ xs ∨ z ∈ ys := by
  unfold setOp at h
  split at h
  · rcases mem_insertAll_of _ h with m | m
    · simp at m
    · exact Or.inr (List.mem_filter.mp m).1
  · rcases mem_insertAll_of _ h with m | m
    · simp at m
    · exact Or.inl (List.mem_filter.mp m).1
  · rcases mem_insertAll_of _ h with m | m
    · rcases mem_insertAll_of _ m with m' | m'
      · simp at m'
      · exact Or.inl (List.mem_filter.mp m').1
    · exact Or.inr (List.mem_filter.mp m).1
  · rcases mem_insertAll_of _ h with m | m
    · rcases mem_insertAll_of _ m with m' | m'
      · simp at m'
      · exact Or.inl m'
    · exact Or.inr m

theorem setOp_sorted (t : Tok) (xs ys : List Val) : sortedStrict (setOp t xs ys) = true := by
  unfold setOp
  split
  · exact SetOps.inter_canonical xs ys
  · exact SetOps.diff_canonical xs ys
  · exact SetOps.symDiff_canonical xs ys
  · exact SetOps.union_canonical xs ys

theorem setOp_WF {t : Tok} {xs ys : List Val} {τ : Ty} (hx : WF (.s xs) (.coll τ)) (hy : WF (.s ys) (.coll τ)) :
    WF (.s (setOp t xs ys)) (.coll τ) :=
  WF.of_mems (fun z hz => (setOp_mem_sub hz).elim (fun m => hx.mem m) (fun m => hy.mem m)) (setOp_sorted t xs ys)

theorem setOp_agrees {t : Tok} (ht : isSetOp t) {xs ys : List Val} {τ : Ty} (hn : noAny τ = true)
    (hx : WF (.s xs) (.coll τ)) (hy : WF (.s ys) (.coll τ)) :
    Val.s (setOp t xs ys) = setOpSpec t xs ys := by
  have hc := WF.pairComparable hn hx hy
  rcases ht with rfl | rfl | rfl | rfl
  · exact SetOps.union_agrees xs ys
  · exact SetOps.inter_agrees xs ys hx.sorted hc
  · exact SetOps.diff_agrees xs ys hy.sorted hc
  · exact SetOps.symDiff_agrees xs ys hx.sorted hy.sorted hc

/-! ## membership and inclusion -/

theorem mem_agrees_WF {x : Val} {ys : List Val} {τ : Ty} (hn : noAny τ = true) (hx : WF x τ)
    (hy : WF (.s ys) (.coll τ)) : Val.mem x ys = isMember x ys :=
  SetOps.mem_agrees x ys hy.sorted (fun y m => WF.comparable hn hx (hy.mem m))

theorem subsetEq_agrees_WF {xs ys : List Val} {τ : Ty} (hn : noAny τ = true) (hx : WF (.s xs) (.coll τ))
    (hy : WF (.s ys) (.coll τ)) : subsetEq xs ys = isSubset xs ys :=
  SetOps.subsetEq_agrees xs ys hy.sorted (WF.pairComparable hn hx hy)

theorem isSubset_refl (xs : List Val) : isSubset xs xs = true := by
  simp [isSubset, isMember]

theorem isSubset_antisymm {xs ys : List Val} (h1 : sortedStrict xs = true) (h2 : sortedStrict ys = true)
    (a : isSubset xs ys = true) (b : isSubset ys xs = true) : xs = ys := by
  apply sorted_ext h1 h2
  intro x
  simp only [isSubset, List.all_eq_true, isMember, List.contains_iff_mem] at a b
  exact ⟨fun m => a x m, fun m => b x m⟩

/-- the answer of `ViSetexprBinary` for `⊂ ⊆ ⊄` -/
def subRes (t : Tok) (xs ys : List Val) : Bool :=
  if t == .SUBSET && Val.cmp (.s xs) (.s ys) == .eq then false
  else if t == .NOTSUBSET && Val.cmp (.s xs) (.s ys) == .eq then true
  else if t == .NOTSUBSET then !Val.subsetEq xs ys else Val.subsetEq xs ys

theorem sub_agrees {t : Tok} (ht : isSubTok t) {xs ys : List Val} {τ : Ty} (hn : noAny τ = true)
    (hx : WF (.s xs) (.coll τ)) (hy : WF (.s ys) (.coll τ)) : subRes t xs ys = subSpec t xs ys := by
  have e := subsetEq_agrees_WF hn hx hy
  unfold subRes subSpec
  rw [cmp_beq_eq, e]
  by_cases hxy : xs = ys
  · subst hxy
    rcases ht with rfl | rfl | rfl <;> simp [isSubset_refl, tok_beq]
  · have hne : ¬ (Val.s xs = Val.s ys) := fun h => hxy (by injection h)
    have key : isSubset xs ys = true → isSubset ys xs = false := by
      intro a
      cases hb : isSubset ys xs with
      | false => rfl
      | true => exact absurd (isSubset_antisymm hx.sorted hy.sorted a hb) hxy
    rcases ht with rfl | rfl | rfl <;> simp only [hne, decide_false, Bool.and_false, tok_beq] <;>
      cases ha : isSubset xs ys <;> simp [ha, key]

/-! ## enumerations, tuples -/

theorem mkSet_WF {vs : List Val} {τ : Ty} (h : ∀ v ∈ vs, WF v τ) : WF (mkSet vs) (.coll τ) := by
  unfold mkSet
  refine WF.of_mems (fun z hz => ?_) (mkSetList_sorted vs)
  rcases mem_insertAll_of vs (show z ∈ insertAll [] vs from hz) with m | m
  · simp at m
  · exact h z m

theorem singleton_WF {v : Val} {τ : Ty} (h : WF v τ) : WF (.s [v]) (.coll τ) :=
  WF.of_mems (fun z hz => by simp at hz; rw [hz]; exact h) (by simp [sortedStrict])

theorem setOf_singleton (v : Val) : setOf [v] = .s [v] := by
  simp [setOf, mkSet, mkSetList, insertAll, Val.insert]

/-- a list of values typed component-wise and canonical -/
def WFs (vs : List Val) (ts : List Ty) : Prop := hasTyList vs ts = true ∧ canonAll vs = true

theorem WFs_nil : WFs [] [] := by simp [WFs, hasTyList, canonAll]

theorem WFs_snoc {vs : List Val} {ts : List Ty} {v : Val} {τ : Ty} (h : WFs vs ts) (hv : WF v τ) :
    WFs (vs ++ [v]) (ts ++ [τ]) := by
  induction vs generalizing ts with
  | nil =>
    cases ts with
    | nil => simpa [WF, WFs, hasTyList, canonAll] using hv
    | cons _ _ => simp [WFs, hasTyList] at h
  | cons a vs ih =>
    cases ts with
    | nil => simp [WFs, hasTyList] at h
    | cons b ts =>
      simp only [WFs, hasTyList, canonAll, Bool.and_eq_true, List.cons_append] at h ⊢
      have := ih (ts := ts) ⟨h.1.2, h.2.2⟩
      exact ⟨⟨h.1.1, this.1⟩, h.2.1, this.2⟩

theorem WFs_length {vs : List Val} {ts : List Ty} (h : WFs vs ts) : vs.length = ts.length := hasTyList_length h.1

theorem mkTuple_WF {vs : List Val} {ts : List Ty} (h : WFs vs ts) (hl : vs.length ≥ 2) :
    mkTuple vs = some (.t vs) ∧ WF (.t vs) (.tuple ts) := by
  constructor
  · match vs, hl with
    | _ :: _ :: _, _ => rfl
  · simp [WF, hasTy, canon, h.1, h.2, hl]

/-! ## projections -/

def compTy (ts : List Ty) (i : Int) : Option Ty := if i ≥ 1 then ts[(i - 1).toNat]? else none
def mkTupleTy : List Ty → Option Ty
  | [] => none
  | [ty] => some ty
  | ts => some (.tuple ts)
/-- type of `pr i,j,…` on a tuple of type `ts` -/
def projTy (ts : List Ty) (idx : List Int) : Option Ty := (idx.mapM (compTy ts)).bind mkTupleTy

theorem component_eq_nth (v : Val) (i : Int) : component v i = nth v i := by
  cases v <;> rfl

theorem project_eq_select (v : Val) (idx : List Int) : Val.project v idx = select v idx := by
  unfold Val.project components select
  have : (fun i => component v i) = nth v := funext (component_eq_nth v)
  rw [show component v = nth v from this]
  cases h : List.mapM (nth v) idx with
  | none => rfl
  | some l =>
    match l with
    | [] => rfl
    | [_] => rfl
    | _ :: _ :: _ => rfl

theorem hasTyList_get : ∀ {cs : List Val} {ts : List Ty} {n : Nat} {τ : Ty}, WFs cs ts → ts[n]? = some τ →
    ∃ c, cs[n]? = some c ∧ WF c τ
  | [], [], n, τ, _, h => by simp at h
  | [], _ :: _, _, _, h, _ | _ :: _, [], _, _, h, _ => by simp [WFs, hasTyList] at h
  | c :: cs, _ :: ts, 0, τ, h, hn => by
    simp only [WFs, hasTyList, canonAll, Bool.and_eq_true] at h
    simp only [List.getElem?_cons_zero, Option.some.injEq] at hn
    subst hn
    exact ⟨c, rfl, h.1.1, h.2.1⟩
  | c :: cs, _ :: ts, n + 1, τ, h, hn => by
    simp only [WFs, hasTyList, canonAll, Bool.and_eq_true] at h
    simp only [List.getElem?_cons_succ] at hn ⊢
    exact hasTyList_get ⟨h.1.2, h.2.2⟩ hn

theorem WF_tuple_iff {cs : List Val} {ts : List Ty} :
    WF (.t cs) (.tuple ts) ↔ WFs cs ts ∧ cs.length ≥ 2 := by
  simp [WF, WFs, hasTy, canon]
  constructor
  · rintro ⟨a, b, c⟩; exact ⟨⟨a, c⟩, b⟩
  · rintro ⟨⟨a, c⟩, b⟩; exact ⟨a, b, c⟩

theorem component_WF {cs : List Val} {ts : List Ty} {i : Int} {τ : Ty} (h : WFs cs ts) (hi : compTy ts i = some τ) :
    ∃ c, component (.t cs) i = some c ∧ WF c τ := by
  unfold compTy at hi
  unfold component
  split at hi
  · rename_i h1; simp only [h1, if_true]; exact hasTyList_get h hi
  · simp at hi

theorem components_WF {cs : List Val} {ts : List Ty} (h : WFs cs ts) : ∀ {idx : List Int} {σ : List Ty},
    idx.mapM (compTy ts) = some σ → ∃ rs, components (.t cs) idx = some rs ∧ WFs rs σ
  | [], σ, hm => by
    simp at hm; subst hm
    exact ⟨[], by simp [components], WFs_nil⟩
  | i :: idx, σ, hm => by
    simp only [List.mapM_cons, Option.pure_def, Option.bind_eq_bind] at hm
    cases h1 : compTy ts i with
    | none => simp [h1] at hm
    | some τ =>
      cases h2 : List.mapM (compTy ts) idx with
      | none => simp [h1, h2] at hm
      | some σ' =>
        simp [h1, h2] at hm
        subst hm
        obtain ⟨c, hc, wc⟩ := component_WF h h1
        obtain ⟨rs, hr, wr⟩ := components_WF h h2
        refine ⟨c :: rs, ?_, ?_⟩
        · unfold components at hr ⊢
          simp [List.mapM_cons, hc, hr]
        · simp only [WFs, hasTyList, canonAll, Bool.and_eq_true]
          exact ⟨⟨wc.1, wr.1⟩, wc.2, wr.2⟩

theorem mkTuple_mkTupleTy {rs : List Val} {σ : List Ty} {τ : Ty} (h : WFs rs σ) (hm : mkTupleTy σ = some τ) :
    ∃ r, mkTuple rs = some r ∧ WF r τ := by
  match σ, rs, h, hm with
  | [], _, _, hm => simp [mkTupleTy] at hm
  | [_], [r], h, hm =>
    simp only [mkTupleTy, Option.some.injEq] at hm; subst hm
    simp only [WFs, hasTyList, canonAll, Bool.and_eq_true, Bool.and_true] at h
    exact ⟨r, rfl, h.1, h.2⟩
  | [_], [], h, _ | [_], _ :: _ :: _, h, _ => simp [WFs, hasTyList] at h
  | _ :: _ :: σ', rs, h, hm =>
    simp only [mkTupleTy, Option.some.injEq] at hm; subst hm
    have hl : rs.length ≥ 2 := by rw [WFs_length h]; simp
    exact ⟨.t rs, (mkTuple_WF h hl).1, (mkTuple_WF h hl).2⟩

theorem project_WF {v : Val} {ts : List Ty} {idx : List Int} {τ : Ty} (h : WF v (.tuple ts))
    (hp : projTy ts idx = some τ) : ∃ r, Val.project v idx = some r ∧ WF r τ := by
  cases v with
  | e _ => simp [WF, hasTy] at h
  | s _ => simp [WF, hasTy] at h
  | t cs =>
    unfold projTy at hp
    cases hm : List.mapM (compTy ts) idx with
    | none => simp [hm] at hp
    | some σ =>
      simp [hm] at hp
      obtain ⟨rs, hr, wr⟩ := components_WF (WF_tuple_iff.mp h).1 hm
      obtain ⟨r, e, w⟩ := mkTuple_mkTupleTy wr hp
      exact ⟨r, by simp [Val.project, hr, e], w⟩

theorem mapM_project_WF {ts : List Ty} {idx : List Int} {τ : Ty} (hp : projTy ts idx = some τ) :
    ∀ {xs : List Val}, (∀ x ∈ xs, WF x (.tuple ts)) →
      ∃ rs, xs.mapM (fun x => Val.project x idx) = some rs ∧ ∀ r ∈ rs, WF r τ
  | [], _ => ⟨[], by simp, by simp⟩
  | x :: xs, h => by
    obtain ⟨r, e, w⟩ := project_WF (h x (by simp)) hp
    obtain ⟨rs, es, ws⟩ := mapM_project_WF hp (xs := xs) (fun y hy => h y (by simp [hy]))
    refine ⟨r :: rs, by simp [List.mapM_cons, e, es], ?_⟩
    intro y hy
    rcases List.mem_cons.mp hy with rfl | m
    · exact w
    · exact ws y m

theorem projSet_WF {xs : List Val} {ts : List Ty} {idx : List Int} {τ : Ty} (h : WF (.s xs) (.coll (.tuple ts)))
    (hp : projTy ts idx = some τ) :
    ∃ r, projSet xs idx = some r ∧ WF (.s r) (.coll τ) ∧ (xs.mapM (select · idx)).map setOf = some (.s r) := by
  obtain ⟨rs, e, w⟩ := mapM_project_WF hp (xs := xs) (fun x hx => h.mem hx)
  refine ⟨mkSetList rs, by simp [projSet, e], mkSet_WF w, ?_⟩
  have : (fun x => select x idx) = fun x => Val.project x idx := funext fun x => (project_eq_select x idx).symm
  rw [this, e]
  rfl

/-! ## `red`, `debool` -/

theorem reduce_eq (xs : List Val) :
    Val.reduce xs = (xs.mapM members).map (fun ls => mkSetList ls.flatten) := by
  unfold Val.reduce
  congr 2

theorem mapM_members_WF {τ : Ty} : ∀ {xs : List Val}, (∀ x ∈ xs, WF x (.coll τ)) →
    ∃ ls, xs.mapM members = some ls ∧ ∀ l ∈ ls, ∀ y ∈ l, WF y τ
  | [], _ => ⟨[], by simp, by simp⟩
  | x :: xs, h => by
    obtain ⟨ls, e, w⟩ := mapM_members_WF (xs := xs) (fun y hy => h y (by simp [hy]))
    have hx := h x (by simp)
    cases x with
    | e _ => simp [WF, hasTy] at hx
    | t _ => simp [WF, hasTy] at hx
    | s ys =>
      refine ⟨ys :: ls, by simp [List.mapM_cons, members, e], ?_⟩
      intro l hl y hy
      rcases List.mem_cons.mp hl with rfl | m
      · exact hx.mem hy
      · exact w l m y hy

theorem reduce_WF {xs : List Val} {τ : Ty} (h : WF (.s xs) (.coll (.coll τ))) :
    ∃ r, Val.reduce xs = some r ∧ WF (.s r) (.coll τ) ∧
      (xs.mapM members).map (fun ls => setOf ls.flatten) = some (.s r) := by
  obtain ⟨ls, e, w⟩ := mapM_members_WF (xs := xs) (fun x hx => h.mem hx)
  refine ⟨mkSetList ls.flatten, by simp [reduce_eq, e], ?_, by simp [e, setOf, mkSet]⟩
  apply mkSet_WF
  intro v hv
  obtain ⟨l, hl, hvl⟩ := List.mem_flatten.mp hv
  exact w l hl v hvl

/-! ## accumulating a set (`ViDeclarative`) -/

theorem insert_WF {x : Val} {acc : List Val} {τ : Ty} (hx : WF x τ) (ha : WF (.s acc) (.coll τ)) :
    WF (.s (Val.insert x acc)) (.coll τ) :=
  WF.of_mems (fun z hz => (mem_insert_of hz).elim (fun e => e ▸ hx) (fun m => ha.mem m)) (insert_sorted ha.sorted)

/-! ## types stay R0-free -/

theorem compTy_noAny {ts : List Ty} {i : Int} {τ : Ty} (hn : noAnyList ts = true) (h : compTy ts i = some τ) :
    noAny τ = true := by
  unfold compTy at h
  split at h
  · generalize (i - 1).toNat = n at h
    induction ts generalizing n with
    | nil => simp at h
    | cons t ts ih =>
      simp only [noAnyList, Bool.and_eq_true] at hn
      cases n with
      | zero => simp at h; subst h; exact hn.1
      | succ n => simp at h; exact ih hn.2 n h
  · simp at h

theorem mapM_compTy_noAny {ts : List Ty} (hn : noAnyList ts = true) : ∀ {idx : List Int} {σ : List Ty},
    idx.mapM (compTy ts) = some σ → noAnyList σ = true
  | [], σ, h => by simp at h; subst h; rfl
  | i :: idx, σ, h => by
    simp only [List.mapM_cons, Option.pure_def, Option.bind_eq_bind] at h
    cases h1 : compTy ts i with
    | none => simp [h1] at h
    | some τ =>
      cases h2 : List.mapM (compTy ts) idx with
      | none => simp [h1, h2] at h
      | some σ' =>
        simp [h1, h2] at h
        subst h
        simp [noAnyList, compTy_noAny hn h1, mapM_compTy_noAny hn h2]

theorem projTy_noAny {ts : List Ty} {idx : List Int} {τ : Ty} (hn : noAnyList ts = true)
    (h : projTy ts idx = some τ) : noAny τ = true := by
  unfold projTy at h
  cases hm : List.mapM (compTy ts) idx with
  | none => simp [hm] at h
  | some σ =>
    simp [hm] at h
    have := mapM_compTy_noAny hn hm
    match σ, h, this with
    | [], h, _ => simp [mkTupleTy] at h
    | [_], h, hs => simp [mkTupleTy] at h; subst h; simpa [noAnyList] using hs
    | _ :: _ :: r, h, hs => simp [mkTupleTy] at h; subst h; simpa [noAny] using hs

end CCVerif.Eval
