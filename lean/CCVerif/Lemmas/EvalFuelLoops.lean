import CCVerif.Lemmas.EvalFuelNoOOF
/-!
Fuel of the evaluator model, part 6: the loops of `R{}` / `I{}` never exhaust their own bound.

`recLoop` / `impLoop` are started with the bound `MAX_ITERATIONS + 2`.  Every round adds at least one to the iteration
counter, the counter never decreases (`Adv`: a successful visit returns a counter at least as large as the one it was
started with), and a round that would push the counter beyond `MAX_ITERATIONS` ends with the documented error
`iterationsLimit`.  Hence `bound + counter ≥ MAX_ITERATIONS + 2` is an invariant and the bound is never the reason to stop.
-/
namespace CCVerif.Eval
open CCVerif.Syntax CCVerif.Norm

/-- `r` is not `outOfFuel`, and a successful `r` carries an iteration counter of at least `n0` -/
def Adv {α} (n0 : Nat) (r : R α) : Prop := NoOOF r ∧ ∀ a st', r = .ok a st' → n0 ≤ st'.iters

theorem Adv.ok {α} {n0 : Nat} (a : α) {st : St} (h : n0 ≤ st.iters) : Adv n0 (R.ok a st) :=
  ⟨NoOOF.ok _ _, fun _ _ e => by cases e; exact h⟩

theorem Adv.fail_ne {α} {n0 : Nat} {f : Fail} (k : Nat) (h : f ≠ .outOfFuel) : Adv n0 (R.fail (α := α) f k) :=
  ⟨NoOOF.fail_ne k h, fun _ _ e => by cases e⟩

theorem Adv.mono {α} {m n0 : Nat} {r : R α} (h : Adv n0 r) (hm : m ≤ n0) : Adv m r :=
  ⟨h.1, fun a st' e => Nat.le_trans hm (h.2 a st' e)⟩

theorem Adv.of_fail {α β} {n0 m : Nat} {r : R α} (h : Adv n0 r) {f : Fail} {k : Nat} (e : r = .fail f k) :
    Adv m (R.fail (α := β) f k) :=
  ⟨h.1.of_fail e, fun _ _ e => by cases e⟩

theorem Adv.le {α} {n0 : Nat} {r : R α} (h : Adv n0 r) {a : α} {st' : St} (e : r = .ok a st') : n0 ≤ st'.iters :=
  h.2 a st' e

theorem Adv.asVal {n0 : Nat} {r : R V} (h : Adv n0 r) : Adv n0 r.asVal := by
  refine ⟨h.1.asVal, ?_⟩
  intro a st' e
  cases r with
  | fail f n => cases e
  | ok v st =>
    cases v with
    | bool b => cases e
    | val w => cases e; exact h.2 _ _ rfl

theorem Adv.asSet {n0 : Nat} {r : R V} (h : Adv n0 r) : Adv n0 r.asSet := by
  refine ⟨h.1.asSet, ?_⟩
  intro a st' e
  cases r with
  | fail f n => cases e
  | ok v st =>
    cases v with
    | bool b => cases e
    | val w => cases w <;> cases e; exact h.2 _ _ rfl

theorem Adv.asInt {n0 : Nat} {r : R V} (h : Adv n0 r) : Adv n0 r.asInt := by
  refine ⟨h.1.asInt, ?_⟩
  intro a st' e
  cases r with
  | fail f n => cases e
  | ok v st =>
    cases v with
    | bool b => cases e
    | val w => cases w <;> cases e; exact h.2 _ _ rfl

theorem Adv.asBool {n0 : Nat} {r : R V} (h : Adv n0 r) : Adv n0 r.asBool := by
  refine ⟨h.1.asBool, ?_⟩
  intro a st' e
  cases r with
  | fail f n => cases e
  | ok v st =>
    cases v with
    | val w => cases e
    | bool b => cases e; exact h.2 _ _ rfl

theorem restoreSlot_adv {n0 var : Nat} {saved : Val} {r : R V} (h : Adv n0 r) : Adv n0 (restoreSlot var saved r) := by
  cases r with
  | ok v st => exact Adv.ok _ (h.2 v st rfl)
  | fail f k => exact h

theorem restoreSlots_adv {n0 : Nat} {saved : List (Nat × Val)} {r : R V} (h : Adv n0 r) : Adv n0 (restoreSlots saved r) := by
  cases r with
  | ok v st => exact Adv.ok _ (h.2 v st rfl)
  | fail f k => exact h

/-- a visit that never answers `outOfFuel` and never decreases the iteration counter -/
def AdvF (g : St → R V) : Prop := ∀ st, Adv st.iters (g st)

theorem quantLoop_adv (body : St → R V) (var : Nat) (univ : Bool) (pos : Int) (hb : AdvF body) :
    ∀ (dom : List Val) (st : St), Adv st.iters (quantLoop body var univ pos dom st)
  | [], st => by simp only [quantLoop]; exact Adv.ok _ (Nat.le_refl _)
  | x :: xs, st => by
    simp only [quantLoop]
    split
    · exact Adv.fail_ne _ (by intro h; cases h)
    · cases hr : body { data := st.data.set var x, iters := st.iters + 1 } with
      | fail f k => exact (hb _).of_fail hr
      | ok v st' =>
        have hle : st.iters + 1 ≤ st'.iters := (hb _).le hr
        cases v with
        | val w => exact Adv.fail_ne _ (by intro h; cases h)
        | bool b =>
          dsimp only
          split
          · exact Adv.ok _ (by omega)
          · exact (quantLoop_adv body var univ pos hb xs st').mono (by omega)

theorem declLoop_adv (body : St → R V) (var : Nat) (pos : Int) (hb : AdvF body) :
    ∀ (dom acc : List Val) (st : St), Adv st.iters (declLoop body var pos dom acc st)
  | [], acc, st => by simp only [declLoop]; exact Adv.ok _ (Nat.le_refl _)
  | x :: xs, acc, st => by
    simp only [declLoop]
    split
    · exact Adv.fail_ne _ (by intro h; cases h)
    · cases hr : body { data := st.data.set var x, iters := st.iters + 1 } with
      | fail f k => exact (hb _).of_fail hr
      | ok v st' =>
        have hle : st.iters + 1 ≤ st'.iters := (hb _).le hr
        cases v with
        | val w => exact Adv.fail_ne _ (by intro h; cases h)
        | bool b => exact (declLoop_adv body var pos hb xs _ st').mono (by omega)

/-- the condition of one round of `ViRecursion` -/
def recCondF (cond : Option (St → R V)) (st1 : St) : R Bool :=
  match cond with
  | none => .ok true st1
  | some c =>
    match c st1 with
    | .fail f k => .fail f k
    | .ok (.val _) st2 => .fail (.stuck "ViRecursion get<bool>") st2.iters
    | .ok (.bool b) st2 => .ok b st2

theorem recLoop_succF (cond : Option (St → R V)) (body : St → R V) (var : Nat) (pos : Int) (fuel : Nat) (current : Val) (st : St) :
    recLoop cond body var pos (fuel + 1) current st =
      if st.iters + 1 > MAX_ITERATIONS then .fail (.err EID.iterationsLimit pos) (st.iters + 1) else
      match recCondF cond { data := st.data.set var current, iters := st.iters + 1 } with
      | .fail f k => .fail f k
      | .ok false st2 => .ok (.val current) st2
      | .ok true st2 =>
        match body st2 with
        | .fail f k => .fail f k
        | .ok (.bool _) st3 => .fail (.stuck "ViRecursion get<StructuredData>") st3.iters
        | .ok (.val next) st3 =>
          match st3.data[var]? with
          | none => .fail (.stuck "ViRecursion idsData[varID]") st3.iters
          | some old =>
            if Val.cmp old next != .eq then recLoop cond body var pos fuel next st3
            else .ok (.val next) st3 := by
  cases cond <;> rfl

theorem recCondF_adv (cond : Option (St → R V)) (hc : ∀ c, cond = some c → AdvF c) (st1 : St) :
    Adv st1.iters (recCondF cond st1) := by
  cases cond with
  | none => exact Adv.ok _ (Nat.le_refl _)
  | some c =>
    simp only [recCondF]
    cases hr : c st1 with
    | fail f k => exact (hc c rfl _).of_fail hr
    | ok v st2 =>
      cases v with
      | val w => exact Adv.fail_ne _ (by intro h; cases h)
      | bool b => exact Adv.ok _ ((hc c rfl _).le hr)

/-- **the bound of `R{}` is never exhausted**: while `bound + counter > MAX_ITERATIONS + 1` the loop stops by itself - with
its value, with an error of the condition / the body, or with `iterationsLimit` -/
theorem recLoop_adv (cond : Option (St → R V)) (body : St → R V) (var : Nat) (pos : Int)
    (hc : ∀ c, cond = some c → AdvF c) (hb : AdvF body) :
    ∀ (fuel : Nat) (cur : Val) (st : St), MAX_ITERATIONS + 1 ≤ fuel + st.iters →
      Adv st.iters (recLoop cond body var pos (fuel + 1) cur st) := by
  intro fuel
  induction fuel with
  | zero =>
    intro cur st h
    rw [recLoop_succF, if_pos (by omega)]
    exact Adv.fail_ne _ (by intro h; cases h)
  | succ fuel ih =>
    intro cur st h
    rw [recLoop_succF]
    split
    · exact Adv.fail_ne _ (by intro h; cases h)
    · have hcond := recCondF_adv cond hc { data := st.data.set var cur, iters := st.iters + 1 }
      cases hac : recCondF cond { data := st.data.set var cur, iters := st.iters + 1 } with
      | fail f k => exact hcond.of_fail hac
      | ok b st2 =>
        have h2 : st.iters + 1 ≤ st2.iters := hcond.le hac
        cases b with
        | false => exact Adv.ok _ (by omega)
        | true =>
          dsimp only
          cases hr : body st2 with
          | fail f k => exact (hb _).of_fail hr
          | ok v st3 =>
            have h3 : st2.iters ≤ st3.iters := (hb _).le hr
            cases v with
            | bool b => exact Adv.fail_ne _ (by intro h; cases h)
            | val next =>
              dsimp only
              cases st3.data[var]? with
              | none => exact Adv.fail_ne _ (by intro h; cases h)
              | some old =>
                dsimp only
                split
                · exact (ih next st3 (by omega)).mono (by omega)
                · exact Adv.ok _ (by omega)

theorem recLoop_adv_top (cond : Option (St → R V)) (body : St → R V) (var : Nat) (pos : Int)
    (hc : ∀ c, cond = some c → AdvF c) (hb : AdvF body) (cur : Val) (st : St) :
    Adv st.iters (recLoop cond body var pos (MAX_ITERATIONS + 2) cur st) :=
  recLoop_adv cond body var pos hc hb (MAX_ITERATIONS + 1) cur st (by omega)

/-! ## `I{}` -/

/-- one block of `ImpEvaluator::Evaluate` (`SaveElement` / `ProcessBlock`) -/
def impStepF (nKids : Nat) (metas : List BlockMeta) (evalKid domKid : Nat → St → R V) (current : Nat)
    (stack : List (Nat × List Val)) (acc : List Val) (st : St) : R (Bool × List (Nat × List Val) × List Val) :=
  if current + 1 ≥ nKids then
    match evalKid 0 st with
    | .fail f k => .fail f k
    | .ok (.bool _) st' => .fail (.stuck "SaveElement get<StructuredData>") st'.iters
    | .ok (.val v) st' => .ok (true, stack, Val.insert v acc) st'
  else
    match metas[current]? with
    | none => .fail (.stuck "metaData.at(current)") st.iters
    | some m =>
      if m.rootID == .ITERATE then
        match domKid (current + 1) st with
        | .fail f k => .fail f k
        | .ok (.bool _) st' => .fail (.stuck "ExtractDomain get<StructuredData>") st'.iters
        | .ok (.val (.s [])) st' => .ok (true, stack, acc) st'
        | .ok (.val (.s (x :: xs))) st' =>
          .ok (false, (current, xs) :: stack, acc) { st' with data := st'.data.set m.arg x }
        | .ok (.val _) st' => .fail (.stuck "ITERATE domain->B()") st'.iters
      else if m.rootID == .ASSIGN then
        match domKid (current + 1) st with
        | .fail f k => .fail f k
        | .ok (.bool _) st' => .fail (.stuck "ExtractDomain get<StructuredData>") st'.iters
        | .ok (.val v) st' => .ok (false, stack, acc) { st' with data := st'.data.set m.arg v }
      else
        match evalKid (current + 1) st with
        | .fail f k => .fail f k
        | .ok (.val _) st' => .fail .quiet st'.iters
        | .ok (.bool b) st' => .ok (!b, stack, acc) st'

/-- `PrepareNextIteration` on the interpreter state -/
def impNextF (metas : List BlockMeta) (current : Nat) (incr : Bool) (stack1 : List (Nat × List Val)) (st1 : St) :
    Option (Nat × List (Nat × List Val) × St) :=
  if incr then
    match prepareNext metas stack1 st1.data with
    | none => none
    | some (blk, stack2, data2) => some (blk, stack2, { st1 with data := data2 })
  else some (current, stack1, st1)

theorem impLoop_succF (nKids : Nat) (metas : List BlockMeta) (evalKid domKid : Nat → St → R V) (pos : Int) (fuel current : Nat)
    (stack : List (Nat × List Val)) (acc : List Val) (st : St) :
    impLoop nKids metas evalKid domKid pos (fuel + 1) current stack acc st =
      match impStepF nKids metas evalKid domKid current stack acc st with
      | .fail f k => .fail f k
      | .ok (incr, stack1, acc1) st1 =>
        match impNextF metas current incr stack1 st1 with
        | none => .ok (.val (.s acc1)) st1
        | some (cur2, stack2, st2) =>
          if st2.iters + 1 > MAX_ITERATIONS then .fail (.err EID.iterationsLimit pos) (st2.iters + 1)
          else impLoop nKids metas evalKid domKid pos fuel (cur2 + 1) stack2 acc1 { st2 with iters := st2.iters + 1 } := rfl

theorem impStepF_adv (nKids : Nat) (metas : List BlockMeta) (evalKid domKid : Nat → St → R V)
    (he : ∀ i, AdvF (evalKid i)) (hd : ∀ i, AdvF (domKid i)) (current : Nat) (stack : List (Nat × List Val)) (acc : List Val)
    (st : St) : Adv st.iters (impStepF nKids metas evalKid domKid current stack acc st) := by
  unfold impStepF
  split
  · cases hr : evalKid 0 st with
    | fail f k => exact (he 0 st).of_fail hr
    | ok v st' =>
      have := (he 0 st).le hr
      cases v with
      | bool b => exact Adv.fail_ne _ (by intro h; cases h)
      | val w => exact Adv.ok _ this
  · cases metas[current]? with
    | none => exact Adv.fail_ne _ (by intro h; cases h)
    | some m =>
      dsimp only
      split
      · cases hr : domKid (current + 1) st with
        | fail f k => exact (hd _ st).of_fail hr
        | ok v st' =>
          have := (hd _ st).le hr
          cases v with
          | bool b => exact Adv.fail_ne _ (by intro h; cases h)
          | val w =>
            cases w with
            | s xs =>
              cases xs with
              | nil => exact Adv.ok _ this
              | cons x xs => exact Adv.ok _ this
            | e n => exact Adv.fail_ne _ (by intro h; cases h)
            | t l => exact Adv.fail_ne _ (by intro h; cases h)
      · split
        · cases hr : domKid (current + 1) st with
          | fail f k => exact (hd _ st).of_fail hr
          | ok v st' =>
            have := (hd _ st).le hr
            cases v with
            | bool b => exact Adv.fail_ne _ (by intro h; cases h)
            | val w => exact Adv.ok _ this
        · cases hr : evalKid (current + 1) st with
          | fail f k => exact (he _ st).of_fail hr
          | ok v st' =>
            have := (he _ st).le hr
            cases v with
            | val w => exact Adv.fail_ne _ (by intro h; cases h)
            | bool b => exact Adv.ok _ this

theorem impNextF_iters {metas : List BlockMeta} {current : Nat} {incr : Bool} {stack1 : List (Nat × List Val)} {st1 : St}
    {cur2 : Nat} {stack2 : List (Nat × List Val)} {st2 : St}
    (h : impNextF metas current incr stack1 st1 = some (cur2, stack2, st2)) : st2.iters = st1.iters := by
  unfold impNextF at h
  split at h
  · cases hp : prepareNext metas stack1 st1.data with
    | none => rw [hp] at h; cases h
    | some q =>
      obtain ⟨blk, stack2', data2⟩ := q
      rw [hp] at h
      injection h with h
      injection h with _ h
      injection h with _ h
      subst h; rfl
  · injection h with h
    injection h with _ h
    injection h with _ h
    subst h; rfl

/-- **the bound of `I{}` is never exhausted** -/
theorem impLoop_adv (nKids : Nat) (metas : List BlockMeta) (evalKid domKid : Nat → St → R V) (pos : Int)
    (he : ∀ i, AdvF (evalKid i)) (hd : ∀ i, AdvF (domKid i)) :
    ∀ (fuel current : Nat) (stack : List (Nat × List Val)) (acc : List Val) (st : St), MAX_ITERATIONS + 1 ≤ fuel + st.iters →
      Adv st.iters (impLoop nKids metas evalKid domKid pos (fuel + 1) current stack acc st) := by
  intro fuel
  induction fuel with
  | zero =>
    intro current stack acc st h
    rw [impLoop_succF]
    have hs := impStepF_adv nKids metas evalKid domKid he hd current stack acc st
    cases hr : impStepF nKids metas evalKid domKid current stack acc st with
    | fail f k => exact hs.of_fail hr
    | ok q st1 =>
      obtain ⟨incr, stack1, acc1⟩ := q
      have h1 := hs.le hr
      dsimp only
      cases hn : impNextF metas current incr stack1 st1 with
      | none => exact Adv.ok _ h1
      | some q2 =>
        obtain ⟨cur2, stack2, st2⟩ := q2
        have h2 := impNextF_iters hn
        dsimp only
        rw [if_pos (by omega)]
        exact Adv.fail_ne _ (by intro h; cases h)
  | succ fuel ih =>
    intro current stack acc st h
    rw [impLoop_succF]
    have hs := impStepF_adv nKids metas evalKid domKid he hd current stack acc st
    cases hr : impStepF nKids metas evalKid domKid current stack acc st with
    | fail f k => exact hs.of_fail hr
    | ok q st1 =>
      obtain ⟨incr, stack1, acc1⟩ := q
      have h1 := hs.le hr
      dsimp only
      cases hn : impNextF metas current incr stack1 st1 with
      | none => exact Adv.ok _ h1
      | some q2 =>
        obtain ⟨cur2, stack2, st2⟩ := q2
        have h2 := impNextF_iters hn
        dsimp only
        split
        · exact Adv.fail_ne _ (by intro h; cases h)
        · exact (ih (cur2 + 1) stack2 acc1 { st2 with iters := st2.iters + 1 } (by show _ ≤ fuel + (st2.iters + 1); omega)).mono
            (by show st.iters ≤ st2.iters + 1; omega)

theorem impLoop_adv_top (nKids : Nat) (metas : List BlockMeta) (evalKid domKid : Nat → St → R V) (pos : Int)
    (he : ∀ i, AdvF (evalKid i)) (hd : ∀ i, AdvF (domKid i)) (current : Nat) (stack : List (Nat × List Val)) (acc : List Val)
    (st : St) : Adv st.iters (impLoop nKids metas evalKid domKid pos (MAX_ITERATIONS + 2) current stack acc st) :=
  impLoop_adv nKids metas evalKid domKid pos he hd (MAX_ITERATIONS + 1) current stack acc st (by omega)

/-- left-to-right evaluation of a list of children -/
theorem foldl_R_adv {α β} {n0 : Nat} {step : R α → β → R α} (hf : ∀ f k x, step (.fail f k) x = .fail f k)
    (hs : ∀ a st x, n0 ≤ st.iters → Adv n0 (step (.ok a st) x)) :
    ∀ (l : List β) (init : R α), Adv n0 init → Adv n0 (l.foldl step init)
  | [], _, h => h
  | x :: xs, init, h => by
    simp only [List.foldl_cons]
    apply foldl_R_adv hf hs xs
    cases init with
    | fail f k => rw [hf]; exact h
    | ok a st => exact hs a st x (h.le rfl)

theorem Adv.fail_err {α} {n0 : Nat} (e : Nat) (p : Int) (k : Nat) : Adv n0 (R.fail (α := α) (.err e p) k) :=
  Adv.fail_ne k (by intro h; cases h)
theorem Adv.fail_stuck {α} {n0 : Nat} (s : String) (k : Nat) : Adv n0 (R.fail (α := α) (.stuck s) k) :=
  Adv.fail_ne k (by intro h; cases h)
theorem Adv.fail_quiet {α} {n0 : Nat} (k : Nat) : Adv n0 (R.fail (α := α) .quiet k) :=
  Adv.fail_ne k (by intro h; cases h)

/-- the two tokens whose evaluation materialises a lazy set of the C++ -/
def matTok (t : Tok) : Bool := t == .DECART || t == .BOOLEAN

set_option maxHeartbeats 1000000 in
/-- one visit: if the visits of the children never answer `outOfFuel` and never decrease the counter, neither does the
node - whatever its token, `R{}` / `I{}` / filters included; the two materialising tokens are a hypothesis -/
theorem evCore_adv (c : Ctx) (ch dk : Nat → St → R V) (lz : Ast → St → R V) (a : Ast) (p : Option Tok) (st : St)
    (hch : ∀ i, AdvF (ch i)) (hdk : ∀ i, AdvF (dk i)) (hlz : ∀ b, AdvF (lz b))
    (hmat : matTok a.id = true → Adv st.iters (evCore c ch dk lz a p st)) :
    Adv st.iters (evCore c ch dk lz a p st) := by
  cases hm : matTok a.id with
  | true => exact hmat hm
  | false =>
  clear hmat
  have hmat := hm
  have hR : ∀ i s v s', ch i s = R.ok v s' → s.iters ≤ s'.iters := fun i s v s' e => (hch i s).le e
  have hV : ∀ i s v s', (ch i s).asVal = R.ok v s' → s.iters ≤ s'.iters := fun i s v s' e => (hch i s).asVal.le e
  have hS : ∀ i s v s', (ch i s).asSet = R.ok v s' → s.iters ≤ s'.iters := fun i s v s' e => (hch i s).asSet.le e
  have hI : ∀ i s v s', (ch i s).asInt = R.ok v s' → s.iters ≤ s'.iters := fun i s v s' e => (hch i s).asInt.le e
  have hB : ∀ i s v s', (ch i s).asBool = R.ok v s' → s.iters ≤ s'.iters := fun i s v s' e => (hch i s).asBool.le e
  have hL : ∀ b s v s', lz b s = R.ok v s' → s.iters ≤ s'.iters := fun b s v s' e => (hlz b s).le e
  have hAll : ∀ (n : Nat) (s : St), Adv s.iters ((List.range n).foldl (fun (acc : R (List Val)) i =>
        match acc with
        | .fail f k => .fail f k
        | .ok vs st' =>
          match (ch i st').asVal with
          | .fail f k => .fail f k
          | .ok v st'' => .ok (vs ++ [v]) st'') (.ok [] s)) := by
    intro n s
    refine foldl_R_adv (fun f k x => rfl) ?_ _ _ (Adv.ok _ (Nat.le_refl _))
    intro vs st' i hle
    dsimp only
    cases hr : (ch i st').asVal with
    | fail f k => exact (hch i st').asVal.of_fail hr
    | ok v st'' => exact Adv.ok _ (Nat.le_trans hle ((hch i st').asVal.le hr))
  have hPar : ∀ (n : Nat) (s : St), Adv s.iters ((List.range n).foldl (fun (acc : R (Option (List (List Val)))) i =>
        match acc with
        | .fail f k => .fail f k
        | .ok none st' => .ok none st'
        | .ok (some ps) st' =>
          match (ch i st').asSet with
          | .fail f k => .fail f k
          | .ok p st'' => if p.isEmpty then .ok none st'' else .ok (some (ps ++ [p])) st'') (.ok (some []) s)) := by
    intro n s
    refine foldl_R_adv (fun f k x => rfl) ?_ _ _ (Adv.ok _ (Nat.le_refl _))
    intro ps st' i hle
    cases ps with
    | none => exact Adv.ok _ hle
    | some ps =>
      dsimp only
      cases hr : (ch i st').asSet with
      | fail f k => exact (hch i st').asSet.of_fail hr
      | ok v st'' =>
        have := (hch i st').asSet.le hr
        dsimp only
        split
        · exact Adv.ok _ (by omega)
        · exact Adv.ok _ (by omega)
  simp only [evCore]
  split
  · exact hch 1 st
  · split
    all_goals (repeat' split)
    all_goals try (first
      | exact Adv.fail_err _ _ _ | exact Adv.fail_stuck _ _ | exact Adv.fail_quiet _
      | (rename_i heq; first
          | exact (hch _ _).of_fail heq | exact (hch _ _).asVal.of_fail heq | exact (hch _ _).asSet.of_fail heq
          | exact (hch _ _).asInt.of_fail heq | exact (hch _ _).asBool.of_fail heq | exact (hlz _ _).of_fail heq
          | exact (hAll _ _).of_fail heq | exact (hPar _ _).of_fail heq))
    all_goals try (exfalso; revert hmat; simp only [*]; decide)
    all_goals try (apply Adv.ok; grind)
    all_goals try (first
      | exact (restoreSlot_adv (quantLoop_adv _ _ _ _ (hch 2) _ _)).mono (by grind)
      | exact (restoreSlot_adv (declLoop_adv _ _ _ (hch 2) _ _ _)).mono (by grind)
      | exact (restoreSlot_adv (recLoop_adv_top _ _ _ _ (fun c hc => by cases hc; exact hch 2) (hch 3) _ _)).mono (by grind)
      | exact (restoreSlot_adv (recLoop_adv_top _ _ _ _ (fun c hc => by cases hc) (hch 2) _ _)).mono (by grind)
      | exact restoreSlots_adv (impLoop_adv_top _ _ _ _ _ hch hdk _ _ _ _))
    all_goals try (apply Adv.ok; have := (hAll _ _).le (by assumption); grind)
    all_goals try (apply Adv.ok; have := (hPar _ _).le (by assumption); grind)
    done

mutual
/-- no `×` and no `ℬ` in the tree (the two constructs with a materialisation limit in the model) -/
def matFree : Ast → Bool
  | .node t _ _ _ ks => !matTok t && matFreeKids ks
def matFreeKids : List Ast → Bool
  | [] => true
  | k :: ks => matFree k && matFreeKids ks
end

theorem matFreeKids_mem {k : Ast} : ∀ {ks : List Ast}, matFreeKids ks = true → k ∈ ks → matFree k = true
  | [], _, h => by cases h
  | k' :: ks, he, h => by
    simp only [matFreeKids, Bool.and_eq_true] at he
    rcases List.mem_cons.mp h with rfl | h
    · exact he.1
    · exact matFreeKids_mem he.2 h

theorem matFree_tok {a : Ast} (h : matFree a = true) : matTok a.id = false := by
  cases a with
  | node t d lo hi ks => simp only [matFree, Bool.and_eq_true, Bool.not_eq_true'] at h; exact h.1

theorem matFree_kid {a k : Ast} (h : matFree a = true) (hk : k ∈ a.kids) : matFree k = true := by
  cases a with
  | node t d lo hi ks =>
    simp only [matFree, Bool.and_eq_true] at h
    exact matFreeKids_mem h.2 hk

theorem eagerFree_matFree : ∀ (a : Ast), eagerFree a = true → matFree a = true
  | .node t d lo hi ks, h => by
    simp only [eagerFree, Bool.and_eq_true, Bool.not_eq_true'] at h
    simp only [matFree, Bool.and_eq_true, Bool.not_eq_true']
    refine ⟨?_, go ks h.2⟩
    have := h.1
    simp only [eagerTok, Bool.or_eq_false_iff] at this
    simp only [matTok, Bool.or_eq_false_iff]
    exact ⟨this.1.1.1.1.1, this.1.1.1.1.2⟩
where
  go : ∀ (ks : List Ast), eagerFreeKids ks = true → matFreeKids ks = true
    | [], _ => rfl
    | k :: ks, h => by
      simp only [eagerFreeKids, Bool.and_eq_true] at h
      simp only [matFreeKids, Bool.and_eq_true]
      exact ⟨eagerFree_matFree k h.1, go ks h.2⟩

/-- **on a tree without `ℬ` and `×` the fuel of `ev` is the depth of the tree** - `R{}`, `I{}`, filters included: from
`evDepth a` on `ev` never answers `outOfFuel`, and it never decreases the iteration counter -/
theorem ev_fuel_sufficient2 (c : Ctx) : ∀ (f : Nat) (a : Ast) (p : Option Tok) (st : St),
    matFree a = true → evDepth a ≤ f → Adv st.iters (ev c f a p st) := by
  intro f
  induction f with
  | zero => intro a p st _ h; have := evDepth_pos a; omega
  | succ f ih =>
    intro a p st he h
    rw [ev_succ]
    rw [evCore_lz_congr c _ _ (lz' := fun b st =>
      if matFree b = true ∧ evDepth b ≤ f then ev c f b (some .BOOLEAN) st else .fail .quiet st.iters) a p st (by
      intro k b h1 h2 st
      have hk := mem_of_getElem? h1
      have hb := List.mem_of_mem_head? h2
      have := evDepth_kid hk
      have := evDepth_kid hb
      rw [if_pos ⟨matFree_kid (matFree_kid he hk) hb, by omega⟩])]
    apply evCore_adv
    · intro i st
      unfold childF
      cases hk : a.kids[i]? with
      | none => exact Adv.fail_stuck _ _
      | some k =>
        have hm := mem_of_getElem? hk
        have := evDepth_kid hm
        exact ih k _ st (matFree_kid he hm) (by omega)
    · intro i st
      unfold domF
      cases hk : a.kids[i]? with
      | none => exact Adv.fail_stuck _ _
      | some blk =>
        dsimp only
        cases hd : blk.kids[1]? with
        | none => exact Adv.fail_stuck _ _
        | some d =>
          have hm := mem_of_getElem? hk
          have hm2 := mem_of_getElem? hd
          have := evDepth_kid hm
          have := evDepth_kid hm2
          exact ih d _ st (matFree_kid (matFree_kid he hm) hm2) (by omega)
    · intro b st
      dsimp only
      split
      · rename_i hb
        exact ih b _ st hb.1 hb.2
      · exact Adv.fail_quiet _
    · intro hm
      rw [matFree_tok he] at hm
      cases hm

end CCVerif.Eval
