import CCVerif.Model.Oss
import CCVerif.Lemmas.Oss
import CCVerif.Lemmas.OssRel
/-!
C19, fuel sufficiency, part 1 (no invariant of the schema needed):

* `closestFreePos_isSome`: the scan of `ClosestFreePos` finds a free cell within `g.length + 2`
  iterations, wherever it starts (the right cursor visits pairwise distinct cells);
* the re-entrant reaction chain: `staleCount s d` = the number of stored pictograms whose handle
  hash differs from the content of the document the handle stands for. The chain never makes a
  pictogram stale (`reactions_frel`), `OnCoreChange(p)` is only entered when `p` has just stopped
  being stale, hence the nesting depth is at most `5 * staleCount + 5` (`reactions_fuel`); with the
  observer switched off (`dnd > 0`) the depth is at most `5`; above that bound the result does not
  depend on the fuel (`reactions_fuel_indep`);
* `staleCount_le_env`: when no two stored pictograms stand for one document (`UniqEd`) at most as
  many pictograms are stale as there are documents.
-/
namespace CCVerif.Oss

/-! ## lists -/

theorem nodup_length_le_of_subset {α} [DecidableEq α] : ∀ (l m : List α), l.Nodup → (∀ x ∈ l, x ∈ m) → l.length ≤ m.length
  | [], _, _, _ => Nat.zero_le _
  | x :: l, m, hn, hs => by
    have hx : x ∈ m := hs x List.mem_cons_self
    have hn' := List.nodup_cons.1 hn
    have ih := nodup_length_le_of_subset l (m.erase x) hn'.2 (by
      intro y hy
      have hyx : y ≠ x := fun e => hn'.1 (e ▸ hy)
      exact (List.mem_erase_of_ne hyx).2 (hs y (List.mem_cons_of_mem _ hy)))
    rw [List.length_erase_of_mem hx] at ih
    have : 0 < m.length := List.length_pos_of_mem hx
    simp only [List.length_cons]
    omega

theorem nodup_map_of_injOn {α β} {f : α → β} : ∀ (l : List α), l.Nodup → (∀ a ∈ l, ∀ b ∈ l, f a = f b → a = b) →
    (l.map f).Nodup
  | [], _, _ => List.nodup_nil
  | x :: l, hn, hi => by
    have hn' := List.nodup_cons.1 hn
    rw [List.map_cons, List.nodup_cons]
    refine ⟨?_, nodup_map_of_injOn l hn'.2 (fun a ha b hb => hi a (List.mem_cons_of_mem _ ha) b (List.mem_cons_of_mem _ hb))⟩
    intro hm
    obtain ⟨y, hy, e⟩ := List.mem_map.1 hm
    have := hi y (List.mem_cons_of_mem _ hy) x List.mem_cons_self e
    exact hn'.1 (this ▸ hy)

/-! ## `ClosestFreePos` -/

/-- a scan that gives up has seen every cell of the right cursor occupied -/
theorem closestFreeGo_none {g : Grid} : ∀ (f : Nat) (l r : Pos), closestFreeGo g f l r = none →
    ∀ i : Nat, i < f → g.contains ⟨r.row, r.col + (i : Int)⟩ = true
  | 0, _, _, _, i, hi => absurd hi (Nat.not_lt_zero i)
  | f + 1, l, r, h, i, hi => by
    unfold closestFreeGo at h
    split at h
    · cases h
    · split at h
      · cases h
      · rename_i hr
        cases i with
        | zero =>
          have : (⟨r.row, r.col + ((0 : Nat) : Int)⟩ : Pos) = r := by
            cases r; simp
          rw [this]
          simpa using hr
        | succ j =>
          have := closestFreeGo_none f _ _ h j (by omega)
          have e : r.col + ((j + 1 : Nat) : Int) = r.col + 1 + (j : Int) := by omega
          rw [e]
          exact this

/-- **`ClosestFreePos` never runs out of fuel**: within `g.length + 2` iterations the right cursor
has visited `g.length + 2` different cells of its row; the grid has only `g.length` cells -/
theorem closestFreePos_isSome (g : Grid) (start : Pos) : (g.closestFreePos start).isSome = true := by
  cases h : g.closestFreePos start with
  | some _ => rfl
  | none =>
    exfalso
    unfold Grid.closestFreePos at h
    have hocc := closestFreeGo_none _ _ _ h
    have hnd : ((List.range (g.length + 2)).map (fun i : Nat => (⟨start.row, start.col + (i : Int)⟩ : Pos))).Nodup := by
      apply nodup_map_of_injOn _ List.nodup_range
      intro a _ b _ e
      injection e with _ e
      omega
    have hsub : ∀ x ∈ (List.range (g.length + 2)).map (fun i : Nat => (⟨start.row, start.col + (i : Int)⟩ : Pos)),
        x ∈ g.map (·.1) := by
      intro x hx
      obtain ⟨i, hi, rfl⟩ := List.mem_map.1 hx
      exact Grid.contains_iff.1 (hocc i (List.mem_range.1 hi))
    have := nodup_length_le_of_subset _ _ hnd hsub
    simp only [List.length_map, List.length_range] at this
    omega

/-! ## stale pictograms -/

/-- the handle of `p` stands for an existing document whose content is not the handle's hash -/
def staleB (d : Dyn) (p : Pid) : Bool :=
  match (d.handle p).ed.bind d.source with
  | some x => x.content != (d.handle p).coreHash
  | none => false

theorem staleB_iff {d : Dyn} {p : Pid} : staleB d p = true ↔
    ∃ n x, (d.handle p).ed = some n ∧ d.source n = some x ∧ x.content ≠ (d.handle p).coreHash := by
  unfold staleB
  constructor
  · intro h
    split at h
    · rename_i x hx
      obtain ⟨n, hn, hs⟩ := Option.bind_eq_some_iff.1 hx
      exact ⟨n, x, hn, hs, by simpa using h⟩
    · cases h
  · rintro ⟨n, x, hn, hs, hc⟩
    have : (d.handle p).ed.bind d.source = some x := by rw [hn]; exact hs
    rw [this]; simpa using hc

theorem staleB_congr {d d' : Dyn} {q : Pid} (he : (d'.handle q).ed = (d.handle q).ed)
    (hh : (d'.handle q).coreHash = (d.handle q).coreHash)
    (hc : ∀ n, (d'.source n).map (·.content) = (d.source n).map (·.content)) : staleB d' q = staleB d q := by
  unfold staleB
  rw [he, hh]
  cases (d.handle q).ed with
  | none => rfl
  | some n =>
    have := hc n
    simp only [Option.bind_some]
    cases h1 : d'.source n with
    | none =>
      cases h2 : d.source n with
      | none => rfl
      | some y => rw [h1, h2] at this; cases this
    | some x =>
      cases h2 : d.source n with
      | none => rw [h1, h2] at this; cases this
      | some y =>
        rw [h1, h2] at this
        have e : x.content = y.content := by simpa using this
        simp [e]

/-- the number of stale stored pictograms -/
def staleCount (s : Struct) (d : Dyn) : Nat := s.storage.countP (staleB d)

/-- what bounds the nesting depth of the chain: the stale pictograms while the schema listens -/
def depthOf (s : Struct) (d : Dyn) : Nat := if d.dnd = 0 then staleCount s d else 0

theorem countP_succ_le {α} (P Q : α → Bool) : ∀ (l : List α), (∀ x ∈ l, P x = true → Q x = true) →
    ∀ a ∈ l, Q a = true → P a = false → l.countP P + 1 ≤ l.countP Q
  | [], _, a, ha, _, _ => by cases ha
  | y :: l, h, a, ha, hq, hp => by
    simp only [List.countP_cons]
    have hl : ∀ x ∈ l, P x = true → Q x = true := fun x hx => h x (List.mem_cons_of_mem _ hx)
    rcases List.mem_cons.1 ha with rfl | ha'
    · have := List.countP_mono_left (l := l) (p := P) (q := Q) hl
      simp only [hq, hp, if_true, Bool.false_eq_true, if_false]
      omega
    · have ih := countP_succ_le P Q l hl a ha' hq hp
      by_cases hy : P y = true
      · rw [if_pos hy, if_pos (h y List.mem_cons_self hy)]; omega
      · rw [if_neg hy]
        have : 0 ≤ (if Q y = true then 1 else 0) := Nat.zero_le _
        omega

/-- predicates that differ at one element of a list without repetition -/
theorem countP_le_succ {α} [DecidableEq α] (P Q : α → Bool) (p : α) : ∀ (l : List α), l.Nodup →
    (∀ x ∈ l, x ≠ p → P x = true → Q x = true) → l.countP P ≤ l.countP Q + 1
  | [], _, _ => Nat.zero_le _
  | y :: l, hn, h => by
    have hn' := List.nodup_cons.1 hn
    simp only [List.countP_cons]
    by_cases hy : y = p
    · subst hy
      have : l.countP P ≤ l.countP Q := List.countP_mono_left (fun x hx => h x (List.mem_cons_of_mem _ hx)
        (fun e => hn'.1 (e ▸ hx)))
      split <;> split <;> omega
    · have ih := countP_le_succ P Q p l hn'.2 (fun x hx => h x (List.mem_cons_of_mem _ hx))
      by_cases hpy : P y = true
      · rw [if_pos hpy, if_pos (h y List.mem_cons_self hy hpy)]; omega
      · rw [if_neg hpy]
        have : 0 ≤ (if Q y = true then 1 else 0) := Nat.zero_le _
        omega

/-! ## what the chain does, as far as fuel is concerned -/

/-- "no fuel fault" -/
def NF (d : Dyn) : Prop := d.fault ≠ some "fuel"

theorem NF.stuck {d : Dyn} (h : NF d) {w : String} (hw : w ≠ "fuel") : NF (d.stuck w) := by
  unfold NF Dyn.stuck at *
  cases hf : d.fault with
  | none => simpa using hw
  | some v => rw [hf] at h; simpa using h

theorem NF.of_eq {d d' : Dyn} (h : NF d) (e : d'.fault = d.fault) : NF d' := by
  unfold NF at *; rw [e]; exact h

theorem NF.of_none {d : Dyn} (h : d.fault = none) : NF d := by
  unfold NF; rw [h]; simp

structure FRel (d d' : Dyn) : Prop where
  /-- the first fault is kept -/
  sticky : ∀ w, d.fault = some w → d'.fault = some w
  dnd : d'.dnd = d.dnd
  env : d'.env.length = d.env.length
  /-- no pictogram becomes stale -/
  stale : ∀ q, staleB d' q = true → staleB d q = true

theorem FRel.refl (d : Dyn) : FRel d d := ⟨fun _ h => h, rfl, rfl, fun _ h => h⟩

theorem FRel.trans {a b c : Dyn} (h1 : FRel a b) (h2 : FRel b c) : FRel a c :=
  ⟨fun w h => h2.sticky w (h1.sticky w h), h2.dnd.trans h1.dnd, h2.env.trans h1.env, fun q h => h1.stale q (h2.stale q h)⟩

theorem FRel.stuck (d : Dyn) (w : String) : FRel d (d.stuck w) :=
  ⟨fun v h => by simp [Dyn.stuck, h], rfl, rfl, fun _ h => h⟩

theorem FRel.stuckIf (d : Dyn) (c : Bool) (w : String) : FRel d (if c = true then d.stuck w else d) := by
  split
  · exact FRel.stuck d w
  · exact FRel.refl d

/-- states that agree on what staleness reads -/
theorem FRel.of_congr {d d' : Dyn} (hf : d'.fault = d.fault) (hd : d'.dnd = d.dnd) (hl : d'.env.length = d.env.length)
    (he : ∀ q, (d'.handle q).ed = (d.handle q).ed) (hh : ∀ q, (d'.handle q).coreHash = (d.handle q).coreHash)
    (hc : ∀ n, (d'.source n).map (·.content) = (d.source n).map (·.content)) : FRel d d' :=
  ⟨fun w h => by rw [hf]; exact h, hd, hl, fun q h => by rw [← staleB_congr (he q) (hh q) hc]; exact h⟩

theorem FRel.setOp (d : Dyn) (p : Pid) (x : OpHandle) : FRel d (d.setOp p x) :=
  FRel.of_congr rfl rfl rfl (fun _ => rfl) (fun _ => rfl) (fun _ => rfl)

/-- a document update that keeps name and content -/
theorem FRel.setSource (d : Dyn) (n : SrcName) (x y : Source) (hx : d.source n = some x) (hn : y.name = x.name)
    (hc : y.content = x.content) : FRel d (d.setSource y) := by
  refine FRel.of_congr rfl rfl (Dyn.env_length_setSource d y) (fun _ => rfl) (fun _ => rfl) ?_
  intro m
  rw [Dyn.source_setSource_of hx hn]
  split
  · rename_i e; subst e; rw [hx]; simp [hc]
  · rfl

/-- a handle update after which the pictogram is stale only if it was -/
theorem FRel.setHandle (d : Dyn) (p : Pid) (x : Handle) (hp : staleB (d.setHandle p x) p = true → staleB d p = true) :
    FRel d (d.setHandle p x) := by
  refine ⟨fun w h => h, rfl, rfl, ?_⟩
  intro q hq
  by_cases e : q = p
  · subst e; exact hp hq
  · rw [← staleB_congr (d := d) (d' := d.setHandle p x) (by simp [e]) (by simp [e]) (fun _ => rfl)]; exact hq

/-- a handle update that keeps effective name and hash -/
theorem FRel.setHandle_keep (d : Dyn) (p : Pid) (x : Handle) (he : x.ed = (d.handle p).ed)
    (hh : x.coreHash = (d.handle p).coreHash) : FRel d (d.setHandle p x) := by
  apply FRel.setHandle
  intro h
  rw [← staleB_congr (d := d) (d' := d.setHandle p x) (by simp [he]) (by simp [hh]) (fun _ => rfl)]; exact h

theorem FRel.foldl {α} (g : Dyn → α → Dyn) (hg : ∀ d x, FRel d (g d x)) : ∀ (l : List α) (d : Dyn), FRel d (l.foldl g d)
  | [], d => FRel.refl d
  | x :: l, d => (hg d x).trans (FRel.foldl g hg l (g d x))

theorem FRel.foldl_fst {α β} (g : Dyn × β → α → Dyn × β) (hg : ∀ acc x, FRel acc.1 (g acc x).1) :
    ∀ (l : List α) (acc : Dyn × β), FRel acc.1 (l.foldl g acc).1
  | [], acc => FRel.refl acc.1
  | x :: l, acc => (hg acc x).trans (FRel.foldl_fst g hg l (g acc x))

theorem FRel.checkFinish (o : Oracle) (p : Pid) (r : Dyn × List Bool) : FRel r.1 (checkFinish o p r) := by
  unfold CCVerif.Oss.checkFinish
  dsimp only
  exact ((FRel.stuckIf _ _ _).trans (FRel.stuckIf _ _ _)).trans (FRel.setOp _ _ _)

theorem FRel.depth_le {s : Struct} {d d' : Dyn} (r : FRel d d') : depthOf s d' ≤ depthOf s d := by
  unfold depthOf
  rw [r.dnd]
  split
  · exact List.countP_mono_left (fun q _ h => r.stale q h)
  · exact Nat.le_refl _

theorem FRel.nf {d d' : Dyn} (r : FRel d d') (h : d.fault ≠ none) (hn : NF d) : NF d' := by
  cases hf : d.fault with
  | none => exact absurd hf h
  | some w =>
    unfold NF at *
    rw [r.sticky w hf, ← hf]; exact hn

/-- `UpdateHashes`: the pictogram is not stale afterwards -/
theorem staleB_syncStage1 {d : Dyn} {p : Pid} {n : SrcName} (hsrc : (d.handle p).src = some n) :
    staleB (syncStage1 d p n) p = false := by
  cases h : staleB (syncStage1 d p n) p with
  | false => rfl
  | true =>
    exfalso
    obtain ⟨m, x, hm, hx, hc⟩ := staleB_iff.1 h
    have hed : ((syncStage1 d p n).handle p).ed = some n := by
      simp [syncStage1, Handle.ed, hsrc]
    rw [hed] at hm; injection hm with hm; subst hm
    have hx' : d.source n = some x := hx
    apply hc
    simp [syncStage1, newHashOf, hx']

theorem syncStage1_frel {d : Dyn} {p : Pid} {n : SrcName} (hsrc : (d.handle p).src = some n) :
    FRel d (syncStage1 d p n) := by
  apply FRel.setHandle
  intro h
  have := staleB_syncStage1 (d := d) (p := p) (n := n) hsrc
  unfold syncStage1 at this
  rw [this] at h; cases h

theorem syncStage3_frel {d2 : Dyn} {p : Pid} {n : SrcName} (hsrc : (d2.handle p).src = some n) :
    FRel d2 (syncStage3 d2 p n) :=
  FRel.setHandle_keep d2 p _ (by simp [Handle.ed, hsrc]) rfl

theorem openStage_frel {d : Dyn} {p : Pid} {m : SrcName} {x : Source} (hsrc : (d.handle p).src = none)
    (hdesc : (d.handle p).desc = some m) (hx : d.source m = some x) : FRel d (openStage d p x) := by
  have hn := Dyn.source_name hx
  unfold openStage
  refine (FRel.setSource d m x (openSource x) hx rfl rfl).trans ?_
  exact FRel.setHandle_keep _ p _ (by simp [Handle.ed, hsrc, hdesc, hn]) rfl

theorem FRel.markStep {s : Struct} {o : Oracle} {f : Nat} (hK : ∀ d p, FRel d (checkOp s o f d p)) (d : Dyn) (c : Pid) :
    FRel d (markStep s o f d c) := by
  unfold CCVerif.Oss.markStep
  split
  · exact FRel.stuck _ _
  · exact (hK d c).trans (FRel.setOp _ _ _)

theorem FRel.callStep {s : Struct} {o : Oracle} {f : Nat} (hU : ∀ d p, FRel d (updateSync s o f d p))
    (hD : ∀ d p, FRel d (dataFor s o f d p).1) (acc : Dyn × List Bool) (q : Pid) :
    FRel acc.1 (callStep s o f acc q).1 :=
  (hU acc.1 q).trans (hD _ q)

/-- the chain keeps the first fault, the guard, the number of documents, and makes no pictogram stale -/
theorem reactions_frel (s : Struct) (o : Oracle) : ∀ f : Nat,
    (∀ d n, FRel d (announce s o f d n)) ∧ (∀ d p, FRel d (syncPict s o f d p)) ∧
    (∀ d p, FRel d (coreChange s o f d p)) ∧ (∀ d p, FRel d (updateSync s o f d p)) ∧
    (∀ d p, FRel d (dataFor s o f d p).1) ∧ (∀ d p, FRel d (checkOp s o f d p))
  | 0 => by
    refine ⟨?_, ?_, ?_, ?_, ?_, ?_⟩ <;> intro d x
    · simp only [announce]; exact FRel.stuck _ _
    · simp only [syncPict]; exact FRel.stuck _ _
    · simp only [coreChange]; exact FRel.stuck _ _
    · simp only [updateSync]; exact FRel.stuck _ _
    · simp only [dataFor]; exact FRel.stuck _ _
    · simp only [checkOp]; exact FRel.stuck _ _
  | f + 1 => by
    obtain ⟨ihA, ihS, ihC, ihU, ihD, ihK⟩ := reactions_frel s o f
    have hA : ∀ d n, FRel d (announce s o (f + 1) d n) := by
      intro d n
      rw [announce_succ]
      cases hs : d.source n with
      | none => exact FRel.refl d
      | some src =>
        dsimp only
        have h1 : FRel d (d.setSource (annSource src)) := FRel.setSource d n src _ hs rfl rfl
        split
        · exact FRel.refl d
        · split
          · exact h1
          · split
            · exact h1
            · exact h1.trans (ihS _ _)
    have hS : ∀ d p, FRel d (syncPict s o (f + 1) d p) := by
      intro d p
      rw [syncPict_succ]
      cases hsrc : (d.handle p).src with
      | none => exact FRel.stuck _ _
      | some n =>
        dsimp only
        have r1 := syncStage1_frel (d := d) (p := p) (n := n) hsrc
        have hsrc1 : ((syncStage1 d p n).handle p).src = some n := by simp [syncStage1, hsrc]
        have r2 : FRel (syncStage1 d p n) (syncStage2 s o f d p n) ∧ ((syncStage2 s o f d p n).handle p).src = some n := by
          unfold syncStage2
          split
          · exact ⟨ihC _ p, ((reactions_frame s o f).2.2.1 _ p).src p n hsrc1⟩
          · exact ⟨FRel.refl _, hsrc1⟩
        exact (r1.trans r2.1).trans (syncStage3_frel r2.2)
    have hC : ∀ d p, FRel d (coreChange s o (f + 1) d p) := by
      intro d p
      rw [coreChange_succ]
      exact FRel.foldl _ (FRel.markStep ihK) _ d
    have hU : ∀ d p, FRel d (updateSync s o (f + 1) d p) := by
      intro d p
      rw [updateSync_succ]
      split
      · exact FRel.refl d
      · exact ihA _ _
    have hD : ∀ d p, FRel d (dataFor s o (f + 1) d p).1 := by
      intro d p
      rw [dataFor_succ]
      split
      · exact FRel.refl d
      · split
        · exact FRel.refl d
        · cases hsrc : (d.handle p).src with
          | some n => exact FRel.refl d
          | none =>
            dsimp only
            cases hb : (d.handle p).desc.bind d.source with
            | none => exact FRel.refl d
            | some src =>
              dsimp only
              obtain ⟨m, hdesc, hm⟩ := Option.bind_eq_some_iff.1 hb
              exact (openStage_frel hsrc hdesc hm).trans (ihS _ p)
    have hK : ∀ d p, FRel d (checkOp s o (f + 1) d p) := by
      intro d p
      rw [checkOp_succ]
      exact (FRel.foldl_fst (callStep s o f) (FRel.callStep ihU ihD) (s.graph.parentsOf p) (d, [])).trans
        (FRel.checkFinish o p _)
    exact ⟨hA, hS, hC, hU, hD, hK⟩

/-! ## the depth of the chain -/

theorem NF.checkFinish {o : Oracle} {p : Pid} {r : Dyn × List Bool} (h : NF r.1) : NF (checkFinish o p r) := by
  unfold CCVerif.Oss.checkFinish
  dsimp only
  have h1 : NF (if (r.2.length != 2 && (r.1.op p).type != .tba) = true then r.1.stuck "assert(ssize(args) == 2)" else r.1) := by
    split
    · exact h.stuck (by decide)
    · exact h
  generalize (if (r.2.length != 2 && (r.1.op p).type != .tba) = true then r.1.stuck "assert(ssize(args) == 2)" else r.1) = d1 at h1
  have h2 : NF (if ((d1.op p).type == .synt && (d1.op p).opts == .none && r.2.all id) = true then d1.stuck "*params" else d1) := by
    split
    · exact h1.stuck (by decide)
    · exact h1
  exact h2

/-- through a fold of pieces that make nothing stale -/
theorem foldl_nf {s : Struct} {α} (g : Dyn → α → Dyn) (B : Nat) (hrel : ∀ d x, FRel d (g d x))
    (hnf : ∀ d x, NF d → depthOf s d ≤ B → NF (g d x)) :
    ∀ (l : List α) (d : Dyn), NF d → depthOf s d ≤ B → NF (l.foldl g d)
  | [], _, h, _ => h
  | x :: l, d, h, hb =>
    foldl_nf g B hrel hnf l (g d x) (hnf d x h hb) (Nat.le_trans (hrel d x).depth_le hb)

theorem foldl_nf_fst {s : Struct} {α β} (g : Dyn × β → α → Dyn × β) (B : Nat) (hrel : ∀ acc x, FRel acc.1 (g acc x).1)
    (hnf : ∀ acc x, NF acc.1 → depthOf s acc.1 ≤ B → NF (g acc x).1) :
    ∀ (l : List α) (acc : Dyn × β), NF acc.1 → depthOf s acc.1 ≤ B → NF (l.foldl g acc).1
  | [], _, h, _ => h
  | x :: l, acc, h, hb =>
    foldl_nf_fst g B hrel hnf l (g acc x) (hnf acc x h hb) (Nat.le_trans (hrel acc x).depth_le hb)

/-- `UpdateHashes` of a stored pictogram whose hash changes while the schema listens: one stale
pictogram less -/
theorem depthOf_syncStage1 {s : Struct} {d : Dyn} {p : Pid} {n : SrcName} (hp : p ∈ s.storage)
    (hsrc : (d.handle p).src = some n) (hch : (d.handle p).coreHash ≠ newHashOf d p n) (hd : d.dnd = 0) :
    depthOf s (syncStage1 d p n) + 1 ≤ depthOf s d := by
  have hd1 : (syncStage1 d p n).dnd = 0 := hd
  unfold depthOf
  rw [if_pos hd, if_pos hd1]
  apply countP_succ_le _ _ _ (fun q _ h => (syncStage1_frel hsrc).stale q h) p hp ?_ (staleB_syncStage1 hsrc)
  rw [staleB_iff]
  cases hx : d.source n with
  | none => exact absurd (by simp [newHashOf, hx]) hch
  | some x =>
    refine ⟨n, x, Handle.ed_of_src hsrc, hx, ?_⟩
    intro e
    apply hch
    simp [newHashOf, hx, e]

/-- **the nesting depth of the reaction chain**: a call that finds `k = depthOf s d` stale
pictograms (none when the observer is off) needs at most `5 k + c` frames, `c` = 2 for `TriggerSave`,
1 for `SyncPict`, 5 for `OnCoreChange`, 3 for `UpdateSync`, 2 for `DataFor`, 4 for `CheckOperation`:
with that much fuel the fault "fuel" is never produced -/
theorem reactions_fuel (s : Struct) (o : Oracle) : ∀ f : Nat,
    (∀ d n, NF d → 5 * depthOf s d + 2 ≤ f → NF (announce s o f d n)) ∧
    (∀ d p, p ∈ s.storage → NF d → 5 * depthOf s d + 1 ≤ f → NF (syncPict s o f d p)) ∧
    (∀ d p, NF d → 5 * depthOf s d + 5 ≤ f → NF (coreChange s o f d p)) ∧
    (∀ d p, NF d → 5 * depthOf s d + 3 ≤ f → NF (updateSync s o f d p)) ∧
    (∀ d p, NF d → 5 * depthOf s d + 2 ≤ f → NF (dataFor s o f d p).1) ∧
    (∀ d p, NF d → 5 * depthOf s d + 4 ≤ f → NF (checkOp s o f d p))
  | 0 => by
    refine ⟨?_, ?_, ?_, ?_, ?_, ?_⟩
    · intro d n _ h; omega
    · intro d p _ _ h; omega
    · intro d p _ h; omega
    · intro d p _ h; omega
    · intro d p _ h; omega
    · intro d p _ h; omega
  | f + 1 => by
    obtain ⟨ihA, ihS, ihC, ihU, ihD, ihK⟩ := reactions_fuel s o f
    obtain ⟨_, _, _, relU, relD, relK⟩ := reactions_frel s o f
    have hA : ∀ d n, NF d → 5 * depthOf s d + 2 ≤ f + 1 → NF (announce s o (f + 1) d n) := by
      intro d n hn hb
      rw [announce_succ]
      cases hs : d.source n with
      | none => exact hn
      | some src =>
        dsimp only
        have h1 : FRel d (d.setSource (annSource src)) := FRel.setSource d n src _ hs rfl rfl
        split
        · exact hn
        · split
          · exact hn.of_eq rfl
          · cases h2 : src2pid s d n with
            | none => exact hn.of_eq rfl
            | some p =>
              dsimp only
              refine ihS _ p (src2pid_some h2).1 (hn.of_eq rfl) ?_
              have := h1.depth_le (s := s)
              omega
    have hS : ∀ d p, p ∈ s.storage → NF d → 5 * depthOf s d + 1 ≤ f + 1 → NF (syncPict s o (f + 1) d p) := by
      intro d p hp hn hb
      rw [syncPict_succ]
      cases hsrc : (d.handle p).src with
      | none => exact hn.stuck (by decide)
      | some n =>
        dsimp only
        have h2 : NF (syncStage2 s o f d p n) := by
          unfold syncStage2
          split
          · rename_i hch
            simp only [Bool.and_eq_true, bne_iff_ne, ne_eq, beq_iff_eq] at hch
            refine ihC _ p (hn.of_eq rfl) ?_
            have := depthOf_syncStage1 (s := s) hp hsrc hch.1 hch.2
            omega
          · exact hn.of_eq rfl
        exact h2.of_eq rfl
    have hC : ∀ d p, NF d → 5 * depthOf s d + 5 ≤ f + 1 → NF (coreChange s o (f + 1) d p) := by
      intro d p hn hb
      rw [coreChange_succ]
      refine foldl_nf (s := s) _ (depthOf s d) (FRel.markStep relK) ?_ _ d hn (Nat.le_refl _)
      intro d' c hn' hb'
      unfold markStep
      split
      · exact hn'.stuck (by decide)
      · exact (ihK d' c hn' (by omega)).of_eq rfl
    have hU : ∀ d p, NF d → 5 * depthOf s d + 3 ≤ f + 1 → NF (updateSync s o (f + 1) d p) := by
      intro d p hn hb
      rw [updateSync_succ]
      split
      · exact hn
      · exact ihA _ _ hn (by omega)
    have hD : ∀ d p, NF d → 5 * depthOf s d + 2 ≤ f + 1 → NF (dataFor s o (f + 1) d p).1 := by
      intro d p hn hb
      rw [dataFor_succ]
      split
      · exact hn
      · rename_i hcont
        split
        · exact hn
        · cases hsrc : (d.handle p).src with
          | some n => exact hn
          | none =>
            dsimp only
            cases hbnd : (d.handle p).desc.bind d.source with
            | none => exact hn
            | some src =>
              dsimp only
              obtain ⟨m, hdesc, hm⟩ := Option.bind_eq_some_iff.1 hbnd
              have hp : p ∈ s.storage := by simpa [Struct.contains] using hcont
              have r := openStage_frel hsrc hdesc hm
              refine ihS _ p hp (hn.of_eq rfl) ?_
              have := r.depth_le (s := s)
              omega
    have hK : ∀ d p, NF d → 5 * depthOf s d + 4 ≤ f + 1 → NF (checkOp s o (f + 1) d p) := by
      intro d p hn hb
      rw [checkOp_succ]
      apply NF.checkFinish
      refine foldl_nf_fst (s := s) (callStep s o f) (depthOf s d) (FRel.callStep relU relD) ?_ _ (d, []) hn (Nat.le_refl _)
      intro acc q hn' hb'
      have h1 : NF (updateSync s o f acc.1 q) := ihU _ q hn' (by omega)
      have := (relU acc.1 q).depth_le (s := s)
      exact ihD _ q h1 (by omega)
    exact ⟨hA, hS, hC, hU, hD, hK⟩

/-! ## independence of the fuel -/

/-- fold congruence under an invariant kept by the steps -/
theorem foldl_congr_inv {α β} (P : β → Prop) (g g' : β → α → β) (hP : ∀ b x, P b → P (g b x))
    (hg : ∀ b x, P b → g b x = g' b x) : ∀ (l : List α) (b : β), P b → l.foldl g b = l.foldl g' b
  | [], _, _ => rfl
  | x :: l, b, h => by
    simp only [List.foldl_cons]
    rw [← hg b x h]
    exact foldl_congr_inv P g g' hP hg l (g b x) (hP b x h)

/-- **the chain does not depend on the fuel** once it is above the depth bound: the `0` case is not
reached (in any state, faulty or not) -/
theorem reactions_fuel_indep (s : Struct) (o : Oracle) : ∀ f f' : Nat,
    (∀ d n, 5 * depthOf s d + 2 ≤ f → 5 * depthOf s d + 2 ≤ f' → announce s o f d n = announce s o f' d n) ∧
    (∀ d p, p ∈ s.storage → 5 * depthOf s d + 1 ≤ f → 5 * depthOf s d + 1 ≤ f' → syncPict s o f d p = syncPict s o f' d p) ∧
    (∀ d p, 5 * depthOf s d + 5 ≤ f → 5 * depthOf s d + 5 ≤ f' → coreChange s o f d p = coreChange s o f' d p) ∧
    (∀ d p, 5 * depthOf s d + 3 ≤ f → 5 * depthOf s d + 3 ≤ f' → updateSync s o f d p = updateSync s o f' d p) ∧
    (∀ d p, 5 * depthOf s d + 2 ≤ f → 5 * depthOf s d + 2 ≤ f' → dataFor s o f d p = dataFor s o f' d p) ∧
    (∀ d p, 5 * depthOf s d + 4 ≤ f → 5 * depthOf s d + 4 ≤ f' → checkOp s o f d p = checkOp s o f' d p)
  | 0, _ => by
    refine ⟨?_, ?_, ?_, ?_, ?_, ?_⟩
    · intro d n h; omega
    · intro d p _ h; omega
    · intro d p h; omega
    · intro d p h; omega
    · intro d p h; omega
    · intro d p h; omega
  | _ + 1, 0 => by
    refine ⟨?_, ?_, ?_, ?_, ?_, ?_⟩
    · intro d n _ h; omega
    · intro d p _ _ h; omega
    · intro d p _ h; omega
    · intro d p _ h; omega
    · intro d p _ h; omega
    · intro d p _ h; omega
  | f + 1, f' + 1 => by
    obtain ⟨ihA, ihS, ihC, ihU, ihD, ihK⟩ := reactions_fuel_indep s o f f'
    obtain ⟨_, _, _, relU, relD, relK⟩ := reactions_frel s o f
    have hA : ∀ d n, 5 * depthOf s d + 2 ≤ f + 1 → 5 * depthOf s d + 2 ≤ f' + 1 →
        announce s o (f + 1) d n = announce s o (f' + 1) d n := by
      intro d n hb hb'
      rw [announce_succ, announce_succ]
      cases hs : d.source n with
      | none => rfl
      | some src =>
        dsimp only
        have h1 : FRel d (d.setSource (annSource src)) := FRel.setSource d n src _ hs rfl rfl
        split
        · rfl
        · split
          · rfl
          · cases h2 : src2pid s d n with
            | none => rfl
            | some p =>
              dsimp only
              have := h1.depth_le (s := s)
              exact ihS _ p (src2pid_some h2).1 (by omega) (by omega)
    have hS : ∀ d p, p ∈ s.storage → 5 * depthOf s d + 1 ≤ f + 1 → 5 * depthOf s d + 1 ≤ f' + 1 →
        syncPict s o (f + 1) d p = syncPict s o (f' + 1) d p := by
      intro d p hp hb hb'
      rw [syncPict_succ, syncPict_succ]
      cases hsrc : (d.handle p).src with
      | none => rfl
      | some n =>
        dsimp only
        have h2 : syncStage2 s o f d p n = syncStage2 s o f' d p n := by
          unfold syncStage2
          split
          · rename_i hch
            simp only [Bool.and_eq_true, bne_iff_ne, ne_eq, beq_iff_eq] at hch
            have := depthOf_syncStage1 (s := s) hp hsrc hch.1 hch.2
            exact ihC _ p (by omega) (by omega)
          · rfl
        rw [h2]
    have hC : ∀ d p, 5 * depthOf s d + 5 ≤ f + 1 → 5 * depthOf s d + 5 ≤ f' + 1 →
        coreChange s o (f + 1) d p = coreChange s o (f' + 1) d p := by
      intro d p hb hb'
      rw [coreChange_succ, coreChange_succ]
      refine foldl_congr_inv (fun d' => depthOf s d' ≤ depthOf s d) _ _ ?_ ?_ _ d (Nat.le_refl _)
      · intro d' c h
        exact Nat.le_trans (FRel.markStep relK d' c).depth_le h
      · intro d' c h
        unfold markStep
        rw [ihK d' c (by omega) (by omega)]
    have hU : ∀ d p, 5 * depthOf s d + 3 ≤ f + 1 → 5 * depthOf s d + 3 ≤ f' + 1 →
        updateSync s o (f + 1) d p = updateSync s o (f' + 1) d p := by
      intro d p hb hb'
      rw [updateSync_succ, updateSync_succ]
      split
      · rfl
      · exact ihA _ _ (by omega) (by omega)
    have hD : ∀ d p, 5 * depthOf s d + 2 ≤ f + 1 → 5 * depthOf s d + 2 ≤ f' + 1 →
        dataFor s o (f + 1) d p = dataFor s o (f' + 1) d p := by
      intro d p hb hb'
      rw [dataFor_succ, dataFor_succ]
      split
      · rfl
      · rename_i hcont
        split
        · rfl
        · cases hsrc : (d.handle p).src with
          | some n => rfl
          | none =>
            dsimp only
            cases hbnd : (d.handle p).desc.bind d.source with
            | none => rfl
            | some src =>
              dsimp only
              obtain ⟨m, hdesc, hm⟩ := Option.bind_eq_some_iff.1 hbnd
              have hp : p ∈ s.storage := by simpa [Struct.contains] using hcont
              have := (openStage_frel hsrc hdesc hm).depth_le (s := s)
              rw [ihS _ p hp (by omega) (by omega)]
    have hK : ∀ d p, 5 * depthOf s d + 4 ≤ f + 1 → 5 * depthOf s d + 4 ≤ f' + 1 →
        checkOp s o (f + 1) d p = checkOp s o (f' + 1) d p := by
      intro d p hb hb'
      rw [checkOp_succ, checkOp_succ]
      congr 1
      refine foldl_congr_inv (fun acc : Dyn × List Bool => depthOf s acc.1 ≤ depthOf s d) _ _ ?_ ?_ _ (d, []) (Nat.le_refl _)
      · intro acc q h
        exact Nat.le_trans (FRel.callStep relU relD acc q).depth_le h
      · intro acc q h
        unfold callStep
        have e1 : updateSync s o f acc.1 q = updateSync s o f' acc.1 q := ihU _ q (by omega) (by omega)
        have := (relU acc.1 q).depth_le (s := s)
        have e2 : dataFor s o f (updateSync s o f acc.1 q) q = dataFor s o f' (updateSync s o f acc.1 q) q :=
          ihD _ q (by omega) (by omega)
        rw [e2, e1]
    exact ⟨hA, hS, hC, hU, hD, hK⟩

/-! ## how many pictograms can be stale -/

/-- no two stored pictograms stand for the same document (a clause of `HInv`) -/
def UniqEd (s : Struct) (d : Dyn) : Prop :=
  ∀ q ∈ s.storage, ∀ q' ∈ s.storage, ∀ n, (d.handle q).ed = some n → (d.handle q').ed = some n → q = q'

theorem UniqEd.of_ed_eq {s : Struct} {d d' : Dyn} (h : UniqEd s d) (he : ∀ q, (d'.handle q).ed = (d.handle q).ed) :
    UniqEd s d' := by
  intro q hq q' hq' n e e'
  rw [he] at e e'
  exact h q hq q' hq' n e e'

theorem source_mem_env {d : Dyn} {n : SrcName} {x : Source} (h : d.source n = some x) : n ∈ d.env.map (·.name) := by
  have hn := Dyn.source_name h
  unfold Dyn.source at h
  exact List.mem_map.2 ⟨x, List.mem_of_find?_eq_some h, hn⟩

/-- when no two pictograms stand for one document there are at most as many stale pictograms as
documents -/
theorem staleCount_le_env {s : Struct} {d : Dyn} (hn : s.storage.Nodup) (hu : UniqEd s d) :
    staleCount s d ≤ d.env.length := by
  unfold staleCount
  rw [List.countP_eq_length_filter]
  have hL : (s.storage.filter (staleB d)).Nodup := hn.filter _
  have hmap : ((s.storage.filter (staleB d)).map (fun q => ((d.handle q).ed).getD 0)).Nodup := by
    apply nodup_map_of_injOn _ hL
    intro a ha b hb e
    obtain ⟨ha1, ha2⟩ := List.mem_filter.1 ha
    obtain ⟨hb1, hb2⟩ := List.mem_filter.1 hb
    obtain ⟨n, _, hna, _, _⟩ := staleB_iff.1 ha2
    obtain ⟨m, _, hmb, _, _⟩ := staleB_iff.1 hb2
    rw [hna, hmb] at e
    have e' : n = m := by simpa using e
    subst e'
    exact hu a ha1 b hb1 n hna hmb
  have hsub : ∀ y ∈ (s.storage.filter (staleB d)).map (fun q => ((d.handle q).ed).getD 0), y ∈ d.env.map (·.name) := by
    intro y hy
    obtain ⟨q, hq, rfl⟩ := List.mem_map.1 hy
    obtain ⟨n, x, hn', hx, _⟩ := staleB_iff.1 (List.mem_filter.1 hq).2
    rw [hn']
    exact source_mem_env hx
  have := nodup_length_le_of_subset _ _ hmap hsub
  simpa using this

theorem depthOf_le_staleCount (s : Struct) (d : Dyn) : depthOf s d ≤ staleCount s d := by
  unfold depthOf; split
  · exact Nat.le_refl _
  · exact Nat.zero_le _

theorem depthOf_le_env {s : Struct} {d : Dyn} (hn : s.storage.Nodup) (hu : UniqEd s d) : depthOf s d ≤ d.env.length :=
  Nat.le_trans (depthOf_le_staleCount s d) (staleCount_le_env hn hu)

/-- changing one handle makes at most one more pictogram stale -/
theorem depthOf_setHandle_le {s : Struct} (hn : s.storage.Nodup) (d : Dyn) (p : Pid) (x : Handle) :
    depthOf s (d.setHandle p x) ≤ depthOf s d + 1 := by
  unfold depthOf
  have : (d.setHandle p x).dnd = d.dnd := rfl
  rw [this]
  split
  · unfold staleCount
    apply countP_le_succ _ _ p _ hn
    intro q _ hq h
    rw [← staleB_congr (d := d) (d' := d.setHandle p x) (by simp [hq]) (by simp [hq]) (fun _ => rfl)]; exact h
  · omega

theorem depthOf_of_dnd {s : Struct} {d : Dyn} (h : d.dnd ≠ 0) : depthOf s d = 0 := by
  unfold depthOf; rw [if_neg h]

end CCVerif.Oss
