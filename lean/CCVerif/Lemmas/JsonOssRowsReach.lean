import CCVerif.Lemmas.JsonOssRows
import CCVerif.Lemmas.JsonOssReach
/-!
`RowsOk` is an invariant of the histories of the C19 machine whose reloads leave the `connections` array as
the writer emitted it (`writerReloads`): `rowsOk_history`. With `represents_codec` (what the writer reads from
a schema satisfying `StructInv` has distinct identifiers, distinct cells, and a source handle per pictogram)
this gives the hypothesis of `oss_roundtrip_ordered` / `oss_stable_ordered` for every such history.
-/
namespace CCVerif.JsonOss
open CCVerif.Json
open CCVerif.Oss (Pid Pos Graph Struct St Op Variant Oracle StructInv run step DocItem Grid)

/-- the `connections` array of the document written for a schema with graph facet `g`
(`edgesToJson (edgeList c.rows)` of `ossToJson c` for every `c` with `Represents s c`, `s.graph = g`) -/
def writtenEdges (g : Graph) : List (Pid × Pid) := edgeList (rowsOf g)

/-- the admissible class (histories newest first, as `Oss.run`): every `reload` loads the connections of the
document that was written for the schema at that moment, in the order the writer emitted them. The order of
`items` (iteration order of the hash container `storage`) is free. -/
def writerReloads (v : Variant) (o : Oracle) : List Op → Bool
  | [] => true
  | op :: ops => writerReloads v o ops &&
      match op, run v o ops with
      | .reload _ edges, some st => edges == writtenEdges st.s.graph
      | _, _ => true

theorem writerReloads_cons {v : Variant} {o : Oracle} {op : Op} {ops : List Op} {st : St}
    (h : writerReloads v o (op :: ops) = true) (hr : run v o ops = some st) :
    writerReloads v o ops = true ∧ ∀ items edges, op = .reload items edges → edges = writtenEdges st.s.graph := by
  simp only [writerReloads, Bool.and_eq_true] at h
  refine ⟨h.1, ?_⟩
  intro items edges he
  subst he
  have h2 := h.2
  rw [hr] at h2
  simpa using h2

/-! ## the graph facet through one step -/

theorem loadPict_graph {s : Struct} {uid : Pid} {pos : Pos} {isOp : Bool} {fresh : Pid} {x : Struct × Pid}
    (h : s.loadPict uid pos isOp fresh = some x) : x.1.graph = s.graph := by
  unfold Struct.loadPict at h
  simp only at h
  split at h
  · cases h
  · split at h
    · split at h
      · cases h
      · injection h with h; subst h; rfl
    · injection h with h; subst h; rfl

theorem loadPicts_graph : ∀ (doc : List DocItem) (s s' : Struct), CCVerif.Oss.loadPicts doc s = some s' →
    s'.graph = s.graph
  | [], s, s', h => by simp only [CCVerif.Oss.loadPicts] at h; injection h with h; subst h; rfl
  | it :: doc, s, s', h => by
    simp only [CCVerif.Oss.loadPicts, Option.bind_eq_some_iff] at h
    obtain ⟨x, hx, h⟩ := h
    rw [loadPicts_graph doc x.1 s' h, loadPict_graph hx]

theorem foldl_loadParent_graph (edges : List (Pid × Pid)) : ∀ (s : Struct),
    (edges.foldl (fun s e => (s.loadParent e.1 e.2).1) s).graph = s.graph.loadParents edges := by
  induction edges with
  | nil => intro s; rfl
  | cons e edges ih =>
    intro s
    simp only [List.foldl_cons]
    rw [ih]
    rfl

private theorem not_parent_of_leaf' {s : Struct} (h : StructInv s) {p : Pid}
    (hleaf : s.graph.childrenOf p = []) : ∀ q, p ∉ s.graph.parentsOf q := by
  intro q hq
  by_cases hqp : q = p
  · subst hqp
    obtain ⟨rank, hr⟩ := h.parents.acyclic
    exact Nat.lt_irrefl _ (hr q q hq)
  · have : q ∈ s.graph.childrenOf p := (Graph.mem_childrenOf h.keys.graphWf).2 ⟨hqp, hq⟩
    rw [hleaf] at this; cases this

private theorem graph_erase_leaf' {s : Struct} (h : StructInv s) {p : Pid}
    (hleaf : s.graph.childrenOf p = []) :
    (∀ q, q ≠ p → (s.graph.erase p).parentsOf q = s.graph.parentsOf q) ∧
    (∀ q, q ∈ (s.graph.erase p).items → q ≠ p) := by
  have w := h.keys.graphWf
  cases hk : s.graph.findItemIndex p with
  | none =>
    have hp : p ∉ s.graph.items := Graph.findItemIndex_eq_none.1 hk
    have he : s.graph.erase p = s.graph := by simp [Graph.erase, hk]
    rw [he]
    exact ⟨fun _ _ => rfl, fun q hq e => hp (e ▸ hq)⟩
  | some k =>
    have := Graph.erase_spec s.graph w p k hk (by
      intro l hl hkl
      obtain ⟨i, hi, rfl⟩ := List.mem_iff_getElem.1 hl
      have hrow : s.graph.row i = s.graph.adj[i] := by
        simp [Graph.row, List.getD_eq_getElem?_getD, List.getElem?_eq_getElem hi]
      have hil : i < s.graph.items.length := by rw [← w.len]; exact hi
      have hpar : p ∈ s.graph.parentsOf s.graph.items[i] :=
        (Graph.mem_parentsOf w).2 ⟨i, k, List.getElem?_eq_getElem hil, Graph.findItemIndex_eq_some hk, by rw [hrow]; exact hkl⟩
      exact not_parent_of_leaf' h hleaf _ hpar)
    exact ⟨this.2.1, fun q hq => ((this.2.2.2 q).1 hq).2⟩

theorem rowConds {s : Struct} (h : StructInv s) : ∀ x ∈ s.graph.items, x ∉ s.graph.parentsOf x ∧ (s.graph.parentsOf x).Nodup := by
  intro x _
  refine ⟨?_, parents_nodup h x⟩
  intro hx
  obtain ⟨rank, hr⟩ := h.parents.acyclic
  exact Nat.lt_irrefl _ (hr x x hx)

theorem itemsOk_insertOperation {s s' : Struct} (h : StructInv s) (hok : ItemsOk s.graph) {a b fresh : Pid}
    (hs : s.insertOperation a b fresh = some (some s')) : ItemsOk s'.graph := by
  unfold Struct.insertOperation at hs
  split at hs
  · cases hs
  · split at hs
    · cases hs
    · rename_i hcont
      split at hs
      · cases hs
      · rename_i hfresh
        dsimp only at hs
        split at hs
        · cases hs
        · injection hs with hs; injection hs with hs; subst hs
          have ha : a ∈ s.storage := by
            simp only [Struct.contains, Bool.not_eq_true, Bool.or_eq_true, not_or] at hcont; simpa using hcont.1
          have hb : b ∈ s.storage := by
            simp only [Struct.contains, Bool.not_eq_true, Bool.or_eq_true, not_or] at hcont; simpa using hcont.2
          have hp : fresh ∉ s.ids := by simpa using hfresh
          have hps : fresh ∉ s.storage := fun hm => hp ((h.keys.idsEq fresh).2 hm)
          show ItemsOk (s.graph.addItem fresh [a, b])
          exact itemsOk_addItem h.keys.graphWf hok (fun hm => hps (h.keys.itemsSub _ hm))
            (fun e => hps (e ▸ ha)) (fun e => hps (e ▸ hb))

/-- one step keeps `ItemsOk`, a `reload` provided it loads the connections as written -/
theorem itemsOk_step (v : Variant) (o : Oracle) (st st' : St) (op : Op) (b : Bool)
    (h : StructInv st.s) (hok : ItemsOk st.s.graph) (hs : step v o st op = some (st', b))
    (hw : ∀ items edges, op = .reload items edges → edges = writtenEdges st.s.graph) : ItemsOk st'.s.graph := by
  have h' : StructInv st'.s := CCVerif.Oss.structInv_step v o st st' op b h hs
  cases op with
  | insertBase fresh =>
    simp only [step, Option.map_eq_some_iff] at hs
    obtain ⟨s', hs', he⟩ := hs
    injection he with he; subst he
    unfold Struct.insertBase at hs'
    split at hs'
    · cases hs'
    · split at hs'
      · cases hs'
      · injection hs' with hs'; subst hs'; exact hok
  | insertOperation a b' fresh =>
    simp only [step, Option.map_eq_some_iff] at hs
    obtain ⟨r, hr, he⟩ := hs
    cases r with
    | none => simp only at he; injection he with he; subst he; exact hok
    | some s' =>
      simp only at he; injection he with he; subst he
      exact itemsOk_insertOperation h hok hr
  | erase p =>
    simp only [step] at hs
    split at hs
    · injection hs with hs; injection hs with hs; subst hs; exact hok
    · rename_i he
      injection hs with hs; injection hs with hs; subst hs
      have he' : st.s.erasable p = true := by simpa using he
      simp only [Struct.erasable, Struct.contains, Bool.and_eq_true, List.isEmpty_iff] at he'
      obtain ⟨hother, hitems⟩ := graph_erase_leaf' h he'.2
      show ItemsOk (st.s.graph.erase p)
      exact itemsOk_erase hok hother hitems
  | newSource n c =>
    simp only [step] at hs
    split at hs
    · cases hs
    · injection hs with hs; injection hs with hs; subst hs; exact hok
  | connect p n => simp only [step] at hs; injection hs with hs; injection hs with hs; subst hs; exact hok
  | edit n c => simp only [step] at hs; injection hs with hs; injection hs with hs; subst hs; exact hok
  | announce n => simp only [step] at hs; injection hs with hs; injection hs with hs; subst hs; exact hok
  | close n => simp only [step] at hs; injection hs with hs; injection hs with hs; subst hs; exact hok
  | openSrc n => simp only [step] at hs; injection hs with hs; injection hs with hs; subst hs; exact hok
  | destroy n => simp only [step] at hs; injection hs with hs; injection hs with hs; subst hs; exact hok
  | initFor p t opts same => simp only [step] at hs; injection hs with hs; injection hs with hs; subst hs; exact hok
  | execute p a => simp only [step] at hs; injection hs with hs; injection hs with hs; subst hs; exact hok
  | executeAll => simp only [step] at hs; injection hs with hs; injection hs with hs; subst hs; exact hok
  | reload items edges =>
    have hE := hw items edges rfl
    have hg : st'.s.graph = ({} : Graph).loadParents edges := by
      simp only [step] at hs
      split at hs
      · cases hs
      · split at hs
        · cases hs
        · simp only [Option.map_eq_some_iff] at hs
          obtain ⟨st2, hl, he⟩ := hs
          injection he with he; subst he
          simp only [CCVerif.Oss.loadDoc, Option.map_eq_some_iff] at hl
          obtain ⟨sA, hA, he⟩ := hl
          subst he
          show (edges.foldl (fun s e => (s.loadParent e.1 e.2).1) sA).graph = _
          rw [foldl_loadParent_graph, loadPicts_graph _ _ _ hA]
    have w := h.keys.graphWf
    have hrows : RowsOk (rowsOf st.s.graph) := (rowsOk_rowsOf w).2 ⟨rowConds h, hok⟩
    obtain ⟨hproj, hrinv⟩ := toGraph_loadEdges_nil edges
    have hrows' : rowsOf st'.s.graph = loadEdges [] edges := by
      rw [hg, ← hproj, rowsOf_toGraph hrinv]
    have : RowsOk (rowsOf st'.s.graph) := by
      rw [hrows', hE]
      exact rowsOk_reload _ hrows
    exact ((rowsOk_rowsOf h'.keys.graphWf).1 this).2

theorem itemsOk_history (v : Variant) (o : Oracle) : ∀ (ops : List Op) (st : St), run v o ops = some st →
    writerReloads v o ops = true → ItemsOk st.s.graph
  | [], st, h, _ => by
    simp only [run] at h; injection h with h; subst h
    exact List.Pairwise.nil
  | op :: ops, st, h, hw => by
    simp only [run, Option.bind_eq_some_iff, Option.map_eq_some_iff] at h
    obtain ⟨st0, h0, ⟨r, hr, he⟩⟩ := h
    subst he
    obtain ⟨hw0, hwe⟩ := writerReloads_cons hw h0
    exact itemsOk_step v o st0 r.1 op r.2 (CCVerif.Oss.structInv_history v o ops st0 h0)
      (itemsOk_history v o ops st0 h0 hw0) hr hwe

/-- **`RowsOk` is an invariant of the histories whose reloads leave `connections` as written** -/
theorem rowsOk_history (v : Variant) (o : Oracle) (ops : List Op) (st : St) (hrun : run v o ops = some st)
    (hw : writerReloads v o ops = true) : RowsOk (rowsOf st.s.graph) := by
  have hs := CCVerif.Oss.structInv_history v o ops st hrun
  exact (rowsOk_rowsOf hs.keys.graphWf).2 ⟨rowConds hs, itemsOk_history v o ops st hrun hw⟩

/-! ## what the writer reads from a schema satisfying `StructInv` -/

theorem represents_codec {s : Struct} {c : Oss} (h : StructInv s) (r : Represents s c)
    (hop : ∀ p ∈ c.items, ∀ x, p.op = some x → OpWf x) :
    (c.items.map (·.uid)).Nodup ∧ (c.items.map (·.pos)).Nodup ∧ ∀ p ∈ c.items, PictWf p := by
  have hu : (c.items.map (·.uid)).Nodup := r.items.nodup_iff.2 h.keys.storageNodup
  have hgridmem : ∀ p ∈ c.items, (p.pos, p.uid) ∈ s.grid := by
    intro p hp
    have hcell := r.cell p hp
    unfold Grid.posOf at hcell
    cases hf : s.grid.find? (·.2 == p.uid) with
    | none => rw [hf] at hcell; cases hcell
    | some x =>
      rw [hf] at hcell
      have hx := List.mem_of_find?_eq_some hf
      have hx2 : x.2 = p.uid := by simpa using List.find?_some hf
      have hx1 : x.1 = p.pos := by simpa using hcell
      have : x = (p.pos, p.uid) := Prod.ext hx1 hx2
      exact this ▸ hx
  refine ⟨hu, ?_, ?_⟩
  · have hu' := hu
    rw [List.nodup_iff_pairwise_ne, List.pairwise_map] at hu' ⊢
    refine hu'.imp_of_mem ?_
    intro a b ha hb hne hpos
    apply hne
    have := CCVerif.Oss.injOn_of_nodup_map' h.keys.gridWf.keys _ (hgridmem a ha) _ (hgridmem b hb) hpos
    exact congrArg Prod.snd this
  · intro p hp
    refine ⟨?_, hop p hp⟩
    rw [r.src p hp]
    have : p.uid ∈ s.storage := r.items.mem_iff.1 (List.mem_map.2 ⟨p, hp, rfl⟩)
    simpa using (h.keys.srcEq p.uid).2 this

/-- for a reachable schema the writer's `connections` array is `EdgeList` of the C19 model's graph facet: the
admissible reloads are exactly `Op.reload items st.s.graph.edgeList` -/
theorem writtenEdges_eq (v : Variant) (o : Oracle) (ops : List Op) (st : St) (hrun : run v o ops = some st) :
    writtenEdges st.s.graph = st.s.graph.edgeList :=
  edgeList_rowsOf (CCVerif.Oss.structInv_history v o ops st hrun).keys.graphWf

end CCVerif.JsonOss
