import CCVerif.Lemmas.SchemaGen
/-!
Instances of the generic schema machine (`Model/SchemaGen.lean`):

* `fragA` — the definition fragment of `Model/Schema.lean` (a definition is a union of global
  names; the type is derived from the names), with the proof that it satisfies the frame laws;
* `heightA` — a second, unrelated analysis (definitions are lists of names, the entry is the
  height of the definition tree), to show that the laws are not tailored to the fragment.
-/
namespace CCVerif.SchemaGen
open CCVerif
open CCVerif.Schema (Kind Def Info Status renameDef resultInfo)

/-! ## the fragment -/

/-- `TypeFor` as seen through the context -/
def tyOf (o : Option Info) : Option String := o.bind (·.ty)

/-- `Schema.analyse` as a function of the context -/
def fragType (ctx : String → Option Info) (c : Cst Def) : Option String :=
  match c.kind, c.defn with
  | .base, .empty => some c.alias
  | .base, _ => none
  | .term, .empty => none
  | .term, .bad => none
  | .term, .union [] => none
  | .term, .union (n :: ns) =>
    match tyOf (ctx n) with
    | none => none
    | some t => if ns.all (fun m => tyOf (ctx m) == some t) then some t else none

def fragA : Analysis Def Info where
  mentions := Def.mentions
  rename := renameDef
  reset := {}
  ok := fun i => i.ty.isSome
  analyse := fun _ ctx c => resultInfo (fragType ctx c)

theorem fragType_term_union (ctx : String → Option Info) (u : Nat) (a n : String) (ns : List String)
    (t : String) :
    fragType ctx ⟨u, a, .term, .union (n :: ns)⟩ = some t ↔ ∀ m ∈ n :: ns, tyOf (ctx m) = some t := by
  unfold fragType
  simp only
  cases hn : tyOf (ctx n) with
  | none =>
    simp only [reduceCtorEq, false_iff]
    intro h
    have := h n (by simp)
    rw [hn] at this
    cases this
  | some t' =>
    simp only
    constructor
    · intro h
      split at h
      · next hall =>
        cases h
        intro m hm
        rcases List.mem_cons.1 hm with rfl | hm
        · exact hn
        · simpa using List.all_eq_true.1 hall m hm
      · cases h
    · intro hall
      have h1 := hall n (by simp)
      rw [hn] at h1
      cases h1
      rw [if_pos]
      apply List.all_eq_true.2
      intro m hm
      simpa using hall m (List.mem_cons_of_mem _ hm)

theorem fragType_eq_some {ctx : String → Option Info} {c : Cst Def} {t : String} :
    fragType ctx c = some t ↔
      (c.kind = .base ∧ c.defn = .empty ∧ t = c.alias) ∨
      (c.kind = .term ∧ ∃ n ns, c.defn = .union (n :: ns) ∧ ∀ m ∈ n :: ns, tyOf (ctx m) = some t) := by
  obtain ⟨u, a, k, d⟩ := c
  cases k <;> cases d with
  | empty => simp [fragType, eq_comm]
  | bad => simp [fragType]
  | union l =>
    cases l with
    | nil => simp [fragType]
    | cons n ns =>
      first
      | (rw [fragType_term_union]
         simp only [reduceCtorEq, false_and, false_or, true_and, Def.union.injEq, List.cons.injEq]
         constructor
         · intro h; exact ⟨n, ns, ⟨rfl, rfl⟩, h⟩
         · rintro ⟨n', ns', ⟨rfl, rfl⟩, h⟩; exact h)
      | simp [fragType]

/-- the fragment analysis reads the context through `tyOf` at the mentioned names only -/
theorem fragType_congr {ctx ctx' : String → Option Info} {c : Cst Def}
    (h : ∀ m ∈ c.defn.mentions, tyOf (ctx m) = tyOf (ctx' m)) : fragType ctx c = fragType ctx' c := by
  have key : ∀ (a b : String → Option Info), (∀ m ∈ c.defn.mentions, tyOf (a m) = tyOf (b m)) →
      ∀ t, fragType a c = some t → fragType b c = some t := by
    intro a b hab t ht
    rcases fragType_eq_some.1 ht with h1 | ⟨hk, n, ns, hd, hall⟩
    · exact fragType_eq_some.2 (Or.inl h1)
    · refine fragType_eq_some.2 (Or.inr ⟨hk, n, ns, hd, fun m hm => ?_⟩)
      rw [← hab m (by rw [hd]; exact hm)]
      exact hall m hm
  cases h1 : fragType ctx c with
  | some t => exact (key ctx ctx' h t h1).symm
  | none =>
    cases h2 : fragType ctx' c with
    | none => rfl
    | some t =>
      have := key ctx' ctx (fun m hm => (h m hm).symm) t h2
      rw [h1] at this
      cases this

theorem tyOf_of_not_ok {i : Info} (h : fragA.ok i = false) : tyOf (some i) = none := by
  show i.ty = none
  cases hi : i.ty with
  | none => rfl
  | some t =>
    have : fragA.ok i = true := by show i.ty.isSome = true; rw [hi]; rfl
    rw [this] at h
    cases h

theorem tyOf_sim {o o' : Option Info} (h : Sim fragA o o') : tyOf o = tyOf o' := by
  rcases h with rfl | ⟨i, j, rfl, rfl, hi, hj⟩
  · rfl
  · rw [tyOf_of_not_ok hi, tyOf_of_not_ok hj]

/-- the fragment satisfies the frame laws -/
theorem fragA_lawful : Lawful fragA where
  reset_not_ok := rfl
  frame := by
    intro sk ctx ctx' c h
    show resultInfo (fragType ctx c) = resultInfo (fragType ctx' c)
    rw [fragType_congr (fun m hm => tyOf_sim (h m hm))]
  strict := by
    intro sk ctx c m i hm hc hi
    show (resultInfo (fragType ctx c)).ty.isSome = false
    cases hf : fragType ctx c with
    | none => rfl
    | some t =>
      exfalso
      rcases fragType_eq_some.1 hf with ⟨_, hd, _⟩ | ⟨_, n, ns, hd, hall⟩
      · have hm' : m ∈ c.defn.mentions := hm
        rw [hd] at hm'
        cases hm'
      · have hm' : m ∈ c.defn.mentions := hm
        rw [hd] at hm'
        have := hall m hm'
        rw [hc, tyOf_of_not_ok hi] at this
        cases this

/-! ## a second instance: heights

A definition is the list of the names it mentions; the entry of a constituent is `some (h+1)`
where `h` is the largest entry among the mentioned constituents (0 if there are none) — provided
every mentioned name denotes a constituent with an entry; `none` otherwise. -/

def heightOf (ctx : String → Option (Option Nat)) : List String → Option Nat
  | [] => some 0
  | m :: ms =>
    match ctx m, heightOf ctx ms with
    | some (some h), some k => some (max h k)
    | _, _ => none

def heightA : Analysis (List String) (Option Nat) where
  mentions := fun d => d
  rename := fun f d => d.map (fun n => (f n).getD n)
  reset := none
  ok := Option.isSome
  analyse := fun _ ctx c => (heightOf ctx c.defn).map (· + 1)

theorem heightOf_congr {ctx ctx' : String → Option (Option Nat)} :
    ∀ (l : List String), (∀ m ∈ l, Sim heightA (ctx m) (ctx' m)) → heightOf ctx l = heightOf ctx' l := by
  intro l
  induction l with
  | nil => intro _; rfl
  | cons m ms ih =>
    intro h
    unfold heightOf
    rw [ih (fun x hx => h x (List.mem_cons_of_mem _ hx))]
    rcases h m (by simp) with e | ⟨i, j, e1, e2, hi, hj⟩
    · rw [e]
    · rw [e1, e2]
      cases i with
      | some _ => cases hi
      | none =>
        cases j with
        | some _ => cases hj
        | none => rfl

theorem heightOf_strict {ctx : String → Option (Option Nat)} :
    ∀ (l : List String) (m : String), m ∈ l → ctx m = some none → heightOf ctx l = none := by
  intro l
  induction l with
  | nil => intro m hm; cases hm
  | cons x xs ih =>
    intro m hm hc
    unfold heightOf
    rcases List.mem_cons.1 hm with rfl | hm
    · rw [hc]
    · rw [ih m hm hc]
      cases ctx x with
      | none => rfl
      | some o => cases o <;> rfl

theorem heightA_lawful : Lawful heightA where
  reset_not_ok := rfl
  frame := by
    intro sk ctx ctx' c h
    show (heightOf ctx c.defn).map (· + 1) = (heightOf ctx' c.defn).map (· + 1)
    rw [heightOf_congr c.defn h]
  strict := by
    intro sk ctx c m i hm hc hi
    show ((heightOf ctx c.defn).map (· + 1)).isSome = false
    cases i with
    | some _ => cases hi
    | none => rw [heightOf_strict c.defn m hm hc]; rfl

end CCVerif.SchemaGen
