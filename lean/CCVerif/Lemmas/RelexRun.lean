import CCVerif.Lemmas.Relex
/-!
Lemmas for C08, `relex_stable`: the induction along the scanning loop. The translated text, as code
points (`weaveC`), is scanned piece by piece exactly as the original text, a replaced identifier
token being scanned as ONE identifier token spelled as the new name.
-/
namespace CCVerif.Translate
open CCVerif.Syntax CCVerif.Generated CCVerif.Lexer CCVerif.Strings CCVerif.Translate.Spec

/-! ## the translated text as code points -/

/-- the code points that stand for token `t` after the translation -/
def newCps (f : Tok → Bool) (tr : Translator) (t : RawTok) : List Nat :=
  if isChanged f tr t then (decode (newText f tr t)).getD [] else t.text

/-- the kind of the token that stands for `t` after the translation -/
def newKind (f : Tok → Bool) (tr : Translator) (t : RawTok) : Tok :=
  if isChanged f tr t then (idClass (newText f tr t)).getD t.id else t.id

def weaveC (f : Tok → Bool) (tr : Translator) (cps : List Nat) : Nat → List RawTok → List Nat
  | cur, [] => cps.drop cur
  | cur, t :: ts => slice cps cur t.lo ++ newCps f tr t ++ weaveC f tr cps (t.lo + t.text.length) ts

/-- a replaced token is replaced by an identifier spelling -/
def Good (f : Tok → Bool) (tr : Translator) (t : RawTok) : Prop :=
  isChanged f tr t = true → ∃ N k, decode (newText f tr t) = some N ∧ IsName N k ∧ idClass (newText f tr t) = some k

theorem lexMath_nil : lexMath [] = some [] := by decide +kernel

/-- `idClass n = some k`: `n` decodes to a name of kind `k` -/
theorem idClass_name (n : Bytes) (k : Tok) (h : idClass n = some k) : ∃ N, decode n = some N ∧ IsName N k := by
  unfold idClass at h
  cases hd : decode n with
  | none => rw [hd] at h; cases h
  | some N =>
    rw [hd] at h
    simp only at h
    refine ⟨N, rfl, ?_⟩
    cases hl : lexMath N with
    | none => rw [hl] at h; cases h
    | some ts =>
      rw [hl] at h
      match ts, hl, h with
      | [], _, h => cases h
      | _ :: _ :: _, _, h => cases h
      | [t], hl, h =>
        simp only at h
        split at h
        · next hc =>
          cases h
          have hne : N ≠ [] := by
            intro e; subst e
            rw [lexMath_nil] at hl; cases hl
          refine ⟨hne, hc.2, ?_⟩
          obtain ⟨h1, h2, h3, _⟩ := lexMath_laid hl
          have hlen : 0 < N.length := List.length_pos_iff.2 hne
          have hlo : t.lo = 0 := by
            have := congrArg List.length h2
            rw [hc.1] at this
            simp only [List.length_take, List.length_drop] at this
            omega
          rcases h3 with ⟨he, _⟩ | ⟨m, hb, htx⟩
          · rw [hc.1] at he; exact absurd he hne
          · rw [hlo, List.drop_zero] at hb htx
            have h4 := bestRule_le N m _ hb
            have h5 : N.length ≤ m := by
              have := congrArg List.length htx
              rw [hc.1, List.length_take] at this
              omega
            have : m = N.length := by omega
            rw [this] at hb
            exact hb
        · cases h

theorem newText_unchanged (f : Tok → Bool) (tr : Translator) (t : RawTok) (h : isChanged f tr t = false) :
    newText f tr t = encode t.text := by
  unfold isChanged at h
  unfold newText
  cases hf : f t.id with
  | false => simp
  | true =>
    rw [hf] at h
    simp only [if_true]
    cases ht : tr (encode t.text) with
    | none => rfl
    | some n =>
      rw [ht] at h
      simp at h
      simp [h]

/-- under `Good`, the bytes of the new code points are the new text -/
theorem encode_newCps (f : Tok → Bool) (tr : Translator) (t : RawTok) (hg : Good f tr t) :
    encode (newCps f tr t) = newText f tr t := by
  unfold newCps
  cases hc : isChanged f tr t with
  | false => simp [newText_unchanged f tr t hc]
  | true =>
    obtain ⟨N, k, hd, _, _⟩ := hg hc
    simp only [if_true, hd, Option.getD_some]
    exact (decode_sound _ _ hd).1

theorem relexExpected_spec (f : Tok → Bool) (tr : Translator) : ∀ (toks : List RawTok) (exp : List (Tok × Bytes)),
    relexExpected f tr toks = some exp →
    (∀ t ∈ toks, Good f tr t) ∧ exp = toks.map (fun t => (newKind f tr t, encode (newCps f tr t))) := by
  intro toks
  induction toks with
  | nil => intro exp h; simp [relexExpected, mapM?] at h; subst h; simp
  | cons t ts ih =>
    intro exp h
    unfold relexExpected at h
    simp only [mapM?] at h
    split at h
    · next b bs hb hbs =>
      cases h
      obtain ⟨i1, i2⟩ := ih bs hbs
      have hg : Good f tr t := by
        intro hc
        rw [hc] at hb
        simp only [if_true] at hb
        cases hi : idClass (newText f tr t) with
        | none => rw [hi] at hb; cases hb
        | some k =>
          obtain ⟨N, hd, hn⟩ := idClass_name _ k hi
          exact ⟨N, k, hd, hn, rfl⟩
      refine ⟨?_, ?_⟩
      · intro x hx
        rcases List.mem_cons.1 hx with rfl | hx
        · exact hg
        · exact i1 x hx
      · rw [List.map_cons, ← i2]
        congr 1
        rw [encode_newCps f tr t hg]
        cases hc : isChanged f tr t with
        | false =>
          rw [hc] at hb
          simp at hb
          rw [← hb, newText_unchanged f tr t hc]
          simp [newKind, hc]
        | true =>
          rw [hc] at hb
          simp only [if_true] at hb
          cases hi : idClass (newText f tr t) with
          | none => rw [hi] at hb; cases hb
          | some k =>
            rw [hi] at hb
            simp at hb
            rw [← hb]
            simp [newKind, hc, hi]
    · cases h

theorem weaveC_encode (f : Tok → Bool) (tr : Translator) (cps : List Nat) : ∀ (toks : List RawTok) (cur : Nat),
    (∀ t ∈ toks, Good f tr t) → encode (weaveC f tr cps cur toks) = weaveToks f tr cps cur toks
  | [], _, _ => rfl
  | t :: ts, cur, hg => by
    unfold weaveC weaveToks
    rw [encode_append, encode_append, encode_newCps f tr t (hg t (by simp)),
      weaveC_encode f tr cps ts _ (fun x hx => hg x (List.mem_cons_of_mem _ hx))]

theorem weaveC_scalar (f : Tok → Bool) (tr : Translator) (cps : List Nat) (hv : ∀ c ∈ cps, scalar c) :
    ∀ (toks : List RawTok) (cur : Nat), (∀ t ∈ toks, Good f tr t) → LaidOn cps cur toks →
      ∀ c ∈ weaveC f tr cps cur toks, scalar c
  | [], cur, _, _ => fun c hc => hv c (List.mem_of_mem_drop hc)
  | t :: ts, cur, hg, hl => by
    intro c hc
    unfold weaveC at hc
    rcases List.mem_append.1 hc with hc | hc
    · rcases List.mem_append.1 hc with hc | hc
      · unfold slice at hc
        exact hv c (List.mem_of_mem_drop (List.mem_of_mem_take hc))
      · unfold newCps at hc
        cases hch : isChanged f tr t with
        | false =>
          rw [hch] at hc
          simp only [Bool.false_eq_true, if_false] at hc
          rw [← hl.2.1] at hc
          exact hv c (List.mem_of_mem_drop (List.mem_of_mem_take hc))
        | true =>
          obtain ⟨N, k, hd, _, _⟩ := hg t (by simp) hch
          rw [hch, hd] at hc
          exact (decode_sound _ _ hd).2 c hc
    · exact weaveC_scalar f tr cps hv ts _ (fun x hx => hg x (List.mem_cons_of_mem _ hx)) hl.2.2.2 c hc

theorem slice_split (cps : List Nat) {a b c : Nat} (h1 : a ≤ b) (h2 : b ≤ c) :
    slice cps a c = slice cps a b ++ slice cps b c := by
  unfold slice
  have e : cps.drop b = (cps.drop a).drop (b - a) := by rw [List.drop_drop]; congr 1; omega
  rw [e]
  have : c - a = (b - a) + (c - b) := by omega
  rw [this, List.take_add]

theorem weaveC_shift (f : Tok → Bool) (tr : Translator) (cps : List Nat) {cur cur' : Nat} (h : cur ≤ cur') :
    ∀ (ts : List RawTok), LaidOn cps cur' ts → weaveC f tr cps cur ts = slice cps cur cur' ++ weaveC f tr cps cur' ts
  | [], _ => by
    unfold weaveC slice
    have e : cps.drop cur' = (cps.drop cur).drop (cur' - cur) := by rw [List.drop_drop]; congr 1; omega
    rw [e, List.take_append_drop]
  | t :: ts, hl => by
    unfold weaveC
    rw [slice_split cps h hl.1]
    simp only [List.append_assoc]

/-! ## similar texts -/

/-- `s` and `W` are equal, or equal up to a point where an identifier-start symbol follows in both,
and the common part does not end in an identifier-start symbol -/
def Sim (s W : List Nat) : Prop :=
  s = W ∨ ∃ c x w y w', s = c ++ x :: w ∧ W = c ++ y :: w' ∧ idStartB x = true ∧ idStartB y = true ∧
    (∀ z, c.getLast? = some z → idStartB z = false)

/-- an unchanged piece: same longest match, and the texts stay similar -/
theorem step_unchanged (s : List Nat) (n : Nat) (act : LexAct)
    (hb : bestRule .math s mathRules none = some (n + 1, act)) (Wr : List Nat) (hs : Sim (s.drop (n + 1)) Wr) :
    bestRule .math (s.take (n + 1) ++ Wr) mathRules none = some (n + 1, act) ∧ Sim s (s.take (n + 1) ++ Wr) := by
  have hle := bestRule_le s _ _ hb
  rcases hs with hs | ⟨c, x, w, y, w', e1, e2, hx, hy, hlast⟩
  · rw [← hs, List.take_append_drop]
    exact ⟨hb, Or.inl rfl⟩
  · have es : s = (s.take (n + 1) ++ c) ++ x :: w := by
      rw [List.append_assoc, ← e1, List.take_append_drop]
    have hne : s.take (n + 1) ++ c ≠ [] := by
      intro h
      have := congrArg List.length h
      simp only [List.length_append, List.length_take, List.length_nil] at this
      omega
    have hlast' : ∀ z, (s.take (n + 1) ++ c).getLast? = some z → idStartB z = false := by
      intro z hz
      rw [List.getLast?_append] at hz
      cases hcl : c.getLast? with
      | some z' =>
        rw [hcl] at hz
        simp at hz
        subst hz
        exact hlast _ hcl
      | none =>
        rw [hcl] at hz
        simp only [Option.none_or] at hz
        have hc : c = [] := by simpa using hcl
        subst hc
        rw [List.getLast?_eq_getElem?, List.length_take, List.getElem?_take] at hz
        have hmin : min (n + 1) s.length = n + 1 := by omega
        rw [hmin] at hz
        simp only [Nat.add_sub_cancel, Nat.lt_add_one, if_true] at hz
        have hx1 : s[n + 1]? = some x := by
          have : s = s.take (n + 1) ++ x :: w := by simpa using es
          rw [this, List.getElem?_append_right (by simp [List.length_take]; omega)]
          simp [List.length_take, hmin]
        cases hzz : idStartB z with
        | false => rfl
        | true => exact (no_idstart_before s n act z x hb hz hx1 hzz (idStartB_alnum x hx)).elim
    have hb' : bestRule .math ((s.take (n + 1) ++ c) ++ x :: w) mathRules none = some (n + 1, act) := by rw [← es]; exact hb
    have hn : n + 1 ≤ (s.take (n + 1) ++ c).length := by
      simp only [List.length_append, List.length_take]; omega
    have := stable_before _ x y w w' (n + 1) act hne hlast' hx hy hn hb'
    rw [e2, ← List.append_assoc]
    refine ⟨this, Or.inr ⟨_, x, w, y, w', es, rfl, hx, hy, hlast'⟩⟩

/-- a replaced identifier token: the new name is matched whole, and the texts stay similar -/
theorem step_changed (s : List Nat) (n : Nat) (k : Tok) (hk : filterIdentifiers k = true)
    (hb : bestRule .math s mathRules none = some (n + 1, .tok k)) (N : List Nat) (k' : Tok) (hN : IsName N k')
    (Wr : List Nat) (hs : Sim (s.drop (n + 1)) Wr) :
    bestRule .math (N ++ Wr) mathRules none = some (N.length, .tok k') ∧ Sim s (N ++ Wr) := by
  have hm := munch s (n + 1) k hk hb
  refine ⟨stable_name hN Wr ?_, ?_⟩
  · intro z hz
    rcases hs with hs | ⟨c, x, w, y, w', e1, e2, hx, hy, _⟩
    · rw [← hs] at hz; exact hm z hz
    · cases c with
      | nil =>
        have := hm x (by rw [e1]; rfl)
        rw [idStartB_alnum x hx] at this; cases this
      | cons a c' =>
        apply hm z
        rw [e1]
        rw [e2] at hz
        exact hz
  · obtain ⟨a, t, e, ha, _⟩ := id_best_shape s _ k hk hb
    obtain ⟨a', t', e', ha', _⟩ := hN.shape
    refine Or.inr ⟨[], a, t, a', t' ++ Wr, by simpa using e, by rw [e']; rfl, ha, ha', ?_⟩
    intro z hz; simp at hz

/-! ## the scanning loop on the translated text -/

def key (t : RawTok) : Tok × List Nat := (t.id, t.text)

theorem math_end_rule : ∀ r ∈ mathRules, r.act = .tok .END → r.pat = .eof := by decide +kernel

/-- a token produced by a rule match is never the end marker -/
theorem best_ne_end (s : List Nat) (n : Nat) (k : Tok) (hb : bestRule .math s mathRules none = some (n, .tok k)) : k ≠ .END := by
  intro e
  subst e
  rcases bestRule_origin .math s mathRules none _ _ hb with h' | ⟨r, hr, ha, hp⟩
  · cases h'
  · rw [math_end_rule r hr ha] at hp
    simp [matchPat] at hp

theorem untilEnd_cons_ne (t : RawTok) (ts : List RawTok) (h : t.id ≠ .END) : untilEnd (t :: ts) = t :: untilEnd ts := by
  show (if t.id = .END then [] else t :: untilEnd ts) = _
  rw [if_neg h]

/-- one step of the loop, given the longest match -/
theorem lexGo_step_tok (fuel : Nat) (W : List Nat) (lb col : Nat) (m : Nat) (t : Tok) (hW : W ≠ [])
    (hb : bestRule .math W mathRules none = some (m + 1, .tok t)) :
    lexGo .math mathRules (fuel + 1) W lb col =
      match lexGo .math mathRules fuel (W.drop (m + 1)) lb (col + (m + 1)) with
      | some rest => some (⟨t, lb + col, lb + col + width .math (W.take (m + 1)), W.take (m + 1)⟩ :: rest)
      | none => none := by
  cases W with
  | nil => exact absurd rfl hW
  | cons c r =>
    simp only [lexGo]
    rw [hb]
    rfl

theorem lexGo_step_skip (fuel : Nat) (W : List Nat) (lb col : Nat) (m : Nat) (hW : W ≠ [])
    (hb : bestRule .math W mathRules none = some (m + 1, .skip)) :
    lexGo .math mathRules (fuel + 1) W lb col = lexGo .math mathRules fuel (W.drop (m + 1)) lb (col + (m + 1)) := by
  cases W with
  | nil => exact absurd rfl hW
  | cons c r =>
    simp only [lexGo]
    rw [hb]
    rfl

theorem lexGo_step_newline (fuel : Nat) (W : List Nat) (lb col : Nat) (m : Nat) (hW : W ≠ [])
    (hb : bestRule .math W mathRules none = some (m + 1, .newline)) :
    lexGo .math mathRules (fuel + 1) W lb col = lexGo .math mathRules fuel (W.drop (m + 1)) (lb + (col + 1)) 0 := by
  cases W with
  | nil => exact absurd rfl hW
  | cons c r =>
    simp only [lexGo]
    rw [hb]
    rfl

/-- the loop on `P ++ Wr` when `P` is the longest match: one piece, then the loop on `Wr` -/
theorem relex_piece (P Wr : List Nat) (act : LexAct) (K : List (Tok × List Nat)) (hP : P ≠ [])
    (hb : bestRule .math (P ++ Wr) mathRules none = some (P.length, act))
    (ih : ∀ fuel' lb' col', Wr.length < fuel' → ∃ ts', lexGo .math mathRules fuel' Wr lb' col' = some ts' ∧
      (untilEnd ts').map key = K) :
    ∀ fuel' lb' col', (P ++ Wr).length < fuel' → ∃ ts', lexGo .math mathRules fuel' (P ++ Wr) lb' col' = some ts' ∧
      (untilEnd ts').map key = (match act with | .tok k => (k, P) :: K | _ => K) := by
  intro fuel' lb' col' hlen
  have hpl : 0 < P.length := List.length_pos_iff.2 hP
  cases fuel' with
  | zero => omega
  | succ fuel' =>
    obtain ⟨m, hm⟩ : ∃ m, P.length = m + 1 := ⟨P.length - 1, by omega⟩
    have hne : P ++ Wr ≠ [] := by
      intro h; exact hP (List.append_eq_nil_iff.1 h).1
    rw [hm] at hb
    have hd : (P ++ Wr).drop (m + 1) = Wr := by rw [← hm]; simp
    have ht : (P ++ Wr).take (m + 1) = P := by rw [← hm]; simp
    have hl' : Wr.length < fuel' := by
      have := List.length_append (as := P) (bs := Wr)
      omega
    cases act with
    | tok k =>
      rw [lexGo_step_tok fuel' (P ++ Wr) lb' col' m k hne hb, hd, ht]
      obtain ⟨ts', h1, h2⟩ := ih fuel' lb' (col' + (m + 1)) hl'
      rw [h1]
      refine ⟨_, rfl, ?_⟩
      rw [untilEnd_cons_ne _ _ (best_ne_end _ _ k hb), List.map_cons, h2]
      rfl
    | skip =>
      rw [lexGo_step_skip fuel' (P ++ Wr) lb' col' m hne hb, hd]
      exact ih fuel' lb' (col' + (m + 1)) hl'
    | newline =>
      rw [lexGo_step_newline fuel' (P ++ Wr) lb' col' m hne hb, hd]
      exact ih fuel' (lb' + (col' + 1)) 0 hl'

theorem mem_untilEnd_of {t : RawTok} {x : RawTok} {ts : List RawTok} (h : t.id ≠ .END) (hx : x ∈ untilEnd ts) :
    x ∈ untilEnd (t :: ts) := by
  rw [untilEnd_cons_ne t ts h]; exact List.mem_cons_of_mem _ hx

/-- **the induction along the scanning loop.** -/
theorem relex_run (f : Tok → Bool) (hf : ∀ k, f k = true → filterIdentifiers k = true) (tr : Translator) (cps : List Nat) :
    ∀ (fuel : Nat) (s : List Nat) (lb col : Nat) (ts : List RawTok),
      lexGo .math mathRules fuel s lb col = some ts → cps.drop (lb + col) = s → (∀ t ∈ untilEnd ts, Good f tr t) →
      Sim s (weaveC f tr cps (lb + col) (untilEnd ts)) ∧
      ∀ fuel' lb' col', (weaveC f tr cps (lb + col) (untilEnd ts)).length < fuel' →
        ∃ ts', lexGo .math mathRules fuel' (weaveC f tr cps (lb + col) (untilEnd ts)) lb' col' = some ts' ∧
          (untilEnd ts').map key = (untilEnd ts).map (fun t => (newKind f tr t, newCps f tr t)) := by
  intro fuel
  induction fuel with
  | zero => intro s lb col ts h; simp [lexGo] at h
  | succ fuel ih =>
    intro s lb col ts h hs hg
    cases s with
    | nil =>
      simp only [lexGo] at h
      rw [math_eof] at h
      simp at h
      subst h
      have hu : untilEnd [(⟨.END, lb + col, lb + col, []⟩ : RawTok)] = [] := by simp [Translate.untilEnd]
      rw [hu]
      unfold weaveC
      rw [hs]
      refine ⟨Or.inl rfl, ?_⟩
      intro fuel' lb' col' hl
      cases fuel' with
      | zero => simp at hl
      | succ fuel' =>
        simp only [lexGo]
        rw [math_eof]
        exact ⟨_, rfl, by simp [Translate.untilEnd]⟩
    | cons c r =>
      simp only [lexGo] at h
      cases hb : bestRule .math (c :: r) mathRules none with
      | none => rw [hb] at h; cases h
      | some na =>
        obtain ⟨n, act⟩ := na
        rw [hb] at h
        cases n with
        | zero => simp at h
        | succ n =>
          simp only at h
          have hle := bestRule_le _ _ _ hb
          have htl : ((c :: r).take (n + 1)).length = n + 1 := by rw [List.length_take]; omega
          have hPne : (c :: r).take (n + 1) ≠ [] := by
            intro e; rw [e] at htl; simp at htl
          have hnext : cps.drop (lb + (col + (n + 1))) = (c :: r).drop (n + 1) := by
            rw [← hs, List.drop_drop]; congr 1; omega
          have hslice : slice cps (lb + col) (lb + (col + (n + 1))) = (c :: r).take (n + 1) := by
            unfold slice; rw [hs]; congr 1; omega
          cases act with
          | tok k =>
            simp only at h
            cases hr : lexGo .math mathRules fuel ((c :: r).drop (n + 1)) lb (col + (n + 1)) with
            | none => rw [hr] at h; cases h
            | some rest =>
              rw [hr] at h
              have h := Option.some.inj h
              subst h
              clear h
              have hkne := best_ne_end _ _ k hb
              rw [untilEnd_cons_ne _ _ hkne] at hg ⊢
              obtain ⟨i1, i2⟩ := ih _ _ _ _ hr hnext (fun t ht => hg t (List.mem_cons_of_mem _ ht))
              -- the woven text: the new code points of the token, then the rest
              have hW : weaveC f tr cps (lb + col)
                  ((⟨k, lb + col, lb + col + width .math ((c :: r).take (n + 1)), (c :: r).take (n + 1)⟩ : RawTok) :: untilEnd rest) =
                  newCps f tr ⟨k, lb + col, lb + col + width .math ((c :: r).take (n + 1)), (c :: r).take (n + 1)⟩ ++
                    weaveC f tr cps (lb + (col + (n + 1))) (untilEnd rest) := by
                rw [weaveC]
                have : slice cps (lb + col) (lb + col) = [] := by simp [slice]
                simp only [htl, this, List.nil_append, Nat.add_assoc lb col (n + 1)]
              rw [hW]
              generalize ht0 : (⟨k, lb + col, lb + col + width .math ((c :: r).take (n + 1)), (c :: r).take (n + 1)⟩ : RawTok) = t0 at hg ⊢
              have hgt := hg t0 (by simp)
              cases hch : isChanged f tr t0 with
              | true =>
                obtain ⟨N, k', hd, hN, hic⟩ := hgt hch
                have hfk : f k = true := by
                  unfold isChanged at hch
                  rw [← ht0] at hch
                  simp only [Bool.and_eq_true] at hch
                  exact hch.1
                obtain ⟨s1, s2⟩ := step_changed (c :: r) n k (hf k hfk) hb N k' hN _ i1
                have e1 : newCps f tr t0 = N := by simp [newCps, hch, hd]
                have e2 : newKind f tr t0 = k' := by simp [newKind, hch, hic]
                rw [e1, List.map_cons, e1, e2]
                exact ⟨s2, relex_piece N _ (.tok k') _ hN.1 s1 i2⟩
              | false =>
                obtain ⟨s1, s2⟩ := step_unchanged (c :: r) n (.tok k) hb _ i1
                have e1 : newCps f tr t0 = (c :: r).take (n + 1) := by
                  have : newCps f tr t0 = t0.text := by unfold newCps; rw [hch]; rfl
                  rw [this, ← ht0]
                have e2 : newKind f tr t0 = k := by
                  have : newKind f tr t0 = t0.id := by unfold newKind; rw [hch]; rfl
                  rw [this, ← ht0]
                rw [e1, List.map_cons, e1, e2]
                have s1' : bestRule .math ((c :: r).take (n + 1) ++ weaveC f tr cps (lb + (col + (n + 1))) (untilEnd rest))
                    mathRules none = some (((c :: r).take (n + 1)).length, .tok k) := by rw [htl]; exact s1
                exact ⟨s2, relex_piece _ _ (.tok k) _ hPne s1' i2⟩
          | skip =>
            obtain ⟨i1, i2⟩ := ih _ _ _ _ h hnext hg
            have hlaid := (lexGo_laid cps _ _ _ _ _ h hnext).untilEnd
            have hW := weaveC_shift f tr cps (show lb + col ≤ lb + (col + (n + 1)) by omega) _ hlaid
            rw [hslice] at hW
            rw [hW]
            obtain ⟨s1, s2⟩ := step_unchanged (c :: r) n .skip hb _ i1
            have s1' : bestRule .math ((c :: r).take (n + 1) ++ weaveC f tr cps (lb + (col + (n + 1))) (untilEnd ts))
                mathRules none = some (((c :: r).take (n + 1)).length, .skip) := by rw [htl]; exact s1
            exact ⟨s2, relex_piece _ _ .skip _ hPne s1' i2⟩
          | newline =>
            have hn1 : n + 1 = 1 := by
              rcases bestRule_origin .math (c :: r) mathRules none (n + 1) .newline hb with h' | ⟨r', hr', ha, hp⟩
              · cases h'
              · have := math_newline_rules r' hr' ha
                rw [this] at hp
                simp only [matchPat] at hp
                split at hp <;> simp at hp
                omega
            have hnext' : cps.drop (lb + (col + 1) + 0) = (c :: r).drop (n + 1) := by
              rw [← hnext]; congr 1; omega
            obtain ⟨i1, i2⟩ := ih _ _ _ _ h hnext' hg
            have hlaid := (lexGo_laid cps _ _ _ _ _ h hnext').untilEnd
            have hW := weaveC_shift f tr cps (show lb + col ≤ lb + (col + 1) + 0 by omega) _ hlaid
            have hslice' : slice cps (lb + col) (lb + (col + 1) + 0) = (c :: r).take (n + 1) := by
              rw [← hslice]; congr 1; omega
            rw [hslice'] at hW
            rw [hW]
            obtain ⟨s1, s2⟩ := step_unchanged (c :: r) n .newline hb _ i1
            have s1' : bestRule .math ((c :: r).take (n + 1) ++ weaveC f tr cps (lb + (col + 1) + 0) (untilEnd ts))
                mathRules none = some (((c :: r).take (n + 1)).length, .newline) := by rw [htl]; exact s1
            exact ⟨s2, relex_piece _ _ .newline _ hPne s1' i2⟩

/-- **lexing the translated text.** For a filter that accepts identifier tokens only: if every
replaced token is replaced by an identifier spelling (`relexExpected … = some exp`), the translated
text is well formed and its MATH token stream is `exp`. -/
theorem relex_lexMath (f : Tok → Bool) (hf : ∀ k, f k = true → filterIdentifiers k = true) (tr : Translator)
    (cps : List Nat) (hv : ∀ c ∈ cps, scalar c) (toks : List RawTok) (hl : lexMath cps = some toks)
    (exp : List (Tok × Bytes)) (he : relexExpected f tr toks = some exp) :
    decode (weaveToks f tr cps 0 toks) = some (weaveC f tr cps 0 toks) ∧
    (lexMath (weaveC f tr cps 0 toks)).map (·.map fun t => (t.id, encode t.text)) = some exp := by
  obtain ⟨hg, hexp⟩ := relexExpected_spec f tr toks exp he
  have hlaid := lexMath_laid hl
  constructor
  · rw [← weaveC_encode f tr cps toks 0 hg]
    exact decode_encode _ (weaveC_scalar f tr cps hv toks 0 hg hlaid)
  · unfold lexMath at hl
    cases hr : lexRaw .math cps with
    | none => rw [hr] at hl; cases hl
    | some ts =>
      rw [hr] at hl
      have hl := Option.some.inj hl
      subst hl
      unfold lexRaw at hr
      obtain ⟨_, h2⟩ := relex_run f hf tr cps _ cps 0 0 ts hr (by simp) hg
      simp only [Nat.add_zero] at h2
      obtain ⟨ts', h3, h4⟩ := h2 ((weaveC f tr cps 0 (untilEnd ts)).length + 1) 0 0 (by omega)
      unfold lexMath lexRaw
      rw [show rulesOf .math = mathRules from rfl, h3]
      simp only [Option.map_some]
      rw [hexp]
      congr 1
      have : (untilEnd ts').map (fun t => (t.id, encode t.text)) = ((untilEnd ts').map key).map (fun p => (p.1, encode p.2)) := by
        rw [List.map_map]; rfl
      rw [this, h4, List.map_map]
      rfl

end CCVerif.Translate
