import CCVerif.Lemmas.EvalTop
/-! The normaliser on the fragments with tuple patterns (stage 6 of C01 / C02): `Normalizer` rewrites a binder
over a flat pattern `(x₁,…,xₙ)` into a binder over ONE generated variable and substitutes `pr_i` of it for the
components in the scope (`SubstituteTupleVariables`), before it normalises the scope.  The generated name depends
on the state of the `Normalizer` object (`tupleNames`, `usedTupleNames`); under the hypothesis that the candidate
names `'@' + components` of the patterns of the expression do not collide (`NoCollide`) it is the candidate name,
which is what the judgement `FragR` uses. -/
namespace CCVerif.Eval
open CCVerif.Syntax CCVerif.Spec CCVerif.Norm

/-! ## `ProcessTupleDeclaration` on a flat pattern -/

/-- the substitution table of a flat pattern: component `i` is `pr_i` -/
def flatPaths : List EDecl → Int → List (String × List Int)
  | [], _ => []
  | q :: xs, i => (q.1, [i]) :: flatPaths xs (i + 1)

theorem declPathsKids_flat : ∀ (xs : List EDecl) (i : Int), declPathsKids [] i (xs.map declNode) = flatPaths xs i
  | [], _ => rfl
  | q :: xs, i => by
    have ih := declPathsKids_flat xs (i + 1)
    simp only [List.map_cons, declPathsKids, flatPaths, ih]
    simp [declNode, declPaths, tok_beq]

theorem flatPaths_names : ∀ (xs : List EDecl) (i : Int), (flatPaths xs i).map (·.1) = xs.map (·.1)
  | [], _ => rfl
  | q :: xs, i => by simp [flatPaths, flatPaths_names xs (i + 1)]

theorem firstWins_nodup : ∀ (l : List (String × List Int)), (l.map (·.1)).Nodup → firstWins l = l
  | [], _ => rfl
  | (n, p) :: l, h => by
    have h1 := (List.nodup_cons.mp h).1
    have h2 := (List.nodup_cons.mp h).2
    simp only [firstWins, firstWins_nodup l h2]
    congr 1
    rw [List.filter_eq_self]
    intro e he
    simp only [bne_iff_ne, ne_eq]
    intro e'
    exact h1 (by rw [← e']; exact List.mem_map_of_mem (f := (·.1)) he)

theorem lookup_flatPaths (x : String) : ∀ (xs : List EDecl) (i : Int),
    lookup x (flatPaths xs i) = (posOf x xs).map fun j => [i + (j : Int)]
  | [], _ => rfl
  | q :: xs, i => by
    simp only [flatPaths, lookup, posOf]
    by_cases e : q.1 = x
    · simp [e]
    · have e' : ¬ (x = q.1) := fun h => e h.symm
      simp only [beq_iff_eq, e', if_false, e]
      rw [lookup_flatPaths x xs (i + 1)]
      cases posOf x xs with
      | none => rfl
      | some j => simp; omega

/-- `ProcessTupleDeclaration` on `(x₁,…,xₙ)` when the candidate name is the one that gets chosen -/
theorem processTupleDecl_flat (pd : TokData) (plo phi : Int) (xs : List EDecl) (st : NState)
    (hnd : (xs.map (·.1)).Nodup)
    (hst : lookup (sigOf (xs.map (·.1))) st.tupleNames = some (candName (xs.map (·.1))) ∨
      (lookup (sigOf (xs.map (·.1))) st.tupleNames = none ∧ candName (xs.map (·.1)) ∉ st.usedTupleNames)) :
    ∃ st', processTupleDecl (patNode pd plo phi xs) st =
        (candName (xs.map (·.1)), flatPaths xs 1, .node .ID_LOCAL (.text (candName (xs.map (·.1)))) plo phi [], st') ∧
      (st' = st ∨ st' = { st with usedTupleNames := candName (xs.map (·.1)) :: st.usedTupleNames,
                                  tupleNames := (sigOf (xs.map (·.1)), candName (xs.map (·.1))) :: st.tupleNames }) := by
  have hp : declPaths [] (Ast.node .NT_TUPLE_DECL pd plo phi (xs.map declNode)) = flatPaths xs 1 := by
    simp only [declPaths, show (Tok.NT_TUPLE_DECL == Tok.ID_LOCAL) = false from rfl, Bool.false_eq_true, if_false,
      declPathsKids_flat]
  have hfw : firstWins (flatPaths xs 1) = flatPaths xs 1 :=
    firstWins_nodup _ (by rw [flatPaths_names]; exact hnd)
  have hcand : "@" ++ String.join ((flatPaths xs 1).map (·.1)) = candName (xs.map (·.1)) := by
    rw [flatPaths_names]; rfl
  have hsig : String.join ((flatPaths xs 1).map (fun p => p.1 ++ ",")) = sigOf (xs.map (·.1)) := by
    have : (flatPaths xs 1).map (fun p => p.1 ++ ",") = ((flatPaths xs 1).map (·.1)).map (· ++ ",") := by
      rw [List.map_map]; rfl
    rw [this, flatPaths_names]; rfl
  rcases hst with h | ⟨h1, h2⟩
  · refine ⟨st, ?_, Or.inl rfl⟩
    simp only [processTupleDecl, patNode, hp, hfw, hcand, hsig, h, Ast.lo, Ast.hi]
  · refine ⟨_, ?_, Or.inr rfl⟩
    have hfresh : freshTupleName st.usedTupleNames (st.usedTupleNames.length + 1) (candName (xs.map (·.1))) =
        candName (xs.map (·.1)) := by
      have : st.usedTupleNames.contains (candName (xs.map (·.1))) = false := by simpa using h2
      rw [freshTupleName]
      simp only [this, Bool.false_eq_true, if_false]
    simp only [processTupleDecl, patNode, hp, hfw, hcand, hsig, h1, hfresh, Ast.lo, Ast.hi]

/-! ## the state of the `Normalizer` object -/

/-- the candidate names of the patterns do not collide: two patterns get the same candidate name exactly when they
have the same signature (the same component names in the same order) -/
def NoCollide (P : List (List String)) : Prop :=
  ∀ xs ∈ P, ∀ ys ∈ P, (candName xs = candName ys ↔ sigOf xs = sigOf ys)

/-- the name tables of the normaliser only know patterns of `P`, under their candidate names -/
structure NOK (P : List (List String)) (st : NState) : Prop where
  names : ∀ sg n, lookup sg st.tupleNames = some n → ∃ xs ∈ P, sigOf xs = sg ∧ n = candName xs
  used : ∀ n ∈ st.usedTupleNames, ∃ xs ∈ P, n = candName xs ∧ lookup (sigOf xs) st.tupleNames = some n

theorem NOK.init (P : List (List String)) (ul : List String) : NOK P { userLocals := ul } :=
  ⟨by intro sg n h; simp [lookup] at h, by intro n h; simp at h⟩

/-- for a pattern of `P` the normaliser chooses the candidate name, and its tables stay within `P` -/
theorem NOK.choose {P : List (List String)} (hP : NoCollide P) {st : NState} (h : NOK P st) {names : List String}
    (hm : names ∈ P) :
    (lookup (sigOf names) st.tupleNames = some (candName names) ∨
      (lookup (sigOf names) st.tupleNames = none ∧ candName names ∉ st.usedTupleNames)) ∧
    NOK P { st with usedTupleNames := candName names :: st.usedTupleNames,
                    tupleNames := (sigOf names, candName names) :: st.tupleNames } := by
  constructor
  · cases hl : lookup (sigOf names) st.tupleNames with
    | some n =>
      obtain ⟨ys, hys, e1, e2⟩ := h.names _ _ hl
      left
      rw [e2, (hP ys hys names hm).mpr e1]
    | none =>
      right
      refine ⟨rfl, ?_⟩
      intro hu
      obtain ⟨ys, hys, e1, e2⟩ := h.used _ hu
      have := (hP names hm ys hys).mp e1
      rw [this, e2] at hl; cases hl
  · constructor
    · intro sg n hl
      simp only [lookup] at hl
      split at hl
      · rename_i e
        have e' : sg = sigOf names := by simpa using e
        injection hl with hl
        exact ⟨names, hm, e'.symm, hl.symm⟩
      · exact h.names sg n hl
    · intro n hn
      rcases List.mem_cons.mp hn with rfl | hn
      · exact ⟨names, hm, rfl, by simp [lookup]⟩
      · obtain ⟨ys, hys, e1, e2⟩ := h.used n hn
        refine ⟨ys, hys, e1, ?_⟩
        simp only [lookup]
        split
        · rename_i e
          have e' : sigOf ys = sigOf names := by simpa using e
          rw [e1, (hP ys hys names hm).mpr e']
        · exact e2

/-! ## pending substitutions -/

/-- `SubstituteTupleVariables` on one child -/
def sK (subs : List (String × List Int)) (nn : String) (k : Ast) : Ast :=
  if isLocal k then
    match lookup (textOf k) subs with
    | some path => wrapPr path k.lo k.hi (.node .ID_LOCAL (.text nn) k.lo k.hi k.kids)
    | none => k
  else substTuple subs nn k

theorem substTupleKids_eq (subs : List (String × List Int)) (nn : String) : ∀ ks : List Ast,
    substTupleKids subs nn ks = ks.map (sK subs nn)
  | [] => rfl
  | k :: ks => by
    simp only [substTupleKids, List.map_cons, substTupleKids_eq subs nn ks]
    congr 1

theorem substTuple_node (subs : List (String × List Int)) (nn : String) (t : Tok) (d : TokData) (lo hi : Int) (ks : List Ast) :
    substTuple subs nn (.node t d lo hi ks) = .node t d lo hi (ks.map (sK subs nn)) := by
  simp only [substTuple, substTupleKids_eq]

/-- what the substitutions pending at a point of the tree do to a subtree: they commute with every node that is
no local variable, and turn a local variable into its realisation -/
structure KOK (K : Ast → Ast) (rz : Rz) : Prop where
  node : ∀ t d lo hi ks, t ≠ .ID_LOCAL → K (.node t d lo hi ks) = .node t d lo hi (ks.map K)
  loc : ∀ x lo hi, K (.node .ID_LOCAL (.text x) lo hi []) =
    match lookup x rz with
    | none => .node .ID_LOCAL (.text x) lo hi []
    | some (nn, k) => .node .SMALLPR (.tuple [k]) lo hi [.node .ID_LOCAL (.text nn) lo hi []]
  idl : ∀ a : Ast, a.id = .ID_LOCAL → (K a).id = .ID_LOCAL ∨ (K a).id = .SMALLPR

theorem KOK.id : KOK (fun a => a) [] := ⟨by intro t d lo hi ks _; simp, by intro x lo hi; rfl, fun a h => Or.inl h⟩

/-- the root token of a transformed subtree that is no local variable -/
theorem KOK.id_node {K : Ast → Ast} {rz : Rz} (h : KOK K rz) (a : Ast) (ha : a.id ≠ .ID_LOCAL) : (K a).id = a.id := by
  obtain ⟨t, d, lo, hi, ks⟩ := a
  rw [h.node t d lo hi ks ha]; rfl

theorem KOK.local_none {K : Ast → Ast} {rz : Rz} (h : KOK K rz) {x : String} (hx : lookup x rz = none) (lo hi : Int) :
    K (.node .ID_LOCAL (.text x) lo hi []) = .node .ID_LOCAL (.text x) lo hi [] := by
  rw [h.loc, hx]

/-- entering the scope of a flat pattern: one more substitution is pending -/
theorem KOK.comp {K : Ast → Ast} {rz : Rz} (h : KOK K rz) (xs : List EDecl) (nn : String)
    (hfresh : ∀ q ∈ xs, lookup q.1 rz = none ∧ ∀ r ∈ rz, r.2.1 ≠ q.1) :
    KOK (fun a => sK (flatPaths xs 1) nn (K a)) (patRz nn xs 1 ++ rz) := by
  constructor
  · intro t d lo hi ks ht
    have hl : isLocal (.node t d lo hi (ks.map K)) = false := by simpa [isLocal, Ast.id, tok_beq] using ht
    simp only [h.node t d lo hi ks ht, sK, hl, Bool.false_eq_true, if_false, substTuple_node, List.map_map]
    rfl
  · intro x lo hi
    rw [h.loc, lookup_patRz x nn xs 1 rz]
    cases hp : posOf x xs with
    | some j =>
      obtain ⟨q, hq1, hq2⟩ := posOf_some hp
      have hxr : lookup x rz = none := by rw [← hq2]; exact (hfresh q (List.mem_of_getElem? hq1)).1
      rw [hxr]
      simp only [sK, isLocal, Ast.id, textOf, Ast.data, lookup_flatPaths, hp, Option.map_some, wrapPr, Ast.lo, Ast.hi,
        Ast.kids, List.foldl_cons, List.foldl_nil]
      simp [tok_beq]
    | none =>
      cases hxr : lookup x rz with
      | none =>
        simp only [sK, isLocal, Ast.id, textOf, Ast.data, lookup_flatPaths, hp, Option.map_none]
        simp [tok_beq]
      | some r =>
        obtain ⟨nn', k⟩ := r
        have hnn' : posOf nn' xs = none := by
          rw [posOf_none]
          intro hm
          obtain ⟨q, hq, e⟩ := List.mem_map.mp hm
          exact (hfresh q hq).2 (x, (nn', k)) (lookup_mem hxr) e.symm
        simp only [sK, isLocal, Ast.id, substTuple_node, List.map_cons, List.map_nil, textOf, Ast.data, lookup_flatPaths,
          hnn', Option.map_none]
        simp [tok_beq]
  · intro a ha
    rcases h.idl a ha with h1 | h1
    · -- still a local: the new substitution wraps it or leaves it
      have hl : isLocal (K a) = true := by simp [isLocal, h1]; rfl
      simp only [sK, hl, if_true]
      cases hp : lookup (textOf (K a)) (flatPaths xs 1) with
      | none => exact Or.inl h1
      | some path =>
        rw [lookup_flatPaths] at hp
        cases hq : posOf (textOf (K a)) xs with
        | none => rw [hq] at hp; cases hp
        | some j =>
          rw [hq] at hp
          injection hp with hp; subst hp
          right; simp [wrapPr, Ast.id]
    · have hl : isLocal (K a) = false := by simp [isLocal, h1]; rfl
      right
      generalize K a = b at h1 hl
      obtain ⟨t, d, lo, hi, ks⟩ := b
      simp only [sK, hl, Bool.false_eq_true, if_false, substTuple_node]
      exact h1

/-! ## the patterns of a tree -/

mutual
/-- the component-name lists of the tuple patterns of a tree -/
def patsOf : Ast → List (List String)
  | .node t _ _ _ ks => (if t == .NT_TUPLE_DECL then [ks.map textOf] else []) ++ patsOfKids ks
def patsOfKids : List Ast → List (List String)
  | [] => []
  | k :: ks => patsOf k ++ patsOfKids ks
end

theorem mem_patsOfKids {p : List String} : ∀ {ks : List Ast}, p ∈ patsOfKids ks ↔ ∃ k ∈ ks, p ∈ patsOf k
  | [] => by simp [patsOfKids]
  | k :: ks => by simp [patsOfKids, mem_patsOfKids (ks := ks)]

/-- all patterns of the tree are in `P` -/
def PatsIn (a : Ast) (P : List (List String)) : Prop := ∀ p ∈ patsOf a, p ∈ P

theorem PatsIn.kid {t : Tok} {d : TokData} {lo hi : Int} {ks : List Ast} {P : List (List String)} {k : Ast}
    (h : PatsIn (.node t d lo hi ks) P) (hk : k ∈ ks) : PatsIn k P := by
  intro p hp
  apply h p
  simp only [patsOf, List.mem_append]
  exact Or.inr (mem_patsOfKids.mpr ⟨k, hk, hp⟩)

theorem PatsIn.pat {t : Tok} {d : TokData} {lo hi : Int} {pd : TokData} {plo phi : Int} {xs : List EDecl} {rest : List Ast}
    {P : List (List String)} (h : PatsIn (.node t d lo hi (patNode pd plo phi xs :: rest)) P) : xs.map (·.1) ∈ P := by
  apply h
  simp only [patsOf, List.mem_append]
  refine Or.inr (mem_patsOfKids.mpr ⟨patNode pd plo phi xs, by simp, ?_⟩)
  simp only [patNode, patsOf, List.mem_append]
  left
  simp [tok_beq, List.map_map, declNode, textOf, Ast.data]

/-! ## normalisation as a relation -/

/-- `a0` normalises to `a'` from every admissible state of the name tables (or the model runs out of fuel) -/
def NRel (fs : Funcs) (P : List (List String)) (a0 a' : Ast) : Prop :=
  ∀ fuel st, NOK P st → normalize fs fuel a0 st = none ∨ ∃ st', normalize fs fuel a0 st = some (a', st') ∧ NOK P st'

theorem nfold_rel (fs : Funcs) (P : List (List String)) (fuel : Nat) : ∀ (kps : List (Ast × Ast)) (done : List Ast) (st : NState),
    NOK P st → (∀ q ∈ kps, NRel fs P q.1 q.2) →
    (kps.map (·.1)).foldl (nstep fs fuel) (some (done, st)) = none ∨
      ∃ st', (kps.map (·.1)).foldl (nstep fs fuel) (some (done, st)) = some (done ++ kps.map (·.2), st') ∧ NOK P st'
  | [], done, st, hst, _ => Or.inr ⟨st, by simp, hst⟩
  | q :: kps, done, st, hst, h => by
    simp only [List.map_cons, List.foldl_cons]
    rcases h q (by simp) fuel st hst with h1 | ⟨st1, h1, hst1⟩
    · left; simp only [nstep, h1]; exact nstep_none fs fuel _
    · simp only [nstep, h1]
      have := nfold_rel fs P fuel kps (done ++ [q.2]) st1 hst1 (fun k' hk' => h k' (by simp [hk']))
      simpa using this

theorem NRel.local (fs : Funcs) (P : List (List String)) (x : String) (lo hi : Int) :
    NRel fs P (.node .ID_LOCAL (.text x) lo hi []) (.node .ID_LOCAL (.text x) lo hi []) := by
  intro fuel st hst
  rcases normalize_local fs fuel x lo hi st with h | h
  · exact Or.inl h
  · exact Or.inr ⟨st, h, hst⟩

/-- a node the normaliser does not rewrite: its children normalise one after the other -/
theorem NRel.plain {fs : Funcs} {P : List (List String)} {t : Tok} (ht : plainTok t = true ∨ t = .ITERATE ∨ t = .ASSIGN)
    (d : TokData) (lo hi : Int) (kps : List (Ast × Ast)) (h : ∀ q ∈ kps, NRel fs P q.1 q.2) :
    NRel fs P (.node t d lo hi (kps.map (·.1))) (.node t d lo hi (kps.map (·.2))) := by
  intro fuel st hst
  cases fuel with
  | zero => exact Or.inl (normalize_zero _ _ _)
  | succ f =>
    have hn : normalize fs (f + 1) (.node t d lo hi (kps.map (·.1))) st =
        match (kps.map (·.1)).foldl (nstep fs f) (some ([], st)) with
        | none => none
        | some (ks', b') => some (.node t d lo hi ks', b') := by
      rcases ht with ht | ht | ht
      · exact normalize_plain (Or.inl ht) fs f d lo hi _ st
      · exact normalize_blk (Or.inl ht) fs f d lo hi _ st
      · exact normalize_blk (Or.inr ht) fs f d lo hi _ st
    rw [hn]
    rcases nfold_rel fs P f kps [] st hst h with h1 | ⟨st', h1, hst'⟩
    · left; simp [h1]
    · right; exact ⟨st', by simp [h1], hst'⟩

/-! ## binders -/

theorem normalize_quantTup {t : Tok} (ht : isQuant t) (fs : Funcs) (f : Nat) (d : TokData) (lo hi : Int) (pd : TokData)
    (plo phi : Int) (xs : List EDecl) (D B : Ast) (st : NState) :
    normalize fs (f + 1) (.node t d lo hi [patNode pd plo phi xs, D, B]) st =
      match [(processTupleDecl (patNode pd plo phi xs) st).2.2.1, D,
          substTuple (processTupleDecl (patNode pd plo phi xs) st).2.1 (processTupleDecl (patNode pd plo phi xs) st).1 B].foldl
          (nstep fs f) (some ([], (processTupleDecl (patNode pd plo phi xs) st).2.2.2)) with
      | none => none
      | some (ks', b') => some (.node t d lo hi ks', b') := by
  rcases ht with rfl | rfl <;>
  · simp only [normalize, Ast.id, Ast.kids, setKids, List.head?, patNode, tok_beq, quantTuple]
    simp
    rfl

theorem normalize_declTup (fs : Funcs) (f : Nat) (d : TokData) (lo hi : Int) (pd : TokData)
    (plo phi : Int) (xs : List EDecl) (D B : Ast) (st : NState) :
    normalize fs (f + 1) (.node .NT_DECLARATIVE_EXPR d lo hi [patNode pd plo phi xs, D, B]) st =
      match [(processTupleDecl (patNode pd plo phi xs) st).2.2.1, D,
          substTuple (processTupleDecl (patNode pd plo phi xs) st).2.1 (processTupleDecl (patNode pd plo phi xs) st).1 B].foldl
          (nstep fs f) (some ([], (processTupleDecl (patNode pd plo phi xs) st).2.2.2)) with
      | none => none
      | some (ks', b') => some (.node .NT_DECLARATIVE_EXPR d lo hi ks', b') := by
  simp only [normalize, Ast.id, Ast.kids, setKids, patNode, tok_beq, declarative]
  simp
  rfl

/-- a binder over a flat pattern: the pattern becomes the generated variable, the scope gets the substitution -/
theorem NRel.tupBinder {fs : Funcs} {P : List (List String)} (hP : NoCollide P) {t : Tok}
    (ht : isQuant t ∨ t = .NT_DECLARATIVE_EXPR) (d : TokData) (lo hi : Int) (pd : TokData) (plo phi : Int) (xs : List EDecl)
    (hm : xs.map (·.1) ∈ P) (hnd : (xs.map (·.1)).Nodup) {D D' B0 B' : Ast} (hD : NRel fs P D D')
    (hB : NRel fs P (substTuple (flatPaths xs 1) (candName (xs.map (·.1))) B0) B') :
    NRel fs P (.node t d lo hi [patNode pd plo phi xs, D, B0])
      (.node t d lo hi [.node .ID_LOCAL (.text (candName (xs.map (·.1)))) plo phi [], D', B']) := by
  intro fuel st hst
  cases fuel with
  | zero => exact Or.inl (normalize_zero _ _ _)
  | succ f =>
    obtain ⟨hch, hnew⟩ := hst.choose hP hm
    obtain ⟨st1, hp, hst1⟩ := processTupleDecl_flat pd plo phi xs st hnd hch
    have hst1' : NOK P st1 := by
      rcases hst1 with rfl | rfl
      · exact hst
      · exact hnew
    have hn : normalize fs (f + 1) (.node t d lo hi [patNode pd plo phi xs, D, B0]) st =
        match [(.node .ID_LOCAL (.text (candName (xs.map (·.1)))) plo phi [] : Ast), D,
            substTuple (flatPaths xs 1) (candName (xs.map (·.1))) B0].foldl (nstep fs f) (some ([], st1)) with
        | none => none
        | some (ks', b') => some (.node t d lo hi ks', b') := by
      rcases ht with ht | rfl
      · rw [normalize_quantTup ht, hp]
      · rw [normalize_declTup, hp]
    rw [hn]
    rcases nfold_rel fs P f [(.node .ID_LOCAL (.text (candName (xs.map (·.1)))) plo phi [],
          .node .ID_LOCAL (.text (candName (xs.map (·.1)))) plo phi []), (D, D'),
          (substTuple (flatPaths xs 1) (candName (xs.map (·.1))) B0, B')] [] st1 hst1' (by
        intro q hq
        simp only [List.mem_cons, List.not_mem_nil, or_false] at hq
        rcases hq with rfl | rfl | rfl
        · exact NRel.local fs P _ _ _
        · exact hD
        · exact hB) with h1 | ⟨st', h1, hst'⟩
    · left; simp at h1; simp [h1]
    · right; simp at h1; exact ⟨st', by simp [h1], hst'⟩

/-- a binder over a plain variable (`∀ ∃ D{}`, `R{}` short and full form): children one after the other -/
theorem NRel.plainBinder {fs : Funcs} {P : List (List String)} {t : Tok} (d : TokData) (lo hi : Int) (x : String) (dlo dhi : Int)
    (kps : List (Ast × Ast))
    (ht : (bindTok t = true ∧ kps.length = 2) ∨ (t = .NT_RECURSIVE_SHORT ∧ kps.length = 2) ∨
      (t = .NT_RECURSIVE_FULL ∧ kps.length = 3))
    (h : ∀ q ∈ kps, NRel fs P q.1 q.2) :
    NRel fs P (.node t d lo hi (.node .ID_LOCAL (.text x) dlo dhi [] :: kps.map (·.1)))
      (.node t d lo hi (.node .ID_LOCAL (.text x) dlo dhi [] :: kps.map (·.2))) := by
  intro fuel st hst
  cases fuel with
  | zero => exact Or.inl (normalize_zero _ _ _)
  | succ f =>
    have hn : normalize fs (f + 1) (.node t d lo hi (.node .ID_LOCAL (.text x) dlo dhi [] :: kps.map (·.1))) st =
        match (.node .ID_LOCAL (.text x) dlo dhi [] :: kps.map (·.1)).foldl (nstep fs f) (some ([], st)) with
        | none => none
        | some (ks', b') => some (.node t d lo hi ks', b') := by
      rcases ht with ⟨ht, hl⟩ | ⟨rfl, hl⟩ | ⟨rfl, hl⟩
      · match kps, hl with
        | [q1, q2], _ => exact normalize_binder ht fs f d lo hi x dlo dhi q1.1 q2.1 st
      · exact normalize_rec (Or.inl rfl) fs f d lo hi x dlo dhi _ st (Or.inl (by simpa using hl))
      · exact normalize_rec (Or.inr rfl) fs f d lo hi x dlo dhi _ st (Or.inr (by simpa using hl))
    rw [hn]
    rcases nfold_rel fs P f ((.node .ID_LOCAL (.text x) dlo dhi [], .node .ID_LOCAL (.text x) dlo dhi []) :: kps) [] st hst (by
        intro q hq
        rcases List.mem_cons.mp hq with rfl | hq
        · exact NRel.local fs P _ _ _
        · exact h q hq) with h1 | ⟨st', h1, hst'⟩
    · left; simp at h1; simp [h1]
    · right; simp at h1; exact ⟨st', by simp [h1], hst'⟩

theorem NRel.imp {fs : Funcs} {P : List (List String)} (d : TokData) (lo hi : Int) (kps : List (Ast × Ast))
    (hp : PlainBlocks (.node .NT_IMPERATIVE_EXPR d lo hi (kps.map (·.1)))) (h : ∀ q ∈ kps, NRel fs P q.1 q.2) :
    NRel fs P (.node .NT_IMPERATIVE_EXPR d lo hi (kps.map (·.1))) (.node .NT_IMPERATIVE_EXPR d lo hi (kps.map (·.2))) := by
  intro fuel st hst
  cases fuel with
  | zero => exact Or.inl (normalize_zero _ _ _)
  | succ f =>
    rw [normalize_imp fs f d lo hi _ st hp]
    rcases nfold_rel fs P f kps [] st hst h with h1 | ⟨st', h1, hst'⟩
    · left; simp [h1]
    · right; exact ⟨st', by simp [h1], hst'⟩

/-- **the enumerated declaration is rewritten into nested quantifiers** (with a `Normalizer` state that may change:
the copies of the domain re-use the names the first copy generated) -/
theorem NRel.ofEnum {fs : Funcs} {P : List (List String)} {t : Tok} (ht : isQuant t) (d : TokData) (lo hi : Int)
    (dd : TokData) (dlo dhi : Int) {dom dom' body body' : Ast} (hd : NRel fs P dom dom') (hb : NRel fs P body body') :
    ∀ (ds : List EDecl), ds ≠ [] →
      NRel fs P (enumSrc t d lo hi dd dlo dhi dom body ds) (nest t d lo hi dom' body' ds)
  | [], h => absurd rfl h
  | [q], _ => by
    have e : enumSrc t d lo hi dd dlo dhi dom body [q] =
        .node t d lo hi (.node .ID_LOCAL (.text q.1) q.2.1 q.2.2 [] :: [(dom, dom'), (body, body')].map (·.1)) := rfl
    have e' : nest t d lo hi dom' body' [q] =
        .node t d lo hi (.node .ID_LOCAL (.text q.1) q.2.1 q.2.2 [] :: [(dom, dom'), (body, body')].map (·.2)) := rfl
    rw [e, e']
    exact NRel.plainBinder d lo hi q.1 q.2.1 q.2.2 _ (Or.inl ⟨bindTok_of_quant ht, rfl⟩) (by
      intro q' hq
      simp only [List.mem_cons, List.not_mem_nil, or_false] at hq
      rcases hq with rfl | rfl
      · exact hd
      · exact hb)
  | q :: q' :: r, _ => by
    have ih := NRel.ofEnum ht d lo hi dd dlo dhi hd hb (q' :: r) (by simp)
    intro fuel st hst
    cases fuel with
    | zero => exact Or.inl (normalize_zero _ _ _)
    | succ f =>
      have e : enumSrc t d lo hi dd dlo dhi dom body (q :: q' :: r) = .node t d lo hi [.node .NT_ENUM_DECL dd dlo dhi
          (declNode q :: declNode q' :: r.map declNode), dom, body] := rfl
      rw [e, normalize_enumQ ht]
      have hinner : (.node t d lo hi [if (r.map declNode).isEmpty then declNode q' else
          .node .NT_ENUM_DECL dd dlo dhi (declNode q' :: r.map declNode), dom, body] : Ast) =
          enumSrc t d lo hi dd dlo dhi dom body (q' :: r) := by
        cases r with
        | nil => rfl
        | cons r0 r' => rfl
      rw [hinner]
      rcases nfold_rel fs P f [(declNode q, declNode q), (dom, dom'),
          (enumSrc t d lo hi dd dlo dhi dom body (q' :: r), nest t d lo hi dom' body' (q' :: r))] [] st hst (by
        intro q'' hq
        simp only [List.mem_cons, List.not_mem_nil, or_false] at hq
        rcases hq with rfl | rfl | rfl
        · exact NRel.local fs P _ _ _
        · exact hd
        · exact ih) with h1 | ⟨st', h1, hst'⟩
      · left; simp at h1; simp [h1]
      · right; simp at h1; exact ⟨st', by simp [h1, nest], hst'⟩

/-! ## the normaliser computes the normal form of the judgement -/

theorem plainTok_ne_local {t : Tok} (h : plainTok t = true) : t ≠ .ID_LOCAL := by
  intro e; subst e; simp [plainTok] at h

theorem NRel.node1 {fs : Funcs} {P : List (List String)} {t : Tok} (ht : plainTok t = true) (d : TokData) (lo hi : Int)
    {a0 a' : Ast} (h : NRel fs P a0 a') : NRel fs P (.node t d lo hi [a0]) (.node t d lo hi [a']) :=
  NRel.plain (Or.inl ht) d lo hi [(a0, a')] (by intro q hq; simp at hq; subst hq; exact h)

theorem NRel.node2 {fs : Funcs} {P : List (List String)} {t : Tok} (ht : plainTok t = true) (d : TokData) (lo hi : Int)
    {a0 a' b0 b' : Ast} (ha : NRel fs P a0 a') (hb : NRel fs P b0 b') :
    NRel fs P (.node t d lo hi [a0, b0]) (.node t d lo hi [a', b']) :=
  NRel.plain (Or.inl ht) d lo hi [(a0, a'), (b0, b')] (by
    intro q hq; simp at hq; rcases hq with rfl | rfl; exact ha; exact hb)

theorem NRel.nodeN {fs : Funcs} {P : List (List String)} {t : Tok} (ht : plainTok t = true) (d : TokData) (lo hi : Int)
    (K : Ast → Ast) (ks ks' : List Ast) (hlen : ks.length = ks'.length) (h : ∀ q ∈ ks.zip ks', NRel fs P (K q.1) q.2) :
    NRel fs P (.node t d lo hi (ks.map K)) (.node t d lo hi ks') := by
  have h1 : ((ks.zip ks').map fun q => (K q.1, q.2)).map (·.1) = ks.map K := by
    rw [List.map_map]
    have : ((·.1) ∘ fun q : Ast × Ast => (K q.1, q.2)) = K ∘ (·.1) := rfl
    rw [this, ← List.map_map, List.map_fst_zip]; omega
  have h2 : ((ks.zip ks').map fun q => (K q.1, q.2)).map (·.2) = ks' := by
    rw [List.map_map]
    have : ((·.2) ∘ fun q : Ast × Ast => (K q.1, q.2)) = (·.2) := rfl
    rw [this, List.map_snd_zip]; omega
  have := NRel.plain (fs := fs) (P := P) (Or.inl ht) d lo hi ((ks.zip ks').map fun q => (K q.1, q.2)) (by
    intro q hq
    obtain ⟨q0, hq0, rfl⟩ := List.mem_map.mp hq
    exact h q0 hq0)
  rw [h1, h2] at this
  exact this

/-- a truth-valued expression of the fragment is no local variable -/
theorem FragR.logic_node {G : TCtx} {lvl : Nat} {rz : Rz} {Γ : TCtx} {a a' : Ast} (h : FragR env G lvl rz Γ a a' .logic) :
    ∃ t d lo hi ks, a = .node t d lo hi ks ∧ t ≠ .ID_LOCAL := by
  cases h with
  | cmp d lo hi ht _ _ => exact ⟨_, _, _, _, _, rfl, by rcases ht with rfl | rfl | rfl | rfl <;> decide⟩
  | eq d lo hi ht _ _ => exact ⟨_, _, _, _, _, rfl, by rcases ht with rfl | rfl <;> decide⟩
  | not d lo hi _ => exact ⟨_, _, _, _, _, rfl, by decide⟩
  | conn d lo hi ht _ _ => exact ⟨_, _, _, _, _, rfl, by rcases ht with rfl | rfl | rfl | rfl <;> decide⟩
  | mem d lo hi ht _ _ _ _ => exact ⟨_, _, _, _, _, rfl, by rcases ht with rfl | rfl <;> decide⟩
  | memPow d d' lo hi lo' hi' ht _ _ => exact ⟨_, _, _, _, _, rfl, by rcases ht with rfl | rfl <;> decide⟩
  | sub d lo hi ht _ _ => exact ⟨_, _, _, _, _, rfl, by rcases ht with rfl | rfl | rfl <;> decide⟩
  | quant d lo hi x dlo dhi _ ht _ _ _ _ _ => exact ⟨_, _, _, _, _, rfl, by rcases ht with rfl | rfl <;> decide⟩
  | quantEnum d dd lo hi dlo dhi xs _ ht _ _ _ _ _ => exact ⟨_, _, _, _, _, rfl, by rcases ht with rfl | rfl <;> decide⟩
  | quantTup d lo hi pd plo phi xs nn _ ht _ _ _ _ _ _ _ _ _ _ _ =>
    exact ⟨_, _, _, _, _, rfl, by rcases ht with rfl | rfl <;> decide⟩

theorem lookup_ctxAfter_mono {y : String} : ∀ (pre : List Blk) (Γ : TCtx), (∃ τ, lookup y Γ = some τ) →
    ∃ τ, lookup y (ctxAfter Γ pre) = some τ
  | [], _, h => h
  | b :: pre, Γ, ⟨τ, h⟩ => by
    show ∃ τ, lookup y (ctxAfter (b.ctx Γ) pre) = some τ
    apply lookup_ctxAfter_mono pre
    cases b with
    | iter x dom dom' σ d lo hi dlo dhi =>
      by_cases e : y = x
      · exact ⟨σ, by simp [Blk.ctx, e, lookup]⟩
      · exact ⟨τ, by simp only [Blk.ctx]; rw [lookup_cons_ne _ _ e]; exact h⟩
    | asg x ex ex' σ d lo hi dlo dhi =>
      by_cases e : y = x
      · exact ⟨σ, by simp [Blk.ctx, e, lookup]⟩
      · exact ⟨τ, by simp only [Blk.ctx]; rw [lookup_cons_ne _ _ e]; exact h⟩
    | guard g g' => exact ⟨τ, h⟩

/-- the variables of a declaration list are not realised: the pending substitutions leave the declaration alone -/
theorem KOK.decls {K : Ast → Ast} {rz : Rz} (h : KOK K rz) : ∀ (xs : List EDecl), (∀ q ∈ xs, lookup q.1 rz = none) →
    (xs.map declNode).map K = xs.map declNode
  | [], _ => rfl
  | q :: xs, hx => by
    simp only [List.map_cons]
    rw [show K (declNode q) = declNode q from h.local_none (hx q (by simp)) _ _, h.decls xs (fun q' hq' => hx q' (by simp [hq']))]

/-- **the normaliser computes the normal form of the judgement** - also with tuple patterns, where it depends on the
state of its name tables: from every state that only knows patterns of `P` (whose candidate names do not collide)
the expression - with the substitutions pending at this point applied (`K`) - normalises to the normal form of
the judgement, and the state stays admissible -/
theorem FragR.normRel {env : Env} {G : TCtx} {lvl : Nat} {rz : Rz} {Γ : TCtx} {a a' : Ast} {τ : ExprTy}
    (h : FragR env G lvl rz Γ a a' τ) (fs : Funcs) (P : List (List String)) (hP : NoCollide P) :
    ∀ K, KOK K rz → (∀ x r, lookup x rz = some r → ∃ τ', lookup x Γ = some τ') → PatsIn a P → NRel fs P (K a) a' := by
  induction h with
  | lit Γ n lo hi =>
    intro K hK _ _
    rw [hK.node _ _ _ _ _ (by decide)]
    exact NRel.plain (Or.inl rfl) _ lo hi [] (by simp)
  | arith d lo hi ht _ _ iha ihb =>
    intro K hK hd hp
    rw [hK.node _ _ _ _ _ (plainTok_ne_local (plainTok_of_arith ht))]
    exact NRel.node2 (plainTok_of_arith ht) d lo hi (iha K hK hd (hp.kid (by simp))) (ihb K hK hd (hp.kid (by simp)))
  | card d lo hi _ ih =>
    intro K hK hd hp
    rw [hK.node _ _ _ _ _ (by decide)]
    exact NRel.node1 rfl d lo hi (ih K hK hd (hp.kid (by simp)))
  | cmp d lo hi ht _ _ iha ihb =>
    intro K hK hd hp
    rw [hK.node _ _ _ _ _ (plainTok_ne_local (plainTok_of_intCmp ht))]
    exact NRel.node2 (plainTok_of_intCmp ht) d lo hi (iha K hK hd (hp.kid (by simp))) (ihb K hK hd (hp.kid (by simp)))
  | eq d lo hi ht _ _ iha ihb =>
    intro K hK hd hp
    rw [hK.node _ _ _ _ _ (plainTok_ne_local (plainTok_of_eq ht))]
    exact NRel.node2 (plainTok_of_eq ht) d lo hi (iha K hK hd (hp.kid (by simp))) (ihb K hK hd (hp.kid (by simp)))
  | not d lo hi _ ih =>
    intro K hK hd hp
    rw [hK.node _ _ _ _ _ (by decide)]
    exact NRel.node1 rfl d lo hi (ih K hK hd (hp.kid (by simp)))
  | conn d lo hi ht _ _ iha ihb =>
    intro K hK hd hp
    rw [hK.node _ _ _ _ _ (plainTok_ne_local (plainTok_of_conn ht))]
    exact NRel.node2 (plainTok_of_conn ht) d lo hi (iha K hK hd (hp.kid (by simp))) (ihb K hK hd (hp.kid (by simp)))
  | mem d lo hi ht _ _ _ _ iha ihb =>
    intro K hK hd hp
    rw [hK.node _ _ _ _ _ (plainTok_ne_local (plainTok_of_mem ht))]
    exact NRel.node2 (plainTok_of_mem ht) d lo hi (iha K hK hd (hp.kid (by simp))) (ihb K hK hd (hp.kid (by simp)))
  | @memPow rz Γ t a b a' b' τ d d' lo hi lo' hi' ht _ _ iha ihb =>
    intro K hK hd hp
    rw [hK.node _ _ _ _ _ (plainTok_ne_local (plainTok_of_mem ht))]
    simp only [List.map_cons, List.map_nil]
    rw [hK.node _ _ _ _ _ (by decide)]
    have hpb : PatsIn (.node .BOOLEAN d' lo' hi' [b]) P := hp.kid (by simp)
    exact NRel.node2 (plainTok_of_mem ht) d lo hi (iha K hK hd (hp.kid (by simp)))
      (NRel.node1 rfl d' lo' hi' (ihb K hK hd (hpb.kid (by simp))))
  | sub d lo hi ht _ _ iha ihb =>
    intro K hK hd hp
    rw [hK.node _ _ _ _ _ (plainTok_ne_local (plainTok_of_sub ht))]
    exact NRel.node2 (plainTok_of_sub ht) d lo hi (iha K hK hd (hp.kid (by simp))) (ihb K hK hd (hp.kid (by simp)))
  | empty Γ d lo hi _ =>
    intro K hK _ _
    rw [hK.node _ _ _ _ _ (by decide)]
    exact NRel.plain (Or.inl rfl) _ lo hi [] (by simp)
  | intset Γ d lo hi =>
    intro K hK _ _
    rw [hK.node _ _ _ _ _ (by decide)]
    exact NRel.plain (Or.inl rfl) _ lo hi [] (by simp)
  | enum d lo hi ks ks' _ hlen _ ih =>
    intro K hK hd hp
    rw [hK.node _ _ _ _ _ (by decide)]
    exact NRel.nodeN rfl d lo hi K ks ks' hlen (fun q hq => ih q hq K hK hd (hp.kid (List.of_mem_zip hq).1))
  | tuple d lo hi ks ks' ts _ hlen hlen' _ ih =>
    intro K hK hd hp
    rw [hK.node _ _ _ _ _ (by decide)]
    refine NRel.nodeN rfl d lo hi K ks ks' hlen' (fun q hq => ?_)
    obtain ⟨i, hi', rfl⟩ := List.getElem_of_mem hq
    have hz : (ks.zip ks').length = ks.length := by rw [List.length_zip]; omega
    have hm : ((ks.zip ks')[i], ts[i]'(by omega)) ∈ (ks.zip ks').zip ts := by
      rw [List.mem_iff_getElem]
      exact ⟨i, by rw [List.length_zip]; omega, by simp⟩
    exact ih _ hm K hK hd (hp.kid (List.of_mem_zip hq).1)
  | setOp d lo hi ht _ _ iha ihb =>
    intro K hK hd hp
    rw [hK.node _ _ _ _ _ (plainTok_ne_local (plainTok_of_setOp ht))]
    exact NRel.node2 (plainTok_of_setOp ht) d lo hi (iha K hK hd (hp.kid (by simp))) (ihb K hK hd (hp.kid (by simp)))
  | bool d lo hi _ ih =>
    intro K hK hd hp
    rw [hK.node _ _ _ _ _ (by decide)]
    exact NRel.node1 rfl d lo hi (ih K hK hd (hp.kid (by simp)))
  | debool d lo hi _ ih =>
    intro K hK hd hp
    rw [hK.node _ _ _ _ _ (by decide)]
    exact NRel.node1 rfl d lo hi (ih K hK hd (hp.kid (by simp)))
  | reduce d lo hi _ ih =>
    intro K hK hd hp
    rw [hK.node _ _ _ _ _ (by decide)]
    exact NRel.node1 rfl d lo hi (ih K hK hd (hp.kid (by simp)))
  | smallpr idx lo hi _ _ ih =>
    intro K hK hd hp
    rw [hK.node _ _ _ _ _ (by decide)]
    exact NRel.node1 rfl _ lo hi (ih K hK hd (hp.kid (by simp)))
  | bigpr idx lo hi _ _ ih =>
    intro K hK hd hp
    rw [hK.node _ _ _ _ _ (by decide)]
    exact NRel.node1 rfl _ lo hi (ih K hK hd (hp.kid (by simp)))
  | pow d lo hi _ _ ih =>
    intro K hK hd hp
    rw [hK.node _ _ _ _ _ (by decide)]
    exact NRel.node1 rfl d lo hi (ih K hK hd (hp.kid (by simp)))
  | decart d lo hi ks ks' ts _ hlen hlen' _ ih =>
    intro K hK hd hp
    rw [hK.node _ _ _ _ _ (by decide)]
    refine NRel.nodeN rfl d lo hi K ks ks' hlen' (fun q hq => ?_)
    obtain ⟨i, hi', rfl⟩ := List.getElem_of_mem hq
    have hz : (ks.zip ks').length = ks.length := by rw [List.length_zip]; omega
    have hm : ((ks.zip ks')[i], ts[i]'(by omega)) ∈ (ks.zip ks').zip ts := by
      rw [List.mem_iff_getElem]
      exact ⟨i, by rw [List.length_zip]; omega, by simp⟩
    exact ih _ hm K hK hd (hp.kid (List.of_mem_zip hq).1)
  | glob Γ g lo hi _ _ =>
    intro K hK _ _
    rw [hK.node _ _ _ _ _ (by decide)]
    intro fuel st hst
    cases fuel with
    | zero => exact Or.inl (normalize_zero _ _ _)
    | succ f => right; exact ⟨st, by rw [normalize_plain (Or.inr (Or.inl rfl))]; simp, hst⟩
  | loc Γ x lo hi _ _ hxσ =>
    intro K hK _ _
    rw [hK.local_none hxσ]
    exact NRel.local fs P x lo hi
  | locPr Γ x nn k lo hi _ _ hxσ =>
    intro K hK _ _
    rw [hK.loc, hxσ]
    exact NRel.node1 rfl _ lo hi (NRel.local fs P nn lo hi)
  | @quant rz Γ t dom body dom' body' τ d lo hi x dlo dhi _ ht hx _ _ _ _ ihd ihb =>
    intro K hK hd hp
    have hxσ : lookup x rz = none := by
      cases hl : lookup x rz with
      | none => rfl
      | some r => obtain ⟨τ', hτ'⟩ := hd x r hl; rw [hx] at hτ'; cases hτ'
    rw [hK.node _ _ _ _ _ (by rcases ht with rfl | rfl <;> decide)]
    simp only [List.map_cons, List.map_nil, hK.local_none hxσ]
    refine NRel.plainBinder d lo hi x dlo dhi [(K dom, dom'), (K body, body')] (Or.inl ⟨bindTok_of_quant ht, rfl⟩) ?_
    intro q hq
    simp only [List.mem_cons, List.not_mem_nil, or_false] at hq
    rcases hq with rfl | rfl
    · exact ihd K hK hd (hp.kid (by simp))
    · refine ihb K hK (fun y r hl => ?_) (hp.kid (by simp))
      obtain ⟨τ', hτ'⟩ := hd y r hl
      by_cases e : y = x
      · exact ⟨τ, by rw [e, lookup_cons_self]⟩
      · exact ⟨τ', by rw [lookup_cons_ne _ _ e]; exact hτ'⟩
  | @decl rz Γ dom body dom' body' τ d lo hi x dlo dhi _ hx _ _ _ _ ihd ihb =>
    intro K hK hd hp
    have hxσ : lookup x rz = none := by
      cases hl : lookup x rz with
      | none => rfl
      | some r => obtain ⟨τ', hτ'⟩ := hd x r hl; rw [hx] at hτ'; cases hτ'
    rw [hK.node _ _ _ _ _ (by decide)]
    simp only [List.map_cons, List.map_nil, hK.local_none hxσ]
    refine NRel.plainBinder d lo hi x dlo dhi [(K dom, dom'), (K body, body')] (Or.inl ⟨rfl, rfl⟩) ?_
    intro q hq
    simp only [List.mem_cons, List.not_mem_nil, or_false] at hq
    rcases hq with rfl | rfl
    · exact ihd K hK hd (hp.kid (by simp))
    · refine ihb K hK (fun y r hl => ?_) (hp.kid (by simp))
      obtain ⟨τ', hτ'⟩ := hd y r hl
      by_cases e : y = x
      · exact ⟨τ, by rw [e, lookup_cons_self]⟩
      · exact ⟨τ', by rw [lookup_cons_ne _ _ e]; exact hτ'⟩
  | @recShort rz Γ init body init' body' τ d lo hi x dlo dhi _ hx _ _ _ _ ihi ihb =>
    intro K hK hd hp
    have hxσ : lookup x rz = none := by
      cases hl : lookup x rz with
      | none => rfl
      | some r => obtain ⟨τ', hτ'⟩ := hd x r hl; rw [hx] at hτ'; cases hτ'
    rw [hK.node _ _ _ _ _ (by decide)]
    simp only [List.map_cons, List.map_nil, hK.local_none hxσ]
    refine NRel.plainBinder d lo hi x dlo dhi [(K init, init'), (K body, body')] (Or.inr (Or.inl ⟨rfl, rfl⟩)) ?_
    intro q hq
    simp only [List.mem_cons, List.not_mem_nil, or_false] at hq
    rcases hq with rfl | rfl
    · exact ihi K hK hd (hp.kid (by simp))
    · refine ihb K hK (fun y r hl => ?_) (hp.kid (by simp))
      obtain ⟨τ', hτ'⟩ := hd y r hl
      by_cases e : y = x
      · exact ⟨τ, by rw [e, lookup_cons_self]⟩
      · exact ⟨τ', by rw [lookup_cons_ne _ _ e]; exact hτ'⟩
  | @recFull rz Γ init cond body init' cond' body' τ d lo hi x dlo dhi _ hx _ _ _ _ _ ihi ihc ihb =>
    intro K hK hd hp
    have hxσ : lookup x rz = none := by
      cases hl : lookup x rz with
      | none => rfl
      | some r => obtain ⟨τ', hτ'⟩ := hd x r hl; rw [hx] at hτ'; cases hτ'
    have hd' : ∀ y r, lookup y rz = some r → ∃ τ', lookup y ((x, τ) :: Γ) = some τ' := by
      intro y r hl
      obtain ⟨τ', hτ'⟩ := hd y r hl
      by_cases e : y = x
      · exact ⟨τ, by rw [e, lookup_cons_self]⟩
      · exact ⟨τ', by rw [lookup_cons_ne _ _ e]; exact hτ'⟩
    rw [hK.node _ _ _ _ _ (by decide)]
    simp only [List.map_cons, List.map_nil, hK.local_none hxσ]
    refine NRel.plainBinder d lo hi x dlo dhi [(K init, init'), (K cond, cond'), (K body, body')]
      (Or.inr (Or.inr ⟨rfl, rfl⟩)) ?_
    intro q hq
    simp only [List.mem_cons, List.not_mem_nil, or_false] at hq
    rcases hq with rfl | rfl | rfl
    · exact ihi K hK hd (hp.kid (by simp))
    · exact ihc K hK hd' (hp.kid (by simp))
    · exact ihb K hK hd' (hp.kid (by simp))
  | @imp rz Γ value value' τ d lo hi bs _ hne _ hside hblk hval ihb ihv =>
    intro K hK hd hp
    rw [hK.node _ _ _ _ _ (by decide)]
    have hdpre : ∀ pre, ∀ y r, lookup y rz = some r → ∃ τ', lookup y (ctxAfter Γ pre) = some τ' :=
      fun pre y r hl => lookup_ctxAfter_mono pre Γ (hd y r hl)
    -- every block, transformed, normalises to its normal form
    have hb : ∀ b0 ∈ bs, NRel fs P (K b0.src) b0.core ∧ ((K b0.src).id = .ITERATE ∨ (K b0.src).id = .ASSIGN →
        ∃ dd rest, (K b0.src).kids = dd :: rest ∧ dd.id ≠ .NT_TUPLE_DECL) := by
      intro b0 hb0
      obtain ⟨pre, post, rfl⟩ := List.append_of_mem hb0
      have hs := hside pre b0 post rfl
      have hpb : PatsIn b0.src P := hp.kid (List.mem_cons_of_mem _ (List.mem_map_of_mem (f := Blk.src) hb0))
      have ih0 := ihb pre b0 post rfl K hK (hdpre pre)
      cases b0 with
      | iter x dom dom' σ' d' lo' hi' dlo dhi =>
        have hxσ : lookup x rz = none := by
          cases hl : lookup x rz with
          | none => rfl
          | some r => obtain ⟨τ', hτ'⟩ := hdpre pre x r hl; rw [hs.1] at hτ'; cases hτ'
        have e : K (Blk.src (.iter x dom dom' σ' d' lo' hi' dlo dhi)) =
            .node .ITERATE d' lo' hi' [.node .ID_LOCAL (.text x) dlo dhi [], K dom] := by
          simp only [Blk.src]
          rw [hK.node _ _ _ _ _ (by decide)]
          simp only [List.map_cons, List.map_nil, hK.local_none hxσ]
        rw [e]
        refine ⟨?_, fun _ => ⟨_, _, rfl, by simp [Ast.id]⟩⟩
        exact NRel.plain (Or.inr (Or.inl rfl)) d' lo' hi' [(.node .ID_LOCAL (.text x) dlo dhi [], .node .ID_LOCAL (.text x) dlo dhi []),
          (K dom, dom')] (by
            intro q hq
            simp only [List.mem_cons, List.not_mem_nil, or_false] at hq
            rcases hq with rfl | rfl
            · exact NRel.local fs P _ _ _
            · have hpb' : PatsIn (.node .ITERATE d' lo' hi' [.node .ID_LOCAL (.text x) dlo dhi [], dom]) P := hpb
              exact ih0 (hpb'.kid (by simp [Blk.expr])))
      | asg x ex ex' σ' d' lo' hi' dlo dhi =>
        have hxσ : lookup x rz = none := by
          cases hl : lookup x rz with
          | none => rfl
          | some r => obtain ⟨τ', hτ'⟩ := hdpre pre x r hl; rw [hs.1] at hτ'; cases hτ'
        have e : K (Blk.src (.asg x ex ex' σ' d' lo' hi' dlo dhi)) =
            .node .ASSIGN d' lo' hi' [.node .ID_LOCAL (.text x) dlo dhi [], K ex] := by
          simp only [Blk.src]
          rw [hK.node _ _ _ _ _ (by decide)]
          simp only [List.map_cons, List.map_nil, hK.local_none hxσ]
        rw [e]
        refine ⟨?_, fun _ => ⟨_, _, rfl, by simp [Ast.id]⟩⟩
        exact NRel.plain (Or.inr (Or.inr rfl)) d' lo' hi' [(.node .ID_LOCAL (.text x) dlo dhi [], .node .ID_LOCAL (.text x) dlo dhi []),
          (K ex, ex')] (by
            intro q hq
            simp only [List.mem_cons, List.not_mem_nil, or_false] at hq
            rcases hq with rfl | rfl
            · exact NRel.local fs P _ _ _
            · have hpb' : PatsIn (.node .ASSIGN d' lo' hi' [.node .ID_LOCAL (.text x) dlo dhi [], ex]) P := hpb
              exact ih0 (hpb'.kid (by simp [Blk.expr])))
      | guard g g' =>
        refine ⟨ih0 hpb, fun hid => ?_⟩
        -- a condition is truth-valued: no local variable, and no block node
        obtain ⟨t, dd, l, hh, ks, rfl, hne'⟩ := (hblk pre (.guard g g') post rfl).logic_node
        simp only [Blk.src] at hid
        rw [hK.node _ _ _ _ _ hne'] at hid
        simp only [Ast.id] at hid
        rcases hid with hid | hid
        · exact absurd hid hs.1
        · exact absurd hid hs.2.1
    have hvalid : (K value).id ≠ .ITERATE ∧ (K value).id ≠ .ASSIGN := by
      by_cases hl : value.id = .ID_LOCAL
      · rcases hK.idl value hl with h1 | h1 <;> rw [h1] <;> exact ⟨by decide, by decide⟩
      · rw [hK.id_node value hl]; exact hval.ids.1
    have hk1 : ((K value, value') :: bs.map (fun b0 => (K b0.src, b0.core))).map (·.1) = (value :: bs.map Blk.src).map K := by
      simp [List.map_map]
    have hk2 : ((K value, value') :: bs.map (fun b0 => (K b0.src, b0.core))).map (·.2) = value' :: bs.map Blk.core := by
      simp [List.map_map]
    have := NRel.imp (fs := fs) (P := P) d lo hi ((K value, value') :: bs.map (fun b0 => (K b0.src, b0.core))) (by
      rw [hk1]
      intro k hk hid
      simp only [Ast.kids, List.map_cons, List.mem_cons, List.mem_map] at hk
      rcases hk with rfl | ⟨k0, ⟨b0, hb0, rfl⟩, rfl⟩
      · exact absurd hid (by intro h; rcases h with h | h; exact hvalid.1 h; exact hvalid.2 h)
      · exact (hb b0 hb0).2 hid) (by
      intro q hq
      rcases List.mem_cons.mp hq with rfl | hq
      · exact ihv K hK (hdpre bs) (hp.kid (by simp))
      · obtain ⟨b0, hb0, rfl⟩ := List.mem_map.mp hq
        exact (hb b0 hb0).1)
    rw [hk1, hk2] at this
    exact this
  | @quantEnum rz Γ t dom body dom' body' τ d dd lo hi dlo dhi xs _ ht hlen _ hfresh _ _ ihd ihb =>
    intro K hK hd hp
    have hxs : ∀ q ∈ xs, lookup q.1 rz = none := by
      intro q hq
      cases hl : lookup q.1 rz with
      | none => rfl
      | some r => obtain ⟨τ', hτ'⟩ := hd q.1 r hl; rw [(hfresh q hq).1] at hτ'; cases hτ'
    rw [hK.node _ _ _ _ _ (by rcases ht with rfl | rfl <;> decide)]
    simp only [List.map_cons, List.map_nil]
    rw [hK.node _ _ _ _ _ (by decide), hK.decls xs hxs]
    have hd' : ∀ y r, lookup y rz = some r → ∃ τ', lookup y (declCtx τ Γ xs) = some τ' := by
      intro y r hl
      obtain ⟨τ', hτ'⟩ := hd y r hl
      by_cases hm : y ∈ xs.map (·.1)
      · obtain ⟨q, hq, rfl⟩ := List.mem_map.mp hm
        rw [hxs q hq] at hl; cases hl
      · exact ⟨τ', by rw [lookup_declCtx τ y xs Γ hm]; exact hτ'⟩
    match xs, hlen with
    | q :: q' :: r, _ =>
      exact NRel.ofEnum ht d lo hi dd dlo dhi (ihd K hK hd (hp.kid (by simp))) (ihb K hK hd' (hp.kid (by simp)))
        (q :: q' :: r) (by simp)
  | @quantTup rz Γ t dom body dom' body' ts d lo hi pd plo phi xs nn _ ht hlen _ hnd hfresh _ _ _ _ hnn _ hbody ihd ihb =>
    intro K hK hd hp
    subst hnn
    have hxs : ∀ q ∈ xs, lookup q.1 rz = none ∧ ∀ r ∈ rz, r.2.1 ≠ q.1 := by
      intro q hq
      refine ⟨?_, (hfresh q hq).2.2⟩
      cases hl : lookup q.1 rz with
      | none => rfl
      | some r => obtain ⟨τ', hτ'⟩ := hd q.1 r hl; rw [(hfresh q hq).1] at hτ'; cases hτ'
    rw [hK.node _ _ _ _ _ (by rcases ht with rfl | rfl <;> decide)]
    simp only [List.map_cons, List.map_nil]
    rw [hK.node _ _ _ _ _ (by decide), hK.decls xs (fun q hq => (hxs q hq).1)]
    have hK' := hK.comp xs (candName (xs.map (·.1))) hxs
    have hd' : ∀ y r, lookup y (patRz (candName (xs.map (·.1))) xs 1 ++ rz) = some r →
        ∃ τ', lookup y (patCtx Γ xs ts) = some τ' := by
      intro y r hl
      rw [lookup_patRz] at hl
      rw [lookup_patCtx y xs ts Γ hlen hnd]
      cases hpo : posOf y xs with
      | some j =>
        obtain ⟨q, hq1, _⟩ := posOf_some hpo
        have hj : j < ts.length := by obtain ⟨hj, _⟩ := List.getElem?_eq_some_iff.mp hq1; omega
        exact ⟨ts[j], by simp [hj]⟩
      | none => rw [hpo] at hl; exact hd y r hl
    obtain ⟨tb, db, lb, hb', kb, rfl, hneb⟩ := hbody.logic_node
    have hBk : sK (flatPaths xs 1) (candName (xs.map (·.1))) (K (.node tb db lb hb' kb)) =
        substTuple (flatPaths xs 1) (candName (xs.map (·.1))) (K (.node tb db lb hb' kb)) := by
      rw [hK.node _ _ _ _ _ hneb]
      simp [sK, isLocal, Ast.id, tok_beq, hneb]
    have hB := ihb (fun a => sK (flatPaths xs 1) (candName (xs.map (·.1))) (K a)) hK' hd' (hp.kid (by simp))
    rw [hBk] at hB
    exact NRel.tupBinder hP (Or.inl ht) d lo hi pd plo phi xs hp.pat hnd (ihd K hK hd (hp.kid (by simp))) hB
  | @declTup rz Γ dom body dom' body' ts d lo hi pd plo phi xs nn _ hlen _ hnd hfresh _ _ _ _ hnn _ hbody ihd ihb =>
    intro K hK hd hp
    subst hnn
    have hxs : ∀ q ∈ xs, lookup q.1 rz = none ∧ ∀ r ∈ rz, r.2.1 ≠ q.1 := by
      intro q hq
      refine ⟨?_, (hfresh q hq).2.2⟩
      cases hl : lookup q.1 rz with
      | none => rfl
      | some r => obtain ⟨τ', hτ'⟩ := hd q.1 r hl; rw [(hfresh q hq).1] at hτ'; cases hτ'
    rw [hK.node _ _ _ _ _ (by decide)]
    simp only [List.map_cons, List.map_nil]
    rw [hK.node _ _ _ _ _ (by decide), hK.decls xs (fun q hq => (hxs q hq).1)]
    have hK' := hK.comp xs (candName (xs.map (·.1))) hxs
    have hd' : ∀ y r, lookup y (patRz (candName (xs.map (·.1))) xs 1 ++ rz) = some r →
        ∃ τ', lookup y (patCtx Γ xs ts) = some τ' := by
      intro y r hl
      rw [lookup_patRz] at hl
      rw [lookup_patCtx y xs ts Γ hlen hnd]
      cases hpo : posOf y xs with
      | some j =>
        obtain ⟨q, hq1, _⟩ := posOf_some hpo
        have hj : j < ts.length := by obtain ⟨hj, _⟩ := List.getElem?_eq_some_iff.mp hq1; omega
        exact ⟨ts[j], by simp [hj]⟩
      | none => rw [hpo] at hl; exact hd y r hl
    obtain ⟨tb, db, lb, hb', kb, rfl, hneb⟩ := hbody.logic_node
    have hBk : sK (flatPaths xs 1) (candName (xs.map (·.1))) (K (.node tb db lb hb' kb)) =
        substTuple (flatPaths xs 1) (candName (xs.map (·.1))) (K (.node tb db lb hb' kb)) := by
      rw [hK.node _ _ _ _ _ hneb]
      simp [sK, isLocal, Ast.id, tok_beq, hneb]
    have hB := ihb (fun a => sK (flatPaths xs 1) (candName (xs.map (·.1))) (K a)) hK' hd' (hp.kid (by simp))
    rw [hBk] at hB
    exact NRel.tupBinder hP (Or.inr rfl) d lo hi pd plo phi xs hp.pat hnd (ihd K hK hd (hp.kid (by simp))) hB

/-- `SyntaxTree::Normalize` on a closed expression of the fragment whose patterns do not collide -/
theorem FragR.normalizesTree6 {env : Env} {G : TCtx} {lvl : Nat} {e n : Ast} {τ : ExprTy} (h : FragR env G lvl [] [] e n τ)
    (hP : NoCollide (patsOf e)) (fuel : Nat) :
    normalizeTree env.funcs fuel e = none ∨ normalizeTree env.funcs fuel e = some n := by
  unfold Norm.normalizeTree
  rcases h.normRel env.funcs (patsOf e) hP (fun a => a) KOK.id (by intro x r hx; simp [lookup] at hx) (fun p hp => hp) fuel
      { userLocals := collectLocals e } (NOK.init _ _) with h1 | ⟨st', h1, _⟩
  · left; simp [h1]
  · right; simp [h1]

end CCVerif.Eval
