import CCVerif.Lemmas.EvalBlocksPat
/-! Stage 10, reference side: the relation `PE` ("pattern elimination") and its soundness for `⟦·⟧` (`PE.sound`).

`PE S Γ Δ e es`: `es` is `e` with EVERY declaration - binder of `∀ ∃ D{}`, member of an enumerated declaration, variable
of `R{}`, left side of an `:∈` / `:=` block of `I{}`; a plain variable or a tuple pattern of any depth - replaced by ONE
plain variable `w` and every use of a leaf of the pattern in its scope by the chain of projections of `w` along the path
of the leaf (a plain variable is carried by itself, chain of length 0).  With `w` the name the normaliser generates,
`es` is - up to the nesting of enumerated declarations - the normal form of `e`.  `Γ` types the variables of `es` in
scope, `Δ` says what a variable of `e` stands for.  Node ranges of `es` are free.
`PE.sound`: a value of `es` at fuel `f` is the value of `e` at every fuel `≥ f`.  Side conditions: the pattern fits
the type `τ` of the bound values, distinct leaves, `w` does not carry a visible variable, and the reference values
bound are typed (`DomTy` / `ValTy`: binding through a pattern is defined on values of the shape of the pattern only). -/
namespace CCVerif.Eval
open CCVerif.Syntax CCVerif.Spec CCVerif.Norm
open Val Ty

inductive PE (S : SEnv) : TCtx → NCtx → Ast → Ast → Prop where
  | lit {Γ : TCtx} {Δ : NCtx} (n lo hi lo' hi' : Int) :
      PE S Γ Δ (.node .LIT_INTEGER (.int n) lo hi []) (.node .LIT_INTEGER (.int n) lo' hi' [])
  | empty {Γ : TCtx} {Δ : NCtx} (d : TokData) (lo hi lo' hi' : Int) :
      PE S Γ Δ (.node .LIT_EMPTYSET d lo hi []) (.node .LIT_EMPTYSET d lo' hi' [])
  | glob {Γ : TCtx} {Δ : NCtx} (g : String) (lo hi lo' hi' : Int) :
      PE S Γ Δ (.node .ID_GLOBAL (.text g) lo hi []) (.node .ID_GLOBAL (.text g) lo' hi' [])
  /-- a bound variable: itself, or the chain of projections of the variable of the component it is a leaf of -/
  | loc {Γ : TCtx} {Δ : NCtx} (x p : String) (path : List Int) (lo hi lo' hi' : Int) : lookup x Δ = some (p, path) →
      PE S Γ Δ (.node .ID_LOCAL (.text x) lo hi []) (wrapPr path lo' hi' (.node .ID_LOCAL (.text p) lo' hi' []))
  | un {Γ : TCtx} {Δ : NCtx} {t : Tok} {a as : Ast} (d : TokData) (lo hi lo' hi' : Int) : isUn t → PE S Γ Δ a as →
      PE S Γ Δ (.node t d lo hi [a]) (.node t d lo' hi' [as])
  | pr {Γ : TCtx} {Δ : NCtx} {t : Tok} {a as : Ast} (idx : List Int) (lo hi lo' hi' : Int) : t = .SMALLPR ∨ t = .BIGPR →
      PE S Γ Δ a as → PE S Γ Δ (.node t (.tuple idx) lo hi [a]) (.node t (.tuple idx) lo' hi' [as])
  | bin {Γ : TCtx} {Δ : NCtx} {t : Tok} {a b as bs : Ast} (d : TokData) (lo hi lo' hi' : Int) : isBin7 t →
      PE S Γ Δ a as → PE S Γ Δ b bs → PE S Γ Δ (.node t d lo hi [a, b]) (.node t d lo' hi' [as, bs])
  | mem {Γ : TCtx} {Δ : NCtx} {t : Tok} {a b as bs : Ast} (d : TokData) (lo hi lo' hi' : Int) : isMemTok t →
      b.id ≠ .BOOLEAN → bs.id ≠ .BOOLEAN →
      PE S Γ Δ a as → PE S Γ Δ b bs → PE S Γ Δ (.node t d lo hi [a, b]) (.node t d lo' hi' [as, bs])
  | memPow {Γ : TCtx} {Δ : NCtx} {t : Tok} {a b as bs : Ast} (d d' : TokData) (lo hi lo' hi' lo2 hi2 lo2' hi2' : Int) :
      isMemTok t → PE S Γ Δ a as → PE S Γ Δ b bs →
      PE S Γ Δ (.node t d lo hi [a, .node .BOOLEAN d' lo2 hi2 [b]]) (.node t d lo' hi' [as, .node .BOOLEAN d' lo2' hi2' [bs]])
  | nary {Γ : TCtx} {Δ : NCtx} {t : Tok} (d : TokData) (lo hi lo' hi' : Int) (ks kss : List Ast) : isNary t →
      ks.length = kss.length → (∀ q ∈ ks.zip kss, PE S Γ Δ q.1 q.2) →
      PE S Γ Δ (.node t d lo hi ks) (.node t d lo' hi' kss)
  /-- `Q p∈dom . body`, `p` a plain variable or a pattern, carried by `w` -/
  | quantD {Γ : TCtx} {Δ : NCtx} {t : Tok} {p dom body doms bodys : Ast} {τ : Ty} (d : TokData) (lo hi lo' hi' : Int) (w : EDecl) :
      isQuant t → DeclOK Δ p w.1 τ → DomTy S Γ doms τ →
      PE S Γ Δ dom doms → PE S ((w.1, τ) :: Γ) (leafDelta p w.1 ++ Δ) body bodys →
      PE S Γ Δ (.node t d lo hi [p, dom, body]) (.node t d lo' hi' [declNode w, doms, bodys])
  /-- `D{p∈dom | body}` -/
  | declD {Γ : TCtx} {Δ : NCtx} {p dom body doms bodys : Ast} {τ : Ty} (d : TokData) (lo hi lo' hi' : Int) (w : EDecl) :
      DeclOK Δ p w.1 τ → DomTy S Γ doms τ →
      PE S Γ Δ dom doms → PE S ((w.1, τ) :: Γ) (leafDelta p w.1 ++ Δ) body bodys →
      PE S Γ Δ (.node .NT_DECLARATIVE_EXPR d lo hi [p, dom, body]) (.node .NT_DECLARATIVE_EXPR d lo' hi' [declNode w, doms, bodys])
  /-- `Q p₁,…,pₙ∈dom . body`: an enumerated declaration whose members are plain variables or patterns -/
  | quantE {Γ : TCtx} {Δ : NCtx} {t : Tok} {dom body doms bodys : Ast} {τ : Ty} (d : TokData) (lo hi lo' hi' : Int)
      (ed ed' : NMeta) (dl : DeclList) : isQuant t → DeclsOK τ dl Δ → DomTy S Γ doms τ →
      PE S Γ Δ dom doms → PE S (declsGamma τ dl Γ) (declsDelta dl Δ) body bodys →
      PE S Γ Δ (.node t d lo hi [.node .NT_ENUM_DECL ed.d ed.lo ed.hi (dl.map (·.1)), dom, body])
        (.node t d lo' hi' [.node .NT_ENUM_DECL ed'.d ed'.lo ed'.hi (dl.map fun q => declNode q.2), doms, bodys])
  /-- `R{p := init | body}` -/
  | recShort {Γ : TCtx} {Δ : NCtx} {p init body inits bodys : Ast} {τ : Ty} (d : TokData) (lo hi lo' hi' : Int) (w : EDecl) :
      DeclOK Δ p w.1 τ → ValTy S Γ inits τ → ValTy S ((w.1, τ) :: Γ) bodys τ →
      PE S Γ Δ init inits → PE S ((w.1, τ) :: Γ) (leafDelta p w.1 ++ Δ) body bodys →
      PE S Γ Δ (.node .NT_RECURSIVE_SHORT d lo hi [p, init, body]) (.node .NT_RECURSIVE_SHORT d lo' hi' [declNode w, inits, bodys])
  /-- `R{p := init | cond | body}` -/
  | recFull {Γ : TCtx} {Δ : NCtx} {p init cond body inits conds bodys : Ast} {τ : Ty} (d : TokData) (lo hi lo' hi' : Int)
      (w : EDecl) : DeclOK Δ p w.1 τ → ValTy S Γ inits τ → ValTy S ((w.1, τ) :: Γ) bodys τ →
      PE S Γ Δ init inits → PE S ((w.1, τ) :: Γ) (leafDelta p w.1 ++ Δ) cond conds →
      PE S ((w.1, τ) :: Γ) (leafDelta p w.1 ++ Δ) body bodys →
      PE S Γ Δ (.node .NT_RECURSIVE_FULL d lo hi [p, init, cond, body])
        (.node .NT_RECURSIVE_FULL d lo' hi' [declNode w, inits, conds, bodys])
  /-- `I{value | blocks}`: every block (`p :∈ dom`, `p := e`, condition) and the value in the scope of the blocks before it -/
  | imp {Γ : TCtx} {Δ : NCtx} (d d' : TokData) (lo hi lo' hi' : Int) (value values : Ast) (bl : List BSpec) :
      impSide S bl Γ Δ → (∀ q ∈ impObl bl Γ Δ value values, PE S q.1 q.2.1 q.2.2.1 q.2.2.2) →
      PE S Γ Δ (.node .NT_IMPERATIVE_EXPR d lo hi (value :: bl.map BSpec.src))
        (.node .NT_IMPERATIVE_EXPR d' lo' hi' (values :: bl.map BSpec.flat))

private theorem wd_set {wd : SemVal} {xs : List Val} (hs : dSet (some wd) = some xs) : wd = .val (.s xs) := by
  have := dSet_some hs
  injection this

private theorem wd_val {wd : SemVal} {v : Val} (hs : dVal (some wd) = some v) : wd = .val v := by
  have := dVal_some hs
  injection this

/-- **soundness of pattern elimination**: a value of the expression over plain variables (at fuel `f`) is the value of
the expression with patterns at every fuel `≥ f` -/
theorem PE.sound {S : SEnv} {Γ : TCtx} {Δ : NCtx} {e es : Ast} (h : PE S Γ Δ e es) :
    ∀ ρ ρs, URel Δ ρ ρs → EnvTy Γ ρs → Sim S 0 ρ e ρs es := by
  induction h with
  | lit n lo hi lo' hi' =>
    intro ρ ρs _ _
    exact Sim.node (fun f g _ v hv => by rw [denote_lit] at hv ⊢; exact hv)
  | empty d lo hi lo' hi' =>
    intro ρ ρs _ _
    exact Sim.node (fun f g _ v hv => by rw [denote_empty] at hv ⊢; exact hv)
  | glob g lo hi lo' hi' =>
    intro ρ ρs _ _
    exact Sim.node (fun f g _ v hv => by rw [denote_global] at hv ⊢; exact hv)
  | loc x p path lo hi lo' hi' hl =>
    intro ρ ρs hr _
    obtain ⟨v, w, h1, h2, h3⟩ := hr x p path hl
    intro f r hr' f' hf'
    have hinner : ∀ f r, denote S f ρs (.node .ID_LOCAL (.text p) lo' hi' []) = some r → ∃ v, some w = some v ∧ r = .val v := by
      intro f r hr
      cases f with
      | zero => rw [denote_zero] at hr; cases hr
      | succ f => rw [denote_local, h2] at hr; injection hr with hr; exact ⟨w, rfl, hr.symm⟩
    obtain ⟨u, hu, rfl⟩ := denote_wrapPr S ρs lo' hi' path _ (some w) hinner f r hr'
    simp only [Option.bind_some, h3] at hu
    injection hu with hu; subst hu
    cases f with
    | zero => rw [denote_zero] at hr'; cases hr'
    | succ f =>
      obtain ⟨g, rfl⟩ : ∃ g, f' = g + 1 := ⟨f' - 1, by omega⟩
      rw [denote_local, h1]
  | @un Γ Δ t a as d lo hi lo' hi' ht _ ih =>
    intro ρ ρs hr he
    refine Sim.node (fun f g hg => ?_)
    have key := (ih ρ ρs hr he).ole hg
    intro v hv
    rcases ht with rfl | rfl | rfl | rfl | rfl | rfl
    · rw [denote_card] at hv ⊢; strict1_case f ρs as key hv
    · rw [denote_bool] at hv ⊢; strict1_case f ρs as key hv
    · rw [denote_debool] at hv ⊢; strict1_case f ρs as key hv
    · rw [denote_reduce] at hv ⊢; strict1_case f ρs as key hv
    · rw [denote_not] at hv ⊢; strict1_case f ρs as key hv
    · rw [denote_boolean] at hv ⊢; strict1_case f ρs as key hv
  | @pr Γ Δ t a as idx lo hi lo' hi' ht _ ih =>
    intro ρ ρs hr he
    refine Sim.node (fun f g hg => ?_)
    have key := (ih ρ ρs hr he).ole hg
    intro v hv
    rcases ht with rfl | rfl
    · rw [denote_smallpr] at hv ⊢; strict1_case f ρs as key hv
    · rw [denote_bigpr] at hv ⊢; strict1_case f ρs as key hv
  | @bin Γ Δ t a b as bs d lo hi lo' hi' ht _ _ iha ihb =>
    intro ρ ρs hr he
    refine Sim.node (fun f g hg => ?_)
    have ka := (iha ρ ρs hr he).ole hg
    have kb := (ihb ρ ρs hr he).ole hg
    intro v hv
    rcases ht with ht | ht | ht | ht | ht | ht
    · rw [denote_arith ht] at hv ⊢
      exact OLe.strict2 (fun ra rb => (dInt ra).bind fun x => (dInt rb).map fun y => SemVal.val (.e (arithOp t x y)))
        (fun _ => rfl) (fun x => by simp [dInt]) ka kb v hv
    · rw [denote_intCmp ht] at hv ⊢
      exact OLe.strict2 (fun ra rb => (dInt ra).bind fun x => (dInt rb).map fun y => SemVal.bool (intCmpOp t x y))
        (fun _ => rfl) (fun x => by simp [dInt]) ka kb v hv
    · rw [denote_eq ht] at hv ⊢
      exact OLe.strict2 (fun ra rb => (dVal ra).bind fun x => (dVal rb).map fun y =>
          SemVal.bool (decide (x = y) != (t == .NOTEQUAL)))
        (fun _ => rfl) (fun x => by simp [dVal]) ka kb v hv
    · rw [denote_sub ht] at hv ⊢
      exact OLe.strict2 (fun ra rb => ((dSet ra).bind fun xs => (dSet rb).map fun ys => subSpec t xs ys).map SemVal.bool)
        (fun _ => rfl) (fun x => by simp [dSet, dVal]) ka kb v hv
    · rw [denote_setOp ht] at hv ⊢
      exact OLe.strict2 (fun ra rb => ((dSet ra).bind fun xs => (dSet rb).map fun ys => setOpSpec t xs ys).map SemVal.val)
        (fun _ => rfl) (fun x => by simp [dSet, dVal]) ka kb v hv
    · rw [denote_conn ht] at hv ⊢
      have hm := kConn_mono ht (dBool_mono ka) (dBool_mono kb)
      cases hk : kConn t (dBool (denote S f ρs as)) (dBool (denote S f ρs bs)) with
      | none => rw [hk] at hv; cases hv
      | some r => rw [hm r hk]; rw [hk] at hv; exact hv
  | @mem Γ Δ t a b as bs d lo hi lo' hi' ht hb hbs _ _ iha ihb =>
    intro ρ ρs hr he
    refine Sim.node (fun f g hg => ?_)
    have ka := (iha ρ ρs hr he).ole hg
    have kb := (ihb ρ ρs hr he).ole hg
    intro v hv
    rw [denote_mem ht _ _ _ _ _ _ _ _ hbs] at hv
    rw [denote_mem ht _ _ _ _ _ _ _ _ hb]
    exact OLe.strict2 (fun ra rb => (((dVal ra).bind fun x => (dSet rb).map fun ys => isMember x ys).map
        fun r => r != (t == .NOTIN)).map SemVal.bool)
      (fun _ => rfl) (fun x => by simp [dSet, dVal]) ka kb v hv
  | @memPow Γ Δ t a b as bs d d' lo hi lo' hi' lo2 hi2 lo2' hi2' ht _ _ iha ihb =>
    intro ρ ρs hr he
    refine Sim.node (fun f g hg => ?_)
    have ka := (iha ρ ρs hr he).ole hg
    have kb := (ihb ρ ρs hr he).ole hg
    intro v hv
    rw [denote_memPow ht] at hv ⊢
    exact OLe.strict2 (fun ra rb => (((dSet ra).bind fun xs => (dSet rb).map fun ys => isSubset xs ys).map
        fun r => r != (t == .NOTIN)).map SemVal.bool)
      (fun _ => rfl) (fun x => by simp [dSet, dVal]) ka kb v hv
  | @nary Γ Δ t d lo hi lo' hi' ks kss ht hlen _ ih =>
    intro ρ ρs hr he
    refine Sim.node (fun f g hg => ?_)
    have hq : ∀ q ∈ ks.zip kss, OLe (denote S f ρs q.2) (denote S g ρ q.1) := fun q hq => (ih q hq ρ ρs hr he).ole hg
    intro v hv
    rcases ht with rfl | rfl | rfl
    · rw [denote_enum] at hv ⊢
      have hm := mapM_mono dVal rfl (denote S g ρ) (denote S f ρs) ks kss hlen hq
      cases hk : kss.mapM (fun k => dVal (denote S f ρs k)) with
      | none => rw [hk] at hv; cases hv
      | some vs => rw [hm vs hk]; rw [hk] at hv; exact hv
    · rw [denote_tuple] at hv ⊢
      have hm := mapM_mono dVal rfl (denote S g ρ) (denote S f ρs) ks kss hlen hq
      cases hk : kss.mapM (fun k => dVal (denote S f ρs k)) with
      | none => rw [hk] at hv; cases hv
      | some vs => rw [hm vs hk]; rw [hk] at hv; exact hv
    · rw [denote_decart] at hv ⊢
      have hm := mapM_mono dSet rfl (denote S g ρ) (denote S f ρs) ks kss hlen hq
      cases hk : kss.mapM (fun k => dSet (denote S f ρs k)) with
      | none => rw [hk] at hv; cases hv
      | some vs => rw [hm vs hk]; rw [hk] at hv; exact hv
  | @quantD Γ Δ t p dom body doms bodys τ d lo hi lo' hi' w ht hd hty _ _ ihd ihb =>
    intro ρ ρs hr he
    refine Sim.node (fun f g hg => ?_)
    have kd := (ihd ρ ρs hr he).ole hg
    intro v hv
    simp only [declNode] at hv
    rw [denote_quant ht] at hv
    rw [denote_quantP ht _ _ _ _ _ _ _ _ _ (patOK_notEnum hd.ok)]
    cases hrd : denote S f ρs doms with
    | none => rw [hrd] at hv; simp [dSet, dVal] at hv
    | some wd =>
      rw [kd wd hrd]; rw [hrd] at hv
      cases hs : dSet (some wd) with
      | none => rw [hs] at hv; simp at hv
      | some xs =>
        rw [hs] at hv
        have hwd := wd_set hs
        subst hwd
        have hb : ∀ x ∈ xs, OLe (dBool (denote S f (.val w.1 x ρs) bodys))
            (bindK p ρ (fun ρ' => dBool (denote S g ρ' body)) x) := by
          intro x hx
          obtain ⟨ρ', b1, b2, b3⟩ := bind_relW hr he hd x (hty f ρs xs he hrd x hx)
          simp only [bindK, b1]
          exact dBool_mono ((ihb _ _ b2 b3).ole hg)
        have hall := kAll_mono xs _ _ hb
        have hany := kAny_mono xs _ _ hb
        simp only at hv ⊢
        by_cases hu : (t == Tok.FORALL) = true
        · simp only [hu, if_true] at hv ⊢
          cases hk : kAll (xs.map fun x => dBool (denote S f (.val w.1 x ρs) bodys)) with
          | none => rw [hk] at hv; cases hv
          | some r => rw [hall r hk]; rw [hk] at hv; exact hv
        · simp only [hu] at hv ⊢
          cases hk : kAny (xs.map fun x => dBool (denote S f (.val w.1 x ρs) bodys)) with
          | none => rw [hk] at hv; cases hv
          | some r => rw [hany r hk]; rw [hk] at hv; exact hv
  | @declD Γ Δ p dom body doms bodys τ d lo hi lo' hi' w hd hty _ _ ihd ihb =>
    intro ρ ρs hr he
    refine Sim.node (fun f g hg => ?_)
    have kd := (ihd ρ ρs hr he).ole hg
    intro v hv
    simp only [declNode] at hv
    rw [denote_decl] at hv
    rw [denote_declP]
    cases hrd : denote S f ρs doms with
    | none => rw [hrd] at hv; simp [dSet, dVal] at hv
    | some wd =>
      rw [kd wd hrd]; rw [hrd] at hv
      cases hs : dSet (some wd) with
      | none => rw [hs] at hv; simp at hv
      | some xs =>
        rw [hs] at hv
        have hwd := wd_set hs
        subst hwd
        have hb : ∀ x ∈ xs, OLe ((dBool (denote S f (.val w.1 x ρs) bodys)).map fun b => (x, b))
            (bindK p ρ (fun ρ' => (dBool (denote S g ρ' body)).map fun b => (x, b)) x) := by
          intro x hx
          obtain ⟨ρ', b1, b2, b3⟩ := bind_relW hr he hd x (hty f ρs xs he hrd x hx)
          simp only [bindK, b1]
          exact OLe.strict1 (fun r => (dBool r).map fun b => (x, b)) rfl ((ihb _ _ b2 b3).ole hg)
        have hm := mapM_val_mono xs _ _ hb
        simp only at hv ⊢
        cases hk : xs.mapM (fun x => (dBool (denote S f (.val w.1 x ρs) bodys)).map fun b => (x, b)) with
        | none => rw [hk] at hv; cases hv
        | some r => rw [hm r hk]; rw [hk] at hv; exact hv
  | @quantE Γ Δ t dom body doms bodys τ d lo hi lo' hi' ed ed' dl ht hok hty _ _ ihd ihb =>
    intro ρ ρs hr he
    refine Sim.node (fun f g hg => ?_)
    have kd := (ihd ρ ρs hr he).ole hg
    intro v hv
    rw [denote_quantEnum ht] at hv ⊢
    cases hrd : denote S f ρs doms with
    | none => rw [hrd] at hv; simp [dSet, dVal] at hv
    | some wd =>
      rw [kd wd hrd]; rw [hrd] at hv
      cases hs : dSet (some wd) with
      | none => rw [hs] at hv; simp at hv
      | some xs =>
        rw [hs] at hv
        have hwd := wd_set hs
        subst hwd
        have hq := quantSem_rel (t == .FORALL) xs τ (hty f ρs xs he hrd) (fun ρ' => dBool (denote S f ρ' bodys))
          (fun ρ' => dBool (denote S g ρ' body)) dl Γ Δ ρ ρs hr he hok
          (fun ρ' ρs' h1 h2 => dBool_mono ((ihb ρ' ρs' h1 h2).ole hg))
        simp only at hv ⊢
        cases hk : quantSem (t == .FORALL) xs (fun ρ' => dBool (denote S f ρ' bodys)) (dl.map fun q => declNode q.2) ρs with
        | none => rw [hk] at hv; cases hv
        | some r => rw [hq r hk]; rw [hk] at hv; exact hv
  | @recShort Γ Δ p init body inits bodys τ d lo hi lo' hi' w hd htyi htyb _ _ ihi ihb =>
    intro ρ ρs hr he
    refine Sim.node (fun f g hg => ?_)
    have ki := (ihi ρ ρs hr he).ole hg
    intro v hv
    simp only [declNode] at hv
    rw [denote_recShort] at hv
    rw [denote_recShortP]
    cases hri : denote S f ρs inits with
    | none => rw [hri] at hv; simp [dVal] at hv
    | some wi =>
      rw [ki wi hri]; rw [hri] at hv
      cases hvv : dVal (some wi) with
      | none => rw [hvv] at hv; simp at hv
      | some i =>
        rw [hvv] at hv
        have hwi := wd_val hvv
        subst hwi
        have hi : hasTy i τ = true := htyi f ρs i he hri
        have hm := recSem_mono τ (fun _ => some true) (fun _ => some true)
          (fun cur => dVal (denote S f (.val w.1 cur ρs) bodys))
          (fun cur => (bindPat p cur ρ).bind fun ρ' => dVal (denote S g ρ' body))
          (fun _ _ c hc => hc)
          (fun cur hcur => by
            obtain ⟨ρ', b1, b2, b3⟩ := bind_relW hr he hd cur hcur
            simp only [b1, Option.bind_some]
            exact OLe.strict1 dVal rfl ((ihb _ _ b2 b3).ole hg))
          (fun cur nxt hcur hn => htyb f (.val w.1 cur ρs) nxt (he.bind1 w.1 cur τ hcur) (dVal_some hn))
          REC_BOUND i hi
        simp only at hv ⊢
        cases hk : recSem (fun _ => some true) (fun cur => dVal (denote S f (.val w.1 cur ρs) bodys)) REC_BOUND i with
        | none => rw [hk] at hv; cases hv
        | some r => rw [hm r hk]; rw [hk] at hv; exact hv
  | @recFull Γ Δ p init cond body inits conds bodys τ d lo hi lo' hi' w hd htyi htyb _ _ _ ihi ihc ihb =>
    intro ρ ρs hr he
    refine Sim.node (fun f g hg => ?_)
    have ki := (ihi ρ ρs hr he).ole hg
    intro v hv
    simp only [declNode] at hv
    rw [denote_recFull] at hv
    rw [denote_recFullP]
    cases hri : denote S f ρs inits with
    | none => rw [hri] at hv; simp [dVal] at hv
    | some wi =>
      rw [ki wi hri]; rw [hri] at hv
      cases hvv : dVal (some wi) with
      | none => rw [hvv] at hv; simp at hv
      | some i =>
        rw [hvv] at hv
        have hwi := wd_val hvv
        subst hwi
        have hi : hasTy i τ = true := htyi f ρs i he hri
        have hm := recSem_mono τ (fun cur => dBool (denote S f (.val w.1 cur ρs) conds))
          (fun cur => (bindPat p cur ρ).bind fun ρ' => dBool (denote S g ρ' cond))
          (fun cur => dVal (denote S f (.val w.1 cur ρs) bodys))
          (fun cur => (bindPat p cur ρ).bind fun ρ' => dVal (denote S g ρ' body))
          (fun cur hcur => by
            obtain ⟨ρ', b1, b2, b3⟩ := bind_relW hr he hd cur hcur
            simp only [b1, Option.bind_some]
            exact dBool_mono ((ihc _ _ b2 b3).ole hg))
          (fun cur hcur => by
            obtain ⟨ρ', b1, b2, b3⟩ := bind_relW hr he hd cur hcur
            simp only [b1, Option.bind_some]
            exact OLe.strict1 dVal rfl ((ihb _ _ b2 b3).ole hg))
          (fun cur nxt hcur hn => htyb f (.val w.1 cur ρs) nxt (he.bind1 w.1 cur τ hcur) (dVal_some hn))
          REC_BOUND i hi
        simp only at hv ⊢
        cases hk : recSem (fun cur => dBool (denote S f (.val w.1 cur ρs) conds))
            (fun cur => dVal (denote S f (.val w.1 cur ρs) bodys)) REC_BOUND i with
        | none => rw [hk] at hv; cases hv
        | some r => rw [hm r hk]; rw [hk] at hv; exact hv
  | @imp Γ Δ d d' lo hi lo' hi' value values bl hside _ ih =>
    intro ρ ρs hr he
    refine Sim.node (fun f g hg => ?_)
    intro v hv
    rw [denote_impL] at hv ⊢
    have hm := impList_rel S value values (f := f) (g := g) (by omega) bl Γ Δ ρ ρs hr he hside
      (fun q hq ρ ρs h1 h2 => ih q hq ρ ρs h1 h2)
    cases hk : impList S f values (bl.map BSpec.flat) ρs with
    | none => rw [hk] at hv; cases hv
    | some l => rw [hm l hk]; rw [hk] at hv; exact hv

end CCVerif.Eval
