import CCVerif.Model.ExtractGen
import CCVerif.Lemmas.RenameGen
import CCVerif.Lemmas.NameBij

namespace CCVerif.ExtractGen
open CCVerif CCVerif.SchemaGen CCVerif.Graph
open CCVerif.Schema (Kind lookup sortDedup)
open CCVerif.RSModelGen (mem_insertCst mem_insertCst_self mem_insertCst_of_mem renDef translateAll_store)

variable {D I : Type} [DecidableEq D] {A : Analysis D I} {g : Names}

theorem load_store {st : St D I} (hb : Base st) {c : Cst D} (hc : c.uid ∉ uids st.store) :
    (step A st (.load c)).store = insertCst c st.store ∧ (step A st (.load c)).invalid = true ∧
    ∀ u, (step A st (.load c)).hasInfo u = (st.hasInfo u || c.uid == u) := by
  have hh : st.hasInfo c.uid = false := by
    cases h : st.hasInfo c.uid with
    | false => rfl
    | true => exact absurd ((hb.keys _).1 h) hc
  have hf : st.store.filter (·.uid != c.uid) = st.store := by
    apply List.filter_eq_self.2
    intro x hx
    simp only [bne_iff_ne, ne_eq]
    intro e
    exact hc (mem_uids.2 ⟨x, hx, e⟩)
  refine ⟨?_, rfl, ?_⟩
  · show insertCst c (st.store.filter (·.uid != c.uid)) = _
    rw [hf]
  · intro u
    unfold step
    simp only
    rw [hasInfo_resetInfo, hh]
    simp only [Bool.false_eq_true, if_false]
    exact hasInfo_append st c.uid u A.reset

theorem load_spec {st : St D I} (hb : Base st) {c : Cst D} (hc : c.uid ∉ uids st.store) :
    Base (step A st (.load c)) ∧ (step A st (.load c)).invalid = true ∧
    (∀ x, x ∈ (step A st (.load c)).store ↔ x = c ∨ x ∈ st.store) := by
  obtain ⟨h1, h2, h3⟩ := load_store (A := A) hb hc
  have hp := uids_insertCst hc
  refine ⟨⟨?_, ?_⟩, h2, ?_⟩
  · rw [h1, hp.nodup_iff]
    exact List.nodup_cons.2 ⟨hc, hb.nodup⟩
  · intro u
    rw [h3, h1, hp.mem_iff, Bool.or_eq_true, hb.keys u, List.mem_cons]
    constructor
    · rintro (h | h)
      · exact Or.inr h
      · exact Or.inl (Eq.symm (by simpa using h))
    · rintro (h | h)
      · exact Or.inr (by simpa using h.symm)
      · exact Or.inl h
  · intro x
    rw [h1]
    constructor
    · exact mem_insertCst
    · rintro (h | h)
      · rw [h]; exact mem_insertCst_self hc
      · exact mem_insertCst_of_mem h


/-! ## the loop of the bulk `InsertCopy` -/

/-- list order respects the priority of base sets (invariant of `CstList`, C09) -/
def BasesFirst (cs : List (Cst D)) : Prop := (cs.map (·.kind)).Pairwise (fun a b => b = Kind.base → a = Kind.base)

theorem insertAfterLastBase_allBase (x : Nat × Kind) : ∀ (l : List (Nat × Kind)), l ≠ [] → (∀ y ∈ l, y.2 = Kind.base) →
    insertAfterLastBase x l = some (l ++ [x])
  | [], h, _ => absurd rfl h
  | [y], _, hb => by
    have : y.2 = Kind.base := hb y (by simp)
    simp [insertAfterLastBase, this]
  | y :: z :: zs, _, hb => by
    have ih := insertAfterLastBase_allBase x (z :: zs) (by simp) (fun w hw => hb w (List.mem_cons_of_mem _ hw))
    rw [insertAfterLastBase, ih]
    rfl

theorem listInsert_end (l : List (Nat × Kind)) (x : Nat × Kind)
    (h : x.2 = Kind.base → ∀ y ∈ l, y.2 = Kind.base) : listInsert l x = l ++ [x] := by
  unfold listInsert
  cases hx : x.2 with
  | term => rfl
  | base =>
    simp only
    cases l with
    | nil => rfl
    | cons y ys => rw [insertAfterLastBase_allBase x (y :: ys) (by simp) (h hx)]; rfl

structure CopyInv (pre : List (Cst D)) (s : CopySt D I) : Prop where
  base : Base s.st
  inval : s.st.invalid = true ∨ (s.st.invalid = false ∧ GraphCur A s.st.store s.st.graph)
  store : ∀ x, x ∈ s.st.store ↔ x ∈ pre
  taken : ∀ a, a ∈ s.taken ↔ a ∈ pre.map (·.alias)
  repl : s.repl = []
  order : s.order = pre.map (fun c => (c.uid, c.kind))
  inserted : s.inserted = pre.map (·.uid)

theorem copyStep_spec {pre : List (Cst D)} {s : CopySt D I} (h : CopyInv (A := A) pre s) {c : Cst D}
    (hu : c.uid ∉ uids pre) (ha : c.alias ∉ pre.map (·.alias)) (hok : g.okFor c.alias c.kind = true)
    (hk : c.kind = Kind.base → ∀ y ∈ pre, y.kind = Kind.base) :
    ∃ s', copyStep A g s c = some s' ∧ CopyInv (A := A) (pre ++ [c]) s' := by
  have hnt : s.taken.contains c.alias = false := by
    cases hh : s.taken.contains c.alias with
    | false => rfl
    | true => exact absurd ((h.taken _).1 (by simpa using hh)) ha
  have hreg : regAlias g s.taken c = c.alias := by
    unfold regAlias
    rw [hnt, hok]
    rfl
  have hni : s.inserted.contains c.uid = false := by
    cases hh : s.inserted.contains c.uid with
    | false => rfl
    | true =>
      have : c.uid ∈ s.inserted := by simpa using hh
      rw [h.inserted] at this
      exact absurd this hu
  have hu' : c.uid ∉ uids s.st.store := by
    intro hm
    obtain ⟨x, hx, e⟩ := mem_uids.1 hm
    exact hu (mem_uids.2 ⟨x, (h.store x).1 hx, e⟩)
  obtain ⟨l1, l2, l3⟩ := load_spec (A := A) h.base hu'
  have hcs : copyStep A g s c = some (⟨step A s.st (.load c), listInsert s.order (c.uid, c.kind),
      c.alias :: s.taken, s.repl, s.inserted ++ [c.uid]⟩ : CopySt D I) := by
    unfold copyStep
    simp only [hreg, hnt, hni, Bool.false_eq_true, if_false, ne_eq, not_true_eq_false]
  refine ⟨_, hcs, ?_⟩
  · refine ⟨l1, Or.inl l2, ?_, ?_, h.repl, ?_, ?_⟩
    · intro x
      rw [l3 x, List.mem_append, List.mem_singleton, h.store x]
      exact Or.comm
    · intro a
      show a ∈ c.alias :: s.taken ↔ _
      rw [List.map_append, List.mem_append, List.mem_cons, h.taken a]
      simp only [List.map_cons, List.map_nil, List.mem_singleton]
      exact Or.comm
    · show listInsert s.order (c.uid, c.kind) = _
      rw [listInsert_end _ _ (by
        intro hb y hy
        rw [h.order] at hy
        obtain ⟨z, hz, rfl⟩ := List.mem_map.1 hy
        exact hk hb z hz), h.order]
      simp
    · show s.inserted ++ [c.uid] = _
      rw [h.inserted]
      simp

theorem copyFold_spec : ∀ (rest pre : List (Cst D)) (s : CopySt D I), CopyInv (A := A) pre s →
    (uids (pre ++ rest)).Nodup → ((pre ++ rest).map (·.alias)).Nodup →
    (∀ c ∈ rest, g.okFor c.alias c.kind = true) → BasesFirst (pre ++ rest) →
    ∃ s', rest.foldlM (copyStep A g) s = some s' ∧ CopyInv (A := A) (pre ++ rest) s'
  | [], pre, s, h, _, _, _, _ => ⟨s, rfl, by rw [List.append_nil]; exact h⟩
  | c :: rest, pre, s, h, hn, hal, hok, hbf => by
    have e : pre ++ c :: rest = (pre ++ [c]) ++ rest := by simp
    have hu : c.uid ∉ uids pre := by
      unfold uids at hn ⊢
      rw [List.map_append, List.nodup_append] at hn
      intro hm
      exact hn.2.2 _ hm c.uid (by simp) rfl
    have ha : c.alias ∉ pre.map (·.alias) := by
      rw [List.map_append, List.nodup_append] at hal
      intro hm
      exact hal.2.2 _ hm c.alias (by simp) rfl
    have hk : c.kind = Kind.base → ∀ y ∈ pre, y.kind = Kind.base := by
      intro hb y hy
      unfold BasesFirst at hbf
      rw [List.map_append, List.pairwise_append] at hbf
      exact hbf.2.2 y.kind (List.mem_map.2 ⟨y, hy, rfl⟩) c.kind (by simp) hb
    obtain ⟨s1, e1, h1⟩ := copyStep_spec (g := g) h hu ha (hok c (by simp)) hk
    obtain ⟨s2, e2, h2⟩ := copyFold_spec rest (pre ++ [c]) s1 h1 (by rw [← e]; exact hn) (by rw [← e]; exact hal)
      (fun d hd => hok d (List.mem_cons_of_mem _ hd)) (by rw [← e]; exact hbf)
    refine ⟨s2, ?_, by rw [e]; exact h2⟩
    rw [List.foldlM_cons, e1]
    exact e2


/-! ## the loop of `ResetAliases` -/

/-- the substitution table completed by the identity (`CreateTranslator(map)` on a name) -/
def renOf (m : List (String × String)) (n : String) : String := (lookup m n).getD n

/-- the canonical numbering: in list order every constituent gets the name the rule generates for its
kind given the names handed out before it -/
def canon (g : Names) : List Kind → List String → List String
  | [], _ => []
  | k :: ks, taken => g.newName taken k :: canon g ks (g.newName taken k :: taken)

theorem lookup_append_ne (m : List (String × String)) {a x : String} (n : String) (h : x ≠ a) :
    lookup (m ++ [(a, n)]) x = lookup m x := by
  unfold lookup
  rw [List.find?_append]
  cases hf : m.find? (·.1 == x) with
  | some p => rfl
  | none =>
    have : ((a, n).1 == x) = false := by simpa using fun e => h e.symm
    simp [this]

theorem lookup_append_self (m : List (String × String)) {a : String} (n : String) (h : lookup m a = none) :
    lookup (m ++ [(a, n)]) a = some n := by
  unfold lookup at h ⊢
  rw [List.find?_append]
  cases hf : m.find? (·.1 == a) with
  | some p => rw [hf] at h; cases h
  | none => simp

theorem lookup_none_of_keys {m : List (String × String)} {a : String} (h : ∀ p ∈ m, p.1 ≠ a) : lookup m a = none := by
  unfold lookup
  rw [List.find?_eq_none.2 (fun p hp => by simpa using h p hp)]
  rfl

structure ResetInv (g : Names) (pre : List (Cst D)) (r : ResetSt) : Prop where
  taken : r.taken = (pre.map (fun c => renOf r.subs c.alias)).reverse
  nodup : (pre.map (fun c => renOf r.subs c.alias)).Nodup
  keys : ∀ p ∈ r.subs, p.1 ∈ pre.map (·.alias)
  canon : ∀ ks, canon g (pre.map (·.kind) ++ ks) [] = pre.map (fun c => renOf r.subs c.alias) ++ canon g ks r.taken

omit [DecidableEq D] in
theorem resetStep_spec {st : St D I} {pre : List (Cst D)} {r r' : ResetSt} (h : ResetInv g pre r) {c : Cst D}
    (hat : st.at c.uid = some c) (ha : c.alias ∉ pre.map (·.alias))
    (hs : resetStep g st r c.uid = some r') : ResetInv g (pre ++ [c]) r' := by
  unfold resetStep at hs
  rw [hat] at hs
  simp only at hs
  split at hs
  · cases hs
  next hnt =>
  have hnt' : g.newName r.taken c.kind ∉ r.taken := by simpa using hnt
  cases hs
  generalize hn : g.newName r.taken c.kind = n at hnt'
  have hnone : lookup r.subs c.alias = none :=
    lookup_none_of_keys (fun p hp e => ha (by rw [← e]; exact h.keys p hp))
  -- the new table acts like the old one on the earlier aliases and sends the new alias to `n`
  have hold : ∀ d ∈ pre, renOf (if c.alias ≠ n then r.subs ++ [(c.alias, n)] else r.subs) d.alias = renOf r.subs d.alias := by
    intro d hd
    split
    · unfold renOf
      rw [lookup_append_ne _ _ (fun e => ha (by rw [← e]; exact List.mem_map.2 ⟨d, hd, rfl⟩))]
    · rfl
  have hnew : renOf (if c.alias ≠ n then r.subs ++ [(c.alias, n)] else r.subs) c.alias = n := by
    split
    · unfold renOf
      rw [lookup_append_self _ _ hnone]
      rfl
    · next he =>
      unfold renOf
      rw [hnone]
      simpa using he
  have hmap : (pre ++ [c]).map (fun d => renOf (if c.alias ≠ n then r.subs ++ [(c.alias, n)] else r.subs) d.alias) =
      pre.map (fun d => renOf r.subs d.alias) ++ [n] := by
    rw [List.map_append, List.map_cons, List.map_nil, hnew]
    congr 1
    exact List.map_congr_left hold
  refine ⟨?_, ?_, ?_, ?_⟩
  · show n :: r.taken = _
    rw [hmap, List.reverse_append, h.taken]
    rfl
  · show ((pre ++ [c]).map _).Nodup
    rw [hmap, List.nodup_append]
    refine ⟨h.nodup, by simp, ?_⟩
    intro a ha' b hb e
    simp only [List.mem_singleton] at hb
    apply hnt'
    rw [h.taken, List.mem_reverse, ← hb, ← e]
    exact ha'
  · intro p hp
    replace hp : p ∈ (if c.alias ≠ n then r.subs ++ [(c.alias, n)] else r.subs) := hp
    rw [List.map_append, List.mem_append]
    split at hp
    · rcases List.mem_append.1 hp with hp | hp
      · exact Or.inl (h.keys p hp)
      · simp only [List.mem_singleton] at hp
        rw [hp]
        exact Or.inr (by simp)
    · exact Or.inl (h.keys p hp)
  · intro ks
    show canon g _ [] = (pre ++ [c]).map _ ++ canon g ks (n :: r.taken)
    rw [hmap, List.map_append, List.append_assoc, List.append_assoc]
    have := h.canon (c.kind :: ks)
    rw [List.map_cons, List.map_nil]
    show canon g (pre.map (·.kind) ++ c.kind :: ks) [] = pre.map (fun d => renOf r.subs d.alias) ++ (n :: canon g ks (n :: r.taken))
    rw [this]
    congr 1
    rw [canon, hn]

omit [DecidableEq D] in
theorem resetFold_spec {st : St D I} : ∀ (rest pre : List (Cst D)) (r r' : ResetSt), ResetInv g pre r →
    (∀ c ∈ rest, st.at c.uid = some c) → ((pre ++ rest).map (·.alias)).Nodup →
    (rest.map (·.uid)).foldlM (resetStep g st) r = some r' → ResetInv g (pre ++ rest) r'
  | [], pre, r, r', h, _, _, hs => by
    cases hs
    rw [List.append_nil]
    exact h
  | c :: rest, pre, r, r', h, hat, hal, hs => by
    have e : pre ++ c :: rest = (pre ++ [c]) ++ rest := by simp
    have ha : c.alias ∉ pre.map (·.alias) := by
      rw [List.map_append, List.nodup_append] at hal
      intro hm
      exact hal.2.2 _ hm c.alias (by simp) rfl
    rw [List.map_cons, List.foldlM_cons] at hs
    cases h1 : resetStep g st r c.uid with
    | none => rw [h1] at hs; cases hs
    | some r1 =>
      rw [h1] at hs
      rw [e]
      exact resetFold_spec rest (pre ++ [c]) r1 r' (resetStep_spec h (hat c (by simp)) ha h1)
        (fun d hd => hat d (List.mem_cons_of_mem _ hd)) (by rw [← e]; exact hal) hs


/-! ## the substitution table as a function of the selected constituents -/

/-- the table `ResetAliases` builds for the constituents `cs` (in list order): alias ↦ canonical name,
changed aliases only -/
def aliasTableGo (g : Names) : List (Cst D) → List String → List (String × String) → List (String × String)
  | [], _, subs => subs
  | c :: cs, taken, subs =>
    aliasTableGo g cs (g.newName taken c.kind :: taken)
      (if c.alias ≠ g.newName taken c.kind then subs ++ [(c.alias, g.newName taken c.kind)] else subs)

def aliasTable (g : Names) (cs : List (Cst D)) : List (String × String) := aliasTableGo g cs [] []

omit [DecidableEq D] in
theorem resetFold_table {st : St D I} : ∀ (rest : List (Cst D)) (r r' : ResetSt),
    (∀ c ∈ rest, st.at c.uid = some c) → (rest.map (·.uid)).foldlM (resetStep g st) r = some r' →
    r'.subs = aliasTableGo g rest r.taken r.subs
  | [], r, r', _, hs => by cases hs; rfl
  | c :: rest, r, r', hat, hs => by
    rw [List.map_cons, List.foldlM_cons] at hs
    cases h1 : resetStep g st r c.uid with
    | none => rw [h1] at hs; cases hs
    | some r1 =>
      rw [h1] at hs
      have := resetFold_table rest r1 r' (fun d hd => hat d (List.mem_cons_of_mem _ hd)) hs
      rw [this]
      unfold resetStep at h1
      rw [hat c (by simp)] at h1
      simp only at h1
      split at h1
      · cases h1
      · cases h1
        rfl

/-! ## the copy step as a whole -/

omit [DecidableEq D] in
theorem selectedCsts_spec {src : St D I} : ∀ (sel : List Nat) (cs : List (Cst D)), selectedCsts src sel = some cs →
    cs.map (·.uid) = sel ∧ ∀ c ∈ cs, src.at c.uid = some c
  | [], cs, h => by
    simp only [selectedCsts, List.mapM_nil] at h
    cases h
    exact ⟨rfl, fun c hc => by cases hc⟩
  | u :: sel, cs, h => by
    simp only [selectedCsts, List.mapM_cons] at h
    cases h1 : src.at u with
    | none => rw [h1] at h; cases h
    | some c =>
      cases h2 : sel.mapM src.at with
      | none => rw [h1, h2] at h; cases h
      | some cs' =>
        rw [h1, h2] at h
        cases h
        obtain ⟨e, hall⟩ := selectedCsts_spec sel cs' h2
        have hu := (mem_of_at h1).2
        refine ⟨by rw [List.map_cons, e, hu], ?_⟩
        intro d hd
        rcases List.mem_cons.1 hd with rfl | hd
        · rw [hu]; exact h1
        · exact hall d hd

/-- the identity / naming invariant of the source (`RSCore`, C09): aliases pairwise distinct and
every alias a name of its constituent's kind -/
structure SourceOk (g : Names) (src : St D I) : Prop where
  distinct : AliasesDistinct src
  named : ∀ c ∈ src.store, g.okFor c.alias c.kind = true

/-- what the copy step produces, step by step: the selected constituents `cs` (in the order of the
selection), the state `st1` after the bulk `InsertCopy` (well formed, exactly the selected
constituents, unchanged), the substitution table `m` of `ResetAliases`, and the result -/
theorem copyOut_spec (hA : Lawful A) {src : St D I} (hok : SourceOk g src)
    {sel : List Nat} (hsel : sel.Nodup) {cs : List (Cst D)} (hcs : selectedCsts src sel = some cs)
    (hbf : BasesFirst cs) {res : Sch D I} (h : copyOut A g src sel = some res) :
    ∃ (st1 : St D I) (r : ResetSt), WF A st1 ∧ (∀ x, x ∈ st1.store ↔ x ∈ cs) ∧ ResetInv g cs r ∧
      r.subs = aliasTable g cs ∧ res.order = sel ∧ res.st = step A st1 (.substitute r.subs) := by
  obtain ⟨hu, hat⟩ := selectedCsts_spec sel cs hcs
  have hmem : ∀ c ∈ cs, c ∈ src.store := fun c hc => (mem_of_at (hat c hc)).1
  have hnu : (uids cs).Nodup := by unfold uids; rw [hu]; exact hsel
  have hna : (cs.map (·.alias)).Nodup := by
    unfold uids at hnu
    rw [List.Nodup, List.pairwise_map] at hnu ⊢
    exact hnu.imp_of_mem (fun {a b} ha hb hne e => hne (by rw [eq_of_alias_eq hok.distinct (hmem a ha) (hmem b hb) e]))
  have h0 : CopyInv (A := A) [] ({} : CopySt D I) :=
    ⟨(WF_init (A := A)).base, Or.inr ⟨rfl, (WF_init (A := A)).cur⟩, fun x => Iff.rfl, fun a => Iff.rfl, rfl, rfl, rfl⟩
  obtain ⟨s, e1, hs⟩ := copyFold_spec (g := g) cs [] ({} : CopySt D I) h0 (by simpa using hnu) (by simpa using hna)
    (fun c hc => hok.named c (hmem c hc)) (by simpa using hbf)
  rw [List.nil_append] at hs
  obtain ⟨w1, w2⟩ := updateState_spec hA hs.base hs.inval
  unfold copyOut at h
  rw [hcs] at h
  simp only [Option.bind_some, bulkInsertCopy, e1, hs.repl, List.isEmpty_nil, if_true] at h
  unfold resetAliases at h
  simp only at h
  split at h
  · cases h
  next r hr =>
  have h' := Option.some.inj h
  subst h'
  have hord : s.order.map (·.1) = sel := by
    rw [hs.order, List.map_map, ← hu]
    rfl
  rw [hord] at hr
  have hst : ∀ x, x ∈ (step A s.st .updateState).store ↔ x ∈ cs := by
    intro x
    show x ∈ (s.st.updateState A).store ↔ _
    rw [w2]
    exact hs.store x
  have hat1 : ∀ c ∈ cs, (step A s.st .updateState).at c.uid = some c :=
    fun c hc => at_of_mem w1.base.nodup ((hst c).2 hc)
  have hr' := resetFold_spec (g := g) cs [] {} r ⟨rfl, List.nodup_nil, (fun p hp => by cases hp), (fun ks => rfl)⟩
    hat1 (by simpa using hna) (by rw [hu]; exact hr)
  rw [List.nil_append] at hr'
  refine ⟨step A s.st .updateState, r, w1, hst, hr', resetFold_table (g := g) cs {} r hat1 (by rw [hu]; exact hr), hord, ?_⟩
  dsimp only


/-- the renamed constituent: same uid and kind, alias through the table, definition through `TranslateRS`
with the table -/
def renCstBy (A : Analysis D I) (m : List (String × String)) (c : Cst D) : Cst D :=
  ⟨c.uid, renOf m c.alias, c.kind, A.rename (lookup m) c.defn⟩

theorem substitute_store (hA : Lawful A) {st : St D I} (h : WF A st) (m : List (String × String)) :
    (step A st (.substitute m)).store = st.store.map (renCstBy A m) := by
  have hb : Base ({ st with invalid := true, store := st.store.map (fun (x : Cst D) =>
      { x with alias := (lookup m x.alias).getD x.alias }) } : St D I) :=
    h.base.of_eq (uids_map_pres (fun (x : Cst D) =>
      { x with alias := (lookup m x.alias).getD x.alias }) (fun x => rfl) st.store) rfl
  have hst : (step A st (.substitute m)).store =
      (st.store.map (fun (x : Cst D) => { x with alias := (lookup m x.alias).getD x.alias })).map
        (renDef A (lookup m)) := by
    unfold step
    simp only
    rw [translateAll_store hA hb rfl]
  rw [hst, List.map_map]
  rfl

/-! ## restriction of a complete analysis to a closed part of the store -/

section restrict
variable {s s' : List (Cst D)}

/-- the analysis of a constituent of the part `s'` in its true context does not look at the skeleton
outside `s'`. (Neither `Lawful` nor `Equivariance` says anything about the skeleton argument: it is
"unrestricted" in `Model/SchemaGen.lean`. The fragment ignores it; the type checker reads it at the
base names of the types of the mentioned constituents, which a closed part contains.) -/
def SkelLocalOn (A : Analysis D I) (s s' : List (Cst D)) : Prop :=
  ∀ c ∈ s', ∀ jf : Nat → I,
    (∀ m ∈ A.mentions c.defn, ∀ v, findAliasL s' m = some v → DepOk A s' v (jf v)) →
    A.analyse (skelOf s) (ctxOf s' jf) c = A.analyse (skelOf s') (ctxOf s' jf) c

structure ClosedPart (A : Analysis D I) (s s' : List (Cst D)) : Prop where
  sub : ∀ c ∈ s', c ∈ s
  nodup : (uids s).Nodup
  /-- every mention of a constituent of the part resolves in the part as it does in the whole -/
  res : ∀ c ∈ s', ∀ m ∈ A.mentions c.defn, findAliasL s' m = findAliasL s m
  skel : SkelLocalOn A s s'

omit [DecidableEq D] in
theorem ClosedPart.mem (h : ClosedPart A s s') {c : Cst D} (hc : c ∈ s) (hu : c.uid ∈ uids s') : c ∈ s' := by
  obtain ⟨d, hd, e⟩ := mem_uids.1 hu
  rw [← eq_of_uid_eq h.nodup (h.sub d hd) hc e]
  exact hd

omit [DecidableEq D] in
theorem ClosedPart.analyse_eq (hA : Lawful A) (h : ClosedPart A s s') {c : Cst D} (hc : c ∈ s') (jf : Nat → I)
    (hd : ∀ m ∈ A.mentions c.defn, ∀ v, findAliasL s' m = some v → DepOk A s' v (jf v)) :
    A.analyse (skelOf s) (ctxOf s jf) c = A.analyse (skelOf s') (ctxOf s' jf) c := by
  rw [← h.skel c hc jf hd]
  apply hA.frame
  intro m hm
  left
  unfold ctxOf
  rw [h.res c hc m hm]

omit [DecidableEq D] in
theorem val_restrict (hA : Lawful A) (h : ClosedPart A s s') {u : Nat} {i : I} (hv : Val A s u i) :
    u ∈ uids s' → Val A s' u i := by
  induction hv with
  | @mk c jf hc hd hok ih =>
    intro hu
    have hc' := h.mem hc hu
    have hd' : ∀ m ∈ A.mentions c.defn, ∀ v, findAliasL s' m = some v → Val A s' v (jf v) :=
      fun m hm v hv => ih m hm v (by rw [← h.res c hc' m hm]; exact hv) (findAliasL_uids hv)
    have e := h.analyse_eq hA hc' jf (fun m hm v hv => Or.inl (hd' m hm v hv))
    rw [e] at hok ⊢
    exact Val.mk jf hc' hd' hok

omit [DecidableEq D] in
theorem val_extend (hA : Lawful A) (h : ClosedPart A s s') {u : Nat} {i : I} (hv : Val A s' u i) : Val A s u i := by
  induction hv with
  | @mk c jf hc hd hok ih =>
    have e := h.analyse_eq hA hc jf (fun m hm v hv => Or.inl (hd m hm v hv))
    rw [← e] at hok ⊢
    exact Val.mk jf (h.sub c hc) (fun m hm v hv => ih m hm v (by rw [h.res c hc m hm]; exact hv)) hok

omit [DecidableEq D] in
theorem final_restrict (hA : Lawful A) (h : ClosedPart A s s') {u : Nat} {i : I} (hf : Final A s u i)
    (hu : u ∈ uids s') : Final A s' u i := by
  obtain ⟨c, hc, hcu, jf, hd, rfl⟩ := hf
  subst hcu
  have hc' := h.mem hc hu
  have hd' : ∀ m ∈ A.mentions c.defn, ∀ v, findAliasL s' m = some v → DepOk A s' v (jf v) := by
    intro m hm v hv
    rcases hd m hm v (by rw [← h.res c hc' m hm]; exact hv) with h1 | ⟨h1, h2⟩
    · exact Or.inl (val_restrict hA h h1 (findAliasL_uids hv))
    · exact Or.inr ⟨h1, fun j' hj' => h2 j' (val_extend hA h hj')⟩
  exact ⟨c, hc', rfl, jf, hd', h.analyse_eq hA hc' jf hd'⟩

end restrict


/-! ## status and typification are preserved up to the renaming -/

/-- closure (proved for both selections in `Properties/C13.lean`): a mention of a selected constituent that
resolves in the source resolves to a selected constituent -/
def Closed (A : Analysis D I) (src : St D I) (cs : List (Cst D)) : Prop :=
  ∀ c ∈ cs, ∀ m ∈ A.mentions c.defn, ∀ v, findAliasL src.store m = some v → v ∈ uids cs

omit [DecidableEq D] in
theorem aliases_nodup_of_sub {s s1 : List (Cst D)} (hd : (s.map (·.alias)).Nodup) (hsub : ∀ c ∈ s1, c ∈ s)
    (hn1 : (uids s1).Nodup) : (s1.map (·.alias)).Nodup := by
  unfold uids at hn1
  rw [List.Nodup, List.pairwise_map] at hn1 ⊢
  exact hn1.imp_of_mem (fun {a b} ha hb hne e => hne (by rw [eq_of_alias_eq hd (hsub a ha) (hsub b hb) e]))

omit [DecidableEq D] in
theorem closedPart_of_closed {src : St D I} (hn : (uids src.store).Nodup) (hd : AliasesDistinct src)
    {cs s1 : List (Cst D)} (hsub : ∀ c ∈ cs, c ∈ src.store) (hs1 : ∀ x, x ∈ s1 ↔ x ∈ cs) (hn1 : (uids s1).Nodup)
    (hcl : Closed A src cs) (hsk : SkelLocalOn A src.store s1) : ClosedPart A src.store s1 := by
  have hsub1 : ∀ c ∈ s1, c ∈ src.store := fun c hc => hsub c ((hs1 c).1 hc)
  have hd1 := aliases_nodup_of_sub hd hsub1 hn1
  refine ⟨hsub1, hn, ?_, hsk⟩
  intro c hc m hm
  cases hf : findAliasL src.store m with
  | none =>
    cases hf1 : findAliasL s1 m with
    | none => rfl
    | some v =>
      obtain ⟨c', hc', _, ha⟩ := findAliasL_mem hf1
      have := RSModelGen.findAliasL_of_distinct hd (hsub1 c' hc')
      rw [ha, hf] at this
      cases this
  | some v =>
    obtain ⟨c', hc', hu, ha⟩ := findAliasL_mem hf
    have hv := hcl c ((hs1 c).1 hc) m hm v hf
    obtain ⟨c'', hc'', hu''⟩ := mem_uids.1 hv
    have e := eq_of_uid_eq hn (hsub c'' hc'') hc' (hu''.trans hu.symm)
    have := RSModelGen.findAliasL_of_distinct hd1 ((hs1 c'').2 hc'')
    rw [e, ha, hu] at this
    exact this

/-- **the entries of the result are the entries of the source, renamed.** `r` is any admissible renaming
that acts like the table of `ResetAliases` on the names that occur in the selection. -/
theorem copyOut_info (hA : Lawful A) (Q : Equivariance A) {src : St D I} (hwf : WF A src) (hok : SourceOk g src)
    {sel : List Nat} (hsel : sel.Nodup) {cs : List (Cst D)} (hcs : selectedCsts src sel = some cs)
    (hbf : BasesFirst cs) {res : Sch D I} (h : copyOut A g src sel = some res)
    (hcl : Closed A src cs) (hsk : ∀ s1, (∀ x, x ∈ s1 ↔ x ∈ cs) → SkelLocalOn A src.store s1)
    (r : Q.Ren) (hg : ∀ c ∈ cs, Q.Good r c)
    (hagree : ∀ n ∈ namesOfG A cs, Q.app r n = renOf (aliasTable g cs) n) :
    ∀ c ∈ cs, res.st.infoFor A c.uid = Q.renI r (src.infoFor A c.uid) := by
  obtain ⟨st1, r0, w1, hst, _, htab, _, hres⟩ := copyOut_spec hA hok hsel hcs hbf h
  obtain ⟨_, hat⟩ := selectedCsts_spec sel cs hcs
  have hsub : ∀ c ∈ cs, c ∈ src.store := fun c hc => (mem_of_at (hat c hc)).1
  have cp := closedPart_of_closed hwf.base.nodup hok.distinct hsub hst w1.base.nodup hcl (hsk st1.store hst)
  rw [htab] at hres
  have hg1 : ∀ x ∈ st1.store, Q.Good r x := fun x hx => hg x ((hst x).1 hx)
  have hstore : res.st.store = st1.store.map (Q.renC r) := by
    rw [hres, substitute_store hA w1]
    apply List.map_congr_left
    intro x hx
    have hx' := (hst x).1 hx
    unfold renCstBy Equivariance.renC
    rw [Q.rename_eq r (lookup (aliasTable g cs)) x (hg1 x hx)
      (fun n hn => (hagree n (mention_mem_namesOfG hx' hn)).symm), hagree _ (alias_mem_namesOfG hx')]
  have wres : WF A res.st := by rw [hres]; exact w1.substitute hA _
  intro c hc
  have hu1 : c.uid ∈ uids st1.store := mem_uids.2 ⟨c, (hst c).2 hc, rfl⟩
  have hus : c.uid ∈ uids src.store := mem_uids.2 ⟨c, hsub c hc, rfl⟩
  have e1 : st1.infoFor A c.uid = src.infoFor A c.uid :=
    (w1.sync c.uid hu1).unique hA w1.base.nodup (final_restrict hA cp (hwf.sync c.uid hus) hu1)
  have h1 := (w1.sync c.uid hu1).ren Q r hg1
  rw [← hstore] at h1
  have hur : c.uid ∈ uids res.st.store := by rw [hstore, Q.uids_ren]; exact hu1
  rw [← e1]
  exact (wres.sync c.uid hur).unique hA wres.base.nodup h1

end CCVerif.ExtractGen
