import CCVerif.Lemmas.Templates
import CCVerif.Spec.Typing
/-!
Base identifiers of the types that the type algebra produces: every operation only rearranges the
identifiers of its operands (plus `Z` and the any-type `R0`). Used to show that no typification
computed from a well-formed context mentions a mangled template parameter `Rn‹function name›`
(the hypothesis under which `CompareTemplated` agrees with the reference, Lemmas/Templates.lean).
-/
namespace CCVerif.Types
open CCVerif.Spec

/-- all base identifiers of the type satisfy `Q` -/
def IdsIn (Q : String → Prop) (t : Ty) : Prop := ∀ id ∈ basesT t, Q id
def IdsInL (Q : String → Prop) (ts : List Ty) : Prop := ∀ id ∈ basesL ts, Q id

theorem idsIn_base {Q : String → Prop} {a : String} : IdsIn Q (.base a) ↔ Q a := by simp [IdsIn, basesT]
theorem idsIn_coll {Q : String → Prop} {b : Ty} : IdsIn Q (.coll b) ↔ IdsIn Q b := by simp [IdsIn, basesT]
theorem idsIn_tuple {Q : String → Prop} {cs : List Ty} : IdsIn Q (.tuple cs) ↔ IdsInL Q cs := by
  simp [IdsIn, IdsInL, basesT]
theorem idsInL_nil {Q : String → Prop} : IdsInL Q [] := by simp [IdsInL, basesL]
theorem idsInL_cons {Q : String → Prop} {c : Ty} {cs : List Ty} : IdsInL Q (c :: cs) ↔ IdsIn Q c ∧ IdsInL Q cs := by
  simp only [IdsInL, IdsIn, basesL, List.mem_append]
  constructor
  · intro h; exact ⟨fun id hi => h id (Or.inl hi), fun id hi => h id (Or.inr hi)⟩
  · rintro ⟨h1, h2⟩ id (hi | hi)
    · exact h1 id hi
    · exact h2 id hi

theorem idsInL_mem {Q : String → Prop} : ∀ {cs : List Ty} {c : Ty}, IdsInL Q cs → c ∈ cs → IdsIn Q c
  | [], _, _, h => by simp at h
  | x :: xs, c, h, hm => by
    rw [idsInL_cons] at h
    simp only [List.mem_cons] at hm
    rcases hm with rfl | hm
    · exact h.1
    · exact idsInL_mem h.2 hm

theorem idsInL_of_mem {Q : String → Prop} : ∀ {cs : List Ty}, (∀ c ∈ cs, IdsIn Q c) → IdsInL Q cs
  | [], _ => idsInL_nil
  | x :: xs, h => idsInL_cons.mpr ⟨h x (by simp), idsInL_of_mem (fun c hc => h c (by simp [hc]))⟩

theorem idsIn_tupleOf {Q : String → Prop} {cs : List Ty} (h : IdsInL Q cs) : IdsIn Q (Ty.tupleOf cs) := by
  cases cs with
  | nil => simpa [Ty.tupleOf, idsIn_tuple] using h
  | cons c rest =>
    cases rest with
    | nil => simp only [Ty.tupleOf]; exact (idsInL_cons.mp h).1
    | cons c2 r2 => simp only [Ty.tupleOf]; exact idsIn_tuple.mpr h

theorem idsIn_commonType {Q : String → Prop} {te : TraitEnv} {a b c : Ty} (h : commonType te a b = some c)
    (ha : IdsIn Q a) (hb : IdsIn Q b) : IdsIn Q c := by
  unfold commonType at h
  split at h
  · split at h
    · cases h; exact hb
    · cases h
  · split at h
    · split at h
      · cases h; exact ha
      · cases h
    · cases h

mutual
theorem idsIn_merge {Q : String → Prop} (te : TraitEnv) : ∀ (a b c : Ty), merge te a b = some c →
    IdsIn Q a → IdsIn Q b → IdsIn Q c
  | .base a, .base b, c, h, ha, hb => by
    simp only [merge] at h
    split at h
    · cases h; exact ha
    · split at h
      · cases h; exact hb
      · split at h
        · cases h; exact ha
        · exact idsIn_commonType h ha hb
  | .base a, .coll b, c, h, _, hb => by
    simp only [merge] at h; split at h
    · cases h; exact hb
    · cases h
  | .base a, .tuple bs, c, h, _, hb => by
    simp only [merge] at h; split at h
    · cases h; exact hb
    · cases h
  | .coll a, .base b, c, h, ha, _ => by
    simp only [merge] at h; split at h
    · cases h; exact ha
    · cases h
  | .tuple as, .base b, c, h, ha, _ => by
    simp only [merge] at h; split at h
    · cases h; exact ha
    · cases h
  | .coll a, .coll b, c, h, ha, hb => by
    simp only [merge] at h
    cases hm : merge te a b with
    | none => rw [hm] at h; cases h
    | some m =>
      rw [hm] at h; cases h
      exact idsIn_coll.mpr (idsIn_merge te a b m hm (idsIn_coll.mp ha) (idsIn_coll.mp hb))
  | .tuple as, .tuple bs, c, h, ha, hb => by
    simp only [merge] at h
    split at h
    · cases h; exact ha
    · cases hm : mergeList te as bs with
      | none => rw [hm] at h; cases h
      | some ms =>
        rw [hm] at h; cases h
        exact idsIn_tupleOf (idsIn_mergeList te as bs ms hm (idsIn_tuple.mp ha) (idsIn_tuple.mp hb))
  | .coll _, .tuple _, c, h, _, _ => by simp [merge] at h
  | .tuple _, .coll _, c, h, _, _ => by simp [merge] at h
theorem idsIn_mergeList {Q : String → Prop} (te : TraitEnv) : ∀ (as bs cs : List Ty), mergeList te as bs = some cs →
    IdsInL Q as → IdsInL Q bs → IdsInL Q cs
  | [], [], cs, h, _, _ => by simp [mergeList] at h; subst h; exact idsInL_nil
  | [], _ :: _, cs, h, _, _ => by simp [mergeList] at h
  | _ :: _, [], cs, h, _, _ => by simp [mergeList] at h
  | a :: as, b :: bs, cs, h, ha, hb => by
    simp only [mergeList] at h
    cases hm : merge te a b with
    | none => rw [hm] at h; cases h
    | some m =>
      rw [hm] at h
      cases hl : mergeList te as bs with
      | none => rw [hl] at h; cases h
      | some ms =>
        rw [hl] at h; cases h
        exact idsInL_cons.mpr ⟨idsIn_merge te a b m hm (idsInL_cons.mp ha).1 (idsInL_cons.mp hb).1,
          idsIn_mergeList te as bs ms hl (idsInL_cons.mp ha).2 (idsInL_cons.mp hb).2⟩
end

theorem idsIn_mergeAll {Q : String → Prop} (te : TraitEnv) : ∀ (ts : List Ty) (t m : Ty), mergeAll te t ts = some m →
    IdsIn Q t → IdsInL Q ts → IdsIn Q m
  | [], t, m, h, ht, _ => by simp [mergeAll] at h; subst h; exact ht
  | x :: xs, t, m, h, ht, hts => by
    simp only [mergeAll] at h
    cases hm : merge te t x with
    | none => rw [hm] at h; cases h
    | some m1 =>
      rw [hm] at h
      exact idsIn_mergeAll te xs m1 m h (idsIn_merge te t x m1 hm ht (idsInL_cons.mp hts).1) (idsInL_cons.mp hts).2

theorem idsIn_pick {Q : String → Prop} {cs : List Ty} (hcs : IdsInL Q cs) : ∀ (idx : List Int) (comps : List Ty),
    pick cs idx = some comps → IdsInL Q comps
  | [], comps, h => by simp [pick] at h; subst h; exact idsInL_nil
  | i :: is, comps, h => by
    unfold pick at h
    split at h
    · cases hc : cs[(i - 1).toNat]? with
      | none => rw [hc] at h; simp at h
      | some c =>
        rw [hc] at h
        cases hp : pick cs is with
        | none => rw [hp] at h; simp at h
        | some r =>
          rw [hp] at h; simp only [Option.some.injEq] at h; subst h
          exact idsInL_cons.mpr ⟨idsInL_mem hcs (List.mem_of_getElem? hc), idsIn_pick hcs is r hp⟩
    · cases h

/-! ## constraints and their solution -/

theorem lookup_mem {α : Type} : ∀ {l : List (String × α)} {k : String} {v : α}, lookup l k = some v →
    ∃ k', (k', v) ∈ l
  | [], _, _, h => by simp [lookup] at h
  | (k', v') :: rest, k, v, h => by
    simp only [lookup] at h
    split at h
    · cases h; exact ⟨k', by simp⟩
    · obtain ⟨k'', hm⟩ := lookup_mem h
      exact ⟨k'', by simp [hm]⟩

mutual
theorem idsIn_matchArg {Q : String → Prop} (te : TraitEnv) : ∀ (P : Ty) (n : Nat) (v : Ty) (cs : List (String × Ty)),
    matchArg te n P v = some cs → IdsIn Q v → ∀ p ∈ cs, IdsIn Q p.2
  | _, 0, _, _, h, _ => by simp [matchArg] at h
  | .base a, n+1, v, cs, h, hv => by
    simp only [matchArg] at h
    split at h
    · cases h; intro p hp; simp at hp; subst hp; exact hv
    · split at h
      · cases h; intro p hp; simp at hp
      · split at h
        · split at h
          · cases h; intro p hp; simp at hp
          · cases h
        · cases h
  | .coll pb, n+1, v, cs, h, hv => by
    simp only [matchArg] at h
    split at h
    · cases h; intro p hp; simp at hp
    · split at h
      · exact idsIn_matchArg te pb n _ cs h (idsIn_coll.mp hv)
      · cases h
  | .tuple ps, n+1, v, cs, h, hv => by
    simp only [matchArg] at h
    split at h
    · cases h; intro p hp; simp at hp
    · split at h
      · split at h
        · cases h
        · exact idsIn_matchArgGo te ps n _ cs h (idsIn_tuple.mp hv)
      · cases h
theorem idsIn_matchArgGo {Q : String → Prop} (te : TraitEnv) : ∀ (Ps : List Ty) (n : Nat) (vs : List Ty)
    (cs : List (String × Ty)), matchArg.go te n Ps vs = some cs → IdsInL Q vs → ∀ p ∈ cs, IdsIn Q p.2
  | [], n, vs, cs, h, _ => by simp [matchArg.go] at h; subst h; intro p hp; simp at hp
  | P :: Ps, n, [], cs, h, _ => by simp [matchArg.go] at h; subst h; intro p hp; simp at hp
  | P :: Ps, n, v :: vs, cs, h, hv => by
    simp only [matchArg.go] at h
    cases h1 : matchArg te n P v with
    | none => rw [h1] at h; simp at h
    | some l1 =>
      cases h2 : matchArg.go te n Ps vs with
      | none => rw [h1, h2] at h; simp at h
      | some l2 =>
        rw [h1, h2] at h; simp only [Option.some.injEq] at h; subst h
        intro p hp
        rcases List.mem_append.mp hp with hp | hp
        · exact idsIn_matchArg te P n v l1 h1 (idsInL_cons.mp hv).1 p hp
        · exact idsIn_matchArgGo te Ps n vs l2 h2 (idsInL_cons.mp hv).2 p hp
end

theorem idsIn_solve {Q : String → Prop} (te : TraitEnv) : ∀ (cs σ σ' : List (String × Ty)), solve te cs σ = some σ' →
    (∀ p ∈ cs, IdsIn Q p.2) → (∀ p ∈ σ, IdsIn Q p.2) → ∀ p ∈ σ', IdsIn Q p.2
  | [], σ, σ', h, _, hσ => by simp [solve] at h; subst h; exact hσ
  | (r, t) :: rest, σ, σ', h, hcs, hσ => by
    simp only [solve] at h
    have ht : IdsIn Q t := hcs (r, t) (by simp)
    have hrest : ∀ p ∈ rest, IdsIn Q p.2 := fun p hp => hcs p (by simp [hp])
    cases hl : lookup σ r with
    | none =>
      rw [hl] at h
      refine idsIn_solve te rest _ σ' h hrest (fun p hp => ?_)
      rcases List.mem_append.mp hp with hp | hp
      · exact hσ p hp
      · simp at hp; subst hp; exact ht
    | some old =>
      rw [hl] at h
      simp only [] at h
      cases hm : merge te old t with
      | none => rw [hm] at h; cases h
      | some m =>
        rw [hm] at h
        obtain ⟨k', hmem⟩ := lookup_mem hl
        have hold : IdsIn Q old := hσ (k', old) hmem
        have hmq : IdsIn Q m := idsIn_merge te old t m hm hold ht
        refine idsIn_solve te rest _ σ' h hrest (fun p hp => ?_)
        obtain ⟨q, hq, rfl⟩ := List.mem_map.mp hp
        split
        · exact hmq
        · exact hσ q hq

theorem idsIn_foldSpec {Q : String → Prop} (te : TraitEnv) : ∀ (pairs : List ((String × Ty) × Ty))
    (acc cons : List (String × Ty)), pairs.foldl (specStep te) (some acc) = some cons →
    (∀ p ∈ acc, IdsIn Q p.2) → (∀ pr ∈ pairs, IdsIn Q pr.2) → ∀ p ∈ cons, IdsIn Q p.2
  | [], acc, cons, h, hacc, _ => by simp at h; subst h; exact hacc
  | pr :: rest, acc, cons, h, hacc, hp => by
    simp only [List.foldl_cons] at h
    cases hm : matchArg te (depthTy pr.1.2 + 1) pr.1.2 pr.2 with
    | none =>
      have : specStep te (some acc) pr = none := by simp [specStep, hm]
      rw [this, foldl_specStep_none] at h; cases h
    | some l' =>
      rw [specStep_some te acc pr l' hm] at h
      refine idsIn_foldSpec te rest (acc ++ l') cons h (fun p hpm => ?_) (fun q hq => hp q (by simp [hq]))
      rcases List.mem_append.mp hpm with hpm | hpm
      · exact hacc p hpm
      · exact idsIn_matchArg te pr.1.2 _ pr.2 l' hm (hp pr (by simp)) p hpm

mutual
theorem idsIn_instantiate {Q : String → Prop} {f : String} {σ : List (String × Ty)} (hσ : ∀ p ∈ σ, IdsIn Q p.2)
    (hR0 : Q "R0") : ∀ (t : Ty) (n : Nat), depthTy t < n → (∀ id ∈ basesT t, isRadical id = false → Q id) →
    IdsIn Q (instantiate f σ n t)
  | _, 0, hd, _ => by simp at hd
  | .base a, n+1, _, ht => by
    simp only [instantiate]
    split
    · cases hl : lookup σ a with
      | some u => obtain ⟨k', hm⟩ := lookup_mem hl; exact hσ (k', u) hm
      | none => exact idsIn_base.mpr hR0
    · rename_i hr
      exact idsIn_base.mpr (ht a (by simp [basesT]) (by simpa using hr))
  | .coll b, n+1, hd, ht => by
    have hd' : depthTy b < n := by simp [depthTy] at hd; omega
    simp only [instantiate]
    exact idsIn_coll.mpr (idsIn_instantiate hσ hR0 b n hd' (by simpa [basesT] using ht))
  | .tuple cs, n+1, hd, ht => by
    have hd' : depthTy.go cs < n := by simp [depthTy] at hd; omega
    simp only [instantiate]
    exact idsIn_tuple.mpr (idsIn_instantiateL hσ hR0 cs n hd' (by simpa [basesT] using ht))
theorem idsIn_instantiateL {Q : String → Prop} {f : String} {σ : List (String × Ty)} (hσ : ∀ p ∈ σ, IdsIn Q p.2)
    (hR0 : Q "R0") : ∀ (ts : List Ty) (n : Nat), depthTy.go ts < n → (∀ id ∈ basesL ts, isRadical id = false → Q id) →
    IdsInL Q (ts.map (instantiate f σ n))
  | [], _, _, _ => idsInL_nil
  | c :: cs, n, hd, ht => by
    have hd' : depthTy c < n ∧ depthTy.go cs < n := by simp [depthTy.go] at hd; omega
    simp only [List.map_cons]
    exact idsInL_cons.mpr ⟨idsIn_instantiate hσ hR0 c n hd'.1 (fun id hi => ht id (by simp [basesL, hi])),
      idsIn_instantiateL hσ hR0 cs n hd'.2 (fun id hi => ht id (by simp [basesL, hi]))⟩
end

/-! ## identifiers that are not mangled template parameters -/

theorem isRadical_toList {r : String} (h : isRadical r = true) :
    ∃ c rest, r.toList = 'R' :: c :: rest ∧ c ≠ '0' := by
  unfold isRadical at h
  split at h
  · rename_i c rest heq
    exact ⟨c, rest, heq, by simpa using h⟩
  · cases h

/-- the identifier is not a template parameter mangled with the name of a function of the context -/
def CleanId (Γ : Ctx) (id : String) : Prop :=
  ∀ f, (lookup Γ.funcs f).isSome = true → ∀ r, isRadical r = true → id ≠ r ++ f

def CleanTy (Γ : Ctx) (t : Ty) : Prop := IdsIn (CleanId Γ) t

def CleanE (Γ : Ctx) : ExprTy → Prop
  | .logic => True
  | .ty t => CleanTy Γ t

def CleanEnv (Γ : Ctx) (Δ : Env) : Prop := ∀ x t, Δ.get? x = some t → CleanTy Γ t

/-- what the soundness of template instantiation needs from the context: declared typifications
mention no mangled template parameter (the mangled names `Rn‹F›` exist only inside one call of
`CheckFuncArguments`), and every template parameter of a function's result occurs in the declared
type of some argument -/
structure CtxOk (Γ : Ctx) : Prop where
  globals : ∀ x t, lookup Γ.types x = some (.ty t) → lookup Γ.funcs x = none → CleanTy Γ t
  results : ∀ f t decl, lookup Γ.types f = some (.ty t) → lookup Γ.funcs f = some decl →
    (∀ id ∈ basesT t, isRadical id = false → CleanId Γ id) ∧ (∀ r ∈ radsT t, ∃ d ∈ decl, r ∈ radsT d.2)

theorem cleanId_of_head {Γ : Ctx} {id : String} (h : id.toList.head? ≠ some 'R') : CleanId Γ id := by
  intro f _ r hr e
  obtain ⟨c, rest, hl, _⟩ := isRadical_toList hr
  apply h
  rw [e, String.toList_append, hl]; rfl

theorem cleanId_Z (Γ : Ctx) : CleanId Γ "Z" := cleanId_of_head (by decide)

theorem cleanId_R0 (Γ : Ctx) : CleanId Γ "R0" := by
  intro f _ r hr e
  obtain ⟨c, rest, hl, hc⟩ := isRadical_toList hr
  have := congrArg String.toList e
  rw [String.toList_append, hl] at this
  have h2 : "R0".toList = ['R', '0'] := by decide
  rw [h2] at this
  simp only [List.cons_append, List.cons.injEq, true_and] at this
  exact hc this.1.symm

theorem cleanTy_Z (Γ : Ctx) : CleanTy Γ Ty.Z := idsIn_base.mpr (cleanId_Z Γ)
theorem cleanTy_R0 (Γ : Ctx) : CleanTy Γ Ty.R0 := idsIn_base.mpr (cleanId_R0 Γ)
theorem cleanTy_emptySet (Γ : Ctx) : CleanTy Γ Ty.emptySet := idsIn_coll.mpr (cleanTy_R0 Γ)

theorem cleanTy_noMangled {Γ : Ctx} {t : Ty} {f : String} (h : CleanTy Γ t) (hf : (lookup Γ.funcs f).isSome = true) :
    NoMangled f t := fun id hid r hr => h id hid f hf r hr

theorem cleanEnv_empty (Γ : Ctx) : CleanEnv Γ {} := by
  intro x t h; simp [Env.get?] at h

/-! ## establishing `CtxOk` for a concrete context -/

theorem lookup_mem_key {α : Type} : ∀ {l : List (String × α)} {k : String} {v : α}, lookup l k = some v → (k, v) ∈ l
  | [], _, _, h => by simp [lookup] at h
  | (k', v') :: rest, k, v, h => by
    simp only [lookup] at h
    by_cases hk : (k' == k) = true
    · simp only [hk, if_true, Option.some.injEq] at h
      have : k' = k := by simpa using hk
      subst this; subst h; simp
    · simp only [hk, Bool.false_eq_true, if_false] at h
      exact List.mem_cons_of_mem _ (lookup_mem_key h)

theorem cleanTy_of_heads {Γ : Ctx} {t : Ty} (h : ∀ id ∈ basesT t, id.toList.head? ≠ some 'R') : CleanTy Γ t :=
  fun id hid => cleanId_of_head (h id hid)

/-- a decidable sufficient condition: every declared type of a global that is not a function only
mentions identifiers that do not start with `R`; for a function, the identifiers of the result type
that are not template parameters do not start with `R`, and its template parameters occur in the
declared argument types -/
def ctxOkB (Γ : Ctx) : Bool :=
  Γ.types.all fun p =>
    match p.2 with
    | .logic => true
    | .ty t =>
      match lookup Γ.funcs p.1 with
      | none => (basesT t).all fun id => id.toList.head? != some 'R'
      | some decl =>
        ((basesT t).all fun id => isRadical id || id.toList.head? != some 'R') &&
        ((radsT t).all fun r => decl.any fun d => (radsT d.2).contains r)

theorem ctxOk_of_ctxOkB {Γ : Ctx} (h : ctxOkB Γ = true) : CtxOk Γ := by
  unfold ctxOkB at h
  rw [List.all_eq_true] at h
  constructor
  · intro x t hx hf
    have := h (x, .ty t) (lookup_mem_key hx)
    simp only [hf, List.all_eq_true, bne_iff_ne, ne_eq] at this
    exact cleanTy_of_heads (fun id hid => this id hid)
  · intro f t decl hx hf
    have := h (f, .ty t) (lookup_mem_key hx)
    simp only [hf, Bool.and_eq_true, List.all_eq_true, Bool.or_eq_true, bne_iff_ne, ne_eq, List.any_eq_true,
      List.contains_iff_mem] at this
    refine ⟨fun id hid hr => ?_, fun r hr => ?_⟩
    · rcases this.1 id hid with h1 | h1
      · rw [hr] at h1; cases h1
      · exact cleanId_of_head h1
    · obtain ⟨d, hd, hrd⟩ := this.2 r hr
      exact ⟨d, hd, by simpa using hrd⟩

end CCVerif.Types
