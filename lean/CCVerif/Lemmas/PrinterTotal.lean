import CCVerif.Lemmas.PrinterShape
import CCVerif.Model.Printer
set_option linter.unusedVariables false
set_option linter.unusedSectionVars false
/-!
Helper lemmas of C04 — `GeneratorImplAST` (Model/Printer.lean) reaches no unchecked access on a tree the parser returns.

1. the entry points of the parser (`logic_or_setexpr`, `function_definition`, `global_declaration`, `parseToks`, `parse`)
   only return `PrinterShape.Printable` trees (continuation of `Lemmas/PrinterShape.lean`); the payloads of lexed tokens;
2. the printer is never stuck on a `Printable` tree, for both syntaxes (`print_total`);
3. `print_total_on_parsed`: hence on every tree `parse` returns, for every text of both syntaxes — no hypothesis at all.
   The checker's shape `Checker.WfParsed` is NOT enough: `print_stuck_on_WfParsed_counterexample`.
-/
namespace CCVerif.PrinterShape
open CCVerif.Syntax CCVerif.Generated CCVerif.Lexer CCVerif.Parser CCVerif.ParserShape

/-! ## the entry points of the parser -/

theorem nest_logicOrSet (f : Nat) (toks : Toks) (e : Ast) (r : Toks) (ht : AllP toks)
    (h : logicOrSet f toks = some (e, r)) : RawP e ∧ AllP r := by
  have ih := parserP f
  unfold logicOrSet at h; parser_cases h
  all_goals try (cases h; done)
  all_goals cases h
  all_goals pshape_close

/-- `FunctionDeclaration` -/
theorem raw_funcdef {d : Ast} {ds : List Ast} {e : Ast} {lo hi la ha : Int} (hd : AllRawP (d :: ds)) (he : RawP e) :
    RawP (.node .NT_FUNC_DEFINITION .none lo hi [.node .NT_ARGUMENTS .none la ha (d :: ds), e]) :=
  rawP_node (by decide) rfl rfl (allRawP_two (rawP_node (by decide) (by simp [arityOK]) rfl hd) he)

theorem nest_noDeclaration (f : Nat) (toks : Toks) (e : Ast) (r : Toks) (ht : AllP toks)
    (h : noDeclaration f toks = some (e, r)) : RawP e ∧ AllP r := by
  have ih := parserP f
  have i0 := nest_logicOrSet f
  unfold noDeclaration at h; parser_cases h
  all_goals try (cases h; done)
  all_goals try (injection h with h; injection h with h1 h2; subst h1 h2)
  all_goals try tok_eqs
  all_goals grind (gen := 20) (ematch := 20) [allP_cons, allP_nil, allRawP_nil, raw_funcdef, spanOf]

theorem global_ar {id : Tok} (h : id = .PUNC_DEFINE ∨ id = .PUNC_STRUCT) (n : Nat) :
    arityOK id (n + 1) = true ∧ id ≠ .PUNC_PL := by
  rcases h with h | h <;> rw [h] <;> exact ⟨by simp [arityOK], by decide⟩

/-- `FinalizeCstEmpty` -/
theorem raw_define1 {g m : LTok} {lo hi : Int} (hg : TokP g) (hm' : TokP m)
    (hid : g.id = .ID_GLOBAL ∨ g.id = .ID_FUNCTION ∨ g.id = .ID_PREDICATE) (hm : m.id = .PUNC_DEFINE ∨ m.id = .PUNC_STRUCT) :
    RawP (.node m.id m.data lo hi [leaf g]) :=
  rawP_node (global_ar hm 0).2 (global_ar hm 0).1 hm'
    (by intro k hk; simp at hk; subst hk; exact raw_leaf hg (by rcases hid with h | h | h <;> simp [h]))

/-- `FinalizeCstExpression` -/
theorem raw_define2 {g m : LTok} {e : Ast} {lo hi : Int} (hg : TokP g) (hm' : TokP m)
    (hid : g.id = .ID_GLOBAL ∨ g.id = .ID_FUNCTION ∨ g.id = .ID_PREDICATE) (hm : m.id = .PUNC_DEFINE ∨ m.id = .PUNC_STRUCT)
    (he : RawP e) : RawP (.node m.id m.data lo hi [leaf g, e]) :=
  rawP_node (global_ar hm 1).2 (global_ar hm 1).1 hm'
    (allRawP_two (raw_leaf hg (by rcases hid with h | h | h <;> simp [h])) he)

theorem nest_expression (f : Nat) (toks : Toks) (e : Ast) (ht : AllP toks)
    (h : expression f toks = some e) : RawP e := by
  have i0 := nest_noDeclaration f
  unfold expression at h; parser_cases h
  all_goals try (cases h; done)
  all_goals try (injection h with h; subst h)
  all_goals try tok_eqs
  all_goals grind (gen := 20) (ematch := 20) [allP_cons, allP_nil, raw_define1, raw_define2]

/-- **every tree `parseToks` returns is `Printable`**, whenever the tokens the parser sees carry the payload of their kind -/
theorem parseToks_printable (ts : Toks) (t : Ast)
    (ht : AllP (ts.takeWhile (fun t => t.id != .END && t.id != .INTERRUPT))) (h : parseToks ts = some t) :
    Printable t := by
  unfold parseToks at h
  simp only [] at h
  split at h
  · cases h
  · split at h
    · rename_i raw hraw
      split at h
      · obtain ⟨t', st, wt⟩ := nest_expression _ _ raw ht hraw
        rw [h] at st; cases st
        exact wt
      · cases h
    · cases h

/-! ## payloads of lexed tokens -/

/-- a lexed token carries the payload of its kind (`LexerBase::ParseData`) -/
theorem toTok_tokP (r : RawTok) : TokP r.toTok := by
  unfold TokP
  simp only [RawTok.toTok]
  have hne := fromIndexSequence_ne_nil (r.text.drop 2)
  cases r.id <;> simp only [parseData, dataOK]
  all_goals
    cases hf : fromIndexSequence (List.drop 2 r.text) with
    | nil => exact absurd hf hne
    | cons a l => rfl

theorem lex_allP (syn : Syn) (text : List Nat) (ts : Toks) (h : lex syn text = some ts) : AllP ts := by
  unfold lex at h
  cases hr : lexRaw syn text with
  | none => rw [hr] at h; cases h
  | some rs =>
    rw [hr] at h; simp at h; subst h
    intro t ht
    obtain ⟨r, hrm, rfl⟩ := List.mem_map.1 ht
    exact toTok_tokP r

/-- **every tree `parse` returns is `Printable`**: every text, both syntaxes, no hypothesis -/
theorem parse_printable (syn : Syn) (text : List Nat) (t : Ast) (h : parse syn text = some t) : Printable t := by
  unfold parse at h
  cases hl : lex syn text with
  | none => rw [hl] at h; cases h
  | some ts =>
    rw [hl] at h
    exact parseToks_printable ts t (allP_takeWhile _ (lex_allP syn text ts hl)) h

end CCVerif.PrinterShape

namespace CCVerif.Printer
open CCVerif.Syntax CCVerif.Generated CCVerif.PrinterShape

/-! ## the printer on `Printable` trees -/

theorem tokToString_some (syn : Syn) (id : Tok) (d : TokData) (h : dataOK id d = true) :
    ∃ s, tokToString syn id d = some s := by
  cases id <;> cases d <;> first | exact ⟨_, rfl⟩ | (cases h; done) | skip
  all_goals (rename_i l; cases l <;> first | exact ⟨_, rfl⟩ | (cases h; done))

theorem sequence_map_some : ∀ (xs : List (List Nat)), sequence (xs.map some) = some xs
  | [] => rfl
  | x :: xs => by simp [sequence, sequence_map_some xs]

theorem sequence_drop (xs : List (List Nat)) (k : Nat) : sequence ((xs.map some).drop k) = some (xs.drop k) := by
  rw [← List.map_drop]; exact sequence_map_some _

theorem sequence_take (xs : List (List Nat)) (k : Nat) : sequence ((xs.map some).take k) = some (xs.take k) := by
  rw [← List.map_take]; exact sequence_map_some _

theorem sequence_some_of_all : ∀ (l : List (Option (List Nat))), (∀ o, o ∈ l → ∃ s, o = some s) → ∃ r, sequence l = some r
  | [], _ => ⟨[], rfl⟩
  | o :: l, h => by
    obtain ⟨s, rfl⟩ := h o (by simp)
    obtain ⟨r, hr⟩ := sequence_some_of_all l (fun o' ho => h o' (by simp [ho]))
    exact ⟨s :: r, by simp [sequence, hr]⟩

theorem kidAt_some (xs : List (List Nat)) (i : Nat) (b : Bool) (h : i < xs.length) :
    ∃ s, kidAt (xs.map some) i b = some s := by
  unfold kidAt
  simp [h]

theorem idAt_some (ids : List Tok) (i : Nat) (h : i < ids.length) : ∃ t, idAt ids i = some t := by
  unfold idAt
  exact ⟨ids[i], List.getElem?_eq_getElem h⟩


theorem lists1 {ids : List Tok} {xs : List (List Nat)} (hlen : ids.length = xs.length) (h : ids.length = 1) :
    ∃ i x, ids = [i] ∧ xs = [x] := by
  match ids, xs, hlen, h with
  | [i], [x], _, _ => exact ⟨i, x, rfl, rfl⟩
theorem lists2 {ids : List Tok} {xs : List (List Nat)} (hlen : ids.length = xs.length) (h : ids.length = 2) :
    ∃ i j x y, ids = [i, j] ∧ xs = [x, y] := by
  match ids, xs, hlen, h with
  | [i, j], [x, y], _, _ => exact ⟨i, j, x, y, rfl, rfl⟩
theorem lists3 {ids : List Tok} {xs : List (List Nat)} (hlen : ids.length = xs.length) (h : ids.length = 3) :
    ∃ i j k x y z, ids = [i, j, k] ∧ xs = [x, y, z] := by
  match ids, xs, hlen, h with
  | [i, j, k], [x, y, z], _, _ => exact ⟨i, j, k, x, y, z, rfl, rfl⟩
theorem lists4 {ids : List Tok} {xs : List (List Nat)} (hlen : ids.length = xs.length) (h : ids.length = 4) :
    ∃ i j k l x y z w, ids = [i, j, k, l] ∧ xs = [x, y, z, w] := by
  match ids, xs, hlen, h with
  | [i, j, k, l], [x, y, z, w], _, _ => exact ⟨i, j, k, l, x, y, z, w, rfl, rfl⟩

theorem bind_sequence_some {l : List (Option (List Nat))} {f : List (List Nat) → List Nat}
    (h : ∀ o, o ∈ l → ∃ s, o = some s) : ∃ out, (do let ks ← sequence l; some (f ks)) = some out := by
  obtain ⟨r, hr⟩ := sequence_some_of_all l h
  exact ⟨f r, by rw [hr]; rfl⟩

/-- one visitor call never reaches an unchecked access when the node has the arity and payload of its kind and the
children were printed -/
theorem assemble_some (syn : Syn) (id : Tok) (d : TokData) (ids : List Tok) (xs : List (List Nat))
    (hlen : ids.length = xs.length) (har : arityOK id ids.length = true) (hd : dataOK id d = true) :
    ∃ out, assemble syn id d ids (xs.map some) = some out := by
  obtain ⟨me, hme⟩ := tokToString_some syn id d hd
  cases id <;> simp only [arityOK, beq_iff_eq, decide_eq_true_eq] at har <;> simp only [assemble]
  all_goals first
    | (guard_hyp har : ids.length = 0; simp [har, hme]; done)
    | (guard_hyp har : ids.length = 1; obtain ⟨i, x, rfl, rfl⟩ := lists1 hlen har; simp [kidAt, idAt, hme]; done)
    | (guard_hyp har : ids.length = 2; obtain ⟨i, j, x, y, rfl, rfl⟩ := lists2 hlen har; simp [kidAt, idAt, hme]; done)
    | (guard_hyp har : ids.length = 3; obtain ⟨i, j, k, x, y, z, rfl, rfl⟩ := lists3 hlen har; simp [kidAt, idAt, hme]; done)
    | (guard_hyp har : ids.length = 4; obtain ⟨i, j, k, l, x, y, z, w, rfl, rfl⟩ := lists4 hlen har; simp [kidAt]; done)
    | (guard_hyp har : 1 < ids.length; simp [har, sequence_map_some]; done)
    | (guard_hyp har : 1 < ids.length; obtain ⟨a, ha⟩ := kidAt_some xs 0 false (by omega); rw [if_pos har, ha, sequence_drop]; exact ⟨_, rfl⟩)
    | (guard_hyp har : 0 < ids.length; simp [har, sequence_map_some]; done)
    | (simp [sequence_map_some]; done)
    | (guard_hyp har : 1 < ids.length
       rw [if_pos har]
       refine bind_sequence_some (fun o ho => ?_)
       obtain ⟨i, hi, rfl⟩ := List.mem_map.1 ho
       have hi' : i < ids.length := List.mem_range.1 hi
       rw [List.getElem?_eq_getElem hi']
       exact kidAt_some xs i _ (by omega))
    | (guard_hyp har : 1 < ids.length
       obtain ⟨a, ha⟩ := kidAt_some xs (ids.length - 1) false (by omega)
       simp [har, ha, hme, sequence_take]; done)
    | (guard_hyp har : 0 < ids.length
       obtain ⟨a, ha⟩ := kidAt_some xs 0 false (by omega)
       by_cases h1 : 1 < ids.length
       · obtain ⟨b, hb⟩ := kidAt_some xs 1 false (by omega)
         simp [ha, hb, hme, h1, Nat.ne_of_gt har]; done
       · simp [ha, hme, h1, Nat.ne_of_gt har]; done)

theorem kidIds_length : ∀ ks : List Ast, (kidIds ks).length = ks.length
  | [] => by simp [kidIds]
  | .node _ _ _ _ _ :: ks => by simp [kidIds, kidIds_length ks]

theorem printKids_some (syn : Syn) : ∀ ks : List Ast, (∀ k, k ∈ ks → ∃ s, print syn k = some s) →
    ∃ xs : List (List Nat), printKids syn ks = xs.map some ∧ xs.length = ks.length
  | [], _ => ⟨[], by simp [printKids], rfl⟩
  | k :: ks, h => by
    obtain ⟨s, hs⟩ := h k (by simp)
    obtain ⟨xs, hx, hl⟩ := printKids_some syn ks (fun k' hk => h k' (by simp [hk]))
    exact ⟨s :: xs, by simp [printKids, hs, hx], by simp [hl]⟩

/-- **print_total**: `GeneratorImplAST::FromTree` reaches no unchecked access (`std::get` of the wrong payload, `*begin()`
of an empty index vector, `children.at(i)` past the end, a failing `assert(ChildrenCount() …)`) on a tree whose nodes
have the arity and the payload of their kind — both syntaxes -/
theorem print_total (syn : Syn) (t : Ast) (h : Printable t) : ∃ out, print syn t = some out := by
  induction h with
  | mk har hd hk ih =>
    rename_i id d lo hi kids
    obtain ⟨xs, hx, hl⟩ := printKids_some syn kids ih
    rw [print, hx]
    exact assemble_some syn id d (kidIds kids) xs (by rw [kidIds_length, hl]) (by rw [kidIds_length]; exact har) hd

/-- **print_total_on_parsed**: the printer model is never stuck on a tree the parser model returns — every text, parsed in
either syntax, printed in either syntax. No hypothesis (the parser's shape lemma for the printer needs no context). -/
theorem print_total_on_parsed (src target : Syn) (text : List Nat) (t : Ast) (h : CCVerif.Parser.parse src text = some t) :
    ∃ out, print target t = some out :=
  print_total target t (parse_printable src text t h)

/-- the checker's shape predicate of parsed trees (`Checker.WfParsed`, C06 `parse_gives_WfParsed`) does NOT imply that the
printer is not stuck: it puts no constraint on the payload of an integer literal (nor on children below a leaf, the head
of a call, the name of a declaration). Hence the separate predicate `Printable`. -/
theorem print_stuck_on_WfParsed_counterexample (Γ : CCVerif.Types.Ctx) :
    CCVerif.Checker.WfParsed Γ [] (.node .LIT_INTEGER .none 0 1 []) ∧
    print .math (.node .LIT_INTEGER .none 0 1 []) = none ∧ print .ascii (.node .LIT_INTEGER .none 0 1 []) = none :=
  ⟨.top (.ofDef (.expr (Or.inl .sInt))), by decide, by decide⟩

private def exUnits (s : String) : List Nat := s.toList.map Char.toNat

/-- non-vacuity of `print_total_on_parsed`: a definition with arguments, a quantifier over a tuple pattern, an imperative
block, a projection with two indices and a call parses (MATH) and is printed in ASCII -/
example : ((CCVerif.Parser.parse .math (exUnits "D1:==[α∈X1, β∈ℬ(X1)] ∀(γ,δ),ε∈β×β ¬γ=ε & I{(α,ξ) | ξ:∈β; ξ:=ξ}≠F1[Pr1,2(β)]")).map
    fun t => (print .ascii t).isSome) = some true := by decide +kernel

/-- non-vacuity of `print_total`: a `Printable` tree that no text denotes (a product with three factors written as nested
nodes is fine too; here: `pr1,2` applied to a radical) -/
example : Printable (.node .SMALLPR (.tuple [1, 2]) 0 0 [.node .ID_RADICAL (.text "R1") 0 0 []]) :=
  .mk rfl rfl (by intro k hk; simp at hk; subst hk; exact .mk rfl rfl (by simp))

end CCVerif.Printer
