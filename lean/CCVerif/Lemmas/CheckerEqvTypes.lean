import CCVerif.Model.Types
import CCVerif.Lemmas.NameBij
/-!
Equivariance of the type algebra of the checker (`Model/Types.lean`) under a renaming of the BASE
NAMES of typifications: a bijection of strings that fixes `Z` and `R0` and maps radicals to radicals
and non-radicals to non-radicals (`TRen`). Every operation of `details::TypeEnv` (traits,
`CommonType`, `AreCompatible`, `Merge`, `CompareTemplated`, `SubstituteBase`, `BindRadicals`) and the
tuple accessors commute with it; `MangleRadicals` commutes with it for a function name `fn` whose
renaming is compatible (`β (id ++ fn) = β id ++ ρ fn` on radicals `id`).
-/
namespace CCVerif.Types
open CCVerif

/-- an admissible renaming of the base names of types -/
structure TRen where
  β : Bij
  βZ : β.f Ty.intName = Ty.intName
  βR0 : β.f Ty.anyName = Ty.anyName
  βrad : ∀ x, isRadical (β.f x) = isRadical x

namespace TRen
def inv (t : TRen) : TRen where
  β := t.β.inv
  βZ := by
    show t.β.g Ty.intName = Ty.intName
    conv => lhs; rw [← t.βZ]
    exact t.β.gf _
  βR0 := by
    show t.β.g Ty.anyName = Ty.anyName
    conv => lhs; rw [← t.βR0]
    exact t.β.gf _
  βrad := fun x => by
    show isRadical (t.β.g x) = isRadical x
    rw [← t.βrad (t.β.g x), t.β.fg]

theorem eqZ (t : TRen) (x : String) : (t.β.f x == Ty.intName) = (x == Ty.intName) := by
  conv => lhs; rw [← t.βZ]
  exact t.β.beq x _

theorem eqR0 (t : TRen) (x : String) : (t.β.f x == Ty.anyName) = (x == Ty.anyName) := by
  conv => lhs; rw [← t.βR0]
  exact t.β.beq x _
end TRen

mutual
def renTy (b : String → String) : Ty → Ty
  | .base id => .base (b id)
  | .tuple cs => .tuple (renTyL b cs)
  | .coll t => .coll (renTy b t)
def renTyL (b : String → String) : List Ty → List Ty
  | [] => []
  | c :: cs => renTy b c :: renTyL b cs
end

theorem renTyL_eq_map (b : String → String) : ∀ cs : List Ty, renTyL b cs = cs.map (renTy b)
  | [] => rfl
  | c :: cs => by rw [renTyL, List.map_cons, renTyL_eq_map b cs]

def renE (b : String → String) : ExprTy → ExprTy
  | .logic => .logic
  | .ty t => .ty (renTy b t)

mutual
theorem renTy_inv {f g : String → String} (h : ∀ x, g (f x) = x) : ∀ t : Ty, renTy g (renTy f t) = t
  | .base id => by simp [renTy, h]
  | .tuple cs => by simp only [renTy]; rw [renTyL_inv h cs]
  | .coll t => by simp only [renTy]; rw [renTy_inv h t]
theorem renTyL_inv {f g : String → String} (h : ∀ x, g (f x) = x) : ∀ cs : List Ty, renTyL g (renTyL f cs) = cs
  | [] => rfl
  | c :: cs => by simp only [renTyL]; rw [renTy_inv h c, renTyL_inv h cs]
end

theorem renE_inv {f g : String → String} (h : ∀ x, g (f x) = x) : ∀ t : ExprTy, renE g (renE f t) = t
  | .logic => rfl
  | .ty t => by simp only [renE]; rw [renTy_inv h t]

section
variable (t : TRen)

/-- the renaming of types of `t` -/
abbrev R : Ty → Ty := renTy t.β.f
abbrev RL : List Ty → List Ty := renTyL t.β.f
abbrev RE : ExprTy → ExprTy := renE t.β.f

theorem R_inj {a b : Ty} (h : R t a = R t b) : a = b := by
  rw [← renTy_inv t.β.gf a, ← renTy_inv t.β.gf b]
  exact congrArg _ h

theorem RL_inj {a b : List Ty} (h : RL t a = RL t b) : a = b := by
  rw [← renTyL_inv t.β.gf a, ← renTyL_inv t.β.gf b]
  exact congrArg _ h

theorem beq_R (a b : Ty) : Ty.beq (R t a) (R t b) = Ty.beq a b := by
  by_cases h : a = b
  · subst h; rw [Ty.beq_refl, Ty.beq_refl]
  · have h1 : Ty.beq a b = false := by
      cases hb : Ty.beq a b with
      | false => rfl
      | true => exact absurd (Ty.eq_of_beq a b hb) h
    have h2 : Ty.beq (R t a) (R t b) = false := by
      cases hb : Ty.beq (R t a) (R t b) with
      | false => rfl
      | true => exact absurd (R_inj t (Ty.eq_of_beq _ _ hb)) h
    rw [h1, h2]

theorem beq_R' (a b : Ty) : (R t a == R t b) = (a == b) := beq_R t a b

theorem beqList_RL (a b : List Ty) : Ty.beqList (RL t a) (RL t b) = Ty.beqList a b := by
  by_cases h : a = b
  · subst h; rw [Ty.beqList_refl, Ty.beqList_refl]
  · have h1 : Ty.beqList a b = false := by
      cases hb : Ty.beqList a b with
      | false => rfl
      | true => exact absurd (Ty.eq_of_beqList a b hb) h
    have h2 : Ty.beqList (RL t a) (RL t b) = false := by
      cases hb : Ty.beqList (RL t a) (RL t b) with
      | false => rfl
      | true => exact absurd (RL_inj t (Ty.eq_of_beqList _ _ hb)) h
    rw [h1, h2]

theorem R_Z : R t Ty.Z = Ty.Z := by
  show Ty.base (t.β.f Ty.intName) = _
  rw [t.βZ]; rfl

theorem R_R0 : R t Ty.R0 = Ty.R0 := by
  show Ty.base (t.β.f Ty.anyName) = _
  rw [t.βR0]; rfl

theorem R_emptySet : R t Ty.emptySet = Ty.emptySet := by
  show Ty.coll (R t Ty.R0) = _
  rw [R_R0]; rfl

theorem isAny_R : ∀ a : Ty, (R t a).isAny = a.isAny
  | .base id => t.eqR0 id
  | .tuple _ => rfl
  | .coll _ => rfl

theorem isColl_R : ∀ a : Ty, (R t a).isColl = a.isColl
  | .base _ => rfl
  | .tuple _ => rfl
  | .coll _ => rfl

theorem tupleOf_RL : ∀ cs : List Ty, R t (Ty.tupleOf cs) = Ty.tupleOf (RL t cs)
  | [] => rfl
  | [_] => rfl
  | _ :: _ :: _ => rfl

theorem length_RL (cs : List Ty) : (RL t cs).length = cs.length := by
  show (renTyL _ cs).length = _
  rw [renTyL_eq_map, List.length_map]

theorem isEmpty_RL (cs : List Ty) : (RL t cs).isEmpty = cs.isEmpty := by
  cases cs <;> rfl

theorem testIndex_RL (cs : List Ty) (i : Int) : Ty.testIndex (RL t cs) i = Ty.testIndex cs i := by
  unfold Ty.testIndex
  rw [length_RL]

theorem component_RL (cs : List Ty) (i : Int) : Ty.component? (RL t cs) i = (Ty.component? cs i).map (R t) := by
  unfold Ty.component?
  split
  · show (renTyL _ cs)[(i - 1).toNat]? = _
    rw [renTyL_eq_map, List.getElem?_map]
  · rfl

/-! ## traits -/

/-- the trait environment with its keys renamed -/
def renTE (te : TraitEnv) : TraitEnv := te.map fun p => (t.β.f p.1, p.2)

theorem lookup_renTE (id : String) : ∀ te : TraitEnv, lookup (renTE t te) (t.β.f id) = lookup te id
  | [] => rfl
  | (k, v) :: rest => by
    show (if t.β.f k == t.β.f id then some v else lookup (renTE t rest) (t.β.f id)) = _
    rw [t.β.beq, lookup_renTE id rest]
    rfl

theorem traitsFor_R (te : TraitEnv) : ∀ a : Ty, traitsFor (renTE t te) (R t a) = traitsFor te a
  | .base id => by
    show (if t.β.f id == Ty.intName then _ else _) = _
    rw [t.eqZ, lookup_renTE]
    rfl
  | .tuple _ => rfl
  | .coll _ => rfl

theorem isArithmetic_R (te : TraitEnv) (a : Ty) : isArithmetic (renTE t te) (R t a) = isArithmetic te a := by
  unfold isArithmetic; rw [traitsFor_R]

theorem isOrdered_R (te : TraitEnv) (a : Ty) : isOrdered (renTE t te) (R t a) = isOrdered te a := by
  unfold isOrdered; rw [traitsFor_R]

theorem convertsFromInt_R (te : TraitEnv) (a : Ty) :
    convertsFromInt (renTE t te) (R t a) = convertsFromInt te a := by
  unfold convertsFromInt; rw [traitsFor_R]

theorem beq_Z (a : Ty) : (R t a == Ty.Z) = (a == Ty.Z) := by
  conv => lhs; rw [← R_Z t]
  exact beq_R' t a _

theorem commonType_R (te : TraitEnv) (a b : Ty) :
    commonType (renTE t te) (R t a) (R t b) = (commonType te a b).map (R t) := by
  unfold commonType
  rw [beq_Z, beq_Z, convertsFromInt_R, convertsFromInt_R]
  split
  · split <;> rfl
  · split
    · split <;> rfl
    · rfl

/-! ## `AreCompatible`, `Merge` -/

mutual
theorem compat_R (te : TraitEnv) : ∀ a b : Ty, compat (renTE t te) (R t a) (R t b) = compat te a b
  | .base a, .base b => by
    have hc := commonType_R t te (.base a) (.base b)
    simp only [renTy] at hc
    simp only [renTy, compat]
    rw [t.β.beq, t.eqR0, t.eqR0, hc]
    cases commonType te (.base a) (.base b) <;> rfl
  | .base a, .tuple _ => by simp only [renTy, compat]; exact t.eqR0 a
  | .base a, .coll _ => by simp only [renTy, compat]; exact t.eqR0 a
  | .coll _, .base b => by simp only [renTy, compat]; exact t.eqR0 b
  | .tuple _, .base b => by simp only [renTy, compat]; exact t.eqR0 b
  | .coll a, .coll b => by simp only [renTy, compat]; exact compat_R te a b
  | .tuple as, .tuple bs => by simp only [renTy, compat]; exact compatList_R te as bs
  | .coll _, .tuple _ => by simp only [renTy, compat]
  | .tuple _, .coll _ => by simp only [renTy, compat]
theorem compatList_R (te : TraitEnv) : ∀ as bs : List Ty,
    compatList (renTE t te) (RL t as) (RL t bs) = compatList te as bs
  | [], [] => rfl
  | a :: as, b :: bs => by
    simp only [renTyL, compatList]
    rw [compat_R te a b, compatList_R te as bs]
  | [], _ :: _ => rfl
  | _ :: _, [] => rfl
end

theorem compatE_R (te : TraitEnv) : ∀ a b : ExprTy, compatE (renTE t te) (RE t a) (RE t b) = compatE te a b
  | .logic, .logic => rfl
  | .logic, .ty _ => rfl
  | .ty a, .ty b => by simp only [renE, compatE]; rw [compat_R]
  | .ty _, .logic => rfl

mutual
theorem merge_R (te : TraitEnv) : ∀ a b : Ty, merge (renTE t te) (R t a) (R t b) = (merge te a b).map (R t)
  | .base a, .base b => by
    have hc := commonType_R t te (.base a) (.base b)
    simp only [renTy] at hc
    simp only [renTy, merge]
    rw [t.β.beq, t.eqR0, t.eqR0, hc]
    split
    · rfl
    · split
      · rfl
      · split <;> rfl
  | .base a, .coll b => by
    simp only [renTy, merge]; rw [t.eqR0]; split <;> rfl
  | .base a, .tuple bs => by
    simp only [renTy, merge]; rw [t.eqR0]; split <;> rfl
  | .coll a, .base b => by
    simp only [renTy, merge]; rw [t.eqR0]; split <;> rfl
  | .tuple as, .base b => by
    simp only [renTy, merge]; rw [t.eqR0]; split <;> rfl
  | .coll a, .coll b => by
    simp only [renTy, merge]
    rw [merge_R te a b]
    cases merge te a b <;> rfl
  | .tuple as, .tuple bs => by
    simp only [renTy, merge]
    rw [beqList_RL, mergeList_R te as bs]
    split
    · rfl
    · cases mergeList te as bs with
      | none => rfl
      | some cs => simp only [Option.map_some]; rw [tupleOf_RL]
  | .coll _, .tuple _ => by simp only [renTy, merge]; rfl
  | .tuple _, .coll _ => by simp only [renTy, merge]; rfl
theorem mergeList_R (te : TraitEnv) : ∀ as bs : List Ty,
    mergeList (renTE t te) (RL t as) (RL t bs) = (mergeList te as bs).map (RL t)
  | [], [] => rfl
  | a :: as, b :: bs => by
    simp only [renTyL, mergeList]
    rw [merge_R te a b, mergeList_R te as bs]
    cases merge te a b with
    | none => rfl
    | some c => cases mergeList te as bs <;> rfl
  | [], _ :: _ => rfl
  | _ :: _, [] => rfl
end

/-! ## `MangleRadicals` -/

mutual
theorem mangle_R {fn fn' : String} (hfn : ∀ id, isRadical id = true → t.β.f (id ++ fn) = t.β.f id ++ fn') :
    ∀ a : Ty, mangle fn' (R t a) = R t (mangle fn a)
  | .base id => by
    simp only [renTy, mangle]
    rw [t.βrad]
    split
    · rename_i h; simp only [renTy]; rw [hfn id h]
    · rfl
  | .coll b => by simp only [renTy, mangle]; rw [mangle_R hfn b]
  | .tuple cs => by simp only [renTy, mangle]; rw [mangleList_R hfn cs]
theorem mangleList_R {fn fn' : String} (hfn : ∀ id, isRadical id = true → t.β.f (id ++ fn) = t.β.f id ++ fn') :
    ∀ cs : List Ty, mangleList fn' (RL t cs) = RL t (mangleList fn cs)
  | [] => rfl
  | c :: cs => by simp only [renTyL, mangleList]; rw [mangle_R hfn c, mangleList_R hfn cs]
end

/-! ## substitutions -/

/-- a substitution with keys and values renamed -/
def renS (s : Subst) : Subst := s.map fun p => (t.β.f p.1, R t p.2)

theorem lookup_renS (k : String) : ∀ s : Subst, lookup (renS t s) (t.β.f k) = (lookup s k).map (R t)
  | [] => rfl
  | (k', v) :: rest => by
    show (if t.β.f k' == t.β.f k then some (R t v) else lookup (renS t rest) (t.β.f k)) = _
    rw [t.β.beq, lookup_renS k rest]
    show _ = Option.map (R t) (if k' == k then some v else lookup rest k)
    split <;> rfl

theorem set_renS (k : String) (v : Ty) : ∀ s : Subst,
    Subst.set (renS t s) (t.β.f k) (R t v) = renS t (Subst.set s k v)
  | [] => rfl
  | (k', v') :: rest => by
    show (if t.β.f k' == t.β.f k then _ else _) = renS t (if k' == k then _ else _)
    rw [t.β.beq]
    split
    · rfl
    · show _ :: Subst.set (renS t rest) _ _ = _
      rw [set_renS k v rest]
      rfl

theorem renS_append (s s' : Subst) : renS t (s ++ s') = renS t s ++ renS t s' := by
  unfold renS; rw [List.map_append]

theorem isEmpty_renS (s : Subst) : (renS t s).isEmpty = s.isEmpty := by
  cases s <;> rfl

mutual
theorem substBase_R (s : Subst) : ∀ a : Ty, substBase (renS t s) (R t a) = R t (substBase s a)
  | .base id => by
    simp only [renTy, substBase]
    rw [lookup_renS]
    cases lookup s id <;> rfl
  | .coll b => by simp only [renTy, substBase]; rw [substBase_R s b]
  | .tuple cs => by simp only [renTy, substBase]; rw [substBaseList_R s cs]
theorem substBaseList_R (s : Subst) : ∀ cs : List Ty,
    substBaseList (renS t s) (RL t cs) = RL t (substBaseList s cs)
  | [] => rfl
  | c :: cs => by simp only [renTyL, substBaseList]; rw [substBase_R s c, substBaseList_R s cs]
end

mutual
theorem bindRadicals_R (anyT : Ty) : ∀ (a : Ty) (s : Subst),
    bindRadicals (renS t s) (R t anyT) (R t a) = renS t (bindRadicals s anyT a)
  | .base id, s => by
    simp only [renTy, bindRadicals]
    rw [t.βrad, lookup_renS]
    have : ((lookup s id).map (R t)).isNone = (lookup s id).isNone := by cases lookup s id <;> rfl
    rw [this]
    split
    · rw [renS_append]; rfl
    · rfl
  | .coll b, s => by simp only [renTy, bindRadicals]; exact bindRadicals_R anyT b s
  | .tuple cs, s => by simp only [renTy, bindRadicals]; exact bindRadicalsList_R anyT cs s
theorem bindRadicalsList_R (anyT : Ty) : ∀ (cs : List Ty) (s : Subst),
    bindRadicalsList (renS t s) (R t anyT) (RL t cs) = renS t (bindRadicalsList s anyT cs)
  | [], _ => rfl
  | c :: cs, s => by
    simp only [renTyL, bindRadicalsList]
    rw [bindRadicals_R anyT c s, bindRadicalsList_R anyT cs _]
end

/-! ## `CompareTemplated` -/

mutual
theorem compareTemplated_R (te : TraitEnv) : ∀ (a v : Ty) (s : Subst),
    compareTemplated (renTE t te) (renS t s) (R t a) (R t v) =
      ((compareTemplated te s a v).1, renS t (compareTemplated te s a v).2)
  | .base a, v, s => by
    have hb := beq_R t (.base a) v
    simp only [renTy] at hb
    simp only [renTy, compareTemplated]
    rw [hb, t.βrad, lookup_renS, isAny_R]
    split
    · rfl
    · split
      · cases hl : lookup s a with
        | none => simp only [Option.map_none]; rw [renS_append]; rfl
        | some old =>
          simp only [Option.map_some]
          rw [merge_R]
          cases merge te old v with
          | none => rfl
          | some m => simp only [Option.map_some]; rw [set_renS]
      · split
        · rfl
        · cases v with
          | base b =>
            have hc := commonType_R t te (.base a) (.base b)
            simp only [renTy] at hc
            simp only [renTy]
            rw [hc]
            cases commonType te (.base a) (.base b) <;> rfl
          | tuple _ => rfl
          | coll _ => rfl
  | .coll a, v, s => by
    have hb := beq_R t (.coll a) v
    simp only [renTy] at hb
    simp only [renTy, compareTemplated]
    rw [hb, isAny_R]
    split
    · rfl
    · split
      · have := bindRadicals_R t v (.coll a) s
        simp only [renTy] at this
        rw [this]
      · cases v with
        | base _ => rfl
        | tuple _ => rfl
        | coll b => simp only [renTy]; exact compareTemplated_R te a b s
  | .tuple as, v, s => by
    have hb := beq_R t (.tuple as) v
    simp only [renTy] at hb
    simp only [renTy, compareTemplated]
    rw [hb, isAny_R]
    split
    · rfl
    · split
      · have := bindRadicals_R t v (.tuple as) s
        simp only [renTy] at this
        rw [this]
      · cases v with
        | base _ => rfl
        | coll _ => rfl
        | tuple bs =>
          simp only [renTy]
          rw [length_RL, length_RL]
          split
          · rfl
          · exact compareTemplatedList_R te as bs s
theorem compareTemplatedList_R (te : TraitEnv) : ∀ (as bs : List Ty) (s : Subst),
    compareTemplatedList (renTE t te) (renS t s) (RL t as) (RL t bs) =
      ((compareTemplatedList te s as bs).1, renS t (compareTemplatedList te s as bs).2)
  | [], _, _ => rfl
  | _ :: _, [], _ => rfl
  | a :: as, b :: bs, s => by
    simp only [renTyL, compareTemplatedList]
    rw [compareTemplated_R te a b s]
    cases hc : compareTemplated te s a b with
    | mk ok s' =>
      cases ok with
      | true => simp only; exact compareTemplatedList_R te as bs s'
      | false => rfl
end

end

end CCVerif.Types
