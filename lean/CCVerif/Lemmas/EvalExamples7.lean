import CCVerif.Lemmas.EvalCallsTop
import CCVerif.Lemmas.EvalExamples
/-! Non-vacuity witness of stage 7 (calls), shared by `Properties/C01.lean` and `Properties/C02.lean`. -/
namespace CCVerif.Eval
open CCVerif.Syntax CCVerif.Spec CCVerif.Norm
open Ty

/-! ## example: `F1 :== [s∈ℬ(X1)] D{y∈X1 | y∈s}`, caller `D{x∈X1 | F1[{x}]={x}}` over `X1 = {1,2}` -/
namespace Examples7
open Examples

def fnode (s : String) : Ast := .node .ID_FUNCTION (.text s) 0 0 []

/-- `F1 :== [s∈ℬ(X1)] D{y∈X1 | y∈s}` -/
def f1Def : Ast :=
  nd .PUNC_DEFINE [fnode "F1",
    nd .NT_FUNC_DEFINITION [nd .NT_ARGUMENTS [nd .NT_ARG_DECL [loc "s", nd .BOOLEAN [glob "X1"]]],
      nd .NT_DECLARATIVE_EXPR [loc "y", glob "X1", nd .IN [loc "y", loc "s"]]]]

def env7 : Env := { globals := [("X1", .s [.e 1, .e 2])], funcs := [("F1", f1Def)] }
def G7 : TCtx := [("X1", .coll X)]

theorem globalsOK_7 : GlobalsOK env7 G7 := by
  intro g τ h
  unfold G7 at h
  simp only [lookup] at h
  split at h
  · rename_i e
    have : g = "X1" := by simpa using e
    subst this
    injection h with h; subst h
    exact ⟨rfl, _, rfl, ⟨by decide, by decide⟩⟩
  · cases h

def enumX : Ast := nd .NT_ENUMERATION [loc "x"]

/-- `D{x∈X1 | F1[{x}]={x}}` -/
def caller : Ast :=
  nd .NT_DECLARATIVE_EXPR [loc "x", glob "X1", nd .EQUAL [nd .NT_FUNC_CALL [fnode "F1", enumX], enumX]]

/-- `D{x∈X1 | D{__var1∈X1 | __var1∈{x}}={x}}`: the β-reduct, and the normal form -/
def callerN : Ast :=
  nd .NT_DECLARATIVE_EXPR [loc "x", glob "X1",
    nd .EQUAL [nd .NT_DECLARATIVE_EXPR [loc "__var1", glob "X1", nd .IN [loc "__var1", enumX]], enumX]]

theorem caller_normalizes : normalizeTree env7.funcs 10 caller = some callerN := by rfl

theorem x1_frag7 (Γ : TCtx) : Frag env7 G7 6 Γ (glob "X1") (.ty (.coll X)) := .glob Γ "X1" 0 0 (by decide) rfl

theorem enumX_frag (Γ : TCtx) (hx : lookup "x" Γ = some X) : Frag env7 G7 6 Γ enumX (.ty (.coll X)) :=
  Frag.enum _ _ _ _ (by simp) (by
    intro k hk
    simp only [List.mem_cons, List.not_mem_nil, or_false] at hk
    subst hk; exact .loc _ "x" 0 0 (by decide) hx rfl)

theorem callerN_frag : Frag env7 G7 6 [] callerN (.ty (.coll X)) := by
  refine .decl (τ := X) _ _ _ "x" 0 0 (by decide) rfl rfl (by simp) (x1_frag7 _) ?_
  refine .eq (τ := .coll X) _ _ _ (Or.inl rfl) ?_ (enumX_frag _ rfl)
  refine .decl (τ := X) _ _ _ "__var1" 0 0 (by decide) rfl rfl (by simp) (x1_frag7 _) ?_
  exact Frag.mem (τ := X) _ _ _ (Or.inl rfl) (by decide) (.loc _ "__var1" 0 0 (by decide) rfl rfl) (enumX_frag _ rfl)

theorem enumX_beta (Δ : BCtx) (hx : lookup "x" Δ = some (.ren "x")) : Beta env7.funcs 0 Δ enumX enumX :=
  .nary _ _ _ _ _ [loc "x"] [loc "x"] (Or.inl rfl) rfl (by
    intro q hq
    simp only [List.zip_cons_cons, List.zip_nil_right, List.mem_cons, List.not_mem_nil, or_false] at hq
    subst hq; exact .loc "x" "x" 0 0 0 0 hx)

/-- the body of `F1` in the scope of its parameter `s ↦ {x}` reduces to `D{__var1∈X1 | __var1∈{x}}` -/
theorem body_beta :
    Beta env7.funcs 1 [("s", .par enumX ["x"] 0)] (nd .NT_DECLARATIVE_EXPR [loc "y", glob "X1", nd .IN [loc "y", loc "s"]])
      (nd .NT_DECLARATIVE_EXPR [loc "__var1", glob "X1", nd .IN [loc "__var1", enumX]]) := by
  refine .decl _ 0 0 0 0 "y" "__var1" 0 0 0 0 (by decide) (.mono (by decide) (.glob "X1" 0 0 0 0)) ?_
  refine .mem _ 0 0 0 0 (Or.inl rfl) (by decide) (by decide) (.mono (by decide) (.loc "y" "__var1" 0 0 0 0 rfl)) ?_
  exact .par "s" enumX ["x"] 0 0 0 rfl

theorem caller_beta : Beta env7.funcs 2 [] caller callerN := by
  refine .decl _ 0 0 0 0 "x" "x" 0 0 0 0 (by decide) (.mono (by decide) (.glob "X1" 0 0 0 0)) ?_
  refine .bin _ 0 0 0 0 (Or.inr (Or.inr (Or.inl (Or.inl rfl)))) ?_ (.mono (by decide) (enumX_beta _ rfl))
  refine .call (Ka := 0) (Kb := 1) _ 0 0 .ID_FUNCTION "F1" 0 0 [] .PUNC_DEFINE .none 0 0 .none 0 0 .NT_ARGUMENTS .none 0 0
    [nd .NT_ARG_DECL [loc "s", nd .BOOLEAN [glob "X1"]]] [enumX] [enumX] rfl rfl rfl ?_ body_beta
  intro q hq
  simp only [List.zip_cons_cons, List.zip_nil_right, List.mem_cons, List.not_mem_nil, or_false] at hq
  subst hq; exact enumX_beta _ rfl

end Examples7

end CCVerif.Eval
