import CCVerif.Model.Checker
/-!
Helper lemmas for C03 totality / no-silent-failure: on grammar-shaped trees (`Wf`) the checker
model never returns `stuck`, never takes a silent-failure branch, an expression in a set
position that is accepted has a typification (not LOGIC), and only `ViArgument` touches the
declared-argument list.
-/
namespace CCVerif.Checker
open CCVerif.Syntax CCVerif.Types

/-! ## grammar shape -/

/-- syntactic category of a node: set expression, logic expression (incl. the imperative blocks
`x:∈S`, `x:=e`), declaration pattern (variable / tuple of patterns), list of patterns -/
inductive Cat where
  | S | L | D | DE
deriving DecidableEq

/-- trees of the shape the parser builds (arity, token payload, non-empty index lists, set /
logic / declaration positions). `Γ` enters in one place: a call in a *set* position names a
term-function whose declared type is not LOGIC (always true of a `Schema`: a function
constituent must be typed; a predicate name is lexically distinct). -/
inductive Wf (Γ : Ctx) : Cat → Ast → Prop where
  | sGlobal {tok : Tok} {x : String} {lo hi : Int} {ks : List Ast} :
      tok = .ID_GLOBAL ∨ tok = .ID_FUNCTION ∨ tok = .ID_PREDICATE → Wf Γ .S (.node tok (.text x) lo hi ks)
  | sLocal {x : String} {lo hi : Int} {ks : List Ast} : Wf Γ .S (.node .ID_LOCAL (.text x) lo hi ks)
  | sRadical {x : String} {lo hi : Int} {ks : List Ast} : Wf Γ .S (.node .ID_RADICAL (.text x) lo hi ks)
  | sInt {d : TokData} {lo hi : Int} {ks : List Ast} : Wf Γ .S (.node .LIT_INTEGER d lo hi ks)
  | sIntset {d : TokData} {lo hi : Int} {ks : List Ast} : Wf Γ .S (.node .LIT_INTSET d lo hi ks)
  | sEmpty {d : TokData} {lo hi : Int} {ks : List Ast} : Wf Γ .S (.node .LIT_EMPTYSET d lo hi ks)
  | sArith {tok : Tok} {d : TokData} {lo hi : Int} {a b : Ast} :
      tok = .PLUS ∨ tok = .MINUS ∨ tok = .MULTIPLY → Wf Γ .S a → Wf Γ .S b → Wf Γ .S (.node tok d lo hi [a, b])
  | sUnary {tok : Tok} {d : TokData} {lo hi : Int} {a : Ast} :
      tok = .CARD ∨ tok = .BOOLEAN ∨ tok = .DEBOOL ∨ tok = .REDUCE ∨ tok = .BOOL →
      Wf Γ .S a → Wf Γ .S (.node tok d lo hi [a])
  | sSetbin {tok : Tok} {d : TokData} {lo hi : Int} {a b : Ast} :
      tok = .UNION ∨ tok = .INTERSECTION ∨ tok = .SET_MINUS ∨ tok = .SYMMINUS →
      Wf Γ .S a → Wf Γ .S b → Wf Γ .S (.node tok d lo hi [a, b])
  | sEnum {d : TokData} {lo hi : Int} {a : Ast} {ks : List Ast} :
      (∀ k, k ∈ a :: ks → Wf Γ .S k) → Wf Γ .S (.node .NT_ENUMERATION d lo hi (a :: ks))
  | sMany {tok : Tok} {d : TokData} {lo hi : Int} {a b : Ast} {ks : List Ast} :
      tok = .DECART ∨ tok = .NT_TUPLE →
      (∀ k, k ∈ a :: b :: ks → Wf Γ .S k) → Wf Γ .S (.node tok d lo hi (a :: b :: ks))
  | sProj {tok : Tok} {idx : List Int} {lo hi : Int} {a : Ast} :
      tok = .BIGPR ∨ tok = .SMALLPR → idx ≠ [] → Wf Γ .S a → Wf Γ .S (.node tok (.tuple idx) lo hi [a])
  | sFilter {idx : List Int} {lo hi : Int} {p : Ast} {ks : List Ast} :
      idx ≠ [] → (∀ k, k ∈ p :: ks → Wf Γ .S k) → ks ≠ [] →
      Wf Γ .S (.node .FILTER (.tuple idx) lo hi (p :: ks))
  | sDeclarative {d : TokData} {lo hi : Int} {p dom body : Ast} :
      Wf Γ .D p → Wf Γ .S dom → Wf Γ .L body → Wf Γ .S (.node .NT_DECLARATIVE_EXPR d lo hi [p, dom, body])
  | sImperative {d : TokData} {lo hi : Int} {value : Ast} {blocks : List Ast} :
      Wf Γ .S value → (∀ k, k ∈ blocks → Wf Γ .L k) → Wf Γ .S (.node .NT_IMPERATIVE_EXPR d lo hi (value :: blocks))
  | sRecShort {d : TokData} {lo hi : Int} {p init step : Ast} :
      Wf Γ .D p → Wf Γ .S init → Wf Γ .S step → Wf Γ .S (.node .NT_RECURSIVE_SHORT d lo hi [p, init, step])
  | sRecFull {d : TokData} {lo hi : Int} {p init cond step : Ast} :
      Wf Γ .D p → Wf Γ .S init → Wf Γ .L cond → Wf Γ .S step →
      Wf Γ .S (.node .NT_RECURSIVE_FULL d lo hi [p, init, cond, step])
  | sCall {d : TokData} {lo hi lf hf : Int} {tf : Tok} {f : String} {kf : List Ast} {a : Ast} {as : List Ast} :
      lookup Γ.types f ≠ some .logic → (∀ k, k ∈ a :: as → Wf Γ .S k) →
      Wf Γ .S (.node .NT_FUNC_CALL d lo hi (.node tf (.text f) lf hf kf :: a :: as))
  | lNot {d : TokData} {lo hi : Int} {a : Ast} : Wf Γ .L a → Wf Γ .L (.node .NOT d lo hi [a])
  | lBin {tok : Tok} {d : TokData} {lo hi : Int} {a b : Ast} :
      tok = .AND ∨ tok = .OR ∨ tok = .IMPLICATION ∨ tok = .EQUIVALENT →
      Wf Γ .L a → Wf Γ .L b → Wf Γ .L (.node tok d lo hi [a, b])
  | lPred {tok : Tok} {d : TokData} {lo hi : Int} {a b : Ast} :
      tok = .EQUAL ∨ tok = .NOTEQUAL ∨ tok = .GREATER ∨ tok = .LESSER ∨ tok = .GREATER_OR_EQ ∨ tok = .LESSER_OR_EQ ∨
      tok = .IN ∨ tok = .NOTIN ∨ tok = .SUBSET ∨ tok = .SUBSET_OR_EQ ∨ tok = .NOTSUBSET →
      Wf Γ .S a → Wf Γ .S b → Wf Γ .L (.node tok d lo hi [a, b])
  | lQuant {tok : Tok} {d : TokData} {lo hi : Int} {p dom body : Ast} :
      tok = .FORALL ∨ tok = .EXISTS → Wf Γ .DE p → Wf Γ .S dom → Wf Γ .L body →
      Wf Γ .L (.node tok d lo hi [p, dom, body])
  | lCall {d : TokData} {lo hi lf hf : Int} {tf : Tok} {f : String} {kf : List Ast} {a : Ast} {as : List Ast} :
      (∀ k, k ∈ a :: as → Wf Γ .S k) →
      Wf Γ .L (.node .NT_FUNC_CALL d lo hi (.node tf (.text f) lf hf kf :: a :: as))
  | lIterate {d : TokData} {lo hi : Int} {p dom : Ast} :
      Wf Γ .D p → Wf Γ .S dom → Wf Γ .L (.node .ITERATE d lo hi [p, dom])
  | lAssign {d : TokData} {lo hi : Int} {p ex : Ast} :
      Wf Γ .D p → Wf Γ .S ex → Wf Γ .L (.node .ASSIGN d lo hi [p, ex])
  | dLocal {x : String} {lo hi : Int} {ks : List Ast} : Wf Γ .D (.node .ID_LOCAL (.text x) lo hi ks)
  | dTuple {d : TokData} {lo hi : Int} {k : Ast} {ks : List Ast} :
      (∀ k', k' ∈ k :: ks → Wf Γ .D k') → Wf Γ .D (.node .NT_TUPLE_DECL d lo hi (k :: ks))
  | deOfD {k : Ast} : Wf Γ .D k → Wf Γ .DE k
  | deEnum {d : TokData} {lo hi : Int} {ks : List Ast} :
      (∀ k, k ∈ ks → Wf Γ .D k) → Wf Γ .DE (.node .NT_ENUM_DECL d lo hi ks)

/-! ## depth -/

theorem depthList_mem {k : Ast} : ∀ {ks : List Ast}, k ∈ ks → Ast.depth k ≤ Ast.depth.depthList ks
  | [], h => by simp at h
  | k' :: ks, h => by
    simp only [Ast.depth.depthList]
    rcases List.mem_cons.mp h with rfl | h
    · exact Nat.le_max_left _ _
    · exact Nat.le_trans (depthList_mem h) (Nat.le_max_right _ _)

theorem depth_kid {a k : Ast} (h : k ∈ a.kids) : Ast.depth k < Ast.depth a := by
  cases a with
  | node t d lo hi ks =>
    simp only [Ast.kids] at h
    simp only [Ast.depth]
    have := depthList_mem h
    omega

theorem kid_mem' {a k : Ast} {i : Nat} (h : a.kid i = some k) : k ∈ a.kids := by
  unfold Ast.kid at h; exact List.mem_of_getElem? h

/-! ## triples -/

/-- flags of the declaration modes are off and no silent failure happened so far -/
def I0 (s : St) : Prop := s.localDecl = 0 ∧ s.argDecl = 0 ∧ s.silent = false

/-- `T0 V C m`: from a state with `I0`, `m` does not get stuck, keeps `I0` and the declared
arguments, its value satisfies `V`, the final `currentType` satisfies `C`; a failure leaves
`silent = false` -/
structure T0 {α : Type} (V : α → Prop) (C : ExprTy → Prop) (m : M α) : Prop where
  run : ∀ s, I0 s → match m s with
    | (.ok a, s') => I0 s' ∧ s'.args = s.args ∧ V a ∧ C s'.cur
    | (.fail, s') => s'.silent = false
    | (.stuck _, _) => False

def IsTy (τ : ExprTy) : Prop := ∃ t, τ = .ty t
def AnyC (_ : ExprTy) : Prop := True
def AnyV {α : Type} (_ : α) : Prop := True

theorem t0_bind {α β} {V1 : α → Prop} {C1 : ExprTy → Prop} {V : β → Prop} {C : ExprTy → Prop}
    {m : M α} {f : α → M β} (hm : T0 V1 C1 m) (hf : ∀ a, V1 a → T0 V C (f a)) : T0 V C (M.bind m f) := by
  refine ⟨fun s hs => ?_⟩
  have h1 := hm.run s hs
  unfold M.bind
  generalize m s = r at h1
  obtain ⟨r, s1⟩ := r
  cases r with
  | ok a =>
    obtain ⟨i1, a1, v1, _⟩ := h1
    have h2 := (hf a v1).run s1 i1
    dsimp only
    generalize f a s1 = r2 at h2
    obtain ⟨r2, s2⟩ := r2
    cases r2 with
    | ok b => exact ⟨h2.1, h2.2.1.trans a1, h2.2.2⟩
    | fail => exact h2
    | stuck x => exact h2
  | fail => exact h1
  | stuck x => exact h1

theorem t0_weaken {α} {V V' : α → Prop} {C C' : ExprTy → Prop} {m : M α} (h : T0 V C m)
    (hv : ∀ a, V a → V' a) (hc : ∀ c, C c → C' c) : T0 V' C' m := by
  refine ⟨fun s hs => ?_⟩
  have h1 := h.run s hs
  generalize m s = r at h1
  obtain ⟨r, s1⟩ := r
  cases r with
  | ok a => exact ⟨h1.1, h1.2.1, hv a h1.2.2.1, hc _ h1.2.2.2⟩
  | fail => exact h1
  | stuck x => exact h1

theorem t0_pure {α} {V : α → Prop} (a : α) (h : V a) : T0 V AnyC (M.pure a) :=
  ⟨fun s hs => ⟨hs, rfl, h, trivial⟩⟩

theorem t0_setCur {C : ExprTy → Prop} (t : ExprTy) (h : C t) : T0 AnyV C (setCur t) :=
  ⟨fun s hs => ⟨hs, rfl, trivial, h⟩⟩

theorem t0_errFail {α} {V : α → Prop} {C : ExprTy → Prop} (eid : Nat) (pos : Int) : T0 V C (errFail eid pos : M α) :=
  ⟨fun s hs => hs.2.2⟩

theorem t0_getSt : T0 (fun x : St => I0 x) AnyC getSt :=
  ⟨fun s hs => ⟨hs, rfl, hs, trivial⟩⟩

theorem t0_modify (f : St → St) (h : ∀ s, (f s).localDecl = s.localDecl ∧ (f s).argDecl = s.argDecl ∧
    (f s).silent = s.silent ∧ (f s).args = s.args) : T0 AnyV AnyC (modifySt f) := by
  refine ⟨fun s hs => ?_⟩
  obtain ⟨h1, h2, h3, h4⟩ := h s
  exact ⟨⟨h1 ▸ hs.1, h2 ▸ hs.2.1, h3 ▸ hs.2.2⟩, h4, trivial, trivial⟩

theorem t0_kidM {a k : Ast} {i : Nat} (h : a.kid i = some k) : T0 (fun x => x = k) AnyC (kidM a i) := by
  unfold kidM; rw [h]; exact t0_pure _ rfl

theorem t0_kidErr {α} {V : α → Prop} {C : ExprTy → Prop} {a k : Ast} {i : Nat} (h : a.kid i = some k)
    (eid : Nat) (f : Ast → Int) : T0 V C (M.bind (kidM a i) fun k => (errFail eid (f k) : M α)) :=
  t0_bind (t0_kidM h) fun _ _ => t0_errFail _ _

theorem t0_errFailTok {α} {V : α → Prop} {C : ExprTy → Prop} {a : Ast} {idx : List Int}
    (hd : a.data = .tuple idx) (hne : idx ≠ []) (eid : Nat) (pos : Int) : T0 V C (errFailTok a eid pos : M α) := by
  unfold errFailTok; rw [hd]
  cases idx with
  | nil => exact absurd rfl hne
  | cons i is => exact t0_errFail _ _

theorem t0_kidErrTok {α} {V : α → Prop} {C : ExprTy → Prop} {a k : Ast} {i : Nat} {idx : List Int}
    (h : a.kid i = some k) (hd : a.data = .tuple idx) (hne : idx ≠ []) (eid : Nat) :
    T0 V C (M.bind (kidM a i) fun k => (errFailTok a eid k.lo : M α)) :=
  t0_bind (t0_kidM h) fun _ _ => t0_errFailTok hd hne _ _

theorem t0_expectTy (site : String) (t : Ty) : T0 (fun x => x = t) AnyC (expectTy site (.ty t)) :=
  t0_pure _ rfl

theorem t0_mkTuple (site : String) {cs : List Ty} (h : cs ≠ []) : T0 AnyV AnyC (mkTuple site cs) := by
  unfold mkTuple
  cases cs with
  | nil => exact absurd rfl h
  | cons c cs => exact t0_pure _ trivial

/-! ## specification of a visit, per category -/

/-- declaration mode: a typification is current and one of the declaration flags is on -/
def DM (s : St) : Prop := IsTy s.cur ∧ (s.localDecl > 0 ∨ s.argDecl > 0) ∧ s.silent = false

/-- a declaration visit: keeps `currentType` (for `D`), the flags, `silent`, the arguments -/
structure TD (keepCur : Bool) (m : M Unit) : Prop where
  run : ∀ s, DM s → match m s with
    | (.ok _, s') => (keepCur = true → s'.cur = s.cur) ∧ s'.localDecl = s.localDecl ∧ s'.argDecl = s.argDecl ∧
        s'.silent = false ∧ s'.args = s.args
    | (.fail, s') => s'.silent = false
    | (.stuck _, _) => False

def Sat (c : Cat) (p : Option Tok) (m : M Unit) : Prop :=
  match c with
  | .S => T0 AnyV (fun τ => isOperandPos p = true → IsTy τ) m
  | .L => T0 AnyV AnyC m
  | .D => TD true m
  | .DE => TD false m

/-- hypothesis on the recursive visitor: correct on every well-shaped tree of depth ≤ `n` -/
def HV (Γ : Ctx) (v : Visitor) (n : Nat) : Prop :=
  ∀ c p k, Wf Γ c k → Ast.depth k ≤ n → Sat c p (v p k)

section
variable {Γ : Ctx} {v : Visitor} {n : Nat} (hv : HV Γ v n) {a : Ast} (hd : Ast.depth a ≤ n + 1)
include hv hd

theorem kid_depth {k : Ast} {i : Nat} (hk : a.kid i = some k) : Ast.depth k ≤ n := by
  have := depth_kid (kid_mem' hk); omega

/-- `ChildType` on a set-position child below an operator node -/
theorem t0_childTypeS {k : Ast} {i : Nat} (hk : a.kid i = some k) (hw : Wf Γ .S k)
    (hop : isOperandPos (some a.id) = true) : T0 IsTy AnyC (childType v a i) := by
  unfold childType
  apply t0_bind (t0_kidM hk); intro k' hk'; rw [hk']
  refine ⟨fun s hs => ?_⟩
  have h1 := (hv .S (some a.id) k hw (kid_depth hv hd hk)).run s hs
  dsimp only
  generalize v (some a.id) k s = r at h1
  obtain ⟨r, s1⟩ := r
  cases r with
  | ok u => exact ⟨h1.1, h1.2.1, h1.2.2.2 hop, trivial⟩
  | fail => exact h1
  | stuck x => exact h1

/-- `ChildType` on any set / logic child (no claim on the type) -/
theorem t0_childTypeAny {c : Cat} {k : Ast} {i : Nat} (hk : a.kid i = some k) (hw : Wf Γ c k)
    (hc : c = .S ∨ c = .L) : T0 AnyV AnyC (childType v a i) := by
  unfold childType
  apply t0_bind (t0_kidM hk); intro k' hk'; rw [hk']
  refine ⟨fun s hs => ?_⟩
  have h0 := hv c (some a.id) k hw (kid_depth hv hd hk)
  have h1 : match v (some a.id) k s with
      | (.ok _, s') => I0 s' ∧ s'.args = s.args
      | (.fail, s') => s'.silent = false
      | (.stuck _, _) => False := by
    rcases hc with rfl | rfl
    · have := h0.run s hs
      generalize v (some a.id) k s = r at this
      obtain ⟨r, s1⟩ := r; cases r <;> first | exact ⟨this.1, this.2.1⟩ | exact this
    · have := h0.run s hs
      generalize v (some a.id) k s = r at this
      obtain ⟨r, s1⟩ := r; cases r <;> first | exact ⟨this.1, this.2.1⟩ | exact this
  dsimp only
  generalize v (some a.id) k s = r at h1
  obtain ⟨r, s1⟩ := r
  cases r with
  | ok u => exact ⟨h1.1, h1.2, trivial, trivial⟩
  | fail => exact h1
  | stuck x => exact h1

theorem t0_visitChild {c : Cat} {k : Ast} {i : Nat} (hk : a.kid i = some k) (hw : Wf Γ c k)
    (hc : c = .S ∨ c = .L) : T0 AnyV AnyC (visitChild v a i) := by
  unfold visitChild
  apply t0_bind (t0_kidM hk); intro k' hk'; rw [hk']
  have h0 := hv c (some a.id) k hw (kid_depth hv hd hk)
  rcases hc with rfl | rfl
  · exact t0_weaken h0 (fun _ _ => trivial) (fun _ _ => trivial)
  · exact h0

theorem t0_childTypeDebool {k : Ast} {i : Nat} (hk : a.kid i = some k) (hw : Wf Γ .S k)
    (hop : isOperandPos (some a.id) = true) (eid : Nat) (tok : Bool)
    (htok : tok = true → ∃ idx, a.data = .tuple idx ∧ idx ≠ []) :
    T0 AnyV AnyC (childTypeDebool v a i eid tok) := by
  unfold childTypeDebool
  apply t0_bind (t0_childTypeS hv hd hk hw hop); intro r hr
  obtain ⟨t, rfl⟩ := hr
  dsimp only
  split
  · exact t0_pure _ trivial
  · split
    · exact t0_pure _ trivial
    · apply t0_bind (t0_kidM hk); intro k' _
      split
      · rename_i ht; obtain ⟨idx, h1, h2⟩ := htok ht
        exact t0_errFailTok h1 h2 _ _
      · exact t0_errFail _ _


/-! ### set-expression rules -/

omit hv hd in
theorem kidAt {a : Ast} {i : Nat} (h : i < a.kids.length) : ∃ k, a.kid i = some k ∧ k ∈ a.kids := by
  refine ⟨a.kids[i], ?_, List.getElem_mem h⟩
  unfold Ast.kid; exact List.getElem?_eq_getElem h

omit hv hd in
theorem isTy_ty (t : Ty) : IsTy (.ty t) := ⟨t, rfl⟩

theorem tS_arith {x y : Ast} (h0 : a.kid 0 = some x) (h1 : a.kid 1 = some y) (wx : Wf Γ .S x) (wy : Wf Γ .S y)
    (hop : isOperandPos (some a.id) = true) : T0 AnyV IsTy (viArithmetic Γ v a) := by
  unfold viArithmetic
  apply t0_bind (t0_childTypeS hv hd h0 wx hop); rintro r1 ⟨t1, rfl⟩
  apply t0_bind (t0_expectTy _ _); rintro _ rfl
  split
  · exact t0_kidErr h0 _ _
  · apply t0_bind (t0_childTypeS hv hd h1 wy hop); rintro r2 ⟨t2, rfl⟩
    apply t0_bind (t0_expectTy _ _); rintro _ rfl
    split
    · exact t0_kidErr h1 _ _
    · split
      · exact t0_kidErr h1 _ _
      · exact t0_setCur _ (isTy_ty _)

theorem tL_order {x y : Ast} (h0 : a.kid 0 = some x) (h1 : a.kid 1 = some y) (wx : Wf Γ .S x) (wy : Wf Γ .S y)
    (hop : isOperandPos (some a.id) = true) : T0 AnyV AnyC (viIntegerPredicate Γ v a) := by
  unfold viIntegerPredicate
  apply t0_bind (t0_childTypeS hv hd h0 wx hop); rintro r1 ⟨t1, rfl⟩
  apply t0_bind (t0_expectTy _ _); rintro _ rfl
  split
  · exact t0_kidErr h0 _ _
  · apply t0_bind (t0_childTypeS hv hd h1 wy hop); rintro r2 ⟨t2, rfl⟩
    apply t0_bind (t0_expectTy _ _); rintro _ rfl
    split
    · exact t0_kidErr h1 _ _
    · split
      · exact t0_kidErr h1 _ _
      · exact t0_setCur _ trivial

theorem tL_equals {x y : Ast} (h0 : a.kid 0 = some x) (h1 : a.kid 1 = some y) (wx : Wf Γ .S x) (wy : Wf Γ .S y)
    (hop : isOperandPos (some a.id) = true) : T0 AnyV AnyC (viEquals Γ v a) := by
  unfold viEquals
  apply t0_bind (t0_childTypeS hv hd h0 wx hop); rintro r1 ⟨t1, rfl⟩
  apply t0_bind (t0_expectTy _ _); rintro _ rfl
  apply t0_bind (t0_childTypeS hv hd h1 wy hop); rintro r2 ⟨t2, rfl⟩
  apply t0_bind (t0_expectTy _ _); rintro _ rfl
  split
  · exact t0_kidErr h1 _ _
  · exact t0_setCur _ trivial

theorem tL_setpred {x y : Ast} (h0 : a.kid 0 = some x) (h1 : a.kid 1 = some y) (wx : Wf Γ .S x) (wy : Wf Γ .S y)
    (hop : isOperandPos (some a.id) = true) : T0 AnyV AnyC (viSetexprPredicate Γ v a) := by
  unfold viSetexprPredicate
  apply t0_bind (t0_childTypeDebool hv hd h1 wy hop _ false (by simp)); intro d2 _
  apply t0_bind (t0_childTypeS hv hd h0 wx hop); rintro r1 ⟨t1, rfl⟩
  simp only [compatE]
  split
  · rename_i h; cases h
  · exact t0_setCur _ trivial
  · exact t0_kidErr h1 _ _

theorem tS_debool1 {x : Ast} (h0 : a.kid 0 = some x) (wx : Wf Γ .S x)
    (hop : isOperandPos (some a.id) = true) (eid : Nat) (f : Ty → ExprTy) (hf : ∀ t, IsTy (f t)) :
    T0 AnyV IsTy (M.bind (childTypeDebool v a 0 eid) fun t => setCur (f t)) := by
  apply t0_bind (t0_childTypeDebool hv hd h0 wx hop _ false (by simp)); intro t _
  exact t0_setCur _ (hf t)

theorem tS_reduce {x : Ast} (h0 : a.kid 0 = some x) (wx : Wf Γ .S x)
    (hop : isOperandPos (some a.id) = true) : T0 AnyV IsTy (viReduce v a) := by
  unfold viReduce
  apply t0_bind (t0_childTypeS hv hd h0 wx hop); rintro r1 ⟨t1, rfl⟩
  apply t0_bind (t0_expectTy _ _); rintro _ rfl
  split
  · exact t0_setCur _ (isTy_ty _)
  · split
    · exact t0_setCur _ (isTy_ty _)
    · exact t0_kidErr h0 _ _

theorem tS_setbin {x y : Ast} (h0 : a.kid 0 = some x) (h1 : a.kid 1 = some y) (wx : Wf Γ .S x) (wy : Wf Γ .S y)
    (hop : isOperandPos (some a.id) = true) : T0 AnyV IsTy (viSetexprBinary Γ v a) := by
  unfold viSetexprBinary
  apply t0_bind (t0_childTypeDebool hv hd h0 wx hop _ false (by simp)); intro t1 _
  apply t0_bind (t0_childTypeDebool hv hd h1 wy hop _ false (by simp)); intro t2 _
  split
  · exact t0_kidErr h1 _ _
  · exact t0_setCur _ (isTy_ty _)

/-- all children from index `i` on are set expressions -/
def KidsS (Γ : Ctx) (a : Ast) : Prop := ∀ k, k ∈ a.kids → Wf Γ .S k

theorem tS_enumGo (hS : KidsS Γ a) (hop : isOperandPos (some a.id) = true) :
    ∀ (m child : Nat) (t : Ty), child + m ≤ a.kids.length → T0 AnyV AnyC (enumGo Γ v a m child t)
  | 0, _, _, _ => t0_pure _ trivial
  | m+1, child, t, hle => by
    unfold enumGo
    obtain ⟨k, hk, hmem⟩ := kidAt (a := a) (i := child) (by omega)
    apply t0_bind (t0_childTypeS hv hd hk (hS k hmem) hop); rintro r ⟨ct, rfl⟩
    apply t0_bind (t0_expectTy _ _); rintro _ rfl
    split
    · exact t0_kidErr hk _ _
    · exact tS_enumGo hS hop m (child + 1) _ (by omega)

theorem tS_enum (hS : KidsS Γ a) (hne : 0 < a.kids.length) (hop : isOperandPos (some a.id) = true) :
    T0 AnyV IsTy (viEnumeration Γ v a) := by
  unfold viEnumeration
  obtain ⟨k, hk, hmem⟩ := kidAt (a := a) (i := 0) hne
  apply t0_bind (t0_childTypeS hv hd hk (hS k hmem) hop); rintro r ⟨t0, rfl⟩
  apply t0_bind (t0_expectTy _ _); rintro _ rfl
  apply t0_bind (tS_enumGo hv hd hS hop _ _ _ (by omega)); intro t _
  exact t0_setCur _ (isTy_ty _)

theorem tS_deboolAll (hS : KidsS Γ a) (hop : isOperandPos (some a.id) = true) (eid : Nat) :
    ∀ (m i : Nat), i + m ≤ a.kids.length → T0 (fun l : List Ty => l.length = m) AnyC (deboolAll v a eid m i)
  | 0, _, _ => t0_pure _ rfl
  | m+1, i, hle => by
    unfold deboolAll
    obtain ⟨k, hk, hmem⟩ := kidAt (a := a) (i := i) (by omega)
    apply t0_bind (t0_childTypeDebool hv hd hk (hS k hmem) hop _ false (by simp)); intro t _
    apply t0_bind (tS_deboolAll hS hop eid m (i + 1) (by omega)); intro ts hts
    exact t0_pure _ (by simp [hts])

theorem tS_typesAll (hS : KidsS Γ a) (hop : isOperandPos (some a.id) = true) (site : String) :
    ∀ (m i : Nat), i + m ≤ a.kids.length → T0 (fun l : List Ty => l.length = m) AnyC (typesAll v a site m i)
  | 0, _, _ => t0_pure _ rfl
  | m+1, i, hle => by
    unfold typesAll
    obtain ⟨k, hk, hmem⟩ := kidAt (a := a) (i := i) (by omega)
    apply t0_bind (t0_childTypeS hv hd hk (hS k hmem) hop); rintro r ⟨t, rfl⟩
    apply t0_bind (t0_expectTy _ _); rintro _ rfl
    apply t0_bind (tS_typesAll hS hop site m (i + 1) (by omega)); intro ts hts
    exact t0_pure _ (by simp [hts])

omit hv hd in
theorem ne_nil_of_length {α} {l : List α} {m : Nat} (h : l.length = m) (hm : 0 < m) : l ≠ [] := by
  intro e; subst e; simp at h; omega

theorem tS_decart (hS : KidsS Γ a) (hne : 0 < a.kids.length) (hop : isOperandPos (some a.id) = true) :
    T0 AnyV IsTy (viDecart v a) := by
  unfold viDecart
  apply t0_bind (tS_deboolAll hv hd hS hop _ _ 0 (by omega)); intro fs hfs
  apply t0_bind (t0_mkTuple _ (ne_nil_of_length hfs hne)); intro t _
  exact t0_setCur _ (isTy_ty _)

theorem tS_tuple (hS : KidsS Γ a) (hne : 0 < a.kids.length) (hop : isOperandPos (some a.id) = true) :
    T0 AnyV IsTy (viTuple v a) := by
  unfold viTuple
  apply t0_bind (tS_typesAll hv hd hS hop _ _ 0 (by omega)); intro fs hfs
  apply t0_bind (t0_mkTuple _ (ne_nil_of_length hfs hne)); intro t _
  exact t0_setCur _ (isTy_ty _)

omit hv hd in
theorem pickComponents_length (cs : List Ty) : ∀ (idx : List Int) (comps : List Ty),
    pickComponents cs idx = some comps → comps.length = idx.length
  | [], comps, h => by simp [pickComponents] at h; subst h; rfl
  | i :: is, comps, h => by
    unfold pickComponents at h
    split at h
    · split at h
      · rename_i c rest _ h2
        simp at h; subst h
        simp [pickComponents_length cs is rest h2]
      · cases h
    · cases h

omit hv hd in
theorem pick_ne_nil {cs : List Ty} {idx : List Int} {comps : List Ty}
    (h : pickComponents cs idx = some comps) (hne : idx ≠ []) : comps ≠ [] := by
  have := pickComponents_length cs idx comps h
  intro e; subst e
  cases idx with
  | nil => exact hne rfl
  | cons i is => simp at this

theorem tS_projSet {x : Ast} {idx : List Int} (hdt : a.data = .tuple idx) (hne : idx ≠ [])
    (h0 : a.kid 0 = some x) (wx : Wf Γ .S x) (hop : isOperandPos (some a.id) = true) :
    T0 AnyV IsTy (viProjectSet v a) := by
  unfold viProjectSet
  apply t0_bind (t0_childTypeDebool hv hd h0 wx hop _ true (fun _ => ⟨idx, hdt, hne⟩)); intro arg _
  split
  · exact t0_setCur _ (isTy_ty _)
  · split
    · have : T0 (fun l => idx = l) AnyC (tupleOfData a) := by
        unfold tupleOfData; rw [hdt]; exact t0_pure _ rfl
      apply t0_bind this; rintro _ rfl
      split
      · exact t0_kidErrTok h0 hdt hne _
      · rename_i comps hp
        apply t0_bind (t0_mkTuple _ (pick_ne_nil hp hne)); intro t _
        exact t0_setCur _ (isTy_ty _)
    · exact t0_kidErrTok h0 hdt hne _

theorem tS_projTuple {x : Ast} {idx : List Int} (hdt : a.data = .tuple idx) (hne : idx ≠ [])
    (h0 : a.kid 0 = some x) (wx : Wf Γ .S x) (hop : isOperandPos (some a.id) = true) :
    T0 AnyV IsTy (viProjectTuple v a) := by
  unfold viProjectTuple
  apply t0_bind (t0_childTypeS hv hd h0 wx hop); rintro r ⟨arg, rfl⟩
  apply t0_bind (t0_expectTy _ _); rintro _ rfl
  split
  · exact t0_setCur _ (isTy_ty _)
  · split
    · have : T0 (fun l => idx = l) AnyC (tupleOfData a) := by
        unfold tupleOfData; rw [hdt]; exact t0_pure _ rfl
      apply t0_bind this; rintro _ rfl
      split
      · exact t0_kidErrTok h0 hdt hne _
      · rename_i comps hp
        apply t0_bind (t0_mkTuple _ (pick_ne_nil hp hne)); intro t _
        exact t0_setCur _ (isTy_ty _)
    · exact t0_kidErrTok h0 hdt hne _

theorem tS_visitParamsGo (hS : KidsS Γ a) : ∀ (m child : Nat), child + m ≤ a.kids.length →
    T0 AnyV AnyC (visitParamsGo v a m child)
  | 0, _, _ => t0_pure _ trivial
  | m+1, child, hle => by
    unfold visitParamsGo
    obtain ⟨k, hk, hmem⟩ := kidAt (a := a) (i := child) (by omega)
    apply t0_bind (t0_childTypeAny hv hd hk (hS k hmem) (Or.inl rfl)); intro _ _
    exact tS_visitParamsGo hS m (child + 1) (by omega)

theorem tS_filterParamsGo (hS : KidsS Γ a) (hop : isOperandPos (some a.id) = true) :
    ∀ (m child : Nat) (bases : List Ty), child + m ≤ a.kids.length → bases.length = m →
    T0 AnyV AnyC (filterParamsGo Γ v a m child bases)
  | 0, _, _, _, _ => t0_pure _ trivial
  | m+1, child, bases, hle, hb => by
    unfold filterParamsGo
    obtain ⟨k, hk, hmem⟩ := kidAt (a := a) (i := child) (by omega)
    apply t0_bind (t0_childTypeS hv hd hk (hS k hmem) hop); rintro r ⟨pt, rfl⟩
    apply t0_bind (t0_expectTy _ _); rintro _ rfl
    cases bases with
    | nil => simp at hb
    | cons b rest =>
      dsimp only
      split
      · split
        · exact tS_filterParamsGo hS hop m (child + 1) rest (by omega) (by simpa using hb)
        · exact t0_kidErr hk _ _
      · exact t0_kidErr hk _ _

theorem tS_filter {idx : List Int} (hdt : a.data = .tuple idx) (hne : idx ≠ [])
    (hS : KidsS Γ a) (hlen : 2 ≤ a.kids.length) (hop : isOperandPos (some a.id) = true) :
    T0 AnyV IsTy (viFilter Γ v a) := by
  unfold viFilter
  have : T0 (fun l => idx = l) AnyC (tupleOfData a) := by
    unfold tupleOfData; rw [hdt]; exact t0_pure _ rfl
  apply t0_bind this; rintro _ rfl
  dsimp only
  split
  · exact t0_errFail _ _
  · obtain ⟨ka, hka, hma⟩ := kidAt (a := a) (i := a.kids.length - 1) (by omega)
    obtain ⟨k0, hk0, hm0⟩ := kidAt (a := a) (i := 0) (by omega)
    apply t0_bind (t0_childTypeS hv hd hka (hS ka hma) hop); rintro r ⟨arg, rfl⟩
    apply t0_bind (t0_expectTy _ _); rintro _ rfl
    split
    · apply t0_bind (tS_visitParamsGo hv hd hS _ _ (by omega)); intro _ _
      exact t0_setCur _ (isTy_ty _)
    · split
      · split
        · exact t0_kidErrTok hka hdt hne _
        · rename_i bases hp
          have hbl := pickComponents_length _ _ _ hp
          split
          · rename_i htp
            have : idx.length + 1 = a.kids.length := by simpa using htp
            apply t0_bind (tS_filterParamsGo hv hd hS hop _ _ _ (by omega) (by omega)); intro _ _
            exact t0_setCur _ (isTy_ty _)
          · apply t0_bind (t0_childTypeS hv hd hk0 (hS k0 hm0) hop); rintro pr ⟨pt, rfl⟩
            apply t0_bind (t0_expectTy _ _); rintro _ rfl
            apply t0_bind (t0_mkTuple _ (pick_ne_nil hp hne)); intro et _
            split
            · exact t0_setCur _ (isTy_ty _)
            · exact t0_kidErr hk0 _ _
      · exact t0_kidErrTok hka hdt hne _


/-! ### declarations -/

/-- frame of a declaration visit -/
def FrD (s s' : St) : Prop :=
  s'.localDecl = s.localDecl ∧ s'.argDecl = s.argDecl ∧ s'.silent = false ∧ s'.args = s.args

omit hv hd in
theorem tD_local {x : String} {lo hi : Int} {ks : List Ast} :
    TD true (viLocal (.node .ID_LOCAL (.text x) lo hi ks)) := by
  refine ⟨fun s hs => ?_⟩
  obtain ⟨⟨t, hc⟩, hfl, hsil⟩ := hs
  have hflag : (decide (s.localDecl > 0) || decide (s.argDecl > 0)) = true := by
    rcases hfl with h | h <;> simp [h]
  have e : viLocal (.node .ID_LOCAL (.text x) lo hi ks) s = addLocal x t lo s := by
    simp only [viLocal, textOf, Ast.data, M.bind, M.pure, getSt, hflag, if_true, hc, expectTy, Ast.lo]
  rw [e]; unfold addLocal
  cases hf : findLocal x s.locals with
  | none => exact ⟨fun _ => rfl, rfl, rfl, hsil, rfl⟩
  | some pr =>
    obtain ⟨i, w⟩ := pr
    dsimp only
    by_cases he : w.enabled = true
    · simp only [he, if_true]; exact hsil
    · simp only [he]; exact ⟨fun _ => rfl, rfl, rfl, hsil, rfl⟩

omit hd in
theorem tf_tupleDeclGo (p : Tok) : ∀ (ks : List Ast) (cs : List Ty),
    (∀ k, k ∈ ks → TD true (v (some p) k)) → ks.length = cs.length →
    ∀ s, ((s.localDecl > 0 ∨ s.argDecl > 0) ∧ s.silent = false) →
      match tupleDeclGo v p ks cs s with
      | (.ok _, s') => FrD s s'
      | (.fail, s') => s'.silent = false
      | (.stuck _, _) => False
  | [], _, _, _, s, hs => by unfold tupleDeclGo; exact ⟨rfl, rfl, hs.2, rfl⟩
  | _ :: _, [], _, hl, _, _ => by simp at hl
  | k :: ks, c :: cs, hk, hl, s, hs => by
    simp only [tupleDeclGo, M.bind, setCur]
    have h1 := (hk k (by simp)).run { s with cur := .ty c } ⟨⟨c, rfl⟩, hs.1, hs.2⟩
    generalize v (some p) k { s with cur := .ty c } = r at h1
    obtain ⟨r, s1⟩ := r
    cases r with
    | ok u =>
      obtain ⟨_, f1, f2, f3, f4⟩ := h1
      dsimp only at f1 f2 f4 ⊢
      have ih := tf_tupleDeclGo p ks cs (fun k' hk' => hk k' (by simp [hk'])) (by simpa using hl) s1
        ⟨by rw [f1, f2]; exact hs.1, f3⟩
      generalize tupleDeclGo v p ks cs s1 = r2 at ih
      obtain ⟨r2, s2⟩ := r2
      cases r2 with
      | ok u2 => exact ⟨ih.1.trans f1, ih.2.1.trans f2, ih.2.2.1, ih.2.2.2.trans f4⟩
      | fail => exact ih
      | stuck x => exact ih
    | fail => exact h1
    | stuck x => exact h1

theorem tD_tuple {d : TokData} {lo hi : Int} {k : Ast} {ks : List Ast}
    (ha : a = .node .NT_TUPLE_DECL d lo hi (k :: ks)) (hw : ∀ k', k' ∈ k :: ks → Wf Γ .D k') :
    TD true (viTupleDeclaration v a) := by
  have hkids : ∀ k', k' ∈ a.kids → TD true (v (some a.id) k') := by
    intro k' hk'
    have hd' : Ast.depth k' ≤ n := by have := depth_kid hk'; omega
    subst ha
    exact hv .D _ k' (hw k' hk') hd'
  have hk0 : a.kid 0 = some k := by subst ha; rfl
  refine ⟨fun s hs => ?_⟩
  obtain ⟨⟨t, hc⟩, hfl, hsil⟩ := hs
  cases t with
  | base x => simp only [viTupleDeclaration, M.bind, getSt, hc, expectTy, M.pure, kidM, hk0, errFail]; exact hsil
  | coll b => simp only [viTupleDeclaration, M.bind, getSt, hc, expectTy, M.pure, kidM, hk0, errFail]; exact hsil
  | tuple cs =>
    by_cases hlen : (cs.length != a.kids.length) = true
    · simp only [viTupleDeclaration, M.bind, getSt, hc, expectTy, M.pure, kidM, hk0, errFail, hlen, if_true]; exact hsil
    · have hl : a.kids.length = cs.length := by
        simp at hlen; omega
      have h1 := tf_tupleDeclGo hv a.id a.kids cs hkids hl s ⟨hfl, hsil⟩
      simp only [viTupleDeclaration, M.bind, getSt, hc, expectTy, M.pure, hlen, Bool.false_eq_true, if_false]
      generalize tupleDeclGo v a.id a.kids cs s = r at h1
      obtain ⟨r, s1⟩ := r
      cases r with
      | ok u => exact ⟨fun _ => by simp [setCur, hc], h1.1, h1.2.1, h1.2.2.1, h1.2.2.2⟩
      | fail => exact h1
      | stuck x => exact h1

omit hd in
theorem tf_visitAllD (p : Tok) : ∀ (ks : List Ast), (∀ k, k ∈ ks → TD true (v (some p) k)) →
    ∀ s, DM s → match visitAll v p ks s with
      | (.ok _, s') => s'.cur = s.cur ∧ FrD s s'
      | (.fail, s') => s'.silent = false
      | (.stuck _, _) => False
  | [], _, s, hs => by unfold visitAll; exact ⟨rfl, rfl, rfl, hs.2.2, rfl⟩
  | k :: ks, hk, s, hs => by
    simp only [visitAll, M.bind]
    have h1 := (hk k (by simp)).run s hs
    generalize v (some p) k s = r at h1
    obtain ⟨r, s1⟩ := r
    cases r with
    | ok u =>
      obtain ⟨c1, f1, f2, f3, f4⟩ := h1
      have hs1 : DM s1 := ⟨by rw [c1 rfl]; exact hs.1, by rw [f1, f2]; exact hs.2.1, f3⟩
      have ih := tf_visitAllD p ks (fun k' hk' => hk k' (by simp [hk'])) s1 hs1
      dsimp only
      generalize visitAll v p ks s1 = r2 at ih
      obtain ⟨r2, s2⟩ := r2
      cases r2 with
      | ok u2 => exact ⟨ih.1.trans (c1 rfl), ih.2.1.trans f1, ih.2.2.1.trans f2, ih.2.2.2.1, ih.2.2.2.2.trans f4⟩
      | fail => exact ih
      | stuck x => exact ih
    | fail => exact h1
    | stuck x => exact h1

theorem tDE_enum {d : TokData} {lo hi : Int} {ks : List Ast}
    (ha : a = .node .NT_ENUM_DECL d lo hi ks) (hw : ∀ k, k ∈ ks → Wf Γ .D k) :
    TD false (viAllLogic v a) := by
  have hkids : ∀ k', k' ∈ a.kids → TD true (v (some a.id) k') := by
    intro k' hk'
    have hd' : Ast.depth k' ≤ n := by have := depth_kid hk'; omega
    subst ha
    exact hv .D _ k' (hw k' hk') hd'
  refine ⟨fun s hs => ?_⟩
  have h1 := tf_visitAllD hv a.id a.kids hkids s hs
  simp only [viAllLogic, M.bind]
  generalize visitAll v a.id a.kids s = r at h1
  obtain ⟨r, s1⟩ := r
  cases r with
  | ok u => exact ⟨(fun h => Bool.noConfusion h), h1.2.1, h1.2.2.1, h1.2.2.2.1, h1.2.2.2.2⟩
  | fail => exact h1
  | stuck x => exact h1

omit hv hd in
theorem td_weaken {m : M Unit} (h : TD true m) : TD false m := by
  refine ⟨fun s hs => ?_⟩
  have := h.run s hs
  generalize m s = r at this
  obtain ⟨r, s1⟩ := r
  cases r with
  | ok u => exact ⟨(fun h => Bool.noConfusion h), this.2⟩
  | fail => exact this
  | stuck x => exact this

/-- `VisitChildDeclaration` on a declaration child -/
theorem t0_visitChildDecl {k : Ast} {i : Nat} (hk : a.kid i = some k) (hw : Wf Γ .DE k) (dom : Ty) :
    T0 AnyV AnyC (visitChildDecl v a i dom) := by
  have hd' := kid_depth hv hd hk
  have htd : TD false (v (some a.id) k) := hv .DE (some a.id) k hw hd'
  refine ⟨fun s hs => ?_⟩
  obtain ⟨h1, h2, h3⟩ := hs
  simp only [visitChildDecl, M.bind, setCur, modifySt, visitChild, kidM, hk, M.pure]
  have hrun := htd.run { s with cur := .ty dom, localDecl := s.localDecl + 1 }
    ⟨⟨dom, rfl⟩, Or.inl (by simp), h3⟩
  generalize v (some a.id) k { s with cur := .ty dom, localDecl := s.localDecl + 1 } = r at hrun
  obtain ⟨r, s1⟩ := r
  cases r with
  | ok u =>
    obtain ⟨_, f1, f2, f3, f4⟩ := hrun
    dsimp only at f1 f2 f4 ⊢
    refine ⟨⟨?_, ?_, f3⟩, f4, trivial, trivial⟩
    · simp [f1, h1]
    · simp [f2, h2]
  | fail => exact hrun
  | stuck x => exact hrun

/-! ### binders -/

omit hv hd in
theorem t0_startScope : T0 AnyV AnyC startScope := t0_modify _ (fun _ => ⟨rfl, rfl, rfl, rfl⟩)
omit hv hd in
theorem t0_clearLocals : T0 AnyV AnyC clearLocals := t0_modify _ (fun _ => ⟨rfl, rfl, rfl, rfl⟩)
omit hv hd in
theorem t0_endScope (pos : Int) : T0 AnyV AnyC (endScope pos) := t0_modify _ (fun _ => ⟨rfl, rfl, rfl, rfl⟩)

theorem tL_quant {p dom body : Ast} (h0 : a.kid 0 = some p) (h1 : a.kid 1 = some dom) (h2 : a.kid 2 = some body)
    (wp : Wf Γ .DE p) (wd : Wf Γ .S dom) (wb : Wf Γ .L body) (hop : isOperandPos (some a.id) = true) :
    T0 AnyV AnyC (viQuantifier v a) := by
  unfold viQuantifier
  apply t0_bind (t0_startScope); intro _ _
  apply t0_bind (t0_childTypeDebool hv hd h1 wd hop _ false (by simp)); intro domain _
  apply t0_bind (t0_visitChildDecl hv hd h0 wp _); intro _ _
  apply t0_bind (t0_visitChild hv hd h2 wb (Or.inr rfl)); intro _ _
  apply t0_bind (t0_endScope _); intro _ _
  exact t0_setCur _ trivial

theorem tS_declarative {p dom body : Ast} (h0 : a.kid 0 = some p) (h1 : a.kid 1 = some dom) (h2 : a.kid 2 = some body)
    (wp : Wf Γ .DE p) (wd : Wf Γ .S dom) (wb : Wf Γ .L body) (hop : isOperandPos (some a.id) = true) :
    T0 AnyV IsTy (viDeclarative v a) := by
  unfold viDeclarative
  apply t0_bind (t0_startScope); intro _ _
  apply t0_bind (t0_childTypeDebool hv hd h1 wd hop _ false (by simp)); intro domain _
  apply t0_bind (t0_visitChildDecl hv hd h0 wp _); intro _ _
  apply t0_bind (t0_visitChild hv hd h2 wb (Or.inr rfl)); intro _ _
  apply t0_bind (t0_endScope _); intro _ _
  exact t0_setCur _ (isTy_ty _)

theorem t0_visitAllL (p : Tok) (hp : p = a.id) : ∀ (ks : List Ast), (∀ k, k ∈ ks → k ∈ a.kids ∧ Wf Γ .L k) →
    T0 AnyV AnyC (visitAll v p ks)
  | [], _ => t0_pure _ trivial
  | k :: ks, h => by
    unfold visitAll
    have hk := h k (by simp)
    have hd' : Ast.depth k ≤ n := by have := depth_kid hk.1; omega
    have : T0 AnyV AnyC (v (some p) k) := hv .L (some p) k hk.2 hd'
    apply t0_bind this; intro _ _
    exact t0_visitAllL p hp ks fun k' hk' => h k' (by simp [hk'])

theorem tS_imperative {value : Ast} (h0 : a.kid 0 = some value) (wv : Wf Γ .S value)
    (wb : ∀ k, k ∈ a.kids.drop 1 → Wf Γ .L k) (hop : isOperandPos (some a.id) = true) :
    T0 AnyV IsTy (viImperative v a) := by
  unfold viImperative visitFrom
  apply t0_bind (t0_startScope); intro _ _
  apply t0_bind (t0_visitAllL hv hd a.id rfl _ fun k hk => ⟨List.mem_of_mem_drop hk, wb k hk⟩); intro _ _
  apply t0_bind (t0_childTypeS hv hd h0 wv hop); rintro r ⟨t, rfl⟩
  apply t0_bind (t0_endScope _); intro _ _
  apply t0_bind (t0_expectTy _ _); rintro _ rfl
  exact t0_setCur _ (isTy_ty _)

theorem tL_iterate {p dom : Ast} (h0 : a.kid 0 = some p) (h1 : a.kid 1 = some dom)
    (wp : Wf Γ .DE p) (wd : Wf Γ .S dom) (hop : isOperandPos (some a.id) = true) :
    T0 AnyV AnyC (viIterate v a) := by
  unfold viIterate
  apply t0_bind (t0_childTypeDebool hv hd h1 wd hop _ false (by simp)); intro domain _
  exact t0_visitChildDecl hv hd h0 wp _

theorem tL_assign {p ex : Ast} (h0 : a.kid 0 = some p) (h1 : a.kid 1 = some ex)
    (wp : Wf Γ .DE p) (we : Wf Γ .S ex) (hop : isOperandPos (some a.id) = true) :
    T0 AnyV AnyC (viAssign v a) := by
  unfold viAssign
  apply t0_bind (t0_childTypeS hv hd h1 we hop); rintro r ⟨t, rfl⟩
  apply t0_bind (t0_expectTy _ _); rintro _ rfl
  exact t0_visitChildDecl hv hd h0 wp _

theorem tS_recursionRounds {p step : Ast} {idx : Nat} (h0 : a.kid 0 = some p) (hi : a.kid idx = some step)
    (wp : Wf Γ .DE p) (ws : Wf Γ .S step) (hop : isOperandPos (some a.id) = true) :
    ∀ (m : Nat) (it : Ty), T0 AnyV AnyC (recursionRounds Γ.traits v a idx m it)
  | 0, _ => t0_pure _ trivial
  | m+1, it => by
    unfold recursionRounds
    apply t0_bind (t0_clearLocals); intro _ _
    apply t0_bind (t0_visitChildDecl hv hd h0 wp _); intro _ _
    apply t0_bind (t0_childTypeS hv hd hi ws hop); rintro r ⟨nt, rfl⟩
    apply t0_bind (t0_expectTy _ _); rintro _ rfl
    split
    · exact t0_pure _ trivial
    · split
      · exact t0_pure _ trivial
      · exact tS_recursionRounds h0 hi wp ws hop m _

theorem tS_recursion {p init step : Ast} (h0 : a.kid 0 = some p) (h1 : a.kid 1 = some init)
    (hi : a.kid (if a.id == .NT_RECURSIVE_FULL then 3 else 2) = some step)
    (hc : a.id == .NT_RECURSIVE_FULL → ∃ cond, a.kid 2 = some cond ∧ Wf Γ .L cond)
    (wp : Wf Γ .DE p) (wi : Wf Γ .S init) (ws : Wf Γ .S step) (hop : isOperandPos (some a.id) = true) :
    T0 AnyV IsTy (viRecursion Γ v a) := by
  unfold viRecursion
  apply t0_bind (t0_startScope); intro _ _
  apply t0_bind (t0_childTypeS hv hd h1 wi hop); rintro r ⟨initT, rfl⟩
  apply t0_bind (t0_expectTy _ _); rintro _ rfl
  apply t0_bind (t0_visitChildDecl hv hd h0 wp _); intro _ _
  dsimp only
  apply t0_bind (t0_childTypeS hv hd hi ws hop); rintro itR ⟨it0, rfl⟩
  simp only [compatE]
  split
  · rename_i h; cases h
  · exact t0_kidErr hi _ _
  · apply t0_bind (t0_expectTy _ _); rintro _ rfl
    split
    · exact t0_kidErr hi _ _
    · apply t0_bind (V1 := AnyV) (C1 := AnyC)
      · exact t0_modify _ (fun _ => ⟨rfl, rfl, rfl, rfl⟩)
      intro _ _
      apply t0_bind (tS_recursionRounds hv hd h0 hi wp ws hop _ _); intro it _
      apply t0_bind (V1 := AnyV) (C1 := AnyC)
      · exact t0_modify _ (fun _ => ⟨rfl, rfl, rfl, rfl⟩)
      intro _ _
      have hcond : T0 AnyV AnyC (if (a.id == .NT_RECURSIVE_FULL) = true then visitChild v a 2 else M.pure ()) := by
        split
        · rename_i hf; obtain ⟨cond, hk2, wc⟩ := hc hf
          exact t0_visitChild hv hd hk2 wc (Or.inr rfl)
        · exact t0_pure _ trivial
      split
      · exact t0_kidErr hi _ _
      · apply t0_bind hcond; intro _ _
        apply t0_bind (t0_endScope _); intro _ _
        exact t0_setCur _ (isTy_ty _)

/-! ### calls -/

theorem t0_checkArgsGo (fn : String) (hS : ∀ i k, 1 ≤ i → a.kid i = some k → Wf Γ .S k)
    (hop : isOperandPos (some a.id) = true) :
    ∀ (m : Nat) (decl : List (String × Ty)) (child : Nat) (subs : Subst),
      1 ≤ child → child + m ≤ a.kids.length → decl.length = m →
      T0 AnyV AnyC (checkArgsGo Γ v a fn m decl child subs)
  | 0, _, _, _, _, _, _ => t0_pure _ trivial
  | m+1, decl, child, subs, h1, hle, hl => by
    unfold checkArgsGo
    obtain ⟨k, hk, _⟩ := kidAt (a := a) (i := child) (by omega)
    apply t0_bind (t0_childTypeS hv hd hk (hS child k h1 hk) hop); rintro ct ⟨vt, rfl⟩
    dsimp only
    cases decl with
    | nil => simp at hl
    | cons dcl rest =>
      obtain ⟨dn, dt⟩ := dcl
      dsimp only
      split
      · exact t0_kidErr hk _ _
      · exact t0_checkArgsGo fn hS hop m rest (child + 1) _ (by omega) (by omega) (by simpa using hl)

theorem t0_call {tf : Tok} {f : String} {lf hf : Int} {kf : List Ast}
    (h0 : a.kid 0 = some (.node tf (.text f) lf hf kf)) (hlen : 2 ≤ a.kids.length)
    (hS : ∀ i k, 1 ≤ i → a.kid i = some k → Wf Γ .S k) (hop : isOperandPos (some a.id) = true) :
    T0 AnyV (fun τ => lookup Γ.types f ≠ some .logic → IsTy τ) (viFunctionCall Γ v a) := by
  unfold viFunctionCall
  apply t0_bind (t0_kidM h0); rintro _ rfl
  have : T0 (fun x => f = x) AnyC (textOf (.node tf (.text f) lf hf kf)) := t0_pure _ rfl
  apply t0_bind this; rintro _ rfl
  cases hft : lookup Γ.types f with
  | none => exact t0_errFail _ _
  | some ft =>
    dsimp only
    have hargs : T0 AnyV AnyC (checkFuncArguments Γ v a f) := by
      unfold checkFuncArguments
      split
      · exact t0_kidErr h0 _ _
      · dsimp only
        split
        · obtain ⟨k1, hk1, _⟩ := kidAt (a := a) (i := 1) (by omega)
          exact t0_kidErr hk1 _ _
        · rename_i decl _ hlen'
          have : decl.length = a.kids.length - 1 := by simpa using hlen'
          exact t0_checkArgsGo hv hd f hS hop _ _ _ _ (Nat.le_refl _) (by omega) this
    apply t0_bind hargs; intro subs _
    cases ft with
    | logic => exact t0_setCur _ (fun h => absurd rfl h)
    | ty t => exact t0_setCur _ (fun _ => isTy_ty _)


/-! ### leaves and connectives -/

omit hv hd in
theorem tS_global (p : Option Tok) {tok : Tok} {x : String} {lo hi : Int} {ks : List Ast} :
    T0 AnyV (fun τ => isOperandPos p = true → IsTy τ) (viGlobal Γ p (.node tok (.text x) lo hi ks)) := by
  unfold viGlobal
  have : T0 (fun y => x = y) AnyC (textOf (.node tok (.text x) lo hi ks)) := t0_pure _ rfl
  apply t0_bind this; rintro _ rfl
  split
  · exact t0_errFail _ _
  · split
    · exact t0_errFail _ _
    · rename_i t _
      split
      · exact t0_errFail _ _
      · rename_i hcond
        refine t0_setCur _ (fun hop => ?_)
        cases t with
        | logic => simp [isLogicTy, hop] at hcond
        | ty t => exact isTy_ty _

omit hv hd in
theorem tS_local {x : String} {lo hi : Int} {ks : List Ast} :
    T0 AnyV IsTy (viLocal (.node .ID_LOCAL (.text x) lo hi ks)) := by
  refine ⟨fun s hs => ?_⟩
  obtain ⟨h1, h2, h3⟩ := hs
  have hflag : (decide (s.localDecl > 0) || decide (s.argDecl > 0)) = false := by simp [h1, h2]
  have e : viLocal (.node .ID_LOCAL (.text x) lo hi ks) s = (M.bind (getLocal x lo) fun t => setCur (.ty t)) s := by
    simp only [viLocal, textOf, Ast.data, M.bind, M.pure, getSt, hflag, Ast.lo, Bool.false_eq_true, if_false]
  rw [e]; unfold M.bind getLocal
  cases hf : findLocal x s.locals with
  | none =>
    have : ¬ s.argDecl > 0 := by omega
    simp only [this, if_false]; exact h3
  | some pr =>
    obtain ⟨i, w⟩ := pr
    dsimp only
    by_cases he : (!w.enabled) = true
    · simp only [he, if_true]; exact h3
    · simp only [he]; exact ⟨⟨h1, h2, h3⟩, rfl, trivial, isTy_ty _⟩

omit hv hd in
theorem tS_radical {x : String} {lo hi : Int} {ks : List Ast} :
    T0 AnyV IsTy (viRadical Γ (.node .ID_RADICAL (.text x) lo hi ks)) := by
  unfold viRadical
  have : T0 (fun y => x = y) AnyC (textOf (.node .ID_RADICAL (.text x) lo hi ks)) := t0_pure _ rfl
  apply t0_bind this; rintro _ rfl
  apply t0_bind t0_getSt; intro s _
  split
  · exact t0_errFail _ _
  · exact t0_setCur _ (isTy_ty _)

omit hv hd in
theorem tS_emptySet (p : Option Tok) (a : Ast) : T0 AnyV IsTy (viEmptySet p a) := by
  unfold viEmptySet
  split
  · exact t0_errFail _ _
  · exact t0_setCur _ (isTy_ty _)

theorem tL_allLogic (hL : ∀ k, k ∈ a.kids → Wf Γ .L k) : T0 AnyV AnyC (viAllLogic v a) := by
  unfold viAllLogic
  apply t0_bind (t0_visitAllL hv hd a.id rfl _ fun k hk => ⟨hk, hL k hk⟩); intro _ _
  exact t0_setCur _ trivial

end

/-! ## the visitor satisfies the specification on every well-shaped tree -/

theorem depth_pos (a : Ast) : 1 ≤ Ast.depth a := by
  cases a with | node t d lo hi ks => simp [Ast.depth]

theorem sat_S_of {p : Option Tok} {m : M Unit} (h : T0 AnyV IsTy m) : Sat .S p m :=
  t0_weaken h (fun _ h => h) (fun _ h _ => h)

theorem hv_visit (Γ : Ctx) : ∀ n, HV Γ (visit Γ n) n
  | 0 => fun _ _ k _ hd => by have := depth_pos k; omega
  | n+1 => by
    have hv := hv_visit Γ n
    intro c p k hw hd
    cases hw with
    | sGlobal htok =>
      have e : ∀ tok x lo hi ks, (tok = Tok.ID_GLOBAL ∨ tok = .ID_FUNCTION ∨ tok = .ID_PREDICATE) →
          dispatch Γ (visit Γ n) p (.node tok (.text x) lo hi ks) = viGlobal Γ p (.node tok (.text x) lo hi ks) := by
        intro tok x lo hi ks h; rcases h with rfl | rfl | rfl <;> rfl
      show Sat .S p (dispatch Γ (visit Γ n) p _)
      rw [e _ _ _ _ _ htok]; exact tS_global p
    | sLocal => exact sat_S_of tS_local
    | sRadical => exact sat_S_of tS_radical
    | sInt => exact sat_S_of (t0_setCur _ (isTy_ty _))
    | sIntset => exact sat_S_of (t0_setCur _ (isTy_ty _))
    | sEmpty => exact sat_S_of (tS_emptySet p _)
    | sArith htok wa wb =>
      rcases htok with rfl | rfl | rfl <;>
        exact sat_S_of (tS_arith hv hd rfl rfl wa wb rfl)
    | sUnary htok wa =>
      rcases htok with rfl | rfl | rfl | rfl | rfl
      · exact sat_S_of (tS_debool1 hv hd rfl wa rfl _ _ (fun _ => isTy_ty _))
      · exact sat_S_of (tS_debool1 hv hd rfl wa rfl _ _ (fun _ => isTy_ty _))
      · exact sat_S_of (tS_debool1 hv hd rfl wa rfl _ _ (fun _ => isTy_ty _))
      · exact sat_S_of (tS_reduce hv hd rfl wa rfl)
      · exact sat_S_of (tS_enum hv hd (fun k hk => by simp [Ast.kids] at hk; subst hk; exact wa) (by simp [Ast.kids]) rfl)
    | sSetbin htok wa wb =>
      rcases htok with rfl | rfl | rfl | rfl <;>
        exact sat_S_of (tS_setbin hv hd rfl rfl wa wb rfl)
    | sEnum hS => exact sat_S_of (tS_enum hv hd hS (by simp [Ast.kids]) rfl)
    | sMany htok hS =>
      rcases htok with rfl | rfl
      · exact sat_S_of (tS_decart hv hd hS (by simp [Ast.kids]) rfl)
      · exact sat_S_of (tS_tuple hv hd hS (by simp [Ast.kids]) rfl)
    | sProj htok hne wa =>
      rcases htok with rfl | rfl
      · exact sat_S_of (tS_projSet hv hd rfl hne rfl wa rfl)
      · exact sat_S_of (tS_projTuple hv hd rfl hne rfl wa rfl)
    | sFilter hne hS hks =>
      rename_i idx lo hi p0 ks
      refine sat_S_of (tS_filter hv hd rfl hne hS ?_ rfl)
      cases ks with
      | nil => exact absurd rfl hks
      | cons k ks => simp [Ast.kids]
    | sDeclarative wp wd wb =>
      exact sat_S_of (tS_declarative hv hd rfl rfl rfl (.deOfD wp) wd wb rfl)
    | sImperative wv wb =>
      exact sat_S_of (tS_imperative hv hd rfl wv (fun k hk => wb k (by simpa [Ast.kids] using hk)) rfl)
    | sRecShort wp wi ws =>
      exact sat_S_of (tS_recursion hv hd rfl rfl rfl (fun h => by cases h) (.deOfD wp) wi ws rfl)
    | sRecFull wp wi wc ws =>
      exact sat_S_of (tS_recursion hv hd rfl rfl rfl (fun _ => ⟨_, rfl, wc⟩) (.deOfD wp) wi ws rfl)
    | sCall hty hS =>
      rename_i d lo hi lf hf tf f kf a0 as
      have hkids : ∀ i k, 1 ≤ i → (Ast.node Tok.NT_FUNC_CALL d lo hi (.node tf (.text f) lf hf kf :: a0 :: as)).kid i = some k →
          Wf Γ .S k := by
        intro i k hi hk
        have hm := kid_mem' hk
        cases i with
        | zero => omega
        | succ j =>
          simp only [Ast.kid, Ast.kids, List.getElem?_cons_succ] at hk
          exact hS k (List.mem_of_getElem? hk)
      have := t0_call hv hd (a := .node .NT_FUNC_CALL d lo hi (.node tf (.text f) lf hf kf :: a0 :: as))
        rfl (by simp [Ast.kids]) hkids rfl
      exact t0_weaken this (fun _ h => h) (fun _ h _ => h hty)
    | lNot wa =>
      exact tL_allLogic hv hd (fun k hk => by simp [Ast.kids] at hk; subst hk; exact wa)
    | lBin htok wa wb =>
      rcases htok with rfl | rfl | rfl | rfl <;>
        exact tL_allLogic hv hd (fun k hk => by
          simp [Ast.kids] at hk; rcases hk with rfl | rfl <;> assumption)
    | lPred htok wa wb =>
      rcases htok with rfl | rfl | rfl | rfl | rfl | rfl | rfl | rfl | rfl | rfl | rfl
      · exact tL_equals hv hd rfl rfl wa wb rfl
      · exact tL_equals hv hd rfl rfl wa wb rfl
      · exact tL_order hv hd rfl rfl wa wb rfl
      · exact tL_order hv hd rfl rfl wa wb rfl
      · exact tL_order hv hd rfl rfl wa wb rfl
      · exact tL_order hv hd rfl rfl wa wb rfl
      · exact tL_setpred hv hd rfl rfl wa wb rfl
      · exact tL_setpred hv hd rfl rfl wa wb rfl
      · exact tL_setpred hv hd rfl rfl wa wb rfl
      · exact tL_setpred hv hd rfl rfl wa wb rfl
      · exact tL_setpred hv hd rfl rfl wa wb rfl
    | lQuant htok wp wd wb =>
      rcases htok with rfl | rfl <;> exact tL_quant hv hd rfl rfl rfl wp wd wb rfl
    | lCall hS =>
      rename_i d lo hi lf hf tf f kf a0 as
      have hkids : ∀ i k, 1 ≤ i → (Ast.node Tok.NT_FUNC_CALL d lo hi (.node tf (.text f) lf hf kf :: a0 :: as)).kid i = some k →
          Wf Γ .S k := by
        intro i k hi hk
        cases i with
        | zero => omega
        | succ j =>
          simp only [Ast.kid, Ast.kids, List.getElem?_cons_succ] at hk
          exact hS k (List.mem_of_getElem? hk)
      have := t0_call hv hd (a := .node .NT_FUNC_CALL d lo hi (.node tf (.text f) lf hf kf :: a0 :: as))
        rfl (by simp [Ast.kids]) hkids rfl
      exact t0_weaken this (fun _ h => h) (fun _ _ => trivial)
    | lIterate wp wd => exact tL_iterate hv hd rfl rfl (.deOfD wp) wd rfl
    | lAssign wp we => exact tL_assign hv hd rfl rfl (.deOfD wp) we rfl
    | dLocal => exact tD_local
    | dTuple hw => exact tD_tuple hv hd rfl hw
    | deOfD wd =>
      cases wd with
      | dLocal => exact td_weaken tD_local
      | dTuple hw => exact td_weaken (tD_tuple hv hd rfl hw)
    | deEnum hw => exact tDE_enum hv hd rfl hw


/-! ## whole inputs: expressions, function definitions, global declarations -/

/-- `x ∈ dom` -/
inductive WfArg (Γ : Ctx) : String → Ast → Prop where
  | mk {x : String} {d : TokData} {lo hi ll hl : Int} {kl : List Ast} {dom : Ast} :
      Wf Γ .S dom → WfArg Γ x (.node .NT_ARG_DECL d lo hi [.node .ID_LOCAL (.text x) ll hl kl, dom])

inductive WfArgs (Γ : Ctx) : List String → List Ast → Prop where
  | nil : WfArgs Γ [] []
  | cons {x : String} {xs : List String} {d : Ast} {ds : List Ast} :
      WfArg Γ x d → WfArgs Γ xs ds → WfArgs Γ (x :: xs) (d :: ds)

/-- an expression or a function definition `[x1∈D1, …] body`; the index is the list of declared names -/
inductive WfDef (Γ : Ctx) : List String → Ast → Prop where
  | expr {e : Ast} : Wf Γ .S e ∨ Wf Γ .L e → WfDef Γ [] e
  | funcdef {xs : List String} {d da : TokData} {lo hi la ha : Int} {decls : List Ast} {body : Ast} :
      WfArgs Γ xs decls → Wf Γ .S body ∨ Wf Γ .L body →
      WfDef Γ xs (.node .NT_FUNC_DEFINITION d lo hi [.node .NT_ARGUMENTS da la ha decls, body])

/-- what the parser can produce: `e`, `[args] e`, `X:==`, `X:==e`, `X:==[args] e`, `S::=e` -/
inductive WfTop (Γ : Ctx) : List String → Ast → Prop where
  | ofDef {xs : List String} {e : Ast} : WfDef Γ xs e → WfTop Γ xs e
  | define1 {d : TokData} {lo hi ln hn : Int} {tn : Tok} {x : String} {kn : List Ast} :
      WfTop Γ [] (.node .PUNC_DEFINE d lo hi [.node tn (.text x) ln hn kn])
  | define2 {xs : List String} {d : TokData} {lo hi : Int} {nm ex : Ast} :
      WfDef Γ xs ex → WfTop Γ xs (.node .PUNC_DEFINE d lo hi [nm, ex])
  | struct {d : TokData} {lo hi : Int} {nm ex : Ast} :
      Wf Γ .S ex → WfTop Γ [] (.node .PUNC_STRUCT d lo hi [nm, ex])

/-- like `T0`, but the declared-argument list grows by the names `xs` -/
structure TT {α : Type} (xs : List String) (m : M α) : Prop where
  run : ∀ s, I0 s → match m s with
    | (.ok _, s') => I0 s' ∧ s'.args.map Prod.fst = s.args.map Prod.fst ++ xs
    | (.fail, s') => s'.silent = false
    | (.stuck _, _) => False

theorem tt_of_t0 {α} {V : α → Prop} {C : ExprTy → Prop} {m : M α} (h : T0 V C m) : TT [] m := by
  refine ⟨fun s hs => ?_⟩
  have := h.run s hs
  generalize m s = r at this
  obtain ⟨r, s1⟩ := r
  cases r with
  | ok a => exact ⟨this.1, by simp [this.2.1]⟩
  | fail => exact this
  | stuck x => exact this

theorem tt_bind {α β} {xs ys : List String} {m : M α} {f : α → M β}
    (hm : TT xs m) (hf : ∀ a, TT ys (f a)) : TT (xs ++ ys) (M.bind m f) := by
  refine ⟨fun s hs => ?_⟩
  have h1 := hm.run s hs
  unfold M.bind
  generalize m s = r at h1
  obtain ⟨r, s1⟩ := r
  cases r with
  | ok a =>
    have h2 := (hf a).run s1 h1.1
    dsimp only
    generalize f a s1 = r2 at h2
    obtain ⟨r2, s2⟩ := r2
    cases r2 with
    | ok b => exact ⟨h2.1, by rw [h2.2, h1.2]; simp⟩
    | fail => exact h2
    | stuck x => exact h2
  | fail => exact h1
  | stuck x => exact h1

theorem tt_bind0 {α β} {V : α → Prop} {C : ExprTy → Prop} {ys : List String} {m : M α} {f : α → M β}
    (hm : T0 V C m) (hf : ∀ a, V a → TT ys (f a)) : TT ys (M.bind m f) := by
  refine ⟨fun s hs => ?_⟩
  have h1 := hm.run s hs
  unfold M.bind
  generalize m s = r at h1
  obtain ⟨r, s1⟩ := r
  cases r with
  | ok a =>
    have h2 := (hf a h1.2.2.1).run s1 h1.1
    dsimp only
    generalize f a s1 = r2 at h2
    obtain ⟨r2, s2⟩ := r2
    cases r2 with
    | ok b => exact ⟨h2.1, by rw [h2.2, h1.2.1]⟩
    | fail => exact h2
    | stuck x => exact h2
  | fail => exact h1
  | stuck x => exact h1

theorem tt_argument {Γ : Ctx} {v : Visitor} {n : Nat} (hv : HV Γ v n) {x : String} {a : Ast}
    (hd : Ast.depth a ≤ n + 1) (hw : WfArg Γ x a) : TT [x] (viArgument v a) := by
  cases hw with
  | mk wdom =>
    rename_i d lo hi ll hl kl dom
    unfold viArgument
    apply tt_bind0 (t0_childTypeDebool hv hd (k := dom) rfl wdom rfl _ false (by simp)); intro domain _
    have hd' : Ast.depth (Ast.node Tok.ID_LOCAL (TokData.text x) ll hl kl) ≤ n :=
      kid_depth hv hd (i := 0) rfl
    have htd : TD true (v (some Tok.NT_ARG_DECL) (.node .ID_LOCAL (.text x) ll hl kl)) :=
      hv .D _ _ .dLocal hd'
    refine ⟨fun s hs => ?_⟩
    obtain ⟨h1, h2, h3⟩ := hs
    simp only [M.bind, modifySt, visitChild, kidM, Ast.kid, Ast.kids, List.getElem?_cons_zero, M.pure, Ast.id]
    have hrun := htd.run { s with argDecl := s.argDecl + 1, cur := .ty domain }
      ⟨⟨domain, rfl⟩, Or.inr (by simp), h3⟩
    generalize v (some Tok.NT_ARG_DECL) (.node .ID_LOCAL (.text x) ll hl kl)
      { s with argDecl := s.argDecl + 1, cur := .ty domain } = r at hrun
    obtain ⟨r, s1⟩ := r
    cases r with
    | ok u =>
      obtain ⟨_, f1, f2, f3, f4⟩ := hrun
      dsimp only at f1 f2 f4 ⊢
      simp only [textOf, Ast.data, M.pure, setCur]
      refine ⟨⟨?_, ?_, f3⟩, ?_⟩
      · simp [f1, h1]
      · simp [f2, h2]
      · simp [f4]
    | fail => exact hrun
    | stuck y => exact hrun

theorem tt_visitAllArgs {Γ : Ctx} {w : Visitor} (p : Tok) : ∀ (xs : List String) (ds : List Ast),
    WfArgs Γ xs ds → (∀ x d, d ∈ ds → WfArg Γ x d → TT [x] (w (some p) d)) → TT xs (visitAll w p ds)
  | _, _, .nil, _ => tt_of_t0 (t0_pure () (V := AnyV) trivial)
  | _, _, .cons (x := x) (xs := xs) (d := d) (ds := ds) hx hxs, h => by
    unfold visitAll
    have := tt_bind (h x d (by simp) hx) (fun _ => tt_visitAllArgs p xs ds hxs fun x' d' hd' => h x' d' (by simp [hd']))
    simpa using this

/-- `visit` with enough fuel on a definition -/
theorem tt_visitDef (Γ : Ctx) {xs : List String} {e : Ast} (hw : WfDef Γ xs e) (p : Option Tok) :
    ∀ N, Ast.depth e ≤ N → TT xs (visit Γ N p e) := by
  intro N hN
  cases hw with
  | expr hse =>
    rcases hse with h | h
    · exact tt_of_t0 (hv_visit Γ N .S p e h hN)
    · exact tt_of_t0 (hv_visit Γ N .L p e h hN)
  | funcdef hargs hbody =>
    rename_i d da lo hi la ha decls body
    -- depth bookkeeping
    have hda : ∀ dcl, dcl ∈ decls → Ast.depth dcl + 2 ≤ N := by
      intro dcl hm
      have h1 : Ast.depth dcl < Ast.depth (Ast.node Tok.NT_ARGUMENTS da la ha decls) := depth_kid (by simpa [Ast.kids] using hm)
      have h2 : Ast.depth (Ast.node Tok.NT_ARGUMENTS da la ha decls) <
          Ast.depth (Ast.node Tok.NT_FUNC_DEFINITION d lo hi [Ast.node Tok.NT_ARGUMENTS da la ha decls, body]) :=
        depth_kid (by simp [Ast.kids])
      omega
    have hdb : Ast.depth body + 1 ≤ N := by
      have : Ast.depth body < Ast.depth (Ast.node Tok.NT_FUNC_DEFINITION d lo hi [Ast.node Tok.NT_ARGUMENTS da la ha decls, body]) :=
        depth_kid (by simp [Ast.kids])
      omega
    have hdargs : Ast.depth (Ast.node Tok.NT_ARGUMENTS da la ha decls) + 1 ≤ N := by
      have : Ast.depth (Ast.node Tok.NT_ARGUMENTS da la ha decls) <
          Ast.depth (Ast.node Tok.NT_FUNC_DEFINITION d lo hi [Ast.node Tok.NT_ARGUMENTS da la ha decls, body]) :=
        depth_kid (by simp [Ast.kids])
      omega
    obtain ⟨M1, rfl⟩ : ∃ M1, N = M1 + 1 := ⟨N - 1, by have := depth_pos body; omega⟩
    -- the argument list node
    have hargsNode : TT xs (visit Γ M1 (some Tok.NT_FUNC_DEFINITION) (.node .NT_ARGUMENTS da la ha decls)) := by
      cases hargs with
      | nil =>
        obtain ⟨M2, rfl⟩ : ∃ M2, M1 = M2 + 1 := ⟨M1 - 1, by simp [Ast.depth] at hdargs; omega⟩
        have e : visit Γ (M2 + 1) (some Tok.NT_FUNC_DEFINITION) (.node .NT_ARGUMENTS da la ha []) =
            viAllLogic (visit Γ M2) (.node .NT_ARGUMENTS da la ha []) := rfl
        rw [e]
        have h := tt_bind (xs := []) (ys := []) (tt_of_t0 (t0_pure () (V := AnyV) trivial))
          (fun _ => tt_of_t0 (t0_setCur .logic (C := AnyC) trivial))
        exact h
      | cons hx hxs =>
        rename_i x xs' d0 ds0
        have h0 := hda d0 (by simp)
        have hp0 := depth_pos d0
        obtain ⟨M3, rfl⟩ : ∃ M3, M1 = M3 + 2 := ⟨M1 - 2, by
          cases hx with | mk _ => simp [Ast.depth] at h0; omega⟩
        have e : visit Γ (M3 + 2) (some Tok.NT_FUNC_DEFINITION) (.node .NT_ARGUMENTS da la ha (d0 :: ds0)) =
            viAllLogic (visit Γ (M3 + 1)) (.node .NT_ARGUMENTS da la ha (d0 :: ds0)) := rfl
        rw [e]
        have hall : TT (x :: xs') (visitAll (visit Γ (M3 + 1)) Tok.NT_ARGUMENTS (d0 :: ds0)) :=
          tt_visitAllArgs _ _ _ (.cons hx hxs) fun x' d' hm hwa => by
            have hdd := hda d' hm
            have : visit Γ (M3 + 1) (some Tok.NT_ARGUMENTS) d' = viArgument (visit Γ M3) d' := by
              cases hwa with | mk _ => rfl
            rw [this]
            exact tt_argument (hv_visit Γ M3) (by omega) hwa
        have h := tt_bind hall (fun _ => tt_of_t0 (t0_setCur .logic (C := AnyC) trivial))
        rw [List.append_nil] at h
        exact h
    have hbodyT : T0 AnyV AnyC (childType (visit Γ M1)
        (.node .NT_FUNC_DEFINITION d lo hi [.node .NT_ARGUMENTS da la ha decls, body]) 1) := by
      rcases hbody with h | h
      · exact t0_childTypeAny (hv_visit Γ M1) (by simp [Ast.depth] at hN ⊢; omega) (k := body) rfl h (Or.inl rfl)
      · exact t0_childTypeAny (hv_visit Γ M1) (by simp [Ast.depth] at hN ⊢; omega) (k := body) rfl h (Or.inr rfl)
    have e : visit Γ (M1 + 1) p (.node .NT_FUNC_DEFINITION d lo hi [.node .NT_ARGUMENTS da la ha decls, body]) =
        viFunctionDefinition (visit Γ M1) (.node .NT_FUNC_DEFINITION d lo hi [.node .NT_ARGUMENTS da la ha decls, body]) := rfl
    rw [e]
    unfold viFunctionDefinition
    apply tt_bind0 t0_startScope; intro _ _
    apply tt_bind0 (V := AnyV) (C := AnyC)
    · exact t0_modify _ (fun _ => ⟨rfl, rfl, rfl, rfl⟩)
    intro _ _
    have hvc : TT xs (visitChild (visit Γ M1) (.node .NT_FUNC_DEFINITION d lo hi [.node .NT_ARGUMENTS da la ha decls, body]) 0) := by
      unfold visitChild
      exact tt_bind0 (t0_kidM (k := .node .NT_ARGUMENTS da la ha decls) rfl) (fun _ h => h ▸ hargsNode)
    have := tt_bind hvc (fun _ => tt_of_t0 (V := AnyV) (C := AnyC) (m :=
      M.bind (modifySt fun s => { s with funcDecl := s.funcDecl - 1 }) fun _ =>
      M.bind (childType (visit Γ M1) (.node .NT_FUNC_DEFINITION d lo hi [.node .NT_ARGUMENTS da la ha decls, body]) 1) fun t =>
      M.bind (endScope lo) fun _ => setCur t) (by
        apply t0_bind (V1 := AnyV) (C1 := AnyC)
        · exact t0_modify _ (fun _ => ⟨rfl, rfl, rfl, rfl⟩)
        intro _ _
        apply t0_bind hbodyT; intro t _
        apply t0_bind (t0_endScope _); intro _ _
        exact t0_setCur _ trivial))
    rw [List.append_nil] at this
    exact this


theorem tt_childType {v : Visitor} {a k : Ast} {i : Nat} {xs : List String} (hk : a.kid i = some k)
    (h : TT xs (v (some a.id) k)) : TT xs (childType v a i) := by
  unfold childType
  apply tt_bind0 (t0_kidM hk); intro k' hk'; rw [hk']
  refine ⟨fun s hs => ?_⟩
  have h1 := h.run s hs
  dsimp only
  generalize v (some a.id) k s = r at h1
  obtain ⟨r, s1⟩ := r
  cases r with
  | ok u => exact ⟨h1.1, h1.2⟩
  | fail => exact h1
  | stuck x => exact h1

/-- `visit` with enough fuel on a whole input -/
theorem tt_visitTop (Γ : Ctx) {xs : List String} {e : Ast} (hw : WfTop Γ xs e) :
    ∀ N, Ast.depth e ≤ N → TT xs (visit Γ N none e) := by
  intro N hN
  cases hw with
  | ofDef h => exact tt_visitDef Γ h none N hN
  | define1 =>
    rename_i d lo hi ln hn tn x kn
    obtain ⟨M1, rfl⟩ : ∃ M1, N = M1 + 1 := ⟨N - 1, by simp [Ast.depth] at hN; omega⟩
    have e : visit Γ (M1 + 1) none (.node .PUNC_DEFINE d lo hi [.node tn (.text x) ln hn kn]) =
        viGlobalDeclaration (visit Γ M1) (.node .PUNC_DEFINE d lo hi [.node tn (.text x) ln hn kn]) := rfl
    rw [e]
    refine tt_of_t0 (V := AnyV) (C := AnyC) ?_
    have hne : (Tok.PUNC_DEFINE == Tok.PUNC_STRUCT) = false := rfl
    have h11 : ((1 : Nat) == 1) = true := rfl
    simp only [viGlobalDeclaration, Ast.id, Ast.kids, List.length_singleton, hne, h11, Bool.false_eq_true, if_false, if_true]
    apply t0_bind (t0_kidM (a := .node .PUNC_DEFINE d lo hi [.node tn (.text x) ln hn kn]) (i := 0)
      (k := .node tn (.text x) ln hn kn) rfl); rintro _ rfl
    have : T0 (fun y => x = y) AnyC (textOf (.node tn (.text x) ln hn kn)) := t0_pure _ rfl
    apply t0_bind this; rintro _ rfl
    exact t0_setCur _ trivial
  | define2 hdef =>
    rename_i d lo hi nm ex
    have hdex : Ast.depth ex + 1 ≤ N := by
      have : Ast.depth ex < Ast.depth (Ast.node Tok.PUNC_DEFINE d lo hi [nm, ex]) := depth_kid (by simp [Ast.kids])
      omega
    obtain ⟨M1, rfl⟩ : ∃ M1, N = M1 + 1 := ⟨N - 1, by omega⟩
    have e : visit Γ (M1 + 1) none (.node .PUNC_DEFINE d lo hi [nm, ex]) =
        viGlobalDeclaration (visit Γ M1) (.node .PUNC_DEFINE d lo hi [nm, ex]) := rfl
    rw [e]
    simp only [viGlobalDeclaration, Ast.id, Ast.kids]
    have hct := tt_childType (v := visit Γ M1) (a := .node .PUNC_DEFINE d lo hi [nm, ex]) (k := ex) (i := 1) rfl
      (tt_visitDef Γ hdef _ M1 (by omega))
    have := tt_bind hct (fun t => tt_of_t0 (t0_setCur t (C := AnyC) trivial))
    rw [List.append_nil] at this
    exact this
  | struct wex =>
    rename_i d lo hi nm ex
    have hdex : Ast.depth ex + 1 ≤ N := by
      have : Ast.depth ex < Ast.depth (Ast.node Tok.PUNC_STRUCT d lo hi [nm, ex]) := depth_kid (by simp [Ast.kids])
      omega
    obtain ⟨M1, rfl⟩ : ∃ M1, N = M1 + 1 := ⟨N - 1, by omega⟩
    have e : visit Γ (M1 + 1) none (.node .PUNC_STRUCT d lo hi [nm, ex]) =
        viGlobalDeclaration (visit Γ M1) (.node .PUNC_STRUCT d lo hi [nm, ex]) := rfl
    rw [e]
    refine tt_of_t0 (V := AnyV) (C := AnyC) ?_
    have hss : (Tok.PUNC_STRUCT == Tok.PUNC_STRUCT) = true := rfl
    simp only [viGlobalDeclaration, Ast.id, hss, if_true]
    split
    · exact t0_kidErr (k := nm) rfl _ _
    · apply t0_bind (t0_childTypeS (hv_visit Γ M1) (a := .node .PUNC_STRUCT d lo hi [nm, ex])
        (by simp [Ast.depth] at hN ⊢; omega) (k := ex) rfl wex rfl)
      rintro mt ⟨t, rfl⟩
      apply t0_bind (t0_expectTy _ _); rintro _ rfl
      split
      · exact t0_setCur _ trivial
      · exact t0_kidErr (k := nm) rfl _ _

/-- consequences for `checkWithFuel` -/
theorem check_facts (Γ : Ctx) {xs : List String} {e : Ast} (hw : WfTop Γ xs e) (N : Nat) (hN : Ast.depth e ≤ N) :
    (∀ x, (checkWithFuel Γ N e).out ≠ .stuck x) ∧ (checkWithFuel Γ N e).silent = false ∧
    (∀ τ, (checkWithFuel Γ N e).out = .ok τ → (checkWithFuel Γ N e).args.map Prod.fst = xs) := by
  have h := (tt_visitTop Γ hw N hN).run {} ⟨rfl, rfl, rfl⟩
  unfold checkWithFuel
  generalize visit Γ N none e {} = r at h
  obtain ⟨r, s⟩ := r
  cases r with
  | ok u => exact ⟨(fun x hx => by cases hx), h.1.2.2, (fun _ _ => by simpa using h.2)⟩
  | fail => exact ⟨(fun x hx => by cases hx), h, (fun τ hx => by cases hx)⟩
  | stuck y => exact absurd h id

end CCVerif.Checker
