import CCVerif.Lemmas.EvalUnfold
/-! The syntactic shape of the stage 1-3 fragments of C01 / C02 (operators, identifiers, binders
over one plain variable) and what the two passes that run before the interpreter do on it:
the normaliser is the identity, the name collector gives every name one slot and loads the
globals (never `stuck`). -/
namespace CCVerif.Eval
open CCVerif.Syntax CCVerif.Spec CCVerif.Norm

/-- operator and literal tokens of the fragment -/
def plainTok (t : Tok) : Bool :=
  match t with
  | .LIT_INTEGER | .LIT_EMPTYSET | .LIT_INTSET
  | .PLUS | .MINUS | .MULTIPLY | .GREATER | .LESSER | .GREATER_OR_EQ | .LESSER_OR_EQ
  | .EQUAL | .NOTEQUAL | .NOT | .EQUIVALENT | .IMPLICATION | .OR | .AND
  | .IN | .NOTIN | .SUBSET | .SUBSET_OR_EQ | .NOTSUBSET
  | .DECART | .UNION | .INTERSECTION | .SET_MINUS | .SYMMINUS | .BOOLEAN
  | .BIGPR | .SMALLPR | .CARD | .BOOL | .DEBOOL | .REDUCE
  | .NT_TUPLE | .NT_ENUMERATION => true
  | _ => false

def bindTok (t : Tok) : Bool :=
  match t with
  | .FORALL | .EXISTS | .NT_DECLARATIVE_EXPR => true
  | _ => false

/-- trees of the fragment: operators over subtrees, globals, locals that are not names of
globals, binders `Q x∈dom . body` with one plain variable -/
inductive Shape (env : Env) : Ast → Prop where
  | plain {t : Tok} (d : TokData) (lo hi : Int) (ks : List Ast) : plainTok t = true → (∀ k ∈ ks, Shape env k) →
      Shape env (.node t d lo hi ks)
  | glob (s : String) (lo hi : Int) : Shape env (.node .ID_GLOBAL (.text s) lo hi [])
  | loc (s : String) (lo hi : Int) : lookup s env.globals = none → Shape env (.node .ID_LOCAL (.text s) lo hi [])
  | binder {t : Tok} (d : TokData) (lo hi : Int) (x : String) (dlo dhi : Int) {dom body : Ast} : bindTok t = true →
      lookup x env.globals = none → Shape env dom → Shape env body →
      Shape env (.node t d lo hi [.node .ID_LOCAL (.text x) dlo dhi [], dom, body])
  /-- `R{x := init | body}` / `R{x := init | cond | body}` over one plain variable -/
  | recur {t : Tok} (d : TokData) (lo hi : Int) (x : String) (dlo dhi : Int) (rest : List Ast) :
      (t = .NT_RECURSIVE_SHORT ∧ rest.length = 2) ∨ (t = .NT_RECURSIVE_FULL ∧ rest.length = 3) →
      lookup x env.globals = none → (∀ k ∈ rest, Shape env k) →
      Shape env (.node t d lo hi (.node .ID_LOCAL (.text x) dlo dhi [] :: rest))
  /-- a block `x :∈ e` / `x := e` of `I{…}` -/
  | blk {t : Tok} (d : TokData) (lo hi : Int) (x : String) (dlo dhi : Int) {e : Ast} : t = .ITERATE ∨ t = .ASSIGN →
      lookup x env.globals = none → Shape env e →
      Shape env (.node t d lo hi [.node .ID_LOCAL (.text x) dlo dhi [], e])
  /-- `I{value | blocks}` -/
  | imp (d : TokData) (lo hi : Int) (value : Ast) (blocks : List Ast) : blocks ≠ [] → Shape env value →
      (∀ b ∈ blocks, Shape env b) → Shape env (.node .NT_IMPERATIVE_EXPR d lo hi (value :: blocks))

/-- an `ITERATE` / `ASSIGN` node of the fragment declares one plain variable -/
theorem Shape.blk_inv {env : Env} {b : Ast} (h : Shape env b) (hb : b.id = .ITERATE ∨ b.id = .ASSIGN) :
    ∃ x dlo dhi e, b.kids = [.node .ID_LOCAL (.text x) dlo dhi [], e] := by
  cases h with
  | @plain t d lo hi ks ht _ => rcases hb with hb | hb <;> (simp only [Ast.id] at hb; subst hb; simp [plainTok] at ht)
  | glob s lo hi => rcases hb with hb | hb <;> simp [Ast.id] at hb
  | loc s lo hi _ => rcases hb with hb | hb <;> simp [Ast.id] at hb
  | @binder t d lo hi x dlo dhi dom body ht _ _ _ =>
    rcases hb with hb | hb <;> (simp only [Ast.id] at hb; subst hb; simp [bindTok] at ht)
  | @recur t d lo hi x dlo dhi rest ht _ _ =>
    rcases hb with hb | hb <;> (simp only [Ast.id] at hb; subst hb; simp at ht)
  | blk d lo hi x dlo dhi _ _ _ => exact ⟨_, _, _, _, rfl⟩
  | imp d lo hi value blocks _ _ _ => rcases hb with hb | hb <;> simp [Ast.id] at hb

/-! ## the normaliser is the identity -/

def nstep (fs : Funcs) (fuel : Nat) (acc : Option (List Ast × NState)) (k : Ast) : Option (List Ast × NState) :=
  match acc with
  | none => none
  | some (done, b) =>
    match normalize fs fuel k b with
    | none => none
    | some (k', b') => some (done ++ [k'], b')

theorem nstep_none (fs : Funcs) (fuel : Nat) : ∀ ks : List Ast, ks.foldl (nstep fs fuel) none = none
  | [] => rfl
  | _ :: ks => by simp only [List.foldl_cons, nstep]; exact nstep_none fs fuel ks

theorem nfold_id (fs : Funcs) (fuel : Nat) : ∀ (ks done : List Ast) (b : NState),
    (∀ k ∈ ks, ∀ b, normalize fs fuel k b = none ∨ normalize fs fuel k b = some (k, b)) →
    ks.foldl (nstep fs fuel) (some (done, b)) = none ∨ ks.foldl (nstep fs fuel) (some (done, b)) = some (done ++ ks, b)
  | [], done, b, _ => Or.inr (by simp)
  | k :: ks, done, b, h => by
    simp only [List.foldl_cons]
    rcases h k (by simp) b with h1 | h1
    · left; simp only [nstep, h1]; exact nstep_none fs fuel ks
    · simp only [nstep, h1]
      have := nfold_id fs fuel ks (done ++ [k]) b (fun k' hk' => h k' (by simp [hk']))
      simpa using this

theorem normalize_plain {t : Tok} (ht : plainTok t = true ∨ t = .ID_GLOBAL ∨ t = .ID_LOCAL) (fs : Funcs) (fuel : Nat)
    (d : TokData) (lo hi : Int) (ks : List Ast) (b : NState) :
    normalize fs (fuel + 1) (.node t d lo hi ks) b =
      match ks.foldl (nstep fs fuel) (some ([], b)) with
      | none => none
      | some (ks', b') => some (.node t d lo hi ks', b') := by
  rcases ht with ht | rfl | rfl
  · cases t <;> simp [plainTok] at ht <;>
    · simp only [normalize, Ast.id, Ast.kids, setKids]
      rfl
  · simp only [normalize, Ast.id, Ast.kids, setKids]
    rfl
  · simp only [normalize, Ast.id, Ast.kids, setKids]
    rfl

theorem normalize_binder {t : Tok} (ht : bindTok t = true) (fs : Funcs) (fuel : Nat)
    (d : TokData) (lo hi : Int) (x : String) (dlo dhi : Int) (dom body : Ast) (b : NState) :
    normalize fs (fuel + 1) (.node t d lo hi [.node .ID_LOCAL (.text x) dlo dhi [], dom, body]) b =
      match [.node .ID_LOCAL (.text x) dlo dhi [], dom, body].foldl (nstep fs fuel) (some ([], b)) with
      | none => none
      | some (ks', b') => some (.node t d lo hi ks', b') := by
  cases t <;> simp [bindTok] at ht <;>
  · simp only [normalize, Ast.id, Ast.kids, setKids, List.head?, declarative, tok_beq]
    simp
    rfl

theorem normalize_rec {t : Tok} (ht : t = .NT_RECURSIVE_SHORT ∨ t = .NT_RECURSIVE_FULL) (fs : Funcs) (fuel : Nat)
    (d : TokData) (lo hi : Int) (x : String) (dlo dhi : Int) (rest : List Ast) (b : NState)
    (hr : rest.length = 2 ∨ rest.length = 3) :
    normalize fs (fuel + 1) (.node t d lo hi (.node .ID_LOCAL (.text x) dlo dhi [] :: rest)) b =
      match (.node .ID_LOCAL (.text x) dlo dhi [] :: rest).foldl (nstep fs fuel) (some ([], b)) with
      | none => none
      | some (ks', b') => some (.node t d lo hi ks', b') := by
  rcases hr with hr | hr
  · match rest, hr with
    | [i, bd], _ =>
      rcases ht with rfl | rfl <;>
      · simp only [normalize, Ast.id, Ast.kids, setKids, recursion]
        simp
        rfl
  · match rest, hr with
    | [i, cd, bd], _ =>
      rcases ht with rfl | rfl <;>
      · simp only [normalize, Ast.id, Ast.kids, setKids, recursion]
        simp
        rfl

theorem normalize_blk {t : Tok} (ht : t = .ITERATE ∨ t = .ASSIGN) (fs : Funcs) (fuel : Nat)
    (d : TokData) (lo hi : Int) (ks : List Ast) (b : NState) :
    normalize fs (fuel + 1) (.node t d lo hi ks) b =
      match ks.foldl (nstep fs fuel) (some ([], b)) with
      | none => none
      | some (ks', b') => some (.node t d lo hi ks', b') := by
  rcases ht with rfl | rfl <;>
  · simp only [normalize, Ast.id, Ast.kids, setKids]
    rfl

/-- every ITERATE / ASSIGN block of the node declares a plain variable -/
def PlainBlocks (r : Ast) : Prop :=
  ∀ b ∈ r.kids, (b.id = .ITERATE ∨ b.id = .ASSIGN) → ∃ d rest, b.kids = d :: rest ∧ d.id ≠ .NT_TUPLE_DECL

theorem imperativeStep_id (r : Ast) (h : PlainBlocks r) (i : Nat) (st : NState) : imperativeStep r i st = (r, st) := by
  unfold imperativeStep
  cases hk : r.kids[i]? with
  | none => rfl
  | some blk =>
    simp only
    by_cases hb : (blk.id != .ITERATE && blk.id != .ASSIGN) = true
    · simp [hb]
    · have hb' : blk.id = .ITERATE ∨ blk.id = .ASSIGN := by
        simp only [bne, tok_beq] at hb
        by_cases h1 : blk.id = .ITERATE
        · exact Or.inl h1
        · by_cases h2 : blk.id = .ASSIGN
          · exact Or.inr h2
          · simp [h1, h2] at hb
      obtain ⟨d, rest, hd, hne⟩ := h blk (List.mem_of_getElem? hk) hb'
      simp only [hb, hd]
      have : (d.id != .NT_TUPLE_DECL) = true := by simp only [bne, tok_beq]; simpa using hne
      simp [this]

theorem imperative_id (r : Ast) (h : PlainBlocks r) (st : NState) : imperative r st = (r, st) := by
  unfold imperative
  generalize List.range r.kids.length = l
  induction l with
  | nil => rfl
  | cons i l ih =>
    simp only [List.foldl_cons]
    have : (if (i == 0) = true then (r, st) else imperativeStep (r, st).1 i (r, st).2) = (r, st) := by
      split
      · rfl
      · exact imperativeStep_id r h i st
    rw [this]
    exact ih

theorem normalize_imp (fs : Funcs) (fuel : Nat) (d : TokData) (lo hi : Int) (ks : List Ast) (b : NState)
    (h : PlainBlocks (.node .NT_IMPERATIVE_EXPR d lo hi ks)) :
    normalize fs (fuel + 1) (.node .NT_IMPERATIVE_EXPR d lo hi ks) b =
      match ks.foldl (nstep fs fuel) (some ([], b)) with
      | none => none
      | some (ks', b') => some (.node .NT_IMPERATIVE_EXPR d lo hi ks', b') := by
  simp only [normalize, Ast.id, imperative_id _ h, Ast.kids, setKids]
  rfl

theorem normalize_local (fs : Funcs) (f : Nat) (x : String) (dlo dhi : Int) (b : NState) :
    normalize fs f (.node .ID_LOCAL (.text x) dlo dhi []) b = none ∨
      normalize fs f (.node .ID_LOCAL (.text x) dlo dhi []) b = some (.node .ID_LOCAL (.text x) dlo dhi [], b) := by
  cases f with
  | zero => exact Or.inl (normalize_zero _ _ _)
  | succ g => rw [normalize_plain (Or.inr (Or.inr rfl))]; simp

theorem normalize_shape (fs : Funcs) {env : Env} {a : Ast} (h : Shape env a) : ∀ fuel b,
    normalize fs fuel a b = none ∨ normalize fs fuel a b = some (a, b) := by
  induction h with
  | @plain t d lo hi ks ht _ ih =>
    intro fuel b
    cases fuel with
    | zero => exact Or.inl (normalize_zero _ _ _)
    | succ f =>
      rw [normalize_plain (Or.inl ht)]
      rcases nfold_id fs f ks [] b (fun k hk b => ih k hk f b) with h1 | h1 <;> simp [h1]
  | glob s lo hi =>
    intro fuel b
    cases fuel with
    | zero => exact Or.inl (normalize_zero _ _ _)
    | succ f => rw [normalize_plain (Or.inr (Or.inl rfl))]; simp
  | loc s lo hi _ =>
    intro fuel b
    cases fuel with
    | zero => exact Or.inl (normalize_zero _ _ _)
    | succ f => rw [normalize_plain (Or.inr (Or.inr rfl))]; simp
  | @binder t d lo hi x dlo dhi dom body ht _ _ _ ihd ihb =>
    intro fuel b
    cases fuel with
    | zero => exact Or.inl (normalize_zero _ _ _)
    | succ f =>
      rw [normalize_binder ht]
      have hl : ∀ b, normalize fs f (.node .ID_LOCAL (.text x) dlo dhi []) b = none ∨
          normalize fs f (.node .ID_LOCAL (.text x) dlo dhi []) b = some (.node .ID_LOCAL (.text x) dlo dhi [], b) := by
        intro b
        cases f with
        | zero => exact Or.inl (normalize_zero _ _ _)
        | succ g => rw [normalize_plain (Or.inr (Or.inr rfl))]; simp
      rcases nfold_id fs f [.node .ID_LOCAL (.text x) dlo dhi [], dom, body] [] b (fun k hk b => by
        simp only [List.mem_cons, List.not_mem_nil, or_false] at hk
        rcases hk with rfl | rfl | rfl
        · exact hl b
        · exact ihd f b
        · exact ihb f b) with h1 | h1 <;> simp [h1]
  | @recur t d lo hi x dlo dhi rest ht _ _ ih =>
    intro fuel b
    cases fuel with
    | zero => exact Or.inl (normalize_zero _ _ _)
    | succ f =>
      rw [normalize_rec (by rcases ht with ⟨h, _⟩ | ⟨h, _⟩ <;> simp [h]) fs f d lo hi x dlo dhi rest b
        (by rcases ht with ⟨_, h⟩ | ⟨_, h⟩ <;> simp [h])]
      rcases nfold_id fs f (.node .ID_LOCAL (.text x) dlo dhi [] :: rest) [] b (fun k hk b => by
        rcases List.mem_cons.mp hk with rfl | hk
        · exact normalize_local fs f x dlo dhi b
        · exact ih k hk f b) with h1 | h1 <;> simp [h1]
  | @blk t d lo hi x dlo dhi e ht _ _ ih =>
    intro fuel b
    cases fuel with
    | zero => exact Or.inl (normalize_zero _ _ _)
    | succ f =>
      rw [normalize_blk ht]
      rcases nfold_id fs f [.node .ID_LOCAL (.text x) dlo dhi [], e] [] b (fun k hk b => by
        simp only [List.mem_cons, List.not_mem_nil, or_false] at hk
        rcases hk with rfl | rfl
        · exact normalize_local fs f x dlo dhi b
        · exact ih f b) with h1 | h1 <;> simp [h1]
  | imp d lo hi value blocks hne hv hbs ihv ihb =>
    intro fuel b
    cases fuel with
    | zero => exact Or.inl (normalize_zero _ _ _)
    | succ f =>
      have hp : PlainBlocks (.node .NT_IMPERATIVE_EXPR d lo hi (value :: blocks)) := by
        intro k hk hid
        have hsk : Shape env k := by
          rcases List.mem_cons.mp hk with rfl | hk
          · exact hv
          · exact hbs k hk
        obtain ⟨x, dlo, dhi, e, h1⟩ := hsk.blk_inv hid
        exact ⟨_, _, h1, by simp [Ast.id]⟩
      rw [normalize_imp fs f d lo hi _ b hp]
      rcases nfold_id fs f (value :: blocks) [] b (fun k hk b => by
        rcases List.mem_cons.mp hk with rfl | hk
        · exact ihv f b
        · exact ihb k hk f b) with h1 | h1 <;> simp [h1]

/-! ## the name collector -/

mutual
/-- the identifiers of a tree -/
def names : Ast → List String
  | .node t d _ _ ks =>
    (if t == .ID_LOCAL || t == .ID_GLOBAL then [match d with | .text s => s | _ => ""] else []) ++ namesKids ks
def namesKids : List Ast → List String
  | [] => []
  | k :: ks => names k ++ namesKids ks
end

theorem mem_namesKids {n : String} : ∀ {ks : List Ast}, n ∈ namesKids ks ↔ ∃ k ∈ ks, n ∈ names k
  | [] => by simp [namesKids]
  | k :: ks => by simp [namesKids, mem_namesKids (ks := ks)]

theorem names_kid {n : String} {t : Tok} {d : TokData} {lo hi : Int} {ks : List Ast} {k : Ast} (hk : k ∈ ks)
    (hn : n ∈ names k) : n ∈ names (.node t d lo hi ks) := by
  simp only [names, List.mem_append]
  exact Or.inr (mem_namesKids.mpr ⟨k, hk, hn⟩)

/-- what the collector guarantees about its tables: slots are inside `idsData`, two names never share
a slot, the slot of a global holds its value -/
structure NCInv (env : Env) (nc : NC) : Prop where
  range : ∀ n i, lookup n nc.ids = some i → i < nc.data.length
  inj : ∀ n1 n2 i, lookup n1 nc.ids = some i → lookup n2 nc.ids = some i → n1 = n2
  glob : ∀ g v i, lookup g env.globals = some v → lookup g nc.ids = some i → nc.data[i]? = some v

def NCExt (nc nc' : NC) : Prop := ∀ n i, lookup n nc.ids = some i → lookup n nc'.ids = some i

def Covered (ids : List (String × Nat)) (a : Ast) : Prop := ∀ n ∈ names a, ∃ i, lookup n ids = some i

theorem lookup_append {α} (k : String) : ∀ (l1 l2 : List (String × α)),
    lookup k (l1 ++ l2) = match lookup k l1 with | some v => some v | none => lookup k l2
  | [], l2 => by simp [lookup]
  | (k', v) :: l1, l2 => by
    simp only [List.cons_append, lookup]
    split
    · rfl
    · exact lookup_append k l1 l2

theorem NCInv.empty (env : Env) : NCInv env {} := by
  constructor <;> intro <;> simp [lookup]

/-- a new name gets the next slot -/
theorem NCInv.push {env : Env} {nc : NC} (h : NCInv env nc) (name : String) (v : Val)
    (hnew : lookup name nc.ids = none) (hg : ∀ w, lookup name env.globals = some w → w = v) :
    NCInv env { ids := nc.ids ++ [(name, nc.data.length)], data := nc.data ++ [v] } := by
  have hl : ∀ n i, lookup n (nc.ids ++ [(name, nc.data.length)]) = some i →
      lookup n nc.ids = some i ∨ (lookup n nc.ids = none ∧ n = name ∧ i = nc.data.length) := by
    intro n i hh
    rw [lookup_append] at hh
    cases hl : lookup n nc.ids with
    | some j => rw [hl] at hh; exact Or.inl hh
    | none =>
      rw [hl] at hh
      simp only [lookup] at hh
      split at hh
      · rename_i e; simp at hh; exact Or.inr ⟨rfl, by simpa using e, hh.symm⟩
      · simp at hh
  constructor
  · intro n i hh
    rcases hl n i hh with h1 | ⟨_, _, rfl⟩
    · have := h.range n i h1; simp; omega
    · simp
  · intro n1 n2 i h1 h2
    rcases hl n1 i h1 with a | ⟨_, e1, e1'⟩ <;> rcases hl n2 i h2 with b | ⟨_, e2, e2'⟩
    · exact h.inj n1 n2 i a b
    · have := h.range n1 _ a; omega
    · have := h.range n2 _ b; omega
    · rw [e1, e2]
  · intro g w i hw hh
    rcases hl g i hh with a | ⟨_, rfl, rfl⟩
    · have := h.glob g w i hw a
      have hr := h.range g i a
      rw [List.getElem?_append_left hr]; exact this
    · simp [hg w hw]

theorem NCExt.refl (nc : NC) : NCExt nc nc := fun _ _ h => h
theorem NCExt.trans {a b c : NC} (h1 : NCExt a b) (h2 : NCExt b c) : NCExt a c := fun n i h => h2 n i (h1 n i h)

theorem NCExt.push (nc : NC) (name : String) (v : Val) (i : Nat) :
    NCExt nc { ids := nc.ids ++ [(name, i)], data := nc.data ++ [v] } := by
  intro n j h
  simp only [lookup_append, h]

theorem Covered.ext {nc nc' : NC} {a : Ast} (h : Covered nc.ids a) (e : NCExt nc nc') : Covered nc'.ids a :=
  fun n hn => let ⟨i, hi⟩ := h n hn; ⟨i, e n i hi⟩

/-- outcome of the collector on the fragment -/
def CollectOK (env : Env) (a : Ast) (nc : NC) (r : CRes) : Prop :=
  r = .fail .outOfFuel ∨ (∃ pos, r = .fail (.err EID.globalMissingValue pos)) ∨
  ∃ vars alloc nc', r = .ok vars alloc nc' ∧ NCInv env nc' ∧ NCExt nc nc' ∧ Covered nc'.ids a

def mergeStep (env : Env) (fuel : Nat) (acc : CRes) (k : Ast) : CRes :=
  match acc with
  | .fail f => .fail f
  | .ok vars _ nc =>
    match collect env fuel k nc with
    | .fail f => .fail f
    | .ok vs _ nc' => .ok (vars ++ vs) (!(vars ++ vs).isEmpty) nc'

theorem merge_fail (env : Env) (fuel : Nat) (f : Fail) : ∀ ks : List Ast, ks.foldl (mergeStep env fuel) (.fail f) = .fail f
  | [] => rfl
  | _ :: ks => by simp only [List.foldl_cons, mergeStep]; exact merge_fail env fuel f ks

/-- `MergeChildren` over subtrees the collector handles -/
theorem merge_ok (env : Env) (fuel : Nat) : ∀ (ks : List Ast) (vars : List Nat) (al : Bool) (nc0 nc : NC),
    NCInv env nc → NCExt nc0 nc →
    (∀ k ∈ ks, ∀ nc, NCInv env nc → CollectOK env k nc (collect env fuel k nc)) →
    let r := ks.foldl (mergeStep env fuel) (.ok vars al nc)
    r = .fail .outOfFuel ∨ (∃ pos, r = .fail (.err EID.globalMissingValue pos)) ∨
    ∃ vars' al' nc', r = .ok vars' al' nc' ∧ NCInv env nc' ∧ NCExt nc0 nc' ∧ NCExt nc nc' ∧
      ∀ k ∈ ks, Covered nc'.ids k
  | [], vars, al, nc0, nc, hi, he, _ => Or.inr (Or.inr ⟨vars, al, nc, rfl, hi, he, NCExt.refl nc, by simp⟩)
  | k :: ks, vars, al, nc0, nc, hi, he, h => by
    simp only [List.foldl_cons]
    rcases h k (by simp) nc hi with h1 | ⟨pos, h1⟩ | ⟨vs, al1, nc1, h1, i1, e1, c1⟩
    · left; simp only [mergeStep, h1]; exact merge_fail env fuel _ ks
    · right; left; exact ⟨pos, by simp only [mergeStep, h1]; exact merge_fail env fuel _ ks⟩
    · simp only [mergeStep, h1]
      rcases merge_ok env fuel ks (vars ++ vs) (!(vars ++ vs).isEmpty) nc0 nc1 i1 (he.trans e1)
        (fun k' hk' => h k' (by simp [hk'])) with h2 | ⟨pos, h2⟩ | ⟨vars', al', nc', h2, i2, e02, e12, c2⟩
      · exact Or.inl h2
      · exact Or.inr (Or.inl ⟨pos, h2⟩)
      · refine Or.inr (Or.inr ⟨vars', al', nc', h2, i2, e02, e1.trans e12, ?_⟩)
        intro k' hk'
        rcases List.mem_cons.mp hk' with rfl | m
        · exact c1.ext e12
        · exact c2 k' m

theorem collect_plain {t : Tok} (ht : plainTok t = true) (env : Env) (fuel : Nat) (d : TokData) (lo hi : Int)
    (ks : List Ast) (nc : NC) :
    collect env (fuel + 1) (.node t d lo hi ks) nc = ks.foldl (mergeStep env fuel) (.ok [] false nc) := by
  cases t <;> simp [plainTok] at ht <;>
  · simp only [collect, dispatchesDefault, isBinderNode, Ast.id, Ast.kids, tok_beq]
    rfl

theorem collect_ident {t : Tok} (ht : t = .ID_GLOBAL ∨ t = .ID_LOCAL) (env : Env) (fuel : Nat) (s : String) (lo hi : Int)
    (ks : List Ast) (nc : NC) :
    collect env (fuel + 1) (.node t (.text s) lo hi ks) nc =
      match lookup s nc.ids with
      | some id => .ok [id] true nc
      | none =>
        if t = .ID_GLOBAL then
          match lookup s env.globals with
          | none => .fail (.err EID.globalMissingValue lo)
          | some v => .ok [nc.data.length] true { ids := nc.ids ++ [(s, nc.data.length)], data := nc.data ++ [v] }
        else .ok [nc.data.length] true { ids := nc.ids ++ [(s, nc.data.length)], data := nc.data ++ [Val.s []] } := by
  rcases ht with rfl | rfl <;>
  · simp only [collect, dispatchesDefault, isBinderNode, Ast.id, Ast.kids, Ast.lo, tok_beq, textOf, Ast.data]
    simp
    rfl

theorem collect_binder {t : Tok} (ht : bindTok t = true) (env : Env) (fuel : Nat) (d : TokData) (lo hi : Int)
    (decl dom body : Ast) (nc : NC) :
    collect env (fuel + 1) (.node t d lo hi [decl, dom, body]) nc =
      match [decl, dom, body].foldl (mergeStep env fuel) (.ok [] false nc) with
      | .fail f => .fail f
      | .ok vars alloc nc' =>
        match collect env fuel decl nc' with
        | .ok (v :: _) _ _ => .ok (eraseAll v vars) alloc nc'
        | .ok [] true _ => .ok vars alloc nc'
        | .ok [] false _ => .fail (.stuck "NameCollector::ViQuantifier *begin(empty)")
        | .fail f => .fail f := by
  cases t <;> simp [bindTok] at ht <;>
  · simp only [collect, dispatchesDefault, isBinderNode, Ast.id, Ast.kids, tok_beq, List.head?]
    rfl

theorem collect_rec {t : Tok} (ht : t = .NT_RECURSIVE_SHORT ∨ t = .NT_RECURSIVE_FULL) (env : Env) (fuel : Nat)
    (d : TokData) (lo hi : Int) (decl : Ast) (rest : List Ast) (nc : NC) :
    collect env (fuel + 1) (.node t d lo hi (decl :: rest)) nc =
      match (decl :: rest).foldl (mergeStep env fuel) (.ok [] false nc) with
      | .fail f => .fail f
      | .ok vars alloc nc' =>
        match collect env fuel decl nc' with
        | .ok (v :: _) _ _ => .ok (eraseAll v vars) alloc nc'
        | .ok [] true _ => .ok vars alloc nc'
        | .ok [] false _ => .fail (.stuck "NameCollector::ViQuantifier *begin(empty)")
        | .fail f => .fail f := by
  rcases ht with rfl | rfl <;>
  · simp only [collect, dispatchesDefault, isBinderNode, Ast.id, Ast.kids, tok_beq, List.head?]
    rfl

theorem collect_blk {t : Tok} (ht : t = .ITERATE ∨ t = .ASSIGN) (env : Env) (fuel : Nat) (d : TokData) (lo hi : Int)
    (ks : List Ast) (nc : NC) :
    collect env (fuel + 1) (.node t d lo hi ks) nc = ks.foldl (mergeStep env fuel) (.ok [] false nc) := by
  rcases ht with rfl | rfl <;>
  · simp only [collect, dispatchesDefault, isBinderNode, Ast.id, Ast.kids, tok_beq]
    rfl

/-- the loop of `NameCollector::ViImperative` over the blocks -/
def impCollectStep (env : Env) (fuel : Nat) (acc : CRes) (b : Ast) : CRes :=
  match acc with
  | .fail f => .fail f
  | .ok vs al nc2 =>
    if b.id == .ITERATE || b.id == .ASSIGN then
      match b.kids.head? with
      | none => .fail (.stuck "NameCollector::ViImperative Child(0)")
      | some d =>
        match collect env fuel d nc2 with
        | .ok (v :: _) _ _ => .ok (eraseAll v vs) al nc2
        | .ok [] _ _ => .fail (.stuck "NameCollector::ViImperative *begin(empty)")
        | .fail f => .fail f
    else .ok vs al nc2

theorem collect_imp (env : Env) (fuel : Nat) (d : TokData) (lo hi : Int) (k0 b0 : Ast) (blocks : List Ast) (nc : NC) :
    collect env (fuel + 1) (.node .NT_IMPERATIVE_EXPR d lo hi (k0 :: b0 :: blocks)) nc =
      match (k0 :: b0 :: blocks).foldl (mergeStep env fuel) (.ok [] false nc) with
      | .fail f => .fail f
      | .ok vars alloc nc' => (b0 :: blocks).foldl (impCollectStep env fuel) (.ok vars alloc nc') := by
  simp only [collect, dispatchesDefault, isBinderNode, Ast.id, Ast.kids,
    show (Tok.NT_IMPERATIVE_EXPR == Tok.ID_GLOBAL) = false from rfl,
    show (Tok.NT_IMPERATIVE_EXPR == Tok.ID_FUNCTION) = false from rfl,
    show (Tok.NT_IMPERATIVE_EXPR == Tok.ID_PREDICATE) = false from rfl,
    show (Tok.NT_IMPERATIVE_EXPR == Tok.ID_LOCAL) = false from rfl,
    show (Tok.NT_IMPERATIVE_EXPR == Tok.FORALL) = false from rfl,
    show (Tok.NT_IMPERATIVE_EXPR == Tok.EXISTS) = false from rfl,
    show (Tok.NT_IMPERATIVE_EXPR == Tok.NT_DECLARATIVE_EXPR) = false from rfl,
    show (Tok.NT_IMPERATIVE_EXPR == Tok.NT_RECURSIVE_FULL) = false from rfl,
    show (Tok.NT_IMPERATIVE_EXPR == Tok.NT_RECURSIVE_SHORT) = false from rfl,
    show (Tok.NT_IMPERATIVE_EXPR == Tok.NT_IMPERATIVE_EXPR) = true from rfl,
    Bool.or_false, Bool.false_eq_true, if_false, if_true]
  rfl

/-- blocks whose declarations are plain variables with a slot: the loop only erases from the variable list -/
theorem impCollect_ok (env : Env) (fuel : Nat) (nc' : NC) : ∀ (blocks : List Ast) (vs : List Nat) (al : Bool),
    (∀ b ∈ blocks, (b.id = .ITERATE ∨ b.id = .ASSIGN) →
      ∃ x dlo dhi e i, b.kids = [.node .ID_LOCAL (.text x) dlo dhi [], e] ∧ lookup x nc'.ids = some i) →
    ∃ vs', blocks.foldl (impCollectStep env (fuel + 1)) (.ok vs al nc') = .ok vs' al nc'
  | [], vs, al, _ => ⟨vs, rfl⟩
  | b :: blocks, vs, al, h => by
    simp only [List.foldl_cons]
    by_cases hb : (b.id == .ITERATE || b.id == .ASSIGN) = true
    · have hb' : b.id = .ITERATE ∨ b.id = .ASSIGN := by simpa [tok_beq] using hb
      obtain ⟨x, dlo, dhi, e, i, hk, hi⟩ := h b (by simp) hb'
      have : impCollectStep env (fuel + 1) (.ok vs al nc') b = .ok (eraseAll i vs) al nc' := by
        simp only [impCollectStep, hb, if_true, hk, List.head?]
        rw [collect_ident (Or.inr rfl), hi]
      rw [this]
      exact impCollect_ok env fuel nc' blocks _ al (fun b' hb' => h b' (by simp [hb']))
    · have : impCollectStep env (fuel + 1) (.ok vs al nc') b = .ok vs al nc' := by
        simp only [impCollectStep, hb]; rfl
      rw [this]
      exact impCollect_ok env fuel nc' blocks _ al (fun b' hb' => h b' (by simp [hb']))

theorem Covered.node {ids : List (String × Nat)} {t : Tok} {d : TokData} {lo hi : Int} {ks : List Ast}
    (ht : plainTok t = true ∨ bindTok t = true ∨ t = .NT_RECURSIVE_SHORT ∨ t = .NT_RECURSIVE_FULL ∨ t = .ITERATE ∨
      t = .ASSIGN ∨ t = .NT_IMPERATIVE_EXPR)
    (h : ∀ k ∈ ks, Covered ids k) : Covered ids (.node t d lo hi ks) := by
  intro n hn
  have hid : (t == .ID_LOCAL || t == .ID_GLOBAL) = false := by
    rcases ht with ht | ht | rfl | rfl | rfl | rfl | rfl
    · cases t <;> simp [plainTok] at ht <;> rfl
    · cases t <;> simp [bindTok] at ht <;> rfl
    all_goals rfl
  simp only [names, hid, Bool.false_eq_true, if_false, List.nil_append] at hn
  obtain ⟨k, hk, hnk⟩ := mem_namesKids.mp hn
  exact h k hk n hnk

/-- a local that is no global: the collector gives it a slot (or finds the one it has) -/
theorem collect_local_ok {env : Env} (x : String) (dlo dhi : Int) (hx : lookup x env.globals = none) :
    ∀ f nc, NCInv env nc → CollectOK env (.node .ID_LOCAL (.text x) dlo dhi []) nc
      (collect env f (.node .ID_LOCAL (.text x) dlo dhi []) nc) := by
  intro f nc hi''
  cases f with
  | zero => exact Or.inl (collect_zero _ _ _)
  | succ g =>
    rw [collect_ident (Or.inr rfl)]
    have hcov : ∀ ids : List (String × Nat), (∃ i, lookup x ids = some i) →
        Covered ids (.node .ID_LOCAL (.text x) dlo dhi []) := by
      intro ids hx' n hn
      simp [names, namesKids] at hn
      rw [hn.2]; exact hx'
    cases hl : lookup x nc.ids with
    | some id => exact Or.inr (Or.inr ⟨_, _, _, rfl, hi'', NCExt.refl nc, hcov _ ⟨id, hl⟩⟩)
    | none =>
      simp only [show ¬ (Tok.ID_LOCAL = Tok.ID_GLOBAL) by decide, if_false]
      refine Or.inr (Or.inr ⟨_, _, _, rfl, hi''.push x (.s []) hl (fun w hw => by rw [hx] at hw; cases hw),
        NCExt.push nc x _ _, hcov _ ⟨nc.data.length, ?_⟩⟩)
      simp [lookup_append, hl, lookup]

theorem collect_shape {env : Env} {a : Ast} (h : Shape env a) : ∀ fuel nc, NCInv env nc →
    CollectOK env a nc (collect env fuel a nc) := by
  induction h with
  | @plain t d lo hi ks ht _ ih =>
    intro fuel nc hi'
    cases fuel with
    | zero => exact Or.inl (collect_zero _ _ _)
    | succ f =>
      rw [collect_plain ht]
      rcases merge_ok env f ks [] false nc nc hi' (NCExt.refl nc) (fun k hk nc' hi'' => ih k hk f nc' hi'')
        with h1 | ⟨pos, h1⟩ | ⟨vars', al', nc', h1, i1, e1, _, c1⟩
      · exact Or.inl h1
      · exact Or.inr (Or.inl ⟨pos, h1⟩)
      · exact Or.inr (Or.inr ⟨vars', al', nc', h1, i1, e1, Covered.node (Or.inl ht) c1⟩)
  | glob s lo hi =>
    intro fuel nc hi'
    cases fuel with
    | zero => exact Or.inl (collect_zero _ _ _)
    | succ f =>
      rw [collect_ident (Or.inl rfl)]
      have hcov : ∀ ids : List (String × Nat), (∃ i, lookup s ids = some i) →
          Covered ids (.node .ID_GLOBAL (.text s) lo hi []) := by
        intro ids hx n hn
        simp [names, namesKids] at hn
        rw [hn.2]; exact hx
      cases hl : lookup s nc.ids with
      | some id => exact Or.inr (Or.inr ⟨_, _, _, rfl, hi', NCExt.refl nc, hcov _ ⟨id, hl⟩⟩)
      | none =>
        simp only [if_true]
        cases hg : lookup s env.globals with
        | none => exact Or.inr (Or.inl ⟨lo, rfl⟩)
        | some v =>
          refine Or.inr (Or.inr ⟨_, _, _, rfl, hi'.push s v hl (fun w hw => by rw [hg] at hw; injection hw with e; exact e.symm),
            NCExt.push nc s v _, hcov _ ⟨nc.data.length, ?_⟩⟩)
          simp [lookup_append, hl, lookup]
  | loc s lo hi hs =>
    intro fuel nc hi'
    cases fuel with
    | zero => exact Or.inl (collect_zero _ _ _)
    | succ f =>
      rw [collect_ident (Or.inr rfl)]
      have hcov : ∀ ids : List (String × Nat), (∃ i, lookup s ids = some i) →
          Covered ids (.node .ID_LOCAL (.text s) lo hi []) := by
        intro ids hx n hn
        simp [names, namesKids] at hn
        rw [hn.2]; exact hx
      cases hl : lookup s nc.ids with
      | some id => exact Or.inr (Or.inr ⟨_, _, _, rfl, hi', NCExt.refl nc, hcov _ ⟨id, hl⟩⟩)
      | none =>
        simp only [show ¬ (Tok.ID_LOCAL = Tok.ID_GLOBAL) by decide, if_false]
        refine Or.inr (Or.inr ⟨_, _, _, rfl, hi'.push s (.s []) hl (fun w hw => by rw [hs] at hw; cases hw),
          NCExt.push nc s _ _, hcov _ ⟨nc.data.length, ?_⟩⟩)
        simp [lookup_append, hl, lookup]
  | @binder t d lo hi x dlo dhi dom body ht hx _ _ ihd ihb =>
    intro fuel nc hi'
    cases fuel with
    | zero => exact Or.inl (collect_zero _ _ _)
    | succ f =>
      rw [collect_binder ht]
      have hdecl : ∀ f nc, NCInv env nc → CollectOK env (.node .ID_LOCAL (.text x) dlo dhi []) nc
          (collect env f (.node .ID_LOCAL (.text x) dlo dhi []) nc) := by
        intro f nc hi''
        cases f with
        | zero => exact Or.inl (collect_zero _ _ _)
        | succ g =>
          rw [collect_ident (Or.inr rfl)]
          have hcov : ∀ ids : List (String × Nat), (∃ i, lookup x ids = some i) →
              Covered ids (.node .ID_LOCAL (.text x) dlo dhi []) := by
            intro ids hx' n hn
            simp [names, namesKids] at hn
            rw [hn.2]; exact hx'
          cases hl : lookup x nc.ids with
          | some id => exact Or.inr (Or.inr ⟨_, _, _, rfl, hi'', NCExt.refl nc, hcov _ ⟨id, hl⟩⟩)
          | none =>
            simp only [show ¬ (Tok.ID_LOCAL = Tok.ID_GLOBAL) by decide, if_false]
            refine Or.inr (Or.inr ⟨_, _, _, rfl, hi''.push x (.s []) hl (fun w hw => by rw [hx] at hw; cases hw),
              NCExt.push nc x _ _, hcov _ ⟨nc.data.length, ?_⟩⟩)
            simp [lookup_append, hl, lookup]
      rcases merge_ok env f [.node .ID_LOCAL (.text x) dlo dhi [], dom, body] [] false nc nc hi' (NCExt.refl nc)
        (fun k hk nc' hi'' => by
          simp only [List.mem_cons, List.not_mem_nil, or_false] at hk
          rcases hk with rfl | rfl | rfl
          · exact hdecl f nc' hi''
          · exact ihd f nc' hi''
          · exact ihb f nc' hi'')
        with h1 | ⟨pos, h1⟩ | ⟨vars', al', nc', h1, i1, e1, _, c1⟩
      · left; simp only [h1]
      · right; left; exact ⟨pos, by simp only [h1]⟩
      · simp only [h1]
        -- the declaration is looked up again: it has its slot now
        have hc := c1 (.node .ID_LOCAL (.text x) dlo dhi []) (by simp)
        obtain ⟨id, hid⟩ := hc x (by simp [names, namesKids, tok_beq])
        cases f with
        | zero =>
          -- impossible: with no fuel the merge above fails
          simp [List.foldl, mergeStep, collect_zero] at h1
        | succ g =>
          rw [collect_ident (Or.inr rfl), hid]
          exact Or.inr (Or.inr ⟨_, _, _, rfl, i1, e1, Covered.node (Or.inr (Or.inl ht)) c1⟩)
  | @recur t d lo hi x dlo dhi rest ht hx _ ih =>
    intro fuel nc hi'
    cases fuel with
    | zero => exact Or.inl (collect_zero _ _ _)
    | succ f =>
      have ht' : t = .NT_RECURSIVE_SHORT ∨ t = .NT_RECURSIVE_FULL := by
        rcases ht with ⟨h, _⟩ | ⟨h, _⟩ <;> simp [h]
      rw [collect_rec ht']
      rcases merge_ok env f (.node .ID_LOCAL (.text x) dlo dhi [] :: rest) [] false nc nc hi' (NCExt.refl nc)
        (fun k hk nc' hi'' => by
          rcases List.mem_cons.mp hk with rfl | hk
          · exact collect_local_ok x dlo dhi hx f nc' hi''
          · exact ih k hk f nc' hi'')
        with h1 | ⟨pos, h1⟩ | ⟨vars', al', nc', h1, i1, e1, _, c1⟩
      · left; simp only [h1]
      · right; left; exact ⟨pos, by simp only [h1]⟩
      · simp only [h1]
        have hc := c1 (.node .ID_LOCAL (.text x) dlo dhi []) (by simp)
        obtain ⟨id, hid⟩ := hc x (by simp [names, namesKids, tok_beq])
        cases f with
        | zero => simp [List.foldl, mergeStep, collect_zero, merge_fail] at h1
        | succ g =>
          rw [collect_ident (Or.inr rfl), hid]
          exact Or.inr (Or.inr ⟨_, _, _, rfl, i1, e1,
            Covered.node (by rcases ht' with h | h <;> simp [h]) c1⟩)
  | @blk t d lo hi x dlo dhi e ht hx _ ih =>
    intro fuel nc hi'
    cases fuel with
    | zero => exact Or.inl (collect_zero _ _ _)
    | succ f =>
      rw [collect_blk ht]
      rcases merge_ok env f [.node .ID_LOCAL (.text x) dlo dhi [], e] [] false nc nc hi' (NCExt.refl nc)
        (fun k hk nc' hi'' => by
          simp only [List.mem_cons, List.not_mem_nil, or_false] at hk
          rcases hk with rfl | rfl
          · exact collect_local_ok x dlo dhi hx f nc' hi''
          · exact ih f nc' hi'')
        with h1 | ⟨pos, h1⟩ | ⟨vars', al', nc', h1, i1, e1, _, c1⟩
      · exact Or.inl h1
      · exact Or.inr (Or.inl ⟨pos, h1⟩)
      · exact Or.inr (Or.inr ⟨vars', al', nc', h1, i1, e1,
          Covered.node (by rcases ht with h | h <;> simp [h]) c1⟩)
  | imp d lo hi value blocks hne hv hbs ihv ihb =>
    intro fuel nc hi'
    cases fuel with
    | zero => exact Or.inl (collect_zero _ _ _)
    | succ f =>
      match blocks, hne with
      | b0 :: blocks, _ =>
        rw [collect_imp]
        rcases merge_ok env f (value :: b0 :: blocks) [] false nc nc hi' (NCExt.refl nc)
          (fun k hk nc' hi'' => by
            rcases List.mem_cons.mp hk with rfl | hk
            · exact ihv f nc' hi''
            · exact ihb k hk f nc' hi'')
          with h1 | ⟨pos, h1⟩ | ⟨vars', al', nc', h1, i1, e1, _, c1⟩
        · left; simp only [h1]
        · right; left; exact ⟨pos, by simp only [h1]⟩
        · simp only [h1]
          cases f with
          | zero => simp [List.foldl, mergeStep, collect_zero, merge_fail] at h1
          | succ g =>
            obtain ⟨vs', hvs⟩ := impCollect_ok env g nc' (b0 :: blocks) vars' al' (by
              intro b hb hid
              obtain ⟨x, dlo, dhi, e, hk⟩ := (hbs b hb).blk_inv hid
              have hcb := c1 b (List.mem_cons_of_mem _ hb)
              obtain ⟨bt, bd, blo, bhi, bks⟩ := b
              simp only [Ast.kids] at hk
              subst hk
              obtain ⟨i, hi2⟩ := hcb x (names_kid (k := .node .ID_LOCAL (.text x) dlo dhi []) (by simp)
                (by simp [names, namesKids, tok_beq]))
              exact ⟨x, dlo, dhi, e, i, rfl, hi2⟩)
            rw [hvs]
            exact Or.inr (Or.inr ⟨_, _, _, rfl, i1, e1, Covered.node (by simp) c1⟩)

end CCVerif.Eval
