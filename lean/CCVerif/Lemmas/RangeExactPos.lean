import CCVerif.Lemmas.RangeExactTop
import CCVerif.Lemmas.ParsePosMap
set_option linter.unusedVariables false
/-!
Helper lemmas of C06 `range_exact`, part 3 — from token numbers back to positions: every positioned token
stream is its numbered stream (`number 0 ts`: the `k`-th token at `[k, k]`) with the positions put back
(`loAt` / `hiAt`), and the parser commutes with that (`Lemmas/ParsePosMap.lean`).
-/
namespace CCVerif.RangeExact
open CCVerif.Syntax CCVerif.Generated CCVerif.Lexer CCVerif.Parser CCVerif.PN

/-- the same tokens, the `k`-th one at `[o + k, o + k]` -/
def number : Int → Toks → Toks
  | _, [] => []
  | o, t :: ts => ⟨t.id, t.data, o, o⟩ :: number (o + 1) ts

/-- start of the token that `number o ts` puts at `i` -/
def loAt : Toks → Int → Int → Int
  | [], _, _ => 0
  | t :: ts, o, i => if i = o then t.lo else loAt ts (o + 1) i
/-- finish of the token that `number o ts` puts at `i` -/
def hiAt : Toks → Int → Int → Int
  | [], _, _ => 0
  | t :: ts, o, i => if i = o then t.hi else hiAt ts (o + 1) i

theorem idx_number : ∀ (ts : Toks) (o : Int), Idx o (number o ts)
  | [], _ => trivial
  | t :: ts, o => ⟨rfl, rfl, idx_number ts (o + 1)⟩

theorem number_ge : ∀ (ts : Toks) (o : Int), ∀ x ∈ number o ts, o ≤ x.lo ∧ x.hi = x.lo
  | [], _, x, hx => by simp [number] at hx
  | t :: ts, o, x, hx => by
    simp only [number, List.mem_cons] at hx
    rcases hx with rfl | hx
    · exact ⟨Int.le_refl _, rfl⟩
    · have := number_ge ts (o + 1) x hx
      exact ⟨by omega, this.2⟩

theorem number_map : ∀ (ts : Toks) (o : Int), (number o ts).map (mp (loAt ts o) (hiAt ts o)) = ts
  | [], _ => rfl
  | t :: ts, o => by
    simp only [number, List.map_cons]
    congr 1
    · simp [mp, loAt, hiAt]
    · have ih := number_map ts (o + 1)
      refine Eq.trans (List.map_congr_left ?_) ih
      intro x hx
      have hge := number_ge ts (o + 1) x hx
      have hne : x.lo ≠ o := by omega
      have hne2 : x.hi ≠ o := by omega
      simp [mp, loAt, hiAt, hne, hne2]

/-- parsing a positioned stream = parsing its numbered stream and putting the positions back -/
theorem parseToks_number (ts : Toks) :
    parseToks ts = (parseToks (number 0 ts)).map (mpA (loAt ts 0) (hiAt ts 0)) := by
  have h := parseToks_natural (pl := loAt ts 0) (ph := hiAt ts 0) (number 0 ts)
  rw [number_map] at h
  exact h

end CCVerif.RangeExact
