import CCVerif.Lemmas.RSModelGenRenOn
import CCVerif.Lemmas.CheckerWfCarrier
import CCVerif.Lemmas.EvaluatorAnalysis
/-!
C11 for the type-checker model + the evaluator model WITH renaming operations, on the carrier of
grammar-shaped constituents (`Lemmas/CheckerWfCarrier.lean`, generic part `Lemmas/RSModelGenRenOn.lean`).

* `cstShaped c` — the carrier: the alias is a good name (`GoodName`: a letter block, neither `R0` nor a radical)
  and the definition is grammar-shaped (`defShaped`);
* `NameRen` — the renamings used: `CRen.ofNameBij n` for a `NameBij` that fixes the radicals;
* `TraitsApart` — the (constant) trait keys are single blocks that are not good names (e.g. `Z`);
* `checker_carrier : RenCarrier …` — ADMISSIBILITY, proved (from `NameBij.ofMap`);
* `evaluator_rename_statement fuel` — the ONE open law: `Interpreter::Evaluate` commutes with such a renaming of
  the tree and of the data context (normaliser, name collector and interpreter key their tables by the spelling);
* `evalEquivariance_of` — the evaluation half of the equivariance from that statement.
-/
namespace CCVerif.RSModelGen
open CCVerif CCVerif.Syntax CCVerif.SchemaGen CCVerif.Types CCVerif.Checker CCVerif.Blocks
open CCVerif.Schema (Kind Status)

/-- the carrier of the instance: a good alias and a grammar-shaped definition -/
def cstShaped (c : Cst CDef) : Prop := GoodName c.alias ∧ defShaped c.defn = true

instance (c : Cst CDef) : Decidable (cstShaped c) := by unfold cstShaped; exact inferInstance

/-- the renamings of the instance: token-wise and block-wise action of a `NameBij` that fixes the radicals -/
def NameRen (traits : TraitEnv) (r : CRenFor (fun _ => traits)) : Prop :=
  ∃ n : NameBij, (∀ s, isRadical s = true → n.b.f s = s) ∧ r.r = CRen.ofNameBij n

/-- the keys of the constant traits are single blocks that no renaming of good names moves -/
def TraitsApart (traits : TraitEnv) : Prop := ∀ p ∈ traits, isBlock p.1.toList = true ∧ ¬ GoodName p.1

instance (traits : TraitEnv) : Decidable (TraitsApart traits) := by unfold TraitsApart; exact inferInstance

/-- **admissibility on the carrier** (the law `Equivariant.analyse_ren` / `rename_id` / `mentions_rename` of
`Lemmas/RSModelGenRen.lean` asked for every partial map; here: for the maps that occur) -/
theorem checker_carrier (traits : TraitEnv) (hT : TraitsApart traits) :
    RenCarrier (checkerR fun _ => traits) (checkerEquivariance fun _ => traits) (NameRen traits) cstShaped where
  adm := by
    intro s f hP hP' _ hd'
    let names := s.map (·.alias)
    have hgood : ∀ x ∈ names, GoodName x ∧ GoodName (ren f x) := by
      intro x hx
      obtain ⟨c, hc, rfl⟩ := List.mem_map.1 hx
      exact ⟨(hP c hc).1, (hP' c hc).1⟩
    have hinj : ∀ a ∈ names, ∀ b ∈ names, ren f a = ren f b → a = b := by
      intro a ha b hb e
      obtain ⟨c, hc, rfl⟩ := List.mem_map.1 ha
      obtain ⟨d, hd, rfl⟩ := List.mem_map.1 hb
      rw [ExtractGen.inj_of_nodup_map hd' c hc d hd e]
    have hrad := NameBij.ofMap_radical names (ren f) hgood hinj
    have hfix : ∀ p ∈ traits, mapBlocks (NameBij.ofMap names (ren f)).b.f p.1 = p.1 := by
      intro p hp
      obtain ⟨h1, h2⟩ := hT p hp
      rw [mapBlocks_single _ h1]
      refine NameBij.ofMap_fix names (ren f) hgood hinj p.1 (fun h => h2 (hgood _ h).1) ?_
      intro h
      obtain ⟨y, hy, e⟩ := List.mem_map.1 h
      exact h2 (e ▸ (hgood y hy).2)
    refine ⟨constRen traits (NameBij.ofMap names (ren f)) hfix, ⟨_, hrad, rfl⟩, ?_, ?_⟩
    · intro c hc
      exact goodC_of_shaped _ hrad (isNameL_block (hP c hc).1.name) (hP c hc).2
    · intro c hc
      exact NameBij.ofMap_spec names (ren f) hgood hinj c.alias (List.mem_map.2 ⟨c, hc, rfl⟩)

/-- the open law of the evaluator model: for a `NameBij` that fixes the radicals, a constituent of the carrier and
two data contexts related by the bijection on the mentioned names, a value obtained for the constituent is
obtained for the renamed constituent (alias and every global token of the definition renamed) -/
def evaluator_rename_statement (fuel : Nat) : Prop :=
  ∀ (n : NameBij), (∀ s, isRadical s = true → n.b.f s = s) →
    ∀ (ctx ctx' : String → Option Eval.Val) (c : Cst CDef) (v : Eval.Val), cstShaped c →
      (∀ m ∈ mentionsOf c.defn, ∀ x, ctx m = some x → ctx' (n.b.f m) = some x) →
      evalC fuel ctx c = some v → evalC fuel ctx' (renCstC (CRen.ofNameBij n) c) = some v

/-- the evaluation half of the equivariance, from the open statement -/
theorem evalEquivariance_of (traits : TraitEnv) (fuel : Nat) (hev : evaluator_rename_statement fuel) :
    EvalEquivarianceOn (checkerR fun _ => traits) (evaluatorE fuel) (checkerEquivariance fun _ => traits)
      (NameRen traits) cstShaped where
  verified_ren := fun _ _ => rfl
  eval_ren := by
    rintro r ctx ctx' c v ⟨n, hrad, hr⟩ hP _ hctx he
    have e : (checkerEquivariance fun _ => traits).renC r c = renCstC (CRen.ofNameBij n) c := by
      show renCstC r.r c = _
      rw [hr]
    rw [e]
    refine hev n hrad ctx ctx' c v hP ?_ he
    intro m hm x hx
    have := hctx m hm x hx
    have e2 : (checkerEquivariance fun _ => traits).app r m = n.b.f m := by
      show r.r.ρ.f m = _
      rw [hr]
      rfl
    rw [e2] at this
    exact this

end CCVerif.RSModelGen
