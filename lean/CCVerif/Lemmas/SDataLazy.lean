import CCVerif.Lemmas.SData
/-! Helper lemmas for C15: the lazy iterators (`SDDecartian::Iterator`, `SDPowerSet::Iterator`)
enumerate exactly the expected index vectors, in order.  Method: the expected list is a *chain*
(each element is mapped to the next one by the step function) whose last element is mapped to
"completed"; a walk with enough fuel along a chain returns the chain. -/
set_option linter.unusedSimpArgs false
set_option linter.unusedVariables false
namespace CCVerif.SData

/-! ## chains -/

def Chain {σ : Type} (step : σ → Option σ) : List σ → Prop
  | [] => True
  | [_] => True
  | a :: b :: r => step a = some b ∧ Chain step (b :: r)

theorem iterGo_of_chain {σ : Type} (step : σ → Option σ) : ∀ (L : List σ) (a : σ) (fuel : Nat),
    Chain step (a :: L) → (∀ z, (a :: L).getLast? = some z → step z = none) → (a :: L).length ≤ fuel →
    iterGo step fuel a = a :: L
  | [], a, fuel, _, hl, hf => by
    cases fuel with
    | zero => simp at hf
    | succ f => simp [iterGo, hl a (by simp)]
  | b :: L, a, fuel, hc, hl, hf => by
    cases fuel with
    | zero => simp at hf
    | succ f =>
      simp only [Chain] at hc
      have ih := iterGo_of_chain step L b f hc.2
        (fun z hz => hl z (by rw [List.getLast?_cons_cons]; exact hz)) (by simp at hf ⊢; omega)
      simp [iterGo, hc.1, ih]

theorem chain_append {σ : Type} (step : σ → Option σ) : ∀ (xs ys : List σ), Chain step xs → Chain step ys →
    (∀ x y, xs.getLast? = some x → ys.head? = some y → step x = some y) → Chain step (xs ++ ys)
  | [], ys, _, h2, _ => by simpa using h2
  | [a], [], _, _, _ => by simp [Chain]
  | [a], y :: r, _, h2, h3 => by
    simp only [List.cons_append, List.nil_append, Chain]
    exact ⟨h3 a y (by simp) (by simp), h2⟩
  | a :: b :: r, ys, h1, h2, h3 => by
    simp only [Chain] at h1
    simp only [List.cons_append, Chain]
    refine ⟨h1.1, ?_⟩
    have := chain_append step (b :: r) ys h1.2 h2
      (fun x y hx hy => h3 x y (by rw [List.getLast?_cons_cons]; exact hx) hy)
    simpa using this

theorem chain_map_of {σ ρ : Type} (step : σ → Option σ) (S : ρ → Option ρ) (f : ρ → σ)
    (hf : ∀ q q', S q = some q' → step (f q) = some (f q')) :
    ∀ Q : List ρ, Chain S Q → Chain step (Q.map f)
  | [], _ => by simp [Chain]
  | [q], _ => by simp [Chain]
  | q :: q' :: r, h => by
    simp only [Chain] at h
    simp only [List.map_cons, Chain]
    exact ⟨hf q q' h.1, by simpa using chain_map_of step S f hf (q' :: r) h.2⟩

theorem head?_flatMap_cons {σ ρ : Type} (B : ρ → List σ) (q : ρ) (Q : List ρ) (h : B q ≠ []) :
    ((q :: Q).flatMap B).head? = (B q).head? := by
  rw [List.flatMap_cons, List.head?_append]
  cases hb : B q with
  | nil => exact absurd hb h
  | cons x r => simp

/-- blocks glued along an outer chain. -/
theorem chain_flatMap {σ ρ : Type} (step : σ → Option σ) (S : ρ → Option ρ) (B : ρ → List σ) :
    ∀ Q : List ρ, (∀ q ∈ Q, B q ≠ []) → (∀ q ∈ Q, Chain step (B q)) →
    (∀ q ∈ Q, ∀ q' ∈ Q, S q = some q' → ∀ x y, (B q).getLast? = some x → (B q').head? = some y → step x = some y) →
    Chain S Q → Chain step (Q.flatMap B)
  | [], _, _, _, _ => by simp [Chain]
  | [q], _, hB, _, _ => by simpa using hB q (by simp)
  | q :: q' :: r, hne, hB, hglue, h => by
    simp only [Chain] at h
    rw [List.flatMap_cons]
    apply chain_append step _ _ (hB q (by simp))
      (chain_flatMap step S B (q' :: r) (fun x hx => hne x (List.mem_cons_of_mem _ hx))
        (fun x hx => hB x (List.mem_cons_of_mem _ hx))
        (fun x hx y hy => hglue x (List.mem_cons_of_mem _ hx) y (List.mem_cons_of_mem _ hy)) h.2)
    intro x y hx hy
    rw [head?_flatMap_cons B q' r (hne q' (by simp))] at hy
    exact hglue q (by simp) q' (by simp) h.1 x y hx hy

theorem getLast?_flatMap_ne {σ ρ : Type} (B : ρ → List σ) :
    ∀ (Q : List ρ) (z : ρ), (∀ q ∈ Q, B q ≠ []) → Q.getLast? = some z → (Q.flatMap B).getLast? = (B z).getLast?
  | [], _, _, h => by simp at h
  | [q], z, _, h => by simp at h; subst h; simp
  | q :: q' :: r, z, hne, h => by
    rw [List.getLast?_cons_cons] at h
    have ih := getLast?_flatMap_ne B (q' :: r) z (fun x hx => hne x (List.mem_cons_of_mem _ hx)) h
    have hz : z ∈ q' :: r := List.mem_of_getLast? h
    rw [List.flatMap_cons, List.getLast?_append, ih]
    cases hb : (B z).getLast? with
    | none => exact absurd (List.getLast?_eq_none_iff.mp hb) (hne z (List.mem_cons_of_mem _ hz))
    | some x => simp

theorem chain_imp {σ : Type} (s1 s2 : σ → Option σ) (h : ∀ x y, s1 x = some y → s2 x = some y) :
    ∀ L : List σ, Chain s1 L → Chain s2 L
  | [], _ => by simp [Chain]
  | [_], _ => by simp [Chain]
  | a :: b :: r, hc => by
    simp only [Chain] at hc ⊢
    exact ⟨h a b hc.1, chain_imp s1 s2 h (b :: r) hc.2⟩

/-! ## SDDecartian::Iterator -/

/-- the expected states for reversed factor sizes `rd`: the last factor (head of the reversed
vector) runs fastest. -/
def prodStates : List Nat → List (List (Nat × Nat))
  | [] => [[]]
  | d :: rest => (prodStates rest).flatMap fun q => (List.range d).map fun i => (i, d) :: q

def firstState (rd : List Nat) : List (Nat × Nat) := rd.map fun d => (0, d)
def lastState (rd : List Nat) : List (Nat × Nat) := rd.map fun d => (d - 1, d)

theorem chain_range_block_aux (d : Nat) (q : List (Nat × Nat)) : ∀ m, m ≤ d →
    Chain stepProd ((List.range m).map fun i => (i, d) :: q) := by
  intro m
  induction m with
  | zero => intro _; simp [Chain]
  | succ m ih =>
    intro hm
    rw [List.range_succ, List.map_append]
    apply chain_append _ _ _ (ih (by omega)) (by simp [Chain])
    intro x y hx hy
    simp only [List.map_cons, List.map_nil, List.head?_cons, Option.some.injEq] at hy
    subst hy
    rw [List.getLast?_map, List.getLast?_range] at hx
    by_cases h0 : m = 0
    · simp [h0] at hx
    · simp only [h0, if_false, Option.map_some, Option.some.injEq] at hx
      subst hx
      have h1 : m - 1 + 1 = m := by omega
      have hne : ¬ m = d := by omega
      simp only [stepProd, h1, hne, if_false]

theorem chain_range_block (d : Nat) (q : List (Nat × Nat)) :
    Chain stepProd ((List.range d).map fun i => (i, d) :: q) :=
  chain_range_block_aux d q d (Nat.le_refl d)

theorem prodStates_spec : ∀ rd : List Nat, (∀ d ∈ rd, 0 < d) →
    (prodStates rd).head? = some (firstState rd) ∧ (prodStates rd).getLast? = some (lastState rd) ∧
    Chain stepProd (prodStates rd) ∧ (prodStates rd).length = rd.foldr (· * ·) 1
  | [], _ => by simp [prodStates, firstState, lastState, Chain]
  | d :: rest, h => by
    have hd : 0 < d := h d (by simp)
    obtain ⟨ih1, ih2, ih3, ih4⟩ := prodStates_spec rest (fun x hx => h x (by simp [hx]))
    have hne : ∀ q : List (Nat × Nat), ((List.range d).map fun i => (i, d) :: q) ≠ [] := by
      intro q hq
      have := congrArg List.length hq
      simp at this; omega
    refine ⟨?_, ?_, ?_, ?_⟩
    · cases hps : prodStates rest with
      | nil => simp [hps] at ih1
      | cons q0 Q =>
        rw [hps] at ih1
        simp only [List.head?_cons, Option.some.injEq] at ih1
        simp only [prodStates, hps]
        rw [head?_flatMap_cons _ q0 Q (hne q0), List.head?_map, List.head?_range]
        have : d ≠ 0 := by omega
        simp [this, firstState, ih1]
    · simp only [prodStates]
      rw [getLast?_flatMap_ne _ _ _ (fun q _ => hne q) ih2, List.getLast?_map, List.getLast?_range]
      have : d ≠ 0 := by omega
      simp [this, lastState]
    · simp only [prodStates]
      apply chain_flatMap stepProd stepProd _ _ (fun q _ => hne q) (fun q _ => chain_range_block d q) _ ih3
      intro q _ q' _ hq x y hx hy
      rw [List.getLast?_map, List.getLast?_range] at hx
      rw [List.head?_map, List.head?_range] at hy
      have : d ≠ 0 := by omega
      simp only [this, if_false, Option.map_some, Option.some.injEq] at hx hy
      subst hx; subst hy
      have : d - 1 + 1 = d := by omega
      simp [stepProd, this, hq]
    · simp only [prodStates, List.length_flatMap, List.length_map, List.length_range, List.foldr_cons]
      rw [← ih4]
      generalize prodStates rest = Q
      induction Q with
      | nil => simp
      | cons q Q ih => simp [ih, Nat.mul_add, Nat.mul_comm]; omega

theorem stepProd_lastState : ∀ rd : List Nat, (∀ d ∈ rd, 0 < d) → stepProd (lastState rd) = none
  | [], _ => by simp [lastState, stepProd]
  | d :: rest, h => by
    have hd : 0 < d := h d (by simp)
    have : d - 1 + 1 = d := by omega
    have ih := stepProd_lastState rest (fun x hx => h x (by simp [hx]))
    simp only [lastState] at ih
    simp [lastState, stepProd, this, ih]

/-- all index vectors below `dims`, lexicographically ascending (last index fastest). -/
def tuplesIdx : List Nat → List (List Nat)
  | [] => [[]]
  | d :: ds => (List.range d).flatMap fun i => (tuplesIdx ds).map (i :: ·)

theorem tuplesIdx_snoc : ∀ (ds : List Nat) (d : Nat),
    tuplesIdx (ds ++ [d]) = (tuplesIdx ds).flatMap fun t => (List.range d).map fun i => t ++ [i]
  | [], d => by
    simp only [List.nil_append, tuplesIdx, List.map_cons, List.map_nil, List.flatMap_cons,
      List.flatMap_nil, List.append_nil]
    induction List.range d with
    | nil => rfl
    | cons x r ih => simp [List.flatMap_cons, ih]
  | a :: ds, d => by
    simp only [List.cons_append, tuplesIdx]
    rw [tuplesIdx_snoc ds d, List.flatMap_assoc]
    congr 1
    funext i
    rw [List.map_flatMap, List.flatMap_map]
    congr 1
    funext t
    simp [List.map_map, Function.comp_def]

theorem prodStates_map : ∀ rd : List Nat,
    (prodStates rd).map (fun r => r.reverse.map Prod.fst) = tuplesIdx rd.reverse
  | [] => by simp [prodStates, tuplesIdx]
  | d :: rest => by
    simp only [prodStates, List.reverse_cons]
    rw [tuplesIdx_snoc, ← prodStates_map rest, List.map_flatMap, List.flatMap_map]
    congr 1
    funext q
    simp [List.map_map, Function.comp_def]

theorem foldl_mul_eq_foldr (dims : List Nat) : dims.foldl (· * ·) 1 = dims.reverse.foldr (· * ·) 1 := by
  rw [List.foldr_reverse]
  congr 1
  funext x y
  exact Nat.mul_comm x y

theorem foldl_mul_aux : ∀ (dims : List Nat) (a : Nat), dims.foldl (· * ·) a = a * dims.foldl (· * ·) 1
  | [], a => by simp
  | d :: ds, a => by
    simp only [List.foldl_cons, Nat.one_mul]
    rw [foldl_mul_aux ds (a * d), foldl_mul_aux ds d, Nat.mul_assoc]

theorem foldl_mul_eq_zero : ∀ dims : List Nat, dims.foldl (· * ·) 1 = 0 ↔ ∃ d ∈ dims, d = 0
  | [] => by simp
  | d :: ds => by
    simp only [List.foldl_cons, Nat.one_mul]
    rw [foldl_mul_aux ds d, Nat.mul_eq_zero, foldl_mul_eq_zero ds]
    simp [eq_comm]

theorem tuplesIdx_zero : ∀ dims : List Nat, (∃ d ∈ dims, d = 0) → tuplesIdx dims = []
  | [], h => by simp at h
  | d :: ds, h => by
    simp only [tuplesIdx]
    by_cases h0 : d = 0
    · subst h0; simp
    · have : ∃ d ∈ ds, d = 0 := by
        obtain ⟨x, hx, hx0⟩ := h
        rcases List.mem_cons.mp hx with e | hx
        · subst e; exact absurd hx0 h0
        · exact ⟨x, hx, hx0⟩
      rw [tuplesIdx_zero ds this]
      induction List.range d with
      | nil => rfl
      | cons x r ih => simp [List.flatMap_cons, ih]

/-- **SDDecartian iteration, index level**: the iterator visits exactly the index vectors below
the factor sizes, each once, in lexicographic order with the last factor fastest — and none at
all when a factor is empty. -/
theorem prodIdxAll_eq (dims : List Nat) : prodIdxAll dims = tuplesIdx dims := by
  unfold prodIdxAll
  by_cases h0 : dims.foldl (· * ·) 1 = 0
  · simp only [h0, if_true]
    exact (tuplesIdx_zero dims ((foldl_mul_eq_zero dims).1 h0)).symm
  · simp only [h0, if_false]
    have hpos : ∀ d ∈ dims.reverse, 0 < d := by
      intro d hd
      have hd' : d ∈ dims := by simpa using hd
      have : ¬ ∃ d ∈ dims, d = 0 := fun h => h0 ((foldl_mul_eq_zero dims).2 h)
      exact Nat.pos_of_ne_zero (fun e => this ⟨d, hd', e⟩)
    obtain ⟨h1, h2, h3, h4⟩ := prodStates_spec dims.reverse hpos
    cases hps : prodStates dims.reverse with
    | nil => simp [hps] at h1
    | cons a L =>
      rw [hps] at h1 h2 h3 h4
      simp only [List.head?_cons, Option.some.injEq] at h1
      have hfirst : (dims.reverse.map fun d => (0, d)) = a := by rw [h1]; rfl
      rw [hfirst, iterGo_of_chain stepProd L a _ h3]
      · rw [← hps, prodStates_map, List.reverse_reverse]
      · intro z hz
        rw [h2] at hz
        cases hz
        exact stepProd_lastState dims.reverse hpos
      · rw [h4, foldl_mul_eq_foldr]; omega

/-! ## SDPowerSet::Iterator -/

theorem probe_iff (n : Nat) : ∀ (c p : Nat), p < n → (probe n p c = true ↔ p + c < n)
  | 0, p, hp => by simp [probe, hp]
  | c + 1, p, hp => by
    simp only [probe]
    by_cases h : p + 1 = n
    · simp only [h, if_true]
      constructor
      · intro h'; cases h'
      · intro h'; omega
    · simp only [h, if_false]
      rw [probe_iff n c (p + 1) (by omega)]
      omega

theorem refill_append_acc : ∀ (c p : Nat) (acc t : List Nat), refill p c (acc ++ t) = refill p c acc ++ t
  | 0, _, _, _ => by simp [refill]
  | c + 1, p, acc, t => by
    simp only [refill]
    rw [← refill_append_acc c (p + 1) ((p + 1) :: acc) t]; rfl

theorem refill_eq : ∀ (c p : Nat) (acc : List Nat), refill p c acc = (List.range' (p + 1) c).reverse ++ acc
  | 0, _, _ => by simp [refill]
  | c + 1, p, acc => by
    simp only [refill]
    rw [refill_eq c (p + 1) ((p + 1) :: acc), List.range'_succ]
    simp

theorem firstRun_eq : ∀ k : Nat, firstRun k = (List.range' 0 k).reverse
  | 0 => by simp [firstRun]
  | k + 1 => by
    rw [firstRun, firstRun_eq k, List.range'_concat]; simp

theorem incrementLastItem_cons (n p : Nat) (rest : List Nat) (off : Nat) (hp : p < n) :
    incrementLastItem n (p :: rest) off =
      if p + off + 1 < n then some ((List.range' (p + 1) (off + 1)).reverse ++ rest) else none := by
  simp only [incrementLastItem]
  by_cases h : p + off + 1 < n
  · have : probe n p (off + 1) = true := (probe_iff n (off + 1) p hp).2 (by omega)
    simp only [this, h, if_true]
    rw [refill_eq, List.range'_succ]
    simp
  · have : probe n p (off + 1) = false := by
      cases hb : probe n p (off + 1)
      · rfl
      · have := (probe_iff n (off + 1) p hp).1 hb; omega
    simp [this, h]

theorem popLoop_append_inl (n : Nat) : ∀ (r : List Nat) (off : Nat) (r' t : List Nat),
    popLoop n r off = .inl r' → popLoop n (r ++ t) off = .inl (r' ++ t)
  | [], _, _, _ => by simp [popLoop]
  | p :: rest, off, r', t => by
    simp only [List.cons_append, popLoop, incrementLastItem]
    by_cases h : probe n p (off + 1) = true
    · simp only [h, if_true, Sum.inl.injEq]
      intro e; subst e
      rw [← refill_append_acc]; rfl
    · simp only [h, if_false]
      exact popLoop_append_inl n rest (off + 1) r' t

/-- every element of the (reversed) vector is at its maximal position for the current offset. -/
def AllMax (n : Nat) : Nat → List Nat → Prop
  | _, [] => True
  | off, p :: r => p < n ∧ n ≤ p + off + 1 ∧ AllMax n (off + 1) r

theorem popLoop_allMax (n : Nat) : ∀ (l : List Nat) (off : Nat) (t : List Nat), AllMax n off l →
    popLoop n (l ++ t) off = popLoop n t (off + l.length)
  | [], _, _, _ => by simp
  | p :: r, off, t, h => by
    simp only [AllMax] at h
    simp only [List.cons_append, popLoop]
    rw [incrementLastItem_cons n p (r ++ t) off h.1]
    have : ¬ p + off + 1 < n := by omega
    simp only [this, if_false]
    rw [popLoop_allMax n r (off + 1) t h.2.2]
    congr 1
    simp; omega

theorem allMax_run (n : Nat) : ∀ (k s off : Nat), s + k ≤ n → n ≤ s + k + off →
    AllMax n off (List.range' s k).reverse
  | 0, _, _, _, _ => by simp [AllMax]
  | k + 1, s, off, h1, h2 => by
    rw [List.range'_concat]
    simp only [Nat.one_mul, List.reverse_append, List.reverse_cons, List.reverse_nil, List.nil_append,
      List.cons_append, AllMax]
    exact ⟨by omega, by omega, allMax_run n k s (off + 1) (by omega) (by omega)⟩

/-- strictly increasing `k`-vectors of positions in `[lo, n)`, lexicographically ascending. -/
def combos (n : Nat) : Nat → Nat → List (List Nat)
  | 0, _ => [[]]
  | k + 1, lo => (List.range' lo (n - k - lo)).flatMap fun a => (combos n k (a + 1)).map (a :: ·)

theorem combos_ends (n : Nat) : ∀ (k lo : Nat), lo + k ≤ n →
    (combos n k lo).head? = some (List.range' lo k) ∧ (combos n k lo).getLast? = some (List.range' (n - k) k)
  | 0, lo, _ => by simp [combos]
  | k + 1, lo, h => by
    have hm : n - k - lo = (n - k - lo - 1) + 1 := by omega
    have hne : ∀ a ∈ List.range' lo (n - k - lo), (combos n k (a + 1)).map (a :: ·) ≠ [] := by
      intro a ha hc
      rw [List.mem_range'_1] at ha
      have := (combos_ends n k (a + 1) (by omega)).1
      rw [List.map_eq_nil_iff] at hc
      rw [hc] at this; simp at this
    constructor
    · simp only [combos]
      rw [hm, List.range'_succ, head?_flatMap_cons _ _ _ (by
        apply hne; rw [List.mem_range'_1]; omega)]
      rw [List.head?_map, (combos_ends n k (lo + 1) (by omega)).1, List.range'_succ]
      rfl
    · simp only [combos]
      have hl : (List.range' lo (n - k - lo)).getLast? = some (n - k - 1) := by
        rw [List.getLast?_range']
        have : ¬ n - k - lo = 0 := by omega
        simp only [this, if_false, Option.some.injEq]; omega
      rw [getLast?_flatMap_ne _ _ _ hne hl, List.getLast?_map,
        (combos_ends n k (n - k - 1 + 1) (by omega)).2]
      have e1 : n - k - 1 + 1 = n - k := by omega
      have e2 : n - (k + 1) = n - k - 1 := by omega
      rw [e2, List.range'_succ, e1]
      rfl

/-- the step inside one subset size: `Increment` as long as the `while` loop succeeds. -/
def stepK (n : Nat) (c : List Nat) : Option (List Nat) :=
  match popLoop n c.reverse 0 with
  | .inl r => some r.reverse
  | .inr _ => none

theorem stepK_cons (n a : Nat) (c c' : List Nat) (h : stepK n c = some c') : stepK n (a :: c) = some (a :: c') := by
  unfold stepK at h ⊢
  cases hp : popLoop n c.reverse 0 with
  | inr o => simp [hp] at h
  | inl r =>
    simp only [hp, Option.some.injEq] at h
    subst h
    simp [List.reverse_cons, popLoop_append_inl n _ _ _ [a] hp]

theorem chain_range'_succ : ∀ (m lo : Nat), Chain (fun a : Nat => some (a + 1)) (List.range' lo m)
  | 0, _ => by simp [Chain]
  | 1, _ => by simp [List.range'_succ, Chain]
  | m + 2, lo => by
    rw [List.range'_succ, List.range'_succ]
    simp only [Chain, true_and]
    have := chain_range'_succ (m + 1) (lo + 1)
    rw [List.range'_succ] at this
    exact this

theorem chain_combos (n : Nat) : ∀ (k lo : Nat), Chain (stepK n) (combos n k lo)
  | 0, _ => by simp [combos, Chain]
  | k + 1, lo => by
    simp only [combos]
    have hin : ∀ a ∈ List.range' lo (n - k - lo), a + 1 + k ≤ n := by
      intro a ha; rw [List.mem_range'_1] at ha; omega
    apply chain_flatMap (stepK n) (fun a : Nat => some (a + 1)) _ _ _ _ _ (chain_range'_succ _ _)
    · intro a ha hc
      have := (combos_ends n k (a + 1) (hin a ha)).1
      rw [List.map_eq_nil_iff] at hc
      rw [hc] at this; simp at this
    · intro a _
      exact chain_map_of (stepK n) (stepK n) (a :: ·) (fun q q' h => stepK_cons n a q q' h) _ (chain_combos n k (a + 1))
    · intro a ha a' ha' hs x y hx hy
      simp only [Option.some.injEq] at hs
      subst hs
      rw [List.getLast?_map, (combos_ends n k (a + 1) (hin a ha)).2] at hx
      rw [List.head?_map, (combos_ends n k (a + 1 + 1) (hin (a + 1) ha')).1] at hy
      simp only [Option.map_some, Option.some.injEq] at hx hy
      subst hx; subst hy
      have ha2 : a + 1 + 1 + k ≤ n := hin (a + 1) ha'
      have hmax : AllMax n 0 (List.range' (n - k) k).reverse := allMax_run n k (n - k) 0 (by omega) (by omega)
      unfold stepK
      rw [List.reverse_cons, popLoop_allMax n _ 0 [a] hmax]
      simp only [Nat.zero_add, List.length_reverse, List.length_range', popLoop]
      rw [incrementLastItem_cons n a [] k (by omega)]
      have : a + k + 1 < n := by omega
      simp only [this, if_true, List.append_nil, List.reverse_reverse]
      rw [List.range'_succ]

/-- the expected iteration of the power set of an `n`-element base, as index vectors: sizes
ascending, inside one size lexicographically ascending. -/
def powSpec (n : Nat) : List (List Nat) := (List.range' 0 (n + 1)).flatMap fun k => combos n k 0

/-- `operator++` on index vectors in push order. -/
def stepF (n : Nat) (c : List Nat) : Option (List Nat) := (increment n c.reverse).map List.reverse

theorem stepF_of_stepK (n : Nat) (c c' : List Nat) (h : stepK n c = some c') : stepF n c = some c' := by
  unfold stepK at h
  unfold stepF increment
  cases hr : c.reverse with
  | nil => rw [hr] at h; simp [popLoop] at h
  | cons p rest =>
    rw [hr] at h
    cases hp : popLoop n (p :: rest) 0 with
    | inr o => simp [hp] at h
    | inl r => simp only [hp, Option.some.injEq] at h; simp [hp, h]

theorem stepF_maxRun (n k : Nat) (hk : k ≤ n) :
    stepF n (List.range' (n - k) k) = if k = n then none else some (List.range' 0 (k + 1)) := by
  unfold stepF
  cases k with
  | zero =>
    simp only [List.range'_zero, List.reverse_nil, increment]
    by_cases h0 : n = 0
    · subst h0; simp
    · have : ¬ 0 = n := fun h => h0 h.symm
      simp [h0, this, List.range'_succ]
  | succ j =>
    have hmax : AllMax n 0 (List.range' (n - (j + 1)) (j + 1)).reverse :=
      allMax_run n (j + 1) (n - (j + 1)) 0 (by omega) (by omega)
    have hpl := popLoop_allMax n _ 0 [] hmax
    simp only [List.append_nil, Nat.zero_add, List.length_reverse, List.length_range', popLoop] at hpl
    have hcons : (List.range' (n - (j + 1)) (j + 1)).reverse =
        (n - (j + 1) + j) :: (List.range' (n - (j + 1)) j).reverse := by
      rw [List.range'_concat]; simp
    rw [hcons] at hpl ⊢
    simp only [increment, hpl]
    by_cases e : j + 1 = n
    · simp [e]
    · simp only [e, ne_eq, not_false_eq_true, if_true, if_false, Option.map_some]
      rw [firstRun_eq]; simp

theorem powSpec_chain (n : Nat) :
    (powSpec n).head? = some [] ∧ (powSpec n).getLast? = some (List.range' 0 n) ∧ Chain (stepF n) (powSpec n) := by
  have hne : ∀ k ∈ List.range' 0 (n + 1), combos n k 0 ≠ [] := by
    intro k hk hc
    rw [List.mem_range'_1] at hk
    have := (combos_ends n k 0 (by omega)).1
    rw [hc] at this; simp at this
  refine ⟨?_, ?_, ?_⟩
  · unfold powSpec
    rw [List.range'_succ, head?_flatMap_cons (fun k => combos n k 0) 0 _ (hne 0 (by rw [List.mem_range'_1]; omega))]
    simp [combos]
  · unfold powSpec
    have hl : (List.range' 0 (n + 1)).getLast? = some n := by
      rw [List.getLast?_range']; simp
    rw [getLast?_flatMap_ne _ _ _ hne hl, (combos_ends n n 0 (by omega)).2]
    simp
  · unfold powSpec
    apply chain_flatMap (stepF n) (fun k : Nat => some (k + 1)) _ _ hne _ _ (chain_range'_succ _ _)
    · intro k _
      exact chain_imp (stepK n) (stepF n) (stepF_of_stepK n) _ (chain_combos n k 0)
    · intro k hk k' hk' hs x y hx hy
      simp only [Option.some.injEq] at hs
      subst hs
      rw [List.mem_range'_1] at hk hk'
      rw [(combos_ends n k 0 (by omega)).2] at hx
      rw [(combos_ends n (k + 1) 0 (by omega)).1] at hy
      simp only [Option.some.injEq] at hx hy
      subst hx; subst hy
      rw [stepF_maxRun n k (by omega)]
      have : ¬ k = n := by omega
      simp [this]

theorem iterGo_map_conj {σ : Type} (s1 s2 : σ → Option σ) (g : σ → σ) (hg : ∀ x, g (g x) = x)
    (h : ∀ c, s2 c = (s1 (g c)).map g) : ∀ (fuel : Nat) (s : σ),
    (iterGo s1 fuel s).map g = iterGo s2 fuel (g s)
  | 0, _ => by simp [iterGo]
  | fuel + 1, s => by
    simp only [iterGo, List.map_cons]
    rw [h (g s), hg s]
    cases hs : s1 s with
    | none => simp
    | some s' => simp [iterGo_map_conj s1 s2 g hg h fuel s']

/-- **SDPowerSet iteration, index level** (given the counting bound): the iterator visits exactly
`powSpec n`. -/
theorem powIdxAll_eq_of_length (n : Nat) (hlen : (powSpec n).length ≤ 2 ^ n + 1) : powIdxAll n = powSpec n := by
  unfold powIdxAll
  rw [iterGo_map_conj (increment n) (stepF n) List.reverse List.reverse_reverse (fun c => rfl)]
  obtain ⟨h1, h2, h3⟩ := powSpec_chain n
  cases hps : powSpec n with
  | nil => simp [hps] at h1
  | cons a L =>
    rw [hps] at h1 h2 h3 hlen
    simp only [List.head?_cons, Option.some.injEq] at h1
    subst h1
    simp only [List.reverse_nil]
    apply iterGo_of_chain (stepF n) L [] _ h3 _ hlen
    intro z hz
    rw [h2] at hz
    cases hz
    have := stepF_maxRun n n (Nat.le_refl n)
    simpa using this

/-! ## value level: the sub-lists of a list, by length -/

/-- the sub-lists of length `k`, those containing the head first. -/
def subsOfLen : List Val → Nat → List (List Val)
  | _, 0 => [[]]
  | [], _ + 1 => []
  | x :: xs, k + 1 => (subsOfLen xs k).map (x :: ·) ++ subsOfLen xs (k + 1)

/-- all sub-lists, shortest first. -/
def allSubs (xs : List Val) : List (List Val) := (List.range' 0 (xs.length + 1)).flatMap (subsOfLen xs)

theorem subsOfLen_zero (xs : List Val) : subsOfLen xs 0 = [[]] := by cases xs <;> rfl

theorem mem_subsOfLen : ∀ (xs : List Val) (k : Nat) (ys : List Val),
    ys ∈ subsOfLen xs k ↔ ys.Sublist xs ∧ ys.length = k
  | xs, 0, ys => by
    rw [subsOfLen_zero]
    constructor
    · intro h; simp at h; subst h; exact ⟨List.nil_sublist _, rfl⟩
    · rintro ⟨_, h⟩; simp [List.length_eq_zero_iff.mp h]
  | [], k + 1, ys => by
    simp only [subsOfLen, List.not_mem_nil, false_iff, List.sublist_nil]
    rintro ⟨h, h2⟩; subst h; simp at h2
  | x :: xs, k + 1, ys => by
    simp only [subsOfLen, List.mem_append, List.mem_map, mem_subsOfLen xs k, mem_subsOfLen xs (k + 1),
      List.sublist_cons_iff]
    constructor
    · rintro (⟨r, ⟨h1, h2⟩, rfl⟩ | ⟨h1, h2⟩)
      · exact ⟨Or.inr ⟨r, rfl, h1⟩, by simp [h2]⟩
      · exact ⟨Or.inl h1, h2⟩
    · rintro ⟨h1 | ⟨r, rfl, h1⟩, h2⟩
      · exact Or.inr ⟨h1, h2⟩
      · exact Or.inl ⟨r, ⟨h1, by simpa using h2⟩, rfl⟩

theorem subsOfLen_nil_of_lt (xs : List Val) (k : Nat) (h : xs.length < k) : subsOfLen xs k = [] := by
  apply List.eq_nil_iff_forall_not_mem.mpr
  intro ys hy
  rw [mem_subsOfLen] at hy
  have := hy.1.length_le
  omega

theorem mem_allSubs (xs ys : List Val) : ys ∈ allSubs xs ↔ ys.Sublist xs := by
  unfold allSubs
  rw [List.mem_flatMap]
  constructor
  · rintro ⟨k, _, hk⟩; exact ((mem_subsOfLen xs k ys).1 hk).1
  · intro h
    exact ⟨ys.length, by rw [List.mem_range'_1]; have := h.length_le; omega, (mem_subsOfLen xs _ ys).2 ⟨h, rfl⟩⟩

/-- Pascal's rule, for free from the definition; the sizes add up to `2 ^ length`. -/
theorem sum_subsOfLen : ∀ (xs : List Val) (m : Nat), xs.length ≤ m →
    ((List.range' 0 (m + 1)).map fun k => (subsOfLen xs k).length).sum = 2 ^ xs.length
  | [], m, _ => by
    rw [List.range'_succ]
    simp only [List.map_cons, subsOfLen_zero, List.length_cons, List.length_nil, List.sum_cons]
    have : ∀ (s j : Nat), 0 < s → ((List.range' s j).map fun k => (subsOfLen [] k).length).sum = 0 := by
      intro s j
      induction j generalizing s with
      | zero => intro _; simp
      | succ j ih =>
        intro hs
        rw [List.range'_succ]
        obtain ⟨s', rfl⟩ : ∃ s', s = s' + 1 := ⟨s - 1, by omega⟩
        simp [subsOfLen, ih (s' + 1 + 1) (by omega)]
    rw [this (0 + 1) m (by omega)]
  | x :: xs, m, h => by
    obtain ⟨m', rfl⟩ : ∃ m', m = m' + 1 := ⟨m - 1, by simp at h; omega⟩
    have hx : xs.length ≤ m' := by simp at h; omega
    rw [List.range'_succ]
    simp only [List.map_cons, subsOfLen_zero, List.length_cons, List.length_nil, List.sum_cons]
    have hshift : ∀ (s j : Nat), ((List.range' (s + 1) j).map fun k => (subsOfLen (x :: xs) k).length).sum =
        ((List.range' s j).map fun k => (subsOfLen xs k).length).sum +
        ((List.range' (s + 1) j).map fun k => (subsOfLen xs k).length).sum := by
      intro s j
      induction j generalizing s with
      | zero => simp
      | succ j ih =>
        rw [List.range'_succ, List.range'_succ (s := s)]
        simp only [List.map_cons, List.sum_cons, subsOfLen, List.length_append, List.length_map]
        rw [ih (s + 1)]
        omega
    rw [hshift 0 (m' + 1)]
    have h1 := sum_subsOfLen xs m' hx
    have h2 := sum_subsOfLen xs (m' + 1) (by omega)
    rw [List.range'_succ] at h2
    simp only [List.map_cons, subsOfLen_zero, List.length_cons, List.length_nil, List.sum_cons] at h2
    rw [h1]
    rw [Nat.pow_succ]
    omega

theorem length_allSubs (xs : List Val) : (allSubs xs).length = 2 ^ xs.length := by
  unfold allSubs
  rw [List.length_flatMap]
  exact sum_subsOfLen xs xs.length (Nat.le_refl _)

/-! ## from index vectors to values -/

def consOpt (a : Option Val) (r : Option (List Val)) : Option (List Val) :=
  match a, r with
  | some v, some vs => some (v :: vs)
  | _, _ => none

theorem derefAll_cons (base : List Val) (i : Nat) (is : List Nat) :
    derefAll base (i :: is) = consOpt base[i]? (derefAll base is) := by
  rw [derefAll]; unfold consOpt
  cases base[i]? <;> cases derefAll base is <;> rfl

theorem combos_deref (base : List Val) : ∀ (k lo : Nat), lo ≤ base.length →
    (combos base.length k lo).map (derefAll base) = (subsOfLen (base.drop lo) k).map some
  | 0, lo, _ => by simp [combos, subsOfLen_zero, derefAll]
  | k + 1, lo, hlo => by
    simp only [combos]
    have aux : ∀ (m lo : Nat), lo ≤ base.length → base.length - k - lo = m →
        ((List.range' lo m).flatMap fun a => (combos base.length k (a + 1)).map (a :: ·)).map (derefAll base) =
          (subsOfLen (base.drop lo) (k + 1)).map some := by
      intro m
      induction m with
      | zero =>
        intro lo hlo hm
        rw [subsOfLen_nil_of_lt _ _ (by rw [List.length_drop]; omega)]
        simp
      | succ m ih =>
        intro lo hlo hm
        have hlt : lo < base.length := by omega
        rw [List.range'_succ, List.flatMap_cons, List.map_append, ih (lo + 1) (by omega) (by omega),
          List.drop_eq_getElem_cons hlt]
        simp only [subsOfLen, List.map_append, List.map_map]
        congr 1
        have ihk := combos_deref base k (lo + 1) (by omega)
        have : (fun c => derefAll base (lo :: c)) = (consOpt base[lo]?) ∘ (derefAll base) := by
          funext c; rw [derefAll_cons]; rfl
        rw [show (derefAll base ∘ fun x => lo :: x) = (consOpt base[lo]?) ∘ (derefAll base) from this]
        rw [← List.map_map, ihk, List.map_map]
        apply List.map_congr_left
        intro vs _
        simp [consOpt, List.getElem?_eq_getElem hlt]
    exact aux _ lo hlo rfl

theorem powSpec_deref (base : List Val) :
    (powSpec base.length).map (derefAll base) = (allSubs base).map some := by
  unfold powSpec allSubs
  rw [List.map_flatMap, List.map_flatMap]
  congr 1
  funext k
  have := combos_deref base k 0 (Nat.zero_le _)
  simpa using this

theorem length_powSpec (n : Nat) : (powSpec n).length = 2 ^ n := by
  have h := congrArg List.length (powSpec_deref (List.replicate n (Val.e 0)))
  simp only [List.length_map, List.length_replicate] at h
  rw [h, length_allSubs]; simp

/-- **SDPowerSet iteration, index level**: exactly `powSpec n` — every strictly increasing index
vector once, sizes ascending, lexicographic inside a size. -/
theorem powIdxAll_eq (n : Nat) : powIdxAll n = powSpec n :=
  powIdxAll_eq_of_length n (by rw [length_powSpec]; omega)

theorem allSome_map_some' {α : Type} (xs : List α) : allSome (xs.map some) = some xs := by
  induction xs with
  | nil => rfl
  | cons x xs ih => simp [allSome, ih]

/-- iteration of the power set over an arbitrary base iteration: never stuck, and the elements are
the `mkSet`s of all sub-lists. -/
theorem powIter_eq (base : List Val) :
    powIter base = some ((allSubs base).map fun vs => .s (mkSet vs)) := by
  unfold powIter powDeref
  rw [powIdxAll_eq]
  have h := powSpec_deref base
  have : (powSpec base.length).map (fun idx => (derefAll base idx).map fun vs => Val.s (mkSet vs)) =
      ((allSubs base).map fun vs => Val.s (mkSet vs)).map some := by
    rw [show (fun idx => (derefAll base idx).map fun vs => Val.s (mkSet vs)) =
      (Option.map fun vs => Val.s (mkSet vs)) ∘ derefAll base from rfl, ← List.map_map, h]
    simp [List.map_map, Function.comp_def]
  rw [this, allSome_map_some']

/-! ## order of the enumerations -/

theorem pairwise_of_sortedLt : ∀ xs : List Val, sortedLt xs = true → List.Pairwise (fun a b => lt a b = true) xs
  | [], _ => List.Pairwise.nil
  | a :: xs, h => by
    rw [List.pairwise_cons]
    exact ⟨sortedLt_head_lt xs a h, pairwise_of_sortedLt xs (sortedLt_tail h)⟩

theorem sortedLt_of_pairwise : ∀ xs : List Val, List.Pairwise (fun a b => lt a b = true) xs → sortedLt xs = true
  | [], _ => rfl
  | a :: xs, h => by
    rw [List.pairwise_cons] at h
    rw [sortedLt_cons_iff]
    exact ⟨h.1, sortedLt_of_pairwise xs h.2⟩

theorem sublist_sorted {ys xs : List Val} (h : ys.Sublist xs) (hs : sortedLt xs = true) : sortedLt ys = true :=
  sortedLt_of_pairwise ys (List.Pairwise.sublist h (pairwise_of_sortedLt xs hs))

theorem mkSet_of_sorted {vs : List Val} {τ : Ty} (hs : sortedLt vs = true) (ht : allTy vs τ = true) : mkSet vs = vs := by
  have h := addAll_spec vs [] (allTy_nil τ) ht sortedLt_nil
  apply sorted_ext _ _ h.1 hs
  intro v; rw [h.2.2 v]; simp

theorem cmpLex_cons_self (x : Val) (a b : List Val) : cmpLex (x :: a) (x :: b) = cmpLex a b := by
  rw [cmpLex_cons, cmp_refl]; simp

theorem cmpLex_cons_lt {x y : Val} (a b : List Val) (h : lt x y = true) : cmpLex (x :: a) (y :: b) = .lt := by
  rw [lt_iff] at h
  rw [cmpLex_cons, h]; simp

theorem subsOfLen_pairwise : ∀ (xs : List Val) (k : Nat), List.Pairwise (fun a b => lt a b = true) xs →
    List.Pairwise (fun a b => cmpLex a b = .lt) (subsOfLen xs k)
  | xs, 0, _ => by rw [subsOfLen_zero]; simp
  | [], k + 1, _ => by simp [subsOfLen]
  | x :: xs, k + 1, h => by
    rw [List.pairwise_cons] at h
    simp only [subsOfLen]
    rw [List.pairwise_append]
    refine ⟨?_, subsOfLen_pairwise xs (k + 1) h.2, ?_⟩
    · rw [List.pairwise_map]
      exact List.Pairwise.imp (fun {a b} hab => by rw [cmpLex_cons_self]; exact hab)
        (subsOfLen_pairwise xs k h.2)
    · intro a ha b hb
      rw [List.mem_map] at ha
      obtain ⟨a', _, rfl⟩ := ha
      rw [mem_subsOfLen] at hb
      match b, hb with
      | [], ⟨_, h2⟩ => simp at h2
      | y :: r, ⟨h1, _⟩ =>
        exact cmpLex_cons_lt a' r (h.1 y (h1.subset (by simp)))

theorem allSubs_pairwise (xs : List Val) (h : sortedLt xs = true) :
    List.Pairwise (fun a b => lt a b = true) ((allSubs xs).map .s) := by
  rw [List.pairwise_map]
  unfold allSubs
  rw [List.pairwise_flatMap]
  constructor
  · intro k _
    have hp := subsOfLen_pairwise xs k (pairwise_of_sortedLt xs h)
    have hl : ∀ a ∈ subsOfLen xs k, a.length = k := fun a ha => ((mem_subsOfLen xs k a).1 ha).2
    -- same length: Compare goes to the element-wise loop
    have : ∀ (L : List (List Val)), (∀ a ∈ L, a.length = k) → List.Pairwise (fun a b => cmpLex a b = .lt) L →
        List.Pairwise (fun a b => lt (Val.s a) (Val.s b) = true) L := by
      intro L
      induction L with
      | nil => intro _ _; exact List.Pairwise.nil
      | cons a L ih =>
        intro hl hp
        rw [List.pairwise_cons] at hp ⊢
        refine ⟨fun b hb => ?_, ih (fun x hx => hl x (by simp [hx])) hp.2⟩
        have la := hl a (by simp)
        have lb := hl b (by simp [hb])
        simp [lt, cmp, la, lb, hp.1 b hb]
    exact this _ hl hp
  · apply List.Pairwise.imp _ (List.pairwise_lt_range' (s := 0) (n := xs.length + 1))
    intro k1 k2 hk a ha b hb
    have la := ((mem_subsOfLen xs k1 a).1 ha).2
    have lb := ((mem_subsOfLen xs k2 b).1 hb).2
    have h1 : ¬ a.length > b.length := by omega
    have h2 : a.length < b.length := by omega
    simp [lt, cmp, h1, h2]

/-- the lazy power set of a canonical base: never stuck, canonical (strictly ascending, so every
subset once), typed, `2 ^ n` elements, and its members are exactly the sub-lists of the base. -/
theorem powIter_spec {base : List Val} {τ : Ty} (hs : sortedLt base = true) (ht : allTy base τ = true)
    (hc : ∀ x ∈ base, canon x = true) :
    ∃ P, powIter base = some P ∧ P = (allSubs base).map .s ∧ sortedLt P = true ∧ allTy P (.coll τ) = true ∧
      (∀ x ∈ P, canon x = true) ∧ P.length = 2 ^ base.length ∧
      ∀ x, x ∈ P ↔ ∃ ys, x = .s ys ∧ ys.Sublist base := by
  have hmk : ∀ vs ∈ allSubs base, Val.s (mkSet vs) = Val.s vs := by
    intro vs hvs
    have hsub := (mem_allSubs base vs).1 hvs
    have hty : allTy vs τ = true := by
      rw [allTy_iff] at ht ⊢; intro v hv; exact ht v (hsub.subset hv)
    rw [mkSet_of_sorted (sublist_sorted hsub hs) hty]
  refine ⟨(allSubs base).map .s, ?_, rfl, sortedLt_of_pairwise _ (allSubs_pairwise base hs), ?_, ?_, ?_, ?_⟩
  · rw [powIter_eq]; congr 1; exact List.map_congr_left hmk
  · rw [allTy_iff]
    intro x hx
    obtain ⟨vs, hvs, rfl⟩ := List.mem_map.mp hx
    have hsub := (mem_allSubs base vs).1 hvs
    simp only [hasTy]
    rw [allTy_iff] at ht ⊢; intro v hv; exact ht v (hsub.subset hv)
  · intro x hx
    obtain ⟨vs, hvs, rfl⟩ := List.mem_map.mp hx
    have hsub := (mem_allSubs base vs).1 hvs
    rw [canon_s_iff]
    exact ⟨fun v hv => hc v (hsub.subset hv), sublist_sorted hsub hs⟩
  · rw [List.length_map, length_allSubs]
  · intro x
    rw [List.mem_map]
    constructor
    · rintro ⟨vs, hvs, rfl⟩; exact ⟨vs, rfl, (mem_allSubs base vs).1 hvs⟩
    · rintro ⟨ys, rfl, h⟩; exact ⟨ys, (mem_allSubs base ys).2 h, rfl⟩

/-- a strictly ascending list all of whose members lie in a strictly ascending list is a sub-list
of it. -/
theorem sublist_of_subset_sorted : ∀ (xs ys : List Val), sortedLt xs = true → sortedLt ys = true →
    (∀ y ∈ ys, y ∈ xs) → ys.Sublist xs
  | _, [], _, _, _ => List.nil_sublist _
  | [], y :: r, _, _, h => by have := h y (by simp); simp at this
  | b :: bs, y :: r, hx, hy, h => by
    have hyl := sortedLt_head_lt r y hy
    have hbl := sortedLt_head_lt bs b hx
    by_cases e : y = b
    · subst e
      apply List.Sublist.cons_cons
      apply sublist_of_subset_sorted bs r (sortedLt_tail hx) (sortedLt_tail hy)
      intro z hz
      rcases List.mem_cons.mp (h z (List.mem_cons_of_mem _ hz)) with e | hm
      · subst e; have := hyl z hz; rw [lt_irrefl] at this; cases this
      · exact hm
    · apply List.Sublist.cons
      apply sublist_of_subset_sorted bs (y :: r) (sortedLt_tail hx) hy
      intro z hz
      rcases List.mem_cons.mp (h z hz) with e2 | hm
      · -- z = b, but b is below y ≤ z
        subst e2
        have hyb : y ∈ bs := by
          rcases List.mem_cons.mp (h y (by simp)) with e3 | hm
          · exact absurd e3 e
          · exact hm
        have h1 := hbl y hyb
        rcases List.mem_cons.mp hz with e4 | hz'
        · subst e4; rw [lt_irrefl] at h1; cases h1
        · have h2 := hyl z hz'
          rw [lt_asymm h1] at h2; cases h2
      · exact hm

/-! ## value level: the Cartesian product -/

/-- all component lists, lexicographically ascending (last factor fastest). -/
def tuplesOf : List (List Val) → List (List Val)
  | [] => [[]]
  | f :: fs => f.flatMap fun x => (tuplesOf fs).map (x :: ·)

/-- component-wise membership. -/
def MemEach : List Val → List (List Val) → Prop
  | [], [] => True
  | c :: cs, f :: fs => c ∈ f ∧ MemEach cs fs
  | [], _ :: _ => False
  | _ :: _, [] => False

theorem mem_tuplesOf : ∀ (facs : List (List Val)) (cs : List Val), cs ∈ tuplesOf facs ↔ MemEach cs facs
  | [], [] => by simp [tuplesOf, MemEach]
  | [], _ :: _ => by simp [tuplesOf, MemEach]
  | f :: fs, [] => by simp [tuplesOf, MemEach]
  | f :: fs, c :: cs => by
    simp only [tuplesOf, List.mem_flatMap, List.mem_map, MemEach]
    constructor
    · rintro ⟨x, hx, r, hr, e⟩
      cases e
      exact ⟨hx, (mem_tuplesOf fs cs).1 hr⟩
    · rintro ⟨h1, h2⟩
      exact ⟨c, h1, cs, (mem_tuplesOf fs cs).2 h2, rfl⟩

theorem memEach_length : ∀ (cs : List Val) (facs : List (List Val)), MemEach cs facs → cs.length = facs.length
  | [], [], _ => rfl
  | [], _ :: _, h => by simp [MemEach] at h
  | _ :: _, [], h => by simp [MemEach] at h
  | c :: cs, f :: fs, h => by simp [memEach_length cs fs h.2]

theorem derefEach_cons (f : List Val) (fs : List (List Val)) (i : Nat) (is : List Nat) :
    derefEach (f :: fs) (i :: is) = consOpt f[i]? (derefEach fs is) := by
  rw [derefEach]; unfold consOpt
  cases f[i]? <;> cases derefEach fs is <;> rfl

theorem flatMap_range_getElem? {β : Type} : ∀ (l : List Val) (H : Option Val → List β),
    (List.range l.length).flatMap (fun i => H l[i]?) = l.flatMap (fun x => H (some x))
  | [], _ => by simp
  | x :: l, H => by
    rw [List.length_cons, List.range_succ_eq_map, List.flatMap_cons, List.flatMap_cons, List.flatMap_map]
    simp only [List.getElem?_cons_zero, Nat.succ_eq_add_one, List.getElem?_cons_succ]
    rw [flatMap_range_getElem? l H]

theorem tuplesIdx_deref : ∀ facs : List (List Val),
    (tuplesIdx (facs.map List.length)).map (derefEach facs) = (tuplesOf facs).map some
  | [] => by simp [tuplesIdx, tuplesOf, derefEach]
  | f :: fs => by
    simp only [List.map_cons, tuplesIdx, tuplesOf]
    rw [List.map_flatMap, List.map_flatMap]
    have ih := tuplesIdx_deref fs
    have step : ∀ i : Nat, ((tuplesIdx (fs.map List.length)).map (i :: ·)).map (derefEach (f :: fs)) =
        (tuplesOf fs).map fun vs => consOpt f[i]? (some vs) := by
      intro i
      rw [List.map_map]
      rw [show (derefEach (f :: fs) ∘ fun x => i :: x) = (consOpt f[i]?) ∘ derefEach fs from by
        funext c; simp [derefEach_cons]]
      rw [← List.map_map, ih, List.map_map]; rfl
    simp only [step]
    rw [flatMap_range_getElem? f (fun o => (tuplesOf fs).map fun vs => consOpt o (some vs))]
    congr 1
    funext x
    simp [List.map_map, Function.comp_def, consOpt]

theorem prodIter_eq (facs : List (List Val)) : prodIter facs = allSome ((tuplesOf facs).map mkTuple) := by
  unfold prodIter prodDeref
  rw [prodIdxAll_eq]
  rw [show (fun idx => (derefEach facs idx).bind mkTuple) = (fun o : Option (List Val) => o.bind mkTuple) ∘ derefEach facs from rfl,
    ← List.map_map, tuplesIdx_deref, List.map_map]
  rfl

theorem prodIter_eq_t (facs : List (List Val)) (h : 2 ≤ facs.length) :
    prodIter facs = some ((tuplesOf facs).map .t) := by
  rw [prodIter_eq]
  have : (tuplesOf facs).map mkTuple = ((tuplesOf facs).map Val.t).map some := by
    rw [List.map_map]
    apply List.map_congr_left
    intro cs hcs
    have hl := memEach_length cs facs ((mem_tuplesOf facs cs).1 hcs)
    match cs, hl with
    | [], hl => simp at hl; omega
    | [_], hl => simp at hl; omega
    | _ :: _ :: _, _ => rfl
  rw [this, allSome_map_some']

theorem tuplesOf_pairwise : ∀ facs : List (List Val), (∀ f ∈ facs, List.Pairwise (fun a b => lt a b = true) f) →
    List.Pairwise (fun a b => cmpLex a b = .lt) (tuplesOf facs)
  | [], _ => by simp [tuplesOf]
  | f :: fs, h => by
    simp only [tuplesOf]
    rw [List.pairwise_flatMap]
    constructor
    · intro x _
      rw [List.pairwise_map]
      exact List.Pairwise.imp (fun {a b} hab => by rw [cmpLex_cons_self]; exact hab)
        (tuplesOf_pairwise fs (fun g hg => h g (by simp [hg])))
    · apply List.Pairwise.imp _ (h f (by simp))
      intro x x' hx a ha b hb
      obtain ⟨a', _, rfl⟩ := List.mem_map.mp ha
      obtain ⟨b', _, rfl⟩ := List.mem_map.mp hb
      exact cmpLex_cons_lt a' b' hx

theorem length_tuplesOf : ∀ facs : List (List Val),
    (tuplesOf facs).length = (facs.map List.length).foldr (· * ·) 1
  | [] => rfl
  | f :: fs => by
    simp only [tuplesOf, List.length_flatMap, List.length_map, List.map_cons, List.foldr_cons]
    rw [length_tuplesOf fs]
    generalize (fs.map List.length).foldr (· * ·) 1 = p
    induction f with
    | nil => simp
    | cons x r ih => simp [ih, Nat.add_mul]; omega

theorem hasTys_of_memEach : ∀ (cs : List Val) (facs : List (List Val)) (ts : List Ty), MemEach cs facs →
    (facs.length = ts.length) → (∀ i (h1 : i < facs.length) (h2 : i < ts.length), allTy facs[i] ts[i] = true) →
    hasTys cs ts = true
  | [], [], [], _, _, _ => rfl
  | [], [], _ :: _, _, h, _ => by simp at h
  | [], _ :: _, _, h, _, _ => by simp [MemEach] at h
  | _ :: _, [], _, h, _, _ => by simp [MemEach] at h
  | _ :: _, _ :: _, [], _, h, _ => by simp at h
  | c :: cs, f :: fs, t :: ts, hm, hl, ht => by
    simp only [hasTys, Bool.and_eq_true]
    refine ⟨?_, hasTys_of_memEach cs fs ts hm.2 (by simpa using hl) ?_⟩
    · have := ht 0 (by simp) (by simp)
      simp only [List.getElem_cons_zero] at this
      exact (allTy_iff _ _).1 this c hm.1
    · intro i h1 h2
      have := ht (i + 1) (by simp; omega) (by simp; omega)
      simpa using this

/-! ## every well-formed (possibly lazy, possibly nested) set implementation is a faithful view -/

mutual
/-- `l` implements a set of values of type `τ`: enumerations are canonical and typed, a power set
sits over a set, a product over at least two sets. -/
def LSet.wf : LSet → Ty → Bool
  | .enum xs, τ => allTy xs τ && (canonList xs && sortedLt xs)
  | .pow b, τ =>
    match τ with
    | .coll σ => LSet.wf b σ
    | _ => false
  | .prod fs, τ =>
    match τ with
    | .tup ts => decide (2 ≤ fs.length) && LSet.wfList fs ts
    | _ => false
termination_by structural a => a
def LSet.wfList : List LSet → List Ty → Bool
  | [], ts => ts.isEmpty
  | f :: fs, ts =>
    match ts with
    | t :: ts' => LSet.wf f t && LSet.wfList fs ts'
    | [] => false
termination_by structural a => a
end

/-- factor by factor: the iteration `xs` of `f` makes a faithful view of type `t`. -/
def FaithfulL : List LSet → List Ty → List (List Val) → Prop
  | [], [], [] => True
  | f :: fs, t :: ts, xs :: xss => Faithful ⟨xs, f.has, f.isLazy⟩ t ∧ FaithfulL fs ts xss
  | _, _, _ => False

theorem FaithfulL.lengths : ∀ {fs : List LSet} {ts : List Ty} {xss : List (List Val)}, FaithfulL fs ts xss →
    fs.length = ts.length ∧ fs.length = xss.length
  | [], [], [], _ => ⟨rfl, rfl⟩
  | f :: fs, t :: ts, xs :: xss, h => by
    have := FaithfulL.lengths h.2
    simp only [List.length_cons]
    omega
  | [], [], _ :: _, h => by simp [FaithfulL] at h
  | [], _ :: _, _, h => by simp [FaithfulL] at h
  | _ :: _, [], _, h => by simp [FaithfulL] at h
  | _ :: _, _ :: _, [], h => by simp [FaithfulL] at h

theorem FaithfulL.sorted : ∀ {fs : List LSet} {ts : List Ty} {xss : List (List Val)}, FaithfulL fs ts xss →
    ∀ f ∈ xss, List.Pairwise (fun a b => lt a b = true) f
  | [], [], [], _ => by simp
  | f :: fs, t :: ts, xs :: xss, h => by
    intro g hg
    rcases List.mem_cons.mp hg with e | hg
    · subst e; exact pairwise_of_sortedLt _ h.1.sorted
    · exact FaithfulL.sorted h.2 g hg
  | [], [], _ :: _, h => by simp [FaithfulL] at h
  | [], _ :: _, _, h => by simp [FaithfulL] at h
  | _ :: _, [], _, h => by simp [FaithfulL] at h
  | _ :: _, _ :: _, [], h => by simp [FaithfulL] at h

theorem FaithfulL.of_mem : ∀ {fs : List LSet} {ts : List Ty} {xss : List (List Val)}, FaithfulL fs ts xss →
    ∀ cs, MemEach cs xss → hasTys cs ts = true ∧ canonList cs = true
  | [], [], [], _, [], _ => ⟨rfl, rfl⟩
  | [], [], [], _, _ :: _, h => by simp [MemEach] at h
  | f :: fs, t :: ts, xs :: xss, h, [], hm => by simp [MemEach] at hm
  | f :: fs, t :: ts, xs :: xss, h, c :: cs, hm => by
    have ih := FaithfulL.of_mem h.2 cs hm.2
    simp only [hasTys, canonList, Bool.and_eq_true]
    exact ⟨⟨(allTy_iff _ _).1 h.1.typed c hm.1, ih.1⟩, ⟨h.1.canonEl c hm.1, ih.2⟩⟩
  | [], [], _ :: _, h, _, _ => by simp [FaithfulL] at h
  | [], _ :: _, _, h, _, _ => by simp [FaithfulL] at h
  | _ :: _, [], _, h, _, _ => by simp [FaithfulL] at h
  | _ :: _, _ :: _, [], h, _, _ => by simp [FaithfulL] at h

theorem FaithfulL.hasAll_iff : ∀ {fs : List LSet} {ts : List Ty} {xss : List (List Val)}, FaithfulL fs ts xss →
    ∀ cs, hasTys cs ts = true → canonList cs = true → (LSet.hasAll fs cs = true ↔ MemEach cs xss)
  | [], [], [], _, [], _, _ => by simp [LSet.hasAll, MemEach]
  | [], [], [], _, _ :: _, h, _ => by simp [hasTys] at h
  | f :: fs, t :: ts, xs :: xss, h, [], ht, _ => by simp [hasTys] at ht
  | f :: fs, t :: ts, xs :: xss, h, c :: cs, ht, hc => by
    simp only [hasTys, canonList, Bool.and_eq_true] at ht hc
    simp only [LSet.hasAll, Bool.and_eq_true, MemEach]
    rw [FaithfulL.hasAll_iff h.2 cs ht.2 hc.2]
    have := h.1.has_iff c ht.1 hc.1
    simp only at this
    rw [this]
  | [], [], _ :: _, h, _, _, _ => by simp [FaithfulL] at h
  | [], _ :: _, _, h, _, _, _ => by simp [FaithfulL] at h
  | _ :: _, [], _, h, _, _, _ => by simp [FaithfulL] at h
  | _ :: _, _ :: _, [], h, _, _, _ => by simp [FaithfulL] at h

theorem pow_faithful {b : LSet} {base : List Val} {σ : Ty} (hb : Faithful ⟨base, b.has, b.isLazy⟩ σ) :
    ∃ P, powIter base = some P ∧ P.length = 2 ^ base.length ∧
      (∀ x, x ∈ P ↔ ∃ ys, x = .s ys ∧ ys.Sublist base) ∧
      Faithful ⟨P, (LSet.pow b).has, (LSet.pow b).isLazy⟩ (.coll σ) := by
  obtain ⟨P, h1, _, h3, h4, h5, h6, h7⟩ := powIter_spec hb.sorted hb.typed hb.canonEl
  refine ⟨P, h1, h6, h7, ⟨h3, h4, h5, ?_⟩⟩
  intro x hx cx
  cases x with
  | e n => simp [hasTy] at hx
  | t cs => simp [hasTy] at hx
  | s ys =>
    simp only [hasTy] at hx
    rw [canon_s_iff] at cx
    simp only [LSet.has, List.all_eq_true]
    rw [h7]
    constructor
    · intro h
      refine ⟨ys, rfl, sublist_of_subset_sorted base ys hb.sorted cx.2 ?_⟩
      intro y hy
      have := hb.has_iff y ((allTy_iff _ _).1 hx y hy) (cx.1 y hy)
      exact this.1 (h y hy)
    · rintro ⟨ys', e, hsub⟩ y hy
      cases e
      have := hb.has_iff y ((allTy_iff _ _).1 hx y hy) (cx.1 y hy)
      exact this.2 (hsub.subset hy)

theorem prod_faithful {fs : List LSet} {ts : List Ty} {xss : List (List Val)} (h : FaithfulL fs ts xss)
    (h2 : 2 ≤ fs.length) :
    ∃ P, prodIter xss = some P ∧ P.length = (xss.map List.length).foldr (· * ·) 1 ∧
      (∀ x, x ∈ P ↔ ∃ cs, x = .t cs ∧ MemEach cs xss) ∧
      Faithful ⟨P, (LSet.prod fs).has, (LSet.prod fs).isLazy⟩ (.tup ts) := by
  have hl := h.lengths
  refine ⟨(tuplesOf xss).map .t, prodIter_eq_t xss (by omega), by rw [List.length_map, length_tuplesOf], ?_, ?_⟩
  · intro x
    rw [List.mem_map]
    constructor
    · rintro ⟨cs, hcs, rfl⟩; exact ⟨cs, rfl, (mem_tuplesOf xss cs).1 hcs⟩
    · rintro ⟨cs, rfl, hm⟩; exact ⟨cs, (mem_tuplesOf xss cs).2 hm, rfl⟩
  have hlen : ∀ cs ∈ tuplesOf xss, cs.length = xss.length :=
    fun cs hcs => memEach_length cs xss ((mem_tuplesOf xss cs).1 hcs)
  refine ⟨?_, ?_, ?_, ?_⟩
  · apply sortedLt_of_pairwise
    rw [List.pairwise_map]
    have hp := tuplesOf_pairwise xss h.sorted
    have : ∀ (L : List (List Val)), (∀ a ∈ L, a.length = xss.length) →
        List.Pairwise (fun a b => cmpLex a b = .lt) L →
        List.Pairwise (fun a b => lt (Val.t a) (Val.t b) = true) L := by
      intro L
      induction L with
      | nil => intro _ _; exact List.Pairwise.nil
      | cons a L ih =>
        intro hl hp
        rw [List.pairwise_cons] at hp ⊢
        refine ⟨fun b hb => ?_, ih (fun x hx => hl x (by simp [hx])) hp.2⟩
        have la := hl a (by simp)
        have lb := hl b (by simp [hb])
        simp [lt, cmp, la, lb, hp.1 b hb]
    exact this _ hlen hp
  · rw [allTy_iff]
    intro x hx
    obtain ⟨cs, hcs, rfl⟩ := List.mem_map.mp hx
    simp only [hasTy]
    exact (h.of_mem cs ((mem_tuplesOf xss cs).1 hcs)).1
  · intro x hx
    obtain ⟨cs, hcs, rfl⟩ := List.mem_map.mp hx
    simp only [canon]
    exact (h.of_mem cs ((mem_tuplesOf xss cs).1 hcs)).2
  · intro x hx cx
    cases x with
    | e n => simp [hasTy] at hx
    | s ys => simp [hasTy] at hx
    | t cs =>
      simp only [hasTy] at hx
      simp only [canon] at cx
      have hcl : cs.length = fs.length := by rw [hasTys_length cs ts hx, hl.1]
      simp only [LSet.has, Bool.and_eq_true, beq_iff_eq, hcl, true_and]
      rw [h.hasAll_iff cs hx cx, ← mem_tuplesOf]
      constructor
      · intro hm; exact List.mem_map.mpr ⟨cs, hm, rfl⟩
      · intro hm
        obtain ⟨cs', hcs', e⟩ := List.mem_map.mp hm
        cases e; exact hcs'

mutual
theorem LSet.faithful : ∀ (l : LSet) (τ : Ty), l.wf τ = true →
    ∃ xs, l.iter = some xs ∧ Faithful ⟨xs, l.has, l.isLazy⟩ τ
  | .enum xs, τ, h => by
    simp only [LSet.wf, Bool.and_eq_true] at h
    exact ⟨xs, rfl, ⟨h.2.2, h.1, (canonList_iff xs).1 h.2.1, fun x hx _ => containsEnum_iff hx xs h.1 h.2.2⟩⟩
  | .pow b, .coll σ, h => by
    simp only [LSet.wf] at h
    obtain ⟨base, hb1, hb2⟩ := LSet.faithful b σ h
    obtain ⟨P, hp1, _, _, hp3⟩ := pow_faithful hb2
    exact ⟨P, by simp [LSet.iter, hb1, hp1], hp3⟩
  | .pow _, .base, h => by simp [LSet.wf] at h
  | .pow _, .tup _, h => by simp [LSet.wf] at h
  | .prod fs, .tup ts, h => by
    simp only [LSet.wf, Bool.and_eq_true, decide_eq_true_eq] at h
    obtain ⟨xss, hx1, hx2⟩ := LSet.faithfulList fs ts h.2
    obtain ⟨P, hp1, _, _, hp3⟩ := prod_faithful hx2 h.1
    exact ⟨P, by simp [LSet.iter, hx1, hp1], hp3⟩
  | .prod _, .base, h => by simp [LSet.wf] at h
  | .prod _, .coll _, h => by simp [LSet.wf] at h
theorem LSet.faithfulList : ∀ (fs : List LSet) (ts : List Ty), LSet.wfList fs ts = true →
    ∃ xss, LSet.iterList fs = some xss ∧ FaithfulL fs ts xss
  | [], [], _ => ⟨[], rfl, trivial⟩
  | [], _ :: _, h => by simp [LSet.wfList] at h
  | _ :: _, [], h => by simp [LSet.wfList] at h
  | f :: fs, t :: ts, h => by
    simp only [LSet.wfList, Bool.and_eq_true] at h
    obtain ⟨xs, h1, h2⟩ := LSet.faithful f t h.1
    obtain ⟨xss, h3, h4⟩ := LSet.faithfulList fs ts h.2
    exact ⟨xs :: xss, by simp [LSet.iterList, h1, h3], h2, h4⟩
end

/-! ## Cardinality() of the lazy sets -/

theorem foldr_mul_pos : ∀ dims : List Nat, (∀ d ∈ dims, 0 < d) → 0 < dims.foldr (· * ·) 1
  | [], _ => by simp
  | d :: ds, h => by
    simp only [List.foldr_cons]
    exact Nat.mul_pos (h d (by simp)) (foldr_mul_pos ds (fun x hx => h x (by simp [hx])))

/-- `SDDecartian::UpdateSize` is exact as long as the product stays within `SET_INFINITY`. -/
theorem prodCount_exact : ∀ (dims : List Nat) (c : Nat), 1 ≤ c → (∀ d ∈ dims, 0 < d) →
    c * dims.foldr (· * ·) 1 ≤ SET_INFINITY → prodCount dims c = some (c * dims.foldr (· * ·) 1)
  | [], c, _, _, _ => by simp [prodCount]
  | d :: ds, c, hc, hpos, hb => by
    have hd : 0 < d := hpos d (by simp)
    have hp : 0 < ds.foldr (· * ·) 1 := foldr_mul_pos ds (fun x hx => hpos x (by simp [hx]))
    simp only [List.foldr_cons] at hb ⊢
    have h1 : c * d ≤ c * (d * ds.foldr (· * ·) 1) := Nat.mul_le_mul_left c (Nat.le_mul_of_pos_right d hp)
    have h3 : c * d ≤ SET_INFINITY := by omega
    have h4 : c ≤ SET_INFINITY / d := (Nat.le_div_iff_mul_le hd).2 h3
    have hne : d ≠ 0 := by omega
    have hgt : SET_INFINITY / d ≥ c := h4
    simp only [prodCount, hne, if_false, hgt, if_true]
    rw [prodCount_exact ds (c * d) (Nat.mul_pos (by omega) hd) (fun x hx => hpos x (by simp [hx]))
      (by rw [Nat.mul_assoc]; exact hb), Nat.mul_assoc]

theorem tuplesOf_nil_of_mem : ∀ xss : List (List Val), [] ∈ xss → tuplesOf xss = []
  | [], h => by simp at h
  | xs :: xss, h => by
    simp only [tuplesOf]
    rcases List.mem_cons.mp h with e | h
    · rw [← e]; rfl
    · rw [tuplesOf_nil_of_mem xss h]
      induction xs with
      | nil => rfl
      | cons x r ih => simp [List.flatMap_cons, ih]

/-! ## `Contains` performs no unchecked access on typed arguments -/

mutual
theorem LSet.hasDefined_of_typed : ∀ (l : LSet) (τ : Ty) (x : Val), l.wf τ = true → hasTy x τ = true →
    l.hasDefined x = true
  | .enum _, _, _, _, _ => rfl
  | .pow b, .coll σ, x, h, hx => by
    simp only [LSet.wf] at h
    cases x with
    | e n => simp [hasTy] at hx
    | t cs => simp [hasTy] at hx
    | s ys =>
      simp only [hasTy] at hx
      simp only [LSet.hasDefined, List.all_eq_true]
      intro y hy
      exact LSet.hasDefined_of_typed b σ y h ((allTy_iff _ _).1 hx y hy)
  | .pow _, .base, _, h, _ => by simp [LSet.wf] at h
  | .pow _, .tup _, _, h, _ => by simp [LSet.wf] at h
  | .prod fs, .tup ts, x, h, hx => by
    simp only [LSet.wf, Bool.and_eq_true] at h
    cases x with
    | e n => simp [hasTy] at hx
    | s ys => simp [hasTy] at hx
    | t cs =>
      simp only [hasTy] at hx
      simp only [LSet.hasDefined, Bool.or_eq_true]
      exact Or.inr (LSet.hasDefinedAll_of_typed fs ts cs h.2 hx)
  | .prod _, .base, _, h, _ => by simp [LSet.wf] at h
  | .prod _, .coll _, _, h, _ => by simp [LSet.wf] at h
theorem LSet.hasDefinedAll_of_typed : ∀ (fs : List LSet) (ts : List Ty) (cs : List Val),
    LSet.wfList fs ts = true → hasTys cs ts = true → LSet.hasDefinedAll fs cs = true
  | [], _, _, _, _ => rfl
  | _ :: _, [], _, h, _ => by simp [LSet.wfList] at h
  | f :: fs, t :: ts, [], _, hx => by simp [hasTys] at hx
  | f :: fs, t :: ts, c :: cs, h, hx => by
    simp only [LSet.wfList, Bool.and_eq_true] at h
    simp only [hasTys, Bool.and_eq_true] at hx
    simp only [LSet.hasDefinedAll, Bool.and_eq_true, Bool.or_eq_true]
    exact ⟨LSet.hasDefined_of_typed f t c h.1 hx.1, Or.inr (LSet.hasDefinedAll_of_typed fs ts cs h.2 hx.2)⟩
end
