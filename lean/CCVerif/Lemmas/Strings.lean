import CCVerif.Model.Strings
/-! Helper lemmas for C20 (UTF-8 part). -/
namespace CCVerif.Strings

theorem charSize_range : ∀ b, b < 256 → charSize b =
   (if b < 128 then 1 else if b < 160 then 2 else if b < 176 then 3 else if b < 192 then 4
    else if b < 224 then 2 else if b < 240 then 3 else 4) := by
  decide +kernel

theorem encodeCp_length (cp : Nat) :
    (encodeCp cp).length = if cp < 0x80 then 1 else if cp < 0x800 then 2 else if cp < 0x10000 then 3 else 4 := by
  unfold encodeCp; repeat (first | rfl | split)

theorem encodeCp_length_pos (cp : Nat) : 0 < (encodeCp cp).length := by
  rw [encodeCp_length]; repeat (first | omega | split)

theorem encodeCp_ne_nil (cp : Nat) : encodeCp cp ≠ [] := by
  intro h; have := encodeCp_length_pos cp; rw [h] at this; simp at this

/-- the lead byte of an encoded scalar value announces the length of its encoding. -/
theorem charSize_lead (b : Nat) (h : b < 256) :
    (b < 128 → charSize b = 1) ∧ (192 ≤ b → b < 224 → charSize b = 2) ∧
    (224 ≤ b → b < 240 → charSize b = 3) ∧ (240 ≤ b → charSize b = 4) := by
  rw [charSize_range b h]
  refine ⟨?_, ?_, ?_, ?_⟩ <;> intros <;> repeat (first | omega | split)

theorem charSize_head (cp : Nat) (h : validCp cp) :
    charSize ((encodeCp cp).getD 0 0) = (encodeCp cp).length := by
  unfold validCp at h
  unfold encodeCp
  split
  · rw [List.getD_cons_zero]; exact (charSize_lead _ (by omega)).1 (by omega)
  · split
    · rw [List.getD_cons_zero]; exact (charSize_lead _ (by omega)).2.1 (by omega) (by omega)
    · split
      · rw [List.getD_cons_zero]; exact (charSize_lead _ (by omega)).2.2.1 (by omega) (by omega)
      · rw [List.getD_cons_zero]; exact (charSize_lead _ (by omega)).2.2.2 (by omega)

theorem encode_append (a b : List Nat) : encode (a ++ b) = encode a ++ encode b := by
  induction a with
  | nil => rfl
  | cons c a ih => simp [encode, ih]

theorem encode_cons (c : Nat) (l : List Nat) : encode (c :: l) = encodeCp c ++ encode l := rfl

theorem encode_length_ge (cps : List Nat) : cps.length ≤ (encode cps).length := by
  induction cps with
  | nil => simp [encode]
  | cons c l ih => simp [encode]; have := encodeCp_length_pos c; omega

theorem getD_at_prefix (pre : Bytes) (c : Nat) (l : List Nat) :
    (pre ++ encode (c :: l)).getD pre.length 0 = (encodeCp c).getD 0 0 := by
  have hne := encodeCp_ne_nil c
  rw [encode_cons]
  cases hc : encodeCp c with
  | nil => exact absurd hc hne
  | cons x xs => simp [List.getD_eq_getElem?_getD]

/-- `advance` on well-formed text walks exactly `k` code points (or to the end). -/
theorem advance_encode (l1 l2 : List Nat) (k : Nat) (hv : ∀ c ∈ l2, validCp c) :
    advance (encode (l1 ++ l2)) k (encode l1).length = (encode (l1 ++ l2.take k)).length := by
  induction k generalizing l1 l2 with
  | zero => simp [advance]
  | succ k ih =>
    cases l2 with
    | nil => simp [advance]
    | cons c l2 =>
      have hlt : (encode l1).length < (encode (l1 ++ c :: l2)).length := by
        rw [encode_append, encode_cons]; simp
        have := encodeCp_length_pos c; omega
      unfold advance
      rw [if_pos hlt]
      have hget : (encode (l1 ++ c :: l2)).getD (encode l1).length 0 = (encodeCp c).getD 0 0 := by
        rw [encode_append]; exact getD_at_prefix _ _ _
      rw [hget, charSize_head c (hv c (by simp))]
      have e1 : (encode l1).length + (encodeCp c).length = (encode (l1 ++ [c])).length := by
        rw [encode_append]; simp [encode]
      have e2 : l1 ++ c :: l2 = (l1 ++ [c]) ++ l2 := by simp
      rw [e1, e2, ih (l1 ++ [c]) l2 (fun x hx => hv x (by simp [hx]))]
      simp

theorem advance_encode0 (cps : List Nat) (k : Nat) (hv : ∀ c ∈ cps, validCp c) :
    advance (encode cps) k 0 = byteOffset cps k := by
  have := advance_encode [] cps k hv
  simpa [encode, byteOffset] using this

theorem byteOffset_lt (cps : List Nat) (i : Nat) (h : i < cps.length) :
    byteOffset cps i < (encode cps).length := by
  unfold byteOffset
  conv => rhs; rw [← List.take_append_drop i cps, encode_append]
  have : (cps.drop i) ≠ [] := by
    intro hd; have := congrArg List.length hd; simp at this; omega
  cases hd : cps.drop i with
  | nil => exact absurd hd this
  | cons c r => simp [encode]; have := encodeCp_length_pos c; omega

theorem byteOffset_ge (cps : List Nat) (i : Nat) (h : cps.length ≤ i) :
    byteOffset cps i = (encode cps).length := by
  unfold byteOffset; rw [List.take_of_length_le h]

theorem byteOffset_succ (cps : List Nat) (i : Nat) (h : i < cps.length) :
    byteOffset cps (i+1) = byteOffset cps i + (encodeCp cps[i]).length := by
  unfold byteOffset
  rw [List.take_succ_eq_append_getElem h, encode_append]; simp [encode]

theorem getD_byteOffset (cps : List Nat) (i : Nat) (h : i < cps.length) :
    (encode cps).getD (byteOffset cps i) 0 = (encodeCp cps[i]).getD 0 0 := by
  unfold byteOffset
  have hsplit : cps = cps.take i ++ cps[i] :: cps.drop (i+1) := by
    rw [List.getElem_cons_drop]; exact (List.take_append_drop i cps).symm
  conv => lhs; arg 1; rw [hsplit, encode_append]
  exact getD_at_prefix _ _ _

/-- the iterator constructor on well-formed text. -/
theorem mkIter_encode (cps : List Nat) (i : Nat) (hv : ∀ c ∈ cps, validCp c) :
    mkIter (encode cps) (i : Int) =
      if i < cps.length then ⟨some i, byteOffset cps i⟩ else ⟨none, (encode cps).length⟩ := by
  unfold mkIter
  have hn : ¬ ((i : Int) < 0) := by omega
  rw [if_neg hn]
  simp only [Int.toNat_natCast]
  rw [advance_encode0 cps i hv]
  by_cases h : i < cps.length
  · have := byteOffset_lt cps i h
    rw [if_neg (by omega), if_pos h]
  · rw [byteOffset_ge cps i (by omega), if_pos (Nat.le_refl _), if_neg h]

theorem next_encode (cps : List Nat) (i : Nat) (h : i < cps.length) (hv : ∀ c ∈ cps, validCp c) :
    Iter.next (encode cps) ⟨some i, byteOffset cps i⟩ =
      if i + 1 < cps.length then ⟨some (i+1), byteOffset cps (i+1)⟩ else ⟨none, (encode cps).length⟩ := by
  unfold Iter.next
  simp only
  rw [getD_byteOffset cps i h, charSize_head _ (hv _ (List.getElem_mem h)), ← byteOffset_succ cps i h]
  by_cases h2 : i + 1 < cps.length
  · have := byteOffset_lt cps (i+1) h2
    rw [if_neg (by omega), if_pos h2]
  · rw [byteOffset_ge cps (i+1) (by omega), if_pos (Nat.le_refl _), if_neg h2]

/-! ### TrimWhitespace: the two index loops -/

theorem trimStart_found (text : Bytes) (k e0 : Nat)
    (hsp : ∀ i, i < k → isSpace (text.getD i 0) = true) (hk : isSpace (text.getD k 0) = false) (hke : k ≤ e0) :
    ∀ fuel start, start ≤ k → k - start + 1 ≤ fuel → trimStart text e0 fuel start = k := by
  intro fuel
  induction fuel with
  | zero => intro start _ h; omega
  | succ fuel ih =>
    intro start hs hf
    unfold trimStart
    by_cases hsk : start = k
    · subst hsk; rw [hk]; simp
    · have hlt : start < k := by omega
      rw [if_pos (hsp start hlt)]
      by_cases h1 : start + 1 < e0
      · rw [if_pos h1]; exact ih (start + 1) (by omega) (by omega)
      · rw [if_neg h1]; omega

theorem trimStart_allspace (text : Bytes) (e0 : Nat)
    (hsp : ∀ i, i ≤ e0 → isSpace (text.getD i 0) = true) :
    ∀ fuel start, start < e0 → e0 - start ≤ fuel → trimStart text e0 fuel start = e0 := by
  intro fuel
  induction fuel with
  | zero => intro start h1 h2; omega
  | succ fuel ih =>
    intro start hs hf
    unfold trimStart
    rw [if_pos (hsp start (by omega))]
    by_cases h1 : start + 1 < e0
    · rw [if_pos h1]; exact ih (start + 1) h1 (by omega)
    · rw [if_neg h1]; omega

theorem trimEnd_found (text : Bytes) (k t e0 : Nat)
    (hsp : ∀ i, t < i → i ≤ e0 → isSpace (text.getD i 0) = true) (ht : isSpace (text.getD t 0) = false) (hkt : k ≤ t) :
    ∀ fuel e, t ≤ e → e ≤ e0 → e - t + 1 ≤ fuel → trimEnd text k fuel e = t := by
  intro fuel
  induction fuel with
  | zero => intro e _ _ h; omega
  | succ fuel ih =>
    intro e h1 h2 hf
    unfold trimEnd
    by_cases het : e = t
    · subst het; rw [ht]; simp
    · have hgt : t < e := by omega
      have hs := hsp e hgt h2
      have hne : (e != 0) = true := by simp; omega
      simp only [hs, hne, Bool.and_self, if_true]
      have : e - 1 ≥ k := by omega
      rw [if_pos this]
      exact ih (e - 1) (by omega) (by omega) (by omega)

end CCVerif.Strings
