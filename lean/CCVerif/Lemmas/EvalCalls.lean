import CCVerif.Lemmas.EvalTop
/-! Stage 7 (calls of term functions / predicates), reference side.

`Beta fs K Δ e es`: the expression `e` (which may contain calls `F[args]`) **β-reduces** to the call-free
expression `es`: every call is replaced by the body of the definition with the (reduced) arguments put in
place of the parameters and the bound variables of the body renamed (the shape of what `Normalizer::Function`
produces).  `Beta.sound` proves that this is sound for the reference semantics `denote`, which evaluates a call
by binding the parameters to thunks (call by name): a value of `es` at fuel `f` is the value of `e` at every
fuel `≥ f + K` (`K` = the nesting of calls and parameter look-ups; the reference spends a unit on each).

No weakening / fuel-monotonicity lemma for `denote` is needed: the relation between the two environments is
closed under extension by fresh names by construction (`EExt`, Kripke style), and the statement is an implication
from the reduced side that is monotone in the information order of `Option`. -/
namespace CCVerif.Eval
open CCVerif.Syntax CCVerif.Spec CCVerif.Norm
open Val Ty

/-! ## information order on `Option` -/

def OLe {α} (x y : Option α) : Prop := ∀ v, x = some v → y = some v

theorem OLe.strict1 {α β} (G : Option α → Option β) (hG : G none = none) {r r' : Option α} (h : OLe r r') :
    OLe (G r) (G r') := by
  intro v hv
  cases r with
  | none => rw [hG] at hv; cases hv
  | some w => rw [h w rfl]; exact hv

theorem OLe.strict2 {α β γ} (G : Option α → Option β → Option γ) (h1 : ∀ y, G none y = none) (h2 : ∀ x, G x none = none)
    {ra ra' : Option α} {rb rb' : Option β} (ha : OLe ra ra') (hb : OLe rb rb') : OLe (G ra rb) (G ra' rb') := by
  intro v hv
  cases ra with
  | none => rw [h1] at hv; cases hv
  | some x =>
    cases rb with
    | none => rw [h2] at hv; cases hv
    | some y => rw [ha x rfl, hb y rfl]; exact hv

theorem dBool_mono {r r' : Option SemVal} (h : OLe r r') : OLe (dBool r) (dBool r') :=
  OLe.strict1 dBool rfl h

theorem kAll_false_iff (l : List (Option Bool)) : kAll l = some false ↔ some false ∈ l := by
  unfold kAll
  split
  · rename_i h
    simp only [List.any_eq_true, beq_iff_eq] at h
    obtain ⟨x, hx, rfl⟩ := h
    simp [hx]
  · rename_i h
    have : some false ∉ l := by
      intro hm; exact h (by simp only [List.any_eq_true, beq_iff_eq]; exact ⟨_, hm, rfl⟩)
    split <;> simp [this]

theorem kAll_true_iff (l : List (Option Bool)) : kAll l = some true ↔ ∀ x ∈ l, x = some true := by
  unfold kAll
  split
  · rename_i h
    simp only [List.any_eq_true, beq_iff_eq] at h
    obtain ⟨x, hx, rfl⟩ := h
    constructor
    · intro h; cases h
    · intro h; have := h _ hx; cases this
  · split
    · rename_i h
      simp only [List.all_eq_true, beq_iff_eq] at h
      exact ⟨fun _ => h, fun _ => rfl⟩
    · rename_i h
      simp only [List.all_eq_true, beq_iff_eq] at h
      exact ⟨fun h' => (by cases h'), fun h' => absurd h' h⟩

theorem kAny_true_iff (l : List (Option Bool)) : kAny l = some true ↔ some true ∈ l := by
  unfold kAny
  split
  · rename_i h
    simp only [List.any_eq_true, beq_iff_eq] at h
    obtain ⟨x, hx, rfl⟩ := h
    simp [hx]
  · rename_i h
    have : some true ∉ l := by
      intro hm; exact h (by simp only [List.any_eq_true, beq_iff_eq]; exact ⟨_, hm, rfl⟩)
    split <;> simp [this]

theorem kAny_false_iff (l : List (Option Bool)) : kAny l = some false ↔ ∀ x ∈ l, x = some false := by
  unfold kAny
  split
  · rename_i h
    simp only [List.any_eq_true, beq_iff_eq] at h
    obtain ⟨x, hx, rfl⟩ := h
    constructor
    · intro h; cases h
    · intro h; have := h _ hx; cases this
  · split
    · rename_i h
      simp only [List.all_eq_true, beq_iff_eq] at h
      exact ⟨fun _ => h, fun _ => rfl⟩
    · rename_i h
      simp only [List.all_eq_true, beq_iff_eq] at h
      exact ⟨fun h' => (by cases h'), fun h' => absurd h' h⟩

theorem kAll_mono (l : List Val) (g g' : Val → Option Bool) (h : ∀ v ∈ l, OLe (g v) (g' v)) :
    OLe (kAll (l.map g)) (kAll (l.map g')) := by
  intro b hb
  cases b with
  | false =>
    rw [kAll_false_iff] at hb ⊢
    obtain ⟨v, hv, e⟩ := List.mem_map.mp hb
    exact List.mem_map.mpr ⟨v, hv, h v hv _ e⟩
  | true =>
    rw [kAll_true_iff] at hb ⊢
    intro x hx
    obtain ⟨v, hv, rfl⟩ := List.mem_map.mp hx
    exact h v hv _ (hb _ (List.mem_map.mpr ⟨v, hv, rfl⟩))

theorem kAny_mono (l : List Val) (g g' : Val → Option Bool) (h : ∀ v ∈ l, OLe (g v) (g' v)) :
    OLe (kAny (l.map g)) (kAny (l.map g')) := by
  intro b hb
  cases b with
  | true =>
    rw [kAny_true_iff] at hb ⊢
    obtain ⟨v, hv, e⟩ := List.mem_map.mp hb
    exact List.mem_map.mpr ⟨v, hv, h v hv _ e⟩
  | false =>
    rw [kAny_false_iff] at hb ⊢
    intro x hx
    obtain ⟨v, hv, rfl⟩ := List.mem_map.mp hx
    exact h v hv _ (hb _ (List.mem_map.mpr ⟨v, hv, rfl⟩))

theorem kConn_mono {t : Tok} (ht : isConn t) {x x' y y' : Option Bool} (hx : OLe x x') (hy : OLe y y') :
    OLe (kConn t x y) (kConn t x' y') := by
  intro b hb
  rcases x with _ | x
  · rcases y with _ | y
    · rcases ht with rfl | rfl | rfl | rfl <;> simp [kConn, kAnd, kOr, kNot] at hb
    · have ey := hy y rfl
      subst ey
      rcases ht with rfl | rfl | rfl | rfl <;> cases y <;> simp [kConn, kAnd, kOr, kNot] at hb <;>
        subst hb <;> rcases x' with _ | (_ | _) <;> simp [kConn, kAnd, kOr, kNot]
  · have ex := hx x rfl
    subst ex
    rcases y with _ | y
    · rcases ht with rfl | rfl | rfl | rfl <;> cases x <;> simp [kConn, kAnd, kOr, kNot] at hb <;>
        subst hb <;> rcases y' with _ | (_ | _) <;> simp [kConn, kAnd, kOr, kNot]
    · have ey := hy y rfl
      subst ey
      exact hb

theorem mapM_mono {β} (d : Option SemVal → Option β) (hd : d none = none) (D Ds : Ast → Option SemVal) :
    ∀ (ks kss : List Ast), ks.length = kss.length → (∀ q ∈ ks.zip kss, OLe (Ds q.2) (D q.1)) →
      OLe (kss.mapM fun k => d (Ds k)) (ks.mapM fun k => d (D k))
  | [], [], _, _ => fun v hv => hv
  | [], _ :: _, hl, _ => by simp at hl
  | _ :: _, [], hl, _ => by simp at hl
  | k :: ks, k' :: kss, hl, h => by
    intro vs hvs
    have ih := mapM_mono d hd D Ds ks kss (by simpa using hl) (fun q hq => h q (by simp [hq]))
    have h0 : OLe (d (Ds k')) (d (D k)) := OLe.strict1 d hd (h (k, k') (by simp))
    rw [List.mapM_cons] at hvs ⊢
    cases e1 : d (Ds k') with
    | none => rw [e1] at hvs; cases hvs
    | some w =>
      rw [e1] at hvs
      cases e2 : List.mapM (fun k => d (Ds k)) kss with
      | none => rw [e2] at hvs; cases hvs
      | some ws =>
        rw [e2] at hvs
        rw [h0 w e1, ih ws e2]
        exact hvs

theorem mapM_val_mono {β} (l : List Val) (g g' : Val → Option β) (h : ∀ v ∈ l, OLe (g v) (g' v)) :
    OLe (l.mapM g) (l.mapM g') := by
  induction l with
  | nil => intro v hv; exact hv
  | cons x xs ih =>
    intro vs hvs
    rw [List.mapM_cons] at hvs ⊢
    cases e1 : g x with
    | none => rw [e1] at hvs; cases hvs
    | some w =>
      rw [e1] at hvs
      cases e2 : List.mapM g xs with
      | none => rw [e2] at hvs; cases hvs
      | some ws =>
        rw [e2] at hvs
        rw [h x (by simp) w e1, ih (fun v hv => h v (by simp [hv])) ws e2]
        exact hvs

/-! ## the semantic relation -/

/-- a value of `es` in `ρs` at fuel `f` is the value of `e` in `ρ` at every fuel from `f + K` on -/
def Sim (S : SEnv) (K : Nat) (ρ : LEnv) (e : Ast) (ρs : LEnv) (es : Ast) : Prop :=
  ∀ f v, denote S f ρs es = some v → ∀ f', f + K ≤ f' → denote S f' ρ e = some v

theorem Sim.mono {S : SEnv} {K K' : Nat} {ρ ρs : LEnv} {e es : Ast} (h : Sim S K ρ e ρs es) (hk : K ≤ K') :
    Sim S K' ρ e ρs es := fun f v hv f' hf' => h f v hv f' (by omega)

/-- a node whose value is a fixed monotone function of the values of its children (same fuel) -/
theorem Sim.node {S : SEnv} {K : Nat} {ρ ρs : LEnv} {e es : Ast}
    (hstep : ∀ f g, f + K ≤ g → OLe (denote S (f + 1) ρs es) (denote S (g + 1) ρ e)) : Sim S K ρ e ρs es := by
  intro f v hv f' hf'
  cases f with
  | zero => rw [denote_zero] at hv; cases hv
  | succ f =>
    obtain ⟨g, rfl⟩ : ∃ g, f' = g + 1 := ⟨f' - 1, by omega⟩
    exact hstep f g (by omega) v hv

theorem Sim.ole {S : SEnv} {K : Nat} {ρ ρs : LEnv} {e es : Ast} (h : Sim S K ρ e ρs es) {f g : Nat} (hg : f + K ≤ g) :
    OLe (denote S f ρs es) (denote S g ρ e) := fun v hv => h f v hv g hg

/-! ## environments -/

/-- `ρs'` extends `ρs` by value bindings of names outside `N` -/
inductive EExt (N : List String) (ρs : LEnv) : LEnv → Prop where
  | refl : EExt N ρs ρs
  | step {ρs' : LEnv} (y : String) (v : Val) : EExt N ρs ρs' → y ∉ N → EExt N ρs (.val y v ρs')

theorem EExt.find {N : List String} {ρs ρs' : LEnv} (h : EExt N ρs ρs') {x : String} (hx : x ∈ N) :
    ρs'.find x = ρs.find x := by
  induction h with
  | refl => rfl
  | step y v _ hy ih =>
    have : x ≠ y := by intro e; subst e; exact hy hx
    rw [find_val_ne _ _ this]; exact ih

theorem EExt.trans {N : List String} {a b c : LEnv} (h1 : EExt N a b) (h2 : EExt N b c) : EExt N a c := by
  induction h2 with
  | refl => exact h1
  | step y v _ hy ih => exact .step y v ih hy

theorem EExt.subset {N N' : List String} (hs : ∀ x ∈ N, x ∈ N') {a b : LEnv} (h : EExt N' a b) : EExt N a b := by
  induction h with
  | refl => exact .refl
  | step y v _ hy ih => exact .step y v ih (fun hm => hy (hs _ hm))

/-- what a local name of the source stands for: a bound variable, renamed to `x'` in the reduct, or a parameter,
replaced by the reduct `as` of its argument (`N`: the names the reduct of the argument depends on; `K`: its fuel
offset) -/
inductive Ent where
  | ren (x' : String)
  | par (as : Ast) (N : List String) (K : Nat)

abbrev BCtx := List (String × Ent)

/-- the names of the reduct side that are in use: a new bound variable of the reduct must avoid them -/
def avoid : BCtx → List String
  | [] => []
  | (_, .ren x') :: Δ => x' :: avoid Δ
  | (_, .par _ N _) :: Δ => N ++ avoid Δ

theorem avoid_ren {x x' : String} : ∀ {Δ : BCtx}, (x, Ent.ren x') ∈ Δ → x' ∈ avoid Δ
  | [], h => by simp at h
  | (y, en) :: Δ, h => by
    rcases List.mem_cons.mp h with h | h
    · injection h with h1 h2; subst h2; simp [avoid]
    · have := avoid_ren h
      cases en <;> simp [avoid, this]

theorem avoid_par {x : String} {as : Ast} {N : List String} {K : Nat} : ∀ {Δ : BCtx}, (x, Ent.par as N K) ∈ Δ →
    ∀ y ∈ N, y ∈ avoid Δ
  | [], h => by simp at h
  | (z, en) :: Δ, h => by
    intro y hy
    rcases List.mem_cons.mp h with h | h
    · injection h with h1 h2; subst h2; simp [avoid, hy]
    · have := avoid_par h y hy
      cases en <;> simp [avoid, this]

/-- the environment `ρ` of the source (values for the bound variables, thunks for the parameters) and the
environment `ρs` of the reduct (values only) agree along `Δ`; for a parameter, in every fresh extension of `ρs` -/
def ERel (S : SEnv) (Δ : BCtx) (ρ ρs : LEnv) : Prop :=
  ∀ x ent, lookup x Δ = some ent →
    match ent with
    | .ren x' => ∃ v, ρ.find x = some (.val v) ∧ ρs.find x' = some (.val v)
    | .par as N K => ∃ arg cl, ρ.find x = some (.thunk arg cl) ∧ ∀ ρs', EExt N ρs ρs' → Sim S K cl arg ρs' as

theorem ERel.nil (S : SEnv) (ρ ρs : LEnv) : ERel S [] ρ ρs := by
  intro x ent h; simp [lookup] at h

theorem ERel.ext {S : SEnv} {Δ : BCtx} {ρ ρs ρs' : LEnv} (h : ERel S Δ ρ ρs) (he : EExt (avoid Δ) ρs ρs') :
    ERel S Δ ρ ρs' := by
  intro x ent hl
  have hm := lookup_mem hl
  have := h x ent hl
  cases ent with
  | ren x' =>
    obtain ⟨v, h1, h2⟩ := this
    exact ⟨v, h1, by rw [he.find (avoid_ren hm)]; exact h2⟩
  | par as N K =>
    obtain ⟨arg, cl, h1, h2⟩ := this
    exact ⟨arg, cl, h1, fun ρs'' he' => h2 ρs'' ((he.subset (avoid_par hm)).trans he')⟩

theorem find_thunk_ne {x y : String} (a : Ast) (cl ρ : LEnv) (h : y ≠ x) : (LEnv.thunk x a cl ρ).find y = ρ.find y := by
  have : (x == y) = false := by simp [Ne.symm h]
  simp [LEnv.find, this]

theorem find_thunk_self (x : String) (a : Ast) (cl ρ : LEnv) : (LEnv.thunk x a cl ρ).find x = some (.thunk a cl) := by
  simp [LEnv.find]

/-- entering a binder: `x` on the source side, the fresh `x'` on the reduct side -/
theorem ERel.bind {S : SEnv} {Δ : BCtx} {ρ ρs : LEnv} (h : ERel S Δ ρ ρs) (x x' : String) (v : Val)
    (hx' : x' ∉ avoid Δ) : ERel S ((x, .ren x') :: Δ) (.val x v ρ) (.val x' v ρs) := by
  intro y ent hl
  by_cases e : y = x
  · subst e
    rw [lookup_cons_self] at hl
    injection hl with hl; subst hl
    exact ⟨v, find_val_self _ _ _, find_val_self _ _ _⟩
  · rw [lookup_cons_ne _ _ e] at hl
    have hm := lookup_mem hl
    have := h y ent hl
    cases ent with
    | ren y' =>
      obtain ⟨w, h1, h2⟩ := this
      have hne : y' ≠ x' := by intro e'; subst e'; exact hx' (avoid_ren hm)
      exact ⟨w, by rw [find_val_ne _ _ e]; exact h1, by rw [find_val_ne _ _ hne]; exact h2⟩
    | par as N K =>
      obtain ⟨arg, cl, h1, h2⟩ := this
      refine ⟨arg, cl, by rw [find_val_ne _ _ e]; exact h1, fun ρs'' he' => h2 ρs'' ?_⟩
      exact (EExt.step x' v .refl (fun hm' => hx' (avoid_par hm _ hm'))).trans he'

/-! ## β-reduction of calls -/

/-- the scope of a function body: every parameter stands for the reduct of its argument (built as `denote` builds
the environment of the body: a later parameter hides an earlier one of the same name) -/
def parCtx (N : List String) (K : Nat) (l : List (String × Ast)) : BCtx :=
  l.foldl (fun acc (pa : String × Ast) => (pa.1, Ent.par pa.2 N K) :: acc) []

def isUn (t : Tok) : Prop := t = .CARD ∨ t = .BOOL ∨ t = .DEBOOL ∨ t = .REDUCE ∨ t = .NOT ∨ t = .BOOLEAN
def isBin7 (t : Tok) : Prop := isArith t ∨ isIntCmp t ∨ isEq t ∨ isSubTok t ∨ isSetOp t ∨ isConn t
def isNary (t : Tok) : Prop := t = .NT_ENUMERATION ∨ t = .NT_TUPLE ∨ t = .DECART

/-- parameter names of a definition, as `denote` reads them -/
def paramNames (adecls : List Ast) : List String := adecls.map fun d => idNameOf (d.kids[0]?.getD d)

/-- `Beta fs K Δ e es`: `e` (with calls of the definitions `fs`) reduces to the call-free `es`; node ranges of the
reduct are free (the normaliser overwrites them with the range of the call) -/
inductive Beta (fs : Funcs) : Nat → BCtx → Ast → Ast → Prop where
  | mono {K K' : Nat} {Δ : BCtx} {e es : Ast} : K ≤ K' → Beta fs K Δ e es → Beta fs K' Δ e es
  | lit {Δ : BCtx} (n lo hi lo' hi' : Int) :
      Beta fs 0 Δ (.node .LIT_INTEGER (.int n) lo hi []) (.node .LIT_INTEGER (.int n) lo' hi' [])
  | empty {Δ : BCtx} (d : TokData) (lo hi lo' hi' : Int) :
      Beta fs 0 Δ (.node .LIT_EMPTYSET d lo hi []) (.node .LIT_EMPTYSET d lo' hi' [])
  | glob {Δ : BCtx} (g : String) (lo hi lo' hi' : Int) :
      Beta fs 0 Δ (.node .ID_GLOBAL (.text g) lo hi []) (.node .ID_GLOBAL (.text g) lo' hi' [])
  /-- a bound variable: renamed -/
  | loc {Δ : BCtx} (x x' : String) (lo hi lo' hi' : Int) : lookup x Δ = some (.ren x') →
      Beta fs 0 Δ (.node .ID_LOCAL (.text x) lo hi []) (.node .ID_LOCAL (.text x') lo' hi' [])
  /-- a parameter: replaced by the reduct of the argument -/
  | par {Δ : BCtx} (p : String) (as : Ast) (N : List String) (Kp : Nat) (lo hi : Int) : lookup p Δ = some (.par as N Kp) →
      Beta fs (Kp + 1) Δ (.node .ID_LOCAL (.text p) lo hi []) as
  | un {K : Nat} {Δ : BCtx} {t : Tok} {a as : Ast} (d : TokData) (lo hi lo' hi' : Int) : isUn t → Beta fs K Δ a as →
      Beta fs K Δ (.node t d lo hi [a]) (.node t d lo' hi' [as])
  | pr {K : Nat} {Δ : BCtx} {t : Tok} {a as : Ast} (idx : List Int) (lo hi lo' hi' : Int) : t = .SMALLPR ∨ t = .BIGPR →
      Beta fs K Δ a as → Beta fs K Δ (.node t (.tuple idx) lo hi [a]) (.node t (.tuple idx) lo' hi' [as])
  | bin {K : Nat} {Δ : BCtx} {t : Tok} {a b as bs : Ast} (d : TokData) (lo hi lo' hi' : Int) : isBin7 t →
      Beta fs K Δ a as → Beta fs K Δ b bs → Beta fs K Δ (.node t d lo hi [a, b]) (.node t d lo' hi' [as, bs])
  | mem {K : Nat} {Δ : BCtx} {t : Tok} {a b as bs : Ast} (d : TokData) (lo hi lo' hi' : Int) : isMemTok t →
      b.id ≠ .BOOLEAN → bs.id ≠ .BOOLEAN →
      Beta fs K Δ a as → Beta fs K Δ b bs → Beta fs K Δ (.node t d lo hi [a, b]) (.node t d lo' hi' [as, bs])
  | memPow {K : Nat} {Δ : BCtx} {t : Tok} {a b as bs : Ast} (d d' : TokData) (lo hi lo' hi' lo2 hi2 lo2' hi2' : Int) :
      isMemTok t → Beta fs K Δ a as → Beta fs K Δ b bs →
      Beta fs K Δ (.node t d lo hi [a, .node .BOOLEAN d' lo2 hi2 [b]]) (.node t d lo' hi' [as, .node .BOOLEAN d' lo2' hi2' [bs]])
  | nary {K : Nat} {Δ : BCtx} {t : Tok} (d : TokData) (lo hi lo' hi' : Int) (ks kss : List Ast) : isNary t →
      ks.length = kss.length → (∀ q ∈ ks.zip kss, Beta fs K Δ q.1 q.2) →
      Beta fs K Δ (.node t d lo hi ks) (.node t d lo' hi' kss)
  /-- `Q x∈dom . body`: the variable of the reduct is new on the reduct side -/
  | quant {K : Nat} {Δ : BCtx} {t : Tok} {dom body doms bodys : Ast} (d : TokData) (lo hi lo' hi' : Int) (x x' : String)
      (dlo dhi dlo' dhi' : Int) : isQuant t → x' ∉ avoid Δ →
      Beta fs K Δ dom doms → Beta fs K ((x, .ren x') :: Δ) body bodys →
      Beta fs K Δ (.node t d lo hi [.node .ID_LOCAL (.text x) dlo dhi [], dom, body])
        (.node t d lo' hi' [.node .ID_LOCAL (.text x') dlo' dhi' [], doms, bodys])
  | decl {K : Nat} {Δ : BCtx} {dom body doms bodys : Ast} (d : TokData) (lo hi lo' hi' : Int) (x x' : String)
      (dlo dhi dlo' dhi' : Int) : x' ∉ avoid Δ →
      Beta fs K Δ dom doms → Beta fs K ((x, .ren x') :: Δ) body bodys →
      Beta fs K Δ (.node .NT_DECLARATIVE_EXPR d lo hi [.node .ID_LOCAL (.text x) dlo dhi [], dom, body])
        (.node .NT_DECLARATIVE_EXPR d lo' hi' [.node .ID_LOCAL (.text x') dlo' dhi' [], doms, bodys])
  /-- `F[args]`: the arguments are reduced in the scope of the call, the body of the definition in the scope of its
  parameters alone (a definition is closed but for its parameters and the globals) -/
  | call {Ka Kb : Nat} {Δ : BCtx} {es body hd : Ast} (d : TokData) (lo hi : Int) (ft : Tok) (f : String) (flo fhi : Int)
      (fks : List Ast) (tt : Tok) (td : TokData) (tlo thi : Int) (fd : TokData) (dlo dhi : Int) (at' : Tok) (ad : TokData)
      (alo ahi : Int) (adecls args argss : List Ast) :
      lookup f fs = some (.node tt td tlo thi [hd, .node .NT_FUNC_DEFINITION fd dlo dhi [.node at' ad alo ahi adecls, body]]) →
      adecls.length = args.length → args.length = argss.length →
      (∀ q ∈ args.zip argss, Beta fs Ka Δ q.1 q.2) →
      Beta fs Kb (parCtx (avoid Δ) Ka ((paramNames adecls).zip argss)) body es →
      Beta fs (Kb + 1) Δ (.node .NT_FUNC_CALL d lo hi (.node ft (.text f) flo fhi fks :: args)) es

theorem denote_call (S : SEnv) (fuel : Nat) (ρ : LEnv) (d : TokData) (lo hi : Int) (ft : Tok) (f : String) (flo fhi : Int)
    (fks : List Ast) (tt : Tok) (td : TokData) (tlo thi : Int) (fd : TokData) (dlo dhi : Int) (at' : Tok) (ad : TokData)
    (alo ahi : Int) (adecls args : List Ast) (hd body : Ast)
    (hf : lookup f S.funcs = some (.node tt td tlo thi [hd, .node .NT_FUNC_DEFINITION fd dlo dhi [.node at' ad alo ahi adecls, body]]))
    (hl : adecls.length = args.length) :
    denote S (fuel + 1) ρ (.node .NT_FUNC_CALL d lo hi (.node ft (.text f) flo fhi fks :: args)) =
      denote S fuel (((paramNames adecls).zip args).foldl (fun acc (pa : String × Ast) => LEnv.thunk pa.1 pa.2 ρ acc) LEnv.nil)
        body := by
  simp only [denote, Ast.id, Ast.kids, idNameOf, Ast.data, assoc_eq_lookup, hf]
  simp only [hl, bne_self_eq_false]
  rfl

/-- the environment `denote` builds for the body of a call agrees with `parCtx` -/
theorem parCtx_rel (S : SEnv) (N : List String) (Ka : Nat) (ρ ρs : LEnv) :
    ∀ (ps : List String) (args argss : List Ast) (accΔ : BCtx) (accρ : LEnv), args.length = argss.length →
      (∀ q ∈ args.zip argss, ∀ ρs', EExt N ρs ρs' → Sim S Ka ρ q.1 ρs' q.2) →
      ERel S accΔ accρ ρs →
      ERel S ((ps.zip argss).foldl (fun acc (pa : String × Ast) => (pa.1, Ent.par pa.2 N Ka) :: acc) accΔ)
        ((ps.zip args).foldl (fun acc (pa : String × Ast) => LEnv.thunk pa.1 pa.2 ρ acc) accρ) ρs
  | [], _, _, _, _, _, _, h => by simpa using h
  | _ :: _, [], [], _, _, _, _, h => by simpa using h
  | _ :: _, [], _ :: _, _, _, hl, _, _ => by simp at hl
  | _ :: _, _ :: _, [], _, _, hl, _, _ => by simp at hl
  | p :: ps, a :: args, a' :: argss, accΔ, accρ, hl, hq, h => by
    simp only [List.zip_cons_cons, List.foldl_cons]
    refine parCtx_rel S N Ka ρ ρs ps args argss _ _ (by simpa using hl) (fun q hm => hq q (by simp [hm])) ?_
    intro y ent hy
    by_cases e : y = p
    · subst e
      rw [lookup_cons_self] at hy
      injection hy with hy; subst hy
      exact ⟨a, ρ, find_thunk_self _ _ _ _, hq (a, a') (by simp)⟩
    · rw [lookup_cons_ne _ _ e] at hy
      have := h y ent hy
      cases ent with
      | ren y' =>
        obtain ⟨w, h1, h2⟩ := this
        exact ⟨w, by rw [find_thunk_ne _ _ _ e]; exact h1, h2⟩
      | par as N' K' =>
        obtain ⟨arg, cl, h1, h2⟩ := this
        exact ⟨arg, cl, by rw [find_thunk_ne _ _ _ e]; exact h1, h2⟩

end CCVerif.Eval
