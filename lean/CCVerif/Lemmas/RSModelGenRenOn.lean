import CCVerif.Lemmas.RSModelGenRen
import CCVerif.Lemmas.RenameGen
import CCVerif.Lemmas.ExtractGenFrag
/-!
C11, generic, the renaming operations on a CARRIER: `Equivariant A E` of `Lemmas/RSModelGenRen.lean` asks
the renaming laws for EVERY partial map and EVERY definition, which the type checker does not satisfy
(`equivariant_checker_counterexample`). Here the same preservation results are proved from

* the C08 law `Q : Equivariance A` (an abstract type of admissible renamings, side condition `Q.Good r c`),
* `EvalEquivarianceOn A E Q R P` — the evaluation half: entries keep `verified`, and a renaming `r` with `R r`
  of a constituent with `P c` and of the value context does not change the value,
* `RenCarrier A Q R P` — ADMISSIBILITY on the carrier: a partial map whose action on the aliases of a store of
  `P`-constituents is injective and leads to `P`-constituents again is (on those aliases) some `r : Q.Ren`
  with `R r` that is good for every constituent of the store.

`Inv.rename_on`: a schema step whose store is the old store renamed by `f` keeps the C11 invariant;
`Inv.setAliasTrue_on`, `Inv.substitute_on`; `Inv.foldl_on`: histories of all operations except
`SetAliasFor(…, substitute = false)` along which every stored constituent is in the carrier.
-/
namespace CCVerif.RSModelGen
open CCVerif CCVerif.SchemaGen CCVerif.Graph
open CCVerif.Schema (Kind lookup)

variable {D I V : Type} {A : Analysis D I} {E : Eval D I V}

/-- the evaluation half of the equivariance, for renamings with `R` and constituents with `P` -/
structure EvalEquivarianceOn (A : Analysis D I) (E : Eval D I V) (Q : Equivariance A) (R : Q.Ren → Prop)
    (P : Cst D → Prop) : Prop where
  verified_ren : ∀ r i, E.verified (Q.renI r i) = E.verified i
  eval_ren : ∀ r (ctx ctx' : String → Option V) (c : Cst D) (v : V), R r → P c → Q.Good r c →
    (∀ m ∈ A.mentions c.defn, ∀ x, ctx m = some x → ctx' (Q.app r m) = some x) →
    E.eval ctx c = some v → E.eval ctx' (Q.renC r c) = some v

/-- admissibility on the carrier `P` -/
structure RenCarrier (A : Analysis D I) (Q : Equivariance A) (R : Q.Ren → Prop) (P : Cst D → Prop) : Prop where
  adm : ∀ (s : List (Cst D)) (f : String → Option String), (∀ c ∈ s, P c) → (∀ c ∈ s, P (renCst A f c)) →
    (s.map (·.alias)).Nodup → (s.map fun c => ren f c.alias).Nodup →
    ∃ r : Q.Ren, R r ∧ (∀ c ∈ s, Q.Good r c) ∧ ∀ c ∈ s, Q.app r c.alias = ren f c.alias

/-- the intended values are transported by an admissible renaming of the whole store -/
theorem TVal.ren (Q : Equivariance A) {R : Q.Ren → Prop} {P : Cst D → Prop} (QE : EvalEquivarianceOn A E Q R P)
    (r : Q.Ren) (hR : R r) {s : List (Cst D)} (hP : ∀ c ∈ s, P c) (hg : ∀ c ∈ s, Q.Good r c)
    {dat : Nat → Option V} {u : Nat} {v : V} (h : TVal A E s dat u v) :
    TVal A E (s.map (Q.renC r)) dat u v := by
  induction h with
  | @base c v hc hk hd =>
    exact TVal.base (c := Q.renC r c) (List.mem_map.2 ⟨c, hc, rfl⟩) hk hd
  | @term c i v vf hc hk hv hver hdeps hev ih =>
    refine TVal.term (c := Q.renC r c) (i := Q.renI r i) vf (List.mem_map.2 ⟨c, hc, rfl⟩) hk
      (hv.ren Q r hg) (by rw [QE.verified_ren]; exact hver) ?_ ?_
    · intro m' hm' w x hw hx
      have hm'' : m' ∈ (A.mentions c.defn).map (Q.app r) := by
        rw [← Q.mentions_ren r c (hg c hc)]; exact hm'
      obtain ⟨m, hm, rfl⟩ := List.mem_map.1 hm''
      rw [Q.findAliasL_ren] at hw
      exact ih m hm w x hw hx
    · refine QE.eval_ren r (ctxV s vf) (ctxV (s.map (Q.renC r)) vf) c v hR (hP c hc) (hg c hc) ?_ hev
      intro m _ x hx
      unfold ctxV at hx ⊢
      rw [Q.findAliasL_ren]
      exact hx

section steps
variable [DecidableEq D]

omit [DecidableEq D] in
/-- a schema-level step that renames aliases and mentions by `f` (aliases pairwise distinct afterwards), `r` an
admissible renaming with `R`, good for every constituent, that acts like `f` on the ALIASES of the store -/
theorem Inv.rename_on (hA : Lawful A) (hE : EvalLawful A E) (Q : Equivariance A) {R : Q.Ren → Prop}
    {P : Cst D → Prop} (QE : EvalEquivarianceOn A E Q R P) {st : St D I V} (h : Inv A E st)
    {sch' : SchemaGen.St D I} (hwf : SchemaGen.WF A sch') (hd : AliasesDistinct sch')
    (f : String → Option String) (hstore : sch'.store = st.sch.store.map (renCst A f))
    (r : Q.Ren) (hR : R r) (hP : ∀ c ∈ st.sch.store, P c) (hg : ∀ c ∈ st.sch.store, Q.Good r c)
    (hag : ∀ c ∈ st.sch.store, Q.app r c.alias = ren f c.alias) :
    Inv A E { st with sch := sch' } := by
  refine ⟨hwf, hd, ?_⟩
  intro w v hkw hvw
  obtain ⟨c', _, hc', hc'u, hc'k⟩ := kindOf_eq_some hkw
  have hc'' : c' ∈ st.sch.store.map (renCst A f) := by rw [← hstore]; exact hc'
  obtain ⟨c, hc, hAc⟩ := List.mem_map.1 hc''
  have hcu : c.uid = w := by rw [← hc'u, ← hAc]; rfl
  have hck : c.kind = .term := by rw [← hc'k, ← hAc]; rfl
  have hn := h.wf.base.nodup
  have hkw0 : st.kindOf w = some .term := by
    rw [← hcu, kindOf_of_mem hn hc, hck]
  have ht := h.val w v hkw0 hvw
  -- the store renamed by `r`
  have hn' : (uids (st.sch.store.map (Q.renC r))).Nodup := by rw [Q.uids_ren]; exact hn
  have ht' := ht.ren Q QE r hR hP hg
  have hcm : Q.renC r c ∈ st.sch.store.map (Q.renC r) := List.mem_map.2 ⟨c, hc, rfl⟩
  have hq : ∃ i, Val A (st.sch.store.map (Q.renC r)) w i := by
    rw [← hcu] at ht' ⊢
    exact TVal.val (c := Q.renC r c) hn' hcm hck ht'
  -- a constituent with a successful entry in the renamed store: `r` and `f` agree on its names
  have hagree : ∀ c1 ∈ st.sch.store, (∃ i, Val A (st.sch.store.map (Q.renC r)) c1.uid i) →
      ∀ m ∈ A.mentions c1.defn, ∃ c3 ∈ st.sch.store, c3.alias = m ∧
        findAliasL (st.sch.store.map (Q.renC r)) (Q.app r m) = some c3.uid := by
    rintro c1 hc1 ⟨i, hv⟩ m hm
    have hres := Val.resolved hE hn' (c := Q.renC r c1) (List.mem_map.2 ⟨c1, hc1, rfl⟩) hv (Q.app r m) (by
      show Q.app r m ∈ A.mentions (Q.renD r c1.defn)
      rw [Q.mentions_ren r c1 (hg c1 hc1)]
      exact List.mem_map.2 ⟨m, hm, rfl⟩)
    obtain ⟨w0, _, hw0, _⟩ := hres
    have hw0' := hw0
    rw [Q.findAliasL_ren] at hw0'
    obtain ⟨c3, hc3, hc3u, hc3a⟩ := findAliasL_mem hw0'
    exact ⟨c3, hc3, hc3a, by rw [hw0, hc3u]⟩
  have hsame : ∀ c1 ∈ st.sch.store, (∃ i, Val A (st.sch.store.map (Q.renC r)) c1.uid i) →
      Q.renC r c1 = renCst A f c1 := by
    intro c1 hc1 hv
    unfold Equivariance.renC renCst
    rw [hag c1 hc1, Q.rename_eq r f c1 (hg c1 hc1) (fun n hn' => by
      obtain ⟨c3, hc3, hc3a, _⟩ := hagree c1 hc1 hv n hn'
      rw [← hc3a]
      exact (hag c3 hc3).symm)]
  refine TVal.transfer_id hA hE hn' (fun u => ∃ i, Val A (st.sch.store.map (Q.renC r)) u i) ?_ ?_
    (fun _ _ _ _ => rfl) ht' hq
  · intro c1' hc1' hv
    obtain ⟨c1, hc1, rfl⟩ := List.mem_map.1 hc1'
    show Q.renC r c1 ∈ sch'.store
    rw [hstore, hsame c1 hc1 hv]
    exact List.mem_map.2 ⟨c1, hc1, rfl⟩
  · intro c1' hc1' hv m' hm' w' hw'
    obtain ⟨c1, hc1, rfl⟩ := List.mem_map.1 hc1'
    have hm'' : m' ∈ (A.mentions c1.defn).map (Q.app r) := by
      rw [← Q.mentions_ren r c1 (hg c1 hc1)]; exact hm'
    obtain ⟨m, hm, rfl⟩ := List.mem_map.1 hm''
    obtain ⟨c3, hc3, hc3a, hf3⟩ := hagree c1 hc1 hv m hm
    rw [hf3] at hw'
    have e : c3.uid = w' := Option.some.inj hw'
    obtain ⟨i, hvi⟩ := hv
    obtain ⟨w0, j, hw0, hvj⟩ := Val.resolved hE hn' (c := Q.renC r c1) (List.mem_map.2 ⟨c1, hc1, rfl⟩) hvi
      (Q.app r m) hm'
    rw [hf3] at hw0
    have e0 : c3.uid = w0 := Option.some.inj hw0
    refine ⟨?_, ⟨j, by rw [← e, e0]; exact hvj⟩⟩
    have hmem3 : renCst A f c3 ∈ sch'.store := by rw [hstore]; exact List.mem_map.2 ⟨c3, hc3, rfl⟩
    have := findAliasL_of_distinct hd hmem3
    have e1 : (renCst A f c3).alias = Q.app r m := by
      show ren f c3.alias = _
      rw [← hag c3 hc3, hc3a]
    have e2 : (renCst A f c3).uid = w' := e
    rw [e1, e2] at this
    exact this

omit [DecidableEq D] in
/-- the carrier hypothesis at a renaming step gives the renaming -/
theorem Inv.rename_carrier (hA : Lawful A) (hE : EvalLawful A E) (Q : Equivariance A) {R : Q.Ren → Prop}
    {P : Cst D → Prop} (QE : EvalEquivarianceOn A E Q R P) (C : RenCarrier A Q R P) {st : St D I V}
    (h : Inv A E st) {sch' : SchemaGen.St D I} (hwf : SchemaGen.WF A sch') (hd : AliasesDistinct sch')
    (f : String → Option String) (hstore : sch'.store = st.sch.store.map (renCst A f))
    (hP : ∀ c ∈ st.sch.store, P c) (hP' : ∀ c ∈ sch'.store, P c) : Inv A E { st with sch := sch' } := by
  have hd' : (st.sch.store.map fun c => ren f c.alias).Nodup := by
    have : (sch'.store.map (·.alias)).Nodup := hd
    rw [hstore, List.map_map] at this
    exact this
  obtain ⟨r, hR, hg, hag⟩ := C.adm st.sch.store f hP
    (fun c hc => hP' _ (by rw [hstore]; exact List.mem_map.2 ⟨c, hc, rfl⟩)) h.dist hd'
  exact h.rename_on hA hE Q QE hwf hd f hstore r hR hP hg hag

theorem Inv.setAliasTrue_on (hA : Lawful A) (hE : EvalLawful A E) (Q : Equivariance A) {R : Q.Ren → Prop}
    {P : Cst D → Prop} (QE : EvalEquivarianceOn A E Q R P) (C : RenCarrier A Q R P) {st : St D I V}
    (h : Inv A E st) (u : Nat) (a : String)
    (hd : AliasesDistinct (RSModelGen.step A E st (.schema (.setAlias u a true))).sch)
    (hP : ∀ c ∈ st.sch.store, P c)
    (hP' : ∀ c ∈ (RSModelGen.step A E st (.schema (.setAlias u a true))).sch.store, P c) :
    Inv A E (RSModelGen.step A E st (.schema (.setAlias u a true))) := by
  have e0 : RSModelGen.step A E st (.schema (.setAlias u a true)) =
      { st with sch := SchemaGen.step A st.sch (.setAlias u a true) } := rfl
  rw [e0] at hd hP' ⊢
  have hwf' : SchemaGen.WF A (SchemaGen.step A st.sch (.setAlias u a true)) := h.wf.setAlias hA u a true
  cases hat : st.sch.at u with
  | none =>
    have e : SchemaGen.step A st.sch (.setAlias u a true) = st.sch := by
      unfold SchemaGen.step; simp only; rw [hat]
    rw [e]; exact h
  | some c =>
    by_cases hne : c.alias = a
    · have e : SchemaGen.step A st.sch (.setAlias u a true) = st.sch := by
        unfold SchemaGen.step; simp only; rw [hat]; simp only; rw [if_pos hne]
      rw [e]; exact h
    · have hst := setAlias_spec hA h.wf true hat hne
      obtain ⟨hc, hcu⟩ := mem_of_at hat
      have hn := h.wf.base.nodup
      generalize SchemaGen.step A st.sch (.setAlias u a true) = sch' at hd hwf' hst hP' ⊢
      have hd0 : AliasesDistinct sch' := hd
      have hal := setAl_facts hn h.dist hc hcu a
      simp only [if_true] at hst
      rw [List.map_map] at hst
      refine h.rename_carrier hA hE Q QE C hwf' hd0 (fun n => if n == c.alias then some a else none) ?_ hP hP'
      rw [hst]
      apply List.map_congr_left
      intro c1 hc1
      obtain ⟨b1, b2, b3, b4, _⟩ := hal c1 hc1
      simp only [Function.comp]
      unfold renDef renCst
      rw [b3]
      have : (setAl u a c1) = { c1 with alias := (setAl u a c1).alias } := by
        cases hx : setAl u a c1 with
        | mk u' a' k' d' =>
          rw [hx] at b1 b2 b3
          simp only at b1 b2 b3
          subst b1; subst b2; subst b3
          rfl
      rw [this, b4, ren_setAlias]

theorem Inv.substitute_on (hA : Lawful A) (hE : EvalLawful A E) (Q : Equivariance A) {R : Q.Ren → Prop}
    {P : Cst D → Prop} (QE : EvalEquivarianceOn A E Q R P) (C : RenCarrier A Q R P) {st : St D I V}
    (h : Inv A E st) (m : List (String × String))
    (hd : AliasesDistinct (RSModelGen.step A E st (.schema (.substitute m))).sch)
    (hP : ∀ c ∈ st.sch.store, P c)
    (hP' : ∀ c ∈ (RSModelGen.step A E st (.schema (.substitute m))).sch.store, P c) :
    Inv A E (RSModelGen.step A E st (.schema (.substitute m))) := by
  have e0 : RSModelGen.step A E st (.schema (.substitute m)) =
      { st with sch := SchemaGen.step A st.sch (.substitute m) } := rfl
  rw [e0] at hd hP' ⊢
  have hwf' : SchemaGen.WF A (SchemaGen.step A st.sch (.substitute m)) := h.wf.substitute hA m
  have hb : Base ({ st.sch with invalid := true, store := st.sch.store.map (fun (x : Cst D) =>
      { x with alias := (lookup m x.alias).getD x.alias }) } : SchemaGen.St D I) :=
    h.wf.base.of_eq (uids_map_pres (fun (x : Cst D) =>
      { x with alias := (lookup m x.alias).getD x.alias }) (fun x => rfl) st.sch.store) rfl
  have hst : (SchemaGen.step A st.sch (.substitute m)).store =
      (st.sch.store.map (fun (x : Cst D) => { x with alias := (lookup m x.alias).getD x.alias })).map
        (renDef A (lookup m)) := by
    unfold SchemaGen.step
    simp only
    rw [translateAll_store hA hb rfl]
  generalize SchemaGen.step A st.sch (.substitute m) = sch' at hd hwf' hst hP' ⊢
  rw [List.map_map] at hst
  exact h.rename_carrier hA hE Q QE C hwf' hd (lookup m) hst hP hP'

/-- no `SetAliasFor(…, substitute = false)` -/
def NoPlainRename : Op D V → Prop
  | .schema (.setAlias _ _ false) => False
  | _ => True

instance (op : Op D V) : Decidable (NoPlainRename op) := by
  unfold NoPlainRename
  split <;> infer_instance

theorem Inv.step_on (hA : Lawful A) (hE : EvalLawful A E) (Q : Equivariance A) {R : Q.Ren → Prop}
    {P : Cst D → Prop} (QE : EvalEquivarianceOn A E Q R P) (C : RenCarrier A Q R P) {st : St D I V}
    (h : Inv A E st) {op : Op D V} (ha : AdmissibleAll A E st op) (hnp : NoPlainRename op)
    (hP : ∀ c ∈ st.sch.store, P c) (hP' : ∀ c ∈ (RSModelGen.step A E st op).sch.store, P c) :
    Inv A E (RSModelGen.step A E st op) := by
  cases op with
  | schema sop =>
    cases sop with
    | insert c => exact h.insert hA hE c ha
    | load c => exact ha.elim
    | updateState => exact h.updateState hA
    | erase u => exact h.erase hA hE u
    | setDef u d => exact h.setDef hA hE u d
    | setAlias u a sb =>
      cases sb with
      | true => exact h.setAliasTrue_on hA hE Q QE C u a ha hP hP'
      | false => exact hnp.elim
    | substitute m => exact h.substitute_on hA hE Q QE C m ha hP hP'
  | setBase u v => exact h.setBase hA hE u v
  | calculate u => exact h.calculate hA hE u
  | recalculateAll => exact h.recalculateAll hA hE

theorem Inv.foldl_on (hA : Lawful A) (hE : EvalLawful A E) (Q : Equivariance A) {R : Q.Ren → Prop}
    {P : Cst D → Prop} (QE : EvalEquivarianceOn A E Q R P) (C : RenCarrier A Q R P) (ops : List (Op D V)) :
    ∀ st : St D I V, Inv A E st → AdmissibleAllFrom A E st ops → (∀ op ∈ ops, NoPlainRename op) →
      (∀ k, ∀ c ∈ ((ops.take k).foldl (RSModelGen.step A E) st).sch.store, P c) →
      Inv A E (ops.foldl (RSModelGen.step A E) st) := by
  induction ops with
  | nil => intro st h _ _ _; exact h
  | cons op ops ih =>
    intro st h ha hnp hP
    rw [List.foldl_cons]
    have hP0 : ∀ c ∈ st.sch.store, P c := by
      have := hP 0
      rw [List.take_zero, List.foldl_nil] at this
      exact this
    have hP1 : ∀ c ∈ (RSModelGen.step A E st op).sch.store, P c := by
      have := hP 1
      rw [List.take_succ_cons, List.take_zero, List.foldl_cons, List.foldl_nil] at this
      exact this
    refine ih _ (h.step_on hA hE Q QE C ha.1 (hnp op (List.mem_cons_self ..)) hP0 hP1) ha.2
      (fun o ho => hnp o (List.mem_cons_of_mem _ ho)) (fun k => ?_)
    have := hP (k + 1)
    rw [List.take_succ_cons, List.foldl_cons] at this
    exact this

/-- **C11 on a carrier**: every history of insertions, erasures, definition edits, `UpdateState`, data edits,
`Calculate`, `RecalculateAll`, `SetAliasFor(…, substitute = true)` and `SubstitueAliases` that is admissible
(aliases stay pairwise distinct) and along which every stored constituent is in the carrier keeps the
invariant of C11 -/
theorem Inv.run_on (hA : Lawful A) (hE : EvalLawful A E) (Q : Equivariance A) {R : Q.Ren → Prop}
    {P : Cst D → Prop} (QE : EvalEquivarianceOn A E Q R P) (C : RenCarrier A Q R P) {ops : List (Op D V)}
    (ha : AdmissibleAllFrom A E {} ops) (hnp : ∀ op ∈ ops, NoPlainRename op)
    (hP : ∀ k, ∀ c ∈ (RSModelGen.run A E (ops.take k)).sch.store, P c) :
    Inv A E (RSModelGen.run A E ops) :=
  Inv.foldl_on hA hE Q QE C ops {} Inv.init ha hnp hP

end steps

end CCVerif.RSModelGen
