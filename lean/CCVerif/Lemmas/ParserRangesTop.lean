import CCVerif.Lemmas.ParserRanges
set_option linter.unusedVariables false
set_option linter.unusedSectionVars false
/-!
Helper lemmas of C06, part 2 — the step of `primary` (all constructs that start with a non-operator
token), the induction on the fuel, and the entry points of the parser.
-/
namespace CCVerif.ParserRanges
open CCVerif.Syntax CCVerif.Generated CCVerif.Lexer CCVerif.Parser

variable {δ : Int}

section steps
variable (hδ : 0 ≤ δ)
include hδ

theorem step_primary (f : Nat) (ih : ParserNest δ f) :
    ∀ toks k e r p, Sorted δ p toks → primary (f + 1) toks = some (k, e, r) → Nest δ e ∧ p ≤ e.lo ∧ Sorted δ e.hi r := by
  intro toks k e r p ht h
  rw [primary.eq_def] at h; parser_cases h
  all_goals try (cases h; done)
  all_goals cases h
  all_goals nest_close2


theorem parserNest_succ (f : Nat) (ih : ParserNest δ f) : ParserNest δ (f + 1) where
  enumE := fun toks p h => resL_intro fun es r he => step_enumE hδ f ih toks es r p h he
  enumTail := fun acc toks p h => resL_intro fun es r he => step_enumTail hδ f ih acc toks es r p h he
  varE := fun toks p h => resV_intro fun v r he => step_varE hδ f ih toks v r p h he
  varPackTail := fun acc toks p h => resL_intro fun es r he => step_varPackTail hδ f ih acc toks es r p h he
  argDecls := fun acc toks p h => resL_intro fun es r he => step_argDecls hδ f ih acc toks es r p h he
  blocks := fun acc toks p h => resL_intro fun es r he => step_blocks hδ f ih acc toks es r p h he
  primary := fun toks p h => resT_intro fun k e r he => step_primary hδ f ih toks k e r p h he
  setE := fun m toks p h => resT_intro fun k e r he => step_setE hδ f ih m toks k e r p h he
  setLoop := fun m k lhs toks h1 h2 => resT_intro fun k' e r he => step_setLoop hδ f ih m k lhs toks k' e r h1 h2 he
  predE := fun toks p h => resT_intro fun k e r he => step_predE hδ f ih toks k e r p h he
  logE := fun m toks p h => resT_intro fun k e r he => step_logE hδ f ih m toks k e r p h he
  logLoop := fun m k lhs toks h1 h2 => resT_intro fun k' e r he => step_logLoop hδ f ih m k lhs toks k' e r h1 h2 he

/-- **the invariant of the whole recursive-descent parser**, every fuel -/
theorem parserNest : ∀ f : Nat, ParserNest δ f
  | 0 => parserNest_zero
  | f + 1 => parserNest_succ hδ f (parserNest f)

/-! ## the entry points -/

theorem nest_logicOrSet (f : Nat) (toks : Toks) (e : Ast) (r : Toks) (p : Int) (ht : Sorted δ p toks)
    (h : logicOrSet f toks = some (e, r)) : Nest δ e ∧ p ≤ e.lo ∧ Sorted δ e.hi r := by
  have ih := parserNest hδ f
  unfold logicOrSet at h; parser_cases h
  all_goals try (cases h; done)
  all_goals cases h
  all_goals nest_close2

theorem nest_noDeclaration (f : Nat) (toks : Toks) (e : Ast) (r : Toks) (p : Int) (ht : Sorted δ p toks)
    (h : noDeclaration f toks = some (e, r)) : Nest δ e ∧ p ≤ e.lo ∧ Sorted δ e.hi r := by
  have ih := parserNest hδ f
  have i0 := nest_logicOrSet hδ f
  unfold noDeclaration at h; parser_cases h
  all_goals try (cases h; done)
  all_goals try (injection h with h; injection h with h1 h2; subst h1 h2)
  all_goals nest_close2

theorem nest_expression (f : Nat) (toks : Toks) (e : Ast) (p : Int) (ht : Sorted δ p toks)
    (h : expression f toks = some e) : Nest δ e ∧ p ≤ e.lo := by
  have i0 := nest_noDeclaration hδ f
  unfold expression at h; parser_cases h
  all_goals try (cases h; done)
  all_goals try (injection h with h; subst h)
  all_goals nest_close2

/-- **every tree returned by `parseToks` has nested, ordered, disjoint ranges, each `δ` wide at least,
whenever the tokens the parser sees (those before END or the first INTERRUPT) are laid out left to right,
each `δ` wide at least** -/
theorem nest_parseToks_body (ts : Toks) (t : Ast) (p : Int)
    (ht : Sorted δ p (ts.takeWhile (fun t => t.id != .END && t.id != .INTERRUPT))) (h : parseToks ts = some t) :
    Nest δ t ∧ p ≤ t.lo := by
  unfold parseToks at h
  simp only [] at h
  split at h
  · cases h
  · split at h
    · rename_i raw hraw
      split at h
      · obtain ⟨n1, n2⟩ := nest_expression hδ _ _ raw p ht hraw
        obtain ⟨m1, m2, m3⟩ := nest_stripBrackets hδ raw t n1 h
        exact ⟨m1, by omega⟩
      · cases h
    · cases h

theorem nest_parseToks (ts : Toks) (t : Ast) (p : Int) (ht : Sorted δ p ts) (h : parseToks ts = some t) :
    Nest δ t ∧ p ≤ t.lo :=
  nest_parseToks_body hδ ts t p (sorted_takeWhile _ ht) h

end steps

end CCVerif.ParserRanges
