import CCVerif.Lemmas.CheckerFrame
/-!
The frame property of the type checker over the VISITED globals only (`usedGlobals`, see
`Lemmas/CheckerFrame.lean`): every rule calls the recursive visitor only on children at the indices
`visitedIdx` (in failing runs on a subset of them), so two contexts that agree on the names at those
positions give the same run.

* `AgreeAt`, the index-wise congruence lemmas `*_congrI`, `dispatch_congrI`;
* `used_iff_mem : Used n a ↔ n ∈ usedGlobals a`;
* `visit_frame_used`, `checkWithFuel_frame_used`, `check_frame_used`;
* `check_restrict_used` — the context cut down to `usedGlobals e`.
-/
namespace CCVerif.Checker
open CCVerif.Syntax CCVerif.Types

/-! ## `Used n a ↔ n ∈ usedGlobals a` -/

theorem mem_usedGlobalsList {n : String} (a : Ast) : ∀ (ks : List Ast) (i j : Nat) (k : Ast),
    ks[j]? = some k → visitedIdx a (i + j) = true → n ∈ usedGlobals k → n ∈ usedGlobalsList a i ks
  | [], _, _, _, hk, _, _ => by simp at hk
  | k' :: ks, i, 0, k, hk, hv, hn => by
    simp only [List.getElem?_cons_zero, Option.some.injEq] at hk
    subst hk
    simp only [usedGlobalsList, List.mem_append]
    left
    rw [Nat.add_zero] at hv
    simp [hv, hn]
  | k' :: ks, i, j+1, k, hk, hv, hn => by
    simp only [List.getElem?_cons_succ] at hk
    simp only [usedGlobalsList, List.mem_append]
    right
    exact mem_usedGlobalsList a ks (i + 1) j k hk (by rw [← hv]; congr 1; omega) hn

theorem usedGlobals_kid {a k : Ast} {i : Nat} {n : String} (hk : a.kid i = some k)
    (hv : visitedIdx a i = true) (hn : n ∈ usedGlobals k) : n ∈ usedGlobals a := by
  cases a with
  | node id d lo hi ks =>
    simp only [usedGlobals, List.mem_append]
    right
    exact mem_usedGlobalsList _ ks 0 i k hk (by rw [Nat.zero_add]; exact hv) hn

theorem usedGlobals_self {a : Ast} {s : String} (hg : IsGlobalId a.id) (hd : a.data = .text s) :
    s ∈ usedGlobals a := by
  cases a with
  | node id d lo hi ks =>
    simp only [Ast.id, Ast.data] at hg hd
    subst hd
    simp [usedGlobals, hg, dataText]

theorem usedGlobals_call {a k0 : Ast} {s : String} (hc : a.id = .NT_FUNC_CALL)
    (hk : a.kid 0 = some k0) (hd : k0.data = .text s) : s ∈ usedGlobals a := by
  cases a with
  | node id d lo hi ks =>
    simp only [Ast.id] at hc
    subst hc
    cases ks with
    | nil => simp [Ast.kid, Ast.kids] at hk
    | cons k ks =>
      simp [Ast.kid, Ast.kids] at hk
      subst hk
      simp [usedGlobals, headText, hd, dataText]

theorem mem_of_used {n : String} {a : Ast} (h : Used n a) : n ∈ usedGlobals a := by
  induction h with
  | self hg hd => exact usedGlobals_self hg hd
  | call hc hk hd => exact usedGlobals_call hc hk hd
  | kid hk hv _ ih => exact usedGlobals_kid hk hv ih

theorem used_iff_mem {n : String} {a : Ast} : Used n a ↔ n ∈ usedGlobals a :=
  ⟨mem_of_used, used_of_mem a⟩

/-! ## index-wise congruence -/

/-- the two visitors agree on child `i` of `a` -/
def AgreeAt (v v' : Visitor) (a : Ast) (i : Nat) : Prop := ∀ k, a.kid i = some k → ∀ p, v p k = v' p k

theorem Agree.of_at {v v' : Visitor} {a : Ast} (h : ∀ i, AgreeAt v v' a i) : Agree v v' a := by
  intro k hk p s
  obtain ⟨i, hi⟩ := List.getElem?_of_mem hk
  rw [h i k hi p]

section congrI
variable {Γ Γ' : Ctx} {v v' : Visitor} {a : Ast} {i : Nat}

theorem visitChild_congrI (h : AgreeAt v v' a i) : visitChild v a i = visitChild v' a i := by
  unfold visitChild kidM
  cases hk : a.kid i with
  | none => rfl
  | some k => simp only [bind_pure_left]; exact h k hk _

theorem childType_congrI (h : AgreeAt v v' a i) : childType v a i = childType v' a i := by
  unfold childType kidM
  cases hk : a.kid i with
  | none => rfl
  | some k => simp only [bind_pure_left, h k hk]

theorem childTypeDebool_congrI (h : AgreeAt v v' a i) (eid : Nat) (b : Bool) :
    childTypeDebool v a i eid b = childTypeDebool v' a i eid b := by
  unfold childTypeDebool; rw [childType_congrI h]

theorem visitChildDecl_congrI (h : AgreeAt v v' a i) (d : Ty) :
    visitChildDecl v a i d = visitChildDecl v' a i d := by
  unfold visitChildDecl; rw [visitChild_congrI h]

theorem checkArgsGo_congrI (htr : Γ.traits = Γ'.traits) (fn : String) :
    ∀ (n : Nat) (decl : List (String × Ty)) (child : Nat) (subs : Subst),
      (∀ j, child ≤ j → AgreeAt v v' a j) →
      checkArgsGo Γ v a fn n decl child subs = checkArgsGo Γ' v' a fn n decl child subs
  | 0, _, _, _, _ => rfl
  | n+1, decl, child, subs, h => by
    simp only [checkArgsGo, childType_congrI (h child (Nat.le_refl _)), htr,
      checkArgsGo_congrI htr fn n _ (child + 1) _ (fun j hj => h j (by omega))]

theorem checkFuncArguments_congrI (h : ∀ j, 1 ≤ j → AgreeAt v v' a j) (htr : Γ.traits = Γ'.traits)
    {fn : String} (hf : lookup Γ.funcs fn = lookup Γ'.funcs fn) :
    checkFuncArguments Γ v a fn = checkFuncArguments Γ' v' a fn := by
  unfold checkFuncArguments
  simp only [hf, checkArgsGo_congrI htr fn _ _ 1 _ h]

theorem viFunctionCall_congrI (h : ∀ j, 1 ≤ j → AgreeAt v v' a j) (htr : Γ.traits = Γ'.traits)
    (hc : ∀ k0 s, a.kid 0 = some k0 → k0.data = .text s →
      lookup Γ.types s = lookup Γ'.types s ∧ lookup Γ.funcs s = lookup Γ'.funcs s) :
    viFunctionCall Γ v a = viFunctionCall Γ' v' a := by
  unfold viFunctionCall kidM
  cases hk : a.kid 0 with
  | none => rfl
  | some k0 =>
    simp only [bind_pure_left]
    unfold textOf
    cases hd : k0.data with
    | text s =>
      simp only [bind_pure_left]
      obtain ⟨h1, h2⟩ := hc k0 s hk hd
      rw [h1, checkFuncArguments_congrI h htr h2]
    | none => rfl
    | int _ => rfl
    | tuple _ => rfl

theorem recursionRounds_congrI (te : TraitEnv) (h0 : AgreeAt v v' a 0) {idx : Nat} (hx : AgreeAt v v' a idx) :
    ∀ (n : Nat) (it : Ty), recursionRounds te v a idx n it = recursionRounds te v' a idx n it
  | 0, _ => rfl
  | n+1, it => by
    simp only [recursionRounds, visitChildDecl_congrI h0, childType_congrI hx,
      recursionRounds_congrI te h0 hx n]

theorem viGlobalDeclaration_congrI
    (h : (a.id == .PUNC_STRUCT || a.kids.length != 1) = true → AgreeAt v v' a 1) :
    viGlobalDeclaration v a = viGlobalDeclaration v' a := by
  unfold viGlobalDeclaration
  split
  · rename_i h1
    simp only [childType_congrI (h (by simp [h1]))]
  · split
    · rfl
    · rename_i h2
      have : (a.kids.length != 1) = true := by simpa using h2
      simp only [childType_congrI (h (by simp [this]))]

theorem viFunctionDefinition_congrI (h0 : AgreeAt v v' a 0) (h1 : AgreeAt v v' a 1) :
    viFunctionDefinition v a = viFunctionDefinition v' a := by
  unfold viFunctionDefinition; simp only [childType_congrI h1, visitChild_congrI h0]

theorem viArgument_congrI (h0 : AgreeAt v v' a 0) (h1 : AgreeAt v v' a 1) :
    viArgument v a = viArgument v' a := by
  unfold viArgument; simp only [childTypeDebool_congrI h1, visitChild_congrI h0]

theorem viCard_congrI (h0 : AgreeAt v v' a 0) : viCard v a = viCard v' a := by
  unfold viCard; simp only [childTypeDebool_congrI h0]

theorem viArithmetic_congrI (h0 : AgreeAt v v' a 0) (h1 : AgreeAt v v' a 1)
    (htr : Γ.traits = Γ'.traits) : viArithmetic Γ v a = viArithmetic Γ' v' a := by
  unfold viArithmetic; simp only [childType_congrI h0, childType_congrI h1, htr]

theorem viIntegerPredicate_congrI (h0 : AgreeAt v v' a 0) (h1 : AgreeAt v v' a 1)
    (htr : Γ.traits = Γ'.traits) : viIntegerPredicate Γ v a = viIntegerPredicate Γ' v' a := by
  unfold viIntegerPredicate; simp only [childType_congrI h0, childType_congrI h1, htr]

theorem viQuantifier_congrI (h0 : AgreeAt v v' a 0) (h1 : AgreeAt v v' a 1) (h2 : AgreeAt v v' a 2) :
    viQuantifier v a = viQuantifier v' a := by
  unfold viQuantifier
  simp only [childTypeDebool_congrI h1, visitChildDecl_congrI h0, visitChild_congrI h2]

theorem viEquals_congrI (h0 : AgreeAt v v' a 0) (h1 : AgreeAt v v' a 1)
    (htr : Γ.traits = Γ'.traits) : viEquals Γ v a = viEquals Γ' v' a := by
  unfold viEquals; simp only [childType_congrI h0, childType_congrI h1, htr]

theorem viSetexprPredicate_congrI (h0 : AgreeAt v v' a 0) (h1 : AgreeAt v v' a 1)
    (htr : Γ.traits = Γ'.traits) : viSetexprPredicate Γ v a = viSetexprPredicate Γ' v' a := by
  unfold viSetexprPredicate; simp only [childTypeDebool_congrI h1, childType_congrI h0, htr]

theorem viDeclarative_congrI (h0 : AgreeAt v v' a 0) (h1 : AgreeAt v v' a 1) (h2 : AgreeAt v v' a 2) :
    viDeclarative v a = viDeclarative v' a := by
  unfold viDeclarative
  simp only [childTypeDebool_congrI h1, visitChildDecl_congrI h0, visitChild_congrI h2]

theorem viIterate_congrI (h0 : AgreeAt v v' a 0) (h1 : AgreeAt v v' a 1) :
    viIterate v a = viIterate v' a := by
  unfold viIterate; simp only [childTypeDebool_congrI h1, visitChildDecl_congrI h0]

theorem viAssign_congrI (h0 : AgreeAt v v' a 0) (h1 : AgreeAt v v' a 1) :
    viAssign v a = viAssign v' a := by
  unfold viAssign; simp only [childType_congrI h1, visitChildDecl_congrI h0]

theorem viRecursion_congrI (h0 : AgreeAt v v' a 0) (h1 : AgreeAt v v' a 1) (h2 : AgreeAt v v' a 2)
    (h3 : (a.id == .NT_RECURSIVE_FULL) = true → AgreeAt v v' a 3) (htr : Γ.traits = Γ'.traits) :
    viRecursion Γ v a = viRecursion Γ' v' a := by
  unfold viRecursion
  have hx : AgreeAt v v' a (if (a.id == .NT_RECURSIVE_FULL) = true then 3 else 2) := by
    split
    · rename_i hfull; exact h3 hfull
    · exact h2
  simp only [childType_congrI h1, visitChildDecl_congrI h0, visitChild_congrI h2,
    childType_congrI hx, recursionRounds_congrI _ h0 hx, htr]

theorem viBoolean_congrI (h0 : AgreeAt v v' a 0) : viBoolean v a = viBoolean v' a := by
  unfold viBoolean; simp only [childTypeDebool_congrI h0]

theorem viDebool_congrI (h0 : AgreeAt v v' a 0) : viDebool v a = viDebool v' a := by
  unfold viDebool; simp only [childTypeDebool_congrI h0]

theorem viSetexprBinary_congrI (h0 : AgreeAt v v' a 0) (h1 : AgreeAt v v' a 1)
    (htr : Γ.traits = Γ'.traits) : viSetexprBinary Γ v a = viSetexprBinary Γ' v' a := by
  unfold viSetexprBinary; simp only [childTypeDebool_congrI h0, childTypeDebool_congrI h1, htr]

theorem viProjectSet_congrI (h0 : AgreeAt v v' a 0) : viProjectSet v a = viProjectSet v' a := by
  unfold viProjectSet; simp only [childTypeDebool_congrI h0]

theorem viProjectTuple_congrI (h0 : AgreeAt v v' a 0) : viProjectTuple v a = viProjectTuple v' a := by
  unfold viProjectTuple; simp only [childType_congrI h0]

theorem viReduce_congrI (h0 : AgreeAt v v' a 0) : viReduce v a = viReduce v' a := by
  unfold viReduce; simp only [childType_congrI h0]

end congrI

section
attribute [local irreducible] viGlobal viLocal viRadical viFunctionDefinition viFunctionCall viEmptySet
  viTupleDeclaration viAllLogic viArgument viArithmetic viCard viQuantifier viEquals
  viIntegerPredicate viSetexprPredicate viIterate viAssign viDeclarative viImperative viDecart
  viBoolean viRecursion viTuple viEnumeration viDebool viSetexprBinary viProjectSet viProjectTuple
  viFilter viReduce viGlobalDeclaration

/-- `DispatchVisit` uses the recursive visitor only at the children `visitedIdx` -/
theorem dispatch_congrI {Γ Γ' : Ctx} {v v' : Visitor} {a : Ast}
    (h : ∀ i, visitedIdx a i = true → AgreeAt v v' a i) (htr : Γ.traits = Γ'.traits)
    (hty : Γ.isTypification = Γ'.isTypification)
    (hg : IsGlobalId a.id → ∀ s, a.data = .text s →
      lookup Γ.types s = lookup Γ'.types s ∧ lookup Γ.funcs s = lookup Γ'.funcs s)
    (hc : a.id = .NT_FUNC_CALL → ∀ k0 s, a.kid 0 = some k0 → k0.data = .text s →
      lookup Γ.types s = lookup Γ'.types s ∧ lookup Γ.funcs s = lookup Γ'.funcs s)
    (parent : Option Tok) :
    dispatch Γ v parent a = dispatch Γ' v' parent a := by
  unfold dispatch
  unfold visitedIdx at h
  revert h
  generalize hid : a.id = t
  cases t
  all_goals (dsimp only; intro h; first
    | rfl
    | exact viGlobal_congr parent (hg (by rw [hid]; simp [IsGlobalId]))
    | exact viFunctionCall_congrI (fun j hj => h j (decide_eq_true hj)) htr (hc hid)
    | exact viRadical_congr hty
    | exact viTupleDeclaration_congr (Agree.of_at fun i => h i rfl)
    | exact viAllLogic_congr (Agree.of_at fun i => h i rfl)
    | exact viImperative_congr (Agree.of_at fun i => h i rfl)
    | exact viDecart_congr (Agree.of_at fun i => h i rfl)
    | exact viTuple_congr (Agree.of_at fun i => h i rfl)
    | exact viEnumeration_congr (Agree.of_at fun i => h i rfl) htr
    | exact viFilter_congr (Agree.of_at fun i => h i rfl) htr
    | exact viCard_congrI (h 0 (by decide)) | exact viBoolean_congrI (h 0 (by decide))
    | exact viDebool_congrI (h 0 (by decide)) | exact viProjectSet_congrI (h 0 (by decide))
    | exact viProjectTuple_congrI (h 0 (by decide)) | exact viReduce_congrI (h 0 (by decide))
    | exact viFunctionDefinition_congrI (h 0 (by decide)) (h 1 (by decide))
    | exact viArgument_congrI (h 0 (by decide)) (h 1 (by decide))
    | exact viArithmetic_congrI (h 0 (by decide)) (h 1 (by decide)) htr
    | exact viEquals_congrI (h 0 (by decide)) (h 1 (by decide)) htr
    | exact viIntegerPredicate_congrI (h 0 (by decide)) (h 1 (by decide)) htr
    | exact viSetexprPredicate_congrI (h 0 (by decide)) (h 1 (by decide)) htr
    | exact viIterate_congrI (h 0 (by decide)) (h 1 (by decide))
    | exact viAssign_congrI (h 0 (by decide)) (h 1 (by decide))
    | exact viSetexprBinary_congrI (h 0 (by decide)) (h 1 (by decide)) htr
    | exact viQuantifier_congrI (h 0 (by decide)) (h 1 (by decide)) (h 2 (by decide))
    | exact viDeclarative_congrI (h 0 (by decide)) (h 1 (by decide)) (h 2 (by decide))
    | exact viRecursion_congrI (h 0 (by decide)) (h 1 (by decide)) (h 2 (by decide))
        (fun hf => absurd hf (by rw [hid]; decide)) htr
    | exact viRecursion_congrI (h 0 (by decide)) (h 1 (by decide)) (h 2 (by decide))
        (fun _ => h 3 (by decide)) htr
    | exact viGlobalDeclaration_congrI (fun hd => h 1 (by unfold declVisited; simpa using hd)))

end

/-! ## the frame theorem over the visited globals -/

theorem visit_frame_used {Γ Γ' : Ctx} (htr : Γ.traits = Γ'.traits)
    (hty : Γ.isTypification = Γ'.isTypification) :
    ∀ (fuel : Nat) (parent : Option Tok) (a : Ast) (s : St),
      (∀ n ∈ usedGlobals a, lookup Γ.types n = lookup Γ'.types n) →
      (∀ n ∈ usedGlobals a, lookup Γ.funcs n = lookup Γ'.funcs n) →
      visit Γ fuel parent a s = visit Γ' fuel parent a s
  | 0, _, _, _, _, _ => rfl
  | fuel+1, parent, a, s, ht, hf => by
    have hv : ∀ i, visitedIdx a i = true → AgreeAt (visit Γ fuel) (visit Γ' fuel) a i :=
      fun i hi k hk p => funext fun s' =>
        visit_frame_used htr hty fuel p k s'
          (fun n hn => ht n (usedGlobals_kid hk hi hn)) (fun n hn => hf n (usedGlobals_kid hk hi hn))
    show dispatch Γ (visit Γ fuel) parent a s = dispatch Γ' (visit Γ' fuel) parent a s
    rw [dispatch_congrI hv htr hty
      (fun hg s hd => ⟨ht s (usedGlobals_self hg hd), hf s (usedGlobals_self hg hd)⟩)
      (fun hc k0 s hk hd => ⟨ht s (usedGlobals_call hc hk hd), hf s (usedGlobals_call hc hk hd)⟩)]

theorem checkWithFuel_frame_used {Γ Γ' : Ctx} {e : Ast} (fuel : Nat)
    (ht : ∀ n ∈ usedGlobals e, lookup Γ.types n = lookup Γ'.types n)
    (hf : ∀ n ∈ usedGlobals e, lookup Γ.funcs n = lookup Γ'.funcs n)
    (htr : Γ.traits = Γ'.traits) (hty : Γ.isTypification = Γ'.isTypification) :
    checkWithFuel Γ fuel e = checkWithFuel Γ' fuel e := by
  unfold checkWithFuel
  rw [visit_frame_used htr hty fuel none e {} ht hf]

/-- FRAME over the visited positions: `check` reads the context only at `usedGlobals e` -/
theorem check_frame_used {Γ Γ' : Ctx} {e : Ast}
    (ht : ∀ n ∈ usedGlobals e, lookup Γ.types n = lookup Γ'.types n)
    (hf : ∀ n ∈ usedGlobals e, lookup Γ.funcs n = lookup Γ'.funcs n)
    (htr : Γ.traits = Γ'.traits) (hty : Γ.isTypification = Γ'.isTypification) :
    check Γ e = check Γ' e :=
  checkWithFuel_frame_used _ ht hf htr hty

theorem check_restrict_used (Γ : Ctx) (e : Ast) : check (Γ.restrict (usedGlobals e)) e = check Γ e :=
  check_frame_used (fun _ hn => lookup_filter _ hn _) (fun _ hn => lookup_filter _ hn _) rfl rfl

/-- the hypotheses are satisfiable with contexts that DIFFER at a global of the tree: the declared
name `D1` of `D1:==X1\X1` is typed differently in the two contexts -/
example :
    let e : Ast := .node .PUNC_DEFINE .none 0 12 [.node .ID_GLOBAL (.text "D1") 0 2 [],
      .node .SET_MINUS .none 5 10
        [.node .ID_GLOBAL (.text "X1") 5 7 [], .node .ID_GLOBAL (.text "X1") 8 10 []]]
    let Γ : Ctx := { types := [("X1", .ty (.coll (.base "X1")))] }
    let Γ' : Ctx := { types := [("D1", .logic), ("X1", .ty (.coll (.base "X1")))],
                      funcs := [("D1", [("a", Ty.Z)])] }
    "D1" ∈ globalsOf e ∧ lookup Γ.types "D1" ≠ lookup Γ'.types "D1" ∧
    (∀ n ∈ usedGlobals e, lookup Γ.types n = lookup Γ'.types n) ∧
    (∀ n ∈ usedGlobals e, lookup Γ.funcs n = lookup Γ'.funcs n) ∧
    (check Γ e).out = .ok (.ty (.coll (.base "X1"))) := by
  decide +kernel

end CCVerif.Checker
