import CCVerif.Model.Types
import CCVerif.Spec.Infer
/-!
Template instantiation: the checker's `CompareTemplated` over the mangled declared types
(`MangleRadicals`, substitution map keyed by the mangled names, `BindRadicals` for the any-type,
`SubstituteBase` on the mangled result) against the reference `matchArg` / `solve` / `instantiate`
of `Spec/Infer.lean` (constraints on the plain radicals, solved by merging).
(Helper lemmas for C03 `check_sound_partial1`, function calls.)
-/
namespace CCVerif.Types
open CCVerif.Spec

/-! ## base identifiers of a type -/

mutual
def basesT : Ty → List String
  | .base a => [a]
  | .coll b => basesT b
  | .tuple cs => basesL cs
def basesL : List Ty → List String
  | [] => []
  | c :: cs => basesT c ++ basesL cs
end

/-- radicals of a (declared) type -/
def radsT (t : Ty) : List String := (basesT t).filter isRadical
def radsL (ts : List Ty) : List String := (basesL ts).filter isRadical

/-- `v` mentions no mangled template parameter of the function `fn` -/
def NoMangled (fn : String) (v : Ty) : Prop := ∀ id ∈ basesT v, ∀ r, isRadical r = true → id ≠ r ++ fn
def NoMangledL (fn : String) (vs : List Ty) : Prop := ∀ id ∈ basesL vs, ∀ r, isRadical r = true → id ≠ r ++ fn

/-! ## strings -/

theorem isRadical_append {r : String} (fn : String) (h : isRadical r = true) : isRadical (r ++ fn) = true := by
  unfold isRadical at h ⊢
  rw [String.toList_append]
  cases hr : r.toList with
  | nil => rw [hr] at h; simp at h
  | cons x xs =>
    cases xs with
    | nil => rw [hr] at h; simp at h
    | cons c rest =>
      rw [hr] at h
      simp only [List.cons_append]
      split at h
      · rename_i c' _ heq
        simp only [List.cons.injEq] at heq
        obtain ⟨rfl, rfl, _⟩ := heq
        simpa using h
      · simp at h

theorem mangled_ne_of_not_radical {id r fn : String} (hid : isRadical id = false) (hr : isRadical r = true) :
    id ≠ r ++ fn := by
  intro e; rw [e, isRadical_append fn hr] at hid; cases hid

theorem mangled_inj {r1 r2 fn : String} : r1 ++ fn = r2 ++ fn ↔ r1 = r2 := String.append_left_inj fn

/-! ## `lookup` under the updates of the two algorithms -/

theorem lookup_append {α : Type} (l : List (String × α)) (a : String) (v : α) (k : String) :
    lookup (l ++ [(a, v)]) k = match lookup l k with
      | some u => some u
      | none => if (a == k) = true then some v else none := by
  induction l with
  | nil => simp [lookup]
  | cons p ps ih =>
    obtain ⟨k', v'⟩ := p
    simp only [List.cons_append, lookup]
    by_cases h : (k' == k) = true
    · simp [h]
    · simp only [h, Bool.false_eq_true, if_false]; exact ih

theorem lookup_set (s : Subst) (a : String) (m : Ty) (k : String) (h : (lookup s a).isSome = true) :
    lookup (Subst.set s a m) k = if a = k then some m else lookup s k := by
  induction s with
  | nil => simp [lookup] at h
  | cons p ps ih =>
    obtain ⟨k', v'⟩ := p
    simp only [Subst.set]
    by_cases h1 : (k' == a) = true
    · have e1 : k' = a := by simpa using h1
      subst e1
      simp only [h1, if_true, lookup]
      by_cases h2 : k' = k
      · subst h2; simp
      · have : (k' == k) = false := by simpa using h2
        simp [this, h2]
    · have hne : ¬ k' = a := by simpa using h1
      simp only [h1, Bool.false_eq_true, if_false, lookup]
      have h' : (lookup ps a).isSome = true := by
        simp only [lookup, h1, Bool.false_eq_true, if_false] at h; exact h
      by_cases h2 : (k' == k) = true
      · have e2 : k' = k := by simpa using h2
        subst e2
        have : ¬ a = k' := fun e => hne e.symm
        simp [this]
      · simp only [h2, Bool.false_eq_true, if_false]
        exact ih h'

theorem lookup_replace (σ : List (String × Ty)) (r : String) (m : Ty) (k : String) :
    lookup (σ.map fun p => if p.1 == r then (r, m) else p) k =
      if r = k then (lookup σ r).map (fun _ => m) else lookup σ k := by
  induction σ with
  | nil => simp [lookup]
  | cons p ps ih =>
    obtain ⟨k', v'⟩ := p
    simp only [List.map_cons]
    by_cases h1 : (k' == r) = true
    · have e1 : k' = r := by simpa using h1
      subst e1
      simp only [h1, if_true, lookup]
      by_cases h2 : k' = k
      · subst h2; simp
      · have : (k' == k) = false := by simpa using h2
        simp only [this, Bool.false_eq_true, if_false, h2]
        rw [ih]; simp [h2]
    · have hne : ¬ k' = r := by simpa using h1
      simp only [h1, Bool.false_eq_true, if_false, lookup]
      by_cases h2 : (k' == k) = true
      · have e2 : k' = k := by simpa using h2
        subst e2
        have : ¬ r = k' := fun e => hne e.symm
        simp [this]
      · simp only [h2, Bool.false_eq_true, if_false]
        rw [ih]

/-! ## mangling -/

def mangleId (fn : String) (id : String) : String := if isRadical id then id ++ fn else id

mutual
theorem bases_mangle (fn : String) : ∀ P : Ty, basesT (mangle fn P) = (basesT P).map (mangleId fn)
  | .base a => by
    simp only [mangle, basesT, List.map, mangleId]
    by_cases h : isRadical a = true <;> simp [h, basesT]
  | .coll b => by simp only [mangle, basesT]; exact bases_mangle fn b
  | .tuple cs => by simp only [mangle, basesT]; exact bases_mangleList fn cs
theorem bases_mangleList (fn : String) : ∀ Ps : List Ty, basesL (mangleList fn Ps) = (basesL Ps).map (mangleId fn)
  | [] => rfl
  | c :: cs => by
    simp only [mangleList, basesL, List.map_append]
    rw [bases_mangle fn c, bases_mangleList fn cs]
end

theorem mem_rads_mangled {fn r : String} {P : Ty} (h : r ∈ radsT P) :
    r ++ fn ∈ basesT (mangle fn P) ∧ isRadical (r ++ fn) = true := by
  unfold radsT at h
  rw [List.mem_filter] at h
  refine ⟨?_, isRadical_append fn h.2⟩
  rw [bases_mangle]
  exact List.mem_map.mpr ⟨r, h.1, by simp [mangleId, h.2]⟩

mutual
theorem mangle_id_of_norads (fn : String) : ∀ P : Ty, radsT P = [] → mangle fn P = P
  | .base a, h => by
    have : isRadical a = false := by
      cases hr : isRadical a with
      | false => rfl
      | true => simp [radsT, basesT, hr] at h
    simp [mangle, this]
  | .coll b, h => by simp only [mangle]; rw [mangle_id_of_norads fn b (by simpa [radsT, basesT] using h)]
  | .tuple cs, h => by
    simp only [mangle]; rw [mangleList_id_of_norads fn cs (by simpa [radsT, radsL, basesT] using h)]
theorem mangleList_id_of_norads (fn : String) : ∀ Ps : List Ty, radsL Ps = [] → mangleList fn Ps = Ps
  | [], _ => rfl
  | c :: cs, h => by
    have h' : radsT c = [] ∧ radsL cs = [] := by
      simpa [radsT, radsL, basesL, List.filter_append] using h
    simp only [mangleList]
    rw [mangle_id_of_norads fn c h'.1, mangleList_id_of_norads fn cs h'.2]
end

theorem mangleList_length (fn : String) : ∀ Ps : List Ty, (mangleList fn Ps).length = Ps.length
  | [] => rfl
  | _ :: cs => by simp [mangleList, mangleList_length fn cs]

/-! ## the invariant between the two substitutions -/

/-- the checker's map `s` (keys: mangled radicals) against the solution `σ` of the reference (keys:
radicals): same bindings, except that `s` may bind a radical the reference has no constraint for
to the any-type (`BindRadicals`) -/
structure Inv (fn : String) (s : Subst) (σ : List (String × Ty)) : Prop where
  strong : ∀ r u, isRadical r = true → lookup σ r = some u → lookup s (r ++ fn) = some u
  weak : ∀ r, isRadical r = true → lookup σ r = none → lookup s (r ++ fn) = none ∨ lookup s (r ++ fn) = some Ty.R0
  keys : ∀ id, isRadical id = false → lookup s id = none

def Mono (s s' : Subst) : Prop := ∀ k, lookup s k ≠ none → lookup s' k ≠ none
def Bound (fn : String) (s : Subst) (P : Ty) : Prop := ∀ r ∈ radsT P, lookup s (r ++ fn) ≠ none
def BoundL (fn : String) (s : Subst) (Ps : List Ty) : Prop := ∀ r ∈ radsL Ps, lookup s (r ++ fn) ≠ none

theorem Mono.refl (s : Subst) : Mono s s := fun _ h => h
theorem Mono.trans {a b c : Subst} (h1 : Mono a b) (h2 : Mono b c) : Mono a c := fun k h => h2 k (h1 k h)

theorem inv_nil (fn : String) : Inv fn [] [] :=
  ⟨fun _ _ _ h => by simp [lookup] at h, fun _ _ _ => Or.inl rfl, fun _ _ => rfl⟩

theorem merge_R0_left (te : TraitEnv) (t : Ty) : merge te Ty.R0 t = some t := by
  cases t with
  | base b => simp only [merge, Ty.R0]; by_cases h : Ty.anyName = b <;> simp [h]
  | coll b => simp [merge, Ty.R0]
  | tuple cs => simp [merge, Ty.R0]

theorem solve_nil (te : TraitEnv) (σ : List (String × Ty)) : solve te [] σ = some σ := by simp [solve]

theorem solve_append (te : TraitEnv) : ∀ (c1 c2 : List (String × Ty)) (σ : List (String × Ty)),
    solve te (c1 ++ c2) σ = (solve te c1 σ).bind (solve te c2)
  | [], c2, σ => by simp [solve]
  | (r, t) :: rest, c2, σ => by
    simp only [List.cons_append, solve]
    cases lookup σ r with
    | none => simp only []; exact solve_append te rest c2 _
    | some old =>
      simp only []
      cases merge te old t with
      | none => rfl
      | some m => simp only []; exact solve_append te rest c2 _

/-- one constraint `r ↦ v` on both sides (the radical case of `CompareTemplated`) -/
theorem bind_step {te : TraitEnv} {fn r : String} {s s' : Subst} {σ : List (String × Ty)} {v : Ty}
    (hr : isRadical r = true) (hinv : Inv fn s σ)
    (h : (match lookup s (r ++ fn) with
          | none => (true, s ++ [(r ++ fn, v)])
          | some old => match merge te old v with
            | none => (false, s)
            | some m => (true, Subst.set s (r ++ fn) m)) = (true, s')) :
    ∃ σ', solve te [(r, v)] σ = some σ' ∧ Inv fn s' σ' ∧ lookup s' (r ++ fn) ≠ none ∧ Mono s s' := by
  have hradm : isRadical (r ++ fn) = true := isRadical_append fn hr
  cases hs : lookup s (r ++ fn) with
  | none =>
    rw [hs] at h
    simp only [Prod.mk.injEq, true_and] at h
    subst h
    have hσ : lookup σ r = none := by
      cases hl : lookup σ r with
      | none => rfl
      | some u => have := hinv.strong r u hr hl; rw [hs] at this; cases this
    refine ⟨σ ++ [(r, v)], by simp [solve, hσ], ⟨fun r' u hr' hl => ?_, fun r' hr' hl => ?_, fun id hid => ?_⟩, ?_, ?_⟩
    · rw [lookup_append] at hl ⊢
      cases hl' : lookup σ r' with
      | some u' => rw [hl'] at hl; simp only [Option.some.injEq] at hl; subst hl; rw [hinv.strong r' u' hr' hl']
      | none =>
        rw [hl'] at hl
        by_cases hrr : (r == r') = true
        · have : r = r' := by simpa using hrr
          subst this
          simp only [hrr, if_true, Option.some.injEq] at hl
          subst hl; simp [hs]
        · simp [hrr] at hl
    · rw [lookup_append] at hl ⊢
      cases hl' : lookup σ r' with
      | some u' => rw [hl'] at hl; cases hl
      | none =>
        rw [hl'] at hl
        by_cases hrr : (r == r') = true
        · simp [hrr] at hl
        · have hne : ¬ r ++ fn = r' ++ fn := fun e => hrr (by simpa using mangled_inj.mp e)
          have hb : (r ++ fn == r' ++ fn) = false := by simpa using hne
          rcases hinv.weak r' hr' hl' with h1 | h1
          · left; rw [h1]; simp [hb]
          · right; rw [h1]
    · rw [lookup_append, hinv.keys id hid]
      have hne : ¬ r ++ fn = id := fun e => by rw [← e, hradm] at hid; cases hid
      have hb : (r ++ fn == id) = false := by simpa using hne
      simp [hb]
    · rw [lookup_append, hs]; simp
    · intro k hk
      rw [lookup_append]
      cases hl : lookup s k with
      | none => exact absurd hl hk
      | some u => simp
  | some old =>
    rw [hs] at h
    simp only [] at h
    cases hm : merge te old v with
    | none => rw [hm] at h; simp at h
    | some m =>
      rw [hm] at h
      simp only [Prod.mk.injEq, true_and] at h
      subst h
      have hsome : (lookup s (r ++ fn)).isSome = true := by rw [hs]; rfl
      have hmono : Mono s (Subst.set s (r ++ fn) m) := by
        intro k hk
        rw [lookup_set _ _ _ _ hsome]
        by_cases e : r ++ fn = k
        · simp [e]
        · simp [e]; exact hk
      have hkeys : ∀ id, isRadical id = false → lookup (Subst.set s (r ++ fn) m) id = none := by
        intro id hid
        rw [lookup_set _ _ _ _ hsome]
        have hne : ¬ r ++ fn = id := fun e => by rw [← e, hradm] at hid; cases hid
        simp [hne, hinv.keys id hid]
      have hself : lookup (Subst.set s (r ++ fn) m) (r ++ fn) ≠ none := by
        rw [lookup_set _ _ _ _ hsome]; simp
      cases hσ : lookup σ r with
      | some old' =>
        have := hinv.strong r old' hr hσ
        rw [hs] at this; cases this
        refine ⟨σ.map fun p => if p.1 == r then (r, m) else p, by simp [solve, hσ, hm],
          ⟨fun r' u hr' hl => ?_, fun r' hr' hl => ?_, hkeys⟩, hself, hmono⟩
        · rw [lookup_replace] at hl
          rw [lookup_set _ _ _ _ hsome]
          by_cases hrr : r = r'
          · subst hrr; simp [hσ] at hl; subst hl; simp
          · have hne : ¬ r ++ fn = r' ++ fn := fun e => hrr (mangled_inj.mp e)
            simp only [hrr, if_false] at hl
            simp [hne, hinv.strong r' u hr' hl]
        · rw [lookup_replace] at hl
          rw [lookup_set _ _ _ _ hsome]
          by_cases hrr : r = r'
          · subst hrr; simp [hσ] at hl
          · have hne : ¬ r ++ fn = r' ++ fn := fun e => hrr (mangled_inj.mp e)
            simp only [hrr, if_false] at hl
            simp only [hne, if_false]
            exact hinv.weak r' hr' hl
      | none =>
        have hold : old = Ty.R0 := by
          rcases hinv.weak r hr hσ with h1 | h1
          · rw [hs] at h1; cases h1
          · rw [hs] at h1; cases h1; rfl
        subst hold
        rw [merge_R0_left] at hm
        cases hm
        refine ⟨σ ++ [(r, v)], by simp [solve, hσ],
          ⟨fun r' u hr' hl => ?_, fun r' hr' hl => ?_, hkeys⟩, hself, hmono⟩
        · rw [lookup_append] at hl
          rw [lookup_set _ _ _ _ hsome]
          cases hl' : lookup σ r' with
          | some u' =>
            rw [hl'] at hl; simp only [Option.some.injEq] at hl; subst hl
            have hrr : ¬ r = r' := fun e => by subst e; rw [hσ] at hl'; cases hl'
            have hne : ¬ r ++ fn = r' ++ fn := fun e => hrr (mangled_inj.mp e)
            simp [hne, hinv.strong r' u' hr' hl']
          | none =>
            rw [hl'] at hl
            by_cases hrr : (r == r') = true
            · have : r = r' := by simpa using hrr
              subst this
              simp only [hrr, if_true, Option.some.injEq] at hl
              subst hl; simp
            · simp [hrr] at hl
        · rw [lookup_append] at hl
          rw [lookup_set _ _ _ _ hsome]
          cases hl' : lookup σ r' with
          | some u' => rw [hl'] at hl; cases hl
          | none =>
            rw [hl'] at hl
            by_cases hrr : (r == r') = true
            · simp [hrr] at hl
            · have hne : ¬ r ++ fn = r' ++ fn := fun e => hrr (by simpa using mangled_inj.mp e)
              simp only [hne, if_false]
              exact hinv.weak r' hr' hl'

/-! ## `BindRadicals` -/

/-- what `BindRadicals(s, any, Q)` does to the map -/
structure BindSpec (s s' : Subst) (anyT : Ty) (ids : List String) : Prop where
  keep : ∀ k u, lookup s k = some u → lookup s' k = some u
  fresh : ∀ k, lookup s k = none → lookup s' k = none ∨ lookup s' k = some anyT
  bound : ∀ a ∈ ids, isRadical a = true → lookup s' a ≠ none
  keys : ∀ k, lookup s k = none → isRadical k = false → lookup s' k = none

theorem BindSpec.refl_nil (s : Subst) (anyT : Ty) : BindSpec s s anyT [] :=
  ⟨fun _ _ h => h, fun _ h => Or.inl h, fun _ h => by simp at h, fun _ h _ => h⟩

theorem BindSpec.comp {s s1 s2 : Subst} {anyT : Ty} {i1 i2 : List String}
    (h1 : BindSpec s s1 anyT i1) (h2 : BindSpec s1 s2 anyT i2) : BindSpec s s2 anyT (i1 ++ i2) := by
  refine ⟨fun k u h => h2.keep k u (h1.keep k u h), fun k h => ?_, fun a ha hr => ?_, fun k h hr => ?_⟩
  · rcases h1.fresh k h with e | e
    · exact h2.fresh k e
    · exact Or.inr (h2.keep k _ e)
  · rcases List.mem_append.mp ha with ha | ha
    · have := h1.bound a ha hr
      cases hl : lookup s1 a with
      | none => exact absurd hl this
      | some u => rw [h2.keep a u hl]; simp
    · exact h2.bound a ha hr
  · exact h2.keys k (h1.keys k h hr) hr

mutual
theorem bindRadicals_spec (s : Subst) (anyT : Ty) : ∀ Q : Ty, BindSpec s (bindRadicals s anyT Q) anyT (basesT Q)
  | .base a => by
    simp only [bindRadicals, basesT]
    by_cases hc : (isRadical a && (lookup s a).isNone) = true
    · simp only [hc, if_true]
      have hr : isRadical a = true := by simp at hc; exact hc.1
      have hn : lookup s a = none := by
        simp at hc; cases hl : lookup s a with
        | none => rfl
        | some u => rw [hl] at hc; simp at hc
      refine ⟨fun k u h => by rw [lookup_append, h], fun k h => ?_, fun b hb _ => ?_, fun k h hk => ?_⟩
      · rw [lookup_append, h]
        by_cases e : (a == k) = true
        · right; simp [e]
        · left; simp [e]
      · simp only [List.mem_singleton] at hb; subst hb
        rw [lookup_append, hn]; simp
      · rw [lookup_append, h]
        have : ¬ a = k := fun e => by subst e; rw [hr] at hk; cases hk
        have hb : (a == k) = false := by simpa using this
        simp [hb]
    · simp only [hc, Bool.false_eq_true, if_false]
      refine ⟨fun _ _ h => h, fun _ h => Or.inl h, fun b hb hrb => ?_, fun _ h _ => h⟩
      simp only [List.mem_singleton] at hb; subst hb
      intro hn
      simp [hrb, hn] at hc
  | .coll b => by simp only [bindRadicals, basesT]; exact bindRadicals_spec s anyT b
  | .tuple cs => by simp only [bindRadicals, basesT]; exact bindRadicalsList_spec s anyT cs
theorem bindRadicalsList_spec (s : Subst) (anyT : Ty) :
    ∀ Qs : List Ty, BindSpec s (bindRadicalsList s anyT Qs) anyT (basesL Qs)
  | [] => by simp only [bindRadicalsList, basesL]; exact BindSpec.refl_nil s anyT
  | c :: cs => by
    simp only [bindRadicalsList, basesL]
    exact (bindRadicals_spec s anyT c).comp (bindRadicalsList_spec _ anyT cs)
end

theorem isAny_eq_R0 {t : Ty} (h : t.isAny = true) : t = Ty.R0 := by
  cases t with
  | base x => simp [Ty.isAny] at h; subst h; rfl
  | tuple cs => simp [Ty.isAny] at h
  | coll b => simp [Ty.isAny] at h

/-- the any-type against a pattern: all its radicals get (at least) the weak binding -/
theorem bind_any {fn : String} {s : Subst} {σ : List (String × Ty)} (P : Ty) (hinv : Inv fn s σ) :
    Inv fn (bindRadicals s Ty.R0 (mangle fn P)) σ ∧ Bound fn (bindRadicals s Ty.R0 (mangle fn P)) P ∧
      Mono s (bindRadicals s Ty.R0 (mangle fn P)) := by
  have hb := bindRadicals_spec s Ty.R0 (mangle fn P)
  refine ⟨⟨fun r u hr hl => hb.keep _ _ (hinv.strong r u hr hl), fun r hr hl => ?_, fun id hid => ?_⟩, fun r hr => ?_,
    fun k hk => ?_⟩
  · rcases hinv.weak r hr hl with e | e
    · exact hb.fresh _ e
    · exact Or.inr (hb.keep _ _ e)
  · exact hb.keys id (hinv.keys id hid) hid
  · obtain ⟨hm, hrad⟩ := mem_rads_mangled (fn := fn) hr
    exact hb.bound _ hm hrad
  · cases hl : lookup s k with
    | none => exact absurd hl hk
    | some u => rw [hb.keep k u hl]; simp

/-! ## a radical-free pattern against itself -/

theorem norads_base {a : String} (h : radsT (.base a) = []) : isRadical a = false := by
  cases hr : isRadical a with
  | false => rfl
  | true => simp [radsT, basesT, hr] at h

theorem norads_cons {c : Ty} {cs : List Ty} (h : radsL (c :: cs) = []) : radsT c = [] ∧ radsL cs = [] := by
  simpa [radsT, radsL, basesL, List.filter_append] using h

mutual
theorem matchArg_self (te : TraitEnv) : ∀ (P : Ty) (n : Nat), radsT P = [] → depthTy P < n →
    matchArg te n P P = some []
  | .base a, 0, _, hd => by simp at hd
  | .base a, n+1, h, _ => by
    have hr := norads_base h
    simp only [matchArg, hr, Bool.false_eq_true, if_false]
    by_cases hany : (Ty.base a).isAny = true
    · simp [hany]
    · simp [hany]
  | .coll b, 0, _, hd => by simp at hd
  | .coll b, n+1, h, hd => by
    have hd' : depthTy b < n := by simp [depthTy] at hd; omega
    simp only [matchArg, Ty.isAny, Bool.false_eq_true, if_false]
    exact matchArg_self te b n (by simpa [radsT, basesT] using h) hd'
  | .tuple cs, 0, _, hd => by simp at hd
  | .tuple cs, n+1, h, hd => by
    have hd' : depthTy.go cs < n := by simp [depthTy] at hd; omega
    simp only [matchArg, Ty.isAny, Bool.false_eq_true, if_false, bne_self_eq_false]
    exact matchArgGo_self te cs n (by simpa [radsT, radsL, basesT] using h) hd'
theorem matchArgGo_self (te : TraitEnv) : ∀ (Ps : List Ty) (n : Nat), radsL Ps = [] → depthTy.go Ps < n →
    matchArg.go te n Ps Ps = some []
  | [], n, _, _ => by simp [matchArg.go]
  | c :: cs, n, h, hd => by
    have h' := norads_cons h
    have hd' : depthTy c < n ∧ depthTy.go cs < n := by simp [depthTy.go] at hd; omega
    simp [matchArg.go, matchArg_self te c n h'.1 hd'.1, matchArgGo_self te cs n h'.2 hd'.2]
end

/-! ## `CompareTemplated` on the mangled pattern against `matchArg` + `solve` -/

theorem noMangled_coll {fn : String} {b : Ty} (h : NoMangled fn (.coll b)) : NoMangled fn b := by
  simpa [NoMangled, basesT] using h
theorem noMangled_tuple {fn : String} {cs : List Ty} (h : NoMangled fn (.tuple cs)) : NoMangledL fn cs := by
  simpa [NoMangled, NoMangledL, basesT] using h
theorem noMangledL_cons {fn : String} {c : Ty} {cs : List Ty} (h : NoMangledL fn (c :: cs)) :
    NoMangled fn c ∧ NoMangledL fn cs := by
  constructor
  · intro id hid; exact h id (by simp [basesL, hid])
  · intro id hid; exact h id (by simp [basesL, hid])

/-- a pattern with a radical is never equal to an actual type without mangled names -/
theorem beq_mangled_absurd {fn : String} {P v : Ty} (hn : NoMangled fn v) (hb : Ty.beq (mangle fn P) v = true)
    (hr : radsT P ≠ []) : False := by
  have e := Ty.eq_of_beq _ _ hb
  subst e
  cases hrl : radsT P with
  | nil => exact hr hrl
  | cons r rest =>
    have hmem : r ∈ radsT P := by rw [hrl]; simp
    obtain ⟨hm, _⟩ := mem_rads_mangled (fn := fn) hmem
    have hrad : isRadical r = true := by
      unfold radsT at hmem; exact (List.mem_filter.mp hmem).2
    exact hn _ hm r hrad rfl

/-- equal radical-free pattern and actual: nothing to solve -/
theorem ct_beq_norads {te : TraitEnv} {fn : String} {P v : Ty} {n : Nat} (hb : Ty.beq (mangle fn P) v = true)
    (hr : radsT P = []) (hd : depthTy P < n) : matchArg te n P v = some [] := by
  have e := Ty.eq_of_beq _ _ hb
  rw [mangle_id_of_norads fn P hr] at e
  subst e
  exact matchArg_self te P n hr hd

theorem bound_of_norads {fn : String} {s : Subst} {P : Ty} (hr : radsT P = []) : Bound fn s P := by
  intro r h; rw [hr] at h; simp at h

theorem radsT_coll (b : Ty) : radsT (.coll b) = radsT b := rfl
theorem radsT_tuple (cs : List Ty) : radsT (.tuple cs) = radsL cs := rfl
theorem radsL_cons (c : Ty) (cs : List Ty) : radsL (c :: cs) = radsT c ++ radsL cs := by
  simp [radsL, radsT, basesL, List.filter_append]

mutual
theorem ct_sound (te : TraitEnv) (fn : String) : ∀ (P : Ty) (n : Nat) (s : Subst) (σ : List (String × Ty)) (v : Ty)
    (s' : Subst), depthTy P < n → NoMangled fn v → Inv fn s σ →
    compareTemplated te s (mangle fn P) v = (true, s') →
    ∃ cs σ', matchArg te n P v = some cs ∧ solve te cs σ = some σ' ∧ Inv fn s' σ' ∧ Bound fn s' P ∧ Mono s s'
  | _, 0, _, _, _, _, hd, _, _, _ => by simp at hd
  | .base a, n+1, s, σ, v, s', _, hn, hinv, h => by
    by_cases hr : isRadical a = true
    · -- a template parameter
      simp only [mangle, hr, if_true] at h
      unfold compareTemplated at h
      by_cases hb : Ty.beq (.base (a ++ fn)) v = true
      · have e := Ty.eq_of_beq _ _ hb; subst e
        exact absurd rfl (hn (a ++ fn) (by simp [basesT]) a hr)
      · simp only [hb, Bool.false_eq_true, if_false, isRadical_append fn hr, if_true] at h
        obtain ⟨σ', hs, hi, hbd, hm⟩ := bind_step (te := te) hr hinv h
        refine ⟨[(a, v)], σ', by simp [matchArg, hr], hs, hi, ?_, hm⟩
        intro r hrm
        simp [radsT, basesT, hr] at hrm
        subst hrm; exact hbd
    · -- an ordinary base type
      have hr' : isRadical a = false := by simpa using hr
      simp only [mangle, hr', Bool.false_eq_true, if_false] at h
      unfold compareTemplated at h
      have hbd : Bound fn s (.base a) := bound_of_norads (by simp [radsT, basesT, hr'])
      by_cases hb : Ty.beq (.base a) v = true
      · simp only [hb, if_true, Prod.mk.injEq, true_and] at h
        subst h
        have e := Ty.eq_of_beq _ _ hb; subst e
        refine ⟨[], σ, ?_, solve_nil te σ, hinv, hbd, Mono.refl s⟩
        simp only [matchArg, hr', Bool.false_eq_true, if_false]
        by_cases hany : (Ty.base a).isAny = true
        · simp [hany]
        · simp [hany]
      · simp only [hb, Bool.false_eq_true, if_false, hr'] at h
        by_cases hany : v.isAny = true
        · simp only [hany, if_true, Prod.mk.injEq, true_and] at h
          subst h
          exact ⟨[], σ, by simp [matchArg, hr', hany], solve_nil te σ, hinv, hbd, Mono.refl s⟩
        · simp only [hany, Bool.false_eq_true, if_false] at h
          cases v with
          | base b =>
            simp only [Prod.mk.injEq] at h
            obtain ⟨hc, rfl⟩ := h
            refine ⟨[], σ, ?_, solve_nil te σ, hinv, hbd, Mono.refl s⟩
            simp [matchArg, hr', hany, hc]
          | coll b => simp at h
          | tuple cs => simp at h
  | .coll Pb, n+1, s, σ, v, s', hd, hn, hinv, h => by
    have hd' : depthTy Pb < n := by simp [depthTy] at hd; omega
    simp only [mangle] at h
    unfold compareTemplated at h
    by_cases hb : Ty.beq (.coll (mangle fn Pb)) v = true
    · simp only [hb, if_true, Prod.mk.injEq, true_and] at h
      subst h
      by_cases hr : radsT (.coll Pb) = []
      · exact ⟨[], σ, ct_beq_norads (P := .coll Pb) (by simpa [mangle] using hb) hr hd, solve_nil te σ, hinv,
          bound_of_norads hr, Mono.refl s⟩
      · exact absurd (beq_mangled_absurd (P := .coll Pb) hn (by simpa [mangle] using hb) hr) id
    · simp only [hb, Bool.false_eq_true, if_false] at h
      by_cases hany : v.isAny = true
      · simp only [hany, if_true, Prod.mk.injEq, true_and] at h
        subst h
        have e := isAny_eq_R0 hany; subst e
        obtain ⟨hi, hbd, hm⟩ := bind_any (fn := fn) (.coll Pb) hinv
        exact ⟨[], σ, by simp [matchArg, Ty.isAny, Ty.R0], solve_nil te σ, by simpa [mangle] using hi,
          by simpa [mangle] using hbd, by simpa [mangle] using hm⟩
      · simp only [hany, Bool.false_eq_true, if_false] at h
        cases v with
        | base b => simp at h
        | tuple cs => simp at h
        | coll vb =>
          simp only [] at h
          obtain ⟨cs, σ', h1, h2, h3, h4, h5⟩ := ct_sound te fn Pb n s σ vb s' hd' (noMangled_coll hn) hinv h
          exact ⟨cs, σ', by simp [matchArg, Ty.isAny, h1], h2, h3, by rw [Bound, radsT_coll]; exact h4, h5⟩
  | .tuple Ps, n+1, s, σ, v, s', hd, hn, hinv, h => by
    have hd' : depthTy.go Ps < n := by simp [depthTy] at hd; omega
    simp only [mangle] at h
    unfold compareTemplated at h
    by_cases hb : Ty.beq (.tuple (mangleList fn Ps)) v = true
    · simp only [hb, if_true, Prod.mk.injEq, true_and] at h
      subst h
      by_cases hr : radsT (.tuple Ps) = []
      · exact ⟨[], σ, ct_beq_norads (P := .tuple Ps) (by simpa [mangle] using hb) hr hd, solve_nil te σ, hinv,
          bound_of_norads hr, Mono.refl s⟩
      · exact absurd (beq_mangled_absurd (P := .tuple Ps) hn (by simpa [mangle] using hb) hr) id
    · simp only [hb, Bool.false_eq_true, if_false] at h
      by_cases hany : v.isAny = true
      · simp only [hany, if_true, Prod.mk.injEq, true_and] at h
        subst h
        have e := isAny_eq_R0 hany; subst e
        obtain ⟨hi, hbd, hm⟩ := bind_any (fn := fn) (.tuple Ps) hinv
        exact ⟨[], σ, by simp [matchArg, Ty.isAny, Ty.R0], solve_nil te σ, by simpa [mangle] using hi,
          by simpa [mangle] using hbd, by simpa [mangle] using hm⟩
      · simp only [hany, Bool.false_eq_true, if_false] at h
        cases v with
        | base b => simp at h
        | coll vb => simp at h
        | tuple vs =>
          simp only [] at h
          by_cases hlen : ((mangleList fn Ps).length != vs.length) = true
          · simp [hlen] at h
          · simp only [hlen, Bool.false_eq_true, if_false] at h
            have hl : Ps.length = vs.length := by
              rw [mangleList_length] at hlen; simpa using hlen
            obtain ⟨cs, σ', h1, h2, h3, h4, h5⟩ :=
              ctl_sound te fn Ps n s σ vs s' hd' (noMangled_tuple hn) hl hinv h
            refine ⟨cs, σ', ?_, h2, h3, by rw [Bound, radsT_tuple]; exact h4, h5⟩
            have hlb : (Ps.length != vs.length) = false := by simp [hl]
            simp [matchArg, Ty.isAny, hlb, h1]
theorem ctl_sound (te : TraitEnv) (fn : String) : ∀ (Ps : List Ty) (n : Nat) (s : Subst) (σ : List (String × Ty))
    (vs : List Ty) (s' : Subst), depthTy.go Ps < n → NoMangledL fn vs → Ps.length = vs.length → Inv fn s σ →
    compareTemplatedList te s (mangleList fn Ps) vs = (true, s') →
    ∃ cs σ', matchArg.go te n Ps vs = some cs ∧ solve te cs σ = some σ' ∧ Inv fn s' σ' ∧ BoundL fn s' Ps ∧ Mono s s'
  | [], n, s, σ, vs, s', _, _, hl, hinv, h => by
    cases vs with
    | cons _ _ => simp at hl
    | nil =>
      simp only [mangleList, compareTemplatedList, Prod.mk.injEq, true_and] at h
      subst h
      exact ⟨[], σ, by simp [matchArg.go], solve_nil te σ, hinv, fun r hr => by simp [radsL, basesL] at hr, Mono.refl s⟩
  | P :: Ps, n, s, σ, vs, s', hd, hn, hl, hinv, h => by
    cases vs with
    | nil => simp at hl
    | cons v vs =>
      have hd' : depthTy P < n ∧ depthTy.go Ps < n := by simp [depthTy.go] at hd; omega
      obtain ⟨hn1, hn2⟩ := noMangledL_cons hn
      simp only [mangleList, compareTemplatedList] at h
      cases hc : compareTemplated te s (mangle fn P) v with
      | mk ok s1 =>
        rw [hc] at h
        cases ok with
        | false => simp at h
        | true =>
          simp only [] at h
          obtain ⟨c1, σ1, a1, a2, a3, a4, a5⟩ := ct_sound te fn P n s σ v s1 hd'.1 hn1 hinv hc
          obtain ⟨c2, σ2, b1, b2, b3, b4, b5⟩ :=
            ctl_sound te fn Ps n s1 σ1 vs s' hd'.2 hn2 (by simpa using hl) a3 h
          refine ⟨c1 ++ c2, σ2, by simp [matchArg.go, a1, b1], by rw [solve_append, a2]; exact b2, b3, ?_, a5.trans b5⟩
          intro r hr
          rw [radsL_cons] at hr
          rcases List.mem_append.mp hr with hr | hr
          · exact b5 _ (a4 r hr)
          · exact b4 r hr
end

/-! ## the argument loop -/

/-- the substitution map through the loop of `CheckFuncArguments` (pure part) -/
def foldCT (te : TraitEnv) (fn : String) : Subst → List ((String × Ty) × Ty) → Option Subst
  | s, [] => some s
  | s, (d, v) :: rest =>
    match compareTemplated te s (mangle fn d.2) v with
    | (true, s') => foldCT te fn s' rest
    | (false, _) => none

theorem args_sound (te : TraitEnv) (fn : String)
    (step : Option (List (String × Ty)) → (String × Ty) × Ty → Option (List (String × Ty)))
    (hstep : ∀ l (p : (String × Ty) × Ty) l', matchArg te (depthTy p.1.2 + 1) p.1.2 p.2 = some l' →
      step (some l) p = some (l ++ l')) :
    ∀ (pairs : List ((String × Ty) × Ty)) (s : Subst) (σ acc : List (String × Ty)) (s' : Subst),
      Inv fn s σ → solve te acc [] = some σ → (∀ p ∈ pairs, NoMangled fn p.2) → foldCT te fn s pairs = some s' →
      ∃ cons σ', pairs.foldl step (some acc) = some cons ∧ solve te cons [] = some σ' ∧ Inv fn s' σ' ∧
        (∀ p ∈ pairs, Bound fn s' p.1.2) ∧ Mono s s'
  | [], s, σ, acc, s', hinv, hs, _, h => by
    simp only [foldCT, Option.some.injEq] at h
    subst h
    exact ⟨acc, σ, rfl, hs, hinv, fun p hp => by simp at hp, Mono.refl s⟩
  | (d, v) :: rest, s, σ, acc, s', hinv, hs, hn, h => by
    simp only [foldCT] at h
    cases hc : compareTemplated te s (mangle fn d.2) v with
    | mk ok s1 =>
      rw [hc] at h
      cases ok with
      | false => simp at h
      | true =>
        simp only [] at h
        obtain ⟨cs, σ1, a1, a2, a3, a4, a5⟩ :=
          ct_sound te fn d.2 (depthTy d.2 + 1) s σ v s1 (by omega) (hn (d, v) (by simp)) hinv hc
        have hacc : solve te (acc ++ cs) [] = some σ1 := by rw [solve_append, hs]; exact a2
        obtain ⟨cons, σ', b1, b2, b3, b4, b5⟩ :=
          args_sound te fn step hstep rest s1 σ1 (acc ++ cs) s' a3 hacc (fun p hp => hn p (by simp [hp])) h
        refine ⟨cons, σ', ?_, b2, b3, ?_, a5.trans b5⟩
        · simp only [List.foldl_cons]
          rw [hstep acc (d, v) cs a1]; exact b1
        · intro p hp
          simp only [List.mem_cons] at hp
          rcases hp with rfl | hp
          · intro r hr; exact b5 _ (a4 r hr)
          · exact b4 p hp

/-! ## the result type -/

mutual
theorem substBase_nil : ∀ t : Ty, substBase [] t = t
  | .base a => by simp [substBase, lookup]
  | .coll b => by simp only [substBase]; rw [substBase_nil b]
  | .tuple cs => by simp only [substBase]; rw [substBaseList_nil cs]
theorem substBaseList_nil : ∀ ts : List Ty, substBaseList [] ts = ts
  | [] => rfl
  | c :: cs => by simp only [substBaseList]; rw [substBase_nil c, substBaseList_nil cs]
end

mutual
theorem subst_inst {fn f : String} {s : Subst} {σ : List (String × Ty)} (hinv : Inv fn s σ) :
    ∀ (t : Ty) (n : Nat), depthTy t < n → Bound fn s t → substBase s (mangle fn t) = instantiate f σ n t
  | _, 0, hd, _ => by simp at hd
  | .base a, n+1, _, hb => by
    by_cases hr : isRadical a = true
    · simp only [mangle, hr, if_true, substBase, instantiate]
      have hbd := hb a (by simp [radsT, basesT, hr])
      cases hσ : lookup σ a with
      | some u => rw [hinv.strong a u hr hσ]
      | none =>
        rcases hinv.weak a hr hσ with e | e
        · exact absurd e hbd
        · rw [e]; rfl
    · have hr' : isRadical a = false := by simpa using hr
      simp only [mangle, hr', Bool.false_eq_true, if_false, substBase, instantiate, hinv.keys a hr']
  | .coll b, n+1, hd, hb => by
    have hd' : depthTy b < n := by simp [depthTy] at hd; omega
    simp only [mangle, substBase, instantiate]
    rw [subst_inst hinv b n hd' (by rw [Bound, ← radsT_coll]; exact hb)]
  | .tuple cs, n+1, hd, hb => by
    have hd' : depthTy.go cs < n := by simp [depthTy] at hd; omega
    simp only [mangle, substBase, instantiate]
    rw [substList_inst hinv cs n hd' (by rw [BoundL, ← radsT_tuple]; exact hb)]
theorem substList_inst {fn f : String} {s : Subst} {σ : List (String × Ty)} (hinv : Inv fn s σ) :
    ∀ (ts : List Ty) (n : Nat), depthTy.go ts < n → BoundL fn s ts →
      substBaseList s (mangleList fn ts) = ts.map (instantiate f σ n)
  | [], _, _, _ => rfl
  | c :: cs, n, hd, hb => by
    have hd' : depthTy c < n ∧ depthTy.go cs < n := by simp [depthTy.go] at hd; omega
    have hb' : Bound fn s c ∧ BoundL fn s cs := by
      constructor
      · intro r hr; exact hb r (by rw [radsL_cons]; exact List.mem_append.mpr (Or.inl hr))
      · intro r hr; exact hb r (by rw [radsL_cons]; exact List.mem_append.mpr (Or.inr hr))
    simp only [mangleList, substBaseList, List.map_cons]
    rw [subst_inst hinv c n hd'.1 hb'.1, substList_inst hinv cs n hd'.2 hb'.2]
end

/-- the result of `ViFunctionCall`, whichever branch of `subs.isEmpty` is taken -/
theorem call_result {fn f : String} {s : Subst} {σ : List (String × Ty)} (hinv : Inv fn s σ) (t : Ty)
    (hb : Bound fn s t) :
    (if s.isEmpty then mangle fn t else substBase s (mangle fn t)) = instantiate f σ (depthTy t + 1) t := by
  have h := subst_inst (f := f) hinv t (depthTy t + 1) (by omega) hb
  by_cases he : s.isEmpty = true
  · have : s = [] := by simpa using he
    subst this
    simp only [List.isEmpty_nil, if_true]
    rw [← h, substBase_nil]
  · simp only [he, Bool.false_eq_true, if_false]; exact h

/-- the constraint-collecting step of the reference (the function folded in `HasType.call`) -/
def specStep (te : TraitEnv) : Option (List (String × Ty)) → (String × Ty) × Ty → Option (List (String × Ty)) :=
  fun acc (p : (String × Ty) × Ty) =>
    match acc, matchArg te (depthTy p.1.2 + 1) p.1.2 p.2 with
    | some l, some l' => some (l ++ l')
    | _, _ => none

theorem specStep_some (te : TraitEnv) (l : List (String × Ty)) (p : (String × Ty) × Ty) (l' : List (String × Ty))
    (h : matchArg te (depthTy p.1.2 + 1) p.1.2 p.2 = some l') : specStep te (some l) p = some (l ++ l') := by
  simp [specStep, h]

theorem specStep_none (te : TraitEnv) (p : (String × Ty) × Ty) : specStep te none p = none := by
  simp [specStep]

theorem foldl_specStep_none (te : TraitEnv) : ∀ pairs : List ((String × Ty) × Ty), pairs.foldl (specStep te) none = none
  | [] => rfl
  | p :: ps => by simp only [List.foldl_cons, specStep_none]; exact foldl_specStep_none te ps

theorem zip_mem_left {α β : Type} : ∀ {l1 : List α} {l2 : List β} {a : α}, a ∈ l1 → l1.length = l2.length →
    ∃ b, (a, b) ∈ l1.zip l2
  | [], _, _, h, _ => by simp at h
  | x :: xs, [], _, _, hl => by simp at hl
  | x :: xs, y :: ys, a, h, hl => by
    simp only [List.mem_cons] at h
    rcases h with rfl | h
    · exact ⟨y, by simp⟩
    · obtain ⟨b, hb⟩ := zip_mem_left h (by simpa using hl)
      exact ⟨b, by simp [hb]⟩

end CCVerif.Types
