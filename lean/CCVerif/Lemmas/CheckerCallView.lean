import CCVerif.Lemmas.CheckerHomCallsAnalysis
/-!
A view of token sequences as checker definitions that reads CALLS (for the applied examples of the
`…_checker2` theorems of Properties/C12.lean): `N1 ∪ N2`, the call in `F[N1] ∪ N2`, and the TEMPLATE function
definition `[α∈ℬ(R1)] α` (trees as the parser model builds them, positions 0). Everything else is the empty
definition. `callView_compatibleHomOn2`: reading commutes with every substitution of the mention tokens.
-/
namespace CCVerif.SynthCorrect
open CCVerif CCVerif.Syntax CCVerif.Types CCVerif.Checker CCVerif.Dedup
open CCVerif.SchemaGen (CDef checkerR checkerHomOn2 homDC glob)

/-- `f[a]` -/
def callT (f a : String) : Ast :=
  .node .NT_FUNC_CALL .none 0 0 [.node .ID_FUNCTION (.text f) 0 0 [], glob a]

/-- the template function `[α∈ℬ(R1)] α` -/
def funR : Ast :=
  .node .NT_FUNC_DEFINITION .none 0 0
    [.node .NT_ARGUMENTS .none 0 0
      [.node .NT_ARG_DECL .none 0 0
        [.node .ID_LOCAL (.text "α") 0 0 [],
         .node .BOOLEAN .none 0 0 [.node .ID_RADICAL (.text "R1") 0 0 []]]],
     .node .ID_LOCAL (.text "α") 0 0 []]

def readV : List Dedup.Tok → CDef
  | [.mention a, .sym s, .mention b] => if s = "∪" then some (unionT (glob a) (glob b)) else none
  | [.mention f, .sym l, .mention a, .sym r, .mention b] =>
    if l = "[" ∧ r = "]∪" then some (unionT (callT f a) (glob b)) else none
  | [.sym s] => if s = "[α∈ℬ(R1)] α" then some funR else none
  | _ => none

def callView : View CDef where
  kindOf := fun k => if k == 1 then .base else .term
  read := readV

theorem readV_map (f : String → String) : ∀ d : List Dedup.Tok,
    readV (d.map (renTok f)) = (readV d).map (renAst f)
  | [] => rfl
  | [t1] => by
    cases t1 with
    | mention _ => rfl
    | sym s =>
      show (if s = "[α∈ℬ(R1)] α" then some funR else none) =
        Option.map (renAst f) (if s = "[α∈ℬ(R1)] α" then some funR else none)
      split <;> rfl
  | [t1, t2] => by cases t1 <;> cases t2 <;> rfl
  | [t1, t2, t3] => by
    cases t1 <;> cases t2 <;> cases t3 <;> try rfl
    rename_i a s b
    show (if s = "∪" then some (unionT (glob (f a)) (glob (f b))) else none) =
      Option.map (renAst f) (if s = "∪" then some (unionT (glob a) (glob b)) else none)
    split <;> rfl
  | [t1, t2, t3, t4] => by cases t1 <;> cases t2 <;> cases t3 <;> cases t4 <;> rfl
  | [t1, t2, t3, t4, t5] => by
    cases t1 <;> cases t2 <;> cases t3 <;> cases t4 <;> cases t5 <;> try rfl
    rename_i g l a r b
    show (if l = "[" ∧ r = "]∪" then some (unionT (callT (f g) (f a)) (glob (f b))) else none) =
      Option.map (renAst f) (if l = "[" ∧ r = "]∪" then some (unionT (callT g a) (glob b)) else none)
    split <;> rfl
  | t1 :: t2 :: t3 :: t4 :: t5 :: _ :: _ => by
    cases t1 <;> cases t2 <;> cases t3 <;> cases t4 <;> cases t5 <;> rfl

theorem callView_compatibleHomOn2 (traits : TraitEnv) (Fs : List String) :
    callView.CompatibleHomOn (checkerHomOn2 traits Fs) :=
  fun φ d _ _ => readV_map φ d

end CCVerif.SynthCorrect
