import CCVerif.Lemmas.PrintLex3
/-!
The fragment `E2` inside `E3` (C05): the embedding `emb3` (`Model/PPFragment3.lean`) preserves categories,
well-formedness, the lexer-conformance of the leaves, the printed tokens and the tree — so the `E2` theorems
(`parse_print_fragment2`, `parse_print_text_fragment2`) are instances of the `E3` theorems.
-/
namespace CCVerif.PP3
open CCVerif.Syntax CCVerif.Generated CCVerif.Lexer CCVerif.Parser CCVerif.Printer CCVerif.PP

theorem emb3_top : ∀ e : E2, (emb3 e).top = e.top := by intro e; cases e <;> rfl
theorem emb3_isS : ∀ e : E2, (emb3 e).isS = e.isS := by intro e; cases e <;> rfl
theorem emb3_isL : ∀ e : E2, (emb3 e).isL = e.isL := by intro e; cases e <;> rfl
theorem emb3_isA : ∀ e : E2, (emb3 e).isA = e.isA := by intro e; cases e <;> rfl
theorem emb3_isProd : ∀ e : E2, (emb3 e).isProd = e.isProd := by intro e; cases e <;> rfl
theorem emb3_isPow : ∀ e : E2, (emb3 e).isPow = e.isPow := by intro e; cases e <;> rfl

theorem emb3_isVar : ∀ e : E2, (emb3 e).isVar = e.isVar
  | .atom .. => rfl
  | .tuple a l => by simp only [emb3, E3.isVar, E2.isVar, emb3_isVar a, emb3_isVar l]
  | .one a => by simp only [emb3, E3.isVar, E2.isVar, emb3_isVar a]
  | .more a l => by simp only [emb3, E3.isVar, E2.isVar, emb3_isVar a, emb3_isVar l]
  | .text .. | .sbin .. | .prod2 .. | .prodN .. | .pred .. | .neg _ | .lbin .. | .pow _ | .enum _ | .fcall ..
  | .pcall .. | .filter .. | .quant .. | .decl .. => rfl

theorem emb3_dast : ∀ e : E2, (emb3 e).dast = e.dast
  | .atom .. => rfl
  | .tuple a l => by simp only [emb3, E3.dast, E2.dast, emb3_dast a, emb3_dast l]
  | .one a => by simp only [emb3, E3.dast, E2.dast, emb3_dast a]
  | .more a l => by simp only [emb3, E3.dast, E2.dast, emb3_dast a, emb3_dast l]
  | .text .. | .sbin .. | .prod2 .. | .prodN .. | .pred .. | .neg _ | .lbin .. | .pow _ | .enum _ | .fcall ..
  | .pcall .. | .filter .. | .quant .. | .decl .. => rfl

theorem emb3_declOf (e : E2) : (emb3 e).declOf = e.declOf := by
  cases e <;> simp only [emb3, E3.declOf, E2.declOf, emb3_dast] <;>
    (rw [← emb3_dast]; rfl)

theorem emb3_toks : ∀ e : E2, (emb3 e).toks = e.toks
  | .atom .. => rfl
  | .text f d a => by simp only [emb3, E3.toks, E2.toks, emb3_toks a]
  | .sbin op l r => by simp only [emb3, E3.toks, E2.toks, emb3_top, emb3_toks l, emb3_toks r]
  | .prod2 a b => by simp only [emb3, E3.toks, E2.toks, emb3_top, emb3_toks a, emb3_toks b]
  | .prodN p k => by simp only [emb3, E3.toks, E2.toks, emb3_top, emb3_toks p, emb3_toks k]
  | .pred op l r => by simp only [emb3, E3.toks, E2.toks, emb3_toks l, emb3_toks r]
  | .neg x => by simp only [emb3, E3.toks, E2.toks, emb3_top, emb3_toks x]
  | .lbin op l r => by simp only [emb3, E3.toks, E2.toks, emb3_top, emb3_toks l, emb3_toks r]
  | .pow a => by simp only [emb3, E3.toks, E2.toks, emb3_isPow, emb3_toks a]
  | .one a => by simp only [emb3, E3.toks, E2.toks, emb3_toks a]
  | .more a l => by simp only [emb3, E3.toks, E2.toks, emb3_toks a, emb3_toks l]
  | .enum l => by simp only [emb3, E3.toks, E2.toks, emb3_toks l]
  | .tuple a l => by simp only [emb3, E3.toks, E2.toks, emb3_toks a, emb3_toks l]
  | .fcall d l => by simp only [emb3, E3.toks, E2.toks, emb3_toks l]
  | .pcall d l => by simp only [emb3, E3.toks, E2.toks, emb3_toks l]
  | .filter d ps a => by simp only [emb3, E3.toks, E2.toks, emb3_toks ps, emb3_toks a]
  | .quant q vs dm b => by simp only [emb3, E3.toks, E2.toks, emb3_top, emb3_toks vs, emb3_toks dm, emb3_toks b]
  | .decl v dm b => by simp only [emb3, E3.toks, E2.toks, emb3_toks v, emb3_toks dm, emb3_toks b]

theorem emb3_ast : ∀ e : E2, (emb3 e).ast = e.ast
  | .atom .. => rfl
  | .text f d a => by simp only [emb3, E3.ast, E2.ast, emb3_ast a]
  | .sbin op l r => by simp only [emb3, E3.ast, E2.ast, emb3_ast l, emb3_ast r]
  | .prod2 a b => by simp only [emb3, E3.ast, E2.ast, emb3_ast a, emb3_ast b]
  | .prodN p k => by simp only [emb3, E3.ast, E2.ast, emb3_ast p, emb3_ast k]
  | .pred op l r => by simp only [emb3, E3.ast, E2.ast, emb3_ast l, emb3_ast r]
  | .neg x => by simp only [emb3, E3.ast, E2.ast, emb3_ast x]
  | .lbin op l r => by simp only [emb3, E3.ast, E2.ast, emb3_ast l, emb3_ast r]
  | .pow a => by simp only [emb3, E3.ast, E2.ast, emb3_ast a]
  | .one a => by simp only [emb3, E3.ast, E2.ast, emb3_ast a]
  | .more a l => by simp only [emb3, E3.ast, E2.ast, emb3_ast a, emb3_ast l]
  | .enum l => by simp only [emb3, E3.ast, E2.ast, emb3_ast l]
  | .tuple a l => by simp only [emb3, E3.ast, E2.ast, emb3_ast a, emb3_ast l]
  | .fcall d l => by simp only [emb3, E3.ast, E2.ast, emb3_ast l]
  | .pcall d l => by simp only [emb3, E3.ast, E2.ast, emb3_ast l]
  | .filter d ps a => by simp only [emb3, E3.ast, E2.ast, emb3_ast ps, emb3_ast a]
  | .quant q vs dm b => by simp only [emb3, E3.ast, E2.ast, emb3_declOf, emb3_ast dm, emb3_ast b]
  | .decl v dm b => by simp only [emb3, E3.ast, E2.ast, emb3_dast, emb3_ast dm, emb3_ast b]

theorem emb3_wf : ∀ e : E2, (emb3 e).wf = e.wf
  | .atom .. => rfl
  | .text f d a => by simp only [emb3, E3.wf, E2.wf, emb3_isS, emb3_wf a]
  | .sbin op l r => by simp only [emb3, E3.wf, E2.wf, emb3_isS, emb3_wf l, emb3_wf r]
  | .prod2 a b => by simp only [emb3, E3.wf, E2.wf, emb3_isS, emb3_wf a, emb3_wf b]
  | .prodN p k => by simp only [emb3, E3.wf, E2.wf, emb3_isS, emb3_isProd, emb3_wf p, emb3_wf k]
  | .pred op l r => by simp only [emb3, E3.wf, E2.wf, emb3_isS, emb3_wf l, emb3_wf r]
  | .neg x => by simp only [emb3, E3.wf, E2.wf, emb3_isL, emb3_wf x]
  | .lbin op l r => by simp only [emb3, E3.wf, E2.wf, emb3_isL, emb3_wf l, emb3_wf r]
  | .pow a => by simp only [emb3, E3.wf, E2.wf, emb3_isS, emb3_wf a]
  | .one a => by simp only [emb3, E3.wf, E2.wf, emb3_isS, emb3_wf a]
  | .more a l => by simp only [emb3, E3.wf, E2.wf, emb3_isS, emb3_isA, emb3_wf a, emb3_wf l]
  | .enum l => by simp only [emb3, E3.wf, E2.wf, emb3_isA, emb3_wf l]
  | .tuple a l => by simp only [emb3, E3.wf, E2.wf, emb3_isS, emb3_isA, emb3_wf a, emb3_wf l]
  | .fcall d l => by simp only [emb3, E3.wf, E2.wf, emb3_isA, emb3_wf l]
  | .pcall d l => by simp only [emb3, E3.wf, E2.wf, emb3_isA, emb3_wf l]
  | .filter d ps a => by simp only [emb3, E3.wf, E2.wf, emb3_isS, emb3_isA, emb3_wf ps, emb3_wf a]
  | .quant q vs dm b => by
    simp only [emb3, E3.wf, E2.wf, emb3_isS, emb3_isL, emb3_isA, emb3_isVar, emb3_wf vs, emb3_wf dm, emb3_wf b]
  | .decl v dm b => by simp only [emb3, E3.wf, E2.wf, emb3_isS, emb3_isL, emb3_isVar, emb3_wf v, emb3_wf dm, emb3_wf b]

theorem emb3_lexOK (syn : Syn) : ∀ e : E2, (emb3 e).lexOK syn = e.lexOK syn
  | .atom .. => rfl
  | .text f d a => by simp only [emb3, E3.lexOK, E2.lexOK, emb3_lexOK syn a]
  | .sbin op l r => by simp only [emb3, E3.lexOK, E2.lexOK, emb3_lexOK syn l, emb3_lexOK syn r]
  | .prod2 a b => by simp only [emb3, E3.lexOK, E2.lexOK, emb3_lexOK syn a, emb3_lexOK syn b]
  | .prodN p k => by simp only [emb3, E3.lexOK, E2.lexOK, emb3_lexOK syn p, emb3_lexOK syn k]
  | .pred op l r => by simp only [emb3, E3.lexOK, E2.lexOK, emb3_lexOK syn l, emb3_lexOK syn r]
  | .neg x => by simp only [emb3, E3.lexOK, E2.lexOK, emb3_lexOK syn x]
  | .lbin op l r => by simp only [emb3, E3.lexOK, E2.lexOK, emb3_lexOK syn l, emb3_lexOK syn r]
  | .pow a => by simp only [emb3, E3.lexOK, E2.lexOK, emb3_lexOK syn a]
  | .one a => by simp only [emb3, E3.lexOK, E2.lexOK, emb3_lexOK syn a]
  | .more a l => by simp only [emb3, E3.lexOK, E2.lexOK, emb3_lexOK syn a, emb3_lexOK syn l]
  | .enum l => by simp only [emb3, E3.lexOK, E2.lexOK, emb3_lexOK syn l]
  | .tuple a l => by simp only [emb3, E3.lexOK, E2.lexOK, emb3_lexOK syn a, emb3_lexOK syn l]
  | .fcall d l => by simp only [emb3, E3.lexOK, E2.lexOK, emb3_lexOK syn l]
  | .pcall d l => by simp only [emb3, E3.lexOK, E2.lexOK, emb3_lexOK syn l]
  | .filter d ps a => by simp only [emb3, E3.lexOK, E2.lexOK, emb3_lexOK syn ps, emb3_lexOK syn a]
  | .quant q vs dm b => by simp only [emb3, E3.lexOK, E2.lexOK, emb3_lexOK syn vs, emb3_lexOK syn dm, emb3_lexOK syn b]
  | .decl v dm b => by simp only [emb3, E3.lexOK, E2.lexOK, emb3_lexOK syn v, emb3_lexOK syn dm, emb3_lexOK syn b]

end CCVerif.PP3
