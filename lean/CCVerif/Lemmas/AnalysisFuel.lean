import CCVerif.Model.Parser
/-!
Helper lemmas of C04, part 4 — the fuel of the parser model.

`Mono f`: a result `some x` obtained with fuel `f` is obtained with fuel `f + 1` as well, for each of
the twelve mutually recursive parser functions (so running out of fuel can only turn a result into
`none`, never change a tree).
-/
namespace CCVerif.Analysis
open CCVerif.Syntax CCVerif.Generated CCVerif.Lexer CCVerif.Parser

structure Mono (f : Nat) : Prop where
  enumE : ∀ toks x, enumE f toks = some x → enumE (f + 1) toks = some x
  enumTail : ∀ acc toks x, enumTail f acc toks = some x → enumTail (f + 1) acc toks = some x
  varE : ∀ toks x, varE f toks = some x → varE (f + 1) toks = some x
  varPackTail : ∀ acc toks x, varPackTail f acc toks = some x → varPackTail (f + 1) acc toks = some x
  argDecls : ∀ acc toks x, argDecls f acc toks = some x → argDecls (f + 1) acc toks = some x
  blocks : ∀ acc toks x, blocks f acc toks = some x → blocks (f + 1) acc toks = some x
  primary : ∀ toks x, primary f toks = some x → primary (f + 1) toks = some x
  setE : ∀ m toks x, setE f m toks = some x → setE (f + 1) m toks = some x
  setLoop : ∀ m k lhs toks x, setLoop f m k lhs toks = some x → setLoop (f + 1) m k lhs toks = some x
  predE : ∀ toks x, predE f toks = some x → predE (f + 1) toks = some x
  logE : ∀ m toks x, logE f m toks = some x → logE (f + 1) m toks = some x
  logLoop : ∀ m k lhs toks x, logLoop f m k lhs toks = some x → logLoop (f + 1) m k lhs toks = some x

theorem mono_zero : Mono 0 := by
  constructor <;> intros <;> simp_all [enumE, enumTail, varE, varPackTail, argDecls, blocks, primary, setE, setLoop, predE, logE, logLoop]

theorem mono_step_enumE (f : Nat) (ih : Mono f) :
    ∀ toks x, enumE (f + 1) toks = some x → enumE (f + 2) toks = some x := by
  have i1 := ih.enumE; have i2 := ih.enumTail; have i3 := ih.varE; have i4 := ih.varPackTail
  have i5 := ih.argDecls; have i6 := ih.blocks; have i7 := ih.primary; have i8 := ih.setE
  have i9 := ih.setLoop; have i10 := ih.predE; have i11 := ih.logE; have i12 := ih.logLoop
  intro toks x h
  rw [enumE.eq_def] at h ⊢
  simp only [] at h ⊢
  repeat' (split at h)
  all_goals try (cases h; done)
  all_goals grind

theorem mono_step_enumTail (f : Nat) (ih : Mono f) :
    ∀ acc toks x, enumTail (f + 1) acc toks = some x → enumTail (f + 2) acc toks = some x := by
  have i1 := ih.enumE; have i2 := ih.enumTail; have i3 := ih.varE; have i4 := ih.varPackTail
  have i5 := ih.argDecls; have i6 := ih.blocks; have i7 := ih.primary; have i8 := ih.setE
  have i9 := ih.setLoop; have i10 := ih.predE; have i11 := ih.logE; have i12 := ih.logLoop
  intro acc toks x h
  rw [enumTail.eq_def] at h ⊢
  simp only [] at h ⊢
  repeat' (split at h)
  all_goals try (cases h; done)
  all_goals grind

theorem mono_step_varE (f : Nat) (ih : Mono f) :
    ∀ toks x, varE (f + 1) toks = some x → varE (f + 2) toks = some x := by
  have i1 := ih.enumE; have i2 := ih.enumTail; have i3 := ih.varE; have i4 := ih.varPackTail
  have i5 := ih.argDecls; have i6 := ih.blocks; have i7 := ih.primary; have i8 := ih.setE
  have i9 := ih.setLoop; have i10 := ih.predE; have i11 := ih.logE; have i12 := ih.logLoop
  intro toks x h
  rw [varE.eq_def] at h ⊢
  simp only [] at h ⊢
  repeat' (split at h)
  all_goals try (cases h; done)
  all_goals grind

theorem mono_step_varPackTail (f : Nat) (ih : Mono f) :
    ∀ acc toks x, varPackTail (f + 1) acc toks = some x → varPackTail (f + 2) acc toks = some x := by
  have i1 := ih.enumE; have i2 := ih.enumTail; have i3 := ih.varE; have i4 := ih.varPackTail
  have i5 := ih.argDecls; have i6 := ih.blocks; have i7 := ih.primary; have i8 := ih.setE
  have i9 := ih.setLoop; have i10 := ih.predE; have i11 := ih.logE; have i12 := ih.logLoop
  intro acc toks x h
  rw [varPackTail.eq_def] at h ⊢
  simp only [] at h ⊢
  repeat' (split at h)
  all_goals try (cases h; done)
  all_goals grind

theorem mono_step_argDecls (f : Nat) (ih : Mono f) :
    ∀ acc toks x, argDecls (f + 1) acc toks = some x → argDecls (f + 2) acc toks = some x := by
  have i1 := ih.enumE; have i2 := ih.enumTail; have i3 := ih.varE; have i4 := ih.varPackTail
  have i5 := ih.argDecls; have i6 := ih.blocks; have i7 := ih.primary; have i8 := ih.setE
  have i9 := ih.setLoop; have i10 := ih.predE; have i11 := ih.logE; have i12 := ih.logLoop
  intro acc toks x h
  rw [argDecls.eq_def] at h ⊢
  simp only [] at h ⊢
  repeat' (split at h)
  all_goals try (cases h; done)
  all_goals grind

theorem mono_step_blocks (f : Nat) (ih : Mono f) :
    ∀ acc toks x, blocks (f + 1) acc toks = some x → blocks (f + 2) acc toks = some x := by
  have i1 := ih.enumE; have i2 := ih.enumTail; have i3 := ih.varE; have i4 := ih.varPackTail
  have i5 := ih.argDecls; have i6 := ih.blocks; have i7 := ih.primary; have i8 := ih.setE
  have i9 := ih.setLoop; have i10 := ih.predE; have i11 := ih.logE; have i12 := ih.logLoop
  intro acc toks x h
  rw [blocks.eq_def] at h ⊢
  simp only [] at h ⊢
  repeat' (split at h)
  all_goals try (cases h; done)
  all_goals grind

set_option maxHeartbeats 1000000 in
theorem mono_step_primary (f : Nat) (ih : Mono f) :
    ∀ toks x, primary (f + 1) toks = some x → primary (f + 2) toks = some x := by
  have i1 := ih.enumE; have i2 := ih.enumTail; have i3 := ih.varE; have i4 := ih.varPackTail
  have i5 := ih.argDecls; have i6 := ih.blocks; have i7 := ih.primary; have i8 := ih.setE
  have i9 := ih.setLoop; have i10 := ih.predE; have i11 := ih.logE; have i12 := ih.logLoop
  intro toks x h
  rw [primary.eq_def] at h ⊢
  simp only [] at h ⊢
  repeat' (split at h)
  all_goals try (cases h; done)
  all_goals grind

theorem mono_step_setE (f : Nat) (ih : Mono f) :
    ∀ m toks x, setE (f + 1) m toks = some x → setE (f + 2) m toks = some x := by
  have i1 := ih.enumE; have i2 := ih.enumTail; have i3 := ih.varE; have i4 := ih.varPackTail
  have i5 := ih.argDecls; have i6 := ih.blocks; have i7 := ih.primary; have i8 := ih.setE
  have i9 := ih.setLoop; have i10 := ih.predE; have i11 := ih.logE; have i12 := ih.logLoop
  intro m toks x h
  rw [setE.eq_def] at h ⊢
  simp only [] at h ⊢
  repeat' (split at h)
  all_goals try (cases h; done)
  all_goals grind

theorem mono_step_setLoop (f : Nat) (ih : Mono f) :
    ∀ m k lhs toks x, setLoop (f + 1) m k lhs toks = some x → setLoop (f + 2) m k lhs toks = some x := by
  have i1 := ih.enumE; have i2 := ih.enumTail; have i3 := ih.varE; have i4 := ih.varPackTail
  have i5 := ih.argDecls; have i6 := ih.blocks; have i7 := ih.primary; have i8 := ih.setE
  have i9 := ih.setLoop; have i10 := ih.predE; have i11 := ih.logE; have i12 := ih.logLoop
  intro m k lhs toks x h
  rw [setLoop.eq_def] at h ⊢
  simp only [] at h ⊢
  repeat' (split at h)
  all_goals try (cases h; done)
  all_goals grind

theorem mono_step_predE (f : Nat) (ih : Mono f) :
    ∀ toks x, predE (f + 1) toks = some x → predE (f + 2) toks = some x := by
  have i1 := ih.enumE; have i2 := ih.enumTail; have i3 := ih.varE; have i4 := ih.varPackTail
  have i5 := ih.argDecls; have i6 := ih.blocks; have i7 := ih.primary; have i8 := ih.setE
  have i9 := ih.setLoop; have i10 := ih.predE; have i11 := ih.logE; have i12 := ih.logLoop
  intro toks x h
  rw [predE.eq_def] at h ⊢
  simp only [] at h ⊢
  repeat' (split at h)
  all_goals try (cases h; done)
  all_goals grind

theorem mono_step_logE (f : Nat) (ih : Mono f) :
    ∀ m toks x, logE (f + 1) m toks = some x → logE (f + 2) m toks = some x := by
  have i1 := ih.enumE; have i2 := ih.enumTail; have i3 := ih.varE; have i4 := ih.varPackTail
  have i5 := ih.argDecls; have i6 := ih.blocks; have i7 := ih.primary; have i8 := ih.setE
  have i9 := ih.setLoop; have i10 := ih.predE; have i11 := ih.logE; have i12 := ih.logLoop
  intro m toks x h
  rw [logE.eq_def] at h ⊢
  simp only [] at h ⊢
  repeat' (split at h)
  all_goals try (cases h; done)
  all_goals grind

theorem mono_step_logLoop (f : Nat) (ih : Mono f) :
    ∀ m k lhs toks x, logLoop (f + 1) m k lhs toks = some x → logLoop (f + 2) m k lhs toks = some x := by
  have i1 := ih.enumE; have i2 := ih.enumTail; have i3 := ih.varE; have i4 := ih.varPackTail
  have i5 := ih.argDecls; have i6 := ih.blocks; have i7 := ih.primary; have i8 := ih.setE
  have i9 := ih.setLoop; have i10 := ih.predE; have i11 := ih.logE; have i12 := ih.logLoop
  intro m k lhs toks x h
  rw [logLoop.eq_def] at h ⊢
  simp only [] at h ⊢
  repeat' (split at h)
  all_goals try (cases h; done)
  all_goals grind

theorem mono_succ (f : Nat) (ih : Mono f) : Mono (f + 1) :=
  ⟨mono_step_enumE f ih, mono_step_enumTail f ih, mono_step_varE f ih, mono_step_varPackTail f ih, mono_step_argDecls f ih, mono_step_blocks f ih, mono_step_primary f ih, mono_step_setE f ih, mono_step_setLoop f ih, mono_step_predE f ih, mono_step_logE f ih, mono_step_logLoop f ih⟩

theorem mono : ∀ f : Nat, Mono f
  | 0 => mono_zero
  | f + 1 => mono_succ f (mono f)

/-! ## what is left of the input never grows -/

structure Len (f : Nat) : Prop where
  enumE : ∀ toks es r, enumE f toks = some (es, r) → r.length < toks.length
  enumTail : ∀ acc toks es r, enumTail f acc toks = some (es, r) → r.length ≤ toks.length
  varE : ∀ toks v r, varE f toks = some (v, r) → r.length < toks.length
  varPackTail : ∀ acc toks es r, varPackTail f acc toks = some (es, r) → r.length ≤ toks.length
  argDecls : ∀ acc toks es r, argDecls f acc toks = some (es, r) → r.length ≤ toks.length
  blocks : ∀ acc toks es r, blocks f acc toks = some (es, r) → r.length ≤ toks.length
  primary : ∀ toks k e r, primary f toks = some (k, e, r) → r.length < toks.length
  setE : ∀ m toks k e r, setE f m toks = some (k, e, r) → r.length < toks.length
  setLoop : ∀ m k lhs toks k' e r, setLoop f m k lhs toks = some (k', e, r) → r.length ≤ toks.length
  predE : ∀ toks k e r, predE f toks = some (k, e, r) → r.length < toks.length
  logE : ∀ m toks k e r, logE f m toks = some (k, e, r) → r.length < toks.length
  logLoop : ∀ m k lhs toks k' e r, logLoop f m k lhs toks = some (k', e, r) → r.length ≤ toks.length

theorem len_zero : Len 0 := by
  constructor <;> intros <;> simp_all [enumE, enumTail, varE, varPackTail, argDecls, blocks, primary, setE, setLoop, predE, logE, logLoop]

theorem length_drop_one_le (l : Toks) : (l.drop 1).length ≤ l.length := by simp

theorem len_step_enumE (f : Nat) (ih : Len f) :
    ∀ toks es r, enumE (f + 1) toks = some (es, r) → r.length < toks.length := by
  have i1 := ih.enumE; have i2 := ih.enumTail; have i3 := ih.varE; have i4 := ih.varPackTail
  have i5 := ih.argDecls; have i6 := ih.blocks; have i7 := ih.primary; have i8 := ih.setE
  have i9 := ih.setLoop; have i10 := ih.predE; have i11 := ih.logE; have i12 := ih.logLoop
  intro toks es r h
  rw [enumE.eq_def] at h
  simp only [] at h
  repeat' (split at h)
  all_goals try (cases h; done)
  all_goals grind [length_drop_one_le]

theorem len_step_enumTail (f : Nat) (ih : Len f) :
    ∀ acc toks es r, enumTail (f + 1) acc toks = some (es, r) → r.length ≤ toks.length := by
  have i1 := ih.enumE; have i2 := ih.enumTail; have i3 := ih.varE; have i4 := ih.varPackTail
  have i5 := ih.argDecls; have i6 := ih.blocks; have i7 := ih.primary; have i8 := ih.setE
  have i9 := ih.setLoop; have i10 := ih.predE; have i11 := ih.logE; have i12 := ih.logLoop
  intro acc toks es r h
  rw [enumTail.eq_def] at h
  simp only [] at h
  repeat' (split at h)
  all_goals try (cases h; done)
  all_goals grind [length_drop_one_le]

theorem len_step_varE (f : Nat) (ih : Len f) :
    ∀ toks v r, varE (f + 1) toks = some (v, r) → r.length < toks.length := by
  have i1 := ih.enumE; have i2 := ih.enumTail; have i3 := ih.varE; have i4 := ih.varPackTail
  have i5 := ih.argDecls; have i6 := ih.blocks; have i7 := ih.primary; have i8 := ih.setE
  have i9 := ih.setLoop; have i10 := ih.predE; have i11 := ih.logE; have i12 := ih.logLoop
  intro toks v r h
  rw [varE.eq_def] at h
  simp only [] at h
  repeat' (split at h)
  all_goals try (cases h; done)
  all_goals grind [length_drop_one_le]

theorem len_step_varPackTail (f : Nat) (ih : Len f) :
    ∀ acc toks es r, varPackTail (f + 1) acc toks = some (es, r) → r.length ≤ toks.length := by
  have i1 := ih.enumE; have i2 := ih.enumTail; have i3 := ih.varE; have i4 := ih.varPackTail
  have i5 := ih.argDecls; have i6 := ih.blocks; have i7 := ih.primary; have i8 := ih.setE
  have i9 := ih.setLoop; have i10 := ih.predE; have i11 := ih.logE; have i12 := ih.logLoop
  intro acc toks es r h
  rw [varPackTail.eq_def] at h
  simp only [] at h
  repeat' (split at h)
  all_goals try (cases h; done)
  all_goals grind [length_drop_one_le]

theorem len_step_argDecls (f : Nat) (ih : Len f) :
    ∀ acc toks es r, argDecls (f + 1) acc toks = some (es, r) → r.length ≤ toks.length := by
  have i1 := ih.enumE; have i2 := ih.enumTail; have i3 := ih.varE; have i4 := ih.varPackTail
  have i5 := ih.argDecls; have i6 := ih.blocks; have i7 := ih.primary; have i8 := ih.setE
  have i9 := ih.setLoop; have i10 := ih.predE; have i11 := ih.logE; have i12 := ih.logLoop
  intro acc toks es r h
  rw [argDecls.eq_def] at h
  simp only [] at h
  repeat' (split at h)
  all_goals try (cases h; done)
  all_goals grind [length_drop_one_le]

theorem len_step_blocks (f : Nat) (ih : Len f) :
    ∀ acc toks es r, blocks (f + 1) acc toks = some (es, r) → r.length ≤ toks.length := by
  have i1 := ih.enumE; have i2 := ih.enumTail; have i3 := ih.varE; have i4 := ih.varPackTail
  have i5 := ih.argDecls; have i6 := ih.blocks; have i7 := ih.primary; have i8 := ih.setE
  have i9 := ih.setLoop; have i10 := ih.predE; have i11 := ih.logE; have i12 := ih.logLoop
  intro acc toks es r h
  rw [blocks.eq_def] at h
  simp only [] at h
  repeat' (split at h)
  all_goals try (cases h; done)
  all_goals grind [length_drop_one_le]

set_option maxHeartbeats 1000000 in
theorem len_step_primary (f : Nat) (ih : Len f) :
    ∀ toks k e r, primary (f + 1) toks = some (k, e, r) → r.length < toks.length := by
  have i1 := ih.enumE; have i2 := ih.enumTail; have i3 := ih.varE; have i4 := ih.varPackTail
  have i5 := ih.argDecls; have i6 := ih.blocks; have i7 := ih.primary; have i8 := ih.setE
  have i9 := ih.setLoop; have i10 := ih.predE; have i11 := ih.logE; have i12 := ih.logLoop
  intro toks k e r h
  rw [primary.eq_def] at h
  simp only [] at h
  repeat' (split at h)
  all_goals try (cases h; done)
  all_goals grind [length_drop_one_le]

theorem len_step_setE (f : Nat) (ih : Len f) :
    ∀ m toks k e r, setE (f + 1) m toks = some (k, e, r) → r.length < toks.length := by
  have i1 := ih.enumE; have i2 := ih.enumTail; have i3 := ih.varE; have i4 := ih.varPackTail
  have i5 := ih.argDecls; have i6 := ih.blocks; have i7 := ih.primary; have i8 := ih.setE
  have i9 := ih.setLoop; have i10 := ih.predE; have i11 := ih.logE; have i12 := ih.logLoop
  intro m toks k e r h
  rw [setE.eq_def] at h
  simp only [] at h
  repeat' (split at h)
  all_goals try (cases h; done)
  all_goals grind [length_drop_one_le]

theorem len_step_setLoop (f : Nat) (ih : Len f) :
    ∀ m k lhs toks k' e r, setLoop (f + 1) m k lhs toks = some (k', e, r) → r.length ≤ toks.length := by
  have i1 := ih.enumE; have i2 := ih.enumTail; have i3 := ih.varE; have i4 := ih.varPackTail
  have i5 := ih.argDecls; have i6 := ih.blocks; have i7 := ih.primary; have i8 := ih.setE
  have i9 := ih.setLoop; have i10 := ih.predE; have i11 := ih.logE; have i12 := ih.logLoop
  intro m k lhs toks k' e r h
  rw [setLoop.eq_def] at h
  simp only [] at h
  repeat' (split at h)
  all_goals try (cases h; done)
  all_goals grind [length_drop_one_le]

theorem len_step_predE (f : Nat) (ih : Len f) :
    ∀ toks k e r, predE (f + 1) toks = some (k, e, r) → r.length < toks.length := by
  have i1 := ih.enumE; have i2 := ih.enumTail; have i3 := ih.varE; have i4 := ih.varPackTail
  have i5 := ih.argDecls; have i6 := ih.blocks; have i7 := ih.primary; have i8 := ih.setE
  have i9 := ih.setLoop; have i10 := ih.predE; have i11 := ih.logE; have i12 := ih.logLoop
  intro toks k e r h
  rw [predE.eq_def] at h
  simp only [] at h
  repeat' (split at h)
  all_goals try (cases h; done)
  all_goals grind [length_drop_one_le]

theorem len_step_logE (f : Nat) (ih : Len f) :
    ∀ m toks k e r, logE (f + 1) m toks = some (k, e, r) → r.length < toks.length := by
  have i1 := ih.enumE; have i2 := ih.enumTail; have i3 := ih.varE; have i4 := ih.varPackTail
  have i5 := ih.argDecls; have i6 := ih.blocks; have i7 := ih.primary; have i8 := ih.setE
  have i9 := ih.setLoop; have i10 := ih.predE; have i11 := ih.logE; have i12 := ih.logLoop
  intro m toks k e r h
  rw [logE.eq_def] at h
  simp only [] at h
  repeat' (split at h)
  all_goals try (cases h; done)
  all_goals grind [length_drop_one_le]

theorem len_step_logLoop (f : Nat) (ih : Len f) :
    ∀ m k lhs toks k' e r, logLoop (f + 1) m k lhs toks = some (k', e, r) → r.length ≤ toks.length := by
  have i1 := ih.enumE; have i2 := ih.enumTail; have i3 := ih.varE; have i4 := ih.varPackTail
  have i5 := ih.argDecls; have i6 := ih.blocks; have i7 := ih.primary; have i8 := ih.setE
  have i9 := ih.setLoop; have i10 := ih.predE; have i11 := ih.logE; have i12 := ih.logLoop
  intro m k lhs toks k' e r h
  rw [logLoop.eq_def] at h
  simp only [] at h
  repeat' (split at h)
  all_goals try (cases h; done)
  all_goals grind [length_drop_one_le]

theorem len_succ (f : Nat) (ih : Len f) : Len (f + 1) :=
  ⟨len_step_enumE f ih, len_step_enumTail f ih, len_step_varE f ih, len_step_varPackTail f ih, len_step_argDecls f ih, len_step_blocks f ih, len_step_primary f ih, len_step_setE f ih, len_step_setLoop f ih, len_step_predE f ih, len_step_logE f ih, len_step_logLoop f ih⟩

theorem len : ∀ f : Nat, Len f
  | 0 => len_zero
  | f + 1 => len_succ f (len f)

end CCVerif.Analysis
