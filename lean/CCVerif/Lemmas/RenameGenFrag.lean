import CCVerif.Lemmas.RenameGen
import CCVerif.Lemmas.SchemaGenSim
import CCVerif.Lemmas.Rename
import CCVerif.Lemmas.NameBij
/-!
C08, schema level: the definition fragment (`fragA`, `Lemmas/SchemaGenFrag.lean`) satisfies the
equivariance law of `Lemmas/RenameGen.lean`, and a well-formed state of the fragment machine
(`Schema.WF`) is a well-formed state of the generic machine (`WF fragA (toG st)`), so that the
fragment theorem `rename_iso` is a corollary of the generic one.

* `fragEquivariance : Equivariance fragA` (renamings = all bijections, no side condition);
* `WF_toG`;
* `typed_alias` — a type of the fragment is an alias of the store.
-/
namespace CCVerif.SchemaGen
open CCVerif CCVerif.Graph
open CCVerif.Schema (Kind Def Info Status renameDef resultInfo renDef lookup)

/-! ## the fragment is equivariant -/

def renInfo (g : String → String) (i : Info) : Info := { i with ty := i.ty.map g }

theorem tyOf_map_renInfo (g : String → String) (o : Option Info) :
    tyOf (o.map (renInfo g)) = (tyOf o).map g := by
  cases o with
  | none => rfl
  | some i => rfl

theorem all_map_congr {α β : Type} (f : α → β) (p : β → Bool) (q : α → Bool) : ∀ (l : List α),
    (∀ m ∈ l, p (f m) = q m) → (l.map f).all p = l.all q
  | [], _ => rfl
  | x :: xs, h => by
    rw [List.map_cons, List.all_cons, List.all_cons, h x (List.mem_cons_self ..),
      all_map_congr f p q xs (fun m hm => h m (List.mem_cons_of_mem _ hm))]

theorem fragType_ren (b : Bij) (ctx ctx' : String → Option Info) (c : Cst Def)
    (h : ∀ m ∈ c.defn.mentions, ctx' (b.f m) = (ctx m).map (renInfo b.f)) :
    fragType ctx' { c with alias := b.f c.alias, defn := renDef b.f c.defn } = (fragType ctx c).map b.f := by
  obtain ⟨u, a, k, d⟩ := c
  cases k <;> cases d with
  | empty => rfl
  | bad => rfl
  | union l =>
    cases l with
    | nil => rfl
    | cons n ns =>
      first
      | rfl
      | (simp only [fragType, renDef, List.map_cons]
         have hn : tyOf (ctx' (b.f n)) = (tyOf (ctx n)).map b.f := by
           rw [h n (by simp [Def.mentions]), tyOf_map_renInfo]
         rw [hn]
         cases htn : tyOf (ctx n) with
         | none => rfl
         | some t =>
           simp only [Option.map_some]
           have hall : (ns.map b.f).all (fun m => tyOf (ctx' m) == some (b.f t)) =
               ns.all (fun m => tyOf (ctx m) == some t) := by
             apply all_map_congr
             intro m hm
             rw [h m (by simp [Def.mentions, hm]), tyOf_map_renInfo]
             cases tyOf (ctx m) with
             | none => simp
             | some t' =>
               simp only [Option.map_some]
               by_cases e : t' = t
               · simp [e]
               · have : b.f t' ≠ b.f t := fun h' => e (b.inj h')
                 have e1 : (some (b.f t') == some (b.f t)) = false :=
                   beq_eq_false_iff_ne.2 (fun h' => this (Option.some.inj h'))
                 have e2 : (some t' == some t) = false :=
                   beq_eq_false_iff_ne.2 (fun h' => e (Option.some.inj h'))
                 rw [e1, e2]
           rw [hall]
           split <;> rfl)

theorem resultInfo_map (g : String → String) (o : Option String) :
    resultInfo (o.map g) = renInfo g (resultInfo o) := by
  cases o <;> rfl

/-- the definition fragment satisfies the equivariance law: every bijection of names is admissible -/
def fragEquivariance : Equivariance fragA where
  Ren := Bij
  app := fun b => b.f
  inv := Bij.inv
  renD := fun b d => renDef b.f d
  renI := fun b i => renInfo b.f i
  Good := fun _ _ => True
  app_inv := fun b n => b.gf n
  renD_inv := fun b c _ => Schema.renDef_inv (fun m _ => b.gf m)
  good_inv := fun _ _ _ => trivial
  mentions_ren := fun b c _ => Schema.mentions_renDef b.f c.defn
  ok_ren := fun b i => by
    show (i.ty.map b.f).isSome = i.ty.isSome
    cases i.ty <;> rfl
  rename_eq := by
    intro b f c _ h
    show renameDef f c.defn = renDef b.f c.defn
    cases hd : c.defn with
    | union ns =>
      show Def.union _ = Def.union _
      congr 1
      apply List.map_congr_left
      intro n hn
      exact h n (by rw [hd]; exact hn)
    | empty => rfl
    | bad => rfl
  analyse_ren := by
    intro b sk ctx ctx' c _ h
    show resultInfo (fragType ctx' _) = renInfo b.f (resultInfo (fragType ctx c))
    rw [fragType_ren b ctx ctx' c h, resultInfo_map]

/-! ## well-formed fragment states are well-formed generic states -/

theorem uids_toG (st : Schema.St) : uids (toG st).store = Schema.uids st.store := by
  unfold uids Schema.uids
  rw [toG_store, List.map_map]
  rfl

theorem inputsOfL_toG (s : List Schema.Cst) (c : Schema.Cst) :
    inputsOfL fragA (s.map cG) (cG c) = Schema.inputsOfL s c :=
  inputsOf_toG ⟨s, [], [], false⟩ c

theorem WF_toG {st : Schema.St} (h : Schema.WF st) : WF fragA (toG st) := by
  have hbase : Base (toG st) := ⟨by rw [uids_toG]; exact h.base.nodup, fun u => by
    rw [uids_toG, hasInfo_toG]; exact h.base.keys u⟩
  refine ⟨hbase, h.valid, ⟨h.cur.inv, fun x => by rw [uids_toG]; exact h.cur.live x, fun a b => ?_⟩, ?_⟩
  · rw [toG_graph, h.cur.edges]
    constructor
    · rintro ⟨c, hc, hu, hin⟩
      exact ⟨cG c, List.mem_map.2 ⟨c, hc, rfl⟩, hu, by rw [toG_store, inputsOfL_toG]; exact hin⟩
    · rintro ⟨c', hc', hu, hin⟩
      obtain ⟨c, hc, rfl⟩ := List.mem_map.1 hc'
      exact ⟨c, hc, hu, by rw [toG_store, inputsOfL_toG] at hin; exact hin⟩
  · -- the entries are those of the analysis from scratch, which is complete
    obtain ⟨hs, hss⟩ := h.scratch
    have hg : WF fragA ((toG st).scratch fragA) ∧ ((toG st).scratch fragA).store = (toG st).store := by
      unfold St.scratch
      exact updateState_spec fragA_lawful (st := { toG st with invalid := true, graph := [] })
        ⟨hbase.nodup, hbase.keys⟩ (Or.inl rfl)
    intro u hu
    have hf := hg.1.sync u (by rw [hg.2]; exact hu)
    rw [hg.2] at hf
    have e : ((toG st).scratch fragA).infoFor fragA u = (toG st).infoFor fragA u := by
      rw [← toG_scratch, infoFor_toG, infoFor_toG]
      have hu' : u ∈ Schema.uids st.store := by rw [← uids_toG]; exact hu
      have hty := Schema.Sync.ty_eq hss hs.sync h.sync u
      have s1 := hs.sync.status u (by rw [hss]; exact hu')
      have s2 := h.sync.status u hu'
      unfold Schema.StatusOk at s1 s2
      cases hi : st.scratch.infoFor u with
      | mk a1 a2 =>
        cases hj : st.infoFor u with
        | mk b1 b2 =>
          rw [hi] at s1 hty
          rw [hj] at s2 hty
          simp only at s1 s2 hty
          subst hty
          rw [s1, s2]
    rw [e] at hf
    exact hf

/-- a type of the fragment is the alias of a constituent of the store -/
theorem typed_alias {s : List Schema.Cst} {u : Nat} {t : String} (h : Schema.Typed s u t) :
    ∃ c ∈ s, c.alias = t := by
  induction h with
  | @base c hc _ _ => exact ⟨c, hc, rfl⟩
  | @union c n ns t _ _ _ hs _ ih =>
    obtain ⟨v, hv⟩ := Option.isSome_iff_exists.1 (hs n (by simp))
    exact ih n (by simp) v hv

end CCVerif.SchemaGen
