import CCVerif.Lemmas.EvaluatorFrame
import CCVerif.Lemmas.EvaluatorFrame2
import CCVerif.Lemmas.CheckerAnalysis
import CCVerif.Lemmas.CheckerRename
import CCVerif.Lemmas.RSModelGen
/-!
The evaluator model (`Model/Normalize.lean` + `Model/Eval.lean`, C01) as a LAWFUL evaluation of the
generic value bookkeeping of C11 (`Model/RSModelGen.lean`, laws `EvalLawful` in
`Lemmas/RSModelGen.lean`) over the type-checker analysis `checkerA` / `checkerR` of C07 / C08.

`rsCalculationFacet::CalculateCstInternal(target)`:
```
if (GetParse(target).status != VERIFIED) return false;               -- E.verified
expression = Generator::GlobalDefinition(cst.alias, cst.definition)  -- cstTree
calculator->Evaluate(expression)                                     -- Interpreter::Evaluate: parse,
    CheckType, Normalize(astContext), ASTInterpreter::Evaluate over the DataContext
    name ↦ Values().SDataFor(FindAlias(name))                        -- ctx
SetRSInternal(target, get<StructuredData>(result))
```
* `envOf ctx names` — the `DataContext` the context function offers over a list of names (the model's
  `Env.globals` is an association list, so a list of names has to be chosen: the instance takes the
  visited globals of the tree, as `analyseC` does for the `TypeContext`; `evalC_full_context`: a value
  obtained this way is the value obtained over ANY larger list of names, e.g. all aliases of the schema);
* `evalC fuel ctx c` — `Interpreter::Evaluate` on the definition tree; `some v` iff the outcome is
  a `StructuredData` `v`;
* `evaluatorE fuel : Eval CDef CInfo Val`;
* `evaluatorE_lawful`, `evaluatorE_lawfulR : EvalLawful (checkerA/checkerR fun _ => traits) (evaluatorE fuel)`
  — `mono` from `evaluate_mono` (`Lemmas/EvaluatorFrame.lean`, induction over the collector), `missing`
  from `check_strict`, `verified_ok` from `resultOf`, `skel_indep` because `traitsOf` is constant.

RESTRICTIONS of the instance, all explicit:
* `funcs := []`: the `SyntaxTreeContext` is empty, a call `F1[…]` of a term function is not inlined and
  the evaluator stops at the `NT_FUNC_CALL` node (`VisitDefault`), so a term whose definition calls a
  function never gets a value (closed example at the end); the generic machine hands the evaluation only the
  VALUES of other constituents, not their trees;
* the re-check `auditor.CheckType(*ast)` inside `Interpreter::Evaluate` is not run again: the guard
  `status == VERIFIED` is checked on the stored entry, which C07 proves to be the current one;
* a logical outcome (`bool`) for a term is no value (`std::get<StructuredData>` of a `bool` — excluded
  in the real code by the post-checks of `CheckConstituenta`, which `checkerA` does not model);
* `traitsOf` constant (`skel_indep`).
-/
namespace CCVerif.RSModelGen
open CCVerif CCVerif.Syntax CCVerif.SchemaGen
open CCVerif.Schema (Kind Status)

/-- the `DataContext` offered over the listed names; the `SyntaxTreeContext` is empty -/
def envOf (ctx : String → Option Eval.Val) (names : List String) : Eval.Env :=
  { globals := names.filterMap fun n => (ctx n).map fun v => (n, v), funcs := [] }

/-- `calculator->Evaluate(GlobalDefinition(alias, definition))`, as far as it yields a `StructuredData` -/
def evalC (fuel : Nat) (ctx : String → Option Eval.Val) (c : Cst CDef) : Option Eval.Val :=
  match cstTree c with
  | none => none
  | some tr =>
    match (Eval.evaluate fuel (envOf ctx (Checker.usedGlobals tr)) tr).1 with
    | .ok v => some v
    | _ => none

/-- the evaluator as an evaluation of the generic value bookkeeping; `fuel` bounds the nesting depth
(`outOfFuel` = no value) -/
def evaluatorE (fuel : Nat) : Eval CDef CInfo Eval.Val where
  verified := fun i => i.status == .verified
  baseReset := .s []
  eval := evalC fuel

/-! ## look-up in the generated data context -/

theorem lookup_filterMapN {α : Type} (g : String → Option α) (m : String) : ∀ names : List String,
    Norm.lookup m (names.filterMap fun n => (g n).map fun x => (n, x)) = if m ∈ names then g m else none
  | [] => rfl
  | n :: ns => by
    have ih := lookup_filterMapN g m ns
    by_cases hnm : m = n
    · subst hnm
      cases hg : g m with
      | none =>
        simp only [List.filterMap_cons, hg, Option.map_none, ih, List.mem_cons, true_or, if_true]
        split <;> rfl
      | some x => simp [hg, Norm.lookup]
    · have hb : (m == n) = false := by simpa using hnm
      have hmem : (m ∈ n :: ns) ↔ m ∈ ns := by
        simp only [List.mem_cons]
        exact ⟨fun h => h.resolve_left hnm, Or.inr⟩
      cases hg : g n with
      | none => simp only [List.filterMap_cons, hg, Option.map_none, ih, hmem]
      | some x =>
        simp only [List.filterMap_cons, hg, Option.map_some, Norm.lookup, hb, Bool.false_eq_true, if_false, ih, hmem]

theorem lookup_envOf (ctx : String → Option Eval.Val) (names : List String) (m : String) :
    Norm.lookup m (envOf ctx names).globals = if m ∈ names then ctx m else none :=
  lookup_filterMapN ctx m names

/-- more names and more values: at least the same data -/
theorem envOf_le {ctx ctx' : String → Option Eval.Val} {names names' : List String}
    (hn : ∀ n ∈ names, n ∈ names') (h : ∀ m ∈ names, ∀ x, ctx m = some x → ctx' m = some x) :
    Eval.GlobalsLe (envOf ctx names) (envOf ctx' names') := by
  intro n v hl
  rw [lookup_envOf] at hl ⊢
  by_cases hm : n ∈ names
  · rw [if_pos hm] at hl
    rw [if_pos (hn n hm)]
    exact h n hm v hl
  · rw [if_neg hm] at hl; cases hl

/-- FRAME + monotonicity of the instance: the evaluation reads the context at the mentions only, and
a value obtained is not changed by more values in the context -/
theorem evalC_mono (fuel : Nat) (ctx ctx' : String → Option Eval.Val) (c : Cst CDef) (v : Eval.Val)
    (h : ∀ m ∈ mentionsOf c.defn, ∀ x, ctx m = some x → ctx' m = some x)
    (he : evalC fuel ctx c = some v) : evalC fuel ctx' c = some v := by
  unfold evalC at he ⊢
  cases htr : cstTree c with
  | none => rw [htr] at he; cases he
  | some tr =>
    rw [htr] at he
    simp only at he ⊢
    have hm : Checker.usedGlobals tr = mentionsOf c.defn := usedGlobals_cstTree htr
    cases hr : Eval.evaluate fuel (envOf ctx (Checker.usedGlobals tr)) tr with
    | mk r n =>
      rw [hr] at he
      cases r with
      | ok w =>
        cases he
        have hle : Eval.GlobalsLe (envOf ctx (Checker.usedGlobals tr)) (envOf ctx' (Checker.usedGlobals tr)) :=
          envOf_le (fun _ hn => hn) (fun m hmm => h m (by rw [← hm]; exact hmm))
        rw [Eval.evaluate_mono (env := envOf ctx (Checker.usedGlobals tr)) (env' := envOf ctx' (Checker.usedGlobals tr)) rfl hle fuel tr _ n hr]
      | okBool _ => cases he
      | err _ _ => cases he
      | stuck _ => cases he
      | outOfFuel => cases he

/-- the value the instance computes over the visited globals is the value `Interpreter::Evaluate`
computes over the data context of ANY list of names that covers them (all aliases of the schema) -/
theorem evalC_full_context (fuel : Nat) (ctx : String → Option Eval.Val) (c : Cst CDef) (tr : Ast)
    (htr : cstTree c = some tr) (allNames : List String) (hall : ∀ n ∈ mentionsOf c.defn, n ∈ allNames)
    (v : Eval.Val) (he : evalC fuel ctx c = some v) :
    (Eval.evaluate fuel (envOf ctx allNames) tr).1 = .ok v := by
  unfold evalC at he
  rw [htr] at he
  simp only at he
  have hm : Checker.usedGlobals tr = mentionsOf c.defn := usedGlobals_cstTree htr
  cases hr : Eval.evaluate fuel (envOf ctx (Checker.usedGlobals tr)) tr with
  | mk r n =>
    rw [hr] at he
    cases r with
    | ok w =>
      cases he
      have hle : Eval.GlobalsLe (envOf ctx (Checker.usedGlobals tr)) (envOf ctx allNames) :=
        envOf_le (fun n hn => hall n (by rw [← hm]; exact hn)) (fun _ _ _ hx => hx)
      rw [Eval.evaluate_mono (env := envOf ctx (Checker.usedGlobals tr)) (env' := envOf ctx allNames) rfl hle fuel tr _ n hr]
    | okBool _ => cases he
    | err _ _ => cases he
    | stuck _ => cases he
    | outOfFuel => cases he

/-! ## the laws -/

theorem resultOf_verified {r : Checker.CheckRes} (h : ((resultOf r).status == Status.verified) = true) :
    (resultOf r).ty.isSome = true := by
  unfold resultOf at h ⊢
  split
  · rfl
  · rename_i hno
    split at h
    · rename_i t ht; exact absurd ht (hno t)
    · cases h

theorem analyseC_verified {traits : Types.TraitEnv} {ctx : String → Option CInfo} {c : Cst CDef}
    (h : ((analyseC traits ctx c).status == Status.verified) = true) : (analyseC traits ctx c).ty.isSome = true := by
  unfold analyseC at h ⊢
  cases htr : cstTree c with
  | none => rw [htr] at h; cases h
  | some tr => rw [htr] at h; exact resultOf_verified h

theorem analyseC_missing {traits : Types.TraitEnv} {ctx : String → Option CInfo} {c : Cst CDef} {m : String}
    (hm : m ∈ mentionsOf c.defn) (hc : ctx m = none) : (analyseC traits ctx c).ty.isSome = false := by
  unfold analyseC
  cases htr : cstTree c with
  | none => rfl
  | some tr =>
    have hmm : m ∈ Checker.usedGlobals tr := by rw [usedGlobals_cstTree htr]; exact hm
    simp only
    cases hr : (resultOf (Checker.check (ctxToΓ traits ctx (Checker.usedGlobals tr)) tr)).ty.isSome with
    | false => rfl
    | true =>
      exfalso
      obtain ⟨t, ht⟩ := resultOf_ok hr
      have := Checker.check_strict ht m hmm
      rw [lookup_ctxToΓ_types, if_pos hmm, hc] at this
      cases this

/-- the laws depend on `mentions`, `ok`, `analyse` only — not on `rename` -/
theorem evaluatorE_lawful_of {A : Analysis CDef CInfo} (traits : Types.TraitEnv) (fuel : Nat)
    (hm : A.mentions = mentionsOf) (hok : A.ok = fun i => i.ty.isSome)
    (ha : A.analyse = fun _ ctx c => analyseC traits ctx c) : EvalLawful A (evaluatorE fuel) where
  skel_indep := by intro sk sk' ctx c; rw [ha]
  missing := by
    intro sk ctx c m hmm hc
    rw [hm] at hmm
    rw [hok, ha]
    exact analyseC_missing hmm hc
  verified_ok := by
    intro sk ctx c h
    rw [hok, ha]
    rw [ha] at h
    exact analyseC_verified h
  mono := by
    intro ctx ctx' c v h he
    rw [hm] at h
    exact evalC_mono fuel ctx ctx' c v h he

/-- **the evaluator model satisfies the laws of the generic value bookkeeping** over the type checker -/
theorem evaluatorE_lawful (traits : Types.TraitEnv) (fuel : Nat) :
    EvalLawful (checkerA fun _ => traits) (evaluatorE fuel) :=
  evaluatorE_lawful_of traits fuel rfl rfl rfl

/-- the same over the checker instance with the real `rename` (C08) -/
theorem evaluatorE_lawfulR (traits : Types.TraitEnv) (fuel : Nat) :
    EvalLawful (checkerR fun _ => traits) (evaluatorE fuel) :=
  evaluatorE_lawful_of traits fuel rfl rfl rfl

/-! ## the two-sided frame, up to the normaliser -/

/-- two data contexts built over lists of names that both cover the global names of the NORMALISED tree
give the same outcome of `Interpreter::Evaluate` (value, error and iteration count) — `collect_congr`.
That the normaliser introduces no global name is `Eval.normalize_gnames_statement` (open). -/
theorem evaluate_envOf_frame (fuel : Nat) (ctx : String → Option Eval.Val) (tr : Ast) (names names' : List String)
    (h : ∀ nt, Norm.normalizeTree [] fuel tr = some nt → ∀ n ∈ Eval.gnames nt, n ∈ names ∧ n ∈ names') :
    Eval.evaluate fuel (envOf ctx names) tr = Eval.evaluate fuel (envOf ctx names') tr := by
  apply Eval.evaluate_frame_of_norm (env := envOf ctx names) (env' := envOf ctx names') rfl
  intro nt hnt n hn
  rw [lookup_envOf, lookup_envOf, if_pos (h nt hnt n hn).1, if_pos (h nt hnt n hn).2]

/-! ## closed examples -/

private def gX1 : Ast := glob "X1"
private def callF : Ast := .node .NT_FUNC_CALL .none 0 0 [.node .ID_FUNCTION (.text "F1") 0 0 [], gX1]

/-- `D1 := X1\X1` against `X1 = {1,2}` evaluates to `∅`; with `X1` without a value it does not evaluate;
a call `F1[X1]` of a term function gets no value whatever the context (empty `SyntaxTreeContext`) -/
example :
    evalC 10 (fun n => if n = "X1" then some (.s [.e 1, .e 2]) else none) ⟨2, "D1", .term, some (setMinus gX1 gX1)⟩ =
      some (.s []) ∧
    evalC 10 (fun _ => none) ⟨2, "D1", .term, some (setMinus gX1 gX1)⟩ = none ∧
    evalC 10 (fun _ => some (.s [.e 1])) ⟨2, "D1", .term, some callF⟩ = none := by
  decide +kernel

end CCVerif.RSModelGen
