import CCVerif.Model.PPFragment3
import CCVerif.Lemmas.PrintLex2
import CCVerif.Lemmas.ParsePrint3Top
/-!
The lexer link of C05 on the fragment `E3` (`E2` + recursive and imperative constructions), part A: the printed text of
an `E3` phrase as a sequence of token spellings and blanks (`E3.items`), which carries the token sequence `E3.toks`
(`kds_items`) and is a chain in the sense of `Lemmas/LexPieces.lean` (`items_chain`: every token is lexed as itself in
its context). Same method as `Lemmas/PrintLex2.lean`, whose vocabulary (`fx`, `fparts`, `fixedBase`, `freeTok`,
`leafOK`, `nameOK`, `wrapI`, …; namespace `CCVerif.PP`) is reused; the table facts are re-`decide`d over the generated
spelling tables for the larger token lists (`fragFixed` etc. now contain `R`, `I`, `:=`, `:∈`, `;`). `:=` (MATH) is the
one new spelling that a literal of the lexer extends (`:==`): the text of a set phrase never starts with `=`
(`items_head`).
-/
namespace CCVerif.PP3
open CCVerif.Syntax CCVerif.Generated CCVerif.Lexer CCVerif.Parser CCVerif.Printer CCVerif.LexP CCVerif.LexN CCVerif.PP

/-- fixed spellings that occur in printed fragment phrases -/
def fragFixed : List Tok := [.PUNC_PL, .PUNC_PR, .PUNC_CL, .PUNC_CR, .PUNC_SL, .PUNC_SR, .PUNC_COMMA, .PUNC_BAR, .IN,
  .DECART, .NOT, .FORALL, .EXISTS, .BOOLEAN, .DECLARATIVE, .LIT_INTSET, .LIT_EMPTYSET, .BOOL, .DEBOOL, .REDUCE, .CARD,
  .PLUS, .MINUS, .MULTIPLY, .UNION, .INTERSECTION, .SET_MINUS, .SYMMINUS,
  .NOTIN, .SUBSET, .SUBSET_OR_EQ, .NOTSUBSET, .NOTEQUAL, .EQUAL, .GREATER, .LESSER, .GREATER_OR_EQ, .LESSER_OR_EQ,
  .EQUIVALENT, .IMPLICATION, .OR, .AND, .RECURSIVE, .IMPERATIVE, .ASSIGN, .ITERATE, .PUNC_SEMICOLON]

/-- (generated tables, re-proved on every run) every fixed spelling of the fragment is well-behaved -/
theorem fixed_table : ∀ syn ∈ synL, ∀ t ∈ fragFixed, fixedBase syn t = true := by
  decide +kernel

theorem render_fx (syn : Syn) (t : Tok) (ht : t ∈ fragFixed) : render (fx syn t) = str syn t := by
  have h := fixed_table syn (mem_synL syn) t ht
  simp only [fixedBase, Bool.and_eq_true, decide_eq_true_eq] at h
  rw [← h.1.1.1.1.1.1]
  simp [fx, render, Item.text]

theorem kds_fx (syn : Syn) (t : Tok) : kds (fx syn t) = [(t, .none)] := rfl

theorem fx_chain (syn : Syn) (t : Tok) (ht : t ∈ fragFixed) (nx : Option Nat) (h : fixedNextOK syn t nx = true) :
    ChainN syn (fx syn t) nx := by
  have hb := fixed_table syn (mem_synL syn) t ht
  simp only [fixedBase, Bool.and_eq_true, decide_eq_true_eq, Bool.or_eq_true, Bool.not_eq_true',
    beq_iff_eq, List.isEmpty_eq_false_iff, bne_iff_ne, ne_eq] at hb
  obtain ⟨⟨⟨⟨⟨⟨_, hne⟩, hbest⟩, hend⟩, hdata⟩, hblank⟩, hword⟩ := hb
  show ChainN syn [.blank _, .tok _ t .none, .blank _] nx
  rw [chainN_blank, chainN_tok, chainN_blank]
  refine ⟨⟨hne, hbest, hend, hdata, ?_⟩, trivial⟩
  intro c hc
  cases hb2 : (fparts syn t).2.2 with
  | succ n =>
    rw [hb2, firstU_blank_succ] at hc
    cases hc
    rcases hblank with h0 | h0
    · rw [hb2] at h0; cases h0
    · exact h0
  | zero =>
    rw [hb2, firstU_blank_zero, firstU_nil] at hc
    subst hc
    simp only [fixedNextOK, freeTok, hb2, Bool.or_eq_true, bne_iff_ne, ne_eq, not_true_eq_false, false_or,
      Bool.and_eq_true, List.isEmpty_iff] at h
    rcases h with ⟨hs, hx⟩ | h
    · exact ext_symbol_nil syn _ c hs hx
    · cases hs : symStart syn (fparts syn t).2.1 with
      | true =>
        rw [hs] at h
        simp only [if_true, Bool.not_eq_true', List.contains_eq_mem, decide_eq_false_iff_not] at h
        exact ext_symbol syn _ c hs h
      | false =>
        rw [hs] at h hword
        simp only [Bool.false_eq_true, if_false, Bool.or_eq_true, Bool.not_eq_true', Bool.and_eq_true,
          beq_iff_eq] at h
        simp only [Bool.false_eq_true, false_or, Bool.and_eq_true, Bool.not_eq_true', Bool.or_eq_true,
          bne_iff_ne, ne_eq] at hword
        obtain ⟨⟨hall, h44⟩, hBB⟩ := hword
        rcases h with h | ⟨h1, h2⟩
        · by_cases hc44 : c = 44
          · subst hc44; exact h44
          · exact ext_word syn _ c hne hall h hc44
        · subst h2
          rcases hBB with hBB | hBB
          · simp [bne, h1] at hBB
          · exact hBB

/-- tokens that accept any following unit, in both syntaxes -/
def freeL : List Tok := [.PUNC_PL, .PUNC_PR, .PUNC_CR, .PUNC_SL, .PUNC_SR, .PUNC_COMMA, .PUNC_BAR, .IN,
  .DECART, .NOT, .FORALL, .EXISTS, .LIT_EMPTYSET,
  .PLUS, .MINUS, .MULTIPLY, .UNION, .INTERSECTION, .SET_MINUS, .SYMMINUS,
  .NOTIN, .SUBSET, .SUBSET_OR_EQ, .NOTSUBSET, .NOTEQUAL, .EQUAL, .GREATER, .LESSER, .GREATER_OR_EQ, .LESSER_OR_EQ,
  .EQUIVALENT, .IMPLICATION, .OR, .AND, .ITERATE, .PUNC_SEMICOLON]

/-- (generated tables) these spellings end with a blank or are symbols no literal of the lexer extends; their first
unit is not alphanumeric -/
theorem free_table : ∀ syn ∈ synL, ∀ t ∈ freeL, freeTok syn t = true ∧ memb t fragFixed = true ∧
    (match (str syn t).head? with | some c => !isAlnum syn c | none => false) = true := by
  decide +kernel

theorem fx_chain_free (syn : Syn) (t : Tok) (ht : t ∈ freeL) (nx : Option Nat) : ChainN syn (fx syn t) nx := by
  have h := free_table syn (mem_synL syn) t ht
  exact fx_chain syn t (mem_of_memb h.2.1) nx (by simp [fixedNextOK, h.1])

/-- the first unit of a text that starts with a free token is not alphanumeric -/
theorem firstU_free (syn : Syn) (t : Tok) (ht : t ∈ freeL) (R : List Item) (nx : Option Nat) :
    ∃ c, firstU (fx syn t ++ R) nx = some c ∧ isAlnum syn c = false := by
  have h := free_table syn (mem_synL syn) t ht
  have hr := render_fx syn t (mem_of_memb h.2.1)
  cases hs : str syn t with
  | nil => rw [hs] at h; simp at h
  | cons c r =>
    refine ⟨c, ?_, ?_⟩
    · rw [firstU_append]; unfold firstU; rw [hr, hs]
    · have := h.2.2; rw [hs] at this; simpa using this

theorem mem_freeL_set7 (t : Tok) (h : isSetOp7 t = true) : t ∈ freeL := by
  cases t <;> first | (simp [freeL]; done) | (exact absurd h (by decide))
theorem mem_freeL_pred (t : Tok) (h : isPredOp t = true) : t ∈ freeL := by
  cases t <;> first | (simp [freeL]; done) | (exact absurd h (by decide))
theorem mem_freeL_logic (t : Tok) (h : isLogicOp t = true) : t ∈ freeL := by
  cases t <;> first | (simp [freeL]; done) | (exact absurd h (by decide))
theorem mem_freeL_quant (t : Tok) (h : (t == .FORALL || t == .EXISTS) = true) : t ∈ freeL := by
  cases t <;> first | (simp [freeL]; done) | (exact absurd h (by decide))

/-! ## the hypothesis on leaves, and the items of a phrase -/

/-- payloads of all leaves are what the lexer of `syn` produces for their printed spelling -/
def E3.lexOK (syn : Syn) : E3 → Bool
  | .atom id d => leafOK syn id d
  | .text f d a => nameOK f d && a.lexOK syn
  | .sbin _ l r => l.lexOK syn && r.lexOK syn
  | .prod2 a b => a.lexOK syn && b.lexOK syn
  | .prodN p k => p.lexOK syn && k.lexOK syn
  | .pred _ l r => l.lexOK syn && r.lexOK syn
  | .neg x => x.lexOK syn
  | .lbin _ l r => l.lexOK syn && r.lexOK syn
  | .pow a => a.lexOK syn
  | .one a => a.lexOK syn
  | .more a l => a.lexOK syn && l.lexOK syn
  | .enum l => l.lexOK syn
  | .tuple a l => a.lexOK syn && l.lexOK syn
  | .fcall d l => leafOK syn .ID_FUNCTION d && l.lexOK syn
  | .pcall d l => leafOK syn .ID_PREDICATE d && l.lexOK syn
  | .filter d ps arg => nameOK .FILTER d && ps.lexOK syn && arg.lexOK syn
  | .quant _ vs dom body => vs.lexOK syn && dom.lexOK syn && body.lexOK syn
  | .decl v dom body => v.lexOK syn && dom.lexOK syn && body.lexOK syn
  | .recS v d s => v.lexOK syn && d.lexOK syn && s.lexOK syn
  | .recF v d c s => v.lexOK syn && d.lexOK syn && c.lexOK syn && s.lexOK syn
  | .imp val bs => val.lexOK syn && bs.lexOK syn
  | .bone b => b.lexOK syn
  | .boneK _ v s => v.lexOK syn && s.lexOK syn
  | .bmore b l => b.lexOK syn && l.lexOK syn
  | .bmoreK _ v s l => v.lexOK syn && s.lexOK syn && l.lexOK syn

/-- the printed text of a phrase as items -/
def E3.items (syn : Syn) : E3 → List Item
  | .atom id d => leafItems syn id d
  | .text f d a => nameItems syn f d ++ (fx syn .PUNC_PL ++ (a.items syn ++ fx syn .PUNC_PR))
  | .sbin op l r =>
    wrapI syn (brSet op l.top .left) (l.items syn) ++ (fx syn op ++ wrapI syn (brSet op r.top .right) (r.items syn))
  | .prod2 a b =>
    wrapI syn (brProd true a.top) (a.items syn) ++ (fx syn .DECART ++ wrapI syn (brProd false b.top) (b.items syn))
  | .prodN p k => p.items syn ++ (fx syn .DECART ++ wrapI syn (brProd false k.top) (k.items syn))
  | .pred op l r => l.items syn ++ (fx syn op ++ r.items syn)
  | .neg x => fx syn .NOT ++ wrapI syn (brNot x.top) (x.items syn)
  | .lbin op l r =>
    wrapI syn (brLogic op l.top .left) (l.items syn) ++
      (.blank 1 :: (fx syn op ++ (.blank 1 :: wrapI syn (brLogic op r.top .right) (r.items syn))))
  | .pow a => fx syn .BOOLEAN ++ wrapI syn (!a.isPow) (a.items syn)
  | .one a => a.items syn
  | .more a l => a.items syn ++ (fx syn .PUNC_COMMA ++ (.blank 1 :: l.items syn))
  | .enum l => fx syn .PUNC_CL ++ (l.items syn ++ fx syn .PUNC_CR)
  | .tuple a l => fx syn .PUNC_PL ++ (a.items syn ++ (fx syn .PUNC_COMMA ++ (.blank 1 :: (l.items syn ++ fx syn .PUNC_PR))))
  | .fcall d l => leafItems syn .ID_FUNCTION d ++ (fx syn .PUNC_SL ++ (l.items syn ++ fx syn .PUNC_SR))
  | .pcall d l => leafItems syn .ID_PREDICATE d ++ (fx syn .PUNC_SL ++ (l.items syn ++ fx syn .PUNC_SR))
  | .filter d ps arg =>
    nameItems syn .FILTER d ++ (fx syn .PUNC_SL ++ (ps.items syn ++ (fx syn .PUNC_SR ++ (fx syn .PUNC_PL ++
      (arg.items syn ++ fx syn .PUNC_PR)))))
  | .quant q vs dom body =>
    fx syn q ++ (vs.items syn ++ (fx syn .IN ++ (dom.items syn ++ (.blank 1 :: wrapI syn (brQ q body.top) (body.items syn)))))
  | .decl v dom body =>
    fx syn .DECLARATIVE ++ (fx syn .PUNC_CL ++ (v.items syn ++ (fx syn .IN ++ (dom.items syn ++
      (.blank 1 :: (fx syn .PUNC_BAR ++ (.blank 1 :: (body.items syn ++ fx syn .PUNC_CR))))))))
  | .recS v d s =>
    fx syn .RECURSIVE ++ (fx syn .PUNC_CL ++ (v.items syn ++ (fx syn .ASSIGN ++ (d.items syn ++
      (.blank 1 :: (fx syn .PUNC_BAR ++ (.blank 1 :: (s.items syn ++ fx syn .PUNC_CR))))))))
  | .recF v d c s =>
    fx syn .RECURSIVE ++ (fx syn .PUNC_CL ++ (v.items syn ++ (fx syn .ASSIGN ++ (d.items syn ++
      (.blank 1 :: (fx syn .PUNC_BAR ++ (.blank 1 :: (c.items syn ++
        (.blank 1 :: (fx syn .PUNC_BAR ++ (.blank 1 :: (s.items syn ++ fx syn .PUNC_CR))))))))))))
  | .imp val bs =>
    fx syn .IMPERATIVE ++ (fx syn .PUNC_CL ++ (val.items syn ++
      (.blank 1 :: (fx syn .PUNC_BAR ++ (.blank 1 :: (bs.items syn ++ fx syn .PUNC_CR))))))
  | .bone b => b.items syn
  | .boneK op v s => v.items syn ++ (fx syn op ++ s.items syn)
  | .bmore b l => b.items syn ++ (fx syn .PUNC_SEMICOLON ++ (.blank 1 :: l.items syn))
  | .bmoreK op v s l => v.items syn ++ (fx syn op ++ (s.items syn ++ (fx syn .PUNC_SEMICOLON ++ (.blank 1 :: l.items syn))))

/-! ## the items carry the token sequence -/

theorem kds_wrapI (syn : Syn) (b : Bool) (is : List Item) (ts : Toks) (h : kds is = ts.map kd2) :
    kds (wrapI syn b is) = (wrap b ts).map kd2 := by
  cases b
  · exact h
  · simp only [wrapI, wrap, if_true, kds_append, kds_fx, h, List.map_cons, List.map_append, List.map_nil]
    rfl

theorem kds_leaf (syn : Syn) (id : Tok) (d : TokData) (h : leafOK syn id d = true) :
    kds (leafItems syn id d) = [(id, d)] := by
  cases d with
  | none => rfl
  | int n => rfl
  | text s => rfl
  | tuple idx => cases id <;> simp [leafOK] at h

theorem kds_name (syn : Syn) (f : Tok) (d : TokData) (h : nameOK f d = true) :
    kds (nameItems syn f d) = [(f, d)] := by
  cases d with
  | none => rfl
  | tuple idx => rfl
  | int n => simp [nameOK] at h
  | text s => simp [nameOK] at h

theorem kds_items (syn : Syn) : ∀ e : E3, e.lexOK syn = true → kds (e.items syn) = e.toks.map kd2
  | .atom id d, h => by simp only [E3.lexOK] at h; rw [E3.items, kds_leaf syn id d h]; rfl
  | .text f d a, h => by
    simp only [E3.lexOK, Bool.and_eq_true] at h
    simp only [E3.items, E3.toks, kds_append, kds_name syn f d h.1, kds_fx, kds_items syn a h.2, List.map_cons,
      List.map_append, List.map_nil]
    rfl
  | .sbin op l r, h => by
    simp only [E3.lexOK, Bool.and_eq_true] at h
    simp only [E3.items, E3.toks, kds_append, kds_fx, kds_wrapI syn _ _ _ (kds_items syn l h.1),
      kds_wrapI syn _ _ _ (kds_items syn r h.2), List.map_cons, List.map_append]
    rfl
  | .prod2 a b, h => by
    simp only [E3.lexOK, Bool.and_eq_true] at h
    simp only [E3.items, E3.toks, kds_append, kds_fx, kds_wrapI syn _ _ _ (kds_items syn a h.1),
      kds_wrapI syn _ _ _ (kds_items syn b h.2), List.map_cons, List.map_append]
    rfl
  | .prodN p k, h => by
    simp only [E3.lexOK, Bool.and_eq_true] at h
    simp only [E3.items, E3.toks, kds_append, kds_fx, kds_items syn p h.1,
      kds_wrapI syn _ _ _ (kds_items syn k h.2), List.map_cons, List.map_append]
    rfl
  | .pred op l r, h => by
    simp only [E3.lexOK, Bool.and_eq_true] at h
    simp only [E3.items, E3.toks, kds_append, kds_fx, kds_items syn l h.1, kds_items syn r h.2, List.map_cons,
      List.map_append]
    rfl
  | .neg x, h => by
    simp only [E3.lexOK] at h
    simp only [E3.items, E3.toks, kds_append, kds_fx, kds_wrapI syn _ _ _ (kds_items syn x h), List.map_cons]
    rfl
  | .lbin op l r, h => by
    simp only [E3.lexOK, Bool.and_eq_true] at h
    simp only [E3.items, E3.toks, kds_append, kds_blank, kds_fx, kds_wrapI syn _ _ _ (kds_items syn l h.1),
      kds_wrapI syn _ _ _ (kds_items syn r h.2), List.map_cons, List.map_append]
    rfl
  | .pow a, h => by
    simp only [E3.lexOK] at h
    have := kds_wrapI syn (!a.isPow) _ _ (kds_items syn a h)
    simp only [E3.items, E3.toks, kds_append, kds_fx, this]
    cases a.isPow <;> rfl
  | .one a, h => by simp only [E3.lexOK] at h; exact kds_items syn a h
  | .more a l, h => by
    simp only [E3.lexOK, Bool.and_eq_true] at h
    simp only [E3.items, E3.toks, kds_append, kds_blank, kds_fx, kds_items syn a h.1, kds_items syn l h.2,
      List.map_cons, List.map_append]
    rfl
  | .enum l, h => by
    simp only [E3.lexOK] at h
    simp only [E3.items, E3.toks, kds_append, kds_fx, kds_items syn l h, List.map_cons, List.map_append, List.map_nil]
    rfl
  | .tuple a l, h => by
    simp only [E3.lexOK, Bool.and_eq_true] at h
    simp only [E3.items, E3.toks, kds_append, kds_blank, kds_fx, kds_items syn a h.1, kds_items syn l h.2,
      List.map_cons, List.map_append, List.map_nil]
    rfl
  | .fcall d l, h => by
    simp only [E3.lexOK, Bool.and_eq_true] at h
    simp only [E3.items, E3.toks, kds_append, kds_fx, kds_leaf syn _ d h.1, kds_items syn l h.2, List.map_cons,
      List.map_append, List.map_nil]
    rfl
  | .pcall d l, h => by
    simp only [E3.lexOK, Bool.and_eq_true] at h
    simp only [E3.items, E3.toks, kds_append, kds_fx, kds_leaf syn _ d h.1, kds_items syn l h.2, List.map_cons,
      List.map_append, List.map_nil]
    rfl
  | .filter d ps arg, h => by
    simp only [E3.lexOK, Bool.and_eq_true] at h
    simp only [E3.items, E3.toks, kds_append, kds_fx, kds_name syn _ d h.1.1, kds_items syn ps h.1.2,
      kds_items syn arg h.2, List.map_cons, List.map_append, List.map_nil]
    rfl
  | .quant q vs dom body, h => by
    simp only [E3.lexOK, Bool.and_eq_true] at h
    simp only [E3.items, E3.toks, kds_append, kds_blank, kds_fx, kds_items syn vs h.1.1, kds_items syn dom h.1.2,
      kds_wrapI syn _ _ _ (kds_items syn body h.2), List.map_cons, List.map_append]
    rfl
  | .decl v dom body, h => by
    simp only [E3.lexOK, Bool.and_eq_true] at h
    simp only [E3.items, E3.toks, kds_append, kds_blank, kds_fx, kds_items syn v h.1.1, kds_items syn dom h.1.2,
      kds_items syn body h.2, List.map_cons, List.map_append, List.map_nil]
    rfl
  | .recS v d s, h => by
    simp only [E3.lexOK, Bool.and_eq_true] at h
    simp only [E3.items, E3.toks, kds_append, kds_blank, kds_fx, kds_items syn v h.1.1, kds_items syn d h.1.2,
      kds_items syn s h.2, List.map_cons, List.map_append, List.map_nil]
    rfl
  | .recF v d c s, h => by
    simp only [E3.lexOK, Bool.and_eq_true] at h
    simp only [E3.items, E3.toks, kds_append, kds_blank, kds_fx, kds_items syn v h.1.1.1, kds_items syn d h.1.1.2,
      kds_items syn c h.1.2, kds_items syn s h.2, List.map_cons, List.map_append, List.map_nil]
    rfl
  | .imp val bs, h => by
    simp only [E3.lexOK, Bool.and_eq_true] at h
    simp only [E3.items, E3.toks, kds_append, kds_blank, kds_fx, kds_items syn val h.1, kds_items syn bs h.2,
      List.map_cons, List.map_append, List.map_nil]
    rfl
  | .bone b, h => by simp only [E3.lexOK] at h; exact kds_items syn b h
  | .boneK op v s, h => by
    simp only [E3.lexOK, Bool.and_eq_true] at h
    simp only [E3.items, E3.toks, kds_append, kds_fx, kds_items syn v h.1, kds_items syn s h.2, List.map_cons,
      List.map_append]
    rfl
  | .bmore b l, h => by
    simp only [E3.lexOK, Bool.and_eq_true] at h
    simp only [E3.items, E3.toks, kds_append, kds_blank, kds_fx, kds_items syn b h.1, kds_items syn l h.2,
      List.map_cons, List.map_append]
    rfl
  | .bmoreK op v s l, h => by
    simp only [E3.lexOK, Bool.and_eq_true] at h
    simp only [E3.items, E3.toks, kds_append, kds_blank, kds_fx, kds_items syn v h.1.1, kds_items syn s h.1.2,
      kds_items syn l h.2, List.map_cons, List.map_append]
    rfl

/-! ## the items of a phrase form a chain -/

theorem nextOK_none (syn : Syn) : NextOK syn none := fun _ h => by cases h

theorem nextOK_free (syn : Syn) (t : Tok) (ht : t ∈ freeL) (R : List Item) (nx : Option Nat) :
    NextOK syn (firstU (fx syn t ++ R) nx) := by
  obtain ⟨c, hc, ha⟩ := firstU_free syn t ht R nx
  intro c' h'; rw [hc] at h'; cases h'; exact ha

theorem nextOK_blank (syn : Syn) (n : Nat) (R : List Item) (nx : Option Nat) :
    NextOK syn (firstU (.blank (n + 1) :: R) nx) := by
  intro c h; rw [firstU_blank_succ] at h; cases h; cases syn <;> rfl

theorem chain_app {syn : Syn} {a b : List Item} {nx : Option Nat} (ha : ChainN syn a (firstU b nx))
    (hb : ChainN syn b nx) : ChainN syn (a ++ b) nx := (chainN_append syn a b nx).2 ⟨ha, hb⟩

theorem alnum_not_alnum {syn : Syn} {w : List Nat} (hall : w.all (isAlnum syn) = true) (hne : w ≠ []) :
    ∃ c r, w = c :: r ∧ isAlnum syn c = true := by
  cases w with
  | nil => exact absurd rfl hne
  | cons c r => simp only [List.all_cons, Bool.and_eq_true] at hall; exact ⟨c, r, rfl, hall.1⟩

/-- a word token that is not an indexed `pr/Pr/Fi` is lexed as itself before any non-alphanumeric unit -/
theorem word_tokOK (syn : Syn) (w : List Nat) (id : Tok) (d : TokData) (nx : Option Nat) (hne : w ≠ [])
    (hall : w.all (isAlnum syn) = true)
    (hb : bestRule syn w (rulesOf syn) none = some (w.length, .tok id))
    (hid : id ≠ .SMALLPR ∧ id ≠ .BIGPR ∧ id ≠ .FILTER ∧ id ≠ .END) (hd : parseData id w = d) (hn : NextOK syn nx) :
    tokOK syn w id d nx := by
  refine ⟨hne, hb, hid.2.2.2, hd, ?_⟩
  intro c hc
  by_cases h44 : c = 44
  · subst h44; exact ext_word_comma syn w id hne hall hb ⟨hid.1, hid.2.1, hid.2.2.1⟩
  · exact ext_word syn w c hne hall (hn c hc) h44

theorem digits_alnum (syn : Syn) (w : List Nat) (h : w.all isDigit = true) : w.all (isAlnum syn) = true := by
  rw [List.all_eq_true] at h ⊢
  intro x hx; exact isDigit_alnum (h x hx)

/-- words among the fixed spellings -/
def wordL : List Tok := [.LIT_INTSET, .DECLARATIVE, .BOOL, .DEBOOL, .REDUCE, .CARD, .BOOLEAN, .RECURSIVE, .IMPERATIVE]

theorem word_table : ∀ syn ∈ synL, ∀ t ∈ wordL, memb t fragFixed = true ∧
    (freeTok syn t || !symStart syn (fparts syn t).2.1) = true := by
  decide +kernel

theorem fx_chain_word (syn : Syn) (t : Tok) (ht : t ∈ wordL) (nx : Option Nat) (hn : NextOK syn nx) :
    ChainN syn (fx syn t) nx := by
  have h := word_table syn (mem_synL syn) t ht
  refine fx_chain syn t (mem_of_memb h.1) nx ?_
  have h2 := h.2
  simp only [Bool.or_eq_true, Bool.not_eq_true'] at h2
  rcases h2 with h2 | h2
  · simp [fixedNextOK, h2]
  · cases nx with
    | none => simp [fixedNextOK]
    | some c => simp [fixedNextOK, h2, hn c rfl]

theorem leaf_chain (syn : Syn) (id : Tok) (d : TokData) (h : leafOK syn id d = true) (nx : Option Nat)
    (hn : NextOK syn nx) : ChainN syn (leafItems syn id d) nx := by
  cases d with
  | int n =>
    have hid : id = .LIT_INTEGER := by cases id <;> simp [leafOK] at h <;> rfl
    subst hid
    simp only [leafOK, intOK, Bool.and_eq_true, decide_eq_true_eq] at h
    show ChainN syn [.tok (decInt n) .LIT_INTEGER (.int n)] nx
    rw [chainN_tok]
    exact ⟨word_tokOK syn _ _ _ nx (decInt_ne_nil n h.1) (digits_alnum syn _ (decInt_digits n h.1)) (best_decInt syn n h.1)
      (by decide) (parseData_int n h.1 h.2) hn, trivial⟩
  | text s =>
    have hid : (id = .ID_LOCAL ∨ id = .ID_GLOBAL ∨ id = .ID_FUNCTION ∨ id = .ID_PREDICATE ∨ id = .ID_RADICAL) ∧
        idOK syn id s = true := by
      cases id <;> simp [leafOK] at h <;> simp [h]
    obtain ⟨hid, hok⟩ := hid
    simp only [idOK, Bool.and_eq_true, decide_eq_true_eq, Bool.not_eq_true', List.isEmpty_eq_false_iff] at hok
    show ChainN syn [.tok (stringUnits s) id (.text s)] nx
    rw [chainN_tok]
    refine ⟨word_tokOK syn _ _ _ nx hok.1.1 hok.1.2 hok.2 ?_ (parseData_id id hid s) hn, trivial⟩
    rcases hid with h | h | h | h | h <;> subst h <;> decide
  | none =>
    show ChainN syn (fx syn id) nx
    have hid : id = .LIT_INTSET ∨ id = .LIT_EMPTYSET := by cases id <;> simp [leafOK] at h <;> simp
    rcases hid with rfl | rfl
    · exact fx_chain_word syn _ (by simp [wordL]) nx hn
    · exact fx_chain_free syn _ (by simp [freeL]) nx
  | tuple idx => cases id <;> simp [leafOK] at h

theorem idxOK_of_b {idx : List Int} (h : idxOKb idx = true) : idxOK idx := by
  simp only [idxOKb, Bool.and_eq_true, Bool.not_eq_true', List.isEmpty_eq_false_iff, List.all_eq_true,
    decide_eq_true_eq] at h
  exact ⟨h.1, h.2⟩

/-- the name of a text operator / filter before `(` or `[` -/
theorem name_chain (syn : Syn) (f : Tok) (d : TokData) (h : nameOK f d = true) (c : Nat) (hc : isAlnum syn c = false)
    (h44 : c ≠ 44) : ChainN syn (nameItems syn f d) (some c) := by
  cases d with
  | tuple idx =>
    simp only [nameOK, Bool.and_eq_true, Bool.or_eq_true] at h
    have hf : f = .BIGPR ∨ f = .SMALLPR ∨ f = .FILTER := by
      have := h.1; cases f <;> first | exact Or.inl rfl | exact Or.inr (Or.inl rfl) | exact Or.inr (Or.inr rfl) | (revert this; decide)
    have hi := idxOK_of_b h.2
    show ChainN syn [.tok (str .math f ++ idxText idx) f (.tuple idx)] (some c)
    rw [chainN_tok]
    obtain ⟨dg, r, hdr, hdg⟩ := idxText_head_digit idx hi
    refine ⟨⟨?_, best_index syn f hf idx hi, ?_, parseData_index f hf idx hi, ?_⟩, trivial⟩
    · rw [hdr]; simp
    · rcases hf with rfl | rfl | rfl <;> decide
    · intro c' hc'
      rw [firstU_nil] at hc'; cases hc'
      exact ext_hasDigit syn _ c (by rw [hdr]; simp [hdg]) hc h44
  | none =>
    show ChainN syn (fx syn f) (some c)
    have hf : f ∈ wordL := by
      simp only [nameOK, Bool.or_eq_true] at h
      cases f <;> first | (simp [wordL]; done) | (exact absurd h (by decide))
    exact fx_chain_word syn f hf _ (fun c' h' => by cases h'; exact hc)
  | int n => simp [nameOK] at h
  | text s => simp [nameOK] at h

/-- (generated tables) the brackets are spelled `( [ {` with nothing around them, `D` is followed by `{` -/
theorem bracket_spell : ∀ syn ∈ synL, str syn .PUNC_PL = [40] ∧ str syn .PUNC_SL = [91] ∧ str syn .PUNC_CL = [123] ∧
    (match (str syn .BOOLEAN) with | [c] => fixedNextOK syn .BOOLEAN (some c) && fixedNextOK syn .BOOLEAN (some 40) | _ => false) = true ∧
    (freeTok syn .PUNC_CL || (symStart syn (fparts syn .PUNC_CL).2.1 && extChars syn (fparts syn .PUNC_CL).2.1 == [125])) = true := by
  decide +kernel

theorem firstU_fx (syn : Syn) (t : Tok) (ht : t ∈ fragFixed) (c : Nat) (r : List Nat) (hs : str syn t = c :: r)
    (R : List Item) (nx : Option Nat) : firstU (fx syn t ++ R) nx = some c := by
  rw [firstU_append]; unfold firstU; rw [render_fx syn t ht, hs]

theorem wrapI_chain (syn : Syn) (b : Bool) (is : List Item) (nx : Option Nat)
    (h : ∀ nx', NextOK syn nx' → ChainN syn is nx') (hn : NextOK syn nx) : ChainN syn (wrapI syn b is) nx := by
  cases b with
  | false => exact h nx hn
  | true =>
    show ChainN syn (fx syn .PUNC_PL ++ is ++ fx syn .PUNC_PR) nx
    rw [List.append_assoc]
    refine chain_app (fx_chain_free syn _ (by simp [freeL]) _) (chain_app (h _ ?_) (fx_chain_free syn _ (by simp [freeL]) _))
    have := nextOK_free syn .PUNC_PR (by simp [freeL]) [] nx
    simpa using this

theorem nextOK_wrapI_true (syn : Syn) (is R : List Item) (nx : Option Nat) :
    firstU (wrapI syn true is ++ R) nx = some 40 := by
  show firstU (fx syn .PUNC_PL ++ is ++ fx syn .PUNC_PR ++ R) nx = some 40
  rw [List.append_assoc, List.append_assoc]
  exact firstU_fx syn _ (by simp [fragFixed]) 40 [] (bracket_spell syn (mem_synL syn)).1 _ _

/-! ## how the text of a set phrase starts -/

/-- fixed spellings that can start a set phrase -/
def startFixedL : List Tok := [.PUNC_PL, .PUNC_CL, .BOOLEAN, .DECLARATIVE, .LIT_INTSET, .LIT_EMPTYSET, .BOOL, .DEBOOL,
  .REDUCE, .CARD, .RECURSIVE, .IMPERATIVE]

/-- (generated tables) none of them starts with `}` or `=`; nor do `Pr pr Fi` -/
theorem start_table : (∀ syn ∈ synL, ∀ t ∈ startFixedL, memb t fragFixed = true ∧
      (match (str syn t).head? with | some c => c != 125 && c != 61 | none => false) = true) ∧
    (∀ t ∈ [Tok.BIGPR, .SMALLPR, .FILTER],
      (match (str .math t).head? with | some c => c != 125 && c != 61 | none => false) = true) := by
  decide +kernel

theorem render_head_append {a : List Item} {c : Nat} {r : List Nat} (b : List Item) (h : render a = c :: r) :
    render (a ++ b) = c :: (r ++ render b) := by rw [render_append, h]; rfl

theorem firstU_of_render {a : List Item} {c : Nat} {r : List Nat} (h : render a = c :: r) (R : List Item)
    (nx : Option Nat) : firstU (a ++ R) nx = some c := by
  rw [firstU_append]; unfold firstU; rw [h]

theorem fx_head (syn : Syn) (t : Tok) (ht : t ∈ startFixedL) : ∃ c r, render (fx syn t) = c :: r ∧ (c ≠ 125 ∧ c ≠ 61) := by
  have h := start_table.1 syn (mem_synL syn) t ht
  rw [render_fx syn t (mem_of_memb h.1)]
  cases hs : str syn t with
  | nil => rw [hs] at h; simp at h
  | cons c r => refine ⟨c, r, rfl, ?_⟩; have := h.2; rw [hs] at this; simpa using this

theorem leaf_head (syn : Syn) (id : Tok) (d : TokData) (h : leafOK syn id d = true) :
    ∃ c r, render (leafItems syn id d) = c :: r ∧ (c ≠ 125 ∧ c ≠ 61) := by
  cases d with
  | int n =>
    have hid : id = .LIT_INTEGER := by cases id <;> simp [leafOK] at h <;> rfl
    subst hid
    simp only [leafOK, intOK, Bool.and_eq_true, decide_eq_true_eq] at h
    obtain ⟨c, r, hcr, hc⟩ := alnum_not_alnum (digits_alnum syn _ (decInt_digits n h.1)) (decInt_ne_nil n h.1)
    refine ⟨c, r, by simp [leafItems, render, Item.text, hcr], ?_⟩
    constructor <;> (rintro rfl; cases syn <;> simp [isAlnum, isDigit, isAlpha, isUpper, isLower] at hc)
  | text s =>
    have hok : idOK syn id s = true := by cases id <;> simp [leafOK] at h <;> exact h
    simp only [idOK, Bool.and_eq_true, decide_eq_true_eq, Bool.not_eq_true', List.isEmpty_eq_false_iff] at hok
    obtain ⟨c, r, hcr, hc⟩ := alnum_not_alnum hok.1.2 hok.1.1
    refine ⟨c, r, by simp [leafItems, render, Item.text, hcr], ?_⟩
    constructor <;> (rintro rfl; cases syn <;> simp [isAlnum, isDigit, isAlpha, isUpper, isLower] at hc)
  | none =>
    have hid : id = .LIT_INTSET ∨ id = .LIT_EMPTYSET := by cases id <;> simp [leafOK] at h <;> simp
    rcases hid with rfl | rfl <;> exact fx_head syn _ (by simp [startFixedL])
  | tuple idx => cases id <;> simp [leafOK] at h

theorem name_head (syn : Syn) (f : Tok) (d : TokData) (h : nameOK f d = true) :
    ∃ c r, render (nameItems syn f d) = c :: r ∧ (c ≠ 125 ∧ c ≠ 61) := by
  cases d with
  | tuple idx =>
    simp only [nameOK, Bool.and_eq_true, Bool.or_eq_true] at h
    have hf : f ∈ [Tok.BIGPR, .SMALLPR, .FILTER] := by
      have := h.1; cases f <;> first | (simp; done) | (exact absurd this (by decide))
    have ht := start_table.2 f hf
    cases hs : str .math f with
    | nil => rw [hs] at ht; simp at ht
    | cons c r =>
      refine ⟨c, r ++ idxText idx, by simp [nameItems, render, Item.text, hs], ?_⟩
      rw [hs] at ht; simpa using ht
  | none =>
    have hf : f ∈ startFixedL := by
      simp only [nameOK, Bool.or_eq_true] at h
      cases f <;> first | (simp [startFixedL]; done) | (exact absurd h (by decide))
    exact fx_head syn f hf
  | int n => simp [nameOK] at h
  | text s => simp [nameOK] at h

theorem head_app {a : List Item} (b : List Item) (h : ∃ c r, render a = c :: r ∧ (c ≠ 125 ∧ c ≠ 61)) :
    ∃ c r, render (a ++ b) = c :: r ∧ (c ≠ 125 ∧ c ≠ 61) := by
  obtain ⟨c, r, hcr, hc⟩ := h
  exact ⟨c, _, render_head_append b hcr, hc⟩

theorem wrapI_head (syn : Syn) (b : Bool) (is : List Item) (h : ∃ c r, render is = c :: r ∧ (c ≠ 125 ∧ c ≠ 61)) :
    ∃ c r, render (wrapI syn b is) = c :: r ∧ (c ≠ 125 ∧ c ≠ 61) := by
  cases b
  · exact h
  · have := head_app (is ++ fx syn .PUNC_PR) (fx_head syn .PUNC_PL (by simp [startFixedL]))
    rw [← List.append_assoc] at this
    exact this

/-- the text of a set phrase (or of a list of set phrases) does not start with `}` -/
theorem items_head (syn : Syn) : ∀ e : E3, e.wf = true → e.lexOK syn = true → (e.isS = true ∨ e.isA = true) →
    ∃ c r, render (e.items syn) = c :: r ∧ (c ≠ 125 ∧ c ≠ 61)
  | .atom id d, _, hl, _ => by simp only [E3.lexOK] at hl; exact leaf_head syn id d hl
  | .text f d a, _, hl, _ => by
    simp only [E3.lexOK, Bool.and_eq_true] at hl
    exact head_app _ (name_head syn f d hl.1)
  | .sbin op l r, hw, hl, _ => by
    simp only [E3.wf, Bool.and_eq_true] at hw
    simp only [E3.lexOK, Bool.and_eq_true] at hl
    exact head_app _ (wrapI_head syn _ _ (items_head syn l hw.1.2 hl.1 (Or.inl hw.1.1.1.2)))
  | .prod2 a b, hw, hl, _ => by
    simp only [E3.wf, Bool.and_eq_true] at hw
    simp only [E3.lexOK, Bool.and_eq_true] at hl
    exact head_app _ (wrapI_head syn _ _ (items_head syn a hw.1.2 hl.1 (Or.inl hw.1.1.1)))
  | .prodN p k, hw, hl, _ => by
    simp only [E3.wf, Bool.and_eq_true] at hw
    simp only [E3.lexOK, Bool.and_eq_true] at hl
    exact head_app _ (items_head syn p hw.1.2 hl.1 (Or.inl (isS_of_isProd2 hw.1.1.1)))
  | .pow a, _, _, _ => head_app _ (fx_head syn _ (by simp [startFixedL]))
  | .one a, hw, hl, _ => by
    simp only [E3.wf, Bool.and_eq_true] at hw
    simp only [E3.lexOK] at hl
    exact items_head syn a hw.2 hl (Or.inl hw.1)
  | .more a l, hw, hl, _ => by
    simp only [E3.wf, Bool.and_eq_true] at hw
    simp only [E3.lexOK, Bool.and_eq_true] at hl
    exact head_app _ (items_head syn a hw.1.2 hl.1 (Or.inl hw.1.1.1))
  | .enum l, _, _, _ => head_app _ (fx_head syn _ (by simp [startFixedL]))
  | .tuple a l, _, _, _ => head_app _ (fx_head syn _ (by simp [startFixedL]))
  | .fcall d l, _, hl, _ => by
    simp only [E3.lexOK, Bool.and_eq_true] at hl
    exact head_app _ (leaf_head syn _ d hl.1)
  | .filter d ps arg, _, hl, _ => by
    simp only [E3.lexOK, Bool.and_eq_true] at hl
    exact head_app _ (name_head syn _ d hl.1.1)
  | .decl v dm b, _, _, _ => head_app _ (fx_head syn _ (by simp [startFixedL]))
  | .recS .., _, _, _ => head_app _ (fx_head syn _ (by simp [startFixedL]))
  | .recF .., _, _, _ => head_app _ (fx_head syn _ (by simp [startFixedL]))
  | .imp .., _, _, _ => head_app _ (fx_head syn _ (by simp [startFixedL]))
  | .bone _, _, _, h | .boneK .., _, _, h | .bmore .., _, _, h | .bmoreK .., _, _, h
  | .pred .., _, _, h | .neg _, _, _, h | .lbin .., _, _, h | .pcall .., _, _, h | .quant .., _, _, h => by
    simp [E3.isS, E3.isA] at h

theorem nextOK_free' (syn : Syn) (t : Tok) (ht : t ∈ freeL) (nx : Option Nat) : NextOK syn (firstU (fx syn t) nx) := by
  have := nextOK_free syn t ht [] nx
  simpa using this

theorem cl_chain (syn : Syn) (nx : Option Nat) (h : nx ≠ some 125) : ChainN syn (fx syn .PUNC_CL) nx := by
  have hb := (bracket_spell syn (mem_synL syn)).2.2.2.2
  refine fx_chain syn .PUNC_CL (by simp [fragFixed]) nx ?_
  simp only [Bool.or_eq_true, Bool.and_eq_true, beq_iff_eq] at hb
  rcases hb with hb | ⟨hs, hx⟩
  · simp [fixedNextOK, hb]
  · cases nx with
    | none => simp [fixedNextOK]
    | some c =>
      have : c ≠ 125 := fun e => h (by rw [e])
      simp [fixedNextOK, hs, hx, this]

theorem not_alnum_of_eq {syn : Syn} {c k : Nat} (h : c = k) (hk : isAlnum syn k = false) : isAlnum syn c = false := by
  rw [h]; exact hk

/-- (generated tables) `:=`: only `=` can extend it (MATH `:==`) or nothing does (ASCII ` \\assign `); it does not
start with an alphanumeric unit; `;` is spelled `;` -/
theorem assign_spell : ∀ syn ∈ synL,
    (freeTok syn .ASSIGN || (symStart syn (fparts syn .ASSIGN).2.1 && extChars syn (fparts syn .ASSIGN).2.1 == [61])) = true ∧
    (match (str syn .ASSIGN).head? with | some c => !isAlnum syn c | none => false) = true ∧
    str syn .PUNC_SEMICOLON = [59] := by
  decide +kernel

theorem assign_chain (syn : Syn) (nx : Option Nat) (h : nx ≠ some 61) : ChainN syn (fx syn .ASSIGN) nx := by
  have hb := (assign_spell syn (mem_synL syn)).1
  refine fx_chain syn .ASSIGN (by simp [fragFixed]) nx ?_
  simp only [Bool.or_eq_true, Bool.and_eq_true, beq_iff_eq] at hb
  rcases hb with hb | ⟨hs, hx⟩
  · simp [fixedNextOK, hb]
  · cases nx with
    | none => simp [fixedNextOK]
    | some c =>
      have : c ≠ 61 := fun e => h (by rw [e])
      simp [fixedNextOK, hs, hx, this]

theorem nextOK_assign (syn : Syn) (R : List Item) (nx : Option Nat) : NextOK syn (firstU (fx syn .ASSIGN ++ R) nx) := by
  have h := (assign_spell syn (mem_synL syn)).2.1
  have hr := render_fx syn .ASSIGN (by simp [fragFixed])
  cases hs : str syn .ASSIGN with
  | nil => rw [hs] at h; simp at h
  | cons c r =>
    have hf : firstU (fx syn .ASSIGN ++ R) nx = some c := by
      rw [firstU_append]; unfold firstU; rw [hr, hs]
    rw [hs] at h
    intro c' h'; rw [hf] at h'; cases h'; simpa using h

theorem blkOp_cases {op : Tok} (h : E3.isBlkOp op = true) : op = .ITERATE ∨ op = .ASSIGN := by
  cases op <;> first | exact Or.inl rfl | exact Or.inr rfl | (revert h; decide)

theorem blkop_chain (syn : Syn) (op : Tok) (hop : E3.isBlkOp op = true) (nx : Option Nat) (h : nx ≠ some 61) :
    ChainN syn (fx syn op) nx := by
  rcases blkOp_cases hop with rfl | rfl
  · exact fx_chain_free syn _ (by simp [freeL]) nx
  · exact assign_chain syn nx h

theorem nextOK_blkop (syn : Syn) (op : Tok) (hop : E3.isBlkOp op = true) (R : List Item) (nx : Option Nat) :
    NextOK syn (firstU (fx syn op ++ R) nx) := by
  rcases blkOp_cases hop with rfl | rfl
  · exact nextOK_free syn _ (by simp [freeL]) R nx
  · exact nextOK_assign syn R nx

theorem ne61_of_head {is : List Item} (h : ∃ c r, render is = c :: r ∧ (c ≠ 125 ∧ c ≠ 61)) (R : List Item)
    (nx : Option Nat) : firstU (is ++ R) nx ≠ some 61 := by
  obtain ⟨c, r, hcr, hc⟩ := h
  rw [firstU_of_render hcr]
  intro e; cases e; exact hc.2 rfl

theorem ne125_of_head {is : List Item} (h : ∃ c r, render is = c :: r ∧ (c ≠ 125 ∧ c ≠ 61)) (R : List Item)
    (nx : Option Nat) : firstU (is ++ R) nx ≠ some 125 := by
  obtain ⟨c, r, hcr, hc⟩ := h
  rw [firstU_of_render hcr]
  intro e; cases e; exact hc.1 rfl

/-- `R` / `I` in front of `{` -/
theorem word_cl_chain (syn : Syn) (t : Tok) (ht : t ∈ wordL) (R : List Item) (nx : Option Nat) :
    ChainN syn (fx syn t) (firstU (fx syn .PUNC_CL ++ R) nx) := by
  refine fx_chain_word syn _ ht _ ?_
  rw [firstU_fx syn .PUNC_CL (by simp [fragFixed]) 123 [] (bracket_spell syn (mem_synL syn)).2.2.1]
  intro c' h'; cases h'; cases syn <;> rfl

/-- **the printed items of a phrase are a chain**: every token is lexed as itself in its context -/
theorem items_chain (syn : Syn) : ∀ e : E3, e.wf = true → e.lexOK syn = true → ∀ nx, NextOK syn nx →
    ChainN syn (e.items syn) nx
  | .atom id d, _, hl, nx, hn => by simp only [E3.lexOK] at hl; exact leaf_chain syn id d hl nx hn
  | .text f d a, hw, hl, nx, hn => by
    simp only [E3.wf, Bool.and_eq_true] at hw
    simp only [E3.lexOK, Bool.and_eq_true] at hl
    have hsp := bracket_spell syn (mem_synL syn)
    refine chain_app ?_ (chain_app (fx_chain_free syn _ (by simp [freeL]) _)
      (chain_app (items_chain syn a hw.2 hl.2 _ (nextOK_free' syn _ (by simp [freeL]) nx)) (fx_chain_free syn _ (by simp [freeL]) nx)))
    rw [firstU_fx syn .PUNC_PL (by simp [fragFixed]) 40 [] hsp.1]
    exact name_chain syn f d hl.1 40 (by cases syn <;> rfl) (by decide)
  | .sbin op l r, hw, hl, nx, hn => by
    simp only [E3.wf, Bool.and_eq_true] at hw
    simp only [E3.lexOK, Bool.and_eq_true] at hl
    have hop := mem_freeL_set7 op hw.1.1.1.1
    exact chain_app (wrapI_chain syn _ _ _ (items_chain syn l hw.1.2 hl.1) (nextOK_free syn op hop _ nx))
      (chain_app (fx_chain_free syn op hop _) (wrapI_chain syn _ _ nx (items_chain syn r hw.2 hl.2) hn))
  | .prod2 a b, hw, hl, nx, hn => by
    simp only [E3.wf, Bool.and_eq_true] at hw
    simp only [E3.lexOK, Bool.and_eq_true] at hl
    have hop : Tok.DECART ∈ freeL := by simp [freeL]
    exact chain_app (wrapI_chain syn _ _ _ (items_chain syn a hw.1.2 hl.1) (nextOK_free syn _ hop _ nx))
      (chain_app (fx_chain_free syn _ hop _) (wrapI_chain syn _ _ nx (items_chain syn b hw.2 hl.2) hn))
  | .prodN p k, hw, hl, nx, hn => by
    simp only [E3.wf, Bool.and_eq_true] at hw
    simp only [E3.lexOK, Bool.and_eq_true] at hl
    have hop : Tok.DECART ∈ freeL := by simp [freeL]
    exact chain_app (items_chain syn p hw.1.2 hl.1 _ (nextOK_free syn _ hop _ nx))
      (chain_app (fx_chain_free syn _ hop _) (wrapI_chain syn _ _ nx (items_chain syn k hw.2 hl.2) hn))
  | .pred op l r, hw, hl, nx, hn => by
    simp only [E3.wf, Bool.and_eq_true] at hw
    simp only [E3.lexOK, Bool.and_eq_true] at hl
    have hop := mem_freeL_pred op hw.1.1.1.1
    exact chain_app (items_chain syn l hw.1.2 hl.1 _ (nextOK_free syn op hop _ nx))
      (chain_app (fx_chain_free syn op hop _) (items_chain syn r hw.2 hl.2 nx hn))
  | .neg x, hw, hl, nx, hn => by
    simp only [E3.wf, Bool.and_eq_true] at hw
    simp only [E3.lexOK] at hl
    exact chain_app (fx_chain_free syn _ (by simp [freeL]) _) (wrapI_chain syn _ _ nx (items_chain syn x hw.2 hl) hn)
  | .lbin op l r, hw, hl, nx, hn => by
    simp only [E3.wf, Bool.and_eq_true] at hw
    simp only [E3.lexOK, Bool.and_eq_true] at hl
    have hop := mem_freeL_logic op hw.1.1.1.1
    refine chain_app (wrapI_chain syn _ _ _ (items_chain syn l hw.1.2 hl.1) (nextOK_blank syn 0 _ nx)) ?_
    rw [chainN_blank]
    refine chain_app (fx_chain_free syn op hop _) ?_
    rw [chainN_blank]
    exact wrapI_chain syn _ _ nx (items_chain syn r hw.2 hl.2) hn
  | .pow a, hw, hl, nx, hn => by
    simp only [E3.wf, Bool.and_eq_true] at hw
    simp only [E3.lexOK] at hl
    have hsp := (bracket_spell syn (mem_synL syn)).2.2.2.1
    refine chain_app ?_ (wrapI_chain syn _ _ nx (items_chain syn a hw.2 hl) hn)
    refine fx_chain syn .BOOLEAN (by simp [fragFixed]) _ ?_
    cases hs : str syn .BOOLEAN with
    | nil => rw [hs] at hsp; simp at hsp
    | cons c r =>
      cases r with
      | cons c2 r2 => rw [hs] at hsp; simp at hsp
      | nil =>
        rw [hs] at hsp
        simp only [Bool.and_eq_true] at hsp
        cases hp : a.isPow with
        | false =>
          have : firstU (wrapI syn (!false) (a.items syn)) nx = some 40 := by
            have := nextOK_wrapI_true syn (a.items syn) [] nx
            simpa using this
          rw [this]; exact hsp.2
        | true =>
          have : firstU (wrapI syn (!true) (a.items syn)) nx = some c := by
            show firstU (a.items syn) nx = some c
            cases a <;> simp [E3.isPow] at hp
            exact firstU_fx syn .BOOLEAN (by simp [fragFixed]) c [] hs _ nx
          rw [this]; exact hsp.1
  | .one a, hw, hl, nx, hn => by
    simp only [E3.wf, Bool.and_eq_true] at hw
    simp only [E3.lexOK] at hl
    exact items_chain syn a hw.2 hl nx hn
  | .more a l, hw, hl, nx, hn => by
    simp only [E3.wf, Bool.and_eq_true] at hw
    simp only [E3.lexOK, Bool.and_eq_true] at hl
    have hop : Tok.PUNC_COMMA ∈ freeL := by simp [freeL]
    refine chain_app (items_chain syn a hw.1.2 hl.1 _ (nextOK_free syn _ hop _ nx)) (chain_app (fx_chain_free syn _ hop _) ?_)
    rw [chainN_blank]
    exact items_chain syn l hw.2 hl.2 nx hn
  | .enum l, hw, hl, nx, hn => by
    simp only [E3.wf, Bool.and_eq_true] at hw
    simp only [E3.lexOK] at hl
    refine chain_app (cl_chain syn _ ?_) (chain_app (items_chain syn l hw.2 hl _ (nextOK_free' syn _ (by simp [freeL]) nx))
      (fx_chain_free syn _ (by simp [freeL]) nx))
    obtain ⟨c, r, hcr, hc⟩ := items_head syn l hw.2 hl (Or.inr hw.1)
    rw [firstU_of_render hcr]
    intro e; cases e; exact hc.1 rfl
  | .tuple a l, hw, hl, nx, hn => by
    simp only [E3.wf, Bool.and_eq_true] at hw
    simp only [E3.lexOK, Bool.and_eq_true] at hl
    have hop : Tok.PUNC_COMMA ∈ freeL := by simp [freeL]
    refine chain_app (fx_chain_free syn _ (by simp [freeL]) _)
      (chain_app (items_chain syn a hw.1.2 hl.1 _ (nextOK_free syn _ hop _ nx)) (chain_app (fx_chain_free syn _ hop _) ?_))
    rw [chainN_blank]
    exact chain_app (items_chain syn l hw.2 hl.2 _ (nextOK_free' syn _ (by simp [freeL]) nx))
      (fx_chain_free syn _ (by simp [freeL]) nx)
  | .fcall d l, hw, hl, nx, hn => by
    simp only [E3.wf, Bool.and_eq_true] at hw
    simp only [E3.lexOK, Bool.and_eq_true] at hl
    have hop : Tok.PUNC_SL ∈ freeL := by simp [freeL]
    exact chain_app (leaf_chain syn _ d hl.1 _ (nextOK_free syn _ hop _ nx)) (chain_app (fx_chain_free syn _ hop _)
      (chain_app (items_chain syn l hw.2 hl.2 _ (nextOK_free' syn _ (by simp [freeL]) nx))
        (fx_chain_free syn _ (by simp [freeL]) nx)))
  | .pcall d l, hw, hl, nx, hn => by
    simp only [E3.wf, Bool.and_eq_true] at hw
    simp only [E3.lexOK, Bool.and_eq_true] at hl
    have hop : Tok.PUNC_SL ∈ freeL := by simp [freeL]
    exact chain_app (leaf_chain syn _ d hl.1 _ (nextOK_free syn _ hop _ nx)) (chain_app (fx_chain_free syn _ hop _)
      (chain_app (items_chain syn l hw.2 hl.2 _ (nextOK_free' syn _ (by simp [freeL]) nx))
        (fx_chain_free syn _ (by simp [freeL]) nx)))
  | .filter d ps arg, hw, hl, nx, hn => by
    simp only [E3.wf, Bool.and_eq_true] at hw
    simp only [E3.lexOK, Bool.and_eq_true] at hl
    have hsp := bracket_spell syn (mem_synL syn)
    refine chain_app ?_ (chain_app (fx_chain_free syn _ (by simp [freeL]) _)
      (chain_app (items_chain syn ps hw.1.2 hl.1.2 _ (nextOK_free syn _ (by simp [freeL]) _ nx))
        (chain_app (fx_chain_free syn _ (by simp [freeL]) _) (chain_app (fx_chain_free syn _ (by simp [freeL]) _)
          (chain_app (items_chain syn arg hw.2 hl.2 _ (nextOK_free' syn _ (by simp [freeL]) nx))
            (fx_chain_free syn _ (by simp [freeL]) nx))))))
    rw [firstU_fx syn .PUNC_SL (by simp [fragFixed]) 91 [] hsp.2.1]
    exact name_chain syn _ d hl.1.1 91 (by cases syn <;> rfl) (by decide)
  | .quant q vs dm b, hw, hl, nx, hn => by
    simp only [E3.wf, Bool.and_eq_true] at hw
    simp only [E3.lexOK, Bool.and_eq_true] at hl
    have hq := mem_freeL_quant q hw.1.1.1.1.1.1.1
    have hin : Tok.IN ∈ freeL := by simp [freeL]
    refine chain_app (fx_chain_free syn q hq _) (chain_app (items_chain syn vs hw.1.1.2 hl.1.1 _ (nextOK_free syn _ hin _ nx))
      (chain_app (fx_chain_free syn _ hin _) (chain_app (items_chain syn dm hw.1.2 hl.1.2 _ (nextOK_blank syn 0 _ nx)) ?_)))
    rw [chainN_blank]
    exact wrapI_chain syn _ _ nx (items_chain syn b hw.2 hl.2) hn
  | .decl v dm b, hw, hl, nx, hn => by
    simp only [E3.wf, Bool.and_eq_true] at hw
    simp only [E3.lexOK, Bool.and_eq_true] at hl
    have hsp := bracket_spell syn (mem_synL syn)
    have hin : Tok.IN ∈ freeL := by simp [freeL]
    have hbar : Tok.PUNC_BAR ∈ freeL := by simp [freeL]
    have hcr : Tok.PUNC_CR ∈ freeL := by simp [freeL]
    obtain ⟨c, r, hcr', hc⟩ := items_head syn v hw.1.1.2 hl.1.1 (Or.inl hw.1.1.1.1.1.1)
    refine chain_app ?_ (chain_app (cl_chain syn _ ?_) (chain_app (items_chain syn v hw.1.1.2 hl.1.1 _ (nextOK_free syn _ hin _ nx))
      (chain_app (fx_chain_free syn _ hin _) (chain_app (items_chain syn dm hw.1.2 hl.1.2 _ (nextOK_blank syn 0 _ nx)) ?_))))
    · refine fx_chain_word syn _ (by simp [wordL]) _ ?_
      rw [firstU_fx syn .PUNC_CL (by simp [fragFixed]) 123 [] hsp.2.2.1]
      intro c' h'; cases h'; cases syn <;> rfl
    · rw [firstU_of_render hcr']
      intro e; cases e; exact hc.1 rfl
    · rw [chainN_blank]
      refine chain_app (fx_chain_free syn _ hbar _) ?_
      rw [chainN_blank]
      exact chain_app (items_chain syn b hw.2 hl.2 _ (nextOK_free' syn _ hcr nx)) (fx_chain_free syn _ hcr nx)
  | .recS v d s, hw, hl, nx, hn => by
    simp only [E3.wf, Bool.and_eq_true] at hw
    simp only [E3.lexOK, Bool.and_eq_true] at hl
    obtain ⟨⟨⟨⟨⟨⟨hvS, hvV⟩, hdS⟩, hsS⟩, hvw⟩, hdw⟩, hsw⟩ := hw
    have hbar : Tok.PUNC_BAR ∈ freeL := by simp [freeL]
    have hcr : Tok.PUNC_CR ∈ freeL := by simp [freeL]
    refine chain_app (word_cl_chain syn _ (by simp [wordL]) _ nx)
      (chain_app (cl_chain syn _ (ne125_of_head (items_head syn v hvw hl.1.1 (Or.inl hvS)) _ nx))
        (chain_app (items_chain syn v hvw hl.1.1 _ (nextOK_assign syn _ nx))
          (chain_app (assign_chain syn _ (ne61_of_head (items_head syn d hdw hl.1.2 (Or.inl hdS)) _ nx))
            (chain_app (items_chain syn d hdw hl.1.2 _ (nextOK_blank syn 0 _ nx)) ?_))))
    rw [chainN_blank]
    refine chain_app (fx_chain_free syn _ hbar _) ?_
    rw [chainN_blank]
    exact chain_app (items_chain syn s hsw hl.2 _ (nextOK_free' syn _ hcr nx)) (fx_chain_free syn _ hcr nx)
  | .recF v d c s, hw, hl, nx, hn => by
    simp only [E3.wf, Bool.and_eq_true] at hw
    simp only [E3.lexOK, Bool.and_eq_true] at hl
    obtain ⟨⟨⟨⟨⟨⟨⟨⟨hvS, hvV⟩, hdS⟩, hcL⟩, hsS⟩, hvw⟩, hdw⟩, hcw⟩, hsw⟩ := hw
    have hbar : Tok.PUNC_BAR ∈ freeL := by simp [freeL]
    have hcr : Tok.PUNC_CR ∈ freeL := by simp [freeL]
    refine chain_app (word_cl_chain syn _ (by simp [wordL]) _ nx)
      (chain_app (cl_chain syn _ (ne125_of_head (items_head syn v hvw hl.1.1.1 (Or.inl hvS)) _ nx))
        (chain_app (items_chain syn v hvw hl.1.1.1 _ (nextOK_assign syn _ nx))
          (chain_app (assign_chain syn _ (ne61_of_head (items_head syn d hdw hl.1.1.2 (Or.inl hdS)) _ nx))
            (chain_app (items_chain syn d hdw hl.1.1.2 _ (nextOK_blank syn 0 _ nx)) ?_))))
    rw [chainN_blank]
    refine chain_app (fx_chain_free syn _ hbar _) ?_
    rw [chainN_blank]
    refine chain_app (items_chain syn c hcw hl.1.2 _ (nextOK_blank syn 0 _ nx)) ?_
    rw [chainN_blank]
    refine chain_app (fx_chain_free syn _ hbar _) ?_
    rw [chainN_blank]
    exact chain_app (items_chain syn s hsw hl.2 _ (nextOK_free' syn _ hcr nx)) (fx_chain_free syn _ hcr nx)
  | .imp val bs, hw, hl, nx, hn => by
    simp only [E3.wf, Bool.and_eq_true] at hw
    simp only [E3.lexOK, Bool.and_eq_true] at hl
    obtain ⟨⟨⟨hvS, hbB⟩, hvw⟩, hbw⟩ := hw
    have hbar : Tok.PUNC_BAR ∈ freeL := by simp [freeL]
    have hcr : Tok.PUNC_CR ∈ freeL := by simp [freeL]
    refine chain_app (word_cl_chain syn _ (by simp [wordL]) _ nx)
      (chain_app (cl_chain syn _ (ne125_of_head (items_head syn val hvw hl.1 (Or.inl hvS)) _ nx))
        (chain_app (items_chain syn val hvw hl.1 _ (nextOK_blank syn 0 _ nx)) ?_))
    rw [chainN_blank]
    refine chain_app (fx_chain_free syn _ hbar _) ?_
    rw [chainN_blank]
    exact chain_app (items_chain syn bs hbw hl.2 _ (nextOK_free' syn _ hcr nx)) (fx_chain_free syn _ hcr nx)
  | .bone b, hw, hl, nx, hn => by
    simp only [E3.wf, Bool.and_eq_true] at hw
    simp only [E3.lexOK] at hl
    exact items_chain syn b hw.2 hl nx hn
  | .boneK op v s, hw, hl, nx, hn => by
    simp only [E3.wf, Bool.and_eq_true] at hw
    simp only [E3.lexOK, Bool.and_eq_true] at hl
    obtain ⟨⟨⟨⟨⟨hop, hvS⟩, hvV⟩, hsS⟩, hvw⟩, hsw⟩ := hw
    have hne : firstU (s.items syn) nx ≠ some 61 := by
      have := ne61_of_head (items_head syn s hsw hl.2 (Or.inl hsS)) [] nx
      simpa using this
    exact chain_app (items_chain syn v hvw hl.1 _ (nextOK_blkop syn op hop _ nx))
      (chain_app (blkop_chain syn op hop _ hne) (items_chain syn s hsw hl.2 nx hn))
  | .bmore b l, hw, hl, nx, hn => by
    simp only [E3.wf, Bool.and_eq_true] at hw
    simp only [E3.lexOK, Bool.and_eq_true] at hl
    have hsc : Tok.PUNC_SEMICOLON ∈ freeL := by simp [freeL]
    refine chain_app (items_chain syn b hw.1.2 hl.1 _ (nextOK_free syn _ hsc _ nx)) (chain_app (fx_chain_free syn _ hsc _) ?_)
    rw [chainN_blank]
    exact items_chain syn l hw.2 hl.2 nx hn
  | .bmoreK op v s l, hw, hl, nx, hn => by
    simp only [E3.wf, Bool.and_eq_true] at hw
    simp only [E3.lexOK, Bool.and_eq_true] at hl
    obtain ⟨⟨⟨⟨⟨⟨⟨hop, hvS⟩, hvV⟩, hsS⟩, hlB⟩, hvw⟩, hsw⟩, hlw⟩ := hw
    have hsc : Tok.PUNC_SEMICOLON ∈ freeL := by simp [freeL]
    refine chain_app (items_chain syn v hvw hl.1.1 _ (nextOK_blkop syn op hop _ nx))
      (chain_app (blkop_chain syn op hop _ (ne61_of_head (items_head syn s hsw hl.1.2 (Or.inl hsS)) _ nx))
        (chain_app (items_chain syn s hsw hl.1.2 _ (nextOK_free syn _ hsc _ nx)) (chain_app (fx_chain_free syn _ hsc _) ?_)))
    rw [chainN_blank]
    exact items_chain syn l hlw hl.2 nx hn

end CCVerif.PP3
