import CCVerif.Model.Schema
import CCVerif.Lemmas.GraphA
import CCVerif.Lemmas.GraphDFS
/-!
Lemmas for C07 (incremental schema re-analysis = analysis from scratch).

* §1 `sortDedup`
* §2 store look-ups
* §3 the intended analysis `Typed` (least solution of the typing rules), the frame property of
  `analyse`
* §4 folding `parseCst` along an order that respects typed dependencies
* §5 the dependency graph is current (`GraphCur`), `ensureGraph`
* §6 `TopologicalOrder` puts every acyclic vertex before its successors (from `KOrd`)
* §7 `updateState` computes the intended analysis
* §8 `triggerParse`
* §9 the invariant over histories
-/
namespace CCVerif.Schema
open CCVerif CCVerif.Graph

/-! ## §1 `sortDedup` -/

theorem mem_insertSorted {x y : Nat} {l : List Nat} : y ∈ insertSorted x l ↔ y = x ∨ y ∈ l := by
  induction l with
  | nil => simp [insertSorted]
  | cons z zs ih =>
    unfold insertSorted
    split
    · simp
    · split
      · next h => subst h; simp
      · simp only [List.mem_cons, ih]
        constructor
        · rintro (h | h | h) <;> simp [h]
        · rintro (h | h | h) <;> simp [h]

theorem sorted_insertSorted {x : Nat} {l : List Nat} (h : l.Pairwise (· < ·)) :
    (insertSorted x l).Pairwise (· < ·) := by
  induction l with
  | nil => simp [insertSorted]
  | cons z zs ih =>
    unfold insertSorted
    obtain ⟨h1, h2⟩ := List.pairwise_cons.1 h
    split
    · next hlt =>
      refine List.pairwise_cons.2 ⟨?_, h⟩
      intro a ha
      rcases List.mem_cons.1 ha with rfl | ha
      · exact hlt
      · exact Nat.lt_trans hlt (h1 a ha)
    · split
      · exact h
      · next h3 h4 =>
        refine List.pairwise_cons.2 ⟨?_, ih h2⟩
        intro a ha
        rcases mem_insertSorted.1 ha with rfl | ha
        · omega
        · exact h1 a ha

theorem foldl_insertSorted_mem (l acc : List Nat) (y : Nat) :
    y ∈ l.foldl (fun acc x => insertSorted x acc) acc ↔ y ∈ l ∨ y ∈ acc := by
  induction l generalizing acc with
  | nil => simp
  | cons z zs ih =>
    rw [List.foldl_cons, ih, mem_insertSorted]
    simp only [List.mem_cons]
    constructor
    · rintro (h | h | h) <;> simp [h]
    · rintro ((h | h) | h) <;> simp [h]

theorem foldl_insertSorted_sorted (l acc : List Nat) (h : acc.Pairwise (· < ·)) :
    (l.foldl (fun acc x => insertSorted x acc) acc).Pairwise (· < ·) := by
  induction l generalizing acc with
  | nil => exact h
  | cons z zs ih => exact ih _ (sorted_insertSorted h)

theorem mem_sortDedup {y : Nat} {l : List Nat} : y ∈ sortDedup l ↔ y ∈ l := by
  unfold sortDedup
  rw [foldl_insertSorted_mem]
  simp

theorem sortDedup_sorted (l : List Nat) : (sortDedup l).Pairwise (· < ·) :=
  foldl_insertSorted_sorted l [] List.Pairwise.nil

theorem sortDedup_nodup (l : List Nat) : (sortDedup l).Nodup :=
  (sortDedup_sorted l).imp (fun h => Nat.ne_of_lt h)

theorem sorted_ext {l1 l2 : List Nat} (h1 : l1.Pairwise (· < ·)) (h2 : l2.Pairwise (· < ·))
    (h : ∀ x, x ∈ l1 ↔ x ∈ l2) : l1 = l2 := by
  induction l1 generalizing l2 with
  | nil =>
    cases l2 with
    | nil => rfl
    | cons b bs => exact absurd ((h b).2 (by simp)) (by simp)
  | cons a as ih =>
    cases l2 with
    | nil => exact absurd ((h a).1 (by simp)) (by simp)
    | cons b bs =>
      obtain ⟨ha, has⟩ := List.pairwise_cons.1 h1
      obtain ⟨hb, hbs⟩ := List.pairwise_cons.1 h2
      have hab : a = b := by
        have h3 := (h a).1 (by simp)
        have h4 := (h b).2 (by simp)
        rcases List.mem_cons.1 h3 with e | h3
        · exact e
        · rcases List.mem_cons.1 h4 with e | h4
          · exact e.symm
          · have := hb a h3
            have := ha b h4
            omega
      subst hab
      congr 1
      apply ih has hbs
      intro x
      constructor
      · intro hx
        have := (h x).1 (List.mem_cons_of_mem _ hx)
        rcases List.mem_cons.1 this with rfl | h5
        · exact absurd (ha x hx) (Nat.lt_irrefl _)
        · exact h5
      · intro hx
        have := (h x).2 (List.mem_cons_of_mem _ hx)
        rcases List.mem_cons.1 this with rfl | h5
        · exact absurd (hb x hx) (Nat.lt_irrefl _)
        · exact h5

theorem sortDedup_congr {l1 l2 : List Nat} (h : ∀ x, x ∈ l1 ↔ x ∈ l2) : sortDedup l1 = sortDedup l2 :=
  sorted_ext (sortDedup_sorted l1) (sortDedup_sorted l2)
    (fun x => by rw [mem_sortDedup, mem_sortDedup, h])

/-! ## §2 store look-ups -/

def uids (s : List Cst) : List Nat := s.map (·.uid)
def findAliasL (s : List Cst) (a : String) : Option Nat := (s.find? (·.alias == a)).map (·.uid)
def inputsOfL (s : List Cst) (c : Cst) : List Nat :=
  sortDedup (c.defn.mentions.filterMap (findAliasL s))

theorem findAlias_eq (st : St) (a : String) : st.findAlias a = findAliasL st.store a := rfl
theorem inputsOf_eq (st : St) (c : Cst) : st.inputsOf c = inputsOfL st.store c := rfl

theorem mem_uids {s : List Cst} {u : Nat} : u ∈ uids s ↔ ∃ c ∈ s, c.uid = u := by
  simp [uids]

theorem eq_of_uid_eq {s : List Cst} (hn : (uids s).Nodup) {c d : Cst} (hc : c ∈ s) (hd : d ∈ s)
    (h : c.uid = d.uid) : c = d := by
  induction s with
  | nil => cases hc
  | cons x xs ih =>
    simp only [uids, List.map_cons, List.nodup_cons] at hn
    obtain ⟨h1, h2⟩ := hn
    rcases List.mem_cons.1 hc with e1 | hc <;> rcases List.mem_cons.1 hd with e2 | hd
    · rw [e1, e2]
    · exact absurd (List.mem_map.2 ⟨d, hd, by rw [← h, e1]⟩) h1
    · exact absurd (List.mem_map.2 ⟨c, hc, by rw [h, e2]⟩) h1
    · exact ih h2 hc hd

theorem find_uid_of_mem {s : List Cst} (hn : (uids s).Nodup) {c : Cst} (hc : c ∈ s) :
    s.find? (·.uid == c.uid) = some c := by
  cases hf : s.find? (·.uid == c.uid) with
  | none =>
    have := List.find?_eq_none.1 hf c hc
    simp at this
  | some d =>
    have hd := List.mem_of_find?_eq_some hf
    have hu : d.uid = c.uid := by simpa using List.find?_some hf
    rw [eq_of_uid_eq hn hd hc hu]

theorem at_of_mem {st : St} (hn : (uids st.store).Nodup) {c : Cst} (hc : c ∈ st.store) :
    st.at c.uid = some c := find_uid_of_mem hn hc

theorem mem_of_at {st : St} {u : Nat} {c : Cst} (h : st.at u = some c) : c ∈ st.store ∧ c.uid = u := by
  unfold St.at at h
  exact ⟨List.mem_of_find?_eq_some h, by simpa using List.find?_some h⟩

theorem at_none {st : St} {u : Nat} (h : st.at u = none) : u ∉ uids st.store := by
  unfold St.at at h
  intro hu
  obtain ⟨c, hc, rfl⟩ := mem_uids.1 hu
  have := List.find?_eq_none.1 h c hc
  simp at this

theorem contains_iff {st : St} {u : Nat} : st.contains u = true ↔ u ∈ uids st.store := by
  unfold St.contains
  cases h : st.at u with
  | none => simpa using at_none h
  | some c =>
    obtain ⟨h1, h2⟩ := mem_of_at h
    simpa using mem_uids.2 ⟨c, h1, h2⟩

theorem findAliasL_mem {s : List Cst} {a : String} {u : Nat} (h : findAliasL s a = some u) :
    ∃ c ∈ s, c.uid = u ∧ c.alias = a := by
  unfold findAliasL at h
  cases hf : s.find? (·.alias == a) with
  | none => rw [hf] at h; cases h
  | some c =>
    rw [hf] at h
    refine ⟨c, List.mem_of_find?_eq_some hf, by simpa using h, by simpa using List.find?_some hf⟩

theorem findAliasL_uids {s : List Cst} {a : String} {u : Nat} (h : findAliasL s a = some u) :
    u ∈ uids s := by
  obtain ⟨c, hc, hu, _⟩ := findAliasL_mem h
  exact mem_uids.2 ⟨c, hc, hu⟩

theorem mem_inputsOfL {s : List Cst} {c : Cst} {a : Nat} :
    a ∈ inputsOfL s c ↔ ∃ m ∈ c.defn.mentions, findAliasL s m = some a := by
  unfold inputsOfL
  rw [mem_sortDedup, List.mem_filterMap]

theorem inputsOfL_nodup (s : List Cst) (c : Cst) : (inputsOfL s c).Nodup := sortDedup_nodup _

theorem inputsOfL_uids {s : List Cst} {c : Cst} {a : Nat} (h : a ∈ inputsOfL s c) : a ∈ uids s := by
  obtain ⟨m, _, hm⟩ := mem_inputsOfL.1 h
  exact findAliasL_uids hm

/-! ### `info` look-ups -/

theorem find_map_set_ne (l : List (Nat × Info)) (u v : Nat) (i : Info) (h : v ≠ u) :
    (l.map (fun p => if p.1 == u then (u, i) else p)).find? (·.1 == v) = l.find? (·.1 == v) := by
  induction l with
  | nil => rfl
  | cons p ps ih =>
    rw [List.map_cons, List.find?_cons, List.find?_cons, ih]
    by_cases hp : p.1 = u
    · have h1 : (p.1 == u) = true := by simpa using hp
      have h2 : (u == v) = false := by simpa using fun e => h e.symm
      have h3 : (p.1 == v) = false := by simpa [hp] using fun e => h e.symm
      simp [h1, h2, h3]
    · have h1 : (p.1 == u) = false := by simpa using hp
      simp [h1]

theorem find_map_set_self (l : List (Nat × Info)) (u : Nat) (i : Info)
    (h : l.any (·.1 == u) = true) :
    (l.map (fun p => if p.1 == u then (u, i) else p)).find? (·.1 == u) = some (u, i) := by
  induction l with
  | nil => simp at h
  | cons p ps ih =>
    rw [List.map_cons, List.find?_cons]
    by_cases hp : p.1 = u
    · simp [hp]
    · have h1 : (p.1 == u) = false := by simpa using hp
      rw [List.any_cons, h1, Bool.false_or] at h
      simp only [h1, Bool.false_eq_true, if_false]
      exact ih h

theorem any_map_set (l : List (Nat × Info)) (u v : Nat) (i : Info) :
    (l.map (fun p => if p.1 == u then (u, i) else p)).any (·.1 == v) = l.any (·.1 == v) := by
  induction l with
  | nil => rfl
  | cons p ps ih =>
    rw [List.map_cons, List.any_cons, List.any_cons, ih]
    congr 1
    by_cases hp : p.1 = u
    · simp [hp]
    · have h1 : (p.1 == u) = false := by simpa using hp
      simp [h1]

theorem infoFor_setInfo_ne {st : St} {u v : Nat} (i : Info) (h : v ≠ u) :
    (st.setInfo u i).infoFor v = st.infoFor v := by
  unfold St.infoFor St.setInfo
  simp only
  rw [find_map_set_ne _ _ _ _ h]

theorem hasInfo_setInfo {st : St} {u v : Nat} (i : Info) :
    (st.setInfo u i).hasInfo v = st.hasInfo v := any_map_set _ _ _ _

theorem infoFor_setInfo_self {st : St} {u : Nat} (i : Info) (h : st.hasInfo u = true) :
    (st.setInfo u i).infoFor u = i := by
  unfold St.infoFor St.setInfo
  simp only
  rw [find_map_set_self _ _ _ h]
  rfl

theorem setInfo_store (st : St) (u : Nat) (i : Info) : (st.setInfo u i).store = st.store := rfl
theorem setInfo_graph (st : St) (u : Nat) (i : Info) : (st.setInfo u i).graph = st.graph := rfl
theorem setInfo_invalid (st : St) (u : Nat) (i : Info) : (st.setInfo u i).invalid = st.invalid := rfl

/-! ## §3 the intended analysis -/

/-- the least solution of the typing rules of the fragment: `Typed s u t` iff constituent `u`
of the store `s` is well typed with type ℬ(`t`). Depends on the store only. -/
inductive Typed (s : List Cst) : Nat → String → Prop
  | base {c : Cst} : c ∈ s → c.kind = .base → c.defn = .empty → Typed s c.uid c.alias
  | union {c : Cst} {n : String} {ns : List String} {t : String} :
      c ∈ s → c.kind = .term → c.defn = .union (n :: ns) →
      (∀ m ∈ n :: ns, (findAliasL s m).isSome) →
      (∀ m ∈ n :: ns, ∀ u, findAliasL s m = some u → Typed s u t) → Typed s c.uid t

theorem Typed.inv {s : List Cst} (hn : (uids s).Nodup) {c : Cst} (hc : c ∈ s) {t : String}
    (h : Typed s c.uid t) :
    (c.kind = .base ∧ c.defn = .empty ∧ t = c.alias) ∨
    (c.kind = .term ∧ ∃ n ns, c.defn = .union (n :: ns) ∧
      ∀ m ∈ n :: ns, ∃ v, findAliasL s m = some v ∧ Typed s v t) := by
  generalize hu : c.uid = u at h
  cases h with
  | base h1 h2 h3 =>
    have := eq_of_uid_eq hn hc h1 hu
    subst this
    exact Or.inl ⟨h2, h3, rfl⟩
  | @union _ n ns _ h1 h2 h3 h4 h5 =>
    have := eq_of_uid_eq hn hc h1 hu
    subst this
    refine Or.inr ⟨h2, n, ns, h3, fun m hm => ?_⟩
    obtain ⟨v, hv⟩ := Option.isSome_iff_exists.1 (h4 m hm)
    exact ⟨v, hv, h5 m hm v hv⟩

theorem Typed.mem {s : List Cst} {u : Nat} {t : String} (h : Typed s u t) : u ∈ uids s := by
  cases h with
  | base h1 _ _ => exact mem_uids.2 ⟨_, h1, rfl⟩
  | union h1 _ _ _ _ => exact mem_uids.2 ⟨_, h1, rfl⟩

theorem Typed.unique {s : List Cst} (hn : (uids s).Nodup) {u : Nat} {t t' : String}
    (h1 : Typed s u t) (h2 : Typed s u t') : t = t' := by
  induction h1 generalizing t' with
  | @base c hc hk hd =>
    rcases Typed.inv hn hc h2 with ⟨_, _, e⟩ | ⟨hk', _⟩
    · exact e.symm
    · rw [hk] at hk'; cases hk'
  | @union c n ns t hc hk hd hs hall ih =>
    rcases Typed.inv hn hc h2 with ⟨hk', _⟩ | ⟨_, n', ns', hd', hall'⟩
    · rw [hk] at hk'; cases hk'
    · rw [hd] at hd'
      cases hd'
      obtain ⟨v, hv, hv'⟩ := hall' n (by simp)
      exact ih n (by simp) v hv hv'

theorem typeFor_eq_some {st : St} {m t : String} :
    st.typeFor m = some t ↔ ∃ u, findAliasL st.store m = some u ∧ (st.infoFor u).ty = some t := by
  unfold St.typeFor
  rw [findAlias_eq]
  cases findAliasL st.store m <;> simp

theorem analyse_term_union (st : St) (u : Nat) (a n : String) (ns : List String) (t : String) :
    analyse st ⟨u, a, .term, .union (n :: ns)⟩ = some t ↔ ∀ m ∈ n :: ns, st.typeFor m = some t := by
  unfold analyse
  simp only
  cases hn : st.typeFor n with
  | none =>
    simp only [reduceCtorEq, false_iff]
    intro h
    have := h n (by simp)
    rw [hn] at this
    cases this
  | some t' =>
    simp only
    constructor
    · intro h
      split at h
      · next hall =>
        cases h
        intro m hm
        rcases List.mem_cons.1 hm with rfl | hm
        · exact hn
        · simpa using List.all_eq_true.1 hall m hm
      · cases h
    · intro hall
      have h1 := hall n (by simp)
      rw [hn] at h1
      cases h1
      rw [if_pos]
      apply List.all_eq_true.2
      intro m hm
      simpa using hall m (List.mem_cons_of_mem _ hm)

theorem analyse_eq_some {st : St} {c : Cst} {t : String} :
    analyse st c = some t ↔
      (c.kind = .base ∧ c.defn = .empty ∧ t = c.alias) ∨
      (c.kind = .term ∧ ∃ n ns, c.defn = .union (n :: ns) ∧ ∀ m ∈ n :: ns, st.typeFor m = some t) := by
  obtain ⟨u, a, k, d⟩ := c
  cases k <;> cases d with
  | empty => simp [analyse, eq_comm]
  | bad => simp [analyse]
  | union l =>
    cases l with
    | nil => simp [analyse]
    | cons n ns =>
      first
      | (rw [analyse_term_union]
         simp only [reduceCtorEq, false_and, false_or, true_and, Def.union.injEq, List.cons.injEq]
         constructor
         · intro h; exact ⟨n, ns, ⟨rfl, rfl⟩, h⟩
         · rintro ⟨n', ns', ⟨rfl, rfl⟩, h⟩; exact h)
      | simp [analyse]

/-- the FRAME property: the analysis of `c` reads the context only through `typeFor` of the
names mentioned in the definition of `c` -/
theorem analyse_congr {st st' : St} {c : Cst}
    (h : ∀ m ∈ c.defn.mentions, st.typeFor m = st'.typeFor m) : analyse st c = analyse st' c := by
  have key : ∀ (a b : St), (∀ m ∈ c.defn.mentions, a.typeFor m = b.typeFor m) →
      ∀ t, analyse a c = some t → analyse b c = some t := by
    intro a b hab t ht
    rcases analyse_eq_some.1 ht with h1 | ⟨hk, n, ns, hd, hall⟩
    · exact analyse_eq_some.2 (Or.inl h1)
    · refine analyse_eq_some.2 (Or.inr ⟨hk, n, ns, hd, fun m hm => ?_⟩)
      rw [← hab m (by rw [hd]; exact hm)]
      exact hall m hm
  cases h1 : analyse st c with
  | some t => exact (key st st' h t h1).symm
  | none =>
    cases h2 : analyse st' c with
    | none => rfl
    | some t =>
      have := key st' st (fun m hm => (h m hm).symm) t h2
      rw [h1] at this
      cases this

/-- every recorded type is derivable -/
def Sound (st : St) : Prop := ∀ u t, (st.infoFor u).ty = some t → Typed st.store u t
/-- every derivable type of a constituent in `P` is recorded -/
def CompleteOn (st : St) (P : Nat → Prop) : Prop :=
  ∀ u t, P u → Typed st.store u t → (st.infoFor u).ty = some t
def StatusOk (st : St) (u : Nat) : Prop :=
  (st.infoFor u).status = if (st.infoFor u).ty.isSome then .verified else .incorrect

/-- the typed constituents mentioned by `b` all belong to `P` -/
def DepsIn (s : List Cst) (P : Nat → Prop) (b : Nat) : Prop :=
  ∀ c ∈ s, c.uid = b → ∀ m ∈ c.defn.mentions, ∀ a, findAliasL s m = some a →
    (∃ t, Typed s a t) → P a

/-- an order of analysis along which every typed dependency has been settled before it is read -/
def OrderOk (s : List Cst) : (Nat → Prop) → List Nat → Prop
  | _, [] => True
  | P, b :: q => DepsIn s P b ∧ OrderOk s (fun x => P x ∨ x = b) q

theorem OrderOk.of_splits {s : List Cst} {L : List Nat} :
    ∀ {P : Nat → Prop}, (∀ p b q, L = p ++ b :: q → DepsIn s (fun x => P x ∨ x ∈ p) b) →
      OrderOk s P L := by
  induction L with
  | nil => intro P _; trivial
  | cons b q ih =>
    intro P h
    refine ⟨?_, ih ?_⟩
    · have := h [] b q rfl
      intro c hc hu m hm a ha ht
      rcases this c hc hu m hm a ha ht with h1 | h1
      · exact h1
      · cases h1
    · intro p b' q' e
      have := h (b :: p) b' q' (by rw [e]; rfl)
      intro c hc hu m hm a ha ht
      rcases this c hc hu m hm a ha ht with h1 | h1
      · exact Or.inl (Or.inl h1)
      · rcases List.mem_cons.1 h1 with h2 | h2
        · exact Or.inl (Or.inr h2)
        · exact Or.inr h2

theorem analyse_sound {st : St} (hS : Sound st) {c : Cst} (hc : c ∈ st.store) {t : String}
    (h : analyse st c = some t) : Typed st.store c.uid t := by
  rcases analyse_eq_some.1 h with ⟨hk, hd, rfl⟩ | ⟨hk, n, ns, hd, hall⟩
  · exact Typed.base hc hk hd
  · refine Typed.union hc hk hd (fun m hm => ?_) (fun m hm u hu => ?_)
    · obtain ⟨u, hu, _⟩ := typeFor_eq_some.1 (hall m hm)
      rw [hu]; rfl
    · obtain ⟨u', hu', ht⟩ := typeFor_eq_some.1 (hall m hm)
      rw [hu] at hu'
      cases hu'
      exact hS u t ht

theorem analyse_complete {st : St} (hn : (uids st.store).Nodup) {c : Cst} (hc : c ∈ st.store)
    {P : Nat → Prop} (hC : CompleteOn st P) (hD : DepsIn st.store P c.uid) {t : String}
    (h : Typed st.store c.uid t) : analyse st c = some t := by
  rcases Typed.inv hn hc h with h1 | ⟨hk, n, ns, hd, hall⟩
  · exact analyse_eq_some.2 (Or.inl h1)
  · refine analyse_eq_some.2 (Or.inr ⟨hk, n, ns, hd, fun m hm => ?_⟩)
    obtain ⟨v, hv, hvt⟩ := hall m hm
    have hP := hD c hc rfl m (by rw [hd]; exact hm) v hv ⟨t, hvt⟩
    exact typeFor_eq_some.2 ⟨v, hv, hC v t hP hvt⟩

/-! ## §4 folding `parseCst` -/

def resultInfo : Option String → Info
  | some t => { status := .verified, ty := some t }
  | none => { status := .incorrect, ty := none }

theorem parseCst_of_at {st : St} {b : Nat} {c : Cst} (h : st.at b = some c) :
    st.parseCst b = st.setInfo b (resultInfo (analyse st c)) := by
  unfold St.parseCst
  rw [h]
  simp only
  cases analyse st c <;> rfl

theorem parseCst_of_none {st : St} {b : Nat} (h : st.at b = none) : st.parseCst b = st := by
  unfold St.parseCst
  rw [h]

theorem parseCst_store (st : St) (b : Nat) : (st.parseCst b).store = st.store := by
  cases h : st.at b with
  | none => rw [parseCst_of_none h]
  | some c => rw [parseCst_of_at h]; rfl

theorem parseCst_graph (st : St) (b : Nat) : (st.parseCst b).graph = st.graph := by
  cases h : st.at b with
  | none => rw [parseCst_of_none h]
  | some c => rw [parseCst_of_at h]; rfl

theorem parseCst_invalid (st : St) (b : Nat) : (st.parseCst b).invalid = st.invalid := by
  cases h : st.at b with
  | none => rw [parseCst_of_none h]
  | some c => rw [parseCst_of_at h]; rfl

theorem parseCst_hasInfo (st : St) (b v : Nat) : (st.parseCst b).hasInfo v = st.hasInfo v := by
  cases h : st.at b with
  | none => rw [parseCst_of_none h]
  | some c => rw [parseCst_of_at h]; exact hasInfo_setInfo _

theorem parseCst_infoFor_ne (st : St) {b v : Nat} (h : v ≠ b) :
    (st.parseCst b).infoFor v = st.infoFor v := by
  cases h' : st.at b with
  | none => rw [parseCst_of_none h']
  | some c => rw [parseCst_of_at h']; exact infoFor_setInfo_ne _ h

theorem resultInfo_ty (o : Option String) : (resultInfo o).ty = o := by cases o <;> rfl

theorem resultInfo_status (o : Option String) :
    (resultInfo o).status = if (resultInfo o).ty.isSome then .verified else .incorrect := by
  cases o <;> rfl

theorem parseCst_infoFor_self {st : St} (hn : (uids st.store).Nodup)
    (hk : ∀ c ∈ st.store, st.hasInfo c.uid = true) {c : Cst} (hc : c ∈ st.store) :
    (st.parseCst c.uid).infoFor c.uid = resultInfo (analyse st c) := by
  rw [parseCst_of_at (at_of_mem hn hc)]
  exact infoFor_setInfo_self _ (hk c hc)

theorem parseCst_step {st : St} (hn : (uids st.store).Nodup)
    (hk : ∀ c ∈ st.store, st.hasInfo c.uid = true) (hS : Sound st)
    {P : Nat → Prop} (hC : CompleteOn st P) (b : Nat) (hD : DepsIn st.store P b) :
    Sound (st.parseCst b) ∧ CompleteOn (st.parseCst b) (fun x => P x ∨ x = b) ∧
    (b ∈ uids st.store → StatusOk (st.parseCst b) b) := by
  refine ⟨?_, ?_, ?_⟩
  · intro u t ht
    rw [parseCst_store]
    by_cases hub : u = b
    · subst hub
      cases h' : st.at u with
      | none => rw [parseCst_of_none h'] at ht; exact hS u t ht
      | some c =>
        obtain ⟨hc, rfl⟩ := mem_of_at h'
        rw [parseCst_infoFor_self hn hk hc, resultInfo_ty] at ht
        exact analyse_sound hS hc ht
    · rw [parseCst_infoFor_ne st hub] at ht
      exact hS u t ht
  · intro u t hP ht
    rw [parseCst_store] at ht
    by_cases hub : u = b
    · subst hub
      obtain ⟨c, hc, rfl⟩ := mem_uids.1 ht.mem
      rw [parseCst_infoFor_self hn hk hc, resultInfo_ty]
      exact analyse_complete hn hc hC hD ht
    · rw [parseCst_infoFor_ne st hub]
      rcases hP with hP | hP
      · exact hC u t hP ht
      · exact absurd hP hub
  · intro hb
    obtain ⟨c, hc, rfl⟩ := mem_uids.1 hb
    unfold StatusOk
    rw [parseCst_infoFor_self hn hk hc]
    exact resultInfo_status _

theorem fold_parse (L : List Nat) : ∀ (st : St) (P Q : Nat → Prop), (uids st.store).Nodup →
    (∀ c ∈ st.store, st.hasInfo c.uid = true) → Sound st → CompleteOn st P →
    (∀ v, Q v → StatusOk st v) → (∀ v ∈ L, v ∈ uids st.store) → OrderOk st.store P L →
    (L.foldl St.parseCst st).store = st.store ∧ (L.foldl St.parseCst st).graph = st.graph ∧
    (L.foldl St.parseCst st).invalid = st.invalid ∧
    (∀ v, (L.foldl St.parseCst st).hasInfo v = st.hasInfo v) ∧
    Sound (L.foldl St.parseCst st) ∧ CompleteOn (L.foldl St.parseCst st) (fun x => P x ∨ x ∈ L) ∧
    (∀ v, Q v ∨ v ∈ L → StatusOk (L.foldl St.parseCst st) v) ∧
    (∀ v, v ∉ L → (L.foldl St.parseCst st).infoFor v = st.infoFor v) := by
  induction L with
  | nil =>
    intro st P Q _ _ hS hC hQ _ _
    refine ⟨rfl, rfl, rfl, fun _ => rfl, hS, ?_, ?_, fun _ _ => rfl⟩
    · intro u t hP ht
      rcases hP with hP | hP
      · exact hC u t hP ht
      · cases hP
    · intro v hv
      rcases hv with hv | hv
      · exact hQ v hv
      · cases hv
  | cons b q ih =>
    intro st P Q hn hk hS hC hQ hL hO
    obtain ⟨hD, hO'⟩ := hO
    obtain ⟨s1, s2, s3⟩ := parseCst_step hn hk hS hC b hD
    have hst : (st.parseCst b).store = st.store := parseCst_store st b
    have hQ' : ∀ v, (Q v ∨ v = b) → StatusOk (st.parseCst b) v := by
      intro v hv
      by_cases hvb : v = b
      · subst hvb; exact s3 (hL v (by simp))
      · rcases hv with hv | hv
        · unfold StatusOk
          rw [parseCst_infoFor_ne st hvb]
          exact hQ v hv
        · exact absurd hv hvb
    obtain ⟨r1, r2, r3, r4, r5, r6, r7, r8⟩ := ih (st.parseCst b) (fun x => P x ∨ x = b)
      (fun v => Q v ∨ v = b) (by rw [hst]; exact hn)
      (by rw [hst]; intro c hc; rw [parseCst_hasInfo]; exact hk c hc) s1 s2 hQ'
      (by rw [hst]; intro v hv; exact hL v (List.mem_cons_of_mem _ hv)) (by rw [hst]; exact hO')
    rw [List.foldl_cons]
    refine ⟨r1.trans hst, r2.trans (parseCst_graph st b), r3.trans (parseCst_invalid st b),
      fun v => (r4 v).trans (parseCst_hasInfo st b v), r5, ?_, ?_, ?_⟩
    · intro u t hP ht
      apply r6 u t ?_ ht
      rcases hP with hP | hP
      · exact Or.inl (Or.inl hP)
      · rcases List.mem_cons.1 hP with hP | hP
        · exact Or.inl (Or.inr hP)
        · exact Or.inr hP
    · intro v hv
      apply r7 v
      rcases hv with hv | hv
      · exact Or.inl (Or.inl hv)
      · rcases List.mem_cons.1 hv with hv | hv
        · exact Or.inl (Or.inr hv)
        · exact Or.inr hv
    · intro v hv
      rw [r8 v (fun h => hv (List.mem_cons_of_mem _ h))]
      exact parseCst_infoFor_ne st (fun h => hv (by rw [h]; simp))

/-! ## §5 the dependency graph is current -/

/-- `g` represents exactly the dependency relation of the store `s` -/
structure GraphCur (s : List Cst) (g : Graph.G) : Prop where
  inv : Graph.Inv g
  live : ∀ x, x ∈ liveUids g ↔ x ∈ uids s
  edges : ∀ a b, (a, b) ∈ Graph.edges g ↔ ∃ c ∈ s, c.uid = b ∧ a ∈ inputsOfL s c

def buildStep (s : List Cst) (g : Graph.G) (c : Cst) : Graph.G :=
  setItemInputs g c.uid (inputsOfL s c)

theorem graphUpdateFor_of_mem {st : St} (hn : (uids st.store).Nodup) (hv : st.invalid = false)
    {c : Cst} (hc : c ∈ st.store) :
    st.graphUpdateFor c.uid = { st with graph := buildStep st.store st.graph c } := by
  unfold St.graphUpdateFor
  rw [hv, at_of_mem hn hc]
  rfl

theorem graphUpdateFor_invalid {st : St} (hv : st.invalid = true) (u : Nat) :
    st.graphUpdateFor u = st := by
  unfold St.graphUpdateFor
  rw [hv]
  rfl

theorem rebuild_fold (l : List Cst) : ∀ (st : St), (uids st.store).Nodup → st.invalid = false →
    (∀ c ∈ l, c ∈ st.store) →
    l.foldl (fun s c => s.graphUpdateFor c.uid) st =
      { st with graph := l.foldl (buildStep st.store) st.graph } := by
  induction l with
  | nil => intro st _ _ _; rfl
  | cons c l ih =>
    intro st hn hv hl
    rw [List.foldl_cons, List.foldl_cons, graphUpdateFor_of_mem hn hv (hl c (by simp))]
    exact ih { st with graph := buildStep st.store st.graph c } hn hv
      (fun d hd => hl d (List.mem_cons_of_mem _ hd))

theorem build_spec (s : List Cst) (l : List Cst) : ∀ (g : Graph.G), (uids l).Nodup → Graph.Inv g →
    (∀ a b, (a, b) ∈ Graph.edges g → b ∉ uids l) →
    Graph.Inv (l.foldl (buildStep s) g) ∧
    (∀ x, x ∈ liveUids (l.foldl (buildStep s) g) ↔
      x ∈ liveUids g ∨ x ∈ uids l ∨ ∃ c ∈ l, x ∈ inputsOfL s c) ∧
    (∀ a b, (a, b) ∈ Graph.edges (l.foldl (buildStep s) g) ↔
      (a, b) ∈ Graph.edges g ∨ ∃ c ∈ l, c.uid = b ∧ a ∈ inputsOfL s c) := by
  induction l with
  | nil =>
    intro g _ hg _
    refine ⟨hg, fun x => ?_, fun a b => ?_⟩ <;> simp [uids]
  | cons c l ih =>
    intro g hn hg he
    simp only [uids, List.map_cons, List.nodup_cons] at hn
    obtain ⟨hn1, hn2⟩ := hn
    obtain ⟨i1, i2, i3⟩ := setItemInputs_spec hg c.uid (sortDedup_nodup (c.defn.mentions.filterMap (findAliasL s)))
    have he1 : ∀ a b, (a, b) ∈ Graph.edges (buildStep s g c) → b ∉ uids l := by
      intro a b hab
      rcases (i3 (a, b)).1 hab with h | ⟨h, _⟩
      · obtain ⟨x, _, hx⟩ := List.mem_map.1 h
        cases hx
        exact hn1
      · exact fun hb => he a b h (by simp only [uids, List.map_cons]; exact List.mem_cons_of_mem _ hb)
    obtain ⟨j1, j2, j3⟩ := ih (buildStep s g c) hn2 i1 he1
    rw [List.foldl_cons]
    refine ⟨j1, fun x => ?_, fun a b => ?_⟩
    · rw [j2 x]
      have := i2 x
      unfold buildStep inputsOfL
      rw [this]
      simp only [uids, List.map_cons, List.mem_cons, exists_eq_or_imp]
      constructor
      · rintro ((h | h | h) | h | h)
        · exact Or.inr (Or.inl (Or.inl h))
        · exact Or.inr (Or.inr (Or.inl h))
        · exact Or.inl h
        · exact Or.inr (Or.inl (Or.inr h))
        · exact Or.inr (Or.inr (Or.inr h))
      · rintro (h | (h | h) | h | h)
        · exact Or.inl (Or.inr (Or.inr h))
        · exact Or.inl (Or.inl h)
        · exact Or.inr (Or.inl h)
        · exact Or.inl (Or.inr (Or.inl h))
        · exact Or.inr (Or.inr h)
    · rw [j3 a b]
      have := i3 (a, b)
      unfold buildStep inputsOfL
      rw [this]
      simp only [List.mem_cons, exists_eq_or_imp, List.mem_map, Prod.mk.injEq]
      constructor
      · rintro ((⟨x, hx, rfl, rfl⟩ | ⟨h, _⟩) | h)
        · exact Or.inr (Or.inl ⟨rfl, hx⟩)
        · exact Or.inl h
        · exact Or.inr (Or.inr h)
      · rintro (h | ⟨rfl, h⟩ | h)
        · refine Or.inl (Or.inr ⟨h, fun hb => he a b h ?_⟩)
          rw [hb]; simp [uids]
        · exact Or.inl (Or.inl ⟨a, h, rfl, rfl⟩)
        · exact Or.inr h

theorem graphCur_build {s : List Cst} (hn : (uids s).Nodup) :
    GraphCur s (s.foldl (buildStep s) []) := by
  obtain ⟨h1, h2, h3⟩ := build_spec s s [] hn inv_empty (by intro a b h; simp [Graph.edges] at h)
  refine ⟨h1, fun x => ?_, fun a b => ?_⟩
  · rw [h2]
    constructor
    · rintro (h | h | ⟨c, _, h⟩)
      · simp [liveUids] at h
      · exact h
      · exact inputsOfL_uids h
    · intro h; exact Or.inr (Or.inl h)
  · rw [h3]
    constructor
    · rintro (h | h)
      · simp [Graph.edges] at h
      · exact h
    · intro h; exact Or.inr h

theorem ensureGraph_valid {st : St} (hv : st.invalid = false) : st.ensureGraph = st := by
  unfold St.ensureGraph
  rw [hv]
  rfl

theorem ensureGraph_invalid {st : St} (hn : (uids st.store).Nodup) (hv : st.invalid = true) :
    st.ensureGraph = { st with graph := st.store.foldl (buildStep st.store) [], invalid := false } := by
  unfold St.ensureGraph
  rw [hv]
  simp only [if_true]
  exact rebuild_fold st.store { st with graph := [], invalid := false } hn rfl (fun c hc => hc)

/-- `Graph()` establishes "graph current" -/
theorem ensureGraph_spec {st : St} (hn : (uids st.store).Nodup)
    (h : st.invalid = true ∨ (st.invalid = false ∧ GraphCur st.store st.graph)) :
    st.ensureGraph.store = st.store ∧ st.ensureGraph.info = st.info ∧
    st.ensureGraph.invalid = false ∧ GraphCur st.store st.ensureGraph.graph := by
  rcases h with h | ⟨h, hg⟩
  · rw [ensureGraph_invalid hn h]
    exact ⟨rfl, rfl, rfl, graphCur_build hn⟩
  · rw [ensureGraph_valid h]
    exact ⟨rfl, rfl, h, hg⟩

/-! ## §6 `TopologicalOrder` on arbitrary (possibly cyclic) graphs -/

theorem KOrd_split {g : G} : ∀ {L : List Nat}, KOrd g L → ∀ pre r l, L = pre ++ r :: l →
    ∀ w, Reach (sedges g) w r → Reach (sedges g) r w ∨ ∃ v, Reach (sedges g) w v ∧ v ∉ r :: l := by
  intro L hk pre
  induction pre generalizing L with
  | nil =>
    intro r l e
    subst e
    exact hk.1
  | cons x pre ih =>
    intro r l e
    subst e
    exact ih hk.2 r l rfl

/-- a vertex that is not on a cycle reaches nothing that stands before it in a `KOrd` list -/
theorem KOrd_no_earlier {g : G} {a : Nat} (hac : ¬ ReachPlus (sedges g) a a) :
    ∀ (L : List Nat) (P : Nat → Prop), KOrd g L → L.Nodup →
      (∀ v, Reach (sedges g) a v → ¬ P v) → (∀ v, Reach (sedges g) a v → P v ∨ v ∈ L) →
      ∀ pre rest, L = pre ++ rest → a ∈ rest → ∀ v ∈ pre, ¬ Reach (sedges g) a v := by
  intro L
  induction L with
  | nil =>
    intro P _ _ _ _ pre rest e _ v hv
    have : pre = [] := (List.append_eq_nil_iff.1 e.symm).1
    subst this
    cases hv
  | cons r l ih =>
    intro P hk hnd hP hcov pre rest e ha v hv
    cases pre with
    | nil => cases hv
    | cons r' pre' =>
      rw [List.cons_append] at e
      obtain ⟨e1, e2⟩ := List.cons.inj e
      subst e1
      obtain ⟨hr, hnd'⟩ := List.nodup_cons.1 hnd
      have hal : a ∈ l := by rw [e2]; exact List.mem_append_right _ ha
      have har : a ≠ r := fun h => hr (h ▸ hal)
      have hnr : ¬ Reach (sedges g) a r := by
        intro hreach
        rcases hk.1 a hreach with h | ⟨v', hv', hv''⟩
        · exact hac ((hreach.plus_of_ne har).trans_reach h)
        · rcases hcov v' hv' with h | h
          · exact hP v' hv' h
          · exact hv'' h
      rcases List.mem_cons.1 hv with rfl | hv
      · exact hnr
      · refine ih (fun x => P x ∨ x = r) hk.2 hnd' ?_ ?_ pre' rest e2 ha v hv
        · intro w hw hPw
          rcases hPw with h | h
          · exact hP w hw h
          · exact hnr (h ▸ hw)
        · intro w hw
          rcases hcov w hw with h | h
          · exact Or.inl (Or.inl h)
          · rcases List.mem_cons.1 h with h | h
            · exact Or.inl (Or.inr h)
            · exact Or.inr h

/-- in `TopologicalOrder` of an arbitrary graph, a vertex that is not on a cycle stands before
each of its successors -/
theorem topo_before {g : G} (hg : Inv g) {a b : Nat} (he : (a, b) ∈ Graph.edges g)
    (hac : ¬ ReachPlus (Graph.edges g) a a) :
    ∀ p q, topologicalOrder g = p ++ b :: q → a ∈ p := by
  obtain ⟨hn, hm, hk, _⟩ := internalOrder_facts hg
  obtain ⟨i, j, hj, rfl, rfl⟩ := Graph.mem_edges.1 he
  obtain ⟨hli, hlj⟩ := live_of_mem_outs hg hj
  intro p q e
  rw [topologicalOrder_eq] at e
  obtain ⟨ps, l2, hL, hp, h2⟩ := List.map_eq_append_iff.1 e
  obtain ⟨j', qs, hl2, hj', hq⟩ := List.map_eq_cons_iff.1 h2
  subst hl2
  have hj'mem : j' ∈ (internalOrder g).reverse := by rw [hL]; simp
  have : j' = j := uid_inj hg ((hm j').1 hj'mem) hlj hj'
  subst this
  have hacs : ¬ ReachPlus (sedges g) i i := fun h => hac (reachPlus_uid h)
  have hi : i ∈ (internalOrder g).reverse := (hm i).2 hli
  rw [hL] at hi
  rcases List.mem_append.1 hi with hi | hi
  · rw [← hp]
    exact List.mem_map.2 ⟨i, hi, rfl⟩
  · exfalso
    rcases List.mem_cons.1 hi with rfl | hi
    · exact hacs ⟨i, mem_sedges.2 hj, Reach.refl _⟩
    · refine KOrd_no_earlier hacs _ (fun _ => False) hk hn (fun _ _ h => h) ?_ (ps ++ [j']) qs
        (by rw [hL]; simp) hi j' (by simp) (Reach.single (mem_sedges.2 hj))
      intro v hv
      exact Or.inr ((hm v).2 (reach_live hg hv hli))

theorem mem_topologicalOrder {g : G} (hg : Inv g) (x : Nat) :
    x ∈ topologicalOrder g ↔ x ∈ liveUids g := (topologicalOrder_perm hg).mem_iff

theorem reach_tail_cases {E : List (Nat × Nat)} {a c : Nat} (h : Reach E a c) :
    a = c ∨ ∃ b, Reach E a b ∧ (b, c) ∈ E := by
  induction h with
  | refl => exact Or.inl rfl
  | step he _ ih =>
    rcases ih with rfl | ⟨b, hb, hbc⟩
    · exact Or.inr ⟨_, Reach.refl _, he⟩
    · exact Or.inr ⟨b, Reach.step he hb, hbc⟩

theorem reachPlus_tail {E : List (Nat × Nat)} {a c : Nat} (h : ReachPlus E a c) :
    ∃ b, Reach E a b ∧ (b, c) ∈ E := by
  obtain ⟨b, hab, hbc⟩ := h
  rcases reach_tail_cases hbc with rfl | ⟨b', hb', hb'c⟩
  · exact ⟨a, Reach.refl _, hab⟩
  · exact ⟨b', Reach.step hab hb', hb'c⟩

theorem acyclic_of_inputs {E : List (Nat × Nat)} {u : Nat}
    (H : ∀ a, (a, u) ∈ E → ∀ w, Reach E w a → ¬ ReachPlus E w w) :
    ∀ w, Reach E w u → ¬ ReachPlus E w w := by
  intro w hw
  rcases reach_tail_cases hw with rfl | ⟨b, hb, hbu⟩
  · intro hp
    obtain ⟨a, ha, hau⟩ := reachPlus_tail hp
    exact H a hau w ha hp
  · exact H b hbu w hb

/-- a derivable constituent is neither on a cycle nor downstream of one (current graph) -/
theorem Typed.acyclic {s : List Cst} {g : G} (hg : GraphCur s g) (hn : (uids s).Nodup)
    {u : Nat} {t : String} (h : Typed s u t) :
    ∀ w, Reach (Graph.edges g) w u → ¬ ReachPlus (Graph.edges g) w w := by
  induction h with
  | @base c hc hk hd =>
    apply acyclic_of_inputs
    intro a ha
    obtain ⟨c', hc', hu, hin⟩ := (hg.edges a c.uid).1 ha
    have := eq_of_uid_eq hn hc' hc hu
    subst this
    obtain ⟨m, hm, _⟩ := mem_inputsOfL.1 hin
    rw [hd] at hm
    cases hm
  | @union c n ns t hc hk hd hs hall ih =>
    apply acyclic_of_inputs
    intro a ha
    obtain ⟨c', hc', hu, hin⟩ := (hg.edges a c.uid).1 ha
    have := eq_of_uid_eq hn hc' hc hu
    subst this
    obtain ⟨m, hm, hfa⟩ := mem_inputsOfL.1 hin
    rw [hd] at hm
    exact ih m hm a hfa

/-! ## §7 `updateState` computes the intended analysis -/

/-- the store has distinct uids and `info` has exactly its keys -/
structure Base (st : St) : Prop where
  nodup : (uids st.store).Nodup
  keys : ∀ u, st.hasInfo u = true ↔ u ∈ uids st.store

/-- `info` is the intended analysis of the store -/
structure Sync (st : St) : Prop where
  sound : Sound st
  complete : CompleteOn st (fun _ => True)
  status : ∀ u ∈ uids st.store, StatusOk st u

/-- invariant of the states reachable without `load` -/
structure WF (st : St) : Prop where
  base : Base st
  valid : st.invalid = false
  cur : GraphCur st.store st.graph
  sync : Sync st

theorem infoFor_congr {st st' : St} (h : st.info = st'.info) (u : Nat) :
    st.infoFor u = st'.infoFor u := by
  unfold St.infoFor; rw [h]

theorem hasInfo_congr {st st' : St} (h : st.info = st'.info) (u : Nat) :
    st.hasInfo u = st'.hasInfo u := by
  unfold St.hasInfo; rw [h]

theorem infoFor_resetInfo (st : St) (u : Nat) : st.resetInfo.infoFor u = {} := by
  unfold St.infoFor St.resetInfo
  simp only
  induction st.info with
  | nil => rfl
  | cons p ps ih =>
    rw [List.map_cons, List.find?_cons]
    split
    · rfl
    · exact ih

theorem hasInfo_resetInfo (st : St) (u : Nat) : st.resetInfo.hasInfo u = st.hasInfo u := by
  unfold St.hasInfo St.resetInfo
  simp only
  induction st.info with
  | nil => rfl
  | cons p ps ih => rw [List.map_cons, List.any_cons, List.any_cons, ih]

theorem Base.hk {st : St} (h : Base st) : ∀ c ∈ st.store, st.hasInfo c.uid = true :=
  fun c hc => (h.keys c.uid).2 (mem_uids.2 ⟨c, hc, rfl⟩)

theorem orderOk_topo {s : List Cst} {g : G} (hn : (uids s).Nodup) (hg : GraphCur s g) :
    OrderOk s (fun _ => False) (topologicalOrder g) := by
  apply OrderOk.of_splits
  intro p b q e c hc hu m hm a ha ht
  right
  obtain ⟨t, ht⟩ := ht
  have hedge : (a, b) ∈ Graph.edges g := (hg.edges a b).2 ⟨c, hc, hu, mem_inputsOfL.2 ⟨m, hm, ha⟩⟩
  exact topo_before hg.inv hedge (ht.acyclic hg hn a (Reach.refl _)) p q e

theorem updateState_spec {st : St} (hb : Base st)
    (hg : st.invalid = true ∨ (st.invalid = false ∧ GraphCur st.store st.graph)) :
    WF st.updateState ∧ st.updateState.store = st.store := by
  have hn1 : (uids st.resetInfo.store).Nodup := hb.nodup
  obtain ⟨e1, e2, e3, e4⟩ := ensureGraph_spec (st := st.resetInfo) hn1 hg
  have e1' : st.resetInfo.ensureGraph.store = st.store := e1
  have hinfo : ∀ u, st.resetInfo.ensureGraph.infoFor u = {} := fun u => by
    rw [infoFor_congr e2, infoFor_resetInfo]
  have hhas : ∀ u, st.resetInfo.ensureGraph.hasInfo u = st.hasInfo u := fun u => by
    rw [hasInfo_congr e2, hasInfo_resetInfo]
  have hS : Sound st.resetInfo.ensureGraph := by
    intro u t h
    rw [hinfo u] at h
    cases h
  have hC : CompleteOn st.resetInfo.ensureGraph (fun _ => False) := fun _ _ h _ => h.elim
  have hcur : GraphCur st.store st.resetInfo.ensureGraph.graph := e4
  obtain ⟨r1, r2, r3, r4, r5, r6, r7, _⟩ := fold_parse (topologicalOrder st.resetInfo.ensureGraph.graph)
    st.resetInfo.ensureGraph (fun _ => False) (fun _ => False) (by rw [e1']; exact hb.nodup)
    (by rw [e1']; intro c hc; rw [hhas]; exact hb.hk c hc) hS hC (fun _ h => h.elim)
    (by
      intro v hv
      rw [e1', ← hcur.live]
      exact (mem_topologicalOrder hcur.inv v).1 hv)
    (by rw [e1']; exact orderOk_topo hb.nodup hcur)
  have hst : st.updateState.store = st.store := r1.trans e1'
  have hall : ∀ u ∈ uids st.store, u ∈ topologicalOrder st.resetInfo.ensureGraph.graph :=
    fun u hu => (mem_topologicalOrder hcur.inv u).2 ((hcur.live u).2 hu)
  refine ⟨⟨⟨?_, ?_⟩, ?_, ?_, ⟨r5, ?_, ?_⟩⟩, hst⟩
  · rw [hst]; exact hb.nodup
  · intro u
    rw [hst]
    show (List.foldl St.parseCst _ _).hasInfo u = true ↔ _
    rw [r4, hhas]
    exact hb.keys u
  · exact r3.trans e3
  · rw [hst]
    show GraphCur st.store (List.foldl St.parseCst _ _).graph
    rw [r2]
    exact hcur
  · intro u t _ ht
    refine r6 u t (Or.inr (hall u ?_)) ht
    have := ht.mem
    rw [hst] at this
    exact this
  · intro u hu
    rw [hst] at hu
    exact r7 u (Or.inr (hall u hu))

/-! ## §8 `triggerParse` -/

theorem before_filter {L : List Nat} {a b : Nat} (f : Nat → Bool)
    (hb : ∀ p q, L = p ++ b :: q → a ∈ p) (hfa : f a = true) :
    ∀ p q, L.filter f = p ++ b :: q → a ∈ p := by
  intro p q e
  obtain ⟨l1, l2, hL, h1, h2⟩ := List.filter_eq_append_iff.1 e
  obtain ⟨l2a, l2b, hl2, hno, _, _⟩ := List.filter_eq_cons_iff.1 h2
  have := hb (l1 ++ l2a) l2b (by rw [hL, hl2, List.append_assoc])
  rcases List.mem_append.1 this with h | h
  · rw [← h1]
    exact List.mem_filter.2 ⟨h, hfa⟩
  · exact absurd hfa (hno a h)

def resetStep (s : St) (v : Nat) : St := if s.hasInfo v then s.setInfo v {} else s

theorem resetStep_hasInfo (st : St) (x v : Nat) : (resetStep st x).hasInfo v = st.hasInfo v := by
  unfold resetStep
  split
  · exact hasInfo_setInfo _
  · rfl

theorem resetStep_infoFor_ne (st : St) {x v : Nat} (h : v ≠ x) :
    (resetStep st x).infoFor v = st.infoFor v := by
  unfold resetStep
  split
  · exact infoFor_setInfo_ne _ h
  · rfl

theorem reset_fold (X : List Nat) : ∀ (st : St),
    (X.foldl resetStep st).store = st.store ∧ (X.foldl resetStep st).graph = st.graph ∧
    (X.foldl resetStep st).invalid = st.invalid ∧
    (∀ v, (X.foldl resetStep st).hasInfo v = st.hasInfo v) ∧
    (∀ v, v ∉ X → (X.foldl resetStep st).infoFor v = st.infoFor v) ∧
    (∀ v, v ∈ X → st.hasInfo v = true → (X.foldl resetStep st).infoFor v = {}) := by
  induction X with
  | nil =>
    intro st
    refine ⟨rfl, rfl, rfl, fun _ => rfl, fun _ _ => rfl, fun v hv => by cases hv⟩
  | cons x xs ih =>
    intro st
    obtain ⟨r1, r2, r3, r4, r5, r6⟩ := ih (resetStep st x)
    have q1 : (resetStep st x).store = st.store := by unfold resetStep; split <;> rfl
    have q2 : (resetStep st x).graph = st.graph := by unfold resetStep; split <;> rfl
    have q3 : (resetStep st x).invalid = st.invalid := by unfold resetStep; split <;> rfl
    rw [List.foldl_cons]
    refine ⟨r1.trans q1, r2.trans q2, r3.trans q3, fun v => (r4 v).trans (resetStep_hasInfo st x v),
      ?_, ?_⟩
    · intro v hv
      rw [r5 v (fun h => hv (List.mem_cons_of_mem _ h))]
      exact resetStep_infoFor_ne st (fun h => hv (by rw [h]; simp))
    · intro v hv hh
      by_cases hvx : v ∈ xs
      · exact r6 v hvx (by rw [resetStep_hasInfo]; exact hh)
      · rw [r5 v hvx]
        have : v = x := by
          rcases List.mem_cons.1 hv with h | h
          · exact h
          · exact absurd h hvx
        subst this
        unfold resetStep
        rw [if_pos hh]
        exact infoFor_setInfo_self _ hh

theorem triggerParse_eq {st : St} (hv : st.invalid = false) (u : Nat) :
    st.triggerParse u =
      (u :: (Graph.sort st.graph (expandOutputs st.graph [u])).filter (· != u)).foldl St.parseCst
        ((expandOutputs st.graph [u]).foldl resetStep st) := by
  unfold St.triggerParse
  rw [ensureGraph_valid hv]
  simp only [List.foldl_cons]
  rw [parseCst_graph]
  have := (reset_fold (expandOutputs st.graph [u]) st).2.1
  unfold resetStep at this
  rw [this]
  rfl

theorem mem_expansion {s : List Cst} {g : G} (hg : GraphCur s g) {u : Nat} (hu : u ∈ uids s) (v : Nat) :
    v ∈ expandOutputs g [u] ↔ Reach (Graph.edges g) u v := by
  rw [expandOutputs_spec g hg.inv (by simp)]
  constructor
  · rintro ⟨x, hx, _, hr⟩
    simp only [List.mem_singleton] at hx
    subst hx
    exact hr
  · intro hr
    exact ⟨u, by simp, (hg.live u).2 hu, hr⟩

theorem reach_live_uid {s : List Cst} {g : G} (hg : GraphCur s g) {u v : Nat} (hu : u ∈ uids s)
    (hr : Reach (Graph.edges g) u v) : v ∈ uids s := by
  induction hr with
  | refl => exact hu
  | step he _ ih =>
    apply ih
    obtain ⟨c, hc, hcu, _⟩ := (hg.edges _ _).1 he
    exact mem_uids.2 ⟨c, hc, hcu⟩

/-- `TriggerParse(u)`: if `info` is right outside the expansion of `u`, it is right everywhere
afterwards -/
theorem triggerParse_spec {st : St} (hb : Base st) (hv : st.invalid = false)
    (hg : GraphCur st.store st.graph) {u : Nat} (hu : u ∈ uids st.store)
    (hS : ∀ v t, v ∉ expandOutputs st.graph [u] → (st.infoFor v).ty = some t → Typed st.store v t)
    (hC : ∀ v t, v ∉ expandOutputs st.graph [u] → Typed st.store v t → (st.infoFor v).ty = some t)
    (hQ : ∀ v ∈ uids st.store, v ∉ expandOutputs st.graph [u] → StatusOk st v) :
    WF (st.triggerParse u) ∧ (st.triggerParse u).store = st.store := by
  rw [triggerParse_eq hv]
  generalize hX : expandOutputs st.graph [u] = X at hS hC hQ ⊢
  have hXm : ∀ v, v ∈ X ↔ Reach (Graph.edges st.graph) u v := fun v => by
    rw [← hX]; exact mem_expansion hg hu v
  have hXu : ∀ v ∈ X, v ∈ uids st.store := fun v hv' => reach_live_uid hg hu ((hXm v).1 hv')
  have huX : u ∈ X := (hXm u).2 (Reach.refl _)
  obtain ⟨q1, q2, q3, q4, q5, q6⟩ := reset_fold X st
  generalize X.foldl resetStep st = st3 at q1 q2 q3 q4 q5 q6 ⊢
  have hsort : Graph.sort st.graph X = (topologicalOrder st.graph).filter (X.contains ·) := by
    unfold Graph.sort
    cases X with
    | nil => cases huX
    | cons _ _ => rfl
  rw [hsort, List.filter_filter]
  generalize hrest : (topologicalOrder st.graph).filter (fun a => (a != u) && X.contains a) = rest
  have hrest_mem : ∀ v, v ∈ rest ↔ v ∈ uids st.store ∧ v ≠ u ∧ v ∈ X := by
    intro v
    rw [← hrest, List.mem_filter, mem_topologicalOrder hg.inv, hg.live]
    simp
  -- hypotheses of `fold_parse`
  have hS3 : Sound st3 := by
    intro v t ht
    rw [q1]
    by_cases hvX : v ∈ X
    · rw [q6 v hvX ((hb.keys v).2 (hXu v hvX))] at ht
      cases ht
    · rw [q5 v hvX] at ht
      exact hS v t hvX ht
  have hC3 : CompleteOn st3 (fun v => v ∉ X) := by
    intro v t hvX ht
    rw [q1] at ht
    rw [q5 v hvX]
    exact hC v t hvX ht
  have hQ3 : ∀ v, (v ∈ uids st.store ∧ v ∉ X) → StatusOk st3 v := by
    intro v ⟨h1, h2⟩
    unfold StatusOk
    rw [q5 v h2]
    exact hQ v h1 h2
  have hedge : ∀ c ∈ st.store, ∀ m ∈ c.defn.mentions, ∀ a, findAliasL st.store m = some a →
      (a, c.uid) ∈ Graph.edges st.graph := fun c hc m hm a ha =>
    (hg.edges a c.uid).2 ⟨c, hc, rfl, mem_inputsOfL.2 ⟨m, hm, ha⟩⟩
  have hO : OrderOk st.store (fun v => v ∉ X) (u :: rest) := by
    refine ⟨?_, OrderOk.of_splits ?_⟩
    · intro c hc hcu m hm a ha ⟨t, ht⟩ haX
      have he := hedge c hc m hm a ha
      rw [hcu] at he
      have hr := (hXm a).1 haX
      exact ht.acyclic hg hb.nodup a (Reach.refl _) ⟨u, he, hr⟩
    · intro p b q e c hc hcu m hm a ha ⟨t, ht⟩
      by_cases haX : a ∈ X
      · by_cases hau : a = u
        · exact Or.inl (Or.inr hau)
        · right
          have he := hedge c hc m hm a ha
          rw [hcu] at he
          have hbef := topo_before hg.inv he (ht.acyclic hg hb.nodup a (Reach.refl _))
          rw [← hrest] at e
          exact before_filter _ hbef (by simp [hau, haX]) p q e
      · exact Or.inl (Or.inl haX)
  obtain ⟨r1, r2, r3, r4, r5, r6, r7, _⟩ := fold_parse (u :: rest) st3 (fun v => v ∉ X)
    (fun v => v ∈ uids st.store ∧ v ∉ X) (by rw [q1]; exact hb.nodup)
    (by rw [q1]; intro c hc; rw [q4]; exact hb.hk c hc) hS3 hC3 hQ3
    (by
      rw [q1]
      intro v hv'
      rcases List.mem_cons.1 hv' with rfl | hv'
      · exact hu
      · exact ((hrest_mem v).1 hv').1)
    (by rw [q1]; exact hO)
  have hst := r1.trans q1
  have hcover : ∀ v ∈ uids st.store, v ∉ X ∨ v ∈ u :: rest := by
    intro v hvu
    by_cases hvX : v ∈ X
    · right
      by_cases hvu' : v = u
      · rw [hvu']; simp
      · exact List.mem_cons_of_mem _ ((hrest_mem v).2 ⟨hvu, hvu', hvX⟩)
    · exact Or.inl hvX
  refine ⟨⟨⟨?_, ?_⟩, ?_, ?_, ⟨r5, ?_, ?_⟩⟩, hst⟩
  · rw [hst]; exact hb.nodup
  · intro v
    rw [hst, r4, q4]
    exact hb.keys v
  · exact r3.trans (q3.trans hv)
  · rw [hst, r2, q2]; exact hg
  · intro v t _ ht
    have hm := ht.mem
    rw [hst] at hm
    exact r6 v t (hcover v hm) ht
  · intro v hvu
    rw [hst] at hvu
    apply r7 v
    rcases hcover v hvu with h | h
    · exact Or.inl ⟨hvu, h⟩
    · exact Or.inr h

/-! ## §9 every editing step preserves the invariant -/

theorem infoFor_init (u : Nat) : ({} : St).infoFor u = {} := rfl

theorem WF_init : WF ({} : St) := by
  refine ⟨⟨?_, ?_⟩, rfl, ⟨inv_empty, ?_, ?_⟩, ⟨?_, ?_, ?_⟩⟩
  · exact List.nodup_nil
  · intro u
    constructor
    · intro h; cases h
    · intro h; cases h
  · intro x
    constructor
    · intro h; cases h
    · intro h; cases h
  · intro a b
    constructor
    · intro h; cases h
    · rintro ⟨c, hc, _⟩; cases hc
  · intro u t h
    cases h
  · intro u t _ h
    have := h.mem
    cases this
  · intro u hu
    cases hu

theorem flatMap_congr' {α β : Type} {l : List α} {f g : α → List β} (h : ∀ x ∈ l, f x = g x) :
    l.flatMap f = l.flatMap g := by
  induction l with
  | nil => rfl
  | cons x xs ih =>
    rw [List.flatMap_cons, List.flatMap_cons, h x (by simp),
      ih (fun y hy => h y (List.mem_cons_of_mem _ hy))]

/-! ### observables are determined by the store -/

theorem Sync.ty_eq {st st' : St} (hs : st.store = st'.store) (h : Sync st) (h' : Sync st') (u : Nat) :
    (st.infoFor u).ty = (st'.infoFor u).ty := by
  cases e : (st.infoFor u).ty with
  | some t =>
    have := h.sound u t e
    rw [hs] at this
    exact (h'.complete u t trivial this).symm
  | none =>
    cases e' : (st'.infoFor u).ty with
    | none => rfl
    | some t =>
      have := h'.sound u t e'
      rw [← hs] at this
      rw [h.complete u t trivial this] at e
      cases e

theorem report_eq {st st' : St} (hs : st.store = st'.store) (h : Sync st) (h' : Sync st') :
    st.report = st'.report := by
  unfold St.report
  rw [← hs]
  apply List.map_congr_left
  intro c hc
  have hu : c.uid ∈ uids st.store := mem_uids.2 ⟨c, hc, rfl⟩
  have e := Sync.ty_eq hs h h' c.uid
  have s1 := h.status c.uid hu
  have s2 := h'.status c.uid (hs ▸ hu)
  unfold StatusOk at s1 s2
  rw [s1, s2, e]

theorem depEdges_eq_store {st : St} (h : WF st) :
    st.depEdges = st.store.flatMap (fun c => (inputsOfL st.store c).map (·, c.uid)) := by
  unfold St.depEdges
  simp only
  rw [ensureGraph_valid h.valid]
  apply flatMap_congr'
  intro c hc
  congr 1
  apply sorted_ext (sortDedup_sorted _) (sortDedup_sorted _)
  intro x
  rw [mem_sortDedup, mem_inputsFor h.cur.inv, h.cur.edges]
  constructor
  · rintro ⟨c', hc', hu, hin⟩
    rw [eq_of_uid_eq h.base.nodup hc' hc hu] at hin
    exact hin
  · intro hin
    exact ⟨c, hc, rfl, hin⟩

theorem WF.scratch {st : St} (h : WF st) : WF st.scratch ∧ st.scratch.store = st.store := by
  unfold St.scratch
  exact updateState_spec (st := { st with invalid := true, graph := [] }) ⟨h.base.nodup, h.base.keys⟩
    (Or.inl rfl)

/-- the observable results of a well-formed state are those of the analysis from scratch -/
theorem WF.observables {st : St} (h : WF st) :
    st.report = st.scratch.report ∧ st.depEdges = st.scratch.depEdges := by
  obtain ⟨h', hs⟩ := h.scratch
  refine ⟨report_eq hs.symm h.sync h'.sync, ?_⟩
  rw [depEdges_eq_store h, depEdges_eq_store h', hs]

/-! ### `insert` -/

theorem uids_insertCst {c : Cst} {s : List Cst} (h : c.uid ∉ uids s) :
    (uids (insertCst c s)).Perm (c.uid :: uids s) := by
  induction s with
  | nil => exact List.Perm.refl _
  | cons d ds ih =>
    unfold insertCst
    split
    · exact List.Perm.refl _
    · split
      · next h2 => exact absurd (by simp [uids, h2]) h
      · have : c.uid ∉ uids ds := fun hh => h (by simp only [uids, List.map_cons]; exact List.mem_cons_of_mem _ hh)
        simp only [uids, List.map_cons]
        exact ((ih this).cons d.uid).trans (List.Perm.swap _ _ _)

theorem hasInfo_append (st : St) (u v : Nat) (i : Info) :
    ({ st with info := st.info ++ [(u, i)] } : St).hasInfo v = (st.hasInfo v || u == v) := by
  unfold St.hasInfo
  simp [List.any_append]

theorem WF.insert {st : St} (h : WF st) (c : Cst) : WF (step false st (.insert c)) := by
  unfold step
  simp only
  split
  · exact h
  · next hh =>
    have hnot : c.uid ∉ uids st.store := fun hu => hh ((h.base.keys c.uid).2 hu)
    have hp := uids_insertCst hnot
    refine (updateState_spec ⟨?_, ?_⟩ (Or.inl rfl)).1
    · show (uids (insertCst c st.store)).Nodup
      rw [hp.nodup_iff]
      exact List.nodup_cons.2 ⟨hnot, h.base.nodup⟩
    · intro u
      show ({ st with info := st.info ++ [(c.uid, {})] } : St).hasInfo u = true ↔ u ∈ uids (insertCst c st.store)
      rw [hasInfo_append, hp.mem_iff, Bool.or_eq_true, h.base.keys u, List.mem_cons]
      constructor
      · rintro (h1 | h1)
        · exact Or.inr h1
        · exact Or.inl (Eq.symm (by simpa using h1))
      · rintro (h1 | h1)
        · exact Or.inr (by simpa using h1.symm)
        · exact Or.inl h1

theorem WF.updateState {st : St} (h : WF st) : WF (step false st .updateState) :=
  (updateState_spec h.base (Or.inr ⟨h.valid, h.cur⟩)).1

/-! ### `setAlias`, `substitute` -/

theorem uids_map_pres (f : Cst → Cst) (hf : ∀ x, (f x).uid = x.uid) (s : List Cst) :
    uids (s.map f) = uids s := by
  unfold uids
  rw [List.map_map]
  apply List.map_congr_left
  intro x _
  exact hf x

theorem fold_preserve {α : Type} (F : St → α → St)
    (hF : ∀ s c, s.invalid = true →
      uids (F s c).store = uids s.store ∧ (F s c).info = s.info ∧ (F s c).invalid = true)
    (l : List α) : ∀ st : St, st.invalid = true →
      uids (l.foldl F st).store = uids st.store ∧ (l.foldl F st).info = st.info ∧
      (l.foldl F st).invalid = true := by
  induction l with
  | nil => intro st h; exact ⟨rfl, rfl, h⟩
  | cons c l ih =>
    intro st h
    obtain ⟨h1, h2, h3⟩ := hF st c h
    obtain ⟨r1, r2, r3⟩ := ih (F st c) h3
    rw [List.foldl_cons]
    exact ⟨r1.trans h1, r2.trans h2, r3⟩

theorem Base.of_eq {st st' : St} (h : Base st) (h1 : uids st'.store = uids st.store)
    (h2 : st'.info = st.info) : Base st' := by
  refine ⟨by rw [h1]; exact h.nodup, fun u => ?_⟩
  rw [h1, hasInfo_congr h2]
  exact h.keys u

theorem translateAll_WF {st : St} (hb : Base st) (hv : st.invalid = true) (f : String → Option String) :
    WF (st.translateAll f) := by
  unfold St.translateAll
  simp only
  have := fold_preserve (fun (s : St) (c : Cst) =>
      St.graphUpdateFor { s with store := s.store.map (fun (x : Cst) =>
        if x.uid == c.uid then { x with defn := renameDef f x.defn } else x) } c.uid)
    (by
      intro s c hs
      rw [graphUpdateFor_invalid (by exact hs)]
      refine ⟨uids_map_pres _ (fun x => ?_) _, rfl, hs⟩
      split <;> rfl) st.store st hv
  obtain ⟨r1, r2, r3⟩ := this
  exact (updateState_spec (hb.of_eq r1 r2) (Or.inl r3)).1

theorem WF.setAlias {st : St} (h : WF st) (u : Nat) (a : String) (subst : Bool) :
    WF (step false st (.setAlias u a subst)) := by
  unfold step
  simp only
  split
  · exact h
  · next c hc =>
    split
    · exact h
    · have hb : Base ({ st with invalid := true, store := st.store.map (fun (x : Cst) =>
          if x.uid == u then { x with alias := a } else x) } : St) :=
        h.base.of_eq (uids_map_pres _ (fun x => by split <;> rfl) _) rfl
      split
      · exact translateAll_WF hb rfl _
      · exact (updateState_spec hb (Or.inl rfl)).1

theorem WF.substitute {st : St} (h : WF st) (m : List (String × String)) :
    WF (step false st (.substitute m)) := by
  unfold step
  simp only
  have hb : Base ({ st with invalid := true, store := st.store.map (fun (x : Cst) =>
      { x with alias := (lookup m x.alias).getD x.alias }) } : St) :=
    h.base.of_eq (uids_map_pres (fun (x : Cst) =>
      { x with alias := (lookup m x.alias).getD x.alias }) (fun x => rfl) st.store) rfl
  exact translateAll_WF hb rfl _

/-! ### `erase` -/

theorem find_filter_of_imp {α : Type} (p q : α → Bool) (l : List α)
    (h : ∀ y ∈ l, p y = true → q y = true) : (l.filter q).find? p = l.find? p := by
  induction l with
  | nil => rfl
  | cons x xs ih =>
    have ih' := ih (fun y hy => h y (List.mem_cons_of_mem _ hy))
    by_cases hq : q x = true
    · rw [List.filter_cons_of_pos hq, List.find?_cons, List.find?_cons, ih']
    · have hp : p x = false := by
        cases hpx : p x with
        | false => rfl
        | true => exact absurd (h x (by simp) hpx) hq
      rw [List.filter_cons_of_neg hq, List.find?_cons, hp, ih']

/-- the alias of the erased constituent is not shared -/
def EraseOk (s : List Cst) (u : Nat) : Prop :=
  ∀ c ∈ s, c.uid = u → ∀ d ∈ s, d.alias = c.alias → d.uid = u

theorem findAliasL_erase {s : List Cst} {u : Nat} (hok : EraseOk s u) (m : String) (a : Nat) :
    findAliasL (s.filter (·.uid != u)) m = some a ↔ findAliasL s m = some a ∧ a ≠ u := by
  by_cases hB : ∃ y ∈ s, y.alias = m ∧ y.uid = u
  · obtain ⟨y, hy, hym, hyu⟩ := hB
    have hall : ∀ d ∈ s, d.alias = m → d.uid = u := fun d hd hdm => hok y hy hyu d hd (hdm.trans hym.symm)
    constructor
    · intro h
      obtain ⟨c, hc, _, hcm⟩ := findAliasL_mem h
      obtain ⟨hc1, hc2⟩ := List.mem_filter.1 hc
      exact absurd (hall c hc1 hcm) (by simpa using hc2)
    · rintro ⟨h, hne⟩
      obtain ⟨c, hc, hcu, hcm⟩ := findAliasL_mem h
      exact absurd (hcu.symm.trans (hall c hc hcm)) hne
  · have hall : ∀ y ∈ s, (y.alias == m) = true → (y.uid != u) = true := by
      intro y hy hym
      have : y.alias = m := by simpa using hym
      have : y.uid ≠ u := fun hyu => hB ⟨y, hy, this, hyu⟩
      simpa using this
    have e : findAliasL (s.filter (·.uid != u)) m = findAliasL s m := by
      unfold findAliasL
      rw [find_filter_of_imp _ _ s hall]
    rw [e]
    constructor
    · intro h
      refine ⟨h, ?_⟩
      obtain ⟨c, hc, hcu, hcm⟩ := findAliasL_mem h
      have := hall c hc (by simpa using hcm)
      rw [← hcu]
      simpa using this
    · exact And.left

theorem mem_inputsOfL_erase {s : List Cst} {u : Nat} (hok : EraseOk s u) (c : Cst) (a : Nat) :
    a ∈ inputsOfL (s.filter (·.uid != u)) c ↔ a ∈ inputsOfL s c ∧ a ≠ u := by
  rw [mem_inputsOfL, mem_inputsOfL]
  constructor
  · rintro ⟨m, hm, h⟩
    obtain ⟨h1, h2⟩ := (findAliasL_erase hok m a).1 h
    exact ⟨⟨m, hm, h1⟩, h2⟩
  · rintro ⟨⟨m, hm, h1⟩, h2⟩
    exact ⟨m, hm, (findAliasL_erase hok m a).2 ⟨h1, h2⟩⟩

theorem mem_uids_filter {s : List Cst} {u x : Nat} :
    x ∈ uids (s.filter (·.uid != u)) ↔ x ∈ uids s ∧ x ≠ u := by
  rw [mem_uids, mem_uids]
  constructor
  · rintro ⟨c, hc, rfl⟩
    obtain ⟨h1, h2⟩ := List.mem_filter.1 hc
    exact ⟨⟨c, h1, rfl⟩, by simpa using h2⟩
  · rintro ⟨⟨c, hc, rfl⟩, h⟩
    exact ⟨c, List.mem_filter.2 ⟨hc, by simpa using h⟩, rfl⟩

theorem graphCur_erase {s : List Cst} {g : G} (hg : GraphCur s g) {u : Nat} (hok : EraseOk s u) :
    GraphCur (s.filter (·.uid != u)) (eraseItem g u) := by
  obtain ⟨i1, i2, i3⟩ := eraseItem_spec hg.inv u
  refine ⟨i1, fun x => ?_, fun a b => ?_⟩
  · rw [i2, hg.live, mem_uids_filter]
  · rw [i3, hg.edges]
    constructor
    · rintro ⟨⟨c, hc, hcu, hin⟩, ha, hb⟩
      simp only at ha hb
      refine ⟨c, List.mem_filter.2 ⟨hc, ?_⟩, hcu, (mem_inputsOfL_erase hok c a).2 ⟨hin, ha⟩⟩
      rw [hcu]; simpa using hb
    · rintro ⟨c, hc, hcu, hin⟩
      obtain ⟨h1, h2⟩ := List.mem_filter.1 hc
      obtain ⟨h3, h4⟩ := (mem_inputsOfL_erase hok c a).1 hin
      refine ⟨⟨c, h1, hcu, h3⟩, h4, ?_⟩
      simp only
      rw [← hcu]; simpa using h2

theorem hasInfo_filter (st : St) (u v : Nat) :
    ({ st with info := st.info.filter (·.1 != u) } : St).hasInfo v = true ↔
      st.hasInfo v = true ∧ v ≠ u := by
  unfold St.hasInfo
  simp only [List.any_eq_true, List.mem_filter]
  constructor
  · rintro ⟨p, ⟨hp, h1⟩, h2⟩
    have e : p.1 = v := by simpa using h2
    exact ⟨⟨p, hp, h2⟩, by rw [← e]; simpa using h1⟩
  · rintro ⟨⟨p, hp, h2⟩, h⟩
    have e : p.1 = v := by simpa using h2
    exact ⟨p, ⟨hp, by rw [e]; simpa using h⟩, h2⟩

def eraseSt (st : St) (u : Nat) : St :=
  { st with info := st.info.filter (·.1 != u),
            graph := if st.invalid then st.graph else eraseItem st.graph u,
            store := st.store.filter (·.uid != u) }

theorem erase_core {st : St} (hb : Base st) (hv : st.invalid = false)
    (hg : GraphCur st.store st.graph) {u : Nat} (hok : EraseOk st.store u) :
    WF (eraseSt st u).updateState := by
  refine (updateState_spec (st := eraseSt st u) ⟨?_, ?_⟩ (Or.inr ⟨hv, ?_⟩)).1
  · show (uids (st.store.filter (·.uid != u))).Nodup
    exact hb.nodup.sublist (List.Sublist.map _ List.filter_sublist)
  · intro v
    show ({ st with info := st.info.filter (·.1 != u) } : St).hasInfo v = true ↔
      v ∈ uids (st.store.filter (·.uid != u))
    rw [hasInfo_filter, mem_uids_filter, hb.keys]
  · show GraphCur (st.store.filter (·.uid != u)) (if st.invalid then st.graph else eraseItem st.graph u)
    rw [hv]
    exact graphCur_erase hg hok

theorem WF.erase {st : St} (h : WF st) (u : Nat) (hok : EraseOk st.store u) :
    WF (step false st (.erase u)) := by
  unfold step
  simp only
  split
  · exact h
  · rw [ensureGraph_valid h.valid]
    obtain ⟨q1, q2, q3, q4, _, _⟩ := reset_fold (expandOutputs st.graph [u]) st
    have hb : Base ((expandOutputs st.graph [u]).foldl resetStep st) :=
      ⟨by rw [q1]; exact h.base.nodup, fun v => by rw [q1, q4]; exact h.base.keys v⟩
    exact erase_core hb (q3.trans h.valid) (by rw [q1, q2]; exact h.cur) (by rw [q1]; exact hok)

/-! ### `setDef` -/

def setDefL (s : List Cst) (u : Nat) (d : Def) : List Cst :=
  s.map (fun (x : Cst) => if x.uid == u then { x with defn := d } else x)

theorem uids_setDefL (s : List Cst) (u : Nat) (d : Def) : uids (setDefL s u d) = uids s :=
  uids_map_pres _ (fun x => by split <;> rfl) s

theorem findAliasL_setDefL (s : List Cst) (u : Nat) (d : Def) (m : String) :
    findAliasL (setDefL s u d) m = findAliasL s m := by
  unfold findAliasL setDefL
  induction s with
  | nil => rfl
  | cons x xs ih =>
    rw [List.map_cons, List.find?_cons, List.find?_cons]
    have e1 : (if x.uid == u then { x with defn := d } else x).alias = x.alias := by split <;> rfl
    have e2 : (if x.uid == u then { x with defn := d } else x).uid = x.uid := by split <;> rfl
    rw [e1]
    cases hx : (x.alias == m) with
    | true => simp only [Option.map_some, e2]
    | false => exact ih

theorem inputsOfL_setDefL (s : List Cst) (u : Nat) (d : Def) (c : Cst) :
    inputsOfL (setDefL s u d) c = inputsOfL s c := by
  unfold inputsOfL
  congr 2
  funext m
  exact findAliasL_setDefL s u d m

theorem mem_setDefL_of_ne {s : List Cst} {u : Nat} {d : Def} {c : Cst} (hc : c ∈ s) (hne : c.uid ≠ u) :
    c ∈ setDefL s u d := by
  refine List.mem_map.2 ⟨c, hc, ?_⟩
  have : (c.uid == u) = false := by simpa using hne
  simp [this]

theorem mem_of_mem_setDefL {s : List Cst} {u : Nat} {d : Def} {c : Cst} (hc : c ∈ setDefL s u d)
    (hne : c.uid ≠ u) : c ∈ s := by
  obtain ⟨x, hx, e⟩ := List.mem_map.1 hc
  by_cases hxu : x.uid = u
  · have : (x.uid == u) = true := by simpa using hxu
    simp only [this, if_true] at e
    rw [← e] at hne
    exact absurd hxu hne
  · have : (x.uid == u) = false := by simpa using hxu
    simp only [this] at e
    rw [← e]
    exact hx

theorem mem_setDefL_self {s : List Cst} {d : Def} {c : Cst} (hc : c ∈ s) :
    ({ c with defn := d } : Cst) ∈ setDefL s c.uid d := by
  refine List.mem_map.2 ⟨c, hc, ?_⟩
  simp

theorem Typed.transfer {s s' : List Cst} (Q : Nat → Prop) (hmem : ∀ c ∈ s, Q c.uid → c ∈ s')
    (hfa : ∀ m, findAliasL s' m = findAliasL s m)
    (hcl : ∀ c ∈ s, Q c.uid → ∀ m ∈ c.defn.mentions, ∀ v, findAliasL s m = some v → Q v)
    {u : Nat} {t : String} (h : Typed s u t) : Q u → Typed s' u t := by
  induction h with
  | @base c hc hk hd => intro hq; exact Typed.base (hmem c hc hq) hk hd
  | @union c n ns t hc hk hd hs hall ih =>
    intro hq
    refine Typed.union (hmem c hc hq) hk hd (fun m hm => by rw [hfa]; exact hs m hm)
      (fun m hm v hv => ?_)
    rw [hfa] at hv
    exact ih m hm v hv (hcl c hc hq m (by rw [hd]; exact hm) v hv)

theorem graphCur_setDef {s : List Cst} {g : G} (hn : (uids s).Nodup) (hg : GraphCur s g) {c : Cst}
    (hc : c ∈ s) (d : Def) :
    GraphCur (setDefL s c.uid d)
      (buildStep (setDefL s c.uid d) g ({ c with defn := d } : Cst)) := by
  have hn' : (uids (setDefL s c.uid d)).Nodup := by rw [uids_setDefL]; exact hn
  have hc1 := mem_setDefL_self (d := d) hc
  obtain ⟨i1, i2, i3⟩ := setItemInputs_spec hg.inv c.uid
    (inputsOfL_nodup (setDefL s c.uid d) ({ c with defn := d } : Cst))
  refine ⟨i1, fun x => ?_, fun a b => ?_⟩
  · have := i2 x
    unfold buildStep
    rw [this, uids_setDefL, hg.live]
    constructor
    · rintro (h | h | h)
      · rw [h]; exact mem_uids.2 ⟨c, hc, rfl⟩
      · have := inputsOfL_uids (s := setDefL s c.uid d) (c := ({ c with defn := d } : Cst)) h
        rw [uids_setDefL] at this
        exact this
      · exact h
    · intro h; exact Or.inr (Or.inr h)
  · have := i3 (a, b)
    unfold buildStep
    rw [this]
    simp only [List.mem_map, Prod.mk.injEq]
    constructor
    · rintro (⟨x, hx, rfl, rfl⟩ | ⟨he, hb⟩)
      · exact ⟨_, hc1, rfl, hx⟩
      · obtain ⟨c', hc', hcu, hin⟩ := (hg.edges a b).1 he
        refine ⟨c', mem_setDefL_of_ne hc' (by rw [hcu]; exact hb), hcu, ?_⟩
        rw [inputsOfL_setDefL]; exact hin
    · rintro ⟨c', hc', hcu, hin⟩
      by_cases hb : b = c.uid
      · left
        have : c' = ({ c with defn := d } : Cst) := eq_of_uid_eq hn' hc' hc1 (by rw [hcu, hb])
        rw [this] at hin
        exact ⟨a, hin, rfl, hb.symm⟩
      · right
        refine ⟨(hg.edges a b).2 ⟨c', mem_of_mem_setDefL hc' (by rw [hcu]; exact hb), hcu, ?_⟩, hb⟩
        rw [inputsOfL_setDefL] at hin; exact hin

/-- `FindExpr` cannot return the target itself once the new text differs from the old one
(the short-cut `realChange = false` is dead in the model) -/
theorem realChange_true {s : List Cst} (hn : (uids s).Nodup) {c : Cst} (hc : c ∈ s) {d : Def}
    (hne : ¬ d = c.defn) :
    ((s.find? (·.defn == d)).map (·.uid) != some c.uid) = true := by
  cases hf : s.find? (·.defn == d) with
  | none => rfl
  | some x =>
    have hx := List.mem_of_find?_eq_some hf
    have hxd : x.defn = d := by simpa using List.find?_some hf
    have : x.uid ≠ c.uid := by
      intro e
      rw [eq_of_uid_eq hn hx hc e] at hxd
      exact hne hxd.symm
    simpa using this

theorem setDef_core {st : St} (h : WF st) {c : Cst} (hc : c ∈ st.store) (d : Def) :
    WF (St.triggerParse { st with store := setDefL st.store c.uid d,
                                  graph := buildStep (setDefL st.store c.uid d) st.graph
                                    ({ c with defn := d } : Cst) } c.uid) := by
  have hg1 := graphCur_setDef h.base.nodup h.cur hc d
  have hu : c.uid ∈ uids (setDefL st.store c.uid d) := by
    rw [uids_setDefL]; exact mem_uids.2 ⟨c, hc, rfl⟩
  have hb : Base ({ st with store := setDefL st.store c.uid d,
                            graph := buildStep (setDefL st.store c.uid d) st.graph
                              ({ c with defn := d } : Cst) } : St) :=
    h.base.of_eq (uids_setDefL _ _ _) rfl
  -- the expansion is closed under the new edges
  have hclosed : ∀ c' ∈ setDefL st.store c.uid d,
      c'.uid ∉ expandOutputs (buildStep (setDefL st.store c.uid d) st.graph ({ c with defn := d } : Cst)) [c.uid] →
      ∀ m ∈ c'.defn.mentions, ∀ v, findAliasL (setDefL st.store c.uid d) m = some v →
      v ∉ expandOutputs (buildStep (setDefL st.store c.uid d) st.graph ({ c with defn := d } : Cst)) [c.uid] := by
    intro c' hc' hnot m hm v hv hvX
    apply hnot
    rw [mem_expansion hg1 hu] at hvX ⊢
    exact hvX.tail ((hg1.edges v c'.uid).2 ⟨c', hc', rfl, mem_inputsOfL.2 ⟨m, hm, hv⟩⟩)
  have hself : c.uid ∈ expandOutputs (buildStep (setDefL st.store c.uid d) st.graph ({ c with defn := d } : Cst)) [c.uid] :=
    (mem_expansion hg1 hu _).2 (Reach.refl _)
  refine (triggerParse_spec hb h.valid hg1 hu ?_ ?_ ?_).1
  · intro v t hvX ht
    have h0 : Typed st.store v t := h.sync.sound v t ht
    refine Typed.transfer (fun x => x ∉ expandOutputs _ [c.uid]) ?_ (findAliasL_setDefL _ _ _) ?_ h0 hvX
    · intro c' hc' hq
      exact mem_setDefL_of_ne hc' (fun e => hq (e ▸ hself))
    · intro c' hc' hq m hm v' hv'
      rw [← findAliasL_setDefL st.store c.uid d] at hv'
      exact hclosed c' (mem_setDefL_of_ne hc' (fun e => hq (e ▸ hself))) hq m hm v' hv'
  · intro v t hvX ht
    apply h.sync.complete v t trivial
    refine Typed.transfer (fun x => x ∉ expandOutputs _ [c.uid]) ?_
      (fun m => (findAliasL_setDefL _ _ _ m).symm) ?_ ht hvX
    · intro c' hc' hq
      exact mem_of_mem_setDefL hc' (fun e => hq (e ▸ hself))
    · intro c' hc' hq m hm v' hv'
      exact hclosed c' hc' hq m hm v' hv'
  · intro v hv _
    rw [uids_setDefL] at hv
    exact h.sync.status v hv

theorem WF.setDef {st : St} (h : WF st) (u : Nat) (d : Def) : WF (step false st (.setDef u d)) := by
  unfold step
  simp only
  split
  · exact h
  · next c hat =>
    obtain ⟨hc, hcu⟩ := mem_of_at hat
    split
    · exact h
    · next hne =>
      subst hcu
      rw [if_pos (realChange_true h.base.nodup hc hne)]
      simp only [Bool.false_eq_true, if_false]
      have hn' : (uids (setDefL st.store c.uid d)).Nodup := by rw [uids_setDefL]; exact h.base.nodup
      have e := graphUpdateFor_of_mem (st := { st with store := setDefL st.store c.uid d }) hn' h.valid
        (c := ({ c with defn := d } : Cst)) (mem_setDefL_self hc)
      have e' : St.graphUpdateFor { st with store := setDefL st.store c.uid d } c.uid = _ := e
      unfold setDefL at e'
      rw [e']
      exact setDef_core h hc d

/-! ### histories -/

/-- admissible operation in a state: no `load`; the alias of an erased constituent is not shared
with another constituent (the identity manager of `RSCore` issues unique aliases) -/
def Admissible (st : St) : Op → Prop
  | .load _ => False
  | .erase u => EraseOk st.store u
  | _ => True

def AdmissibleFrom : St → List Op → Prop
  | _, [] => True
  | st, op :: ops => Admissible st op ∧ AdmissibleFrom (step false st op) ops

instance (s : List Cst) (u : Nat) : Decidable (EraseOk s u) := by
  unfold EraseOk; infer_instance

instance (st : St) (op : Op) : Decidable (Admissible st op) := by
  cases op <;> unfold Admissible <;> infer_instance

instance : ∀ (ops : List Op) (st : St), Decidable (AdmissibleFrom st ops)
  | [], _ => isTrue trivial
  | op :: ops, st =>
    have := instDecidableAdmissibleFrom ops (Schema.step false st op)
    inferInstanceAs (Decidable (Admissible st op ∧ AdmissibleFrom (Schema.step false st op) ops))

theorem WF.step {st : St} (h : WF st) {op : Op} (ha : Admissible st op) : WF (step false st op) := by
  cases op with
  | insert c => exact h.insert c
  | load c => exact ha.elim
  | updateState => exact h.updateState
  | erase u => exact h.erase u ha
  | setDef u d => exact h.setDef u d
  | setAlias u a sb => exact h.setAlias u a sb
  | substitute m => exact h.substitute m

theorem WF.foldl (ops : List Op) : ∀ st : St, WF st → AdmissibleFrom st ops →
    WF (ops.foldl (Schema.step false) st) := by
  induction ops with
  | nil => intro st h _; exact h
  | cons op ops ih =>
    intro st h ha
    rw [List.foldl_cons]
    exact ih _ (h.step ha.1) ha.2

theorem WF.run {ops : List Op} (ha : AdmissibleFrom {} ops) : WF (run false ops) :=
  WF.foldl ops {} WF_init ha

/-- aliases of the stored constituents are pairwise distinct -/
def AliasesDistinct (st : St) : Prop := (st.store.map (·.alias)).Nodup

instance (st : St) : Decidable (AliasesDistinct st) := by
  unfold AliasesDistinct; infer_instance

theorem eq_of_alias_eq {s : List Cst} (hn : (s.map (·.alias)).Nodup) {c d : Cst} (hc : c ∈ s)
    (hd : d ∈ s) (h : c.alias = d.alias) : c = d := by
  induction s with
  | nil => cases hc
  | cons x xs ih =>
    simp only [List.map_cons, List.nodup_cons] at hn
    obtain ⟨h1, h2⟩ := hn
    rcases List.mem_cons.1 hc with e1 | hc <;> rcases List.mem_cons.1 hd with e2 | hd
    · rw [e1, e2]
    · exact absurd (List.mem_map.2 ⟨d, hd, by rw [← h, e1]⟩) h1
    · exact absurd (List.mem_map.2 ⟨c, hc, by rw [h, e2]⟩) h1
    · exact ih h2 hc hd

theorem admissibleFrom_of_distinct (ops : List Op) : ∀ st : St,
    (∀ op ∈ ops, ∀ c, op ≠ .load c) →
    (∀ k, AliasesDistinct ((ops.take k).foldl (Schema.step false) st)) → AdmissibleFrom st ops := by
  induction ops with
  | nil => intro _ _ _; trivial
  | cons op ops ih =>
    intro st hl hd
    refine ⟨?_, ih _ (fun o ho => hl o (List.mem_cons_of_mem _ ho)) (fun k => ?_)⟩
    · cases op with
      | load c => exact absurd rfl (hl (.load c) (by simp) c)
      | erase u =>
        intro c hc hcu d' hd' hal
        have h0 : AliasesDistinct st := hd 0
        rw [eq_of_alias_eq h0 hd' hc hal]
        exact hcu
      | _ => trivial
    · have := hd (k + 1)
      rw [List.take_succ_cons, List.foldl_cons] at this
      exact this

end CCVerif.Schema
