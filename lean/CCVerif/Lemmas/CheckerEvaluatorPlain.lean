import CCVerif.Lemmas.RSModelGenRenOn
import CCVerif.Lemmas.CheckerEvaluatorRen
import CCVerif.Lemmas.EvaluatorRenameTop
/-!
C11 on a carrier, `SetAliasFor(…, substitute = false)` (prover-C11u).

`Inv.foldl_on` of `Lemmas/RSModelGenRenOn.lean` excludes the plain rename: the store after the step is NOT the old
store renamed by a map (the dependants of the renamed constituent keep their definitions, the old name dangles), and
the carrier hypothesis says nothing about the renamed definitions of the dependants, so `RenCarrier.adm` cannot be
applied to the whole store. Here the value of a constituent that KEEPS its value (not a dependant) is transferred in
three stages through the SUB-STORE `s0` of the constituents not reachable from the renamed one:

1. `TVal` on the store → `TVal` on `s0` (frame: closed under resolved mentions);
2. `RenCarrier.adm` on `s0` with the map `old ↦ new` (on `s0` that map leaves the definitions alone — the one extra
   law `RenameIdOn`, `Equivariant.rename_id` on the carrier — so the renamed `s0` is a part of the new store and
   in the carrier) gives an admissible renaming; `TVal.ren` on `s0`;
3. `TVal` on the renamed `s0` → `TVal` on the new store (`TVal.rename_sub`, the value part of `Inv.rename_on` with
   membership instead of equality of stores).
-/
namespace CCVerif.RSModelGen
open CCVerif CCVerif.SchemaGen CCVerif.Graph
open CCVerif.Schema (Kind lookup)

variable {D I V : Type} {A : Analysis D I} {E : Eval D I V}

/-- `Equivariant.rename_id` on the carrier `P` -/
def RenameIdOn (A : Analysis D I) (P : Cst D → Prop) : Prop :=
  ∀ (f : String → Option String) (c : Cst D), P c → (∀ m ∈ A.mentions c.defn, RSModelGen.ren f m = m) →
    A.rename f c.defn = c.defn

/-- the value part of `Inv.rename_on`, between two lists: `s'` CONTAINS the store `s` renamed by `f` -/
theorem TVal.rename_sub (hA : Lawful A) (hE : EvalLawful A E) (Q : Equivariance A) {R : Q.Ren → Prop}
    {P : Cst D → Prop} (QE : EvalEquivarianceOn A E Q R P) {s s' : List (Cst D)} (hn : (uids s).Nodup)
    (hd : (s'.map (·.alias)).Nodup) (f : String → Option String) (hsub : ∀ c ∈ s, renCst A f c ∈ s')
    (r : Q.Ren) (hR : R r) (hP : ∀ c ∈ s, P c) (hg : ∀ c ∈ s, Q.Good r c)
    (hag : ∀ c ∈ s, Q.app r c.alias = RSModelGen.ren f c.alias)
    {dat : Nat → Option V} {c : Cst D} {v : V} (hc : c ∈ s) (hck : c.kind = .term)
    (ht : TVal A E s dat c.uid v) : TVal A E s' dat c.uid v := by
  have hn' : (uids (s.map (Q.renC r))).Nodup := by rw [Q.uids_ren]; exact hn
  have ht' := ht.ren Q QE r hR hP hg
  have hcm : Q.renC r c ∈ s.map (Q.renC r) := List.mem_map.2 ⟨c, hc, rfl⟩
  have hq : ∃ i, Val A (s.map (Q.renC r)) c.uid i := TVal.val (c := Q.renC r c) hn' hcm hck ht'
  have hagree : ∀ c1 ∈ s, (∃ i, Val A (s.map (Q.renC r)) c1.uid i) →
      ∀ m ∈ A.mentions c1.defn, ∃ c3 ∈ s, c3.alias = m ∧
        findAliasL (s.map (Q.renC r)) (Q.app r m) = some c3.uid := by
    rintro c1 hc1 ⟨i, hv⟩ m hm
    have hres := Val.resolved hE hn' (c := Q.renC r c1) (List.mem_map.2 ⟨c1, hc1, rfl⟩) hv (Q.app r m) (by
      show Q.app r m ∈ A.mentions (Q.renD r c1.defn)
      rw [Q.mentions_ren r c1 (hg c1 hc1)]
      exact List.mem_map.2 ⟨m, hm, rfl⟩)
    obtain ⟨w0, _, hw0, _⟩ := hres
    have hw0' := hw0
    rw [Q.findAliasL_ren] at hw0'
    obtain ⟨c3, hc3, hc3u, hc3a⟩ := findAliasL_mem hw0'
    exact ⟨c3, hc3, hc3a, by rw [hw0, hc3u]⟩
  have hsame : ∀ c1 ∈ s, (∃ i, Val A (s.map (Q.renC r)) c1.uid i) → Q.renC r c1 = renCst A f c1 := by
    intro c1 hc1 hv
    unfold Equivariance.renC renCst
    rw [hag c1 hc1, Q.rename_eq r f c1 (hg c1 hc1) (fun n hn' => by
      obtain ⟨c3, hc3, hc3a, _⟩ := hagree c1 hc1 hv n hn'
      rw [← hc3a]
      exact (hag c3 hc3).symm)]
  refine TVal.transfer_id hA hE hn' (fun u => ∃ i, Val A (s.map (Q.renC r)) u i) ?_ ?_
    (fun _ _ _ _ => rfl) ht' hq
  · intro c1' hc1' hv
    obtain ⟨c1, hc1, rfl⟩ := List.mem_map.1 hc1'
    show Q.renC r c1 ∈ s'
    rw [hsame c1 hc1 hv]
    exact hsub c1 hc1
  · intro c1' hc1' hv m' hm' w' hw'
    obtain ⟨c1, hc1, rfl⟩ := List.mem_map.1 hc1'
    have hm'' : m' ∈ (A.mentions c1.defn).map (Q.app r) := by
      rw [← Q.mentions_ren r c1 (hg c1 hc1)]; exact hm'
    obtain ⟨m, hm, rfl⟩ := List.mem_map.1 hm''
    obtain ⟨c3, hc3, hc3a, hf3⟩ := hagree c1 hc1 hv m hm
    rw [hf3] at hw'
    have e : c3.uid = w' := Option.some.inj hw'
    obtain ⟨i, hvi⟩ := hv
    obtain ⟨w0, j, hw0, hvj⟩ := Val.resolved hE hn' (c := Q.renC r c1) (List.mem_map.2 ⟨c1, hc1, rfl⟩) hvi
      (Q.app r m) hm'
    rw [hf3] at hw0
    have e0 : c3.uid = w0 := Option.some.inj hw0
    refine ⟨?_, ⟨j, by rw [← e, e0]; exact hvj⟩⟩
    have hmem3 : renCst A f c3 ∈ s' := hsub c3 hc3
    have := findAliasL_of_distinct hd hmem3
    have e1 : (renCst A f c3).alias = Q.app r m := by
      show RSModelGen.ren f c3.alias = _
      rw [← hag c3 hc3, hc3a]
    have e2 : (renCst A f c3).uid = w' := e
    rw [e1, e2] at this
    exact this

section steps
variable [DecidableEq D]

/-- `SetAliasFor(u, a, substitute = false)` on a carrier: the dependants of `u` are reset; the value of every other
term is transferred through the sub-store of the constituents that do not depend on `u` -/
theorem Inv.setAliasFalse_on (hA : Lawful A) (hE : EvalLawful A E) (Q : Equivariance A) {R : Q.Ren → Prop}
    {P : Cst D → Prop} (QE : EvalEquivarianceOn A E Q R P) (C : RenCarrier A Q R P) (hid : RenameIdOn A P)
    {st : St D I V} (h : Inv A E st) (u : Nat) (a : String)
    (hd : AliasesDistinct (RSModelGen.step A E st (.schema (.setAlias u a false))).sch)
    (hP : ∀ c ∈ st.sch.store, P c)
    (hP' : ∀ c ∈ (RSModelGen.step A E st (.schema (.setAlias u a false))).sch.store, P c) :
    Inv A E (RSModelGen.step A E st (.schema (.setAlias u a false))) := by
  classical
  have hwf' : SchemaGen.WF A (SchemaGen.step A st.sch (.setAlias u a false)) := h.wf.setAlias hA u a false
  have hn := h.wf.base.nodup
  cases hat : st.sch.at u with
  | none =>
    have hcont : st.sch.contains u = false := by unfold SchemaGen.St.contains; rw [hat]; rfl
    have e : RSModelGen.step A E st (.schema (.setAlias u a false)) = st := by
      unfold RSModelGen.step
      simp only [hcont, Bool.not_false, if_true]
      have e' : SchemaGen.step A st.sch (.setAlias u a false) = st.sch := by
        unfold SchemaGen.step; simp only; rw [hat]
      rw [e']
    rw [e]; exact h
  | some c =>
    have hcont : st.sch.contains u = true := by unfold SchemaGen.St.contains; rw [hat]; rfl
    obtain ⟨hc, hcu⟩ := mem_of_at hat
    have hu : u ∈ uids st.sch.store := mem_uids.2 ⟨c, hc, hcu⟩
    by_cases hne : c.alias = a
    · have e : RSModelGen.step A E st (.schema (.setAlias u a false)) = st := by
        unfold RSModelGen.step
        simp only [hcont, Bool.not_true, Bool.false_eq_true, if_false]
        rw [ensureGraph_valid h.wf.valid, hat]
        have e' : SchemaGen.step A st.sch (.setAlias u a false) = st.sch := by
          unfold SchemaGen.step; simp only; rw [hat]; simp only; rw [if_pos hne]
        simp only [Option.map_some, hne, beq_self_eq_true, if_true]
        rw [e']
      rw [e]; exact h
    · have e : RSModelGen.step A E st (.schema (.setAlias u a false)) =
          St.resetItems E { st with sch := SchemaGen.step A st.sch (.setAlias u a false) }
            (Graph.expandOutputs st.sch.graph [u]) u := by
        unfold RSModelGen.step
        simp only [hcont, Bool.not_true, Bool.false_eq_true, if_false]
        rw [ensureGraph_valid h.wf.valid, hat]
        have : ((some c).map (·.alias) == some a) = false := by simpa using hne
        rw [this]
        simp only [Bool.false_eq_true, if_false]
      rw [e] at hd hP' ⊢
      have hst := setAlias_spec hA h.wf false hat hne
      simp only [Bool.false_eq_true, if_false] at hst
      have hXm := mem_expansion h.wf.cur hu
      generalize SchemaGen.step A st.sch (.setAlias u a false) = sch' at hd hwf' hst hP' ⊢
      obtain ⟨r1, r2⟩ := resetItems_spec (E := E) (Graph.expandOutputs st.sch.graph [u]) u
        ({ st with sch := sch' } : St D I V)
      have hsch : (St.resetItems E { st with sch := sch' } (Graph.expandOutputs st.sch.graph [u]) u).sch = sch' := r1
      have hd0 : (sch'.store.map (·.alias)).Nodup := by rw [hsch] at hd; exact hd
      have hP0' : ∀ c ∈ sch'.store, P c := by rw [hsch] at hP'; exact hP'
      have hn' : (uids sch'.store).Nodup := hwf'.base.nodup
      have hal := setAl_facts hn h.dist hc hcu a
      have hmem' : ∀ c1 ∈ st.sch.store, setAl u a c1 ∈ sch'.store := by
        intro c1 hc1
        rw [hst]; exact List.mem_map.2 ⟨c1, hc1, rfl⟩
      have hk1 : ∀ c1 ∈ st.sch.store, ({ st with sch := sch' } : St D I V).kindOf c1.uid = some c1.kind := by
        intro c1 hc1
        obtain ⟨b1, b2, _⟩ := hal c1 hc1
        rw [← b1, kindOf_of_mem (st := { st with sch := sch' }) hn' (hmem' c1 hc1), b2]
      have hold : findAliasL st.sch.store c.alias = some u := by
        rw [findAliasL_of_distinct h.dist hc, hcu]
      have hedge : ∀ c1 ∈ st.sch.store, ∀ m ∈ A.mentions c1.defn, ∀ w', findAliasL st.sch.store m = some w' →
          (w', c1.uid) ∈ Graph.edges st.sch.graph := fun c1 hc1 m hm w' hw' =>
        (h.wf.cur.edges w' c1.uid).2 ⟨c1, hc1, rfl, mem_inputsOfL.2 ⟨m, hm, hw'⟩⟩
      have hnotold : ∀ c1 ∈ st.sch.store, ¬ ReachPlus (Graph.edges st.sch.graph) u c1.uid →
          ∀ m ∈ A.mentions c1.defn, m ≠ c.alias := by
        intro c1 hc1 hq m hm e1
        apply hq
        exact ⟨c1.uid, hedge c1 hc1 m hm u (by rw [e1]; exact hold), Reach.refl _⟩
      refine ⟨by rw [hsch]; exact hwf', hd, ?_⟩
      intro w v hkw hvw
      have hkw1 : ({ st with sch := sch' } : St D I V).kindOf w = some .term := by
        rw [← kindOf_congr (st := { st with sch := sch' })
          (st' := St.resetItems E { st with sch := sch' } (Graph.expandOutputs st.sch.graph [u]) u)
          (by rw [r1])]
        exact hkw
      obtain ⟨c', _, hc', hc'u, hc'k⟩ := kindOf_eq_some hkw1
      have hc'' : c' ∈ st.sch.store.map (setAl u a) := by rw [← hst]; exact hc'
      obtain ⟨c0, hc0, hAc⟩ := List.mem_map.1 hc''
      obtain ⟨a1, a2, _⟩ := hal c0 hc0
      have hc0w : c0.uid = w := by rw [← a1, hAc, hc'u]
      have hc0k : c0.kind = .term := by rw [← a2, hAc, hc'k]
      have hkw0 : st.kindOf w = some .term := by
        rw [← hc'u, ← hAc, a1, kindOf_of_mem hn hc0, ← a2, hAc, hc'k]
      have hdata : st.dataFor w = some v := by
        by_cases hX : w ∈ Graph.expandOutputs st.sch.graph [u] ∧ w ≠ u
        · rw [(r2 w).1 ⟨hX.1, hX.2, hkw1⟩] at hvw
          cases hvw
        · rw [(r2 w).2 (fun h' => hX ⟨h'.1, h'.2.1⟩)] at hvw
          exact hvw
      have ht := h.val w v hkw0 hdata
      have hq : ¬ ReachPlus (Graph.edges st.sch.graph) u w := by
        by_cases hwu : w = u
        · rw [hwu]
          have hc0u : c0.uid = u := by rw [hc0w, hwu]
          rw [hwu, ← hc0u] at ht
          obtain ⟨i, hval⟩ := ht.val hn hc0 hc0k
          rw [hc0u] at hval
          exact hval.acyclic h.wf.cur hn u (Reach.refl _)
        · intro hp
          by_cases hX : w ∈ Graph.expandOutputs st.sch.graph [u]
          · rw [(r2 w).1 ⟨hX, hwu, hkw1⟩] at hvw
            cases hvw
          · exact hX ((hXm w).2 hp.reach)
      rw [hsch]
      -- the map `old ↦ new` and the sub-store of the constituents that do not depend on `u`
      let f : String → Option String := fun n => if n == c.alias then some a else none
      let s0 : List (Cst D) :=
        st.sch.store.filter fun x => decide (¬ ReachPlus (Graph.edges st.sch.graph) u x.uid)
      have hs0 : ∀ c1, c1 ∈ s0 ↔ c1 ∈ st.sch.store ∧ ¬ ReachPlus (Graph.edges st.sch.graph) u c1.uid := by
        intro c1
        show c1 ∈ List.filter _ _ ↔ _
        rw [List.mem_filter, decide_eq_true_iff]
      have hsl : s0.Sublist st.sch.store := List.filter_sublist
      have hn0 : (uids s0).Nodup := by
        have : (uids s0).Sublist (uids st.sch.store) := by
          unfold uids; exact hsl.map _
        exact this.nodup hn
      have hd00 : (s0.map (·.alias)).Nodup := (hsl.map _).nodup h.dist
      have hrenQ : ∀ c1 ∈ s0, renCst A f c1 = setAl u a c1 := by
        intro c1 hc1s
        obtain ⟨hc1, hq1⟩ := (hs0 c1).1 hc1s
        obtain ⟨b1, b2, b3, b4, _⟩ := hal c1 hc1
        have hd1 : A.rename f c1.defn = c1.defn := by
          apply hid f c1 (hP c1 hc1)
          intro m hm
          show RSModelGen.ren (fun n => if n == c.alias then some a else none) m = m
          rw [ren_setAlias]
          have : m ≠ c.alias := hnotold c1 hc1 hq1 m hm
          simp [this]
        unfold renCst
        have b4' : (setAl u a c1).alias = if c1.alias == c.alias then a else c1.alias := b4
        have e5 : RSModelGen.ren f c1.alias = if c1.alias == c.alias then a else c1.alias := ren_setAlias _ _ _
        rw [hd1, e5, ← b4']
        cases hx : setAl u a c1 with
        | mk u' a' k' d' =>
          rw [hx] at b1 b2 b3
          simp only at b1 b2 b3
          subst b1; subst b2; subst b3
          rfl
      have hsub : ∀ c1 ∈ s0, renCst A f c1 ∈ sch'.store := by
        intro c1 hc1s
        rw [hrenQ c1 hc1s]
        exact hmem' c1 ((hs0 c1).1 hc1s).1
      have hd0' : (s0.map fun c => RSModelGen.ren f c.alias).Nodup := by
        have e6 : (s0.map fun c => RSModelGen.ren f c.alias) = (s0.map (renCst A f)).map (·.alias) := by
          rw [List.map_map]; rfl
        rw [e6]
        have e7 : s0.map (renCst A f) = s0.map (setAl u a) :=
          List.map_congr_left hrenQ
        rw [e7]
        have : (s0.map (setAl u a)).Sublist sch'.store := by rw [hst]; exact hsl.map _
        exact (this.map _).nodup hd0
      obtain ⟨r, hR, hg, hag⟩ := C.adm s0 f (fun c1 hc1 => hP c1 ((hs0 c1).1 hc1).1)
        (fun c1 hc1 => hP0' _ (hsub c1 hc1)) hd00 hd0'
      -- stage 1: into the sub-store
      have ht0 : TVal A E s0 st.dataFor w v := by
        refine TVal.transfer_id hA hE hn (fun x => ¬ ReachPlus (Graph.edges st.sch.graph) u x) ?_ ?_
          (fun _ _ _ _ => rfl) ht hq
        · intro c1 hc1 hq1
          exact (hs0 c1).2 ⟨hc1, hq1⟩
        · intro c1 hc1 hq1 m hm w' hw'
          have he := hedge c1 hc1 m hm w' hw'
          have hq3 : ¬ ReachPlus (Graph.edges st.sch.graph) u w' := by
            rintro ⟨b, hb, hr⟩
            exact hq1 ⟨b, hb, hr.tail he⟩
          obtain ⟨c3, hc3, hc3u, hc3a⟩ := findAliasL_mem hw'
          have hc3s : c3 ∈ s0 := (hs0 c3).2 ⟨hc3, by rw [hc3u]; exact hq3⟩
          have hres := findAliasL_of_distinct hd00 hc3s
          rw [hc3a, hc3u] at hres
          exact ⟨hres, hq3⟩
      -- stages 2 and 3: the renamed sub-store is a part of the new store
      have hc0s : c0 ∈ s0 := (hs0 c0).2 ⟨hc0, by rw [hc0w]; exact hq⟩
      rw [← hc0w] at ht0 ⊢
      have ht1 : TVal A E sch'.store st.dataFor c0.uid v :=
        TVal.rename_sub hA hE Q QE hn0 hd0 f hsub r hR (fun c1 hc1 => hP c1 ((hs0 c1).1 hc1).1) hg hag
          hc0s hc0k ht0
      -- the data of the base sets are untouched by the reset
      refine TVal.transfer_id hA hE hn' (fun _ => True) (fun c1 hc1 _ => hc1)
        (fun c1 _ _ m _ w' hw' => ⟨hw', trivial⟩) ?_ ht1 trivial
      intro c1 hc1 _ hkb
      have hnot : ¬ (c1.uid ∈ Graph.expandOutputs st.sch.graph [u] ∧ c1.uid ≠ u ∧
          ({ st with sch := sch' } : St D I V).kindOf c1.uid = some .term) := by
        rintro ⟨_, _, hk3⟩
        rw [kindOf_of_mem (st := { st with sch := sch' }) hn' hc1, hkb] at hk3
        cases hk3
      rw [(r2 c1.uid).2 hnot]
      rfl

/-- one step, every operation (the plain rename included) -/
theorem Inv.step_onAll (hA : Lawful A) (hE : EvalLawful A E) (Q : Equivariance A) {R : Q.Ren → Prop}
    {P : Cst D → Prop} (QE : EvalEquivarianceOn A E Q R P) (C : RenCarrier A Q R P) (hid : RenameIdOn A P)
    {st : St D I V} (h : Inv A E st) {op : Op D V} (ha : AdmissibleAll A E st op)
    (hP : ∀ c ∈ st.sch.store, P c) (hP' : ∀ c ∈ (RSModelGen.step A E st op).sch.store, P c) :
    Inv A E (RSModelGen.step A E st op) := by
  by_cases hnp : NoPlainRename op
  · exact h.step_on hA hE Q QE C ha hnp hP hP'
  · cases op with
    | schema sop =>
      cases sop with
      | setAlias u a sb =>
        cases sb with
        | true => exact (hnp trivial).elim
        | false => exact h.setAliasFalse_on hA hE Q QE C hid u a ha hP hP'
      | _ => exact (hnp trivial).elim
    | _ => exact (hnp trivial).elim

theorem Inv.foldl_onAll (hA : Lawful A) (hE : EvalLawful A E) (Q : Equivariance A) {R : Q.Ren → Prop}
    {P : Cst D → Prop} (QE : EvalEquivarianceOn A E Q R P) (C : RenCarrier A Q R P) (hid : RenameIdOn A P)
    (ops : List (Op D V)) :
    ∀ st : St D I V, Inv A E st → AdmissibleAllFrom A E st ops →
      (∀ k, ∀ c ∈ ((ops.take k).foldl (RSModelGen.step A E) st).sch.store, P c) →
      Inv A E (ops.foldl (RSModelGen.step A E) st) := by
  induction ops with
  | nil => intro st h _ _; exact h
  | cons op ops ih =>
    intro st h ha hP
    rw [List.foldl_cons]
    have hP0 : ∀ c ∈ st.sch.store, P c := by
      have := hP 0
      rw [List.take_zero, List.foldl_nil] at this
      exact this
    have hP1 : ∀ c ∈ (RSModelGen.step A E st op).sch.store, P c := by
      have := hP 1
      rw [List.take_succ_cons, List.take_zero, List.foldl_cons, List.foldl_nil] at this
      exact this
    refine ih _ (h.step_onAll hA hE Q QE C hid ha.1 hP0 hP1) ha.2 (fun k => ?_)
    have := hP (k + 1)
    rw [List.take_succ_cons, List.foldl_cons] at this
    exact this

/-- **C11 on a carrier, ALL operations**: every admissible history (aliases stay pairwise distinct) of insertions,
erasures, definition edits, `UpdateState`, data edits, `Calculate`, `RecalculateAll`, `SetAliasFor` WITH and WITHOUT
substitution and `SubstitueAliases` along which every stored constituent is in the carrier keeps the invariant -/
theorem Inv.run_onAll (hA : Lawful A) (hE : EvalLawful A E) (Q : Equivariance A) {R : Q.Ren → Prop}
    {P : Cst D → Prop} (QE : EvalEquivarianceOn A E Q R P) (C : RenCarrier A Q R P) (hid : RenameIdOn A P)
    {ops : List (Op D V)} (ha : AdmissibleAllFrom A E {} ops)
    (hP : ∀ k, ∀ c ∈ (RSModelGen.run A E (ops.take k)).sch.store, P c) :
    Inv A E (RSModelGen.run A E ops) :=
  Inv.foldl_onAll hA hE Q QE C hid ops {} Inv.init ha hP

end steps

/-- `RenameIdOn` for the checker on the grammar-shaped carrier (`renameC_id_shaped`) -/
theorem checker_renameIdOn (traits : Types.TraitEnv) (fuel : Nat) :
    RenameIdOn (checkerR fun _ => traits) (cstShapedN fuel) :=
  fun f _ hP h => renameC_id_shaped f hP.1.2 h

end CCVerif.RSModelGen
