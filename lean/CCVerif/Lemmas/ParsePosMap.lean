import CCVerif.Model.Parser
/-!
The parser model only COPIES token positions: mapping every `lo` by `f` and every `hi` by `g` (any
`f g : Int → Int`) commutes with parsing (`parseToks_natural`). Generalises `Lemmas/ParseErase.lean`
(`f = g = fun _ => 0`).
-/
namespace CCVerif.PN
open CCVerif.Syntax CCVerif.Generated CCVerif.Lexer CCVerif.Parser

/-- token with its range moved -/
def mp (pl ph : Int → Int) (t : LTok) : LTok := ⟨t.id, t.data, pl t.lo, ph t.hi⟩

mutual
/-- tree with every `lo` mapped by `f` and every `hi` by `g` -/
def mpA (pl ph : Int → Int) : Ast → Ast
  | .node id d lo hi ks => .node id d (pl lo) (ph hi) (mpL pl ph ks)
def mpL (pl ph : Int → Int) : List Ast → List Ast
  | [] => []
  | k :: ks => mpA pl ph k :: mpL pl ph ks
end

variable {pl ph : Int → Int}

/-! ## basic facts -/

@[simp] theorem erL_eq_map (ks : List Ast) : mpL pl ph ks = ks.map (mpA pl ph) := by
  induction ks with
  | nil => simp [mpL]
  | cons k ks ih => simp [mpL, ih]

@[simp] theorem erA_node (id : Tok) (d : TokData) (lo hi : Int) (ks : List Ast) :
    mpA pl ph (.node id d lo hi ks) = .node id d (pl lo) (ph hi) (ks.map (mpA pl ph)) := by
  simp [mpA]

@[simp] theorem er_id (t : LTok) : (mp pl ph t).id = t.id := rfl
@[simp] theorem er_data (t : LTok) : (mp pl ph t).data = t.data := rfl
@[simp] theorem er_lo (t : LTok) : (mp pl ph t).lo = pl t.lo := rfl
@[simp] theorem er_hi (t : LTok) : (mp pl ph t).hi = ph t.hi := rfl

@[simp] theorem erA_id (a : Ast) : (mpA pl ph a).id = a.id := by cases a; simp [Ast.id]
@[simp] theorem erA_data (a : Ast) : (mpA pl ph a).data = a.data := by cases a; simp [Ast.data]
@[simp] theorem erA_lo (a : Ast) : (mpA pl ph a).lo = pl a.lo := by cases a; simp [Ast.lo]
@[simp] theorem erA_hi (a : Ast) : (mpA pl ph a).hi = ph a.hi := by cases a; simp [Ast.hi]
@[simp] theorem erA_kids (a : Ast) : (mpA pl ph a).kids = a.kids.map (mpA pl ph) := by cases a; simp [Ast.kids]

@[simp] theorem peek_er (ts : Toks) : peek (ts.map (mp pl ph)) = peek ts := by
  cases ts <;> simp [peek]
@[simp] theorem peek2_er (ts : Toks) : peek2 (ts.map (mp pl ph)) = peek2 ts := by
  rcases ts with _ | ⟨a, _ | ⟨b, r⟩⟩ <;> simp [peek2]

@[simp] theorem leaf_er (t : LTok) : leaf (mp pl ph t) = mpA pl ph (leaf t) := by simp [leaf]

@[simp] theorem erA_setRange (a : Ast) (lo hi : Int) :
    mpA pl ph (setRange a lo hi) = setRange (mpA pl ph a) (pl lo) (ph hi) := by simp [setRange]

theorem setRange_erA (a : Ast) : setRange (mpA pl ph a) (pl a.lo) (ph a.hi) = mpA pl ph a := by
  cases a; simp [setRange, Ast.id, Ast.data, Ast.kids, Ast.lo, Ast.hi]

@[simp] theorem binaryOperation_er (a b : Ast) (op : LTok) :
    binaryOperation (mpA pl ph a) (mp pl ph op) (mpA pl ph b) = mpA pl ph (binaryOperation a op b) := by
  simp [binaryOperation]

@[simp] theorem unaryOperation_er (a : Ast) (op : LTok) :
    unaryOperation (mp pl ph op) (mpA pl ph a) = mpA pl ph (unaryOperation op a) := by
  simp [unaryOperation]

@[simp] theorem removeBrackets_er (a : Ast) (b1 b2 : LTok) :
    removeBrackets (mp pl ph b1) (mpA pl ph a) (mp pl ph b2) = mpA pl ph (removeBrackets b1 a b2) := by
  simp [removeBrackets, setRange]

@[simp] theorem decartian_er (a b : Ast) (op : LTok) :
    decartian (mpA pl ph a) (mp pl ph op) (mpA pl ph b) = mpA pl ph (decartian a op b) := by
  unfold decartian
  by_cases h : (a.id == Tok.DECART) = true <;> simp [h, binaryOperation]

@[simp] theorem textOperator_er (a : Ast) (op rp : LTok) :
    textOperator (mp pl ph op) (mpA pl ph a) (mp pl ph rp) = mpA pl ph (textOperator op a rp) := by
  simp [textOperator]

mutual
theorem tupleDecl_er : (a : Ast) → tupleDecl (mpA pl ph a) = (tupleDecl a).map (mpA pl ph)
  | .node id d lo hi ks => by
    have ih := tupleDeclList_er ks
    rw [erA_node, tupleDecl, tupleDecl, ih]
    by_cases h1 : (id == Tok.NT_TUPLE) = true
    · simp only [h1, if_true]; cases tupleDeclList ks <;> simp
    · by_cases h2 : (id == Tok.ID_LOCAL) = true
      · simp only [h1, h2, if_true]; cases tupleDeclList ks <;> simp
      · simp [h1, h2]
theorem tupleDeclList_er : (ks : List Ast) →
    tupleDeclList (ks.map (mpA pl ph)) = (tupleDeclList ks).map (List.map (mpA pl ph))
  | [] => by simp [tupleDeclList]
  | k :: ks => by
    have ih1 := tupleDecl_er k
    have ih2 := tupleDeclList_er ks
    rw [List.map_cons, tupleDeclList, tupleDeclList, ih1, ih2]
    cases tupleDecl k <;> cases tupleDeclList ks <;> simp
end

@[simp] theorem spanOf_er (a : Ast) (r : List Ast) : spanOf (mpA pl ph a) (r.map (mpA pl ph)) = (pl (spanOf a r).1, ph (spanOf a r).2) := by
  simp only [spanOf, erA_lo, List.getLast?_map]
  cases r.getLast? <;> simp

/-! ## result mappers -/

/-- erasure on a result of `primary`, `setE`, … -/
def mpR (pl ph : Int → Int) (x : K × Ast × Toks) : K × Ast × Toks := (x.1, mpA pl ph x.2.1, x.2.2.map (mp pl ph))
/-- erasure on a result of `enumE`, `enumTail`, … -/
def mpLR (pl ph : Int → Int) (x : List Ast × Toks) : List Ast × Toks := (x.1.map (mpA pl ph), x.2.map (mp pl ph))
/-- erasure on a result of `varE`, `logicOrSet`, … -/
def mpVR (pl ph : Int → Int) (x : Ast × Toks) : Ast × Toks := (mpA pl ph x.1, x.2.map (mp pl ph))

@[simp] theorem erR_mk (k : K) (e : Ast) (r : Toks) : mpR pl ph (k, e, r) = (k, mpA pl ph e, r.map (mp pl ph)) := rfl
@[simp] theorem erLR_mk (e : List Ast) (r : Toks) : mpLR pl ph (e, r) = (e.map (mpA pl ph), r.map (mp pl ph)) := rfl
@[simp] theorem erVR_mk (e : Ast) (r : Toks) : mpVR pl ph (e, r) = (mpA pl ph e, r.map (mp pl ph)) := rfl

/-! ## the twelve mutual functions -/

/-- the twelve commutation equations at fuel `f` -/
structure P (pl ph : Int → Int) (f : Nat) : Prop where
  enumE : ∀ toks, enumE f (toks.map (mp pl ph)) = (enumE f toks).map (mpLR pl ph)
  enumTail : ∀ acc toks, enumTail f (acc.map (mpA pl ph)) (toks.map (mp pl ph)) = (enumTail f acc toks).map (mpLR pl ph)
  varE : ∀ toks, varE f (toks.map (mp pl ph)) = (varE f toks).map (mpVR pl ph)
  varPackTail : ∀ acc toks,
    varPackTail f (acc.map (mpA pl ph)) (toks.map (mp pl ph)) = (varPackTail f acc toks).map (mpLR pl ph)
  argDecls : ∀ acc toks, argDecls f (acc.map (mpA pl ph)) (toks.map (mp pl ph)) = (argDecls f acc toks).map (mpLR pl ph)
  blocks : ∀ acc toks, blocks f (acc.map (mpA pl ph)) (toks.map (mp pl ph)) = (blocks f acc toks).map (mpLR pl ph)
  primary : ∀ toks, primary f (toks.map (mp pl ph)) = (primary f toks).map (mpR pl ph)
  setE : ∀ m toks, setE f m (toks.map (mp pl ph)) = (setE f m toks).map (mpR pl ph)
  setLoop : ∀ m k lhs toks, setLoop f m k (mpA pl ph lhs) (toks.map (mp pl ph)) = (setLoop f m k lhs toks).map (mpR pl ph)
  predE : ∀ toks, predE f (toks.map (mp pl ph)) = (predE f toks).map (mpR pl ph)
  logE : ∀ m toks, logE f m (toks.map (mp pl ph)) = (logE f m toks).map (mpR pl ph)
  logLoop : ∀ m k lhs toks, logLoop f m k (mpA pl ph lhs) (toks.map (mp pl ph)) = (logLoop f m k lhs toks).map (mpR pl ph)

theorem P_zero : P pl ph 0 := by
  constructor <;> intros <;> simp [Parser.enumE, Parser.enumTail, Parser.varE, Parser.varPackTail,
    Parser.argDecls, Parser.blocks, Parser.primary, Parser.setE, Parser.setLoop, Parser.predE,
    Parser.logE, Parser.logLoop]

@[local simp] theorem map_ite' {α β : Type} (c : Prop) [Decidable c] (g : α → β) (x y : Option α) :
    Option.map g (if c then x else y) = if c then Option.map g x else Option.map g y := by
  split <;> rfl

theorem enumE_step {f : Nat} (ih : P pl ph f) (toks : Toks) :
    Parser.enumE (f + 1) (toks.map (mp pl ph)) = (Parser.enumE (f + 1) toks).map (mpLR pl ph) := by
  rw [Parser.enumE, Parser.enumE, ih.setE]
  rcases Parser.setE f 0 toks with _ | ⟨k, e, r⟩
  · simp
  · have := ih.enumTail [e] r
    simp only [List.map_cons, List.map_nil] at this
    simp [this]

theorem enumTail_step {f : Nat} (ih : P pl ph f) (acc : List Ast) (toks : Toks) :
    Parser.enumTail (f + 1) (acc.map (mpA pl ph)) (toks.map (mp pl ph)) =
      (Parser.enumTail (f + 1) acc toks).map (mpLR pl ph) := by
  rcases toks with _ | ⟨c, r⟩
  · simp [Parser.enumTail]
  · simp only [Parser.enumTail, List.map_cons, er_id, ih.setE]
    rcases Parser.setE f 0 r with _ | ⟨k, e, r'⟩
    · simp
    · have := ih.enumTail (acc ++ [e]) r'
      simp only [List.map_append, List.map_cons, List.map_nil] at this
      simp [this]

theorem varE_step {f : Nat} (ih : P pl ph f) (toks : Toks) :
    Parser.varE (f + 1) (toks.map (mp pl ph)) = (Parser.varE (f + 1) toks).map (mpVR pl ph) := by
  rcases toks with _ | ⟨t, r⟩
  · simp [Parser.varE]
  · have hp := ih.primary (t :: r)
    simp only [List.map_cons] at hp
    simp only [Parser.varE, List.map_cons, er_id, hp]
    rcases Parser.primary f (t :: r) with _ | ⟨k, e, r'⟩
    · simp
    · simp only [Option.map_some, erR_mk, erA_id, tupleDecl_er]
      cases tupleDecl e <;> simp

theorem varPackTail_step {f : Nat} (ih : P pl ph f) (acc : List Ast) (toks : Toks) :
    Parser.varPackTail (f + 1) (acc.map (mpA pl ph)) (toks.map (mp pl ph)) =
      (Parser.varPackTail (f + 1) acc toks).map (mpLR pl ph) := by
  rcases toks with _ | ⟨c, r⟩
  · simp [Parser.varPackTail]
  · simp only [Parser.varPackTail, List.map_cons, er_id, ih.varE]
    rcases Parser.varE f r with _ | ⟨v, r'⟩
    · simp
    · have := ih.varPackTail (acc ++ [v]) r'
      simp only [List.map_append, List.map_cons, List.map_nil] at this
      simp [this]

theorem argDecls_step {f : Nat} (ih : P pl ph f) (acc : List Ast) (toks : Toks) :
    Parser.argDecls (f + 1) (acc.map (mpA pl ph)) (toks.map (mp pl ph)) =
      (Parser.argDecls (f + 1) acc toks).map (mpLR pl ph) := by
  rcases toks with _ | ⟨l, _ | ⟨i, r⟩⟩
  · simp [Parser.argDecls]
  · simp [Parser.argDecls]
  · simp only [Parser.argDecls, List.map_cons, er_id, ih.setE]
    rcases Parser.setE f 0 r with _ | ⟨k, e, _ | ⟨c, r''⟩⟩
    · simp
    · simp [leaf]
    · have := ih.argDecls (acc ++ [Ast.node .NT_ARG_DECL .none l.lo e.hi [leaf l, e]]) r''
      simp only [List.map_append, List.map_cons, List.map_nil, erA_node] at this
      simp [this]

theorem blocks_step {f : Nat} (ih : P pl ph f) (acc : List Ast) (toks : Toks) :
    Parser.blocks (f + 1) (acc.map (mpA pl ph)) (toks.map (mp pl ph)) =
      (Parser.blocks (f + 1) acc toks).map (mpLR pl ph) := by
  simp only [Parser.blocks, ih.logE]
  rcases Parser.logE f 0 toks with _ | ⟨k, e, _ | ⟨c, r'⟩⟩
  · simp
  · simp
  · have := ih.blocks (acc ++ [e]) r'
    simp only [List.map_append, List.map_cons, List.map_nil] at this
    simp [this]

theorem setE_step {f : Nat} (ih : P pl ph f) (m : Nat) (toks : Toks) :
    Parser.setE (f + 1) m (toks.map (mp pl ph)) = (Parser.setE (f + 1) m toks).map (mpR pl ph) := by
  simp only [Parser.setE, ih.primary]
  rcases Parser.primary f toks with _ | ⟨k, e, r⟩
  · simp
  · simp [ih.setLoop]

theorem logE_step {f : Nat} (ih : P pl ph f) (m : Nat) (toks : Toks) :
    Parser.logE (f + 1) m (toks.map (mp pl ph)) = (Parser.logE (f + 1) m toks).map (mpR pl ph) := by
  simp only [Parser.logE, ih.predE]
  rcases Parser.predE f toks with _ | ⟨k, e, r⟩
  · simp
  · simp [ih.logLoop]

theorem setLoop_step {f : Nat} (ih : P pl ph f) (m : Nat) (k : K) (lhs : Ast) (toks : Toks) :
    Parser.setLoop (f + 1) m k (mpA pl ph lhs) (toks.map (mp pl ph)) =
      (Parser.setLoop (f + 1) m k lhs toks).map (mpR pl ph) := by
  rcases toks with _ | ⟨op, r⟩
  · simp [Parser.setLoop]
  · simp only [Parser.setLoop, List.map_cons, er_id, ih.setE]
    rcases precOf op.id with _ | ⟨p, assoc⟩
    · simp
    · dsimp only
      rcases Parser.setE f (if assoc == .left then p + 1 else p) r with _ | ⟨k2, rhs, r'⟩
      · simp
      · by_cases hd : (op.id == Tok.DECART) = true <;> simp [hd, ih.setLoop]

theorem logLoop_step {f : Nat} (ih : P pl ph f) (m : Nat) (k : K) (lhs : Ast) (toks : Toks) :
    Parser.logLoop (f + 1) m k (mpA pl ph lhs) (toks.map (mp pl ph)) =
      (Parser.logLoop (f + 1) m k lhs toks).map (mpR pl ph) := by
  rcases toks with _ | ⟨op, r⟩
  · simp [Parser.logLoop]
  · simp only [Parser.logLoop, List.map_cons, er_id, ih.logE]
    rcases precOf op.id with _ | ⟨p, assoc⟩
    · simp
    · dsimp only
      rcases Parser.logE f (if assoc == .left then p + 1 else p) r with _ | ⟨k2, rhs, r'⟩
      · simp
      · simp [ih.logLoop]

theorem predE_step {f : Nat} (ih : P pl ph f) (toks : Toks) :
    Parser.predE (f + 1) (toks.map (mp pl ph)) = (Parser.predE (f + 1) toks).map (mpR pl ph) := by
  simp only [Parser.predE, ih.setE]
  rcases Parser.setE f 0 toks with _ | ⟨k, lhs, _ | ⟨op, r⟩⟩
  · simp
  · simp
  · simp only [Option.map_some, erR_mk, List.map_cons, er_id, erA_id, ih.setE, tupleDecl_er]
    rcases Parser.setE f 0 r with _ | ⟨k2, rhs, r'⟩
    · by_cases h1 : (lhs.id == Tok.NT_TUPLE) = true
      · cases tupleDecl lhs <;> simp [h1]
      · simp [h1]
    · by_cases h1 : (lhs.id == Tok.NT_TUPLE) = true
      · cases tupleDecl lhs <;> simp [h1]
      · simp [h1]

@[simp] theorem drop_er (n : Nat) (ts : Toks) : List.drop n (ts.map (mp pl ph)) = (ts.drop n).map (mp pl ph) := by
  simp [List.map_drop]

theorem primary_step {f : Nat} (ih : P pl ph f) (toks : Toks) :
    Parser.primary (f + 1) (toks.map (mp pl ph)) = (Parser.primary (f + 1) toks).map (mpR pl ph) := by
  rcases toks with _ | ⟨t, rest⟩
  · simp [Parser.primary]
  · rw [Parser.primary.eq_def, Parser.primary.eq_def]
    simp only [List.map_cons, er_id]
    obtain ⟨id, d, lo, hi⟩ := t
    dsimp only
    cases id
    all_goals dsimp only
    all_goals try (first | rfl | simp [leaf]; done)
    case ID_FUNCTION | ID_PREDICATE =>
      simp only [peek_er, drop_er, ih.enumE]
      rcases Parser.enumE f (rest.drop 1) with _ | ⟨args, _ | ⟨rs, r⟩⟩ <;> simp [leaf] <;> rfl
    case BOOL | DEBOOL | REDUCE | BIGPR | SMALLPR | CARD =>
      rcases rest with _ | ⟨lp, r1⟩
      · simp
      · simp only [List.map_cons, er_id, ih.setE]
        rcases Parser.setE f 0 r1 with _ | ⟨k, e, _ | ⟨rp, r2⟩⟩ <;> simp
    case NOT =>
      simp only [ih.predE]
      rcases Parser.predE f rest with _ | ⟨k, e, r⟩ <;> simp
    case BOOLEAN =>
      rcases rest with _ | ⟨nx, r1⟩
      · simp
      · have hp := ih.primary (nx :: r1)
        simp only [List.map_cons] at hp
        simp only [List.map_cons, er_id, ih.setE, hp]
        rcases Parser.setE f 0 r1 with _ | ⟨k, e, _ | ⟨rp, r2⟩⟩ <;>
          rcases Parser.primary f (nx :: r1) with _ | ⟨k', e', r'⟩ <;> simp
    case FILTER =>
      simp only [peek_er, drop_er, ih.enumE]
      rcases Parser.enumE f (rest.drop 1) with _ | ⟨params, _ | ⟨rs, _ | ⟨lp, r1⟩⟩⟩
      · simp
      · simp
      · simp
      · simp only [Option.map_some, erLR_mk, List.map_cons, er_id, ih.setE]
        rcases Parser.setE f 0 r1 with _ | ⟨k, e, _ | ⟨rp, r2⟩⟩ <;> simp
    case PUNC_CL =>
      simp only [peek_er, peek2_er, ih.enumE]
      by_cases hc : (peek rest == Tok.ID_LOCAL && peek2 rest == Tok.IN) = true
      · rw [if_pos hc, if_pos hc]
        rcases rest with _ | ⟨l, _ | ⟨i, r1⟩⟩
        · simp
        · simp
        · simp only [List.map_cons, ih.setE]
          rcases Parser.setE f 0 r1 with _ | ⟨k, dd, _ | ⟨bar, r2⟩⟩
          · simp
          · simp
          · simp only [Option.map_some, erR_mk, List.map_cons, er_id, ih.logE]
            rcases Parser.logE f 0 r2 with _ | ⟨k2, p, _ | ⟨rc, r3⟩⟩ <;> simp
      · rw [if_neg hc, if_neg hc]
        rcases Parser.enumE f rest with _ | ⟨items, _ | ⟨rc, r⟩⟩ <;> simp <;> rfl
    case DECLARATIVE =>
      simp only [peek_er, drop_er, ih.varE]
      rcases Parser.varE f (rest.drop 1) with _ | ⟨v, _ | ⟨i, r1⟩⟩
      · simp
      · simp
      · simp only [Option.map_some, erVR_mk, List.map_cons, er_id, ih.setE]
        rcases Parser.setE f 0 r1 with _ | ⟨k, dd, _ | ⟨bar, r2⟩⟩
        · simp
        · simp
        · simp only [Option.map_some, erR_mk, List.map_cons, er_id, ih.logE]
          rcases Parser.logE f 0 r2 with _ | ⟨k2, p, _ | ⟨rc, r3⟩⟩ <;> simp
    case RECURSIVE =>
      simp only [peek_er, drop_er, ih.varE]
      rcases Parser.varE f (rest.drop 1) with _ | ⟨v, _ | ⟨i, r1⟩⟩
      · simp
      · simp
      · simp only [Option.map_some, erVR_mk, List.map_cons, er_id, ih.setE]
        rcases Parser.setE f 0 r1 with _ | ⟨k, dd, _ | ⟨bar, r2⟩⟩
        · simp
        · simp
        · simp only [Option.map_some, erR_mk, List.map_cons, er_id, ih.logE]
          rcases Parser.logE f 0 r2 with _ | ⟨k2, c, _ | ⟨nx, r3⟩⟩
          · simp
          · simp
          · simp only [Option.map_some, erR_mk, List.map_cons, er_id, ih.setE]
            rcases Parser.setE f 0 r3 with _ | ⟨k3, s, _ | ⟨rc, r4⟩⟩ <;> simp
    case IMPERATIVE =>
      have hb := ih.blocks []
      simp only [List.map_nil] at hb
      simp only [peek_er, drop_er, ih.setE]
      rcases Parser.setE f 0 (rest.drop 1) with _ | ⟨k, v, _ | ⟨bar, r1⟩⟩
      · simp
      · simp
      · simp only [Option.map_some, erR_mk, List.map_cons, er_id, hb]
        rcases Parser.blocks f [] r1 with _ | ⟨bs, _ | ⟨rc, r2⟩⟩ <;> simp <;> rfl
    case PUNC_PL =>
      simp only [ih.logE]
      rcases Parser.logE f 0 rest with _ | ⟨k, e, _ | ⟨nx, r1⟩⟩
      · simp
      · simp
      · have ht := ih.enumTail [e] (nx :: r1)
        simp only [List.map_nil, List.map_cons] at ht
        simp only [Option.map_some, erR_mk, List.map_cons, er_id, ht]
        rcases Parser.enumTail f [e] (nx :: r1) with _ | ⟨items, _ | ⟨rp, r2⟩⟩ <;>
          cases k <;> simp <;> rfl
    case FORALL | EXISTS =>
      simp only [ih.varE]
      rcases Parser.varE f rest with _ | ⟨v, r0⟩
      · simp
      · have hv := ih.varPackTail [v] r0
        simp only [List.map_nil, List.map_cons] at hv
        simp only [Option.map_some, erVR_mk, hv]
        rcases Parser.varPackTail f [v] r0 with _ | ⟨vs, _ | ⟨i, r1⟩⟩
        · simp
        · simp
        · simp only [Option.map_some, erLR_mk, List.map_cons, er_id, ih.setE]
          rcases Parser.setE f 0 r1 with _ | ⟨k, dd, r2⟩
          · simp
          · simp only [Option.map_some, erR_mk, ih.predE]
            rcases Parser.predE f r2 with _ | ⟨k2, p, r3⟩
            · simp
            · rcases vs with _ | ⟨s, _ | ⟨s2, vs'⟩⟩
              · have h1 := spanOf_er (pl := pl) (ph := ph) v []
                simp only [List.map_nil] at h1
                simp [h1]
              · simp
              · have h2 := spanOf_er (pl := pl) (ph := ph) v (s2 :: vs')
                simp only [List.map_cons] at h2
                simp [h2]

theorem P_all : ∀ f, P pl ph f
  | 0 => P_zero
  | f + 1 =>
    have ih := P_all f
    { enumE := enumE_step ih, enumTail := enumTail_step ih, varE := varE_step ih,
      varPackTail := varPackTail_step ih, argDecls := argDecls_step ih, blocks := blocks_step ih,
      primary := primary_step ih, setE := setE_step ih, setLoop := setLoop_step ih,
      predE := predE_step ih, logE := logE_step ih, logLoop := logLoop_step ih }

/-! ## the top level -/

theorem logicOrSet_er (f : Nat) (toks : Toks) :
    logicOrSet f (toks.map (mp pl ph)) = (logicOrSet f toks).map (mpVR pl ph) := by
  simp only [logicOrSet, (P_all f).logE]
  rcases Parser.logE f 0 toks with _ | ⟨k, e, r⟩ <;> simp

theorem noDeclaration_er (f : Nat) (toks : Toks) :
    noDeclaration f (toks.map (mp pl ph)) = (noDeclaration f toks).map (mpVR pl ph) := by
  rcases toks with _ | ⟨ls, rest⟩
  · simp [noDeclaration]
  · have ha := (P_all (pl := pl) (ph := ph) f).argDecls [] rest
    have hl := logicOrSet_er (pl := pl) (ph := ph) f (ls :: rest)
    simp only [List.map_nil, List.map_cons] at ha hl
    simp only [noDeclaration, List.map_cons, er_id, ha, hl]
    rcases Parser.argDecls f [] rest with _ | ⟨_ | ⟨d, ds⟩, _ | ⟨rs, r1⟩⟩
    · simp
    · simp
    · simp
    · simp
    · have hs := spanOf_er (pl := pl) (ph := ph) d ds
      simp only [Option.map_some, erLR_mk, List.map_cons, er_id, hs, logicOrSet_er]
      rcases logicOrSet f r1 with _ | ⟨e, r2⟩ <;> simp

theorem expression_er (f : Nat) (toks : Toks) :
    expression f (toks.map (mp pl ph)) = (expression f toks).map (mpA pl ph) := by
  have hn := noDeclaration_er (pl := pl) (ph := ph) f toks
  rcases toks with _ | ⟨g, _ | ⟨m, rest⟩⟩
  · simp [expression, noDeclaration]
  · simp only [List.map_cons, List.map_nil] at hn
    simp only [expression, List.map_cons, List.map_nil, hn]
    rcases noDeclaration f [g] with _ | ⟨e, _ | ⟨x, r⟩⟩ <;> simp
  · simp only [List.map_cons] at hn
    simp only [expression, List.map_cons, er_id, hn]
    rcases rest with _ | ⟨x, rest'⟩
    · rcases noDeclaration f [g, m] with _ | ⟨e, _ | ⟨x, r⟩⟩ <;> simp [leaf] <;> rfl
    · have hn' := noDeclaration_er (pl := pl) (ph := ph) f (x :: rest')
      simp only [List.map_cons] at hn'
      simp only [List.map_cons, hn']
      rcases noDeclaration f (x :: rest') with _ | ⟨e, _ | ⟨y, r⟩⟩ <;>
        rcases noDeclaration f (g :: m :: x :: rest') with _ | ⟨e', _ | ⟨y', r'⟩⟩ <;> simp [leaf]

mutual
theorem semanticCheck_er (p : Option Tok) : (a : Ast) → semanticCheck p (mpA pl ph a) = semanticCheck p a
  | .node id d lo hi ks => by
    rw [erA_node, semanticCheck, semanticCheck, semanticCheckList_er (some id) ks]
theorem semanticCheckList_er (p : Option Tok) :
    (ks : List Ast) → semanticCheckList p (ks.map (mpA pl ph)) = semanticCheckList p ks
  | [] => by simp [semanticCheckList]
  | k :: ks => by
    rw [List.map_cons, semanticCheckList, semanticCheckList, semanticCheck_er p k,
      semanticCheckList_er p ks]
end

mutual
theorem stripBrackets_er : (a : Ast) → stripBrackets (mpA pl ph a) = (stripBrackets a).map (mpA pl ph)
  | .node id d lo hi ks => by
    rw [erA_node, stripBrackets.eq_def, stripBrackets.eq_def]
    dsimp only
    by_cases h : (id == Tok.PUNC_PL) = true
    · rw [if_pos h, if_pos h]
      match ks with
      | [] => simp
      | k :: ks' => simpa using stripBrackets_er k
    · rw [if_neg h, if_neg h, stripBracketsList_er ks]
      cases stripBracketsList ks <;> simp
theorem stripBracketsList_er : (ks : List Ast) →
    stripBracketsList (ks.map (mpA pl ph)) = (stripBracketsList ks).map (List.map (mpA pl ph))
  | [] => by simp [stripBracketsList]
  | k :: ks => by
    rw [List.map_cons, stripBracketsList, stripBracketsList, stripBrackets_er k,
      stripBracketsList_er ks]
    cases stripBrackets k <;> cases stripBracketsList ks <;> simp
end

theorem parseToks_natural (ts : Toks) : parseToks (ts.map (mp pl ph)) = (parseToks ts).map (mpA pl ph) := by
  have hp : ((fun t : LTok => t.id != Tok.END && t.id != Tok.INTERRUPT) ∘ mp pl ph) =
      (fun t : LTok => t.id != Tok.END && t.id != Tok.INTERRUPT) := rfl
  have hq : ((fun t : LTok => t.id == Tok.INTERRUPT) ∘ mp pl ph) =
      (fun t : LTok => t.id == Tok.INTERRUPT) := rfl
  simp only [parseToks, List.takeWhile_map, List.any_map, hp, hq, List.length_map, expression_er]
  rcases expression _ _ with _ | raw
  · simp
  · simp only [Option.map_some, semanticCheck_er, stripBrackets_er]
    simp

/-! ## erasure and `Ast.eqv` -/

end CCVerif.PN
