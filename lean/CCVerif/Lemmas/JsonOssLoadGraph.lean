import CCVerif.Lemmas.JsonOssGraph
/-!
The graph half of "whatever an accepted document loads is well formed", for ANY `connections` array: `LoadParent`
run from the empty facet keeps the items distinct, every mentioned pictogram an item, every row without
repetition, and allows neither a self loop nor a 2-cycle (`loadEdges_graphRows`). (Not excluded — and really
accepted: longer cycles, dangling pictograms, any number of parents; `oss_load_wf_counterexample`.)
-/
namespace CCVerif.JsonOss
open CCVerif.Json
open CCVerif.Oss (Pid)

/-- what `LoadParent` guarantees of the row table, whatever it is fed -/
def GraphRows (g : Rows) : Prop :=
  RInv g ∧ ∀ c, (rowOf g c).Nodup ∧ c ∉ rowOf g c ∧ ∀ q ∈ rowOf g c, c ∉ rowOf g q

theorem rowOf_append_empty (g : Rows) (p c : Pid) : rowOf (g ++ [(p, [])]) c = rowOf g c := by
  unfold rowOf
  rw [List.find?_append]
  cases hf : g.find? (·.1 == c) with
  | some r => rfl
  | none =>
    by_cases hpc : (p == c) = true
    · simp [hpc]
    · simp [hpc]

theorem rowOf_item2ID (g : Rows) (p c : Pid) : rowOf (item2ID g p) c = rowOf g c := by
  by_cases hp : p ∈ keysOf g
  · rw [item2ID_of_key hp]
  · rw [item2ID_of_not_key hp, rowOf_append_empty]

theorem rowOf_upd (c p : Pid) : ∀ (G : Rows) (x : Pid),
    rowOf (G.map fun r => if r.1 == c then (r.1, r.2 ++ [p]) else r) x =
      if x = c ∧ c ∈ keysOf G then rowOf G c ++ [p] else rowOf G x
  | [], x => by simp [rowOf, keysOf]
  | r :: G, x => by
    have ih := rowOf_upd c p G x
    by_cases hrx : r.1 = x
    · subst hrx
      by_cases hrc : r.1 = c
      · subst hrc
        simp [rowOf, keysOf]
      · have hb : (r.1 == c) = false := by simpa using hrc
        simp [rowOf, hrc]
    · have hbx : (r.1 == x) = false := by simpa using hrx
      have hstep : ∀ (r' : Pid × List Pid) (T : Rows), r'.1 = r.1 → rowOf (r' :: T) x = rowOf T x := by
        intro r' T he
        have : (r'.1 == x) = false := by rw [he]; exact hbx
        simp [rowOf, this]
      have hmapcons : (r :: G).map (fun r => if r.1 == c then (r.1, r.2 ++ [p]) else r) =
          (if r.1 == c then (r.1, r.2 ++ [p]) else r) :: G.map (fun r => if r.1 == c then (r.1, r.2 ++ [p]) else r) := rfl
      rw [hmapcons, hstep _ _ (by split <;> rfl), ih, hstep r G rfl]
      by_cases hxc : x = c
      · subst hxc
        have hk : x ∈ keysOf (r :: G) ↔ x ∈ keysOf G := by
          simp only [keysOf, List.map_cons, List.mem_cons]
          exact ⟨fun h => h.elim (fun e => absurd e.symm hrx) id, Or.inr⟩
        simp only [true_and, hk]
        split
        · have : rowOf (r :: G) x = rowOf G x := hstep r G rfl
          rw [this]
        · rfl
      · simp [hxc]

theorem graphRows_loadParent {g : Rows} (h : GraphRows g) (c p : Pid) : GraphRows (loadParent g c p) := by
  refine ⟨(toGraph_loadParent h.1 c p).2.1, ?_⟩
  obtain ⟨hr, hrow⟩ := h
  unfold loadParent
  by_cases hcp : c = p
  · simp only [hcp, beq_self_eq_true, if_true]; exact hrow
  · have hb : (c == p) = false := by simpa using hcp
    simp only [hb, Bool.false_eq_true, if_false]
    have hG : ∀ x, rowOf (item2ID (item2ID g c) p) x = rowOf g x := fun x => by
      rw [rowOf_item2ID, rowOf_item2ID]
    have hcin : c ∈ keysOf (item2ID (item2ID g c) p) :=
      ((rinv_item2ID (rinv_item2ID hr c).1 p).2 c).2 (Or.inl (((rinv_item2ID hr c).2 c).2 (Or.inr rfl)))
    by_cases hcond : ((rowOf (item2ID (item2ID g c) p) c).contains p || (rowOf (item2ID (item2ID g c) p) p).contains c) = true
    · simp only [hcond, if_true]
      intro x
      simp only [hG]; exact hrow x
    · simp only [hcond, Bool.false_eq_true, if_false]
      simp only [Bool.or_eq_true, List.contains_iff_mem, not_or, hG] at hcond
      obtain ⟨hn1, hn2⟩ := hcond
      have hnew : ∀ x, rowOf ((item2ID (item2ID g c) p).map fun r => if r.1 == c then (r.1, r.2 ++ [p]) else r) x =
          if x = c then rowOf g c ++ [p] else rowOf g x := by
        intro x
        rw [rowOf_upd, hG, hG]
        by_cases hx : x = c
        · simp [hx, hcin]
        · simp [hx]
      intro x
      simp only [hnew]
      by_cases hx : x = c
      · subst hx
        simp only [if_true]
        refine ⟨?_, ?_, ?_⟩
        · rw [List.nodup_append]
          exact ⟨(hrow x).1, by simp, fun a ha b hb' => by simp at hb'; subst hb'; rintro rfl; exact hn1 ha⟩
        · intro hm
          rcases List.mem_append.1 hm with hm | hm
          · exact (hrow x).2.1 hm
          · simp at hm; exact hcp hm
        · intro q hq
          have hqx : q ≠ x := by
            rintro rfl
            rcases List.mem_append.1 hq with hq | hq
            · exact (hrow q).2.1 hq
            · simp at hq; exact hcp hq
          rw [if_neg hqx]
          rcases List.mem_append.1 hq with hq | hq
          · exact (hrow x).2.2 q hq
          · simp at hq; subst hq; exact hn2
      · simp only [if_neg hx]
        refine ⟨(hrow x).1, (hrow x).2.1, ?_⟩
        intro q hq
        by_cases hqc : q = c
        · subst hqc
          simp only [if_true]
          intro hm
          rcases List.mem_append.1 hm with hm | hm
          · exact (hrow x).2.2 q hq hm
          · simp at hm; subst hm; exact hn2 hq
        · rw [if_neg hqc]; exact (hrow x).2.2 q hq

theorem graphRows_loadEdges : ∀ (es : List (Pid × Pid)) (g : Rows), GraphRows g → GraphRows (loadEdges g es)
  | [], _, h => h
  | e :: es, _, h => graphRows_loadEdges es _ (graphRows_loadParent h e.1 e.2)

theorem graphRows_nil : GraphRows [] := ⟨rinv_nil, fun c => by simp [rowOf]⟩

/-- `LoadParent` run over ANY connection list from the empty facet -/
theorem loadEdges_graphRows (es : List (Pid × Pid)) : GraphRows (loadEdges [] es) :=
  graphRows_loadEdges es [] graphRows_nil

/-- the graph facet of whatever an accepted document loads is a `LoadParent` run from the empty facet -/
theorem ossFromJson_rows (env : Env) (j : Json) (c : Oss) (h : ossFromJson env j = .ok c) :
    ∃ es, c.rows = loadEdges [] es := by
  simp only [ossFromJson, bind, Except.bind, pure, Except.pure] at h
  repeat' split at h
  all_goals first | (cases h; exact ⟨_, rfl⟩) | cases h

end CCVerif.JsonOss
