import CCVerif.Lemmas.Translate
/-!
Lemmas for C08, `relex_stable`: the longest-match rule (`bestRule`) over the regenerated MATH table
is stable under replacing one identifier token by another identifier spelling.

* `bestRule_congr`, `bestRule_first` (ties go to the first rule), `matchPat_le`
* `stable_before` — the match of a piece that ends before position `|c|` does not depend on what
  follows `c`, as long as an identifier-start symbol follows and `c` does not end in one
* `stable_name` — a name that lexes on its own as one identifier token still does so when followed
  by a symbol that is not an identifier symbol
* `relex_run` — the induction along the scanning loop.
-/
namespace CCVerif.Translate
open CCVerif.Syntax CCVerif.Generated CCVerif.Lexer CCVerif.Strings CCVerif.Translate.Spec

/-! ## spans -/

theorem spanLen_le (p : Nat → Bool) : ∀ s : List Nat, spanLen p s ≤ s.length
  | [] => by simp [spanLen]
  | a :: r => by
    unfold spanLen
    have := spanLen_le p r
    split <;> simp <;> omega

theorem spanLen_cons (p : Nat → Bool) (x : Nat) (a : List Nat) :
    spanLen p (x :: a) = if p x then spanLen p a + 1 else 0 := rfl

theorem spanLen_append_lt (p : Nat → Bool) : ∀ (a r : List Nat), spanLen p a < a.length → spanLen p (a ++ r) = spanLen p a
  | [], _, h => by simp [spanLen] at h
  | x :: a, r, h => by
    simp only [List.cons_append, spanLen_cons] at h ⊢
    by_cases hx : p x = true
    · simp only [hx, if_true] at h ⊢
      rw [spanLen_append_lt p a r (by simpa using h)]
    · simp only [hx, Bool.false_eq_true, if_false]

theorem spanLen_append_all (p : Nat → Bool) : ∀ (a r : List Nat), spanLen p a = a.length →
    spanLen p (a ++ r) = a.length + spanLen p r
  | [], _, _ => by simp
  | x :: a, r, h => by
    simp only [List.cons_append, spanLen_cons] at h ⊢
    by_cases hx : p x = true
    · simp only [hx, if_true] at h ⊢
      rw [spanLen_append_all p a r (by simpa using h)]
      simp; omega
    · simp [hx] at h

theorem spanLen_cons_false (p : Nat → Bool) (x : Nat) (w : List Nat) (h : p x = false) : spanLen p (x :: w) = 0 := by
  unfold spanLen; simp [h]

/-- a span over `a ++ x :: w` does not depend on `x`, `w` when `x` is outside the class -/
theorem spanLen_congr (p : Nat → Bool) (a : List Nat) (x y : Nat) (w w' : List Nat) (hx : p x = false) (hy : p y = false) :
    spanLen p (a ++ x :: w) = spanLen p (a ++ y :: w') := by
  by_cases h : spanLen p a < a.length
  · rw [spanLen_append_lt p a _ h, spanLen_append_lt p a _ h]
  · have : spanLen p a = a.length := by have := spanLen_le p a; omega
    rw [spanLen_append_all p a _ this, spanLen_append_all p a _ this, spanLen_cons_false p x w hx, spanLen_cons_false p y w' hy]

theorem spanLen_append_stop (p : Nat → Bool) (a : List Nat) (x : Nat) (w : List Nat) (hx : p x = false) :
    spanLen p (a ++ x :: w) = spanLen p a := by
  by_cases h : spanLen p a < a.length
  · rw [spanLen_append_lt p a _ h]
  · have : spanLen p a = a.length := by have := spanLen_le p a; omega
    rw [spanLen_append_all p a _ this, spanLen_cons_false p x w hx, this]; rfl

theorem spanLen_congr_le (p : Nat → Bool) (a : List Nat) (x y : Nat) (w w' : List Nat) (hx : p x = false) (hy : p y = false) :
    spanLen p (a ++ x :: w) ≤ a.length := by
  rw [spanLen_append_stop p a x w hx]; exact spanLen_le p a

/-! ## `{number}(,{number})*` -/

theorem indexTail_congr : ∀ (fuel fuel' : Nat) (a : List Nat) (x y : Nat) (w w' : List Nat),
    Lexer.isDigit x = false → x ≠ 44 → Lexer.isDigit y = false → y ≠ 44 →
    (a ++ x :: w).length ≤ fuel → (a ++ y :: w').length ≤ fuel' →
    indexTail fuel (a ++ x :: w) = indexTail fuel' (a ++ y :: w') := by
  intro fuel
  induction fuel with
  | zero => intro fuel' a x y w w' _ _ _ _ h; simp at h
  | succ fuel ih =>
    intro fuel' a x y w w' hx hx4 hy hy4 hl hl'
    cases fuel' with
    | zero => simp at hl'
    | succ fuel' =>
      cases a with
      | nil =>
        simp only [List.nil_append]
        unfold indexTail
        split
        · next r heq => simp at heq; exact absurd heq.1 hx4
        · split
          · next r heq => simp at heq; exact absurd heq.1 hy4
          · rfl
      | cons h a' =>
        simp only [List.cons_append]
        by_cases h44 : h = 44
        · subst h44
          simp only [indexTail]
          have hk := spanLen_congr Lexer.isDigit a' x y w w' hx hy
          have hkle : spanLen Lexer.isDigit (a' ++ x :: w) ≤ a'.length := spanLen_congr_le _ a' x y w w' hx hy
          rw [← hk]
          split
          · rfl
          · have e1 : (a' ++ x :: w).drop (spanLen Lexer.isDigit (a' ++ x :: w)) =
                a'.drop (spanLen Lexer.isDigit (a' ++ x :: w)) ++ x :: w := by
              rw [List.drop_append_of_le_length hkle]
            have e2 : (a' ++ y :: w').drop (spanLen Lexer.isDigit (a' ++ x :: w)) =
                a'.drop (spanLen Lexer.isDigit (a' ++ x :: w)) ++ y :: w' := by
              rw [List.drop_append_of_le_length hkle]
            rw [e1, e2]
            congr 1
            apply ih _ _ x y w w' hx hx4 hy hy4
            · simp only [List.length_append, List.length_drop, List.length_cons] at hl ⊢; omega
            · simp only [List.length_append, List.length_drop, List.length_cons] at hl' ⊢; omega
        · unfold indexTail
          split
          · next r heq => simp at heq; exact absurd heq.1 h44
          · split
            · next r heq => simp at heq; exact absurd heq.1 h44
            · rfl

theorem indexLen_congr (a : List Nat) (x y : Nat) (w w' : List Nat)
    (hx : Lexer.isDigit x = false) (hx4 : x ≠ 44) (hy : Lexer.isDigit y = false) (hy4 : y ≠ 44) :
    indexLen (a ++ x :: w) = indexLen (a ++ y :: w') := by
  unfold indexLen
  simp only
  have hk := spanLen_congr Lexer.isDigit a x y w w' hx hy
  have hkle : spanLen Lexer.isDigit (a ++ x :: w) ≤ a.length := spanLen_congr_le _ a x y w w' hx hy
  rw [← hk]
  split
  · rfl
  · rw [List.drop_append_of_le_length hkle, List.drop_append_of_le_length hkle]
    congr 1
    apply indexTail_congr _ _ _ x y w w' hx hx4 hy hy4
    · simp only [List.length_append, List.length_drop, List.length_cons]; omega
    · simp only [List.length_append, List.length_drop, List.length_cons]; omega

theorem indexTail_le : ∀ (fuel : Nat) (s : List Nat), indexTail fuel s ≤ s.length
  | 0, _ => by simp [indexTail]
  | fuel + 1, s => by
    unfold indexTail
    split
    · next r =>
      simp only
      split
      · omega
      · have h1 := indexTail_le fuel (r.drop (spanLen Lexer.isDigit r))
        have h2 := spanLen_le Lexer.isDigit r
        simp only [List.length_drop, List.length_cons] at h1 ⊢
        omega
    · omega

theorem indexLen_le (s : List Nat) : indexLen s ≤ s.length := by
  unfold indexLen
  simp only
  split
  · omega
  · have h1 := indexTail_le s.length (s.drop (spanLen Lexer.isDigit s))
    have h2 := spanLen_le Lexer.isDigit s
    simp only [List.length_drop] at h1
    omega

/-! ## prefixes -/

theorem isPrefix_length : ∀ (l s : List Nat), isPrefix l s = true → l.length ≤ s.length
  | [], _, _ => by simp
  | _ :: _, [], h => by simp [isPrefix] at h
  | a :: l, b :: s, h => by
    simp only [isPrefix, Bool.and_eq_true] at h
    have := isPrefix_length l s h.2
    simp; omega

theorem isPrefix_append_le : ∀ (l c r : List Nat), l.length ≤ c.length → isPrefix l (c ++ r) = isPrefix l c
  | [], _, _, _ => by simp [isPrefix]
  | _ :: _, [], _, h => by simp at h
  | a :: l, b :: c, r, h => by
    simp only [List.cons_append, isPrefix]
    rw [isPrefix_append_le l c r (by simpa using h)]

/-- a literal that matches beyond `c` has `c` as a prefix and continues with the next symbol -/
theorem isPrefix_beyond : ∀ (l c : List Nat) (x : Nat) (w : List Nat), c.length < l.length →
    isPrefix l (c ++ x :: w) = true → l.take c.length = c ∧ l[c.length]? = some x
  | [], _, _, _, h, _ => by simp at h
  | a :: l, [], x, w, _, hp => by
    simp only [List.nil_append, isPrefix, Bool.and_eq_true, beq_iff_eq] at hp
    simp [hp.1]
  | a :: l, b :: c, x, w, h, hp => by
    simp only [List.cons_append, isPrefix, Bool.and_eq_true, beq_iff_eq] at hp
    obtain ⟨i1, i2⟩ := isPrefix_beyond l c x w (by simpa using h) hp.2
    simp [hp.1, i1, i2]

/-! ## `bestRule` -/

theorem bestRule_congr (syn : Syn) (s s' : List Nat) : ∀ (rules : List LexRule) (best : Option (Nat × LexAct)),
    (∀ r ∈ rules, matchPat syn s' r.pat = matchPat syn s r.pat) → bestRule syn s' rules best = bestRule syn s rules best
  | [], _, _ => rfl
  | r :: rs, best, h => by
    simp only [bestRule]
    rw [h r (by simp)]
    have ih := fun b => bestRule_congr syn s s' rs b (fun r' hr' => h r' (List.mem_cons_of_mem _ hr'))
    cases matchPat syn s r.pat with
    | none => exact ih _
    | some k =>
      cases best with
      | none => exact ih _
      | some b =>
        obtain ⟨m, a⟩ := b
        simp only
        split <;> exact ih _

/-- ties go to the first rule: the winning rule is the first one with the maximal length -/
theorem bestRule_first (syn : Syn) (s : List Nat) : ∀ (rules : List LexRule) (best : Option (Nat × LexAct)) (n : Nat) (act : LexAct),
    bestRule syn s rules best = some (n, act) →
    best = some (n, act) ∨ ∃ pre r post, rules = pre ++ r :: post ∧ r.act = act ∧ matchPat syn s r.pat = some n ∧
      (∀ r' ∈ pre, ∀ m, matchPat syn s r'.pat = some m → m < n) ∧ (∀ m a, best = some (m, a) → m < n) := by
  intro rules
  induction rules with
  | nil => intro best n act h; left; simpa [bestRule] using h
  | cons r0 rs ih =>
    intro best n act h
    simp only [bestRule] at h
    cases hm : matchPat syn s r0.pat with
    | none =>
      rw [hm] at h
      rcases ih best n act (by simpa using h) with h' | ⟨pre, r, post, e, ha, hp, hpre, hb⟩
      · exact Or.inl h'
      · refine Or.inr ⟨r0 :: pre, r, post, by rw [e]; rfl, ha, hp, ?_, hb⟩
        intro r' hr' m hm'
        rcases List.mem_cons.1 hr' with rfl | hr'
        · rw [hm] at hm'; cases hm'
        · exact hpre r' hr' m hm'
    | some k =>
      rw [hm] at h
      cases best with
      | none =>
        rcases ih _ n act (by simpa using h) with h' | ⟨pre, r, post, e, ha, hp, hpre, hb⟩
        · simp at h'
          exact Or.inr ⟨[], r0, rs, rfl, h'.2, by rw [hm, h'.1], fun _ hr => absurd hr List.not_mem_nil, fun _ _ hb => by cases hb⟩
        · refine Or.inr ⟨r0 :: pre, r, post, by rw [e]; rfl, ha, hp, ?_, fun _ _ hb => by cases hb⟩
          intro r' hr' m hm'
          rcases List.mem_cons.1 hr' with rfl | hr'
          · rw [hm] at hm'; cases hm'; exact hb _ _ rfl
          · exact hpre r' hr' m hm'
      | some b =>
        obtain ⟨m0, a0⟩ := b
        simp only at h
        split at h
        · next hlt =>
          rcases ih _ n act h with h' | ⟨pre, r, post, e, ha, hp, hpre, hb⟩
          · simp at h'
            refine Or.inr ⟨[], r0, rs, rfl, h'.2, by rw [hm, h'.1], fun _ hr => absurd hr List.not_mem_nil, ?_⟩
            intro m a hb; cases hb; omega
          · have hk := hb _ _ rfl
            refine Or.inr ⟨r0 :: pre, r, post, by rw [e]; rfl, ha, hp, ?_, ?_⟩
            · intro r' hr' m hm'
              rcases List.mem_cons.1 hr' with rfl | hr'
              · rw [hm] at hm'; cases hm'; exact hk
              · exact hpre r' hr' m hm'
            · intro m a hb'; cases hb'; omega
        · next hge =>
          rcases ih _ n act h with h' | ⟨pre, r, post, e, ha, hp, hpre, hb⟩
          · exact Or.inl h'
          · have hk := hb _ _ rfl
            refine Or.inr ⟨r0 :: pre, r, post, by rw [e]; rfl, ha, hp, ?_, hb⟩
            intro r' hr' m hm'
            rcases List.mem_cons.1 hr' with rfl | hr'
            · rw [hm] at hm'; cases hm'; omega
            · exact hpre r' hr' m hm'

/-- a match never reaches beyond the text -/
theorem matchPat_le (syn : Syn) (s : List Nat) (pat : LexPat) (n : Nat) (h : matchPat syn s pat = some n) : n ≤ s.length := by
  cases pat with
  | lit l =>
    simp only [matchPat] at h
    split at h
    · next hc =>
      simp only [Bool.and_eq_true] at hc
      have := isPrefix_length l s hc.2
      simp at h; omega
    · cases h
  | withIndex pre =>
    simp only [matchPat] at h
    split at h
    · next hc =>
      split at h
      · cases h
      · have h1 := isPrefix_length pre s hc
        have h2 := indexLen_le (s.drop pre.length)
        simp only [List.length_drop] at h2
        simp at h; omega
    · cases h
  | withNumber pre =>
    simp only [matchPat] at h
    split at h
    · next hc =>
      split at h
      · cases h
      · have h1 := isPrefix_length pre s hc
        have h2 := spanLen_le Lexer.isDigit (s.drop pre.length)
        simp only [List.length_drop] at h2
        simp at h; omega
    · cases h
  | number =>
    simp only [matchPat] at h
    split at h
    · cases h
    · have := spanLen_le Lexer.isDigit s; simp at h; omega
  | globalId =>
    simp only [matchPat] at h
    split at h
    · next c r =>
      split at h
      · have := spanLen_le (isAlnum syn) r; simp at h ⊢; omega
      · cases h
    · cases h
  | localId =>
    simp only [matchPat] at h
    split at h
    · next c r =>
      split at h
      · have := spanLen_le (isAlnum syn) r; simp at h ⊢; omega
      · cases h
    · cases h
  | newline =>
    simp only [matchPat] at h
    split at h
    · simp at h ⊢; omega
    · cases h
  | blanks =>
    simp only [matchPat] at h
    split at h
    · cases h
    · have := spanLen_le (fun c => c == 32 || c == 9) s; simp at h; omega
  | ws =>
    simp only [matchPat] at h
    split at h
    · cases h
    · have := spanLen_le (fun c => c == 32 || c == 9 || c == 13 || c == 10) s; simp at h; omega
  | any =>
    simp only [matchPat] at h
    split at h
    · split at h
      · cases h
      · simp at h ⊢; omega
    · cases h
  | eof => simp [matchPat] at h

theorem bestRule_le (s : List Nat) (n : Nat) (act : LexAct) (h : bestRule .math s mathRules none = some (n, act)) :
    n ≤ s.length := by
  rcases bestRule_origin .math s mathRules none n act h with h' | ⟨r, _, _, hp⟩
  · cases h'
  · exact matchPat_le _ _ _ _ hp

/-! ## facts about the regenerated table -/

/-- literals are homogeneous (identifier-start symbols only, or no identifier symbol at all); the
indexed keywords have a two-letter prefix, the numbered ones a one-letter prefix -/
def patOk : LexPat → Bool
  | .lit l => l.all idStartB || l.all (fun c => !(isAlnum .math c))
  | .withIndex pre => pre.length == 2 && pre.all idStartB
  | .withNumber pre => pre.length == 1 && pre.all idStartB
  | _ => true

theorem math_pats_ok : ∀ r ∈ mathRules, patOk r.pat = true := by decide +kernel

theorem idStartB_facts (c : Nat) (h : idStartB c = true) :
    Lexer.isDigit c = false ∧ c ≠ 44 ∧ isAlnum .math c = true ∧ c ≠ 32 ∧ c ≠ 9 ∧ c ≠ 13 ∧ c ≠ 10 := by
  obtain ⟨d1, d2, d3, d4, d5⟩ := idStartB_props c h
  refine ⟨d1, ?_, idStartB_alnum c h, d2, d3, d4, d5⟩
  unfold idStartB isGlobalStart isLocalStart isUpper isLower at h
  simp only [Bool.or_eq_true, Bool.and_eq_true, decide_eq_true_eq, beq_iff_eq, bne_iff_ne, ne_eq] at h
  omega

theorem not_alnum_facts (c : Nat) (h : isAlnum .math c = false) : Lexer.isDigit c = false ∧ idStartB c = false := by
  constructor
  · cases hd : Lexer.isDigit c with
    | false => rfl
    | true => rw [isDigit_isAlnum c hd] at h; cases h
  · cases hd : idStartB c with
    | false => rfl
    | true => rw [idStartB_alnum c hd] at h; cases h

theorem all_getElem? {p : Nat → Bool} {l : List Nat} (h : l.all p = true) {i : Nat} {z : Nat} (hz : l[i]? = some z) : p z = true :=
  List.all_eq_true.1 h z (List.mem_of_getElem? hz)

/-- a homogeneous word cannot run over the end of `c` into `x` when `c` does not end in an
identifier-start symbol and `x` is one -/
theorem beyond_false_before (l c : List Nat) (x : Nat) (w : List Nat)
    (hu : (l.all idStartB || l.all (fun c => !(isAlnum .math c))) = true)
    (hc : c ≠ []) (hlast : ∀ z, c.getLast? = some z → idStartB z = false) (hx : idStartB x = true)
    (hlen : c.length < l.length) : isPrefix l (c ++ x :: w) = false := by
  cases hp : isPrefix l (c ++ x :: w) with
  | false => rfl
  | true =>
    exfalso
    obtain ⟨h1, h2⟩ := isPrefix_beyond l c x w hlen hp
    have hcl : 0 < c.length := List.length_pos_iff.2 hc
    obtain ⟨z, hz⟩ : ∃ z, c.getLast? = some z := by
      cases hg : c.getLast? with
      | none => simp at hg; exact absurd hg hc
      | some z => exact ⟨z, rfl⟩
    have hz' : l[c.length - 1]? = some z := by
      rw [List.getLast?_eq_getElem?] at hz
      rw [← hz, ← h1]
      simp only [List.length_take, List.getElem?_take]
      have : min c.length l.length = c.length := by omega
      rw [this, if_pos (by omega)]
    rcases Bool.or_eq_true_iff.1 hu with ha | ha
    · have := all_getElem? ha hz'
      rw [hlast z hz] at this; cases this
    · have := all_getElem? ha h2
      simp only [Bool.not_eq_true'] at this
      rw [(idStartB_facts x hx).2.2.1] at this; cases this

theorem matchPat_newline_cons (syn : Syn) (a : Nat) (t : List Nat) :
    matchPat syn (a :: t) .newline = if a = 10 then some 1 else none := by
  by_cases ha : a = 10
  · subst ha; rfl
  · rw [if_neg ha]
    simp only [matchPat]
    split
    · next heq => simp at heq; exact absurd heq.1 ha
    · rfl

/-- **stability of a piece before a replaced identifier.** Where the text is `c ++ x :: w`, `c` is not
empty and does not end in an identifier-start symbol, `x` is one, and no identifier rule matches
beyond `c`: every pattern of the table matches `c ++ y :: w'` exactly as it matches `c ++ x :: w`,
for every other identifier-start symbol `y` and every `w'`. -/
theorem matchPat_stable_before (pat : LexPat) (hok : patOk pat = true) (c : List Nat) (x y : Nat) (w w' : List Nat)
    (hc : c ≠ []) (hlast : ∀ z, c.getLast? = some z → idStartB z = false)
    (hx : idStartB x = true) (hy : idStartB y = true)
    (hG : ∀ m, matchPat .math (c ++ x :: w) .globalId = some m → m ≤ c.length)
    (hL : ∀ m, matchPat .math (c ++ x :: w) .localId = some m → m ≤ c.length) :
    matchPat .math (c ++ y :: w') pat = matchPat .math (c ++ x :: w) pat := by
  obtain ⟨xd, x4, xa, x32, x9, x13, x10⟩ := idStartB_facts x hx
  obtain ⟨yd, y4, ya, y32, y9, y13, y10⟩ := idStartB_facts y hy
  have hcl : 0 < c.length := List.length_pos_iff.2 hc
  -- identifier patterns: the span stops inside `c`
  have idcase : ∀ (st : Nat → Bool), (∀ m, (match c ++ x :: w with
        | a :: r => if st a = true then some (1 + spanLen (isAlnum .math) r) else none | [] => none) = some m → m ≤ c.length) →
      (match c ++ y :: w' with | a :: r => if st a = true then some (1 + spanLen (isAlnum .math) r) else none | [] => none) =
      (match c ++ x :: w with | a :: r => if st a = true then some (1 + spanLen (isAlnum .math) r) else none | [] => none) := by
    intro st hb
    cases c with
    | nil => exact absurd rfl hc
    | cons a t =>
      simp only [List.cons_append] at hb ⊢
      by_cases hs : st a = true
      · simp only [hs, if_true] at hb ⊢
        have h1 := hb _ rfl
        have hlt : spanLen (isAlnum .math) t < t.length := by
          have hle := spanLen_le (isAlnum .math) t
          by_cases he : spanLen (isAlnum .math) t = t.length
          · have h2 := spanLen_append_all (isAlnum .math) t (x :: w) he
            rw [spanLen_cons, xa] at h2
            simp only [if_true, List.length_cons] at h2 h1
            omega
          · omega
        rw [spanLen_append_lt _ t _ hlt, spanLen_append_lt _ t _ hlt]
      · simp only [hs, Bool.false_eq_true, if_false]
  cases pat with
  | lit l =>
    simp only [matchPat]
    have : isPrefix l (c ++ y :: w') = isPrefix l (c ++ x :: w) := by
      by_cases hl : l.length ≤ c.length
      · rw [isPrefix_append_le l c _ hl, isPrefix_append_le l c _ hl]
      · rw [beyond_false_before l c x w hok hc hlast hx (by omega), beyond_false_before l c y w' hok hc hlast hy (by omega)]
    rw [this]
  | withIndex pre =>
    simp only [patOk, Bool.and_eq_true, beq_iff_eq] at hok
    simp only [matchPat]
    by_cases hl : pre.length ≤ c.length
    · rw [isPrefix_append_le pre c _ hl, isPrefix_append_le pre c _ hl]
      rw [List.drop_append_of_le_length hl, List.drop_append_of_le_length hl]
      rw [indexLen_congr (c.drop pre.length) y x w' w yd y4 xd x4]
    · have hu : (pre.all idStartB || pre.all (fun c => !(isAlnum .math c))) = true := by rw [hok.2]; rfl
      rw [beyond_false_before pre c x w hu hc hlast hx (by omega), beyond_false_before pre c y w' hu hc hlast hy (by omega)]
      simp
  | withNumber pre =>
    simp only [patOk, Bool.and_eq_true, beq_iff_eq] at hok
    simp only [matchPat]
    have hl : pre.length ≤ c.length := by omega
    rw [isPrefix_append_le pre c _ hl, isPrefix_append_le pre c _ hl]
    rw [List.drop_append_of_le_length hl, List.drop_append_of_le_length hl]
    rw [spanLen_congr Lexer.isDigit (c.drop pre.length) y x w' w yd xd]
  | number =>
    simp only [matchPat]
    rw [spanLen_congr Lexer.isDigit c y x w' w yd xd]
  | globalId =>
    simp only [matchPat] at hG ⊢
    exact idcase isGlobalStart hG
  | localId =>
    simp only [matchPat] at hL ⊢
    exact idcase (isLocalStart .math) hL
  | newline =>
    cases c with
    | nil => exact absurd rfl hc
    | cons a t => simp only [List.cons_append, matchPat_newline_cons]
  | blanks =>
    simp only [matchPat]
    rw [spanLen_congr (fun c => c == 32 || c == 9) c y x w' w (by simp [y32, y9]) (by simp [x32, x9])]
  | ws =>
    simp only [matchPat]
    rw [spanLen_congr (fun c => c == 32 || c == 9 || c == 13 || c == 10) c y x w' w
      (by simp [y32, y9, y13, y10]) (by simp [x32, x9, x13, x10])]
  | any =>
    cases c with
    | nil => exact absurd rfl hc
    | cons a t => simp only [matchPat, List.cons_append]
  | eof => simp only [matchPat]

/-- the longest match of a piece that ends at or before `|c|` is the same on `c ++ y :: w'` -/
theorem stable_before (c : List Nat) (x y : Nat) (w w' : List Nat) (n : Nat) (act : LexAct)
    (hc : c ≠ []) (hlast : ∀ z, c.getLast? = some z → idStartB z = false)
    (hx : idStartB x = true) (hy : idStartB y = true) (hn : n ≤ c.length)
    (hb : bestRule .math (c ++ x :: w) mathRules none = some (n, act)) :
    bestRule .math (c ++ y :: w') mathRules none = some (n, act) := by
  rw [← hb]
  apply bestRule_congr
  intro r hr
  have hge := (bestRule_ge .math _ mathRules none n act hb).2
  exact matchPat_stable_before r.pat (math_pats_ok r hr) c x y w w' hc hlast hx hy
    (fun m hm => Nat.le_trans (hge _ math_has_globalId m hm) hn)
    (fun m hm => Nat.le_trans (hge _ math_has_localId m hm) hn)

/-! ## names: texts that lex, on their own, as one identifier token -/

/-- `N` is an identifier spelling of kind `k` -/
def IsName (N : List Nat) (k : Tok) : Prop :=
  N ≠ [] ∧ filterIdentifiers k = true ∧ bestRule .math N mathRules none = some (N.length, .tok k)

def isIdAct : LexAct → Bool
  | .tok k => filterIdentifiers k
  | _ => false

def isIndexPat : LexPat → Bool
  | .withIndex _ => true
  | _ => false

/-- no identifier rule stands before an indexed-keyword rule (`pr1` is the keyword, not a name) -/
def orderOk : List LexRule → Bool
  | [] => true
  | r :: rs => (!(isIdAct r.act) || (!(isIndexPat r.pat) && rs.all (fun r' => !(isIndexPat r'.pat)))) && orderOk rs

theorem math_order : orderOk mathRules = true := by decide +kernel

theorem orderOk_split : ∀ (pre : List LexRule) (r : LexRule) (post : List LexRule), orderOk (pre ++ r :: post) = true →
    isIdAct r.act = true → isIndexPat r.pat = false ∧ ∀ r' ∈ post, isIndexPat r'.pat = false
  | [], r, post, h, ha => by
    simp only [List.nil_append, orderOk, Bool.and_eq_true, Bool.or_eq_true, Bool.not_eq_true', List.all_eq_true] at h
    rcases h.1 with h1 | h1
    · rw [ha] at h1; cases h1
    · exact ⟨h1.1, h1.2⟩
  | _ :: pre, r, post, h, ha => by
    simp only [List.cons_append, orderOk, Bool.and_eq_true] at h
    exact orderOk_split pre r post h.2 ha

theorem spanLen_all (p : Nat → Bool) (t : List Nat) (h : spanLen p t = t.length) : ∀ c ∈ t, p c = true := by
  intro c hc
  obtain ⟨i, hi, e⟩ := List.mem_iff_getElem.1 hc
  obtain ⟨c', h1, h2⟩ := spanLen_get p t i (by omega)
  rw [List.getElem?_eq_getElem hi, e] at h1
  cases h1
  exact h2

theorem idpat_whole (st : Nat → Bool) (hst : ∀ c, st c = true → idStartB c = true) : ∀ (M : List Nat) (m : Nat),
    (match M with | c :: r' => if st c = true then some (1 + spanLen (isAlnum .math) r') else none | [] => none) = some m →
    ∃ a t, M = a :: t ∧ idStartB a = true ∧ (m = M.length → spanLen (isAlnum .math) t = t.length) := by
  intro M m hm
  cases M with
  | nil => simp at hm
  | cons a t =>
    simp only at hm
    split at hm
    · next hs =>
      refine ⟨a, t, rfl, hst a hs, ?_⟩
      intro e
      simp at hm e; omega
    · cases hm

/-- an identifier token starts with an identifier-start symbol; when it is the whole text, the text
consists of identifier symbols -/
theorem id_best_shape (s : List Nat) (m : Nat) (k : Tok) (hk : filterIdentifiers k = true)
    (hb : bestRule .math s mathRules none = some (m, .tok k)) :
    ∃ a t, s = a :: t ∧ idStartB a = true ∧ (m = s.length → spanLen (isAlnum .math) t = t.length) := by
  rcases bestRule_origin .math s mathRules none _ _ hb with h' | ⟨r, hr, ha, hp⟩
  · cases h'
  obtain ⟨g1, g2, g3, g4⟩ := math_id_rules r hr
  have nump : ∀ c0, idStartB c0 = true → matchPat .math s (.withNumber [c0]) = some m →
      ∃ a t, s = a :: t ∧ idStartB a = true ∧ (m = s.length → spanLen (isAlnum .math) t = t.length) := by
    intro c0 hc0 hm
    simp only [matchPat] at hm
    cases s with
    | nil => simp [isPrefix] at hm
    | cons a t =>
      simp only [isPrefix, Bool.and_true, List.length_cons, List.length_nil, List.drop_succ_cons, List.drop_zero] at hm
      split at hm
      · next hpre =>
        have ha : c0 = a := by simpa using hpre
        split at hm
        · cases hm
        · refine ⟨a, t, rfl, ha ▸ hc0, ?_⟩
          intro e
          have h1 := spanLen_mono Lexer.isDigit (isAlnum .math) isDigit_isAlnum t
          have h2 := spanLen_le (isAlnum .math) t
          simp at hm e; omega
      · cases hm
  unfold filterIdentifiers at hk
  simp only [Bool.or_eq_true, decide_eq_true_eq] at hk
  rcases hk with ((hk | hk) | hk) | hk
  · subst hk
    rw [g1 ha] at hp
    simp only [matchPat] at hp
    exact idpat_whole isGlobalStart (fun c hc => by unfold idStartB; simp [hc]) s m hp
  · subst hk
    rw [g3 ha] at hp
    exact nump 70 (by decide) hp
  · subst hk
    rw [g4 ha] at hp
    exact nump 80 (by decide) hp
  · subst hk
    rw [g2 ha] at hp
    simp only [matchPat] at hp
    exact idpat_whole (isLocalStart .math) (fun c hc => by unfold idStartB; simp [hc]) s m hp

/-- a name is an identifier-start symbol followed by identifier symbols only -/
theorem IsName.shape {N : List Nat} {k : Tok} (h : IsName N k) :
    ∃ a t, N = a :: t ∧ idStartB a = true ∧ spanLen (isAlnum .math) t = t.length := by
  obtain ⟨a, t, e, h1, h2⟩ := id_best_shape N _ k h.2.1 h.2.2
  exact ⟨a, t, e, h1, h2 rfl⟩

/-- no indexed-keyword rule matches the whole of a name (it would have won the tie) -/
theorem IsName.no_index_tie {N : List Nat} {k : Tok} (h : IsName N k) :
    ∀ r ∈ mathRules, isIndexPat r.pat = true → matchPat .math N r.pat ≠ some N.length := by
  obtain ⟨_, hk, hb⟩ := h
  intro ri hri hidx hm
  rcases bestRule_first .math N mathRules none _ _ hb with h' | ⟨pre, r, post, e, ha, hp, hpre, _⟩
  · cases h'
  have hida : isIdAct r.act = true := by rw [ha]; exact hk
  obtain ⟨o1, o2⟩ := orderOk_split pre r post (e ▸ math_order) hida
  rw [e] at hri
  rcases List.mem_append.1 hri with hin | hin
  · have := hpre ri hin _ hm; omega
  · rcases List.mem_cons.1 hin with rfl | hin
    · rw [o1] at hidx; cases hidx
    · rw [o2 ri hin] at hidx; cases hidx

theorem indexTail_nil (fuel : Nat) : indexTail fuel [] = 0 := by
  cases fuel <;> simp [indexTail]

/-- **stability of a name.** Every pattern of the table matches `N ++ z :: w` exactly as it matches the
name `N` alone, when `z` is not an identifier symbol. -/
theorem matchPat_stable_name (pat : LexPat) (hok : patOk pat = true) (a : Nat) (t : List Nat) (z : Nat) (w : List Nat)
    (ha : idStartB a = true) (ht : spanLen (isAlnum .math) t = t.length) (hz : isAlnum .math z = false)
    (htie : isIndexPat pat = true → matchPat .math (a :: t) pat ≠ some (a :: t).length) :
    matchPat .math ((a :: t) ++ z :: w) pat = matchPat .math (a :: t) pat := by
  obtain ⟨ad, a4, aa, a32, a9, a13, a10⟩ := idStartB_facts a ha
  obtain ⟨zd, zs⟩ := not_alnum_facts z hz
  have hall := spanLen_all _ t ht
  -- a homogeneous word does not run over the end of the name
  have beyond : ∀ l : List Nat, (l.all idStartB || l.all (fun c => !(isAlnum .math c))) = true →
      (a :: t).length < l.length → isPrefix l ((a :: t) ++ z :: w) = false := by
    intro l hu hlen
    cases hp : isPrefix l ((a :: t) ++ z :: w) with
    | false => rfl
    | true =>
      exfalso
      obtain ⟨h1, h2⟩ := isPrefix_beyond l (a :: t) z w hlen hp
      have h0 : l[0]? = some a := by
        have := congrArg (fun q => q[0]?) h1
        simpa using this
      rcases Bool.or_eq_true_iff.1 hu with hh | hh
      · have := all_getElem? hh h2
        rw [zs] at this; cases this
      · have := all_getElem? hh h0
        simp only [Bool.not_eq_true'] at this
        rw [aa] at this; cases this
  have short : ∀ l : List Nat, (a :: t).length < l.length → isPrefix l (a :: t) = false := by
    intro l hlen
    cases hp : isPrefix l (a :: t) with
    | false => rfl
    | true => have := isPrefix_length l _ hp; omega
  cases pat with
  | lit l =>
    simp only [matchPat]
    have : isPrefix l ((a :: t) ++ z :: w) = isPrefix l (a :: t) := by
      by_cases hl : l.length ≤ (a :: t).length
      · rw [isPrefix_append_le l _ _ hl]
      · rw [beyond l hok (by omega), short l (by omega)]
    rw [this]
  | withIndex pre =>
    simp only [patOk, Bool.and_eq_true, beq_iff_eq] at hok
    have hu : (pre.all idStartB || pre.all (fun c => !(isAlnum .math c))) = true := by rw [hok.2]; rfl
    by_cases hl : pre.length ≤ (a :: t).length
    · have htie' := htie rfl
      simp only [matchPat] at htie' ⊢
      rw [isPrefix_append_le pre _ _ hl, List.drop_append_of_le_length hl]
      cases hp : isPrefix pre (a :: t) with
      | false => simp
      | true =>
        rw [hp] at htie'
        simp only [if_true] at htie' ⊢
        -- D = the symbols of the name after the prefix
        have hDall : ∀ c ∈ (a :: t).drop pre.length, isAlnum .math c = true := by
          intro c hc
          have := List.mem_of_mem_drop hc
          rcases List.mem_cons.1 this with rfl | h'
          · exact aa
          · exact hall c h'
        generalize hD : (a :: t).drop pre.length = D at htie' hDall ⊢
        have hDlen : pre.length + D.length = (a :: t).length := by
          rw [← hD, List.length_drop]; omega
        by_cases hk : spanLen Lexer.isDigit D < D.length
        · -- the index stops at a letter inside the name
          have hq : D = D.take (spanLen Lexer.isDigit D) ++ D[spanLen Lexer.isDigit D] :: D.drop (spanLen Lexer.isDigit D + 1) := by
            rw [← List.drop_eq_getElem_cons hk, List.take_append_drop]
          have hqd : Lexer.isDigit D[spanLen Lexer.isDigit D] = false := by
            apply spanLen_stop Lexer.isDigit D
            rw [List.drop_eq_getElem_cons hk]; rfl
          have hqa : isAlnum .math D[spanLen Lexer.isDigit D] = true := hDall _ (List.getElem_mem hk)
          have hq4 : D[spanLen Lexer.isDigit D] ≠ 44 := by
            intro e; rw [e] at hqa; revert hqa; decide
          have e1 : D ++ z :: w = D.take (spanLen Lexer.isDigit D) ++ D[spanLen Lexer.isDigit D] ::
              (D.drop (spanLen Lexer.isDigit D + 1) ++ z :: w) := by
            exact (congrArg (· ++ z :: w) hq).trans (by rw [List.append_assoc, List.cons_append])
          have := indexLen_congr (D.take (spanLen Lexer.isDigit D)) D[spanLen Lexer.isDigit D] D[spanLen Lexer.isDigit D]
            (D.drop (spanLen Lexer.isDigit D + 1) ++ z :: w) (D.drop (spanLen Lexer.isDigit D + 1)) hqd hq4 hqd hq4
          rw [e1, this, ← hq]
        · have hk' : spanLen Lexer.isDigit D = D.length := by have := spanLen_le Lexer.isDigit D; omega
          cases D with
          | nil =>
            have e1 : indexLen ([] ++ z :: w) = 0 := by
              unfold indexLen; simp [spanLen_cons, zd]
            have e2 : indexLen ([] : List Nat) = 0 := by
              unfold indexLen; simp [spanLen]
            rw [e1, e2]
          | cons d D' =>
            exfalso
            apply htie'
            have : indexLen (d :: D') = (d :: D').length := by
              unfold indexLen
              simp only [hk']
              rw [List.drop_length, indexTail_nil]
              simp
            rw [this]
            simp only [List.length_cons] at hDlen ⊢
            simp; omega
    · simp only [matchPat]
      rw [beyond pre hu (by omega), short pre (by omega)]
      simp
  | withNumber pre =>
    simp only [patOk, Bool.and_eq_true, beq_iff_eq] at hok
    simp only [matchPat]
    have hl : pre.length ≤ (a :: t).length := by simp; omega
    rw [isPrefix_append_le pre _ _ hl, List.drop_append_of_le_length hl, spanLen_append_stop _ _ z w zd]
  | number =>
    simp only [matchPat]
    rw [spanLen_append_stop _ _ z w zd]
  | globalId =>
    simp only [matchPat, List.cons_append]
    rw [spanLen_append_stop _ _ z w hz]
  | localId =>
    simp only [matchPat, List.cons_append]
    rw [spanLen_append_stop _ _ z w hz]
  | newline => simp only [List.cons_append, matchPat_newline_cons]
  | blanks =>
    simp only [matchPat, List.cons_append]
    rw [spanLen_cons_false _ a _ (by simp [a32, a9]), spanLen_cons_false _ a _ (by simp [a32, a9])]
  | ws =>
    simp only [matchPat, List.cons_append]
    rw [spanLen_cons_false _ a _ (by simp [a32, a9, a13, a10]), spanLen_cons_false _ a _ (by simp [a32, a9, a13, a10])]
  | any => simp only [matchPat, List.cons_append]
  | eof => simp only [matchPat]

/-- a name followed by a symbol that is not an identifier symbol (or by nothing) is still matched
whole, as the same kind -/
theorem stable_name {N : List Nat} {k : Tok} (h : IsName N k) (rest : List Nat)
    (hrest : ∀ z, rest.head? = some z → isAlnum .math z = false) :
    bestRule .math (N ++ rest) mathRules none = some (N.length, .tok k) := by
  cases rest with
  | nil => rw [List.append_nil]; exact h.2.2
  | cons z w =>
    obtain ⟨a, t, e, ha, ht⟩ := h.shape
    have htie := h.no_index_tie
    rw [← h.2.2]
    subst e
    apply bestRule_congr
    intro r hr
    exact matchPat_stable_name r.pat (math_pats_ok r hr) a t z w ha ht (hrest z rfl) (fun hi => htie r hr hi)

/-! ## the strict decoder is injective: it only accepts what `encode` produces -/

theorem decode_sound : ∀ (b : Bytes) (cps : List Nat), decode b = some cps → encode cps = b ∧ ∀ c ∈ cps, scalar c := by
  intro b
  fun_induction decode b with
  | case1 => intro cps h; cases h; simp [encode]
  | case2 b rest hb ih =>
    intro cps h
    cases hd : decode rest with
    | none => rw [hd] at h; cases h
    | some r =>
      rw [hd] at h; simp at h; subst h
      obtain ⟨i1, i2⟩ := ih r hd
      refine ⟨?_, ?_⟩
      · rw [encode_cons, i1]; simp [encodeCp, hb]
      · intro c hc
        rcases List.mem_cons.1 hc with rfl | hc
        · unfold scalar; omega
        · exact i2 c hc
  | case3 b hb1 hb2 c1 r hc1 ih =>
    intro cps h
    cases hd : decode r with
    | none => rw [hd] at h; cases h
    | some r' =>
      rw [hd] at h; simp at h; subst h
      obtain ⟨i1, i2⟩ := ih r' hd
      refine ⟨?_, ?_⟩
      · rw [encode_cons, i1]
        have : encodeCp ((b - 192) * 64 + (c1 - 128)) = [b, c1] := by
          unfold encodeCp
          have e1 : ¬ ((b - 192) * 64 + (c1 - 128) < 128) := by omega
          have e2 : (b - 192) * 64 + (c1 - 128) < 2048 := by omega
          have e3 : 192 + ((b - 192) * 64 + (c1 - 128)) / 64 = b := by omega
          have e4 : 128 + ((b - 192) * 64 + (c1 - 128)) % 64 = c1 := by omega
          rw [if_neg e1, if_pos e2, e3, e4]
        rw [this]; rfl
      · intro c hc
        rcases List.mem_cons.1 hc with hc | hc
        · rw [hc]; unfold scalar; omega
        · exact i2 c hc
  | case7 b hb1 hb2 hb3 c1 c2 r hc cp hcp ih =>
    intro cps h
    cases hd : decode r with
    | none => rw [hd] at h; cases h
    | some r' =>
      rw [hd] at h; simp at h; subst h
      obtain ⟨i1, i2⟩ := ih r' hd
      refine ⟨?_, ?_⟩
      · rw [encode_cons, i1]
        have : encodeCp cp = [b, c1, c2] := by
          unfold encodeCp
          have e1 : ¬ (cp < 128) := by omega
          have e2 : ¬ (cp < 2048) := by omega
          have e2' : cp < 65536 := by omega
          have e3 : 224 + cp / 4096 = b := by omega
          have e4 : 128 + cp / 64 % 64 = c1 := by omega
          have e5 : 128 + cp % 64 = c2 := by omega
          rw [if_neg e1, if_neg e2, if_pos e2', e3, e4, e5]
        rw [this]; rfl
      · intro c hc'
        rcases List.mem_cons.1 hc' with hc' | hc'
        · rw [hc']; unfold scalar; omega
        · exact i2 c hc'
  | case11 b hb1 hb2 hb3 hb4 c1 c2 c3 r hc cp hcp ih =>
    intro cps h
    cases hd : decode r with
    | none => rw [hd] at h; cases h
    | some r' =>
      rw [hd] at h; simp at h; subst h
      obtain ⟨i1, i2⟩ := ih r' hd
      refine ⟨?_, ?_⟩
      · rw [encode_cons, i1]
        have : encodeCp cp = [b, c1, c2, c3] := by
          unfold encodeCp
          have e1 : ¬ (cp < 128) := by omega
          have e2 : ¬ (cp < 2048) := by omega
          have e2' : ¬ (cp < 65536) := by omega
          have e3 : 240 + cp / 262144 = b := by omega
          have e4 : 128 + cp / 4096 % 64 = c1 := by omega
          have e5 : 128 + cp / 64 % 64 = c2 := by omega
          have e6 : 128 + cp % 64 = c3 := by omega
          rw [if_neg e1, if_neg e2, if_neg e2', e3, e4, e5, e6]
        rw [this]; rfl
      · intro c hc'
        rcases List.mem_cons.1 hc' with hc' | hc'
        · rw [hc']; unfold scalar; omega
        · exact i2 c hc'
  | _ => intro cps h; cases h

end CCVerif.Translate
