import CCVerif.Lemmas.EvalFuel
/-!
Fuel of the evaluator model, part 2: `collect` (`NameCollector`).  Its only `outOfFuel` is the exhausted
recursion depth: from `evDepth a` on the answer does not depend on the fuel and is not `outOfFuel` - for every tree.
-/
namespace CCVerif.Eval
open CCVerif.Syntax CCVerif.Norm

/-- `MergeChildren` over the recursive call `rec` -/
def mergeK (rec : Ast → NC → CRes) (ks : List Ast) (nc : NC) : CRes :=
  ks.foldl (fun acc k =>
    match acc with
    | .fail f => .fail f
    | .ok vars _ nc =>
      match rec k nc with
      | .fail f => .fail f
      | .ok vs _ nc' => .ok (vars ++ vs) (!(vars ++ vs).isEmpty) nc') (.ok [] false nc)

/-- the block loop of `ViImperative` over the recursive call `rec` -/
def blocksK (rec : Ast → NC → CRes) (blocks : List Ast) (init : CRes) : CRes :=
  blocks.foldl (fun (acc : CRes) b =>
    match acc with
    | .fail f => .fail f
    | .ok vs al nc2 =>
      if b.id == .ITERATE || b.id == .ASSIGN then
        match b.kids.head? with
        | none => .fail (.stuck "NameCollector::ViImperative Child(0)")
        | some d =>
          match rec d nc2 with
          | .ok (v :: _) _ _ => .ok (eraseAll v vs) al nc2
          | .ok [] _ _ => .fail (.stuck "NameCollector::ViImperative *begin(empty)")
          | .fail f => .fail f
      else .ok vs al nc2) init

/-- the body of `collect` with the recursive call abstracted -/
def collectCore (env : Env) (rec : Ast → NC → CRes) (a : Ast) (nc : NC) : CRes :=
    let merge (nc : NC) : CRes := mergeK rec a.kids nc
    let t := a.id
    if dispatchesDefault t then
      -- `ViGlobalDeclaration`
      if t == .PUNC_STRUCT then .fail .quiet else
      match a.kids with
      | [] => .fail (.stuck "NameCollector::ViGlobalDeclaration iter(0)")
      | k0 :: rest =>
        if k0.id == .ID_GLOBAL then
          match rest with
          | [k1] => (match rec k1 nc with
            | .fail f => .fail f
            | .ok _ _ nc' => .ok [] false nc')
          | _ => .fail .quiet
        else .fail .quiet
    else if t == .ID_GLOBAL || t == .ID_FUNCTION || t == .ID_PREDICATE then
      -- `ViGlobal`
      let name := textOf a
      match lookup name nc.ids with
      | some id => .ok [id] true nc
      | none =>
        let next := nc.data.length
        match lookup name env.globals with
        | none => .fail (.err EID.globalMissingValue a.lo)
        | some v => .ok [next] true { ids := nc.ids ++ [(name, next)], data := nc.data ++ [v] }
    else if t == .ID_LOCAL then
      let name := textOf a
      match lookup name nc.ids with
      | some id => .ok [id] true nc
      | none =>
        let next := nc.data.length
        .ok [next] true { ids := nc.ids ++ [(name, next)], data := nc.data ++ [Val.s []] }
    else if isBinderNode t then
      -- `ViQuantifier` (also `ViDeclarative`, `ViRecursion`)
      match merge nc with
      | .fail f => .fail f
      | .ok vars alloc nc' =>
        match a.kids.head? with
        | none => .fail (.stuck "NameCollector::ViQuantifier Child(0)")
        | some k0 =>
          match rec k0 nc' with   -- re-reads `nodeVars[child0]` (ids are stable)
          | .ok (v :: _) _ _ => .ok (eraseAll v vars) alloc nc'
          | .ok [] true _ => .ok vars alloc nc'     -- stale slot of an emptied vector: nothing to erase
          | .ok [] false _ => .fail (.stuck "NameCollector::ViQuantifier *begin(empty)")
          | .fail f => .fail f
    else if t == .NT_IMPERATIVE_EXPR then
      match merge nc with
      | .fail f => .fail f
      | .ok vars alloc nc' =>
        match a.kids with
        | [] => .fail (.stuck "NameCollector::ViImperative MoveToChild(1)")
        | [_] => .fail (.stuck "NameCollector::ViImperative MoveToChild(1)")
        | k0 :: blocks =>
          -- for every ITERATE/ASSIGN block: `*begin(nodeVars[child.Child(0)])`, the block's declaration
          let _ := k0
          blocksK rec blocks (.ok vars alloc nc')
    else merge nc

theorem collect_succ (env : Env) (fuel : Nat) (a : Ast) (nc : NC) :
    collect env (fuel + 1) a nc = collectCore env (collect env fuel) a nc := rfl

theorem foldl_congr_mem' {α β : Type} {f g : β → α → β} : ∀ (l : List α) (b : β),
    (∀ b, ∀ x ∈ l, f b x = g b x) → l.foldl f b = l.foldl g b
  | [], _, _ => rfl
  | x :: xs, b, h => by
    simp only [List.foldl_cons]
    rw [h b x (List.mem_cons_self ..)]
    exact foldl_congr_mem' xs _ (fun b y hy => h b y (List.mem_cons_of_mem _ hy))

theorem foldl_noOOF {step : CRes → Ast → CRes} (hf : ∀ f k, step (.fail f) k = .fail f) :
    ∀ (ks : List Ast), (∀ k ∈ ks, ∀ vs al nc, step (.ok vs al nc) k ≠ .fail .outOfFuel) →
    ∀ acc, acc ≠ .fail .outOfFuel → ks.foldl step acc ≠ .fail .outOfFuel
  | [], _, _, h => h
  | k :: ks, hs, acc, h => by
    simp only [List.foldl_cons]
    apply foldl_noOOF hf ks (fun k' hk' => hs k' (List.mem_cons_of_mem _ hk'))
    cases acc with
    | fail f => rw [hf]; exact h
    | ok vs al nc => exact hs k (List.mem_cons_self ..) vs al nc

theorem mergeK_congr {rec rec' : Ast → NC → CRes} (ks : List Ast) (nc : NC)
    (hk : ∀ k ∈ ks, ∀ nc, rec k nc = rec' k nc) : mergeK rec ks nc = mergeK rec' ks nc := by
  unfold mergeK
  apply foldl_congr_mem'
  intro b x hx
  cases b with
  | fail f => rfl
  | ok vars al nc1 => simp only [hk x hx]

theorem blocksK_congr {rec rec' : Ast → NC → CRes} (bs : List Ast) (init : CRes)
    (hkk : ∀ k ∈ bs, ∀ d ∈ k.kids, ∀ nc, rec d nc = rec' d nc) : blocksK rec bs init = blocksK rec' bs init := by
  unfold blocksK
  apply foldl_congr_mem'
  intro b x hx
  cases b with
  | fail f => rfl
  | ok vars al nc1 =>
    dsimp only
    split
    · cases hd : x.kids.head? with
      | none => rfl
      | some d => dsimp only; rw [hkk x hx d (List.mem_of_mem_head? hd)]
    · rfl

theorem collectCore_congr (env : Env) {rec rec' : Ast → NC → CRes} (a : Ast) (nc : NC)
    (hk : ∀ k ∈ a.kids, ∀ nc, rec k nc = rec' k nc)
    (hkk : ∀ k ∈ a.kids, ∀ d ∈ k.kids, ∀ nc, rec d nc = rec' d nc) :
    collectCore env rec a nc = collectCore env rec' a nc := by
  simp only [collectCore, mergeK_congr a.kids _ hk]
  split
  · split
    · rfl
    · split
      · rfl
      · rename_i k0 rest hks
        split
        · split
          · rename_i k1
            rw [hk k1 (by rw [hks]; simp)]
          · rfl
        · rfl
  · split
    · rfl
    · split
      · rfl
      · split
        · cases mergeK rec' a.kids nc with
          | fail f => rfl
          | ok vars alloc nc' =>
            dsimp only
            cases hh : a.kids.head? with
            | none => rfl
            | some k0 => dsimp only; rw [hk k0 (List.mem_of_mem_head? hh)]
        · split
          · cases mergeK rec' a.kids nc with
            | fail f => rfl
            | ok vars alloc nc' =>
              dsimp only
              split
              · rfl
              · rfl
              · rename_i k0 blocks hne hks
                rw [blocksK_congr blocks _ (fun k hk' => hkk k (by rw [hks]; simp [hk']))]
          · rfl

theorem mergeK_noOOF {rec : Ast → NC → CRes} (ks : List Ast) (nc : NC)
    (hk : ∀ k ∈ ks, ∀ nc, rec k nc ≠ .fail .outOfFuel) : mergeK rec ks nc ≠ .fail .outOfFuel := by
  unfold mergeK
  apply foldl_noOOF (fun f k => rfl)
  · intro k hk' vs al nc1
    dsimp only
    have := hk k hk' nc1
    cases hr : rec k nc1 with
    | fail f => rw [hr] at this; intro h; injection h with h; subst h; exact this rfl
    | ok vs' al' nc' => intro h; cases h
  · intro h; cases h

theorem blocksK_noOOF {rec : Ast → NC → CRes} (bs : List Ast) (init : CRes) (hi : init ≠ .fail .outOfFuel)
    (hkk : ∀ k ∈ bs, ∀ d ∈ k.kids, ∀ nc, rec d nc ≠ .fail .outOfFuel) : blocksK rec bs init ≠ .fail .outOfFuel := by
  unfold blocksK
  apply foldl_noOOF (fun f k => rfl)
  · intro b hb vs al nc1
    dsimp only
    split
    · cases hd : b.kids.head? with
      | none => intro h; cases h
      | some d =>
        dsimp only
        have := hkk b hb d (List.mem_of_mem_head? hd) nc1
        cases hr : rec d nc1 with
        | fail f => rw [hr] at this; intro h; injection h with h; subst h; exact this rfl
        | ok vs' al' nc' => cases vs' <;> (intro h; cases h)
    · intro h; cases h
  · exact hi

theorem collectCore_noOOF (env : Env) {rec : Ast → NC → CRes} (a : Ast) (nc : NC)
    (hk : ∀ k ∈ a.kids, ∀ nc, rec k nc ≠ .fail .outOfFuel)
    (hkk : ∀ k ∈ a.kids, ∀ d ∈ k.kids, ∀ nc, rec d nc ≠ .fail .outOfFuel) :
    collectCore env rec a nc ≠ .fail .outOfFuel := by
  have hrec : ∀ k ∈ a.kids, ∀ nc (g : CRes → CRes), (∀ f, g (.fail f) = .fail f) →
      (∀ vs al nc', g (.ok vs al nc') ≠ .fail .outOfFuel) → g (rec k nc) ≠ .fail .outOfFuel := by
    intro k hk' nc g hg1 hg2
    have := hk k hk' nc
    cases hr : rec k nc with
    | fail f => rw [hg1]; rw [hr] at this; exact this
    | ok vs al nc' => exact hg2 vs al nc'
  have hm := mergeK_noOOF a.kids nc hk
  simp only [collectCore]
  split
  · split
    · intro h; cases h
    · split
      · intro h; cases h
      · rename_i k0 rest hks
        split
        · split
          · rename_i k1
            exact hrec k1 (by rw [hks]; simp) nc (fun r => match r with
              | .fail f => .fail f
              | .ok _ _ nc' => .ok [] false nc') (fun f => rfl) (fun vs al nc' h => by cases h)
          · intro h; cases h
        · intro h; cases h
  · split
    · split
      · intro h; cases h
      · split <;> (intro h; cases h)
    · split
      · split <;> (intro h; cases h)
      · split
        · cases hmk : mergeK rec a.kids nc with
          | fail f => rw [hmk] at hm; exact hm
          | ok vars alloc nc' =>
            dsimp only
            cases hh : a.kids.head? with
            | none => intro h; cases h
            | some k0 =>
              dsimp only
              have := hk k0 (List.mem_of_mem_head? hh) nc'
              cases hr : rec k0 nc' with
              | fail f => rw [hr] at this; exact this
              | ok vs al nc2 => cases vs <;> cases al <;> (intro h; cases h)
        · split
          · cases hmk : mergeK rec a.kids nc with
            | fail f => rw [hmk] at hm; exact hm
            | ok vars alloc nc' =>
              dsimp only
              split
              · intro h; cases h
              · intro h; cases h
              · rename_i k0 blocks hne hks
                exact blocksK_noOOF blocks _ (by intro h; cases h) (fun k hk' => hkk k (by rw [hks]; simp [hk']))
          · exact hm

/-- **`collect`: the fuel is the depth of the tree** - from `evDepth a` on the answer does not depend on the fuel -/
theorem collect_fuel_stable (env : Env) : ∀ (f f' : Nat) (a : Ast) (nc : NC),
    evDepth a ≤ f → evDepth a ≤ f' → collect env f a nc = collect env f' a nc := by
  intro f
  induction f with
  | zero => intro f' a nc h; have := evDepth_pos a; omega
  | succ f ih =>
    intro f' a nc h h'
    cases f' with
    | zero => have := evDepth_pos a; omega
    | succ f' =>
      rw [collect_succ, collect_succ]
      apply collectCore_congr
      · intro k hk nc
        have := evDepth_kid hk
        exact ih f' k nc (by omega) (by omega)
      · intro k hk d hd nc
        have := evDepth_kid hk
        have := evDepth_kid hd
        exact ih f' d nc (by omega) (by omega)

/-- ... and it is not `outOfFuel` -/
theorem collect_fuel_sufficient (env : Env) : ∀ (f : Nat) (a : Ast) (nc : NC),
    evDepth a ≤ f → collect env f a nc ≠ .fail .outOfFuel := by
  intro f
  induction f with
  | zero => intro a nc h; have := evDepth_pos a; omega
  | succ f ih =>
    intro a nc h
    rw [collect_succ]
    apply collectCore_noOOF
    · intro k hk nc
      have := evDepth_kid hk
      exact ih k nc (by omega)
    · intro k hk d hd nc
      have := evDepth_kid hk
      have := evDepth_kid hd
      exact ih d nc (by omega)

end CCVerif.Eval
