import CCVerif.Spec.Scan
import CCVerif.Model.Parser
/-!
Helper lemmas of C04 (`Properties/C04.lean`).

Part 1 — lexers: every pattern matches between 1 and `length` units, `bestRule` is the fold it
looks like, the catch-all rule makes the scan total, and the `lineBase`/`col` bookkeeping of
`lexGo` produces a `Scan.Tiled` token list.
-/
namespace CCVerif.Analysis
open CCVerif.Syntax CCVerif.Generated CCVerif.Lexer CCVerif.Scan

/-! ## patterns -/

theorem spanLen_le (p : Nat → Bool) : ∀ s : List Nat, spanLen p s ≤ s.length
  | [] => by simp [spanLen]
  | c :: r => by
    simp only [spanLen]; split
    · have := spanLen_le p r; simp only [List.length_cons]; omega
    · simp

theorem spanLen_all (p : Nat → Bool) : ∀ (s : List Nat) (c : Nat), c ∈ s.take (spanLen p s) → p c = true
  | [], c, h => by simp [spanLen] at h
  | a :: r, c, h => by
    simp only [spanLen] at h
    split at h
    · rename_i hp
      simp only [List.take_succ_cons, List.mem_cons] at h
      rcases h with rfl | h
      · exact hp
      · exact spanLen_all p r c h
    · simp at h

theorem indexTail_le : ∀ (fuel : Nat) (s : List Nat), indexTail fuel s ≤ s.length
  | 0, _ => by simp [indexTail]
  | fuel+1, s => by
    unfold indexTail
    split
    · rename_i r
      have hk := spanLen_le isDigit r
      have ih := indexTail_le fuel (r.drop (spanLen isDigit r))
      simp only [List.length_drop] at ih
      simp only [List.length_cons]
      split <;> omega
    · omega

theorem indexLen_le (s : List Nat) : indexLen s ≤ s.length := by
  unfold indexLen
  have hk := spanLen_le isDigit s
  have ih := indexTail_le s.length (s.drop (spanLen isDigit s))
  simp only [List.length_drop] at ih
  simp only []
  split <;> omega

theorem isPrefix_length : ∀ (p s : List Nat), isPrefix p s = true → p.length ≤ s.length
  | [], _, _ => by simp
  | _ :: _, [], h => by simp [isPrefix] at h
  | a :: p, b :: s, h => by
    simp only [isPrefix, Bool.and_eq_true] at h
    have := isPrefix_length p s h.2
    simp only [List.length_cons]; omega

/-- a pattern that matches consumes at least one unit and at most the whole rest of the text -/
theorem matchPat_bounds (syn : Syn) (s : List Nat) (p : LexPat) (n : Nat)
    (h : matchPat syn s p = some n) : 1 ≤ n ∧ n ≤ s.length := by
  cases p with
  | lit l =>
    simp only [matchPat] at h
    split at h
    · rename_i hc
      simp only [Bool.and_eq_true, Bool.not_eq_true', List.isEmpty_eq_false_iff] at hc
      have := isPrefix_length l s hc.2
      have : l.length ≠ 0 := by intro h0; exact hc.1 (List.eq_nil_of_length_eq_zero h0)
      simp only [Option.some.injEq] at h; omega
    · cases h
  | withIndex pre =>
    simp only [matchPat] at h
    split at h
    · rename_i hc
      have h1 := isPrefix_length pre s hc
      have h2 := indexLen_le (s.drop pre.length)
      simp only [List.length_drop] at h2
      split at h
      · cases h
      · rename_i hk
        simp only [Option.some.injEq] at h
        simp only [beq_iff_eq] at hk
        omega
    · cases h
  | withNumber pre =>
    simp only [matchPat] at h
    split at h
    · rename_i hc
      have h1 := isPrefix_length pre s hc
      have h2 := spanLen_le isDigit (s.drop pre.length)
      simp only [List.length_drop] at h2
      split at h
      · cases h
      · rename_i hk
        simp only [Option.some.injEq] at h
        simp only [beq_iff_eq] at hk
        omega
    · cases h
  | number =>
    simp only [matchPat] at h
    have h2 := spanLen_le isDigit s
    split at h
    · cases h
    · rename_i hk
      simp only [Option.some.injEq] at h
      simp only [beq_iff_eq] at hk
      omega
  | globalId =>
    simp only [matchPat] at h
    split at h
    · rename_i c r
      have h2 := spanLen_le (isAlnum syn) r
      split at h
      · simp only [Option.some.injEq] at h; simp only [List.length_cons]; omega
      · cases h
    · cases h
  | localId =>
    simp only [matchPat] at h
    split at h
    · rename_i c r
      have h2 := spanLen_le (isAlnum syn) r
      split at h
      · simp only [Option.some.injEq] at h; simp only [List.length_cons]; omega
      · cases h
    · cases h
  | newline =>
    simp only [matchPat] at h
    split at h
    · simp only [Option.some.injEq] at h; simp only [List.length_cons]; omega
    · cases h
  | blanks =>
    simp only [matchPat] at h
    have h2 := spanLen_le (fun c => c == 32 || c == 9) s
    split at h
    · cases h
    · rename_i hk
      simp only [Option.some.injEq] at h
      simp only [beq_iff_eq] at hk
      omega
  | ws =>
    simp only [matchPat] at h
    have h2 := spanLen_le (fun c => c == 32 || c == 9 || c == 13 || c == 10) s
    split at h
    · cases h
    · rename_i hk
      simp only [Option.some.injEq] at h
      simp only [beq_iff_eq] at hk
      omega
  | any =>
    simp only [matchPat] at h
    split at h
    · split at h
      · cases h
      · simp only [Option.some.injEq] at h; simp only [List.length_cons]; omega
    · cases h
  | eof => simp [matchPat] at h

/-- what the two whitespace patterns and the newline pattern consume is skipped material -/
theorem matchPat_skipped (syn : Syn) (s : List Nat) (p : LexPat) (n : Nat)
    (hp : p = .newline ∨ p = .blanks ∨ (p = .ws ∧ syn = .ascii))
    (h : matchPat syn s p = some n) : ∀ c ∈ s.take n, isSkipped syn c = true := by
  rcases hp with rfl | rfl | ⟨rfl, rfl⟩
  · simp only [matchPat] at h
    split at h
    · simp only [Option.some.injEq] at h; subst h
      intro c hc; simp at hc; subst hc; simp [isSkipped]
    · cases h
  · simp only [matchPat] at h
    split at h
    · cases h
    · simp only [Option.some.injEq] at h; subst h
      intro c hc
      have := spanLen_all _ s c hc
      simp only [Bool.or_eq_true, beq_iff_eq] at this
      rcases this with rfl | rfl <;> simp [isSkipped]
  · simp only [matchPat] at h
    split at h
    · cases h
    · simp only [Option.some.injEq] at h; subst h
      intro c hc
      have := spanLen_all _ s c hc
      simp only [Bool.or_eq_true, beq_iff_eq] at this
      rcases this with ((rfl | rfl) | rfl) | rfl <;> simp [isSkipped]

/-! ## `bestRule` -/

theorem bestRule_append (syn : Syn) (s : List Nat) : ∀ (xs ys : List LexRule) (b : Option (Nat × LexAct)),
    bestRule syn s (xs ++ ys) b = bestRule syn s ys (bestRule syn s xs b)
  | [], ys, b => by simp [bestRule]
  | r :: xs, ys, b => by
    simp only [List.cons_append, bestRule]
    cases hm : matchPat syn s r.pat with
    | none => simp only []; exact bestRule_append syn s xs ys b
    | some n =>
      cases b with
      | none => simp only []; exact bestRule_append syn s xs ys _
      | some b =>
        obtain ⟨m, a⟩ := b
        simp only []
        split <;> exact bestRule_append syn s xs ys _

/-- whatever `bestRule` returns was either the incoming candidate or the match of one of the rules -/
theorem bestRule_origin (syn : Syn) (s : List Nat) : ∀ (rules : List LexRule) (best : Option (Nat × LexAct)) (n : Nat) (act : LexAct),
    bestRule syn s rules best = some (n, act) →
    best = some (n, act) ∨ ∃ r ∈ rules, r.act = act ∧ matchPat syn s r.pat = some n := by
  intro rules
  induction rules with
  | nil => intro best n act h; left; simpa [bestRule] using h
  | cons r rs ih =>
    intro best n act h
    simp only [bestRule] at h
    cases hm : matchPat syn s r.pat with
    | none =>
      rw [hm] at h
      rcases ih best n act (by simpa using h) with h' | ⟨r', hr', ha, hp⟩
      · exact Or.inl h'
      · exact Or.inr ⟨r', List.mem_cons_of_mem _ hr', ha, hp⟩
    | some k =>
      rw [hm] at h
      cases best with
      | none =>
        rcases ih _ n act (by simpa using h) with h' | ⟨r', hr', ha, hp⟩
        · simp at h'; exact Or.inr ⟨r, by simp, h'.2, by rw [hm, h'.1]⟩
        · exact Or.inr ⟨r', List.mem_cons_of_mem _ hr', ha, hp⟩
      | some b =>
        obtain ⟨m, a⟩ := b
        simp only at h
        split at h
        · rcases ih _ n act h with h' | ⟨r', hr', ha, hp⟩
          · simp at h'; exact Or.inr ⟨r, by simp, h'.2, by rw [hm, h'.1]⟩
          · exact Or.inr ⟨r', List.mem_cons_of_mem _ hr', ha, hp⟩
        · rcases ih _ n act h with h' | ⟨r', hr', ha, hp⟩
          · exact Or.inl h'
          · exact Or.inr ⟨r', List.mem_cons_of_mem _ hr', ha, hp⟩

/-- a candidate is never lost -/
theorem bestRule_some_of_best (syn : Syn) (s : List Nat) : ∀ (rules : List LexRule) (b : Nat × LexAct),
    ∃ x, bestRule syn s rules (some b) = some x
  | [], b => ⟨b, by simp [bestRule]⟩
  | r :: rs, (m, a) => by
    simp only [bestRule]
    cases matchPat syn s r.pat with
    | none => exact bestRule_some_of_best syn s rs _
    | some n => simp only []; split <;> exact bestRule_some_of_best syn s rs _

/-- no candidate at the end means that no rule matched -/
theorem bestRule_none (syn : Syn) (s : List Nat) : ∀ (rules : List LexRule),
    bestRule syn s rules none = none → ∀ r ∈ rules, matchPat syn s r.pat = none
  | [], _, r, hr => by simp at hr
  | r0 :: rs, h, r, hr => by
    simp only [bestRule] at h
    cases hm : matchPat syn s r0.pat with
    | none =>
      rw [hm] at h
      rcases List.mem_cons.1 hr with rfl | hr
      · exact hm
      · exact bestRule_none syn s rs (by simpa using h) r hr
    | some n =>
      rw [hm] at h
      obtain ⟨x, hx⟩ := bestRule_some_of_best syn s rs (n, r0.act)
      simp only [] at h
      rw [hx] at h; cases h

theorem bestRule_none_of_nomatch (syn : Syn) (s : List Nat) : ∀ (rules : List LexRule),
    (∀ r ∈ rules, matchPat syn s r.pat = none) → bestRule syn s rules none = none
  | [], _ => by simp [bestRule]
  | r0 :: rs, h => by
    simp only [bestRule]
    rw [h r0 (by simp)]
    exact bestRule_none_of_nomatch syn s rs fun r hr => h r (by simp [hr])

/-! ## facts about the two generated rule tables (re-proved against the current `.l` files) -/

theorem rules_split (syn : Syn) : rulesOf syn = properRules syn ++ [⟨.any, .tok .INTERRUPT⟩] := by
  cases syn <;> rfl

theorem rules_table_facts : ∀ syn ∈ [Syn.math, .ascii],
    (∀ r ∈ properRules syn, r.act ≠ .tok .INTERRUPT ∧ r.pat ≠ .any) ∧
    (∀ r ∈ rulesOf syn, r.act = .tok .END → r.pat = .eof) ∧
    (∀ r ∈ rulesOf syn, r.act = .newline → r.pat = .newline) ∧
    (∀ r ∈ rulesOf syn, r.act = .skip → r.pat = .blanks ∨ (r.pat = .ws ∧ syn = .ascii)) ∧
    eofTok (rulesOf syn) = some .END ∧
    (⟨.newline, .newline⟩ ∈ properRules syn ∨ ⟨.ws, .skip⟩ ∈ properRules syn) := by
  decide +kernel

/-! ## one scanning step -/

/-- what is known about the winner `(n, act)` of one scanning step at a non-empty text `s` -/
structure StepFacts (syn : Syn) (s : List Nat) (n : Nat) (act : LexAct) : Prop where
  pos : 1 ≤ n
  le : n ≤ s.length
  interrupt : act = .tok .INTERRUPT ↔ NoRuleAt syn s
  interrupt_one : act = .tok .INTERRUPT → n = 1
  notEnd : act ≠ .tok .END
  skip : act = .skip ∨ act = .newline → ∀ c ∈ s.take n, isSkipped syn c = true
  newline : act = .newline → n = 1

theorem mem_proper_rules {syn : Syn} {r : LexRule} (h : r ∈ properRules syn) : r ∈ rulesOf syn := by
  rw [rules_split]; exact List.mem_append_left _ h

/-- at a non-empty text some rule always wins (the catch-all `.` or, at a line feed, the newline /
whitespace rule), with the facts above -/
theorem step_facts (syn : Syn) (c : Nat) (r : List Nat) :
    ∃ n act, bestRule syn (c :: r) (rulesOf syn) none = some (n, act) ∧ StepFacts syn (c :: r) n act := by
  have hs : syn ∈ [Syn.math, .ascii] := by cases syn <;> simp
  obtain ⟨hP, hEnd, hNl, hSk, _, hLf⟩ := rules_table_facts syn hs
  rw [rules_split, bestRule_append]
  cases hb : bestRule syn (c :: r) (properRules syn) none with
  | none =>
    have hno : NoRuleAt syn (c :: r) := bestRule_none syn (c :: r) (properRules syn) hb
    have hc : c ≠ 10 := by
      rintro rfl
      rcases hLf with h | h
      · have := hno _ h; simp [matchPat] at this
      · have := hno _ h; simp [matchPat, spanLen] at this
    refine ⟨1, .tok .INTERRUPT, by simp [bestRule, matchPat, hc], ?_⟩
    exact ⟨Nat.le_refl _, by simp, by simp [hno], fun _ => rfl, by simp, by simp, by simp⟩
  | some ma =>
    obtain ⟨m, a⟩ := ma
    rcases bestRule_origin syn (c :: r) (properRules syn) none m a hb with h | ⟨r', hr', ha, hm⟩
    · cases h
    · obtain ⟨h1, h2⟩ := matchPat_bounds syn (c :: r) r'.pat m hm
      have hres : bestRule syn (c :: r) [⟨.any, .tok .INTERRUPT⟩] (some (m, a)) = some (m, a) := by
        have hm1 : ¬ m < 1 := by omega
        by_cases hc : c = 10
        · simp [bestRule, matchPat, hc]
        · simp [bestRule, matchPat, hc, hm1]
      refine ⟨m, a, hres, ?_⟩
      have hr'' := mem_proper_rules hr'
      refine ⟨h1, h2, ?_, ?_, ?_, ?_, ?_⟩
      · constructor
        · intro h; rw [← ha] at h; exact absurd h (hP r' hr').1
        · intro h; have := h r' hr'; rw [hm] at this; cases this
      · intro h; rw [← ha] at h; exact absurd h (hP r' hr').1
      · intro h; rw [← ha] at h
        have := hEnd r' hr'' h; rw [this] at hm; simp [matchPat] at hm
      · rintro (h | h)
        · rw [← ha] at h
          rcases hSk r' hr'' h with hp | hp
          · exact matchPat_skipped syn _ _ _ (Or.inr (Or.inl hp)) hm
          · exact matchPat_skipped syn _ _ _ (Or.inr (Or.inr hp)) hm
        · rw [← ha] at h
          exact matchPat_skipped syn _ _ _ (Or.inl (hNl r' hr'' h)) hm
      · intro h; rw [← ha] at h
        have := hNl r' hr'' h; rw [this] at hm
        simp only [matchPat] at hm
        split at hm <;> simp at hm
        omega

/-! ## the scanning loop tiles the text -/

theorem tiled_skip_many (syn : Syn) : ∀ (m s : List Nat) (off : Nat) (ts : List RawTok),
    (∀ c ∈ m, isSkipped syn c = true) → Tiled syn (off + m.length) s ts → Tiled syn off (m ++ s) ts
  | [], s, off, ts, _, h => by simpa using h
  | c :: m, s, off, ts, hm, h => by
    refine Tiled.skip off c (m ++ s) ts (hm c (by simp)) ?_
    refine tiled_skip_many syn m s (off + 1) ts (fun x hx => hm x (by simp [hx])) ?_
    have : off + 1 + m.length = off + (c :: m).length := by simp only [List.length_cons]; omega
    rw [this]; exact h

/-- **totality and position bookkeeping of the scanning loop**: with fuel above the number of units
`lexGo` returns a token list, and that list tiles the text from offset `lineBase + col` -/
theorem lexGo_tiled (syn : Syn) : ∀ (fuel : Nat) (s : List Nat) (lb col : Nat), s.length < fuel →
    ∃ ts, lexGo syn (rulesOf syn) fuel s lb col = some ts ∧ Tiled syn (lb + col) s ts := by
  have hs : syn ∈ [Syn.math, .ascii] := by cases syn <;> simp
  obtain ⟨_, _, _, _, hEof, _⟩ := rules_table_facts syn hs
  intro fuel
  induction fuel with
  | zero => intro s lb col h; omega
  | succ fuel ih =>
    intro s lb col hlen
    cases s with
    | nil => exact ⟨_, by simp [lexGo, hEof], Tiled.eof _⟩
    | cons c r =>
      obtain ⟨n, act, hb, hf⟩ := step_facts syn c r
      obtain ⟨n, rfl⟩ : ∃ k, n = k + 1 := ⟨n - 1, by have := hf.pos; omega⟩
      have hle := hf.le
      have hdrop : ((c :: r).drop (n + 1)).length < fuel := by
        simp only [List.length_drop]; simp only [List.length_cons] at hlen hle ⊢; omega
      have htl : ((c :: r).take (n + 1)).length = n + 1 := by
        simp only [List.length_take]; omega
      simp only [lexGo, hb]
      cases act with
      | tok t =>
        obtain ⟨rest, hr, ht⟩ := ih ((c :: r).drop (n + 1)) lb (col + (n + 1)) hdrop
        refine ⟨⟨t, lb + col, lb + col + width syn ((c :: r).take (n + 1)), (c :: r).take (n + 1)⟩ :: rest,
          by simp only [hr], ?_⟩
        have hne : (c :: r).take (n + 1) ≠ [] := by
          intro h0; rw [h0] at htl; simp at htl
        have key := Tiled.tok (syn := syn) (lb + col) t ((c :: r).take (n + 1)) ((c :: r).drop (n + 1)) rest hne
          (by intro h; exact hf.notEnd (by rw [h]))
          (by
            rw [List.take_append_drop]
            constructor
            · intro h; exact hf.interrupt.1 (by rw [h])
            · intro h; have := hf.interrupt.2 h; injection this)
          (by intro h; rw [htl]; exact hf.interrupt_one (by rw [h]))
          (by rw [htl]; rw [Nat.add_assoc]; exact ht)
        rw [List.take_append_drop] at key
        exact key
      | skip =>
        obtain ⟨rest, hr, ht⟩ := ih ((c :: r).drop (n + 1)) lb (col + (n + 1)) hdrop
        refine ⟨rest, hr, ?_⟩
        have key := tiled_skip_many syn ((c :: r).take (n + 1)) ((c :: r).drop (n + 1)) (lb + col) rest
          (hf.skip (Or.inl rfl)) (by rw [htl, Nat.add_assoc]; exact ht)
        rw [List.take_append_drop] at key
        exact key
      | newline =>
        obtain ⟨rest, hr, ht⟩ := ih ((c :: r).drop (n + 1)) (lb + (col + 1)) 0 hdrop
        refine ⟨rest, hr, ?_⟩
        have hn1 := hf.newline rfl
        have key := tiled_skip_many syn ((c :: r).take (n + 1)) ((c :: r).drop (n + 1)) (lb + col) rest
          (hf.skip (Or.inr rfl)) (by
            rw [htl]
            have : lb + col + (n + 1) = lb + (col + 1) + 0 := by omega
            rw [this]; exact ht)
        rw [List.take_append_drop] at key
        exact key

/-! ## consequences of a tiling -/

theorem width_le (syn : Syn) (m : List Nat) : width syn m ≤ m.length := by
  cases syn
  · simp only [width]; exact List.length_filter_le _ _
  · simp [width]

/-- every token lies between the offset of the text and its end -/
theorem tiled_bounds {syn : Syn} {off : Nat} {s : List Nat} {ts : List RawTok} (h : Tiled syn off s ts) :
    ∀ t ∈ ts, off ≤ t.lo ∧ t.lo ≤ t.hi ∧ t.hi ≤ off + s.length ∧ t.lo + t.text.length ≤ off + s.length := by
  induction h with
  | eof off => intro t ht; simp at ht; subst ht; simp
  | skip off c s ts _ _ ih =>
    intro t ht
    have := ih t ht
    simp only [List.length_cons]; omega
  | tok off id m s ts _ _ _ _ _ ih =>
    intro t ht
    have hw := width_le syn m
    rcases List.mem_cons.1 ht with rfl | ht
    · simp only [List.length_append]; omega
    · have := ih t ht
      simp only [List.length_append]; omega

/-- tokens are ordered and do not overlap: a later token starts at or after the end of an earlier one
(both its `hi` and the end of its text) -/
theorem tiled_ordered {syn : Syn} {off : Nat} {s : List Nat} {ts : List RawTok} (h : Tiled syn off s ts) :
    ts.Pairwise fun a b => a.hi ≤ b.lo ∧ a.lo + a.text.length ≤ b.lo := by
  induction h with
  | eof off => simp
  | skip off c s ts _ _ ih => exact ih
  | tok off id m s ts _ _ _ _ hrest ih =>
    refine List.pairwise_cons.2 ⟨fun b hb => ?_, ih⟩
    have := (tiled_bounds hrest b hb).1
    have hw := width_le syn m
    show off + width syn m ≤ b.lo ∧ off + m.length ≤ b.lo
    omega

/-- a unit of the text that lies in no token is skipped material -/
theorem tiled_uncovered {syn : Syn} {off : Nat} {s : List Nat} {ts : List RawTok} (h : Tiled syn off s ts) :
    ∀ (i c : Nat), s[i]? = some c → (∀ t ∈ ts, ¬ (t.lo ≤ off + i ∧ off + i < t.lo + t.text.length)) →
      isSkipped syn c = true := by
  induction h with
  | eof off => intro i c hc; simp at hc
  | skip off c0 s ts hsk _ ih =>
    intro i c hc hun
    cases i with
    | zero => simp at hc; subst hc; exact hsk
    | succ j =>
      simp only [List.getElem?_cons_succ] at hc
      refine ih j c hc fun t ht hcov => hun t ht ?_
      omega
  | tok off id m s ts hm _ _ _ _ ih =>
    intro i c hc hun
    by_cases hi : i < m.length
    · exact absurd ⟨Nat.le_add_right _ _, by show off + i < off + m.length; omega⟩
        (hun ⟨id, off, off + width syn m, m⟩ (by simp))
    · have hj : i = m.length + (i - m.length) := by omega
      rw [hj, List.getElem?_append_right (by omega)] at hc
      simp only [Nat.add_sub_cancel_left] at hc
      refine ih (i - m.length) c hc fun t ht hcov => hun t (List.mem_cons_of_mem _ ht) ?_
      omega

/-- the token list ends with END at the end of the text, and END occurs nowhere else -/
theorem tiled_end {syn : Syn} {off : Nat} {s : List Nat} {ts : List RawTok} (h : Tiled syn off s ts) :
    ∃ pre, ts = pre ++ [⟨.END, off + s.length, off + s.length, []⟩] ∧ ∀ t ∈ pre, t.id ≠ .END := by
  induction h with
  | eof off => exact ⟨[], by simp, by simp⟩
  | skip off c s ts _ _ ih =>
    obtain ⟨pre, h1, h2⟩ := ih
    refine ⟨pre, ?_, h2⟩
    rw [h1]; simp only [List.length_cons]
    have : off + 1 + s.length = off + (s.length + 1) := by omega
    rw [this]
  | tok off id m s ts _ hid _ _ _ ih =>
    obtain ⟨pre, h1, h2⟩ := ih
    refine ⟨⟨id, off, off + width syn m, m⟩ :: pre, ?_, ?_⟩
    · rw [h1]; simp only [List.length_append, List.cons_append]
      have : off + m.length + s.length = off + (m.length + s.length) := by omega
      rw [this]
    · intro t ht
      rcases List.mem_cons.1 ht with rfl | ht
      · exact hid
      · exact h2 t ht

/-- every token's text sits at its `lo`, `hi = lo + columns(text)`, and the token is INTERRUPT exactly
when its first unit is an unknown symbol (then the token is that one unit) -/
theorem tiled_tokens {syn : Syn} {off : Nat} {s : List Nat} {ts : List RawTok} (h : Tiled syn off s ts) :
    ∀ t ∈ ts, t.id ≠ .END →
      t.text ≠ [] ∧ (s.drop (t.lo - off)).take t.text.length = t.text ∧ t.hi = t.lo + width syn t.text ∧
      (t.id = .INTERRUPT ↔ NoRuleAt syn (s.drop (t.lo - off))) ∧ (t.id = .INTERRUPT → t.text.length = 1) := by
  induction h with
  | eof off => intro t ht hne; simp at ht; subst ht; simp at hne
  | skip off c s ts _ hrest ih =>
    intro t ht hne
    have hb := (tiled_bounds hrest t ht).1
    have := ih t ht hne
    have e : t.lo - off = (t.lo - (off + 1)) + 1 := by omega
    rw [e, List.drop_succ_cons]
    exact this
  | tok off id m s ts hm _ hiff hone hrest ih =>
    intro t ht hne
    rcases List.mem_cons.1 ht with rfl | ht
    · simp only [Nat.sub_self, List.drop_zero, List.take_left']
      exact ⟨hm, trivial, trivial, hiff, hone⟩
    · have hb := (tiled_bounds hrest t ht).1
      have := ih t ht hne
      have e : t.lo - off = m.length + (t.lo - (off + m.length)) := by omega
      rw [e, ← List.drop_drop, List.drop_left' rfl]
      exact this

end CCVerif.Analysis
