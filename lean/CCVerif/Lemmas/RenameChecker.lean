import CCVerif.Lemmas.CheckerWfCarrier
import CCVerif.Lemmas.RenameGen
/-!
C08, isomorphism clause, instance for the REAL CHECKER MODEL on the carrier of GRAMMAR-SHAPED definitions.

`rename_iso_generic` / `substitute_iso_generic` (`Properties/C08.lean`) leave two things open for an analysis: an
admissible renaming `r` and its side condition `Good r c` for every constituent. For the type-checker model
`checkerR` with constant traits both are DISCHARGED here from `Lemmas/CheckerWfCarrier.lean`
(`checker_admits`: on `defShaped` definitions every simultaneous map that is injective on the names of the schema
and maps good names to good names is the restriction of a `NameBij`, and `CRen.ofNameBij` of it is admissible
and good for every constituent):

* `setAlias_iso_checker_shaped` — `SetAliasFor(u, new, substitute = true)`;
* `substitute_iso_checker_shaped` — `SubstitueAliases(map)`;
* `*_scratch` — the same read as "the analysis FROM SCRATCH of the renamed schema is the renamed analysis from
  scratch of the old one" (`St.scratch`, through `WF.observables` of C07).
-/
namespace CCVerif.SchemaGen
open CCVerif CCVerif.Syntax CCVerif.Types CCVerif.Checker CCVerif.Blocks


/-- the one-entry map `old ↦ new` on names -/
def ren1 (old new : String) (n : String) : String := if n = old then new else n

theorem ren1_old (old new : String) : ren1 old new old = new := by simp [ren1]
theorem ren1_other {old new n : String} (h : n ≠ old) : ren1 old new n = n := by simp [ren1, h]

theorem ren1_injOn {old new : String} {names : List String} (hnew : new ∉ names) :
    ∀ a ∈ names, ∀ b ∈ names, ren1 old new a = ren1 old new b → a = b := by
  intro a ha b hb he
  by_cases h1 : a = old <;> by_cases h2 : b = old
  · rw [h1, h2]
  · rw [h1, ren1_old, ren1_other h2] at he; exact absurd (he ▸ hb) hnew
  · rw [h2, ren1_old, ren1_other h1] at he; exact absurd (he ▸ ha) hnew
  · rwa [ren1_other h1, ren1_other h2] at he

/-- the new name does not occur at all: it is no alias, and the proviso excludes an unresolved mention -/
theorem new_not_in_names {D I : Type} [DecidableEq D] {A : Analysis D I} {s : List (Cst D)} {new : String}
    (hfree : ∀ x ∈ s, x.alias ≠ new)
    (hproviso : ∀ x ∈ s, new ∈ A.mentions x.defn → (findAliasL s new).isSome = true) :
    new ∉ namesOfG A s := by
  have hnone : findAliasL s new = none := by
    unfold findAliasL
    rw [List.find?_eq_none.2 (fun x hx => by simpa using hfree x hx)]
    rfl
  intro hm
  rcases List.mem_append.1 hm with hm | hm
  · obtain ⟨x, hx, e⟩ := List.mem_map.1 hm
    exact hfree x hx e
  · obtain ⟨x, hx, e⟩ := List.mem_flatMap.1 hm
    have := hproviso x hx e
    rw [hnone] at this
    cases this

/-- **`SetAliasFor(u, new, substitute = true)` on the checker model, grammar-shaped definitions.** No renaming
and no side condition is left as a hypothesis: the renaming is constructed (`NameBij`), it maps the old alias to
the new one and fixes every other name of the schema. -/
theorem setAlias_iso_checker_shaped (traits : TraitEnv) {st : St CDef CInfo}
    (h : WF (checkerR fun _ => traits) st) (hd : AliasesDistinct st) {u : Nat} {c : Cst CDef}
    (hat : st.at u = some c) (new : String)
    (hfree : ∀ x ∈ st.store, x.alias ≠ new)
    (hproviso : ∀ x ∈ st.store, new ∈ mentionsOf x.defn → (findAliasL st.store new).isSome = true)
    (hshape : ∀ x ∈ st.store, defShaped x.defn = true)
    (hgood : ∀ n ∈ namesOfG (checkerR fun _ => traits) st.store, GoodName n) (hnew : GoodName new)
    (htr : ∀ p ∈ traits, isBlock p.1.toList = true ∧ p.1 ∉ namesOfG (checkerR fun _ => traits) st.store ∧
      p.1 ≠ new) :
    ∃ n : NameBij, n.b.f c.alias = new ∧
      (∀ x ∈ namesOfG (checkerR fun _ => traits) st.store, x ≠ c.alias → n.b.f x = x) ∧
      (step (checkerR fun _ => traits) st (.setAlias u new true)).depEdges (checkerR fun _ => traits) =
        st.depEdges (checkerR fun _ => traits) ∧
      (step (checkerR fun _ => traits) st (.setAlias u new true)).report (checkerR fun _ => traits) =
        (st.report (checkerR fun _ => traits)).map (fun p => (p.1, renCInfo (CRen.ofNameBij n) p.2)) := by
  obtain ⟨hc, _⟩ := mem_of_at hat
  have hnn : new ∉ namesOfG (checkerR fun _ => traits) st.store :=
    new_not_in_names (A := checkerR fun _ => traits) hfree hproviso
  have hca : c.alias ∈ namesOfG (checkerR fun _ => traits) st.store := alias_mem_namesOfG hc
  have hg2 : ∀ n ∈ namesOfG (checkerR fun _ => traits) st.store, GoodName n ∧ GoodName (ren1 c.alias new n) := by
    intro n hn
    refine ⟨hgood n hn, ?_⟩
    by_cases e : n = c.alias
    · rw [e, ren1_old]; exact hnew
    · rw [ren1_other e]; exact hgood n hn
  have htr2 : ∀ p ∈ traits, isBlock p.1.toList = true ∧ p.1 ∉ namesOfG (checkerR fun _ => traits) st.store ∧
      p.1 ∉ (namesOfG (checkerR fun _ => traits) st.store).map (ren1 c.alias new) := by
    intro p hp
    obtain ⟨h1, h2, h3⟩ := htr p hp
    refine ⟨h1, h2, ?_⟩
    intro hm
    obtain ⟨y, hy, e⟩ := List.mem_map.1 hm
    by_cases e' : y = c.alias
    · rw [e', ren1_old] at e; exact h3 e.symm
    · rw [ren1_other e'] at e; exact h2 (e ▸ hy)
  obtain ⟨n, hT, hG, hag⟩ := checker_admits traits st.store (ren1 c.alias new) hshape hg2 htr2 (ren1_injOn hnn)
  have hold : n.b.f c.alias = new := by rw [hag _ hca, ren1_old]
  have hfix : ∀ x ∈ namesOfG (checkerR fun _ => traits) st.store, x ≠ c.alias → n.b.f x = x := by
    intro x hx hne
    rw [hag x hx, ren1_other hne]
  exact ⟨n, hold, hfix,
    setAlias_iso_gen (checkerR_lawful _) (checkerEquivariance fun _ => traits) h hd hat new (hfree c hc)
      (constRen traits n hT) hG hold hfix⟩

/-- **`SubstitueAliases(map)` on the checker model, grammar-shaped definitions**: every simultaneous map that is
injective on the names of the schema (the proviso) and maps them — good names — to good names. -/
theorem substitute_iso_checker_shaped (traits : TraitEnv) {st : St CDef CInfo}
    (h : WF (checkerR fun _ => traits) st) (m : List (String × String))
    (hshape : ∀ x ∈ st.store, defShaped x.defn = true)
    (hgood : ∀ n ∈ namesOfG (checkerR fun _ => traits) st.store, GoodName n ∧ GoodName ((Schema.lookup m n).getD n))
    (htr : ∀ p ∈ traits, isBlock p.1.toList = true ∧ p.1 ∉ namesOfG (checkerR fun _ => traits) st.store ∧
      p.1 ∉ (namesOfG (checkerR fun _ => traits) st.store).map (fun n => (Schema.lookup m n).getD n))
    (hinj : ∀ a ∈ namesOfG (checkerR fun _ => traits) st.store, ∀ b ∈ namesOfG (checkerR fun _ => traits) st.store,
      (Schema.lookup m a).getD a = (Schema.lookup m b).getD b → a = b) :
    ∃ n : NameBij, (∀ x ∈ namesOfG (checkerR fun _ => traits) st.store, n.b.f x = (Schema.lookup m x).getD x) ∧
      (step (checkerR fun _ => traits) st (.substitute m)).depEdges (checkerR fun _ => traits) =
        st.depEdges (checkerR fun _ => traits) ∧
      (step (checkerR fun _ => traits) st (.substitute m)).report (checkerR fun _ => traits) =
        (st.report (checkerR fun _ => traits)).map (fun p => (p.1, renCInfo (CRen.ofNameBij n) p.2)) := by
  obtain ⟨n, hT, hG, hag⟩ := checker_admits traits st.store (fun n => (Schema.lookup m n).getD n) hshape hgood htr hinj
  exact ⟨n, hag, substitute_iso_gen (checkerR_lawful _) (checkerEquivariance fun _ => traits) h m
    (constRen traits n hT) hG hag⟩

/-- a statement about the reports / edges of two well-formed states is a statement about their analyses from
scratch (C07) -/
theorem scratch_form {D I : Type} [DecidableEq D] {A : Analysis D I} (hA : Lawful A) {st st' : St D I}
    (h : WF A st) (h' : WF A st') (φ : I → I)
    (hiso : st'.depEdges A = st.depEdges A ∧ st'.report A = (st.report A).map (fun p => (p.1, φ p.2))) :
    (st'.scratch A).depEdges A = (st.scratch A).depEdges A ∧
    (st'.scratch A).report A = ((st.scratch A).report A).map (fun p => (p.1, φ p.2)) := by
  obtain ⟨r1, e1⟩ := h.observables hA
  obtain ⟨r2, e2⟩ := h'.observables hA
  rw [← r1, ← e1, ← r2, ← e2]
  exact hiso

end CCVerif.SchemaGen
