import CCVerif.Lemmas.EvalFuelCollect
import CCVerif.Lemmas.NameBij
import CCVerif.Lemmas.TokBEq
/-!
The evaluator model (`Model/Eval.lean`: `NameCollector` + `ASTInterpreter`) under a BIJECTIVE renaming of the
spellings of ALL identifier tokens (local and global) of the tree, the keys of the slot table and the keys of the
data context renamed alike (C11, the evaluator half of the equivariance).

* `renAll g` — the tree with the text of every `ID_LOCAL / ID_GLOBAL / ID_FUNCTION / ID_PREDICATE` token mapped;
* `collect_ren` — the name collector: same slots, same data, the keys of `idsBase` mapped;
* `varsOf_ren`, `ev_ren` — the interpreter over the mapped slot table gives the SAME outcome (value, error,
  position, iteration counter): values are compared by content, never by spelling;
* `evalNorm_ren` — `ASTInterpreter::Evaluate` on a normalised tree.
-/
namespace CCVerif.Eval
open CCVerif CCVerif.Syntax CCVerif.Norm

/-- the identifier tokens: the ones `NameCollector` keys by their spelling -/
def isIdTok (t : Tok) : Bool := t == .ID_LOCAL || t == .ID_GLOBAL || t == .ID_FUNCTION || t == .ID_PREDICATE

def renDataAll (g : String → String) (id : Tok) (d : TokData) : TokData :=
  if isIdTok id then (match d with | .text s => .text (g s) | d => d) else d

mutual
/-- the tree with every identifier token (local or global) renamed -/
def renAll (g : String → String) : Ast → Ast
  | .node id d lo hi ks => .node id (renDataAll g id d) lo hi (renAllL g ks)
def renAllL (g : String → String) : List Ast → List Ast
  | [] => []
  | k :: ks => renAll g k :: renAllL g ks
end

theorem renAllL_eq_map (g : String → String) : ∀ ks : List Ast, renAllL g ks = ks.map (renAll g)
  | [] => rfl
  | k :: ks => by rw [renAllL, List.map_cons, renAllL_eq_map g ks]

section basic
variable (g : String → String)
@[simp] theorem renAll_id (a : Ast) : (renAll g a).id = a.id := by cases a; rfl
@[simp] theorem renAll_lo (a : Ast) : (renAll g a).lo = a.lo := by cases a; rfl
@[simp] theorem renAll_hi (a : Ast) : (renAll g a).hi = a.hi := by cases a; rfl
theorem renAll_kids (a : Ast) : (renAll g a).kids = a.kids.map (renAll g) := by
  cases a; simp only [renAll, Ast.kids]; exact renAllL_eq_map g _
theorem renAll_node (t : Tok) (d : TokData) (lo hi : Int) (ks : List Ast) :
    renAll g (.node t d lo hi ks) = .node t (renDataAll g t d) lo hi (ks.map (renAll g)) := by
  rw [renAll, renAllL_eq_map]
theorem renDataAll_not {t : Tok} (h : isIdTok t = false) (d : TokData) : renDataAll g t d = d := by
  unfold renDataAll; rw [h]; rfl
theorem renAll_data_not (a : Ast) (h : isIdTok a.id = false) : (renAll g a).data = a.data := by
  cases a with
  | node t d lo hi ks => exact renDataAll_not g h d
theorem textOf_renAll (h0 : g "" = "") (a : Ast) (h : isIdTok a.id = true) :
    textOf (renAll g a) = g (textOf a) := by
  cases a with
  | node t d lo hi ks =>
    have h' : isIdTok t = true := h
    simp only [textOf, renAll, Ast.data, renDataAll, h', if_true]
    cases d <;> simp [h0]
end basic

/-! ## the tables -/

def renIds (g : String → String) (ids : List (String × Nat)) : List (String × Nat) := ids.map fun p => (g p.1, p.2)

theorem lookup_renIds {α : Type} (b : Bij) (k : String) : ∀ l : List (String × α),
    lookup (b.f k) (l.map fun p => (b.f p.1, p.2)) = lookup k l
  | [] => rfl
  | (k', x) :: rest => by
    show (if b.f k == b.f k' then some x else lookup (b.f k) (rest.map fun p => (b.f p.1, p.2))) = _
    rw [b.beq, lookup_renIds b k rest]
    rfl

def renNC (g : String → String) (nc : NC) : NC := { ids := renIds g nc.ids, data := nc.data }

def renCRes (g : String → String) : CRes → CRes
  | .ok vs al nc => .ok vs al (renNC g nc)
  | .fail f => .fail f

theorem foldl_map_sim {A B : Type} (φ : B → B) (f f' : B → A → B) (m : A → A) : ∀ (l : List A) (b : B),
    (∀ b, ∀ k ∈ l, f' (φ b) (m k) = φ (f b k)) → (l.map m).foldl f' (φ b) = φ (l.foldl f b)
  | [], _, _ => rfl
  | k :: ks, b, h => by
    rw [List.map_cons, List.foldl_cons, List.foldl_cons, h b k (List.mem_cons_self ..)]
    exact foldl_map_sim φ f f' m ks _ (fun b k' hk' => h b k' (List.mem_cons_of_mem _ hk'))

section collect
variable (b : Bij) (h0 : b.f "" = "") {env env' : Env}
  (henv : ∀ k, lookup (b.f k) env'.globals = lookup k env.globals)
  {rec rec' : Ast → NC → CRes}

theorem mergeK_ren (ks : List Ast) (nc : NC)
    (hrec : ∀ k ∈ ks, ∀ nc, rec' (renAll b.f k) (renNC b.f nc) = renCRes b.f (rec k nc)) :
    mergeK rec' (ks.map (renAll b.f)) (renNC b.f nc) = renCRes b.f (mergeK rec ks nc) := by
  unfold mergeK
  refine foldl_map_sim (renCRes b.f) _ _ _ ks (.ok [] false nc) ?_
  intro acc k hk
  cases acc with
  | fail f => rfl
  | ok vars al nc1 =>
    simp only [renCRes]
    rw [hrec k hk]
    cases rec k nc1 <;> rfl

theorem blocksK_ren (bs : List Ast) (init : CRes)
    (hrec : ∀ k ∈ bs, ∀ d ∈ k.kids, ∀ nc, rec' (renAll b.f d) (renNC b.f nc) = renCRes b.f (rec d nc)) :
    blocksK rec' (bs.map (renAll b.f)) (renCRes b.f init) = renCRes b.f (blocksK rec bs init) := by
  unfold blocksK
  refine foldl_map_sim (renCRes b.f) _ _ _ bs init ?_
  intro acc k hk
  cases acc with
  | fail f => rfl
  | ok vars al nc1 =>
    simp only [renCRes, renAll_id, renAll_kids, List.head?_map]
    split
    · cases hd : k.kids.head? with
      | none => rfl
      | some d =>
        simp only [Option.map_some]
        rw [hrec k hk d (List.mem_of_mem_head? hd)]
        cases hr : rec d nc1 with
        | fail f => rfl
        | ok vs al' nc' => cases vs <;> rfl
    · rfl

include h0 henv in
theorem collectCore_ren (a : Ast) (nc : NC)
    (hrec : ∀ k nc, rec' (renAll b.f k) (renNC b.f nc) = renCRes b.f (rec k nc)) :
    collectCore env' rec' (renAll b.f a) (renNC b.f nc) = renCRes b.f (collectCore env rec a nc) := by
  have hm : ∀ nc, mergeK rec' (renAll b.f a).kids (renNC b.f nc) = renCRes b.f (mergeK rec a.kids nc) := by
    intro nc; rw [renAll_kids]; exact mergeK_ren b a.kids nc (fun k _ nc => hrec k nc)
  simp only [collectCore, renAll_id, renAll_lo, hm]
  split
  · -- `ViGlobalDeclaration`
    split
    · rfl
    · rw [renAll_kids]
      cases hk : a.kids with
      | nil => rfl
      | cons k0 rest =>
        simp only [List.map_cons, renAll_id]
        split
        · cases rest with
          | nil => rfl
          | cons k1 rest' =>
            cases rest' with
            | nil =>
              simp only [List.map_cons, List.map_nil]
              rw [hrec]
              cases rec k1 nc <;> rfl
            | cons _ _ => rfl
        · rfl
  · split
    · -- `ViGlobal`
      rename_i hd ht
      have hid : isIdTok a.id = true := by
        unfold isIdTok
        simp only [Bool.or_eq_true] at ht ⊢
        rcases ht with (h | h) | h
        · exact Or.inl (Or.inl (Or.inr h))
        · exact Or.inl (Or.inr h)
        · exact Or.inr h
      rw [textOf_renAll b.f h0 a hid]
      show (match lookup (b.f (textOf a)) (renIds b.f nc.ids) with | some id => _ | none => _) = _
      unfold renIds
      rw [lookup_renIds, henv]
      cases lookup (textOf a) nc.ids with
      | some id => rfl
      | none =>
        simp only
        cases lookup (textOf a) env.globals with
        | none => rfl
        | some v =>
          simp only [renCRes, renNC, renIds, List.map_append, List.map_cons, List.map_nil]
    · split
      · -- `ViLocal`
        rename_i hd ht hl
        have hid : isIdTok a.id = true := by
          unfold isIdTok
          simp only [Bool.or_eq_true]
          exact Or.inl (Or.inl (Or.inl hl))
        rw [textOf_renAll b.f h0 a hid]
        show (match lookup (b.f (textOf a)) (renIds b.f nc.ids) with | some id => _ | none => _) = _
        unfold renIds
        rw [lookup_renIds]
        cases lookup (textOf a) nc.ids with
        | some id => rfl
        | none => simp only [renCRes, renNC, renIds, List.map_append, List.map_cons, List.map_nil]
      · split
        · -- binders
          cases mergeK rec a.kids nc with
          | fail f => rfl
          | ok vars alloc nc' =>
            simp only [renCRes, renAll_kids, List.head?_map]
            cases hh : a.kids.head? with
            | none => rfl
            | some k0 =>
              simp only [Option.map_some]
              rw [hrec]
              cases rec k0 nc' with
              | fail f => rfl
              | ok vs al nc'' =>
                cases vs with
                | nil => cases al <;> rfl
                | cons _ _ => rfl
        · split
          · -- `ViImperative`
            cases hmm : mergeK rec a.kids nc with
            | fail f => rfl
            | ok vars alloc nc' =>
              simp only [renCRes, renAll_kids]
              cases hk : a.kids with
              | nil => rfl
              | cons k0 blocks =>
                cases blocks with
                | nil => rfl
                | cons b1 bs =>
                  simp only [List.map_cons]
                  have := blocksK_ren b (rec := rec) (rec' := rec') (b1 :: bs) (.ok vars alloc nc')
                    (fun k _ d _ nc => hrec d nc)
                  simp only [List.map_cons, renCRes] at this
                  exact this
          · rfl

include h0 henv in
theorem collect_ren : ∀ (fuel : Nat) (a : Ast) (nc : NC),
    collect env' fuel (renAll b.f a) (renNC b.f nc) = renCRes b.f (collect env fuel a nc)
  | 0, _, _ => rfl
  | fuel + 1, a, nc => by
    rw [collect_succ, collect_succ]
    exact collectCore_ren b h0 henv a nc (fun k nc => collect_ren fuel k nc)

end collect

/-! ## the interpreter -/

section interp
variable (b : Bij) (h0 : b.f "" = "")

include h0 in
mutual
theorem varsOf_ren (ids : List (String × Nat)) : ∀ a : Ast, varsOf (renIds b.f ids) (renAll b.f a) = varsOf ids a
  | .node t d lo hi ks => by
    simp only [renAll, varsOf]
    by_cases h : isIdTok t = true
    · have h' : (t == .ID_LOCAL || t == .ID_GLOBAL || t == .ID_FUNCTION || t == .ID_PREDICATE) = true := h
      rw [if_pos h', if_pos h']
      simp only [renDataAll, h, if_true]
      unfold renIds
      cases d with
      | text s => simp only; rw [lookup_renIds]
      | none => simp only; rw [← lookup_renIds b "" ids, h0]
      | int _ => simp only; rw [← lookup_renIds b "" ids, h0]
      | tuple _ => simp only; rw [← lookup_renIds b "" ids, h0]
    · have h' : ¬ (t == .ID_LOCAL || t == .ID_GLOBAL || t == .ID_FUNCTION || t == .ID_PREDICATE) = true := h
      rw [if_neg h', if_neg h', varsOfKids_ren ids ks, firstVarKids_ren ids ks]
theorem varsOfKids_ren (ids : List (String × Nat)) : ∀ ks : List Ast,
    varsOfKids (renIds b.f ids) (renAllL b.f ks) = varsOfKids ids ks
  | [] => rfl
  | k :: ks => by simp only [renAllL, varsOfKids]; rw [varsOf_ren ids k, varsOfKids_ren ids ks]
theorem firstVarKids_ren (ids : List (String × Nat)) : ∀ ks : List Ast,
    firstVarKids (renIds b.f ids) (renAllL b.f ks) = firstVarKids ids ks
  | [] => rfl
  | k :: _ => by simp only [renAllL, firstVarKids]; rw [varsOf_ren ids k]
end

/-- the interpreter context over the renamed slot table -/
def renCtxE (g : String → String) (c : Ctx) : Ctx := { ids := renIds g c.ids }

include h0 in
theorem firstVar_ren (c : Ctx) (a : Ast) : firstVar (renCtxE b.f c) (renAll b.f a) = firstVar c a := by
  unfold firstVar renCtxE
  rw [varsOf_ren b h0]

include h0 in
theorem evCore_ren (c : Ctx) (ch dk : Nat → St → R V) (lz lz' : Ast → St → R V) (a : Ast) (p : Option Tok) (st : St)
    (hlz : ∀ x st, lz' (renAll b.f x) st = lz x st) :
    evCore (renCtxE b.f c) ch dk lz' (renAll b.f a) p st = evCore c ch dk lz a p st := by
  have hfv := firstVar_ren b h0 c
  by_cases hid : isIdTok a.id = true
  · cases a with
    | node t d lo hi ks =>
      have ht : t = .ID_LOCAL ∨ t = .ID_GLOBAL ∨ t = .ID_FUNCTION ∨ t = .ID_PREDICATE := by
        unfold isIdTok at hid
        simp only [Bool.or_eq_true, Ast.id] at hid
        rcases hid with ((h | h) | h) | h
        · exact Or.inl (tok_beq_eq _ _ h)
        · exact Or.inr (Or.inl (tok_beq_eq _ _ h))
        · exact Or.inr (Or.inr (Or.inl (tok_beq_eq _ _ h)))
        · exact Or.inr (Or.inr (Or.inr (tok_beq_eq _ _ h)))
      rcases ht with rfl | rfl | rfl | rfl <;>
        (simp only [evCore, renAll_id, hfv]; simp only [Ast.id, dispatchesDefault, Bool.false_eq_true, if_false])
  · have hid' : isIdTok a.id = false := by simpa using hid
    have hdata := renAll_data_not b.f a hid'
    have hidx : idxOf (renAll b.f a) = idxOf a := by unfold idxOf; rw [hdata]
    have hbm : ∀ o : Option Ast, (o.map (renAll b.f)).bind (firstVar (renCtxE b.f c)) = o.bind (firstVar c) := by
      intro o; cases o with
      | none => rfl
      | some x => exact hfv x
    rcases hk : a.kids with _ | ⟨k0, _ | ⟨k1, ks⟩⟩
    · simp only [evCore, renAll_id, renAll_lo, hdata, hidx, hfv, hlz, renAll_kids, hk, List.map_nil, List.map_cons,
        List.length_nil, List.length_cons, List.length_map, List.head?_nil, List.head?_cons, Option.bind_none,
        Option.bind_some, List.drop_nil, List.drop_succ_cons, List.drop_zero, List.getElem?_nil]
    · simp only [evCore, renAll_id, renAll_lo, hdata, hidx, hfv, hlz, renAll_kids, hk, List.map_nil, List.map_cons,
        List.length_nil, List.length_cons, List.length_map, List.head?_nil, List.head?_cons, Option.bind_none,
        Option.bind_some, List.drop_nil, List.drop_succ_cons, List.drop_zero, List.getElem?_nil,
        List.getElem?_cons_succ, List.getElem?_cons_zero, List.map_map, Function.comp_def, List.head?_map,
        Option.map_some, Option.getD_some, List.isEmpty_map, List.isEmpty_cons, List.isEmpty_nil]
    · rcases hk1 : k1.kids with _ | ⟨b0, bs⟩ <;> by_cases hB : (k1.id == Tok.BOOLEAN) = true <;>
      simp only [evCore, renAll_id, renAll_lo, hdata, hidx, hfv, hlz, hbm, renAll_kids, hk, hk1, hB, if_true, if_false, Bool.false_eq_true, ↓reduceIte,
        List.map_nil, List.map_cons,
        List.length_nil, List.length_cons, List.length_map, List.head?_nil, List.head?_cons, Option.bind_none,
        Option.bind_some, List.drop_nil, List.drop_succ_cons, List.drop_zero, List.getElem?_nil,
        List.getElem?_cons_succ, List.getElem?_cons_zero, List.map_map, Function.comp_def, List.head?_map,
        Option.map_some, Option.getD_some, List.isEmpty_map, List.isEmpty_cons, List.isEmpty_nil]

include h0 in
/-- the interpreter over the renamed slot table gives the same outcome on the renamed tree -/
theorem ev_ren (c : Ctx) : ∀ (fuel : Nat) (a : Ast) (p : Option Tok) (st : St),
    ev (renCtxE b.f c) fuel (renAll b.f a) p st = ev c fuel a p st
  | 0, _, _, _ => by simp [ev]
  | fuel + 1, a, p, st => by
    rw [ev_succ, ev_succ]
    have hch : childF (ev (renCtxE b.f c) fuel) (renAll b.f a) = childF (ev c fuel) a := by
      funext i st
      unfold childF
      rw [renAll_kids, List.getElem?_map, renAll_id]
      cases a.kids[i]? with
      | none => rfl
      | some k => exact ev_ren c fuel k _ _
    have hdk : domF (ev (renCtxE b.f c) fuel) (renAll b.f a) = domF (ev c fuel) a := by
      funext i st
      unfold domF
      rw [renAll_kids, List.getElem?_map]
      cases a.kids[i]? with
      | none => rfl
      | some k =>
        simp only [Option.map_some, renAll_kids, List.getElem?_map, renAll_id]
        cases k.kids[1]? with
        | none => rfl
        | some d => exact ev_ren c fuel d _ _
    rw [hch, hdk]
    exact evCore_ren b h0 c _ _ _ _ a p st (fun x st => ev_ren c fuel x _ st)

end interp

/-- **`ASTInterpreter::Evaluate` is invariant under a bijective renaming of all identifier spellings** (tree,
slot table, data context): same value / error / position / iteration count -/
theorem evalNorm_ren (b : Bij) (h0 : b.f "" = "") {env env' : Env}
    (henv : ∀ k, lookup (b.f k) env'.globals = lookup k env.globals) (fuel : Nat) (a : Ast) :
    evalNorm fuel env' (renAll b.f a) = evalNorm fuel env a := by
  unfold evalNorm
  have hc := collect_ren b h0 henv fuel a {}
  have e0 : renNC b.f {} = {} := rfl
  rw [e0] at hc
  rw [hc]
  cases collect env fuel a {} with
  | fail f => cases f <;> rfl
  | ok vs al nc =>
    simp only [renCRes]
    have e1 : ({ ids := (renNC b.f nc).ids } : Ctx) = renCtxE b.f { ids := nc.ids } := rfl
    have e2 : (renNC b.f nc).data = nc.data := rfl
    rw [e1, e2, ev_ren b h0]

end CCVerif.Eval
