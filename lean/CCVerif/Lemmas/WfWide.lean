import CCVerif.Model.Parser
import CCVerif.Model.WfAst
import CCVerif.Lemmas.TokBEq
/-!
`Wf.wf` and the two passes that follow the grammar in `RSParser::Parse` (prover-Wf).

The bison grammar accepts `variable :∈ setexpr` / `variable := setexpr` as `logic_predicates` EVERYWHERE a logic
expression stands; `SemanticCheck` then rejects them unless they stand directly below `NT_IMPERATIVE_EXPR`.
`Wf.shape` describes the result of both passes (ITERATE / ASSIGN only in category `.B`). This file:

* `shapeR` / `wfR` — the RELAXED predicate, what the grammar alone guarantees: ITERATE / ASSIGN also in the
  categories `.L`, `.LS`, `.ND`;
* `sem_strip` — `SemanticCheck` of the raw tree (bracket nodes inside) implies `SemanticCheck` of the tree
  `CreateSyntaxTree` makes of it;
* `wf_of_wfR` — a relaxed tree that passes `SemanticCheck` is `Wf.wf`.
-/
namespace CCVerif.Wf
open CCVerif.Syntax CCVerif.Lexer CCVerif.Parser

/-- the categories in which the grammar alone (before `SemanticCheck`) accepts `:∈` / `:=` although `Wf.shape` does not -/
def relaxed (c : Cat) : Bool := c == .L || c == .LS || c == .ND

def isIter (id : Tok) : Bool := id == .ITERATE || id == .ASSIGN

def shapeR (c : Cat) (id : Tok) : Option Shape :=
  if relaxed c && isIter id then some (.seq [.V, .S]) else shape c id

mutual
/-- `wf` with the relaxed table -/
def wfR : Cat → Ast → Bool
  | c, .node id data _ _ kids =>
    match shapeR c id with
    | none => false
    | some .leaf => kids.isEmpty && wfLeaf id data
    | some (.seq cs) => noData data && wfSeqR cs kids
    | some (.seqIdx cs) => indexData data && wfSeqR cs kids
    | some (.all min k) => noData data && decide (min ≤ kids.length) && wfAllR k kids
    | some (.allIdx min k) => indexData data && decide (min ≤ kids.length) && wfAllR k kids
    | some (.headAll h min k) => noData data && wfHeadR h min k kids
def wfSeqR : List Cat → List Ast → Bool
  | [], [] => true
  | c :: cs, k :: ks => wfR c k && wfSeqR cs ks
  | _, _ => false
def wfAllR : Cat → List Ast → Bool
  | _, [] => true
  | c, k :: ks => wfR c k && wfAllR c ks
def wfHeadR : Cat → Nat → Cat → List Ast → Bool
  | _, _, _, [] => false
  | h, min, c, k :: ks => wfR h k && decide (min ≤ ks.length) && wfAllR c ks
end

/-! ## `SemanticCheck` survives `CreateSyntaxTree` -/

theorem sem_node (p : Option Tok) (id : Tok) (d : TokData) (lo hi : Int) (ks : List Ast) :
    semanticCheck p (.node id d lo hi ks) =
      ((if id == .ASSIGN || id == .ITERATE then p == some .NT_IMPERATIVE_EXPR else true) &&
        semanticCheckList (some id) ks) := by
  rw [semanticCheck]

/-- below a parent that is not `NT_IMPERATIVE_EXPR` the top test says "not `:∈` / `:=`", which holds below every parent -/
theorem sem_reparent {t : Ast} {q : Option Tok} (p : Option Tok) (hq : (q == some Tok.NT_IMPERATIVE_EXPR) = false)
    (h : semanticCheck q t = true) : semanticCheck p t = true := by
  cases t with
  | node id d lo hi ks =>
    rw [sem_node] at h ⊢
    simp only [Bool.and_eq_true] at h ⊢
    refine ⟨?_, h.2⟩
    have h1 := h.1
    by_cases hb : (id == Tok.ASSIGN || id == Tok.ITERATE) = true
    · rw [if_pos hb, hq] at h1; cases h1
    · rw [if_neg hb]

mutual
theorem sem_strip : ∀ (raw t : Ast) (p : Option Tok), stripBrackets raw = some t → semanticCheck p raw = true →
    semanticCheck p t = true
  | .node id d lo hi kids, t, p, hs, hc => by
    rw [stripBrackets.eq_def] at hs
    simp only [] at hs
    split at hs
    · -- a bracket node
      cases kids with
      | nil => cases hs
      | cons k rest =>
        simp only [] at hs
        rw [sem_node] at hc
        simp only [Bool.and_eq_true] at hc
        have hk := hc.2
        rw [semanticCheckList] at hk
        simp only [Bool.and_eq_true] at hk
        rename_i hid
        have hid' : id = .PUNC_PL := tok_beq_eq _ _ hid
        subst hid'
        exact sem_reparent p (by decide) (sem_strip k t _ hs hk.1)
    · cases hk : stripBracketsList kids with
      | none => rw [hk] at hs; cases hs
      | some ks' =>
        rw [hk] at hs
        simp only [Option.some.injEq] at hs
        subst hs
        rw [sem_node] at hc ⊢
        simp only [Bool.and_eq_true] at hc ⊢
        exact ⟨hc.1, sem_stripL kids ks' _ hk hc.2⟩
theorem sem_stripL : ∀ (l l' : List Ast) (p : Option Tok), stripBracketsList l = some l' →
    semanticCheckList p l = true → semanticCheckList p l' = true
  | [], l', p, hs, _ => by
    rw [stripBracketsList] at hs; cases hs; rw [semanticCheckList]
  | k :: ks, l', p, hs, hc => by
    rw [stripBracketsList] at hs
    rw [semanticCheckList] at hc
    simp only [Bool.and_eq_true] at hc
    cases h1 : stripBrackets k with
    | none => rw [h1] at hs; cases hs
    | some k' =>
      cases h2 : stripBracketsList ks with
      | none => rw [h1, h2] at hs; cases hs
      | some ks' =>
        rw [h1, h2] at hs; cases hs
        rw [semanticCheckList]
        simp only [Bool.and_eq_true]
        exact ⟨sem_strip k k' p h1 hc.1, sem_stripL ks ks' p h2 hc.2⟩
end

/-! ## a relaxed tree that passes `SemanticCheck` is `Wf.wf` -/

/-- the position is one where `wfR` and `wf` agree on `:∈` / `:=` -/
def Pos (c : Cat) (p : Option Tok) : Prop := relaxed c = true → (p == some Tok.NT_IMPERATIVE_EXPR) = false

def catsOf : Shape → List Cat
  | .leaf => []
  | .seq cs | .seqIdx cs => cs
  | .all _ c | .allIdx _ c => [c]
  | .headAll h _ c => [h, c]

/-- the children of `NT_IMPERATIVE_EXPR` stand in no relaxed category -/
def impOk (c : Cat) (id : Tok) : Bool :=
  match shape c id with
  | none => true
  | some s => !(id == .NT_IMPERATIVE_EXPR) || (catsOf s).all fun c' => !relaxed c'

theorem impOk_all (c : Cat) (id : Tok) : impOk c id = true := by
  cases c <;> cases id <;> rfl

theorem pos_kids {c : Cat} {id : Tok} {s : Shape} (h : shape c id = some s) : ∀ c' ∈ catsOf s, Pos c' (some id) := by
  intro c' hc' hr
  have := impOk_all c id
  unfold impOk at this
  rw [h] at this
  simp only [Bool.or_eq_true, Bool.not_eq_true', List.all_eq_true] at this
  rcases this with h1 | h2
  · by_cases hid : id = .NT_IMPERATIVE_EXPR
    · subst hid; cases h1
    · cases id <;> first | rfl | exact absurd rfl hid
  · have := h2 c' hc'
    rw [hr] at this
    cases this

theorem shapeR_eq {c : Cat} {id : Tok} {p : Option Tok} (hp : Pos c p)
    (ht : (if id == .ASSIGN || id == .ITERATE then p == some Tok.NT_IMPERATIVE_EXPR else true) = true) :
    shapeR c id = shape c id := by
  unfold shapeR
  split
  · rename_i h
    simp only [Bool.and_eq_true] at h
    have h2 : (id == .ASSIGN || id == .ITERATE) = true := by
      have := h.2
      unfold isIter at this
      simp only [Bool.or_eq_true] at this ⊢
      exact this.symm
    rw [if_pos h2] at ht
    rw [hp h.1] at ht
    cases ht
  · rfl

mutual
theorem wf_of_wfR : ∀ (t : Ast) (c : Cat) (p : Option Tok), wfR c t = true → semanticCheck p t = true → Pos c p →
    wf c t = true
  | .node id d lo hi ks, c, p, hw, hs, hp => by
    rw [sem_node] at hs
    simp only [Bool.and_eq_true] at hs
    rw [wfR, shapeR_eq hp hs.1] at hw
    rw [wf]
    have hl := wfL_of_wfR ks id hs.2
    cases hsh : shape c id with
    | none => rw [hsh] at hw; cases hw
    | some s =>
      rw [hsh] at hw
      have hk := pos_kids hsh
      cases s with
      | leaf => exact hw
      | seq cs =>
        simp only [Bool.and_eq_true] at hw ⊢
        exact ⟨hw.1, hl.1 cs hk hw.2⟩
      | seqIdx cs =>
        simp only [Bool.and_eq_true] at hw ⊢
        exact ⟨hw.1, hl.1 cs hk hw.2⟩
      | all mn c' =>
        simp only [Bool.and_eq_true] at hw ⊢
        exact ⟨hw.1, hl.2.1 c' (hk c' (by simp [catsOf])) hw.2⟩
      | allIdx mn c' =>
        simp only [Bool.and_eq_true] at hw ⊢
        exact ⟨hw.1, hl.2.1 c' (hk c' (by simp [catsOf])) hw.2⟩
      | headAll h mn c' =>
        simp only [Bool.and_eq_true] at hw ⊢
        exact ⟨hw.1, hl.2.2 h mn c' (hk h (by simp [catsOf])) (hk c' (by simp [catsOf])) hw.2⟩
theorem wfL_of_wfR : ∀ (ks : List Ast) (id : Tok), semanticCheckList (some id) ks = true →
    (∀ cs, (∀ c' ∈ cs, Pos c' (some id)) → wfSeqR cs ks = true → wfSeq cs ks = true) ∧
    (∀ c', Pos c' (some id) → wfAllR c' ks = true → wfAll c' ks = true) ∧
    (∀ h mn c', Pos h (some id) → Pos c' (some id) → wfHeadR h mn c' ks = true → wfHead h mn c' ks = true)
  | [], id, _ => by
    refine ⟨?_, ?_, ?_⟩
    · intro cs _ h
      cases cs with
      | nil => simp [wfSeq]
      | cons c cs => simp [wfSeqR] at h
    · intro c' _ _; rw [wfAll]
    · intro h mn c' _ _ hh; rw [wfHeadR] at hh; cases hh
  | k :: ks, id, hs => by
    rw [semanticCheckList] at hs
    simp only [Bool.and_eq_true] at hs
    have ih := wfL_of_wfR ks id hs.2
    refine ⟨?_, ?_, ?_⟩
    · intro cs hp h
      cases cs with
      | nil => simp [wfSeqR] at h
      | cons c cs =>
        rw [wfSeqR] at h
        rw [wfSeq]
        simp only [Bool.and_eq_true] at h ⊢
        exact ⟨wf_of_wfR k c _ h.1 hs.1 (hp c (by simp)), ih.1 cs (fun c' hc' => hp c' (by simp [hc'])) h.2⟩
    · intro c' hp h
      rw [wfAllR] at h
      rw [wfAll]
      simp only [Bool.and_eq_true] at h ⊢
      exact ⟨wf_of_wfR k c' _ h.1 hs.1 hp, ih.2.1 c' hp h.2⟩
    · intro h mn c' hph hpc hh
      rw [wfHeadR] at hh
      rw [wfHead]
      simp only [Bool.and_eq_true] at hh ⊢
      exact ⟨⟨wf_of_wfR k h _ hh.1.1 hs.1 hph, hh.1.2⟩, ih.2.1 c' hpc hh.2⟩
end

/-- `wf` implies `wfR` is not needed; the other direction at the top: no parent -/
theorem wf_of_wfR_top {t : Ast} {c : Cat} (hw : wfR c t = true) (hs : semanticCheck none t = true) : wf c t = true :=
  wf_of_wfR t c none hw hs (fun _ => rfl)

end CCVerif.Wf
