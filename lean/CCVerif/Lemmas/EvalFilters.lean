import CCVerif.Lemmas.EvalSim
/-! Stage 8 of C01 / C02: filters `Fi_{i1..ik}[P1..Pk](S)` (`ASTInterpreter::ViFilter`,
`EvaluateFilterTuple`, `EvaluateFilterComplex`).

This file: unfolding equations of `ev` and `denote` at a `FILTER` node and the value-level agreement
between what the evaluator computes (left-to-right parameter evaluation stopped at the first empty
parameter; per element a short-circuit conjunction of `Contains(Component)`; ordered insertion) and what
the reference semantics says (`{x ∈ S | ∀j. pr_{i_j}(x) ∈ P_j}`, resp. `{x ∈ S | pr_{idx}(x) ∈ P}`). -/
namespace CCVerif.Eval
open CCVerif.Syntax CCVerif.Spec CCVerif.Norm
open Val Ty

/-! ## generic folds -/

theorem foldl_range_take {α β} (g : β → Option α → β) (ks : List α) (init : β) : ∀ n, n ≤ ks.length →
    (List.range n).foldl (fun acc i => g acc ks[i]?) init = (ks.take n).foldl (fun acc k => g acc (some k)) init
  | 0, _ => by simp
  | n + 1, h => by
    rw [List.range_succ, List.foldl_append, foldl_range_take g ks init n (by omega), List.take_add_one]
    have : ks[n]? = some ks[n] := by simp
    rw [List.foldl_append, this]
    simp only [List.foldl_cons, List.foldl_nil, Option.toList_some]
    rw [this]

/-! ## the parameters of `EvaluateFilterTuple` -/

/-- parameters evaluated left to right as sets; `none` = one of them is empty (the rest is not evaluated) -/
def evParams (c : Ctx) (fuel : Nat) : List Ast → List (List Val) → St → R (Option (List (List Val)))
  | [], acc, st => .ok (some acc) st
  | k :: ks, acc, st =>
    match (ev c fuel k (some .FILTER) st).asSet with
    | .fail f n => .fail f n
    | .ok p st' => if p.isEmpty then .ok none st' else evParams c fuel ks (acc ++ [p]) st'

private def stepParam (c : Ctx) (fuel : Nat) (acc : R (Option (List (List Val)))) (o : Option Ast) :
    R (Option (List (List Val))) :=
  match acc with
  | .fail f k => .fail f k
  | .ok none st' => .ok none st'
  | .ok (some ps) st' =>
    match (match o with
      | none => R.fail (Fail.stuck "EvaluateChild index") st'.iters
      | some k => ev c fuel k (some .FILTER) st').asSet with
    | .fail f k => .fail f k
    | .ok p st'' => if p.isEmpty then .ok none st'' else .ok (some (ps ++ [p])) st''

private theorem foldl_stepParam_fail (c : Ctx) (fuel : Nat) (f : Fail) (n : Nat) : ∀ ks : List Ast,
    ks.foldl (fun acc k => stepParam c fuel acc (some k)) (.fail f n) = .fail f n
  | [] => rfl
  | _ :: ks => by simp only [List.foldl_cons, stepParam]; exact foldl_stepParam_fail c fuel f n ks

private theorem foldl_stepParam_none (c : Ctx) (fuel : Nat) (st : St) : ∀ ks : List Ast,
    ks.foldl (fun acc k => stepParam c fuel acc (some k)) (.ok none st) = .ok none st
  | [] => rfl
  | _ :: ks => by simp only [List.foldl_cons, stepParam]; exact foldl_stepParam_none c fuel st ks

private theorem foldl_stepParam (c : Ctx) (fuel : Nat) : ∀ (ks : List Ast) (acc : List (List Val)) (st : St),
    ks.foldl (fun acc k => stepParam c fuel acc (some k)) (.ok (some acc) st) = evParams c fuel ks acc st
  | [], acc, st => rfl
  | k :: ks, acc, st => by
    simp only [List.foldl_cons, evParams]
    cases h : (ev c fuel k (some .FILTER) st).asSet with
    | fail f n => simp only [stepParam, h]; exact foldl_stepParam_fail c fuel f n ks
    | ok p st' =>
      simp only [stepParam, h]
      by_cases hp : p.isEmpty = true
      · simp only [hp, if_true]; exact foldl_stepParam_none c fuel st' ks
      · simp only [hp]; exact foldl_stepParam c fuel ks (acc ++ [p]) st'

/-- the parameter fold of `ev` is `evParams` over the first `n` children -/
theorem params_eq (c : Ctx) (fuel : Nat) (ks : List Ast) (n : Nat) (hn : n ≤ ks.length) (st : St) :
    List.foldl
        (fun (acc : R (Option (List (List Val)))) i =>
          match acc with
          | R.fail f k => R.fail f k
          | R.ok none st' => R.ok none st'
          | R.ok (some ps) st' =>
            match
              (match ks[i]? with
                | none => R.fail (Fail.stuck "EvaluateChild index") st'.iters
                | some k => ev c fuel k (some .FILTER) st').asSet with
            | R.fail f k => R.fail f k
            | R.ok p st'' => if p.isEmpty then R.ok none st'' else R.ok (some (ps ++ [p])) st'')
        (R.ok (some []) st) (List.range n) = evParams c fuel (ks.take n) [] st := by
  have := foldl_range_take (stepParam c fuel) ks (.ok (some []) st) n hn
  rw [foldl_stepParam] at this
  exact this

/-- the test of one element in `EvaluateFilterTuple`: conjunction, left to right, stopped at the first `false` -/
def filterTest (idx : List Int) (ps : List (List Val)) (el : Val) : Option Bool :=
  (idx.zip ps).foldl (fun acc (ip : Int × List Val) =>
    match acc with
    | some true => (Val.component el ip.1).map (fun cmpn => Val.mem cmpn ip.2)
    | r => r) (some true)

/-! ## `ev` at a filter node -/

theorem length_snoc_sub {α} (ps : List α) (a : α) : (ps ++ [a]).length - 1 = ps.length := by simp

/-- `Fi_{i1..ik}[P1,…,Pk](S)`: as many parameters as indices -/
theorem ev_filterT (c : Ctx) (fuel : Nat) (idx : List Int) (lo hi : Int) (ps : List Ast) (arg : Ast) (p : Option Tok)
    (st : St) (hlen : idx.length = ps.length) :
    ev c (fuel + 1) (.node .FILTER (.tuple idx) lo hi (ps ++ [arg])) p st =
      match (ev c fuel arg (some .FILTER) st).asSet with
      | .fail f k => .fail f k
      | .ok argv st1 =>
        if argv.isEmpty then .ok (.val (.s [])) st1 else
        match evParams c fuel ps [] st1 with
        | .fail f k => .fail f k
        | .ok none st2 => .ok (.val (.s [])) st2
        | .ok (some pl) st2 =>
          match allSome (argv.map (filterTest idx pl)) with
          | none => .fail (.stuck "EvaluateFilterTuple T().Component") st2.iters
          | some flags => .ok (.val (.s (Val.insertAll [] ((argv.zip flags).filter (·.2) |>.map (·.1))))) st2 := by
  have htake : (ps ++ [arg]).take ps.length = ps := by simp
  have hget : (ps ++ [arg])[ps.length]? = some arg := by simp
  have hne : ((ps ++ [arg]).length == 0) = false := by simp
  simp only [ev, dispatchesDefault, Ast.id, Ast.kids, idxOf, Ast.data, hne, length_snoc_sub, hget, hlen,
    beq_self_eq_true, if_true, Bool.false_eq_true, if_false]
  cases h1 : (ev c fuel arg (some .FILTER) st).asSet with
  | fail f k => rfl
  | ok argv st1 =>
    simp only []
    by_cases he : argv.isEmpty = true
    · simp only [he, if_true]
    · simp only [he, Bool.false_eq_true, if_false]
      have := params_eq c fuel (ps ++ [arg]) ps.length (by simp) st1
      rw [htake] at this
      rw [← this]
      rfl

/-- `Fi_{i1,…,ik}[P](S)` with one parameter for `k ≠ 1` indices -/
theorem ev_filterC (c : Ctx) (fuel : Nat) (idx : List Int) (lo hi : Int) (par arg : Ast) (p : Option Tok)
    (st : St) (hlen : idx.length ≠ 1) :
    ev c (fuel + 1) (.node .FILTER (.tuple idx) lo hi [par, arg]) p st =
      match (ev c fuel arg (some .FILTER) st).asSet with
      | .fail f k => .fail f k
      | .ok argv st1 =>
        if argv.isEmpty then .ok (.val (.s [])) st1 else
        match (ev c fuel par (some .FILTER) st1).asSet with
        | .fail f k => .fail f k
        | .ok param st2 =>
          if param.isEmpty then .ok (.val (.s [])) st2 else
          match allSome (argv.map fun el => (Val.project el idx).map (fun tp => Val.mem tp param)) with
          | none => .fail (.stuck "EvaluateFilterComplex T().Component") st2.iters
          | some flags => .ok (.val (.s (Val.insertAll [] ((argv.zip flags).filter (·.2) |>.map (·.1))))) st2 := by
  have hl : (idx.length == 1) = false := by simpa using hlen
  simp only [ev, dispatchesDefault, Ast.id, Ast.kids, idxOf, Ast.data, List.length_cons, List.length_nil]
  simp [hl]
  rfl

/-! ## `denote` at a filter node -/

theorem denote_filterT (env : SEnv) (fuel : Nat) (ρ : LEnv) (idx : List Int) (lo hi : Int) (ps : List Ast) (arg : Ast)
    (hlen : idx.length = ps.length) :
    denote env (fuel + 1) ρ (.node .FILTER (.tuple idx) lo hi (ps ++ [arg])) =
      match dSet (denote env fuel ρ arg) with
      | none => none
      | some argv =>
        if argv.isEmpty then some (.val (.s [])) else
        if (ps.map fun k => dSet (denote env fuel ρ k)).any (fun p => p == some []) then some (.val (.s [])) else
        match (ps.map fun k => dSet (denote env fuel ρ k)).mapM id with
        | none => none
        | some pl =>
          ((argv.mapM fun x =>
            ((idx.zip pl).mapM fun (ip : Int × List Val) => (nth x ip.1).map (isMember · ip.2)).map
              fun flags => (x, flags.all id)).map keep).map SemVal.val := by
  have htake : (ps ++ [arg]).take ps.length = ps := by simp
  have hget : (ps ++ [arg])[ps.length]? = some arg := by simp
  simp only [denote, Ast.id, Ast.kids, Ast.data, length_snoc_sub, hget, Option.getD_some, htake, hlen,
    beq_self_eq_true, if_true]
  rfl

theorem denote_filterC (env : SEnv) (fuel : Nat) (ρ : LEnv) (idx : List Int) (lo hi : Int) (par arg : Ast)
    (hlen : idx.length ≠ 1) :
    denote env (fuel + 1) ρ (.node .FILTER (.tuple idx) lo hi [par, arg]) =
      match dSet (denote env fuel ρ arg) with
      | none => none
      | some argv =>
        if argv.isEmpty then some (.val (.s [])) else
        match dSet (denote env fuel ρ par) with
        | none => none
        | some pv =>
          ((argv.mapM fun x => (select x idx).map fun tp => (x, isMember tp pv)).map keep).map SemVal.val := by
  have hl : (idx.length == 1) = false := by simpa using hlen
  simp only [denote, Ast.id, Ast.kids, Ast.data, List.length_cons, List.length_nil]
  simp [hl]
  rfl

/-! ## value-level agreement -/

/-- one element, tuple form: the short-circuit fold of the evaluator is the conjunction of the reference flags -/
theorem filterTest_fold (el : Val) : ∀ (l : List (Int × List Val)),
    (∀ ip ∈ l, ∃ cv, Val.component el ip.1 = some cv ∧ Val.mem cv ip.2 = isMember cv ip.2) →
    ∃ flags, l.mapM (fun (ip : Int × List Val) => (nth el ip.1).map (isMember · ip.2)) = some flags ∧
      ∀ b0, l.foldl (fun acc (ip : Int × List Val) =>
          match acc with
          | some true => (Val.component el ip.1).map (fun cmpn => Val.mem cmpn ip.2)
          | r => r) (some b0) = some (b0 && flags.all id)
  | [], _ => ⟨[], by simp, by intro b0; simp⟩
  | ip :: l, h => by
    obtain ⟨cv, hc, hm⟩ := h ip (by simp)
    obtain ⟨flags, hf, hfold⟩ := filterTest_fold el l (fun q hq => h q (by simp [hq]))
    refine ⟨isMember cv ip.2 :: flags, ?_, ?_⟩
    · rw [List.mapM_cons, ← component_eq_nth, hc, hf]; rfl
    · intro b0
      simp only [List.foldl_cons]
      cases b0 with
      | true =>
        simp only [hc, Option.map_some, hm]
        rw [hfold]; simp
      | false =>
        rw [hfold]; simp

theorem filterT_agrees (idx : List Int) (pl : List (List Val)) : ∀ (argv : List Val),
    (∀ el ∈ argv, ∀ ip ∈ idx.zip pl, ∃ cv, Val.component el ip.1 = some cv ∧ Val.mem cv ip.2 = isMember cv ip.2) →
    ∃ bs, allSome (argv.map (filterTest idx pl)) = some bs ∧
      argv.mapM (fun x => ((idx.zip pl).mapM fun (ip : Int × List Val) => (nth x ip.1).map (isMember · ip.2)).map
        fun flags => (x, flags.all id)) = some (argv.zip bs)
  | [], _ => ⟨[], by simp [allSome], by simp⟩
  | el :: argv, h => by
    obtain ⟨flags, hf, hfold⟩ := filterTest_fold el (idx.zip pl) (h el (by simp))
    obtain ⟨bs, hb, hm⟩ := filterT_agrees idx pl argv (fun x hx => h x (by simp [hx]))
    refine ⟨flags.all id :: bs, ?_, ?_⟩
    · have : filterTest idx pl el = some (flags.all id) := by
        unfold filterTest; rw [hfold]; simp
      simp only [List.map_cons, this, allSome, hb, Option.map_some]
    · rw [List.mapM_cons, hf, hm]; rfl

theorem filterC_agrees (idx : List Int) (pv : List Val) : ∀ (argv : List Val),
    (∀ el ∈ argv, ∃ tp, Val.project el idx = some tp ∧ Val.mem tp pv = isMember tp pv) →
    ∃ bs, allSome (argv.map fun el => (Val.project el idx).map (fun tp => Val.mem tp pv)) = some bs ∧
      argv.mapM (fun x => (select x idx).map fun tp => (x, isMember tp pv)) = some (argv.zip bs)
  | [], _ => ⟨[], by simp [allSome], by simp⟩
  | el :: argv, h => by
    obtain ⟨tp, ht, hm⟩ := h el (by simp)
    obtain ⟨bs, hb, hmm⟩ := filterC_agrees idx pv argv (fun x hx => h x (by simp [hx]))
    refine ⟨isMember tp pv :: bs, ?_, ?_⟩
    · simp only [List.map_cons, ht, Option.map_some, hm, allSome, hb]
    · rw [List.mapM_cons, ← project_eq_select, ht, hmm]; rfl

/-- the kept members of a well-formed set form a well-formed set -/
theorem kept_WF {argv : List Val} {τ : Ty} (h : ∀ x ∈ argv, WF x τ) (bs : List Bool) :
    WF (.s (Val.insertAll [] (((argv.zip bs).filter (·.2)).map (·.1)))) (.coll τ) := by
  refine mkSet_WF (vs := ((argv.zip bs).filter (·.2)).map (·.1)) ?_
  intro v hv
  obtain ⟨q, hq, rfl⟩ := List.mem_map.mp hv
  exact h _ (List.of_mem_zip (List.mem_filter.mp hq).1).1

theorem keep_eq (l : List (Val × Bool)) : keep l = .s (Val.insertAll [] ((l.filter (·.2)).map (·.1))) := rfl

theorem keep_all_false : ∀ (argv : List Val), keep (argv.map fun x => (x, false)) = .s []
  | [] => rfl
  | x :: argv => by
    have := keep_all_false argv
    simp only [keep, List.map_cons, List.filter_cons] at this ⊢
    simpa using this

theorem forall₂_of_mapM {α β} {f : α → Option β} : ∀ {l : List α} {r : List β}, l.mapM f = some r →
    List.Forall₂ (fun a b => f a = some b) l r
  | [], r, h => by simp at h; subst h; exact .nil
  | a :: l, r, h => by
    rw [List.mapM_cons] at h
    cases ha : f a with
    | none => simp [ha] at h
    | some b =>
      cases hl : l.mapM f with
      | none => simp [ha, hl] at h
      | some r' =>
        simp [ha, hl] at h
        subst h
        exact .cons ha (forall₂_of_mapM hl)

theorem forall₂_zip {α β γ} {R : α → γ → Prop} {S : β → γ → Prop} : ∀ {a : List α} {b : List β} {c : List γ},
    List.Forall₂ R a c → List.Forall₂ S b c → ∀ x ∈ a.zip b, ∃ z, R x.1 z ∧ S x.2 z
  | _, _, _, .nil, .nil => by simp
  | _, _, _, .cons h1 r1, .cons h2 r2 => by
    intro x hx
    simp only [List.zip_cons_cons, List.mem_cons] at hx
    rcases hx with rfl | hx
    · exact ⟨_, h1, h2⟩
    · exact forall₂_zip r1 r2 x hx

/-! ## simulation of the parameter loop and of the two filter forms

The hypotheses are the induction hypotheses of the simulation (`sim` / `simF`), so the lemmas serve every
fragment that contains filters. -/

variable {env : Env}

/-- `EvaluateFilterTuple`, first loop: either some parameter is empty - and has the empty reference value at every
larger fuel (the parameters after it are not evaluated; the reference semantics does not need them either) -, or
every parameter has a non-empty value, which is its reference value -/
theorem evParams_sim (c : Ctx) (rz : Rz) (Γ : TCtx) (ρ : LEnv) (f : Nat) : ∀ (kts : List ((Ast × Ast) × Ty)),
    (∀ q ∈ kts, ∀ st, Inv env c rz Γ ρ st →
      Res env f ρ q.1.1 (fun st' => st'.data = st.data ∧ st.iters ≤ st'.iters) (.ty (.coll q.2))
        (ev c f q.1.2 (some .FILTER) st)) →
    ∀ acc st, Inv env c rz Γ ρ st →
      (∃ st', evParams c f (kts.map (·.1.2)) acc st = .ok none st' ∧ st'.data = st.data ∧ st.iters ≤ st'.iters ∧
        ∃ q ∈ kts, ∀ f', f ≤ f' → dSet (denote (senvOf env) f' ρ q.1.1) = some []) ∨
      (∃ pl st', evParams c f (kts.map (·.1.2)) acc st = .ok (some (acc ++ pl)) st' ∧ st'.data = st.data ∧
        st.iters ≤ st'.iters ∧
        List.Forall₂ (fun p ty => WF (.s p) (.coll ty) ∧ noAny ty = true) pl (kts.map (·.2)) ∧ (∀ p ∈ pl, p ≠ []) ∧
        ∀ f', f ≤ f' → (kts.map (·.1.1)).map (fun k => dSet (denote (senvOf env) f' ρ k)) = pl.map some) ∨
      Bad (evParams c f (kts.map (·.1.2)) acc st)
  | [], _, acc, st, _ =>
    Or.inr (Or.inl ⟨[], st, by simp [evParams], rfl, Nat.le_refl _, .nil, by simp, by simp⟩)
  | q :: kts, h, acc, st, hp => by
    simp only [List.map_cons, evParams]
    rcases h q (by simp) st hp with ⟨v, st1, h1, ⟨p1, m1⟩, w1, n1, d1⟩ | ⟨fl, n, hb, hf⟩
    · obtain ⟨pv, rfl⟩ := WF_coll_isSet w1
      simp only [h1, R.asSet]
      cases pv with
      | nil =>
        left
        refine ⟨st1, by simp, p1, m1, q, by simp, fun f' hf' => ?_⟩
        rw [d1 f' hf']; rfl
      | cons x xs =>
        simp only [List.isEmpty_cons, Bool.false_eq_true, if_false]
        rcases evParams_sim c rz Γ ρ f kts (fun k' hk' => h k' (by simp [hk'])) (acc ++ [x :: xs]) st1 (hp.of_data p1) with
          ⟨st2, h2, p2, m2, q', hq', dq'⟩ | ⟨pl, st2, h2, p2, m2, w2, ne2, d2⟩ | hbad
        · left
          exact ⟨st2, h2, by rw [p2, p1], by omega, q', by simp [hq'], dq'⟩
        · right; left
          refine ⟨(x :: xs) :: pl, st2, by simpa using h2, by rw [p2, p1], by omega,
            .cons ⟨w1, by simpa [noAny_coll] using n1⟩ w2, ?_, fun f' hf' => ?_⟩
          · intro p hp'
            rcases List.mem_cons.mp hp' with rfl | m
            · simp
            · exact ne2 p m
          · rw [d1 f' hf', d2 f' hf']; rfl
        · exact Or.inr (Or.inr hbad)
    · simp only [hb, R.asSet]
      exact Or.inr (Or.inr ⟨fl, n, rfl, hf⟩)

theorem any_some_nil_of_mem {l : List (Option (List Val))} (h : some [] ∈ l) :
    l.any (fun p => p == some []) = true := by
  rw [List.any_eq_true]; exact ⟨_, h, by simp⟩

theorem any_some_nil_false : ∀ {pl : List (List Val)}, (∀ p ∈ pl, p ≠ []) →
    (pl.map some).any (fun p => p == some []) = false
  | [], _ => rfl
  | p :: pl, h => by
    have h1 : p ≠ [] := h p (by simp)
    have := any_some_nil_false (pl := pl) (fun q hq => h q (by simp [hq]))
    simp only [List.map_cons, List.any_cons, this, Bool.or_false]
    cases p with
    | nil => exact absurd rfl h1
    | cons _ _ => simp

theorem mapM_id_map_some {α} : ∀ (l : List α), (l.map some).mapM id = some l
  | [] => rfl
  | a :: l => by rw [List.map_cons, List.mapM_cons, mapM_id_map_some l]; rfl

/-- **`Fi_{i1..ik}[P1,…,Pk](S)`** (tuple form) -/
theorem sim_filterT (c : Ctx) (rz : Rz) (Γ : TCtx) (ρ : LEnv) (f : Nat) (p : Option Tok) (st : St)
    (idx : List Int) (lo hi : Int) (kts : List ((Ast × Ast) × Ty)) (arg arg' : Ast) (ts : List Ty)
    (hidx : idx.mapM (compTy ts) = some (kts.map (·.2)))
    (hps : ∀ q ∈ kts, ∀ st, Inv env c rz Γ ρ st →
      Res env f ρ q.1.1 (fun st' => st'.data = st.data ∧ st.iters ≤ st'.iters) (.ty (.coll q.2))
        (ev c f q.1.2 (some .FILTER) st))
    (harg : ∀ st, Inv env c rz Γ ρ st →
      Res env f ρ arg (fun st' => st'.data = st.data ∧ st.iters ≤ st'.iters) (.ty (.coll (.tuple ts)))
        (ev c f arg' (some .FILTER) st))
    (hinv : Inv env c rz Γ ρ st) :
    Res env (f + 1) ρ (.node .FILTER (.tuple idx) lo hi (kts.map (·.1.1) ++ [arg]))
      (fun st' => st'.data = st.data ∧ st.iters ≤ st'.iters) (.ty (.coll (.tuple ts)))
      (ev c (f + 1) (.node .FILTER (.tuple idx) lo hi (kts.map (·.1.2) ++ [arg'])) p st) := by
  have hfa := forall₂_of_mapM hidx
  have hl : idx.length = kts.length := by simpa using hfa.length_eq
  rw [ev_filterT _ _ _ _ _ _ _ _ _ (by simpa using hl)]
  rcases harg st hinv with ⟨v1, st1, h1, ⟨p1, m1⟩, w1, n1, d1⟩ | ⟨fl, k, hb, hf⟩
  · obtain ⟨argv, rfl⟩ := WF_coll_isSet w1
    simp only [h1, R.asSet]
    by_cases he : argv.isEmpty = true
    · simp only [he, if_true]
      refine Res.val rfl ⟨p1, m1⟩ (WF_empty _) n1 ?_
      dsucc g hg
      rw [denote_filterT _ _ _ _ _ _ _ _ (by simpa using hl), d1 g (by omega)]
      simp [dSet, dVal, members, he]
    · simp only [he, Bool.false_eq_true, if_false]
      rcases evParams_sim c rz Γ ρ f kts hps [] st1 (hinv.of_data p1) with
        ⟨st2, h2, p2, m2, q, hq, dq⟩ | ⟨pl, st2, h2, p2, m2, w2, ne2, d2⟩ | ⟨fl, k, hb, hf⟩
      · simp only [h2]
        refine Res.val rfl ⟨by rw [p2, p1], by omega⟩ (WF_empty _) n1 ?_
        dsucc g hg
        rw [denote_filterT _ _ _ _ _ _ _ _ (by simpa using hl), d1 g (by omega)]
        have hany : ((kts.map (·.1.1)).map fun k => dSet (denote (senvOf env) g ρ k)).any (fun p => p == some []) = true := by
          apply any_some_nil_of_mem
          rw [← dq g (by omega)]
          exact List.mem_map.mpr ⟨q.1.1, List.mem_map.mpr ⟨q, hq, rfl⟩, rfl⟩
        simp [dSet, dVal, members, he] at hany ⊢
        simp [hany]
      · simp only [h2, List.nil_append]
        have hn : noAnyList ts = true := by simpa [noAny_coll, noAny_tuple] using n1
        have hel : ∀ el ∈ argv, ∀ ip ∈ idx.zip pl, ∃ cv, Val.component el ip.1 = some cv ∧
            Val.mem cv ip.2 = isMember cv ip.2 := by
          intro el hel ip hip
          obtain ⟨ty, hct, hw, hna⟩ := forall₂_zip hfa w2 ip hip
          obtain ⟨cs, rfl⟩ := WF_tuple_isTuple (w1.mem hel)
          obtain ⟨cv, hcv, wcv⟩ := component_WF (WF_tuple_iff.mp (w1.mem hel)).1 hct
          exact ⟨cv, hcv, mem_agrees_WF hna wcv hw⟩
        obtain ⟨bs, hbs, hmm⟩ := filterT_agrees idx pl argv hel
        simp only [hbs]
        refine Res.val rfl ⟨by rw [p2, p1], by omega⟩ (kept_WF (fun x hx => w1.mem hx) bs) n1 ?_
        dsucc g hg
        rw [denote_filterT _ _ _ _ _ _ _ _ (by simpa using hl), d2 g (by omega), d1 g (by omega),
          any_some_nil_false ne2, mapM_id_map_some]
        simp only [dSet, dVal, members, Option.bind_some, he, Bool.false_eq_true, if_false, hmm, Option.map_some, keep_eq]
      · simp only [hb]
        exact Res.bad ⟨fl, k, rfl, hf⟩
  · exact Res.bad ⟨fl, k, by simp [hb, R.asSet], hf⟩

/-- an empty parameter keeps no member -/
theorem keep_of_mapM_false (idx : List Int) : ∀ (l : List Val) (r : List (Val × Bool)),
    l.mapM (fun x => (select x idx).map fun tp => (x, isMember tp ([] : List Val))) = some r → keep r = .s []
  | [], r, h => by simp at h; subst h; rfl
  | x :: l, r, h => by
    rw [List.mapM_cons] at h
    cases hs : select x idx with
    | none => simp [hs] at h
    | some tp =>
      cases hl : l.mapM (fun x => (select x idx).map fun tp => (x, isMember tp ([] : List Val))) with
      | none => rw [hs, hl] at h; simp at h
      | some r' =>
        rw [hs, hl] at h
        have h' : r = (x, isMember tp ([] : List Val)) :: r' := by
          simpa using h.symm
        subst h'
        have := keep_of_mapM_false idx l r' hl
        simpa [keep, isMember, List.filter_cons] using this

/-- **`Fi_{i1,…,ik}[P](S)`** (one parameter for several indices) -/
theorem sim_filterC (c : Ctx) (rz : Rz) (Γ : TCtx) (ρ : LEnv) (f : Nat) (p : Option Tok) (st : St)
    (idx : List Int) (lo hi : Int) (par par' arg arg' : Ast) (ts : List Ty) (τ : Ty)
    (hlen : idx.length ≠ 1) (hidx : projTy ts idx = some τ)
    (hpar : ∀ st, Inv env c rz Γ ρ st →
      Res env f ρ par (fun st' => st'.data = st.data ∧ st.iters ≤ st'.iters) (.ty (.coll τ))
        (ev c f par' (some .FILTER) st))
    (harg : ∀ st, Inv env c rz Γ ρ st →
      Res env f ρ arg (fun st' => st'.data = st.data ∧ st.iters ≤ st'.iters) (.ty (.coll (.tuple ts)))
        (ev c f arg' (some .FILTER) st))
    (hinv : Inv env c rz Γ ρ st) :
    Res env (f + 1) ρ (.node .FILTER (.tuple idx) lo hi [par, arg])
      (fun st' => st'.data = st.data ∧ st.iters ≤ st'.iters) (.ty (.coll (.tuple ts)))
      (ev c (f + 1) (.node .FILTER (.tuple idx) lo hi [par', arg']) p st) := by
  rw [ev_filterC _ _ _ _ _ _ _ _ _ hlen]
  rcases harg st hinv with ⟨v1, st1, h1, ⟨p1, m1⟩, w1, n1, d1⟩ | ⟨fl, k, hb, hf⟩
  · obtain ⟨argv, rfl⟩ := WF_coll_isSet w1
    simp only [h1, R.asSet]
    by_cases he : argv.isEmpty = true
    · simp only [he, if_true]
      refine Res.val rfl ⟨p1, m1⟩ (WF_empty _) n1 ?_
      dsucc g hg
      rw [denote_filterC _ _ _ _ _ _ _ _ hlen, d1 g (by omega)]
      simp [dSet, dVal, members, he]
    · simp only [he, Bool.false_eq_true, if_false]
      rcases hpar st1 (hinv.of_data p1) with ⟨v2, st2, h2, ⟨p2, m2⟩, w2, n2, d2⟩ | ⟨fl, k, hb, hf⟩
      · obtain ⟨pv, rfl⟩ := WF_coll_isSet w2
        simp only [h2]
        have hnτ : noAny τ = true := by simpa [noAny_coll] using n2
        have hel : ∀ el ∈ argv, ∃ tp, Val.project el idx = some tp ∧ Val.mem tp pv = isMember tp pv := by
          intro el hel
          obtain ⟨tp, htp, wtp⟩ := project_WF (w1.mem hel) hidx
          exact ⟨tp, htp, mem_agrees_WF hnτ wtp w2⟩
        obtain ⟨bs, hbs, hmm⟩ := filterC_agrees idx pv argv hel
        have hden : ∀ g, f ≤ g → denote (senvOf env) (g + 1) ρ (.node .FILTER (.tuple idx) lo hi [par, arg]) =
            some (.val (keep (argv.zip bs))) := by
          intro g hg
          rw [denote_filterC _ _ _ _ _ _ _ _ hlen, d1 g hg, d2 g hg]
          simp only [dSet, dVal, members, Option.bind_some, he, Bool.false_eq_true, if_false, hmm, Option.map_some]
        by_cases hpe : pv.isEmpty = true
        · simp only [hpe, if_true]
          refine Res.val rfl ⟨by rw [p2, p1], by omega⟩ (WF_empty _) n1 ?_
          dsucc g hg
          rw [hden g (by omega)]
          -- an empty parameter: no member is kept
          have hpv : pv = [] := by simpa using hpe
          subst hpv
          rw [keep_of_mapM_false idx argv _ hmm]
        · simp only [hpe, Bool.false_eq_true, if_false, hbs]
          refine Res.val rfl ⟨by rw [p2, p1], by omega⟩ (kept_WF (fun x hx => w1.mem hx) bs) n1 ?_
          dsucc g hg
          rw [hden g (by omega), keep_eq]
      · simp only [hb]
        exact Res.bad ⟨fl, k, rfl, hf⟩
  · exact Res.bad ⟨fl, k, by simp [hb, R.asSet], hf⟩

end CCVerif.Eval
