import CCVerif.Lemmas.JsonDocModelLoad
/-
C10, model documents: the loader establishes `Model.LoadedWF` on ANY accepted document
(`model_load_wf_core`), and `Model.Keyed` when the `entityUID`s of the `data` array are distinct
(`model_load_keyed_core`).
-/
namespace CCVerif.JsonDoc
open CCVerif.Json CCVerif.Core CCVerif.SDC

/-! ### the text codec loads keys `1..n` -/

theorem pushBack_go_fresh' (t : TextInterp) (k : Int) (h : ∀ p ∈ t, p.1 ≠ k) :
    ∀ fuel, fuel ≠ 0 → pushBack.go t fuel k = k := by
  intro fuel hf
  cases fuel with
  | zero => exact absurd rfl hf
  | succ f =>
    unfold pushBack.go
    have : (t.any (·.1 == k)) = false := by
      rw [List.any_eq_false]; intro p hp; simpa using h p hp
    simp [this]

theorem pushBack_contiguous (acc : TextInterp) (s : String) (hc : Contiguous acc) : Contiguous (pushBack acc s) := by
  have hkeys : ∀ p ∈ acc, p.1 ≠ ((acc.length : Nat) : Int) + 1 := by
    intro p hp
    have hm : p.1 ∈ acc.map (·.1) := List.mem_map.2 ⟨p, hp, rfl⟩
    rw [hc] at hm
    obtain ⟨i, hi, e⟩ := List.mem_map.1 hm
    have := List.mem_range.1 hi
    omega
  have hpb : pushBack acc s = acc ++ [(((acc.length : Nat) : Int) + 1, s)] := by
    unfold pushBack
    rw [pushBack_go_fresh' acc _ hkeys _ (by omega)]
  rw [hpb]; unfold Contiguous at *
  simp [hc, List.range_succ]

theorem foldl_pushBack_contig (ss : List String) (acc : TextInterp) (hc : Contiguous acc) :
    Contiguous (ss.foldl pushBack acc) := by
  induction ss generalizing acc with
  | nil => exact hc
  | cons s ss ih => rw [List.foldl_cons]; exact ih _ (pushBack_contiguous acc s hc)

theorem text_load_contig : TextContig := by
  intro j t h
  unfold TextInterp.fromJson at h
  split at h
  · simp only [Option.map_eq_some_iff] at h
    obtain ⟨ss, _, rfl⟩ := h
    exact foldl_pushBack_contig ss [] (by simp [Contiguous])
  · cases h

/-! ### no tracking flags after `from_json(RSCore)` -/

/-- the translator applied for a replaced alias leaves everything but the formal definition and
the raw texts alone — `RenameOK` plus the tracking flags (`RSConcept::Translate` /
`TextConcept::TranslateRaw` do not know about `Mods()`) -/
structure RenameKeeps (env : Env) : Prop where
  ok : RenameOK env
  track : ∀ o n r, (env.rename o n r).track = r.track

/-- the harness's / driver's loader input: no renaming at all -/
theorem renameKeeps_id (env : Env) (h : env.rename = fun _ _ r => r) : RenameKeeps env := by
  refine ⟨?_, ?_⟩
  · intro o n r; rw [h]; exact ⟨rfl, rfl, rfl, rfl⟩
  · intro o n r; rw [h]

theorem recordFromJson_track (j : Json) (r : Record) (h : recordFromJson j = some r) : r.track = none := by
  simp only [recordFromJson, Option.bind_eq_bind, Option.bind_eq_some_iff, Option.pure_def] at h
  obtain ⟨uid, _, ty, _, alias, _, conv, _, h⟩ := h
  split at h
  · simp only [Option.bind_some] at h
    split at h
    · simp only [Option.bind_some, Option.some.injEq] at h; subst h; rfl
    · simp only [Option.bind_eq_some_iff, Option.some.injEq] at h
      obtain ⟨fd, _, rfl⟩ := h; rfl
  · simp only [Option.bind_eq_some_iff] at h
    obtain ⟨tf, htf, h⟩ := h
    split at h
    · simp only [Option.bind_some, Option.some.injEq] at h; subst h; rfl
    · simp only [Option.bind_eq_some_iff, Option.some.injEq] at h
      obtain ⟨fd, _, rfl⟩ := h; rfl

theorem loadAll_noTrack (env : Env) (hk : RenameKeeps env) (rs : List Record) (st st' : LoadSt)
    (h : loadAll env st rs = some st') (hs : ∀ r ∈ st.items, r.track = none) (hr : ∀ r ∈ rs, r.track = none) :
    ∀ r ∈ st'.items, r.track = none := by
  induction rs generalizing st with
  | nil => simp only [loadAll, Option.some.injEq] at h; subst h; exact hs
  | cons r rs ih =>
    unfold loadAll at h
    split at h
    · next st1 h1 =>
      apply ih st1 h
      · unfold loadRecord at h1
        split at h1
        · cases h1
        · simp only [Option.some.injEq] at h1
          subst h1
          intro x hx
          rcases (mem_insertAt _ _ _ _).1 hx with rfl | hx
          · split
            · rw [hk.track]; exact hr r (by simp)
            · exact hr r (by simp)
          · exact hs x hx
      · intro x hx; exact hr x (by simp [hx])
    · cases h

theorem loadItems_noTrack (env : Env) (hk : RenameKeeps env) (j : Json) (res : List Record × List Record)
    (h : loadItems env j = some res) : ∀ r ∈ res.2, r.track = none := by
  simp only [loadItems, Option.bind_eq_bind, Option.bind_eq_some_iff, Option.pure_def, Option.some.injEq] at h
  obtain ⟨xs, _, rs, hrs, st, hst, rfl⟩ := h
  have hfr : ∀ r ∈ rs, r.track = none := by
    intro r hr
    obtain ⟨x, _, hx⟩ := mapM_some_mem recordFromJson xs rs hrs r hr
    exact recordFromJson_track x r hx
  have := loadAll_noTrack env hk rs {} st hst (fun r hr => nomatch hr) hfr
  intro r hr
  simp only [applyDerived, List.mem_map] at hr
  obtain ⟨x, hx, rfl⟩ := hr
  exact this x hx

/-! ### one `data` element as read -/

def DecSpec (items : List Record) (ty : Nat → Option Ty) (j : Json) (u : Upd) : Prop :=
  (j.get "entityUID").bind asNat = some u.uid ∧
  ∃ kind, kindOf items u.uid = some kind ∧
      (∀ v, u.sdata = some v → isRSObject kind = true ∧ ∃ τ, ty u.uid = some τ) ∧
      (∀ t, u.texts = some t → isBaseSet kind = true ∧ Contiguous t) ∧
      (∀ b, u.stmt = some b → isRSObject kind = false ∧ isCallable kind = false)

theorem decodeEntry_spec (htc : TextContig) (items : List Record) (ty : Nat → Option Ty) (j : Json) (u : Upd)
    (h : decodeEntry items ty j = some (some u)) :
    DecSpec items ty j u := by
  unfold decodeEntry at h
  simp only [Option.bind_eq_bind, Option.bind_eq_some_iff, Option.pure_def] at h
  obtain ⟨uid, huid, h⟩ := h
  rw [← Option.bind_eq_some_iff] at huid
  split at h
  · cases h
  · next kind hkind =>
    rw [Option.bind_eq_some_iff] at h
    obtain ⟨wc, _, h⟩ := h
    by_cases hrs : isRSObject kind = true
    · rw [if_pos hrs] at h
      have fin : ∀ (sd : Option Val), (∀ v, sd = some v → ∃ τ, ty uid = some τ) →
          ((match j.get "texts" with
            | none => (some none).bind fun texts => some (some { uid := uid, wasCalc := wc, sdata := sd, texts := texts })
            | some t =>
              if isBaseSet kind = true then
                (Option.map some (TextInterp.fromJson t)).bind fun texts =>
                  some (some { uid := uid, wasCalc := wc, sdata := sd, texts := texts })
              else (some none).bind fun texts => some (some ({ uid := uid, wasCalc := wc, sdata := sd, texts := texts } : Upd))) = some (some u)) →
          DecSpec items ty j u := by
        intro sd hsd h
        split at h
        · simp only [Option.bind_some, Option.some.injEq] at h
          subst h
          exact ⟨huid, kind, hkind, fun v hv => ⟨hrs, hsd v hv⟩, (by intro _ hx; simp at hx), (by intro _ hx; simp at hx)⟩
        · next t _ =>
          by_cases hb : isBaseSet kind = true
          · rw [if_pos hb] at h
            cases hft : TextInterp.fromJson t with
            | none => rw [hft] at h; cases h
            | some t' =>
              rw [hft] at h
              simp only [Option.map_some, Option.bind_some, Option.some.injEq] at h
              subst h
              refine ⟨huid, kind, hkind, fun v hv => ⟨hrs, hsd v hv⟩, ?_, (by intro _ hx; simp at hx)⟩
              intro t2 ht2
              simp only [Option.some.injEq] at ht2
              subst ht2
              exact ⟨hb, htc _ _ hft⟩
          · rw [if_neg hb] at h
            simp only [Option.bind_some, Option.some.injEq] at h
            subst h
            exact ⟨huid, kind, hkind, fun v hv => ⟨hrs, hsd v hv⟩, (by intro _ hx; simp at hx), (by intro _ hx; simp at hx)⟩
      split at h
      · exact fin none ((by intro _ hx; simp at hx)) h
      · split at h
        · exact fin none ((by intro _ hx; simp at hx)) h
        · next τ hτ =>
          split at h
          · cases h
          · split at h
            · exact fin _ (fun v _ => ⟨τ, hτ⟩) h
            · exact fin none ((by intro _ hx; simp at hx)) h
            · cases h
    · rw [if_neg hrs] at h
      have hrs' : isRSObject kind = false := by simpa using hrs
      by_cases hc : isCallable kind = true
      · simp only [hc, Bool.not_true, Bool.false_eq_true, if_false, Option.some.injEq] at h
        subst h
        exact ⟨huid, kind, hkind, (by intro _ hx; simp at hx), (by intro _ hx; simp at hx), (by intro _ hx; simp at hx)⟩
      · have hc' : isCallable kind = false := by simpa using hc
        simp only [hc', Bool.not_false, if_true] at h
        split at h
        · simp only [Option.some.injEq] at h
          subst h
          exact ⟨huid, kind, hkind, (by intro _ hx; simp at hx), (by intro _ hx; simp at hx), (by intro _ hx; simp at hx)⟩
        · rw [Option.bind_eq_some_iff] at h
          obtain ⟨b, _, h⟩ := h
          simp only [Option.some.injEq] at h
          subst h
          exact ⟨huid, kind, hkind, (by intro _ hx; simp at hx), (by intro _ hx; simp at hx), fun b hb => ⟨hrs', hc'⟩⟩

/-! ### the invariant of the store -/

/-- every entry of the store belongs to a constituent, satisfies `LoadedEntry` for it and carries
the typification `ty` gives -/
def StoreInv (items : List Record) (ty : Nat → Option Ty) (store : List DataEntry) : Prop :=
  ∀ e ∈ store, ∃ r ∈ items, r.uid = e.uid ∧ LoadedEntry r e ∧ e.typif = ty e.uid

theorem applyUpd_inv (htc : TextContig) (items : List Record) (hnd : (items.map (·.uid)).Nodup) (ty : Nat → Option Ty)
    (store : List DataEntry) (j : Json) (u : Upd) (hd : decodeEntry items ty j = some (some u))
    (hi : StoreInv items ty store) :
    StoreInv items ty (applyUpd store u) ∧ (applyUpd store u).map (·.uid) = store.map (·.uid) := by
  obtain ⟨_, kind, hkind, h1, h2, h3⟩ := decodeEntry_spec htc items ty j u hd
  constructor
  · intro e he
    simp only [applyUpd, List.mem_map] at he
    obtain ⟨e0, he0, rfl⟩ := he
    obtain ⟨r, hr, hru, hw, hty⟩ := hi e0 he0
    split
    · next heq =>
      have hk : kind = r.type := by
        have := find_of_nodup items hnd r hr
        rw [hru, heq] at this
        simp [kindOf, this] at hkind
        exact hkind.symm
      subst hk
      obtain ⟨g1, g2⟩ := applyOne_loaded r e0 u hw
        (fun v hv => by
          obtain ⟨a, τ, hτ⟩ := h1 v hv
          exact ⟨a, τ, by rw [hty, heq]; exact hτ⟩) h2 h3
      exact ⟨r, hr, by rw [applyOne_uid]; exact hru, g1, by rw [g2, applyOne_uid]; exact hty⟩
    · exact ⟨r, hr, hru, hw, hty⟩
  · simp only [applyUpd, List.map_map]
    apply List.map_congr_left
    intro e _
    simp only [Function.comp]
    split
    · exact applyOne_uid e u
    · rfl

theorem foldl_applyUpd_inv (htc : TextContig) (items : List Record) (hnd : (items.map (·.uid)).Nodup) (ty : Nat → Option Ty)
    (xs : List Json) (us : List (Option Upd)) (hx : xs.mapM (decodeEntry items ty) = some us)
    (store : List DataEntry) (hi : StoreInv items ty store) :
    StoreInv items ty ((us.filterMap id).foldl applyUpd store) ∧
      ((us.filterMap id).foldl applyUpd store).map (·.uid) = store.map (·.uid) := by
  induction us generalizing xs store with
  | nil => exact ⟨hi, rfl⟩
  | cons o us ih =>
    cases xs with
    | nil => simp at hx
    | cons x xs =>
      rw [List.mapM_cons] at hx
      simp only [Option.bind_eq_bind, Option.bind_eq_some_iff, Option.pure_def, Option.some.injEq, List.cons.injEq] at hx
      obtain ⟨o', ho, us', hus, rfl, rfl⟩ := hx
      cases o' with
      | none => simpa using ih xs hus store hi
      | some u =>
        simp only [List.filterMap_cons, id, List.foldl_cons]
        obtain ⟨a, b⟩ := applyUpd_inv htc items hnd ty store x u ho hi
        obtain ⟨c, d⟩ := ih xs hus _ a
        exact ⟨c, d.trans b⟩

theorem resetFor_spec (items : List Record) (ty : Nat → Option Ty) (u : Nat) (e : DataEntry)
    (h : resetFor items ty u = some e) : e.uid = u ∧ ∃ r ∈ items, r.uid = u ∧ e = resetEntry r (ty u) := by
  simp only [resetFor, Option.map_eq_some_iff] at h
  obtain ⟨r, hr, rfl⟩ := h
  have hm := List.mem_of_find?_eq_some hr
  have hp := List.find?_some hr
  have hu : r.uid = u := by simpa using hp
  exact ⟨by rw [(resetEntry_loaded r (ty u)).2.2]; exact hu, r, hm, hu, rfl⟩

theorem loadData_loaded (htc : TextContig) (items : List Record) (hnd : (items.map (·.uid)).Nodup) (ty : Nat → Option Ty)
    (j : Json) (data : List DataEntry) (h : loadData items ty j = some data) :
    StoreInv items ty data ∧ data.map (·.uid) = sortUids (items.map (·.uid)) := by
  simp only [loadData, Option.bind_eq_bind, Option.bind_eq_some_iff, Option.pure_def, Option.some.injEq] at h
  obtain ⟨store, hstore, xs, _, us, hus, rfl⟩ := h
  have hkeys : store.map (·.uid) = sortUids (items.map (·.uid)) :=
    mapM_key (resetFor items ty) (·.uid) (fun x y hxy => (resetFor_spec items ty x y hxy).1) _ _ hstore
  have hi : StoreInv items ty store := by
    intro e he
    obtain ⟨u, _, hu⟩ := mapM_some_mem _ _ _ hstore e he
    obtain ⟨h1, r, hr, hru, rfl⟩ := resetFor_spec items ty u e hu
    obtain ⟨g1, g2, g3⟩ := resetEntry_loaded r (ty u)
    exact ⟨r, hr, g3.symm, g1, by rw [g2, g3, hru]⟩
  obtain ⟨a, b⟩ := foldl_applyUpd_inv htc items hnd ty xs us hus store hi
  exact ⟨a, b.trans hkeys⟩

/-- **the loader establishes `LoadedWF`** -/
theorem model_load_wf_core (hn : NormIdem) (env : Env) (hk : RenameKeeps env) (d : Json) (c : Model)
    (h : Model.fromJson env d = some c) : c.LoadedWF := by
  simp only [Model.fromJson, Option.bind_eq_bind, Option.bind_eq_some_iff, Option.pure_def, Option.some.injEq] at h
  obtain ⟨title, _, alias, _, comment, _, loaded, ⟨ij, _, hl⟩, data, ⟨dj, _, hd⟩, rfl⟩ := h
  have hw := loadItems_any_wf env hk.ok hn ij loaded hl
  have hnt := loadItems_noTrack env hk ij loaded hl
  obtain ⟨hi, hu⟩ := loadData_loaded text_load_contig loaded.2 hw.load.uids _ dj data hd
  refine ⟨hw, hnt, hu, ?_⟩
  intro e he
  obtain ⟨r, hr, hru, hle, _⟩ := hi e he
  exact ⟨r, hr, hru, hle⟩

/-! ### `Keyed` from distinct `entityUID`s -/

/-- the `entityUID`s of the `data` array of a document, in document order -/
def dataUids (d : Json) : List Nat :=
  match (d.get "data") >>= Json.asArr with
  | some xs => xs.filterMap fun j => (j.get "entityUID").bind asNat
  | none => []

theorem decodeEntry_has_uid (items : List Record) (ty : Nat → Option Ty) (j : Json) (o : Option Upd)
    (h : decodeEntry items ty j = some o) : ∃ n, (j.get "entityUID").bind asNat = some n := by
  unfold decodeEntry at h
  simp only [Option.bind_eq_bind] at h
  rw [Option.bind_eq_some_iff] at h
  obtain ⟨uid, huid, _⟩ := h
  exact ⟨uid, huid⟩

theorem decoded_uids_sublist (items : List Record) (ty : Nat → Option Ty) (xs : List Json) (us : List (Option Upd))
    (hx : xs.mapM (decodeEntry items ty) = some us) :
    ((us.filterMap id).map (·.uid)).Sublist (xs.filterMap fun j => (j.get "entityUID").bind asNat) := by
  induction xs generalizing us with
  | nil => simp at hx; subst hx; simp
  | cons x xs ih =>
    rw [List.mapM_cons] at hx
    simp only [Option.bind_eq_bind, Option.bind_eq_some_iff, Option.pure_def, Option.some.injEq] at hx
    obtain ⟨o, ho, us', hus, rfl⟩ := hx
    cases o with
    | none =>
      obtain ⟨n, hn⟩ := decodeEntry_has_uid items ty x none ho
      simp only [List.filterMap_cons, hn, id]
      exact (ih us' hus).cons n
    | some u =>
      have hn := (decodeEntry_spec text_load_contig items ty x u ho).1
      simp only [List.filterMap_cons, hn, id, List.map_cons]
      exact (ih us' hus).cons_cons u.uid

/-- with distinct uids every entry of the store is touched at most once -/
theorem foldl_applyUpd_once (us : List Upd) (hnd : (us.map (·.uid)).Nodup) (store : List DataEntry) :
    ∀ e ∈ us.foldl applyUpd store, e ∈ store ∨ ∃ e0 ∈ store, ∃ u ∈ us, e0.uid = u.uid ∧ e = applyOne e0 u := by
  induction us generalizing store with
  | nil => intro e he; exact Or.inl he
  | cons u us ih =>
    simp only [List.map_cons, List.nodup_cons] at hnd
    intro e he
    rw [List.foldl_cons] at he
    have hmem : ∀ x ∈ applyUpd store u, x ∈ store ∨ ∃ e0 ∈ store, e0.uid = u.uid ∧ x = applyOne e0 u := by
      intro x hx
      simp only [applyUpd, List.mem_map] at hx
      obtain ⟨e0, he0, rfl⟩ := hx
      split
      · next heq => exact Or.inr ⟨e0, he0, heq, rfl⟩
      · exact Or.inl he0
    rcases ih hnd.2 _ e he with h | ⟨e1, he1, u', hu', huid, rfl⟩
    · rcases hmem e h with h | ⟨e0, he0, heq, rfl⟩
      · exact Or.inl h
      · exact Or.inr ⟨e0, he0, u, by simp, heq, rfl⟩
    · rcases hmem e1 he1 with h | ⟨e0, he0, heq, rfl⟩
      · exact Or.inr ⟨e1, h, u', by simp [hu'], huid, rfl⟩
      · exfalso
        rw [applyOne_uid] at huid
        apply hnd.1
        rw [← heq, huid]
        exact List.mem_map.2 ⟨u', hu', rfl⟩

theorem keyed_applyOne (e0 : DataEntry) (u : Upd) (h0 : e0.texts = none ∨ e0.texts = some []) (t : TextInterp)
    (h : (applyOne e0 u).texts = some t) (hne : t ≠ []) : (applyOne e0 u).sdata = some (keysSet t) := by
  obtain ⟨uu, wc, sd, tx, st⟩ := u
  obtain ⟨uid, ewc, typif, sdata, texts, stmt⟩ := e0
  simp only at h0
  rcases h0 with rfl | rfl <;> cases sd <;> cases tx <;> cases st <;> simp [applyOne] at h ⊢ <;>
    (try (subst h; exact absurd rfl hne)) <;> (try (split at h <;> simp_all)) <;> (try simp_all)

theorem resetEntry_texts (r : Record) (τ : Option Ty) :
    (resetEntry r τ).texts = none ∨ (resetEntry r τ).texts = some [] := by
  unfold resetEntry
  split
  · exact Or.inr rfl
  · split <;> exact Or.inl rfl

theorem loadData_keyed (items : List Record) (ty : Nat → Option Ty) (j : Json) (data : List DataEntry)
    (h : loadData items ty j = some data)
    (hnd : ∀ xs, j.asArr = some xs → (xs.filterMap fun x => (x.get "entityUID") >>= asNat).Nodup) :
    ∀ e ∈ data, ∀ t, e.texts = some t → t ≠ [] → e.sdata = some (keysSet t) := by
  simp only [loadData, Option.bind_eq_bind, Option.bind_eq_some_iff, Option.pure_def, Option.some.injEq] at h
  obtain ⟨store, hstore, xs, hxs, us, hus, rfl⟩ := h
  have hn := (decoded_uids_sublist items ty xs us hus).nodup (hnd xs hxs)
  have hreset : ∀ e ∈ store, ∃ r τ, e = resetEntry r τ := by
    intro e he
    obtain ⟨u, _, hu⟩ := mapM_some_mem _ _ _ hstore e he
    obtain ⟨_, r, _, _, rfl⟩ := resetFor_spec items ty u e hu
    exact ⟨r, _, rfl⟩
  intro e he t ht hne
  rcases foldl_applyUpd_once _ hn store e he with h | ⟨e0, he0, u, _, _, rfl⟩
  · obtain ⟨r, τ, rfl⟩ := hreset e h
    exfalso
    rcases resetEntry_texts r τ with h0 | h0 <;> rw [h0] at ht
    · cases ht
    · simp only [Option.some.injEq] at ht; exact hne ht.symm
  · obtain ⟨r, τ, rfl⟩ := hreset e0 he0
    exact keyed_applyOne _ u (resetEntry_texts r τ) t ht hne

/-- **distinct `entityUID`s in the `data` array give `Keyed`** -/
theorem model_load_keyed_core (env : Env) (d : Json) (c : Model)
    (h : Model.fromJson env d = some c) (hnd : (dataUids d).Nodup) : c.Keyed := by
  simp only [Model.fromJson, Option.bind_eq_bind, Option.bind_eq_some_iff, Option.pure_def, Option.some.injEq] at h
  obtain ⟨title, _, alias, _, comment, _, loaded, _, data, ⟨dj, hdj, hd⟩, rfl⟩ := h
  apply loadData_keyed _ _ dj data hd
  intro xs hxs
  have : (d.get "data") >>= Json.asArr = some xs := by simp [hdj, hxs]
  simpa [dataUids, this] using hnd

/-! ### updated state for an `Env` whose recomputation does not look at the record list -/

/-- `analyse` / `typif` are functions of the uid alone (the driver's `envOf`) -/
def EnvConst (env : Env) : Prop :=
  (∀ l l' u, env.analyse l u = env.analyse l' u) ∧ (∀ l l' u, env.typif l u = env.typif l' u)

theorem model_load_updated (hn : NormIdem) (env : Env) (hk : RenameKeeps env) (hc : EnvConst env) (d : Json) (c : Model)
    (h : Model.fromJson env d = some c) : ModelUpdated env c := by
  simp only [Model.fromJson, Option.bind_eq_bind, Option.bind_eq_some_iff, Option.pure_def, Option.some.injEq] at h
  obtain ⟨title, _, alias, _, comment, _, loaded, ⟨ij, _, hl⟩, data, ⟨dj, _, hd⟩, rfl⟩ := h
  have hw := loadItems_any_wf env hk.ok hn ij loaded hl
  obtain ⟨hi, _⟩ := loadData_loaded text_load_contig loaded.2 hw.load.uids _ dj data hd
  constructor
  · simp only [loadItems, Option.bind_eq_bind, Option.bind_eq_some_iff, Option.pure_def, Option.some.injEq] at hl
    obtain ⟨xs, _, rs, _, st, _, rfl⟩ := hl
    intro r hr
    simp only [applyDerived, List.mem_map] at hr
    obtain ⟨x, _, rfl⟩ := hr
    rw [hc.1 _ st.items]
    rfl
  · intro e he
    obtain ⟨_, _, _, _, hty⟩ := hi e he
    rw [hty]
    exact hc.2 _ _ _

/-- Boolean form of `ValsOK` (for closed examples) -/
def Model.valsOKb (c : Model) : Bool :=
  c.data.all fun e =>
    match e.typif, e.sdata with
    | some τ, some v => τ.wf && compat v τ && noMarker v
    | _, _ => true

theorem valsOK_of_b (c : Model) (h : c.valsOKb = true) : c.ValsOK := by
  intro e he τ v hτ hv
  have := List.all_eq_true.1 h e he
  rw [hτ, hv] at this
  simp only [Bool.and_eq_true] at this
  exact ⟨this.1.1, this.1.2, this.2⟩

end CCVerif.JsonDoc
