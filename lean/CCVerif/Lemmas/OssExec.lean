import CCVerif.Model.Oss
import CCVerif.Lemmas.Oss
import CCVerif.Lemmas.OssRel
import CCVerif.Lemmas.OssInv
import CCVerif.Lemmas.OssTop
/-!
C19, freshness: `InitFor`, `SaveOperationResult` (the guarded write), `RunOperation`, `Execute`,
`ExecuteAll` for the repaired variant preserve the invariant between calls and the freshness
invariant (`Step`).
-/
namespace CCVerif.Oss

/-- a whole API call on the dynamic state -/
structure Step (s : Struct) (d d' : Dyn) : Prop where
  fault : d'.fault = none → d.fault = none
  post : DInv s d → J7 s noEx d → d'.fault = none → DInv s d' ∧ J7 s noEx d'

theorem Step.refl (s : Struct) (d : Dyn) : Step s d d := ⟨id, fun a b _ => ⟨a, b⟩⟩

theorem Step.trans {s : Struct} {a b c : Dyn} (h1 : Step s a b) (h2 : Step s b c) : Step s a c := by
  refine ⟨fun h => h1.fault (h2.fault h), fun i j hf => ?_⟩
  obtain ⟨i1, j1⟩ := h1.post i j (h2.fault hf)
  exact h2.post i1 j1 hf

theorem J7.of_jrel' {s : Struct} (g : GraphOk s) {E X Y : Pid → Prop} {d d' : Dyn} (h : J7 s E d) (r : JRel s X d d')
    (hY : ∀ q, E q ∨ X q → Y q) : J7 s Y d' :=
  (h.of_jrel g r).mono hY

theorem Good.step {s : Struct} (g : GraphOk s) {d d' : Dyn} (h : Good s noEx d d') : Step s d d' := by
  refine ⟨h.fault, fun i j hf => ?_⟩
  obtain ⟨i1, r⟩ := h.post i hf
  exact ⟨i1, j.of_jrel' g r (by intro q e; rcases e with e | e <;> exact e)⟩

theorem Step.foldl {s : Struct} {α} (f : Dyn → α → Dyn) (hf : ∀ d x, Step s d (f d x)) :
    ∀ (l : List α) (d : Dyn), Step s d (l.foldl f d)
  | [], d => Step.refl s d
  | x :: l, d => (hf d x).trans (Step.foldl f hf l (f d x))

/-- J7 with an exemption, through a good piece -/
theorem J7.good {s : Struct} (g : GraphOk s) {E X : Pid → Prop} {d d' : Dyn} (j : J7 s E d) (h : Good s X d d')
    (i : DInv s d) (hf : d'.fault = none) : DInv s d' ∧ J7 s (fun q => E q ∨ X q) d' := by
  obtain ⟨i1, r⟩ := h.post i hf
  exact ⟨i1, j.of_jrel g r⟩

/-! ## `InitFor` -/

theorem J7.setOp_reset {s : Struct} {E : Pid → Prop} {d : Dyn} (j : J7 s E d) (p : Pid) (x : OpHandle) (hx : x.built = none) :
    J7 s E (d.setOp p x) := by
  intro c hc ho b1 b2 hb p1 p2 hpar
  rw [Dyn.op_setOp] at ho hb
  split at ho
  · rename_i e; subst e
    simp only [if_true] at hb
    rw [hx] at hb; cases hb
  · rename_i e
    simp only [if_neg e] at hb
    exact j c hc ho b1 b2 hb p1 p2 hpar

theorem DInv.setOp {s : Struct} {d : Dyn} (h : DInv s d) (p : Pid) (x : OpHandle) : DInv s (d.setOp p x) :=
  ⟨h.dnd, h.h.setOp p x, h.c2⟩

theorem DInv.stuck {s : Struct} {d : Dyn} (h : DInv s d) (w : String) : DInv s (d.stuck w) :=
  ⟨h.dnd, h.h.stuck w, h.c2⟩

theorem initFor_step {s : Struct} (g : GraphOk s) (o : Oracle) (d : Dyn) (p : Pid) (t : OpType) (opts : Opts) (same : Bool) :
    Step s d (initFor s Variant.repaired o d p t opts same).1 := by
  unfold initFor
  split
  · exact Step.refl _ _
  · split
    · exact Step.refl _ _
    · dsimp only
      split
      · exact Step.refl _ _
      · simp only [Variant.repaired, if_true]
        have gd := (discard_spec g o (d.setOp p { type := t, opts := opts }) p).1
        generalize discard s o (d.setOp p { type := t, opts := opts }) p = d2 at gd
        have gk := checkOp_good g o (fuelOf d2) d2 p
        generalize checkOp s o (fuelOf d2) d2 p = d3 at gk
        have gc := coreChange_good g o (fuelOf d3) d3 p
        obtain ⟨k, hk⟩ := fuelOf_succ d3
        have hm := coreChange_marks s o k d3 p
        rw [← hk] at hm
        generalize coreChange s o (fuelOf d3) d3 p = d4 at gc hm
        refine ⟨fun hf => gd.fault (gk.fault (gc.fault hf)), fun i j hf => ?_⟩
        have hf3 := gc.fault hf
        have hf2 := gk.fault hf3
        have i1 : DInv s (d.setOp p { type := t, opts := opts }) := i.setOp _ _
        have j1 : J7 s noEx (d.setOp p { type := t, opts := opts }) := j.setOp_reset p _ rfl
        obtain ⟨i2, j2⟩ := j1.good g gd i1 hf2
        obtain ⟨i3, j3⟩ := j2.good g gk i2 hf3
        obtain ⟨i4, j4⟩ := j3.good g gc i3 hf
        refine ⟨i4, ?_⟩
        apply J7.drop g (E := noEx) (p := p) (j4.mono ?_) (fun c hc => hm c hc (g.childOp p c hc))
        intro q e
        rcases e with ((e | e) | e) | e
        · exact e.elim
        · exact Or.inr e
        · exact e.elim
        · exact e.elim

/-! ## the guarded write of `SaveOperationResult` (`InputData` under the do-not-disturb guard) -/

def windowEnd (db : Dyn) (p : Pid) (n : SrcName) (xb : Source) : Dyn :=
  syncStage3 (syncStage1 ((db.setSource (annSource xb)).setHandle p { db.handle p with src := some n }) p n) p n

theorem connectInternal_dnd (s : Struct) (o : Oracle) (d : Dyn) (p : Pid) (n : SrcName) (x : Source)
    (hd : d.dnd > 0) (hx : d.source n = some x) (hs : x.saved = false) (ho : x.opened = true) :
    connectInternal s o d p n = windowEnd d p n x := by
  unfold windowEnd
  unfold connectInternal
  obtain ⟨k, hk⟩ := fuelOf_succ d
  rw [hk, announce_succ, hx]
  simp only [hs, ho, Bool.not_true, Bool.or_self, Bool.false_eq_true, if_false, hd, if_true]
  obtain ⟨k2, hk2⟩ := fuelOf_succ ((d.setSource (annSource x)).setHandle p { (d.setSource (annSource x)).handle p with src := some n })
  rw [hk2, syncPict_succ]
  simp only [Dyn.handle_setHandle, if_true, Dyn.handle_setSource]
  unfold syncStage2
  have : ¬ d.dnd = 0 := by omega
  simp [this]


theorem windowEnd_spec (db : Dyn) (p : Pid) (n : SrcName) (xb : Source) (hx : db.source n = some xb) :
    (windowEnd db p n xb).handle p = ⟨some n, some n, xb.content⟩ ∧
    (∀ q, q ≠ p → (windowEnd db p n xb).handle q = db.handle q) ∧
    (∀ m, (windowEnd db p n xb).source m = if m = n then some (annSource xb) else db.source m) ∧
    (∀ q, (windowEnd db p n xb).op q = db.op q) ∧ (windowEnd db p n xb).dnd = db.dnd ∧
    (windowEnd db p n xb).fault = db.fault ∧ (windowEnd db p n xb).nextName = db.nextName := by
  have hsrc : ∀ m, (db.setSource (annSource xb)).source m = if m = n then some (annSource xb) else db.source m :=
    fun m => Dyn.source_setSource_of (y := annSource xb) hx rfl m
  refine ⟨?_, ?_, ?_, fun _ => rfl, rfl, rfl, rfl⟩
  · simp [windowEnd, syncStage3, syncStage1, newHashOf, hsrc]
    rfl
  · intro q hq
    simp [windowEnd, syncStage3, syncStage1, hq]
  · intro m
    simp only [windowEnd, syncStage3, syncStage1, Dyn.source_setHandle]
    exact hsrc m

/-- the state after `WriteData`, relative to the state `d` before the guard was set: document `n`
holds the new content, unannounced; everything else is as in `d` -/
structure WinPre (s : Struct) (d db : Dyn) (p : Pid) (n : SrcName) (c : Content) : Prop where
  src : ∃ xb, db.source n = some xb ∧ xb.content = c ∧ xb.saved = false ∧ xb.opened = true
  oth : ∀ m, m ≠ n → db.source m = d.source m
  hq : ∀ q, q ≠ p → db.handle q = d.handle q
  ops : ∀ q, db.op q = d.op q
  dnd : db.dnd = d.dnd + 1
  fault : db.fault = d.fault
  nn : d.nextName ≤ db.nextName ∧ n ≤ db.nextName
  free : ∀ q ∈ s.storage, q ≠ p → (d.handle q).ed ≠ some n

theorem writeData_some {d : Dyn} {n : SrcName} {x : Source} (hx : d.source n = some x) (c : Content) :
    writeData d n c = d.setSource { x with content := c, saved := false } := by
  unfold writeData; rw [hx]

theorem inputTarget_some {d : Dyn} {p : Pid} {n : SrcName} (h : (d.handle p).src = some n) : inputTarget d p = (d, n) := by
  unfold inputTarget; rw [h]

theorem inputTarget_none {d : Dyn} {p : Pid} (h : (d.handle p).src = none) (hno : d.source (d.nextName + 1) = none) :
    (inputTarget d p).2 = d.nextName + 1 ∧
    (∀ m, (inputTarget d p).1.source m =
      if m = d.nextName + 1 then some ({ name := d.nextName + 1, content := 0, announced := 0 } : Source) else d.source m) ∧
    (∀ q, q ≠ p → (inputTarget d p).1.handle q = d.handle q) ∧ (∀ q, (inputTarget d p).1.op q = d.op q) ∧
    (inputTarget d p).1.dnd = d.dnd ∧ (inputTarget d p).1.fault = d.fault ∧ (inputTarget d p).1.nextName = d.nextName + 1 := by
  unfold inputTarget
  rw [h]
  dsimp only
  refine ⟨rfl, ?_, ?_, fun _ => rfl, rfl, rfl, rfl⟩
  · intro m
    rw [Dyn.source_setHandle]
    exact source_append_new d ({ name := d.nextName + 1, content := 0, announced := 0 } : Source) (d.nextName + 1) hno m
  · intro q hq
    rw [Dyn.handle_setHandle, if_neg hq]
    rfl

theorem winPre_of {s : Struct} {d : Dyn} (i : DInv s d) {p : Pid} (hp : p ∈ s.storage) (c : Content) :
    WinPre s d (writeData (inputTarget { d with dnd := d.dnd + 1 } p).1 (inputTarget { d with dnd := d.dnd + 1 } p).2 c) p
      (inputTarget { d with dnd := d.dnd + 1 } p).2 c := by
  cases hsrc : (d.handle p).src with
  | some n =>
    have hsrc' : (({ d with dnd := d.dnd + 1 } : Dyn).handle p).src = some n := hsrc
    rw [inputTarget_some hsrc']
    dsimp only
    obtain ⟨x, hx, hxo, _⟩ := i.h.conn p hp (by simp) n hsrc
    have hx' : ({ d with dnd := d.dnd + 1 } : Dyn).source n = some x := hx
    rw [writeData_some hx']
    have hs := Dyn.source_setSource_of (y := { x with content := c, saved := false }) hx' rfl
    refine ⟨⟨({ x with content := c, saved := false } : Source), by rw [hs]; simp, rfl, rfl, hxo⟩, ?_, fun _ _ => rfl,
      fun _ => rfl, rfl, rfl, ⟨Nat.le_refl _, i.h.namesS n x hx⟩, ?_⟩
    · intro m hm; rw [hs, if_neg hm]; rfl
    · intro q hq hqp e
      exact hqp (i.h.uniq q hq p hp n e (Handle.ed_of_src hsrc))
  | none =>
    have hsrc' : (({ d with dnd := d.dnd + 1 } : Dyn).handle p).src = none := hsrc
    have hno : ({ d with dnd := d.dnd + 1 } : Dyn).source (({ d with dnd := d.dnd + 1 } : Dyn).nextName + 1) = none := by
      show d.source (d.nextName + 1) = none
      cases hx : d.source (d.nextName + 1) with
      | none => rfl
      | some x => exact absurd (i.h.namesS _ x hx) (Nat.not_succ_le_self _)
    obtain ⟨t2, tsrc, thq, tops, tdnd, tfault, tnn⟩ := inputTarget_none hsrc' hno
    generalize inputTarget ({ d with dnd := d.dnd + 1 } : Dyn) p = t at t2 tsrc thq tops tdnd tfault tnn
    rw [t2]
    have hx' : t.1.source (d.nextName + 1) = some ({ name := d.nextName + 1, content := 0, announced := 0 } : Source) := by
      rw [tsrc]; exact if_pos rfl
    rw [writeData_some hx']
    have hs := Dyn.source_setSource_of
      (y := { ({ name := d.nextName + 1, content := 0, announced := 0 } : Source) with content := c, saved := false }) hx' rfl
    refine ⟨⟨_, by rw [hs]; exact if_pos rfl, rfl, rfl, rfl⟩, ?_, ?_, ?_, ?_, ?_, ⟨?_, ?_⟩, ?_⟩
    · intro m hm
      rw [hs, if_neg hm, tsrc]
      exact if_neg hm
    · intro q hq
      rw [Dyn.handle_setSource, thq q hq]; rfl
    · intro q
      show t.1.op q = d.op q
      rw [tops]; rfl
    · show t.1.dnd = d.dnd + 1
      rw [tdnd]
    · show t.1.fault = d.fault
      rw [tfault]
    · show d.nextName ≤ t.1.nextName
      rw [tnn]; exact Nat.le_succ _
    · show d.nextName + 1 ≤ t.1.nextName
      rw [tnn]; exact Nat.le_refl _
    · intro q hq _ e
      exact absurd (i.h.namesH q hq _ e) (Nat.not_succ_le_self _)

/-- the state when the guard is released -/
theorem window_spec {s : Struct} (o : Oracle) {d db : Dyn} (i : DInv s d) {p : Pid} (hp : p ∈ s.storage) {n : SrcName}
    {c : Content} (w : WinPre s d db p n c) :
    DInv s ({ connectInternal s o db p n with dnd := (connectInternal s o db p n).dnd - 1 } : Dyn) ∧
    (({ connectInternal s o db p n with dnd := (connectInternal s o db p n).dnd - 1 } : Dyn).handle p = ⟨some n, some n, c⟩) ∧
    (∀ q, q ≠ p → ({ connectInternal s o db p n with dnd := (connectInternal s o db p n).dnd - 1 } : Dyn).handle q = d.handle q) ∧
    (∀ q, ({ connectInternal s o db p n with dnd := (connectInternal s o db p n).dnd - 1 } : Dyn).op q = d.op q) ∧
    ({ connectInternal s o db p n with dnd := (connectInternal s o db p n).dnd - 1 } : Dyn).fault = d.fault ∧
    (({ connectInternal s o db p n with dnd := (connectInternal s o db p n).dnd - 1 } : Dyn).source n).map (·.content) = some c ∧
    (∀ m, m ≠ n → ({ connectInternal s o db p n with dnd := (connectInternal s o db p n).dnd - 1 } : Dyn).source m = d.source m) := by
  obtain ⟨xb, hxb, hxc, hxs, hxo⟩ := w.src
  rw [connectInternal_dnd s o db p n xb (by rw [w.dnd]; omega) hxb hxs hxo]
  obtain ⟨e1, e2, e3, e4, e5, e6, e7⟩ := windowEnd_spec db p n xb hxb
  generalize windowEnd db p n xb = W0 at e1 e2 e3 e4 e5 e6 e7
  dsimp only
  have hh : ∀ q, ({ W0 with dnd := W0.dnd - 1 } : Dyn).handle q = W0.handle q := fun _ => rfl
  have hs : ∀ m, ({ W0 with dnd := W0.dnd - 1 } : Dyn).source m = W0.source m := fun _ => rfl
  have hsn : W0.source n = some (annSource xb) := by rw [e3]; simp
  have hsm : ∀ m, m ≠ n → W0.source m = d.source m := by
    intro m hm; rw [e3, if_neg hm]; exact w.oth m hm
  have hhq : ∀ q, q ≠ p → W0.handle q = d.handle q := fun q hq => (e2 q hq).trans (w.hq q hq)
  have hedp : (W0.handle p).ed = some n := by rw [e1]; rfl
  refine ⟨⟨?_, ?_, ?_⟩, ?_, ?_, ?_, ?_, ?_, ?_⟩
  · show W0.dnd - 1 = 0
    rw [e5, w.dnd, i.dnd]
  · refine ⟨?_, ?_, ?_, ?_, ?_, ?_⟩
    · intro m y hy ho hsv
      rw [hs] at hy
      by_cases hm : m = n
      · subst hm
        rw [hsn] at hy; injection hy with hy; subst hy; rfl
      · rw [hsm m hm] at hy; exact i.h.jd m y hy ho hsv
    · intro q hq _ m hm
      rw [hh] at hm ⊢
      rw [hs]
      by_cases hqp : q = p
      · subst hqp
        rw [e1] at hm ⊢
        injection hm with hm; subst hm
        exact ⟨annSource xb, hsn, hxo, by simp [annSource, hxc]⟩
      · rw [hhq q hqp] at hm ⊢
        have hmn : m ≠ n := by
          rintro rfl
          exact w.free q hq hqp (Handle.ed_of_src hm)
        rw [hsm m hmn]
        exact i.h.conn q hq (by simp) m hm
    · intro q hq _ h1 m h2 y hy
      rw [hh] at h1 h2 ⊢
      rw [hs] at hy
      by_cases hqp : q = p
      · subst hqp
        rw [e1] at h1; cases h1
      · rw [hhq q hqp] at h1 h2 ⊢
        have hmn : m ≠ n := by
          rintro rfl
          exact w.free q hq hqp (by rw [Handle.ed_of_none h1]; exact h2)
        rw [hsm m hmn] at hy
        exact i.h.detached q hq (by simp) h1 m h2 y hy
    · intro q hq q' hq' m e e'
      rw [hh] at e e'
      by_cases hqp : q = p
      · by_cases hqp' : q' = p
        · rw [hqp, hqp']
        · subst hqp
          rw [hedp] at e; injection e with e; subst e
          rw [hhq q' hqp'] at e'
          exact absurd e' (w.free q' hq' hqp')
      · by_cases hqp' : q' = p
        · subst hqp'
          rw [hedp] at e'; injection e' with e'; subst e'
          rw [hhq q hqp] at e
          exact absurd e (w.free q hq hqp)
        · rw [hhq q hqp] at e
          rw [hhq q' hqp'] at e'
          exact i.h.uniq q hq q' hq' m e e'
    · intro q hq m e
      rw [hh] at e
      show m ≤ W0.nextName
      rw [e7]
      by_cases hqp : q = p
      · subst hqp
        rw [hedp] at e; injection e with e; subst e
        exact w.nn.2
      · rw [hhq q hqp] at e
        exact Nat.le_trans (i.h.namesH q hq m e) w.nn.1
    · intro m y hy
      rw [hs] at hy
      show m ≤ W0.nextName
      rw [e7]
      by_cases hm : m = n
      · subst hm; exact w.nn.2
      · rw [hsm m hm] at hy
        exact Nat.le_trans (i.h.namesS m y hy) w.nn.1
  · intro q hq m hm
    rw [hh] at hm ⊢
    by_cases hqp : q = p
    · subst hqp
      rw [e1] at hm ⊢
      injection hm with hm; subst hm; rfl
    · rw [hhq q hqp] at hm ⊢
      exact i.c2 q hq m hm
  · rw [hh, e1, hxc]
  · intro q hq; rw [hh]; exact hhq q hq
  · intro q
    show W0.op q = d.op q
    rw [e4, w.ops]
  · show W0.fault = d.fault
    rw [e6, w.fault]
  · rw [hs, hsn]; simp [annSource, hxc]
  · intro m hm; rw [hs]; exact hsm m hm

/-! ## `SaveOperationResult` -/

def winState (s : Struct) (o : Oracle) (d : Dyn) (p : Pid) (c : Content) : Dyn :=
  { connectInternal s o (writeData (inputTarget { d with dnd := d.dnd + 1 } p).1 (inputTarget { d with dnd := d.dnd + 1 } p).2 c) p
      (inputTarget { d with dnd := d.dnd + 1 } p).2 with
    dnd := (connectInternal s o (writeData (inputTarget { d with dnd := d.dnd + 1 } p).1 (inputTarget { d with dnd := d.dnd + 1 } p).2 c) p
      (inputTarget { d with dnd := d.dnd + 1 } p).2).dnd - 1 }

def doneOp (h : OpHandle) (built : Option Content × Option Content) : OpHandle :=
  { h with translations := true, broken := false, outdated := false, built := some built }

theorem saveResult_repaired (s : Struct) (o : Oracle) (d : Dyn) (p : Pid) (c : Content) (built : Option Content × Option Content) :
    saveResult s Variant.repaired o d p c built =
      (updateChildren s Variant.repaired o ((winState s o d p c).setOp p (doneOp ((winState s o d p c).op p) built)) p
        (((winState s o d p c).handle p).coreHash != (d.handle p).coreHash), true) := rfl

def updStep (s : Struct) (o : Oracle) (p : Pid) (changed : Bool) (d : Dyn) (c : Pid) : Dyn :=
  let d := if (s.graph.parentIndex p c).isNone then d.stuck "ParentIndex.value()" else d
  let d := checkOp s o (fuelOf d) d c
  if changed then d.setOp c { d.op c with outdated := true } else d

theorem updateChildren_repaired (s : Struct) (o : Oracle) (d : Dyn) (p : Pid) (changed : Bool) :
    updateChildren s Variant.repaired o d p changed = (s.graph.childrenOf p).foldl (updStep s o p changed) d := by
  rfl

theorem markOutdated_good (s : Struct) (d : Dyn) (c : Pid) : Good s noEx d (d.setOp c { d.op c with outdated := true }) := by
  refine ⟨id, fun i _ => ⟨i.setOp _ _, ?_, ?_, ?_⟩⟩
  · intro x hx
    rw [Dyn.op_setOp]; split
    · rfl
    · exact hx
  · intro x
    rw [Dyn.op_setOp]; split
    · rename_i e; subst e; rfl
    · rfl
  · intro q _; exact Or.inl ⟨rfl, id⟩

theorem stuck_good (s : Struct) (d : Dyn) (w : String) : Good s noEx d (d.stuck w) :=
  ⟨fun h => absurd h (Dyn.fault_stuck_ne _ _), fun _ h => absurd h (Dyn.fault_stuck_ne _ _)⟩

theorem updStep_good {s : Struct} (g : GraphOk s) (o : Oracle) (p : Pid) (ch : Bool) (d : Dyn) (c : Pid) :
    Good s noEx d (updStep s o p ch d c) := by
  unfold updStep
  have h1 : Good s noEx d (if (s.graph.parentIndex p c).isNone = true then d.stuck "ParentIndex.value()" else d) := by
    split
    · exact stuck_good _ _ _
    · exact Good.refl _ _ _
  generalize (if (s.graph.parentIndex p c).isNone = true then d.stuck "ParentIndex.value()" else d) = d1 at h1
  have h2 := checkOp_good g o (fuelOf d1) d1 c
  dsimp only
  generalize checkOp s o (fuelOf d1) d1 c = d2 at h2
  split
  · exact (h1.trans0 h2).trans0 (markOutdated_good s d2 c)
  · exact h1.trans0 h2

theorem updStep_rel {s : Struct} (g : GraphOk s) (o : Oracle) (p : Pid) (ch : Bool) (d : Dyn) (c : Pid) :
    Rel s d (updStep s o p ch d c) := by
  unfold updStep
  have h1 : Rel s d (if (s.graph.parentIndex p c).isNone = true then d.stuck "ParentIndex.value()" else d) := by
    split
    · exact Rel.stuck _ _ _
    · exact Rel.refl _ _
  generalize (if (s.graph.parentIndex p c).isNone = true then d.stuck "ParentIndex.value()" else d) = d1 at h1
  have h2 := (reactions_rel s o g.childOp (fuelOf d1)).2.2.2.2.2 d1 c
  dsimp only
  generalize checkOp s o (fuelOf d1) d1 c = d2 at h2
  split
  · exact (h1.trans h2).trans (Rel.of_r0 (Rel0.setOp _ _ _ (Frame.setOutdated _ c)) (fun _ => rfl))
  · exact h1.trans h2

theorem updateChildren_good {s : Struct} (g : GraphOk s) (o : Oracle) (d : Dyn) (p : Pid) (ch : Bool) :
    Good s noEx d (updateChildren s Variant.repaired o d p ch) := by
  rw [updateChildren_repaired]
  exact Good.foldl _ (updStep_good g o p ch) _ d

theorem updateChildren_rel {s : Struct} (g : GraphOk s) (o : Oracle) (d : Dyn) (p : Pid) (ch : Bool) :
    Rel s d (updateChildren s Variant.repaired o d p ch) := by
  rw [updateChildren_repaired]
  exact Rel.foldl _ (updStep_rel g o p ch) _ d

theorem updateChildren_marks {s : Struct} (g : GraphOk s) (o : Oracle) (d : Dyn) (p : Pid) :
    ∀ c ∈ s.graph.childrenOf p, ((updateChildren s Variant.repaired o d p true).op c).outdated = true := by
  rw [updateChildren_repaired]
  generalize s.graph.childrenOf p = l
  induction l generalizing d with
  | nil => intro c hc; cases hc
  | cons x l ih =>
    intro c hc
    simp only [List.foldl_cons]
    rcases List.mem_cons.1 hc with rfl | hc'
    · apply (Rel.foldl _ (updStep_rel g o p true) l _).r0.frame.outdated
      unfold updStep
      simp
    · exact ih _ c hc'

theorem J7.setOp_done {s : Struct} {E : Pid → Prop} {W : Dyn} (j : J7 s E W) {p p1 p2 : Pid} {c1 c2 : Content}
    (hpar : s.graph.parentsOf p = [p1, p2])
    (h1 : ¬ E p1 → c1 = (W.handle p1).coreHash ∧ (W.handle p1).ed ≠ none)
    (h2 : ¬ E p2 → c2 = (W.handle p2).coreHash ∧ (W.handle p2).ed ≠ none) :
    J7 s E (W.setOp p (doneOp (W.op p) (some c1, some c2))) := by
  intro c hc ho b1 b2 hb q1 q2 hq
  rw [Dyn.op_setOp] at ho hb
  by_cases e : c = p
  · subst e
    simp only [if_true, doneOp] at hb
    injection hb with hb
    injection hb with hb1 hb2
    rw [hpar] at hq
    injection hq with hq1 hq
    injection hq with hq2 _
    subst hq1; subst hq2
    simp only [Dyn.handle_setOp]
    exact ⟨fun e => ⟨by rw [← hb1, (h1 e).1], (h1 e).2⟩, fun e => ⟨by rw [← hb2, (h2 e).1], (h2 e).2⟩⟩
  · simp only [if_neg e] at ho hb
    exact j c hc ho b1 b2 hb q1 q2 hq

theorem SyncC.hash {q : Pid} {c : Content} {d : Dyn} (h : SyncC q c d) :
    c = (d.handle q).coreHash ∧ (d.handle q).ed ≠ none := by
  obtain ⟨n, e1, _, e3⟩ := h
  exact ⟨e3.symm, by rw [Handle.ed_of_src e1]; simp⟩

/-- `SaveOperationResult(p)` with the operand contents just read -/
theorem saveResult_spec2 {s : Struct} (g : GraphOk s) (o : Oracle) (d : Dyn) (p p1 p2 : Pid) (c c1 c2 : Content)
    (hps : p ∈ s.storage) (hpar : s.graph.parentsOf p = [p1, p2]) (hs1 : p1 ∈ s.storage) (hs2 : p2 ∈ s.storage) :
    ((saveResult s Variant.repaired o d p c (some c1, some c2)).1.fault = none → d.fault = none) ∧
    (DInv s d → SyncC p1 c1 d → SyncC p2 c2 d → (saveResult s Variant.repaired o d p c (some c1, some c2)).1.fault = none →
      DInv s (saveResult s Variant.repaired o d p c (some c1, some c2)).1 ∧
      SyncC p1 c1 (saveResult s Variant.repaired o d p c (some c1, some c2)).1 ∧
      SyncC p2 c2 (saveResult s Variant.repaired o d p c (some c1, some c2)).1 ∧
      (J7 s (exOnly p) d → (J7 s noEx d ∨ (d.handle p).coreHash = 0) → c ≠ 0 →
        J7 s noEx (saveResult s Variant.repaired o d p c (some c1, some c2)).1)) := by
  rw [saveResult_repaired]
  dsimp only
  have hne1 : p1 ≠ p := by rintro rfl; exact g.irrefl p1 (by rw [hpar]; simp)
  have hne2 : p2 ≠ p := by rintro rfl; exact g.irrefl p2 (by rw [hpar]; simp)
  have gu := updateChildren_good g o ((winState s o d p c).setOp p (doneOp ((winState s o d p c).op p) (some c1, some c2))) p
    (((winState s o d p c).handle p).coreHash != (d.handle p).coreHash)
  have ru := updateChildren_rel g o ((winState s o d p c).setOp p (doneOp ((winState s o d p c).op p) (some c1, some c2))) p
    (((winState s o d p c).handle p).coreHash != (d.handle p).coreHash)
  have mu := updateChildren_marks g o ((winState s o d p c).setOp p (doneOp ((winState s o d p c).op p) (some c1, some c2))) p
  -- fault of the window state: that of `d` whenever the invariant holds; in general the write may fault
  constructor
  · intro hf
    have h1 := gu.fault hf
    have h2 : (winState s o d p c).fault = none := h1
    unfold winState at h2
    have h3 := connectInternal_fault g o _ p _ h2
    -- `writeData` and `inputTarget` never clear a fault
    apply Classical.byContradiction
    intro hd
    exact writeData_fault _ _ c (inputTarget_fault ({ d with dnd := d.dnd + 1 } : Dyn) p hd) h3
  · intro i y1 y2 hf
    obtain ⟨iw, wp, wq, wops, wfault, wsrc, wsm⟩ := window_spec o i hps (winPre_of i hps c)
    have wfree := (winPre_of i hps c).free
    have iw : DInv s (winState s o d p c) := iw
    have wp : (winState s o d p c).handle p = ⟨some (inputTarget ({ d with dnd := d.dnd + 1 } : Dyn) p).2,
      some (inputTarget ({ d with dnd := d.dnd + 1 } : Dyn) p).2, c⟩ := wp
    have wq : ∀ q, q ≠ p → (winState s o d p c).handle q = d.handle q := wq
    have wops : ∀ q, (winState s o d p c).op q = d.op q := wops
    have wsm : ∀ m, m ≠ (inputTarget ({ d with dnd := d.dnd + 1 } : Dyn) p).2 → (winState s o d p c).source m = d.source m := wsm
    clear wsrc wfault
    generalize winState s o d p c = W at iw wp wq wops wsm gu ru mu hf ⊢
    generalize (inputTarget ({ d with dnd := d.dnd + 1 } : Dyn) p).2 = n at wp wsm wfree
    have hfW : (W.setOp p (doneOp (W.op p) (some c1, some c2))).fault = none := gu.fault hf
    have i1 : DInv s (W.setOp p (doneOp (W.op p) (some c1, some c2))) := iw.setOp _ _
    obtain ⟨i2, r2⟩ := gu.post i1 hf
    -- the operands are what they were read as
    have syW : ∀ q cq, q ∈ s.storage → q ≠ p → SyncC q cq d → SyncC q cq (W.setOp p (doneOp (W.op p) (some c1, some c2))) := by
      intro q cq hq hqp ⟨m, e1, e2, e3⟩
      have hmn : m ≠ n := by rintro rfl; exact wfree q hq hqp (Handle.ed_of_src e1)
      refine ⟨m, ?_, ?_, ?_⟩
      · rw [Dyn.handle_setOp, wq q hqp]; exact e1
      · rw [Dyn.source_setOp, wsm m hmn]; exact e2
      · rw [Dyn.handle_setOp, wq q hqp]; exact e3
    have y1W := syW p1 c1 hs1 hne1 y1
    have y2W := syW p2 c2 hs2 hne2 y2
    refine ⟨i2, y1W.keep hs1 i1.h (Keep.of_rel0 ru.r0) i2.h, y2W.keep hs2 i1.h (Keep.of_rel0 ru.r0) i2.h, ?_⟩
    intro j j0 hc
    have y1h : c1 = (W.handle p1).coreHash ∧ (W.handle p1).ed ≠ none := by
      have := y1W.hash; simpa using this
    have y2h : c2 = (W.handle p2).coreHash ∧ (W.handle p2).ed ≠ none := by
      have := y2W.hash; simpa using this
    have jrelW : JRel s (exOnly p) d W := by
      refine ⟨fun x hx => by rw [wops]; exact hx, fun x => by rw [wops], ?_⟩
      intro q hq
      have : q ≠ p := hq
      exact Or.inl ⟨by rw [wq q this], by rw [wq q this]; exact id⟩
    cases hch : ((W.handle p).coreHash != (d.handle p).coreHash) with
    | true =>
      rw [hch] at r2 i2
      have jW : J7 s (exOnly p) W := j.of_jrel' g jrelW (by intro q e; rcases e with e | e <;> exact e)
      have jW1 := jW.setOp_done hpar (fun _ => y1h) (fun _ => y2h)
      have jF := jW1.of_jrel g r2
      apply J7.drop g (E := noEx) (p := p) (jF.mono ?_) (mu)
      intro q e
      rcases e with e | e
      · exact Or.inr e
      · exact e.elim
    | false =>
      rw [hch] at r2
      have hsame : (d.handle p).coreHash = c := by
        have : (W.handle p).coreHash = (d.handle p).coreHash := by simpa using hch
        rw [← this, wp]
      have j0' : J7 s noEx d := by
        rcases j0 with j0 | j0
        · exact j0
        · rw [j0] at hsame; exact absurd hsame.symm hc
      have jrelW0 : JRel s noEx d W := by
        refine ⟨jrelW.outdated, jrelW.built, ?_⟩
        intro q _
        by_cases hq : q = p
        · subst hq
          exact Or.inl ⟨by rw [wp, hsame], fun _ => by rw [wp]; simp [Handle.ed]⟩
        · exact jrelW.chg q hq
      have jW : J7 s noEx W := j0'.of_jrel' g jrelW0 (by intro q e; rcases e with e | e <;> exact e)
      have jW1 := jW.setOp_done hpar (fun _ => y1h) (fun _ => y2h)
      exact jW1.of_jrel' g r2 (by intro q e; rcases e with e | e <;> exact e)

/-! ## `RunOperation` -/

/-- `AggregateVersions` + `SaveOperationResult` of `RunOperation`, after `CreateNewResult` read `c1`, `c2` -/
def runTail (s : Struct) (v : Variant) (o : Oracle) (d : Dyn) (p : Pid) (autoDiscard : Bool) (c1 c2 : Content) : Dyn × Bool :=
  let r := dataFor s o (fuelOf d) d p
  let d := r.1
  match r.2 with
  | none => saveResult s v o d p (o.synth p c1 c2 none) (some c1, some c2)
  | some _ =>
    let d := updateSync s o (fuelOf d) d p
    let noTr := !(d.op p).translations
    let d := if noTr && !v.nullTr then d.stuck "*translations" else d
    let old := (((d.handle p).src.bind d.source).map (·.content))
    if o.aggOk p && !noTr then saveResult s v o d p (o.synth p c1 c2 old) (some c1, some c2)
    else if !autoDiscard then (d, false)
    else
      let d := discard s o d p
      saveResult s v o d p (o.synth p c1 c2 none) (some c1, some c2)

def readOne (s : Struct) (o : Oracle) (d : Dyn) (q : Pid) : Dyn × Option Content :=
  dataFor s o (fuelOf (updateSync s o (fuelOf d) d q)) (updateSync s o (fuelOf d) d q) q

theorem runOperation_two (s : Struct) (v : Variant) (o : Oracle) (d : Dyn) (p p1 p2 : Pid) (a : Bool)
    (hpar : s.graph.parentsOf p = [p1, p2]) :
    runOperation s v o d p a =
      match (readOne s o d p1).2, (readOne s o (readOne s o d p1).1 p2).2 with
      | some c1, some c2 => runTail s v o (readOne s o (readOne s o d p1).1 p2).1 p a c1 c2
      | _, _ => ((readOne s o (readOne s o d p1).1 p2).1.stuck "Execute(call).value()", false) := by
  unfold runOperation
  rw [hpar]
  simp only [List.foldl_cons, List.foldl_nil, List.nil_append, List.cons_append]
  show (match [(readOne s o d p1).2, (readOne s o (readOne s o d p1).1 p2).2] with
    | [some c1, some c2] => runTail s v o (readOne s o (readOne s o d p1).1 p2).1 p a c1 c2
    | _ => ((readOne s o (readOne s o d p1).1 p2).1.stuck "Execute(call).value()", false)) = _
  cases (readOne s o d p1).2 <;> cases (readOne s o (readOne s o d p1).1 p2).2 <;> rfl

theorem fuelOf_succ2 (d : Dyn) : ∃ k, fuelOf d = k + 2 := ⟨8 * (d.env.length + 2) - 2, by unfold fuelOf; omega⟩

/-- after `UpdateSync(q)` the document attached to `q` has no pending change -/
theorem updateSync_saved {s : Struct} (g : GraphOk s) (o : Oracle) (f : Nat) (d : Dyn) (q : Pid) (i : DInv s d)
    (hq : q ∈ s.storage) :
    ∀ n, (d.handle q).src = some n → ∀ x, (updateSync s o (f + 2) d q).source n = some x → x.saved = true := by
  intro n hn x hx
  rw [updateSync_succ, hn] at hx
  dsimp only at hx
  rw [announce_succ] at hx
  obtain ⟨x0, hx0, hx0o, _⟩ := i.h.conn q hq (by simp) n hn
  rw [hx0] at hx
  dsimp only at hx
  split at hx
  · rename_i hsv
    rw [hx0] at hx; injection hx with hx; subst hx
    simpa [hx0o] using hsv
  · have hd : ¬ d.dnd > 0 := by rw [i.dnd]; omega
    rw [if_neg hd] at hx
    have hs1 : (d.setSource (annSource x0)).source n = some (annSource x0) := by
      rw [Dyn.source_setSource_of (y := annSource x0) hx0 rfl]; simp
    cases h2 : src2pid s d n with
    | none =>
      rw [h2] at hx
      dsimp only at hx
      rw [hs1] at hx; injection hx with hx; subst hx; rfl
    | some p' =>
      rw [h2] at hx
      dsimp only at hx
      obtain ⟨x', hx', _, _, sv, _⟩ := ((reactions_rel s o g.childOp f).2.1 (d.setSource (annSource x0)) p').r0.docs n _ hs1
      rw [hx'] at hx; injection hx with hx; subst hx
      exact sv rfl

/-- what `DataFor(q)` returns is the content of the document `q` is attached to afterwards, and the
handle carries it as its core hash -/
theorem dataFor_sync {s : Struct} (g : GraphOk s) (o : Oracle) (f : Nat) (du : Dyn) (q : Pid) (c : Content) (i : DInv s du)
    (hq : q ∈ s.storage)
    (hsv : ∀ n, (du.handle q).src = some n → ∀ x, du.source n = some x → x.saved = true)
    (hr : (dataFor s o (f + 1) du q).2 = some c) (hf : (dataFor s o (f + 1) du q).1.fault = none) :
    SyncC q c (dataFor s o (f + 1) du q).1 := by
  have i' := ((dataFor_good g o (f + 1) du q).post i hf).1
  rw [dataFor_succ] at hr i' ⊢
  split at hr
  · cases hr
  · rename_i hcont
    rw [if_neg hcont] at i' ⊢
    split at hr
    · cases hr
    · rename_i hemp
      rw [if_neg hemp] at i' ⊢
      cases hsrc : (du.handle q).src with
      | some n =>
        rw [hsrc] at hr i'
        dsimp only at hr i' ⊢
        obtain ⟨x, hx, hxo, hxh⟩ := i.h.conn q hq (by simp) n hsrc
        have hxs := hsv n hsrc x hx
        refine ⟨n, hsrc, hr, ?_⟩
        rw [hxh, i.h.jd n x hx hxo hxs]
        rw [hx] at hr; simpa using hr
      | none =>
        rw [hsrc] at hr i'
        dsimp only at hr i' ⊢
        cases hb : (du.handle q).desc.bind du.source with
        | none => rw [hb] at hr; cases hr
        | some x =>
          rw [hb] at hr i'
          dsimp only at hr i' ⊢
          injection hr with hr; subst hr
          obtain ⟨m, hdesc, hm⟩ := Option.bind_eq_some_iff.1 hb
          have hn := Dyn.source_name hm
          have r := (reactions_rel s o g.childOp f).2.1 (openStage du q x) q
          have hsrc0 : ((openStage du q x).handle q).src = some x.name := by simp [openStage]
          have hdoc0 : (openStage du q x).source x.name = some (openSource x) := by
            unfold openStage
            rw [Dyn.source_setHandle, Dyn.source_setSource_of (y := openSource x) hm rfl, hn]; simp
          have hsrc' := r.r0.frame.src q x.name hsrc0
          obtain ⟨y, hy, yc, _, _, ya⟩ := r.r0.docs x.name _ hdoc0
          obtain ⟨y', hy', _, yh⟩ := i'.h.conn q hq (by simp) x.name hsrc'
          rw [hy] at hy'; injection hy' with hy'; subst hy'
          refine ⟨x.name, hsrc', by rw [hy]; simpa [openSource] using yc, ?_⟩
          rw [yh]
          rcases ya with ya | ya
          · rw [ya]; rfl
          · rw [ya]; rfl

theorem readOne_spec {s : Struct} (g : GraphOk s) (o : Oracle) (d : Dyn) (q : Pid) (hq : q ∈ s.storage) :
    Good s noEx d (readOne s o d q).1 ∧ Rel s d (readOne s o d q).1 ∧
    (DInv s d → (readOne s o d q).1.fault = none → ∀ c, (readOne s o d q).2 = some c → SyncC q c (readOne s o d q).1) := by
  unfold readOne
  have gU := updateSync_good g o (fuelOf d) d q
  have rU := (reactions_rel s o g.childOp (fuelOf d)).2.2.2.1 d q
  have hsv : DInv s d → ∀ n, ((updateSync s o (fuelOf d) d q).handle q).src = some n →
      ∀ x, (updateSync s o (fuelOf d) d q).source n = some x → x.saved = true := by
    intro i n hn x hx
    obtain ⟨k, hk⟩ := fuelOf_succ2 d
    rw [hk] at hn hx
    cases hsrc : (d.handle q).src with
    | some n0 =>
      have := ((reactions_rel s o g.childOp (k + 2)).2.2.2.1 d q).r0.frame.src q n0 hsrc
      rw [hn] at this; injection this with this; subst this
      exact updateSync_saved g o k d q i hq n hsrc x hx
    | none =>
      rw [updateSync_succ, hsrc] at hn
      dsimp only at hn
      rw [hsrc] at hn; cases hn
  generalize updateSync s o (fuelOf d) d q = du at gU rU hsv
  have gD := dataFor_good g o (fuelOf du) du q
  have rD := (reactions_rel s o g.childOp (fuelOf du)).2.2.2.2.1 du q
  refine ⟨gU.trans0 gD, rU.trans rD, ?_⟩
  intro i hf c hc
  have hfu := gD.fault hf
  have iu := (gU.post i hfu).1
  obtain ⟨k, hk⟩ := fuelOf_succ du
  rw [hk] at hf hc ⊢
  exact dataFor_sync g o k du q c iu hq (hsv i) hc hf


theorem runTail_repaired (s : Struct) (o : Oracle) (d : Dyn) (p : Pid) (a : Bool) (c1 c2 : Content) :
    runTail s Variant.repaired o d p a c1 c2 =
      match (dataFor s o (fuelOf d) d p).2 with
      | none => saveResult s Variant.repaired o (dataFor s o (fuelOf d) d p).1 p (o.synth p c1 c2 none) (some c1, some c2)
      | some _ =>
        if o.aggOk p && !(!((updateSync s o (fuelOf (dataFor s o (fuelOf d) d p).1) (dataFor s o (fuelOf d) d p).1 p).op p).translations) then
          saveResult s Variant.repaired o (updateSync s o (fuelOf (dataFor s o (fuelOf d) d p).1) (dataFor s o (fuelOf d) d p).1 p) p
            (o.synth p c1 c2
              ((((updateSync s o (fuelOf (dataFor s o (fuelOf d) d p).1) (dataFor s o (fuelOf d) d p).1 p).handle p).src.bind
                (updateSync s o (fuelOf (dataFor s o (fuelOf d) d p).1) (dataFor s o (fuelOf d) d p).1 p).source).map (·.content)))
            (some c1, some c2)
        else if !a then (updateSync s o (fuelOf (dataFor s o (fuelOf d) d p).1) (dataFor s o (fuelOf d) d p).1 p, false)
        else saveResult s Variant.repaired o
          (discard s o (updateSync s o (fuelOf (dataFor s o (fuelOf d) d p).1) (dataFor s o (fuelOf d) d p).1 p) p) p
          (o.synth p c1 c2 none) (some c1, some c2) := by
  unfold runTail
  dsimp only
  cases (dataFor s o (fuelOf d) d p).2 with
  | none => rfl
  | some _ =>
    simp only [Variant.repaired, Bool.not_true, Bool.and_false, Bool.false_eq_true, if_false]

theorem evClose_op (s : Struct) (d : Dyn) (n : SrcName) (c : Pid) : (evClose s d n).op c = d.op c := by
  unfold evClose
  cases d.source n with
  | none => rfl
  | some x =>
    dsimp only
    split
    · rfl
    · split <;> rfl

/-- `Discard` does not redefine operations -/
theorem discard_opType {s : Struct} (g : GraphOk s) (o : Oracle) (d : Dyn) (p c : Pid) :
    ((discard s o d p).op c).type = (d.op c).type := by
  rw [discard_eq]
  split
  · rfl
  · have r1 := (reactions_rel s o g.childOp (fuelOf d)).2.2.2.1 d p
    generalize updateSync s o (fuelOf d) d p = d1 at r1
    split
    · exact (r1.r0.frame.opFix c).1
    · cases (d1.handle p).desc.bind d1.source with
      | none => exact (r1.r0.frame.opFix c).1
      | some x =>
        dsimp only
        split
        · unfold mgrClose
          rw [evClose_op]
          have ra := (reactions_rel s o g.childOp (fuelOf (d1.setHandle p {}))).1 (d1.setHandle p {}) x.name
          rw [(ra.r0.frame.opFix c).1]
          exact (r1.r0.frame.opFix c).1
        · exact (r1.r0.frame.opFix c).1

def Oracle.synthNonzero (o : Oracle) : Prop := ∀ p c1 c2 old, o.synth p c1 c2 old ≠ 0

/-- the outcome of the tail of `RunOperation`: the invariants, and for a successful run the state
`dS` from which `SaveOperationResult` started -/
structure TailOut (s : Struct) (o : Oracle) (d : Dyn) (p p1 p2 : Pid) (c1 c2 : Content) (r : Dyn × Bool) : Prop where
  inv : DInv s r.1
  j7 : o.synthNonzero → J7 s noEx d → J7 s noEx r.1
  ok : r.2 = true → ∃ dS old, r.1 = (saveResult s Variant.repaired o dS p (o.synth p c1 c2 old) (some c1, some c2)).1 ∧
    DInv s dS ∧ SyncC p1 c1 dS ∧ SyncC p2 c2 dS ∧
    (dS.op p).type = (d.op p).type ∧ SyncC p1 c1 r.1 ∧ SyncC p2 c2 r.1

theorem runTail_spec {s : Struct} (g : GraphOk s) (o : Oracle) (d : Dyn) (p p1 p2 : Pid) (a : Bool) (c1 c2 : Content)
    (hps : p ∈ s.storage) (hpar : s.graph.parentsOf p = [p1, p2]) (hs1 : p1 ∈ s.storage) (hs2 : p2 ∈ s.storage) :
    ((runTail s Variant.repaired o d p a c1 c2).1.fault = none → d.fault = none) ∧
    (DInv s d → SyncC p1 c1 d → SyncC p2 c2 d → (runTail s Variant.repaired o d p a c1 c2).1.fault = none →
      TailOut s o d p p1 p2 c1 c2 (runTail s Variant.repaired o d p a c1 c2)) := by
  have hne1 : p1 ≠ p := by rintro rfl; exact g.irrefl p1 (by rw [hpar]; simp)
  have hne2 : p2 ≠ p := by rintro rfl; exact g.irrefl p2 (by rw [hpar]; simp)
  rw [runTail_repaired]
  have gA := dataFor_good g o (fuelOf d) d p
  have rA := (reactions_rel s o g.childOp (fuelOf d)).2.2.2.2.1 d p
  -- a save from a state reached by good steps
  have save : ∀ (dS : Dyn) (old : Option Content) (X : Pid → Prop), Good s X d dS →
      (∀ q, X q → q = p) → (DInv s d → dS.fault = none → (JRel s noEx d dS ∨ (dS.handle p).coreHash = 0)) →
      (DInv s d → dS.fault = none → ∀ q ∈ s.storage, q ≠ p → Keep q d dS) → (dS.op p).type = (d.op p).type →
      (((saveResult s Variant.repaired o dS p (o.synth p c1 c2 old) (some c1, some c2)).1.fault = none → d.fault = none) ∧
      (DInv s d → SyncC p1 c1 d → SyncC p2 c2 d →
        (saveResult s Variant.repaired o dS p (o.synth p c1 c2 old) (some c1, some c2)).1.fault = none →
        TailOut s o d p p1 p2 c1 c2 (saveResult s Variant.repaired o dS p (o.synth p c1 c2 old) (some c1, some c2)))) := by
    intro dS old X gS hX hj hk hty
    obtain ⟨sf, sp⟩ := saveResult_spec2 g o dS p p1 p2 (o.synth p c1 c2 old) c1 c2 hps hpar hs1 hs2
    refine ⟨fun hf => gS.fault (sf hf), fun i y1 y2 hf => ?_⟩
    have hfS := sf hf
    obtain ⟨iS, rS⟩ := gS.post i hfS
    have k := hk i hfS
    have y1S := y1.keep hs1 i.h (k p1 hs1 hne1) iS.h
    have y2S := y2.keep hs2 i.h (k p2 hs2 hne2) iS.h
    obtain ⟨iF, y1F, y2F, jF⟩ := sp iS y1S y2S hf
    refine ⟨iF, ?_, ?_⟩
    · intro hsyn j
      apply jF
      · exact j.of_jrel' g rS (by intro q e; rcases e with e | e; exact e.elim; exact hX q e)
      · rcases hj i hfS with h | h
        · left
          exact j.of_jrel' g h (by intro q e; rcases e with e | e <;> exact e)
        · exact Or.inr h
      · exact hsyn _ _ _ _
    · intro _
      exact ⟨dS, old, rfl, iS, y1S, y2S, hty, y1F, y2F⟩
  cases hr : (dataFor s o (fuelOf d) d p).2 with
  | none =>
    dsimp only
    exact save _ none noEx gA (fun q e => e.elim) (fun i hf => Or.inl (gA.post i hf).2)
      (fun _ _ q _ _ => Keep.of_rel0 rA.r0) (rA.r0.frame.opFix p).1
  | some _ =>
    dsimp only
    generalize (dataFor s o (fuelOf d) d p).1 = dA at gA rA
    have gB := updateSync_good g o (fuelOf dA) dA p
    have rB := (reactions_rel s o g.childOp (fuelOf dA)).2.2.2.1 dA p
    generalize updateSync s o (fuelOf dA) dA p = dB at gB rB
    have gAB := gA.trans0 gB
    have rAB := rA.trans rB
    split
    · exact save _ _ noEx gAB (fun q e => e.elim) (fun i hf => Or.inl (gAB.post i hf).2)
        (fun _ _ q _ _ => Keep.of_rel0 rAB.r0) (rAB.r0.frame.opFix p).1
    · split
      · refine ⟨gAB.fault, fun i _ _ hf => ⟨(gAB.post i hf).1, fun _ j => ?_, fun h => by cases h⟩⟩
        exact j.of_jrel' g (gAB.post i hf).2 (by intro q e; rcases e with e | e <;> exact e)
      · obtain ⟨gC, hC⟩ := discard_spec g o dB p
        have hdis_ops : ((discard s o dB p).op p).type = (dB.op p).type := discard_opType g o dB p p
        refine save _ none (exOnly p) (gAB.trans0 gC) (fun q e => e) ?_ ?_ ?_
        · intro i hf
          have hfB := gC.fault hf
          obtain ⟨iB, rB'⟩ := gAB.post i hfB
          rcases (hC iB hf).1 with h | h
          · left
            exact (rB'.trans h).mono (by intro q e; rcases e with e | e <;> exact e)
          · right; rw [h]
        · intro i hf q hq hqp
          have hfB := gC.fault hf
          obtain ⟨iB, _⟩ := gAB.post i hfB
          exact (Keep.of_rel0 rAB.r0).trans ((hC iB hf).2 q hq hqp)
        · rw [hdis_ops]; exact (rAB.r0.frame.opFix p).1

/-- the outcome of `RunOperation` / `Execute` -/
structure RunOut (s : Struct) (o : Oracle) (d : Dyn) (p p1 p2 : Pid) (r : Dyn × Bool) : Prop where
  inv : DInv s r.1
  j7 : o.synthNonzero → J7 s noEx d → J7 s noEx r.1
  ok : r.2 = true → ∃ c1 c2 dS old, r.1 = (saveResult s Variant.repaired o dS p (o.synth p c1 c2 old) (some c1, some c2)).1 ∧
    DInv s dS ∧ SyncC p1 c1 dS ∧ SyncC p2 c2 dS ∧ (dS.op p).type = (d.op p).type ∧ SyncC p1 c1 r.1 ∧ SyncC p2 c2 r.1

theorem runOperation_spec {s : Struct} (g : GraphOk s) (o : Oracle) (d : Dyn) (p p1 p2 : Pid) (a : Bool)
    (hps : p ∈ s.storage) (hpar : s.graph.parentsOf p = [p1, p2]) (hs1 : p1 ∈ s.storage) (hs2 : p2 ∈ s.storage) :
    ((runOperation s Variant.repaired o d p a).1.fault = none → d.fault = none) ∧
    (DInv s d → (runOperation s Variant.repaired o d p a).1.fault = none →
      RunOut s o d p p1 p2 (runOperation s Variant.repaired o d p a)) := by
  rw [runOperation_two s Variant.repaired o d p p1 p2 a hpar]
  obtain ⟨g1, r1, y1⟩ := readOne_spec g o d p1 hs1
  generalize hv1 : (readOne s o d p1).2 = v1 at y1
  generalize (readOne s o d p1).1 = d1 at g1 r1 y1
  obtain ⟨g2, r2, y2⟩ := readOne_spec g o d1 p2 hs2
  generalize hv2 : (readOne s o d1 p2).2 = v2 at y2
  generalize (readOne s o d1 p2).1 = d2 at g2 r2 y2
  have g12 := g1.trans0 g2
  have r12 := r1.trans r2
  have hbad : ∀ w, ((d2.stuck w, false) : Dyn × Bool).1.fault = none → False := fun w h => Dyn.fault_stuck_ne _ _ h
  cases v1 with
  | none => exact ⟨fun h => (hbad _ h).elim, fun _ h => (hbad _ h).elim⟩
  | some c1 =>
    cases v2 with
    | none => exact ⟨fun h => (hbad _ h).elim, fun _ h => (hbad _ h).elim⟩
    | some c2 =>
      dsimp only
      obtain ⟨tf, tp⟩ := runTail_spec g o d2 p p1 p2 a c1 c2 hps hpar hs1 hs2
      refine ⟨fun hf => g12.fault (tf hf), fun i hf => ?_⟩
      have hf2 := tf hf
      have hf1 := g2.fault hf2
      obtain ⟨i1, j1⟩ := g1.post i hf1
      obtain ⟨i2, j2⟩ := g2.post i1 hf2
      have s1 : SyncC p1 c1 d2 := (y1 i hf1 c1 rfl).keep hs1 i1.h (Keep.of_rel0 r2.r0) i2.h
      have s2 : SyncC p2 c2 d2 := y2 i1 hf2 c2 rfl
      have t := tp i2 s1 s2 hf
      refine ⟨t.inv, fun hsyn j => t.j7 hsyn ?_, fun hok => ?_⟩
      · exact j.of_jrel' g (j1.trans j2) (by intro q e; rcases e with e | e | e <;> exact e)
      · obtain ⟨dS, old, e, iS, a1, a2, ty, b1, b2⟩ := t.ok hok
        exact ⟨c1, c2, dS, old, e, iS, a1, a2, ty.trans (r12.r0.frame.opFix p).1, b1, b2⟩

theorem checkFinish_broken (o : Oracle) (p : Pid) (r : Dyn × List Bool)
    (h : ((checkFinish o p r).op p).broken = false) : (r.1.op p).type ≠ .tba := by
  unfold checkFinish at h
  dsimp only at h
  rw [Dyn.op_setOp, if_pos rfl] at h
  intro ht
  have h1 : ∀ (c1 c2 : Bool) (w1 w2 : String),
      ((if c2 = true then (if c1 = true then r.1.stuck w1 else r.1).stuck w2 else (if c1 = true then r.1.stuck w1 else r.1)).op p).type = .tba := by
    intro c1 c2 w1 w2
    split <;> split <;> exact ht
  simp only [checkCall] at h
  split at h
  · simp at h
  · rename_i hm
    rw [h1] at hm; cases hm
  · rename_i hm
    rw [h1] at hm; cases hm

theorem checkOp_broken (s : Struct) (o : Oracle) (hop : ChildrenOperable s) (f : Nat) (d : Dyn) (p : Pid)
    (hf : (checkOp s o f d p).fault = none)
    (h : ((checkOp s o f d p).op p).broken = false) : (d.op p).type ≠ .tba := by
  cases f with
  | zero => simp only [checkOp] at hf; exact absurd hf (Dyn.fault_stuck_ne _ _)
  | succ f =>
    rw [checkOp_succ] at h
    have := checkFinish_broken o p _ h
    have r := Rel.foldl_fst (s := s) (callStep s o f)
        (fun acc q => ((reactions_rel s o hop f).2.2.2.1 acc.1 q).trans ((reactions_rel s o hop f).2.2.2.2.1 _ q))
        (s.graph.parentsOf p) (d, [])
    rw [(r.r0.frame.opFix p).1] at this
    exact this

/-- what the proofs need of the operation pictograms (part of `StructInv`) -/
structure StructOk (s : Struct) : Prop where
  g : GraphOk s
  opSub : ∀ p ∈ s.opKeys, p ∈ s.storage
  opPar : ∀ p ∈ s.opKeys, ∃ p1 p2, s.graph.parentsOf p = [p1, p2] ∧ p1 ∈ s.storage ∧ p2 ∈ s.storage

theorem RunOut.step {s : Struct} {o : Oracle} {d : Dyn} {p p1 p2 : Pid} {r : Dyn × Bool}
    (hf : r.1.fault = none → d.fault = none)
    (h : DInv s d → r.1.fault = none → RunOut s o d p p1 p2 r) (hsyn : o.synthNonzero) : Step s d r.1 :=
  ⟨hf, fun i j f => ⟨(h i f).inv, (h i f).j7 hsyn j⟩⟩

/-- `PrepareParents`, one parent -/
def prepStep (s : Struct) (v : Variant) (o : Oracle) (f : Nat) (acc : Dyn × Bool) (q : Pid) : Dyn × Bool :=
  if !acc.2 then acc
  else if !s.isOperable q then acc
  else if (acc.1.op q).broken then (acc.1, false)
  else if (acc.1.op q).outdated then execute s v o f acc.1 q false
  else acc

theorem execute_succ (s : Struct) (v : Variant) (o : Oracle) (f : Nat) (d : Dyn) (p : Pid) (a : Bool) :
    execute s v o (f + 1) d p a =
      if !s.isOperable p then (d, false)
      else finishExecute s v o p a ((s.graph.parentsOf p).foldl (prepStep s v o f) (d, true)) := by
  rw [execute]; rfl

theorem finishExecute_spec {s : Struct} (k : StructOk s) (o : Oracle) (p p1 p2 : Pid) (a : Bool) (pre : Dyn × Bool)
    (hpo : p ∈ s.opKeys) (hpar : s.graph.parentsOf p = [p1, p2]) (hs1 : p1 ∈ s.storage) (hs2 : p2 ∈ s.storage) :
    ((finishExecute s Variant.repaired o p a pre).1.fault = none → pre.1.fault = none) ∧
    (DInv s pre.1 → (finishExecute s Variant.repaired o p a pre).1.fault = none →
      RunOut s o pre.1 p p1 p2 (finishExecute s Variant.repaired o p a pre) ∧
      ((finishExecute s Variant.repaired o p a pre).2 = true → (pre.1.op p).type ≠ .tba)) := by
  unfold finishExecute
  split
  · exact ⟨id, fun i _ => ⟨⟨i, fun _ j => j, fun h => by cases h⟩, fun h => by cases h⟩⟩
  · dsimp only
    have gK := checkOp_good k.g { o with check := fun q => if q == p then o.execCheck p else o.check q } (fuelOf pre.1) pre.1 p
    have rK := (reactions_rel s { o with check := fun q => if q == p then o.execCheck p else o.check q } k.g.childOp
      (fuelOf pre.1)).2.2.2.2.2 pre.1 p
    -- the operation is not `tba` when the check succeeds
    have hty : (checkOp s { o with check := fun q => if q == p then o.execCheck p else o.check q } (fuelOf pre.1) pre.1 p).fault = none →
        ((checkOp s { o with check := fun q => if q == p then o.execCheck p else o.check q } (fuelOf pre.1) pre.1 p).op p).broken = false →
        (pre.1.op p).type ≠ .tba :=
      checkOp_broken s _ k.g.childOp _ pre.1 p
    generalize checkOp s { o with check := fun q => if q == p then o.execCheck p else o.check q } (fuelOf pre.1) pre.1 p = dK at gK rK hty
    split
    · refine ⟨gK.fault, fun i hf => ⟨⟨(gK.post i hf).1, fun _ j => ?_, fun h => by cases h⟩, fun h => by cases h⟩⟩
      exact j.of_jrel' k.g (gK.post i hf).2 (by intro q e; rcases e with e | e <;> exact e)
    · rename_i hbr
      obtain ⟨rf, rp⟩ := runOperation_spec k.g o dK p p1 p2 a (k.opSub p hpo) hpar hs1 hs2
      refine ⟨fun hf => gK.fault (rf hf), fun i hf => ?_⟩
      have hfK := rf hf
      obtain ⟨iK, jK⟩ := gK.post i hfK
      have t := rp iK hf
      refine ⟨⟨t.inv, fun hsyn j => t.j7 hsyn ?_, fun hok => ?_⟩, fun _ => hty hfK (by simpa using hbr)⟩
      · exact j.of_jrel' k.g jK (by intro q e; rcases e with e | e <;> exact e)
      · obtain ⟨c1, c2, dS, old, e, iS, a1, a2, ty, b1, b2⟩ := t.ok hok
        exact ⟨c1, c2, dS, old, e, iS, a1, a2, ty.trans (rK.r0.frame.opFix p).1, b1, b2⟩

theorem execute_step {s : Struct} (k : StructOk s) (o : Oracle) (hsyn : o.synthNonzero) :
    ∀ (f : Nat) (d : Dyn) (p : Pid) (a : Bool), Step s d (execute s Variant.repaired o f d p a).1
  | 0, d, p, a => by
    rw [execute]
    exact ⟨fun h => absurd h (Dyn.fault_stuck_ne _ _), fun _ _ h => absurd h (Dyn.fault_stuck_ne _ _)⟩
  | f + 1, d, p, a => by
    rw [execute_succ]
    split
    · exact Step.refl _ _
    · rename_i hop
      have hpo : p ∈ s.opKeys := by simpa [Struct.isOperable] using hop
      obtain ⟨p1, p2, hpar, hs1, hs2⟩ := k.opPar p hpo
      have hprep : ∀ (l : List Pid) (acc : Dyn × Bool), Step s acc.1 (l.foldl (prepStep s Variant.repaired o f) acc).1 := by
        intro l
        induction l with
        | nil => intro acc; exact Step.refl _ _
        | cons q l ih =>
          intro acc
          simp only [List.foldl_cons]
          refine Step.trans ?_ (ih _)
          unfold prepStep
          split
          · exact Step.refl _ _
          · split
            · exact Step.refl _ _
            · split
              · exact Step.refl _ _
              · split
                · exact execute_step k o hsyn f acc.1 q false
                · exact Step.refl _ _
      have hpre := hprep (s.graph.parentsOf p) (d, true)
      generalize (s.graph.parentsOf p).foldl (prepStep s Variant.repaired o f) (d, true) = pre at hpre
      obtain ⟨ff, fp⟩ := finishExecute_spec k o p p1 p2 a pre hpo hpar hs1 hs2
      exact hpre.trans (RunOut.step ff (fun i h => (fp i h).1) hsyn)

/-- `PrepareParents` -/
theorem prepare_step {s : Struct} (k : StructOk s) (o : Oracle) (hsyn : o.synthNonzero) (f : Nat) :
    ∀ (l : List Pid) (acc : Dyn × Bool), Step s acc.1 (l.foldl (prepStep s Variant.repaired o f) acc).1 := by
  intro l
  induction l with
  | nil => intro acc; exact Step.refl _ _
  | cons q l ih =>
    intro acc
    simp only [List.foldl_cons]
    refine Step.trans ?_ (ih _)
    unfold prepStep
    split
    · exact Step.refl _ _
    · split
      · exact Step.refl _ _
      · split
        · exact Step.refl _ _
        · split
          · exact execute_step k o hsyn f acc.1 q false
          · exact Step.refl _ _

theorem executeAll_step {s : Struct} (k : StructOk s) (o : Oracle) (hsyn : o.synthNonzero) (d : Dyn) :
    Step s d (executeAll s Variant.repaired o d) := by
  unfold executeAll
  apply Step.foldl
  intro d p
  split
  · exact execute_step k o hsyn _ d p true
  · exact Step.refl _ _

end CCVerif.Oss
