import CCVerif.Model.Equate
import CCVerif.Lemmas.Merge
/-!
Lemmas about the model of `RSEquationProcessor::Execute` (C12): the steps before the duplicate
removal keep uid, alias, kind and definition shape; the structural admissibility check gives the
facts the translation needs. Core Lean only.
-/
namespace CCVerif.Equate
open CCVerif.Translation CCVerif.Dedup CCVerif.Merge

/-! ### translations -/

theorem mem_of_lookup {t : Tr} {k v : Nat} (h : lookup t k = some v) : (k, v) ∈ t := by
  unfold lookup at h
  cases hf : t.find? (fun p => p.1 == k) with
  | none => rw [hf] at h; cases h
  | some p =>
    rw [hf] at h
    have hm := List.mem_of_find?_eq_some hf
    have hk : p.1 = k := by simpa using List.find?_some hf
    have hv : p.2 = v := by simpa using h
    rw [← hk, ← hv]; exact hm

theorem lookup_isSome_of_key {t : Tr} {k : Nat} (h : k ∈ keys t) : ∃ v, lookup t k = some v := by
  have := (containsKey_iff_mem_keys t k).2 h
  unfold containsKey at this
  cases hl : lookup t k with
  | none => rw [hl] at this; cases this
  | some v => exact ⟨v, rfl⟩

theorem image_of_not_key {t : Tr} {k : Nat} (h : k ∉ keys t) : image t k = k := by
  unfold image
  have : containsKey t k = false := by
    cases hc : containsKey t k with
    | false => rfl
    | true => exact absurd ((containsKey_iff_mem_keys t k).1 hc) h
  rw [lookup_eq_none_of_not_key t k this]; rfl

theorem mem_foldl_superpose (s acc : Tr) (p : Nat × Nat)
    (h : p ∈ s.foldl (fun acc p => if containsKey acc p.1 then acc else acc ++ [p]) acc) : p ∈ acc ∨ p ∈ s := by
  induction s generalizing acc with
  | nil => exact Or.inl h
  | cons q qs ih =>
    simp only [List.foldl_cons] at h
    rcases ih _ h with h1 | h1
    · split at h1
      · exact Or.inl h1
      · rcases List.mem_append.1 h1 with h2 | h2
        · exact Or.inl h2
        · exact Or.inr (by simp at h2; simp [h2])
    · exact Or.inr (List.mem_cons_of_mem _ h1)

theorem mem_superposeWith {t s : Tr} {p : Nat × Nat} (h : p ∈ superposeWith t s) :
    (∃ q ∈ t, p = (q.1, (lookup s q.2).getD q.2)) ∨ p ∈ s := by
  unfold superposeWith at h
  rcases mem_foldl_superpose s _ p h with h1 | h1
  · unfold substituteValues at h1
    rcases List.mem_map.1 h1 with ⟨q, hq, rfl⟩
    exact Or.inl ⟨q, hq, rfl⟩
  · exact Or.inr h1

/-! ### the table -/

def tkeys (eqs : List Entry) : List Nat := eqs.map (·.key)

theorem eqTr_eq (eqs : List Entry) (h : (tkeys eqs).Nodup) : eqTr eqs = eqs.map (fun e => (e.key, e.value)) := by
  have gen : ∀ (es : List Entry) (acc : Tr), (keys acc ++ tkeys es).Nodup →
      es.foldl (fun t e => Translation.insert t e.key e.value) acc = acc ++ es.map (fun e => (e.key, e.value)) := by
    intro es
    induction es with
    | nil => intro acc _; simp
    | cons e rest ih =>
      intro acc hn
      simp only [List.foldl_cons]
      have hp : e.key ∉ keys acc := by
        intro hm
        exact (List.nodup_append.1 hn).2.2 e.key hm e.key (by simp [tkeys]) rfl
      rw [insert_of_not_key _ _ _ hp, ih]
      · simp
      · simpa [keys, tkeys] using hn
  unfold eqTr
  rw [gen eqs [] (by simpa [keys] using h)]
  rfl

theorem keys_eqTr (eqs : List Entry) (h : (tkeys eqs).Nodup) : keys (eqTr eqs) = tkeys eqs := by
  rw [eqTr_eq eqs h]; simp [keys, tkeys]

theorem lookup_eqTr {eqs : List Entry} (h : (tkeys eqs).Nodup) {e : Entry} (he : e ∈ eqs) :
    lookup (eqTr eqs) e.key = some e.value := by
  rw [eqTr_eq eqs h]
  unfold lookup
  induction eqs with
  | nil => cases he
  | cons x xs ih =>
    simp only [tkeys, List.map_cons, List.nodup_cons] at h
    simp only [List.map_cons, List.find?_cons]
    rcases List.mem_cons.1 he with rfl | he'
    · simp
    · have : x.key ≠ e.key := fun eq => h.1 (eq ▸ List.mem_map.2 ⟨e, he', rfl⟩)
      have : (x.key == e.key) = false := by simpa using this
      simp only [this]
      exact ih h.2 he'

theorem mem_eqTr {eqs : List Entry} (h : (tkeys eqs).Nodup) {p : Nat × Nat} (hp : p ∈ eqTr eqs) :
    ∃ e ∈ eqs, p = (e.key, e.value) := by
  rw [eqTr_eq eqs h] at hp
  rcases List.mem_map.1 hp with ⟨e, he, rfl⟩
  exact ⟨e, he, rfl⟩

/-! ### what the structural check guarantees -/

theorem findUid_some {l : Schema} {u : Nat} {c : Cst} (h : findUid l u = some c) : c ∈ l ∧ c.uid = u := by
  unfold findUid at h
  exact ⟨List.mem_of_find?_eq_some h, by simpa using List.find?_some h⟩

theorem precheck_entry {l : Schema} {eqs : List Entry} (h : precheck l eqs = true) {e : Entry} (he : e ∈ eqs) :
    e.key ∈ uids l ∧ e.value ∈ uids l ∧ e.key ≠ e.value ∧ e.value ∉ tkeys eqs := by
  unfold precheck at h
  simp only [Bool.and_eq_true, List.all_eq_true] at h
  have := h.2 e he
  simp only [Bool.not_eq_true', List.any_eq_false] at this
  rcases this with ⟨h1, h2⟩
  unfold precheckFor at h1
  cases hk : findUid l e.key with
  | none => rw [hk] at h1; simp at h1
  | some k =>
    cases hv : findUid l e.value with
    | none => rw [hk, hv] at h1; simp at h1
    | some v =>
      rw [hk, hv] at h1
      simp only [Bool.and_eq_true, bne_iff_ne, ne_eq] at h1
      refine ⟨?_, ?_, h1.1.1.1.1, ?_⟩
      · have := findUid_some hk; exact List.mem_map.2 ⟨k, this.1, this.2⟩
      · have := findUid_some hv; exact List.mem_map.2 ⟨v, this.1, this.2⟩
      · intro hm
        rcases List.mem_map.1 hm with ⟨x, hx, hxe⟩
        have := h2 x hx
        simp [hxe] at this

/-! ### the steps before the duplicate removal keep the identities -/

/-- uid, alias, kind and definition of a constituent -/
def sig (c : Cst) : Nat × String × Nat × List Tok := (c.uid, c.alias, c.kind, c.definition)

theorem setTexts_sig (e : Entry) (d c : Cst) : sig (setTexts e d c) = sig c := by
  unfold setTexts
  split
  · split
    · rfl
    · split <;> rfl
  · rfl

theorem translateDel_sig (e : Entry) (d h c : Cst) : sig (translateDel e d h c) = sig c := by
  unfold translateDel
  split <;> rfl

theorem equateTexts_sig (l : Schema) (e : Entry) : (equateTexts l e).map sig = l.map sig := by
  unfold equateTexts
  split
  · rw [List.map_map, List.map_map]
    apply List.map_congr_left
    intro c _
    simp only [Function.comp]
    rw [translateDel_sig, setTexts_sig]
  · rfl

theorem foldl_equateTexts_sig (eqs : List Entry) (l : Schema) : (eqs.foldl equateTexts l).map sig = l.map sig := by
  induction eqs generalizing l with
  | nil => rfl
  | cons e rest ih => simp only [List.foldl_cons]; rw [ih, equateTexts_sig]

/-- a constituent of the schema entering the duplicate removal is an original one that is not a
key, with the same uid, alias and kind and the definition renamed by the substitution of the table -/
theorem mem_beforeDedup {l : Schema} {eqs : List Entry} {c : Cst} (h : c ∈ beforeDedup l eqs) :
    c.uid ∉ tkeys eqs ∧ ∃ c0 ∈ l, c0.uid = c.uid ∧ c0.alias = c.alias ∧ c0.kind = c.kind ∧
      c.definition = c0.definition.map (renTok (ctxFn (nameSubst l eqs))) := by
  unfold beforeDedup at h
  simp only [List.mem_filter, List.mem_map] at h
  rcases h with ⟨⟨c1, hc1, rfl⟩, hk⟩
  constructor
  · intro hm
    rcases List.mem_map.1 hm with ⟨e, he, hek⟩
    simp only [Bool.not_eq_true', List.any_eq_false] at hk
    have := hk e he
    simp [hek] at this
  · have hs : sig c1 ∈ l.map sig := by
      rw [← foldl_equateTexts_sig eqs l]; exact List.mem_map.2 ⟨c1, hc1, rfl⟩
    rcases List.mem_map.1 hs with ⟨c0, hc0, hsig⟩
    simp only [sig, Prod.mk.injEq] at hsig
    exact ⟨c0, hc0, hsig.1, hsig.2.1, hsig.2.2.1, by rw [rename_definition, hsig.2.2.2]⟩

theorem uids_beforeDedup (l : Schema) (eqs : List Entry) :
    uids (beforeDedup l eqs) = (uids l).filter (fun u => !(tkeys eqs).contains u) := by
  have h1 : ∀ (m : Schema), uids m = (m.map sig).map (·.1) := by
    intro m; simp [uids, sig, List.map_map, Function.comp_def]
  unfold beforeDedup
  simp only []
  have hf : ∀ (m : Schema), uids (m.filter fun c => !eqs.any (·.key == c.uid)) =
      (uids m).filter (fun u => !(tkeys eqs).contains u) := by
    intro m
    unfold uids
    rw [List.filter_map]
    congr 1
    apply List.filter_congr
    intro c _
    simp only [Function.comp, tkeys]
    congr 1
    rw [List.contains_eq_any_beq, List.any_map]
    congr 1
    funext x
    simp only [Function.comp]
    exact Bool.beq_comm
  rw [hf]
  congr 1
  have : uids ((eqs.foldl equateTexts l).map (Cst.rename (ctxFn (nameSubst l eqs)))) = uids (eqs.foldl equateTexts l) := by
    simp [uids, List.map_map, Function.comp_def]
  rw [this, h1, foldl_equateTexts_sig, ← h1]

theorem aliases_beforeDedup_sublist (l : Schema) (eqs : List Entry) :
    (aliases (beforeDedup l eqs)).Sublist (aliases l) := by
  have h1 : ∀ (m : Schema), aliases m = (m.map sig).map (·.2.1) := by
    intro m; simp [aliases, sig, List.map_map, Function.comp_def]
  unfold beforeDedup
  simp only []
  refine List.Sublist.trans (List.filter_sublist.map _) ?_
  have : aliases ((eqs.foldl equateTexts l).map (Cst.rename (ctxFn (nameSubst l eqs)))) = aliases (eqs.foldl equateTexts l) := by
    simp [aliases, List.map_map, Function.comp_def]
  show (aliases _).Sublist _
  rw [this, h1, foldl_equateTexts_sig, ← h1]
  exact List.Sublist.refl _

end CCVerif.Equate
