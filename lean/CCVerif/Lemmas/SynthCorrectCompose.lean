import CCVerif.Lemmas.SynthCorrectHomFrag
/-!
C12, the SEMANTIC clause, COMPOSITION (generic part): like with like is only needed on the equated
PAIRS — constituents that the duplicate removal identifies afterwards take care of themselves.

* `ctxStar`, `hom_entry_eq` — the substituted entry of a successfully analysed constituent is the
  analysis of its substituted content in ONE canonical context, provided the constituents its mentions
  are identified with are alike;
* `CarrierQuot` — the shape of a store after an identification, WITHOUT the clause `like` of
  `QuotientOf`: a set `K` of removed constituents (the keys of the table) each alike to a constituent
  that is not removed and has the same image (`pairs`); every constituent that is not removed is
  carried by its image (`carry`: the image has ITS substituted definition — so two constituents with
  one image have the same substituted definition); the result is acyclic;
* `CarrierQuot.like` — then ALL constituents with one image are alike (induction on the rank of the
  image); `CarrierQuot.toQuotientOf`.
-/
namespace CCVerif.SchemaGen
open CCVerif CCVerif.Graph

variable {D I : Type} {A : Analysis D I}

/-- the canonical context after the substitution `φ`: a name shows the substituted entry of the first
constituent of `s` whose substituted alias it is -/
def ctxStar (A : Analysis D I) (H : Homomorphic A) (φ : String → String) (s : List (Cst D)) :
    String → Option I :=
  fun m' => (s.find? (fun c0 => φ c0.alias == m')).map (fun c0 => H.homI φ (entryOf A s c0.uid))

/-- the substituted entry of a constituent of a fully correct store is the analysis of its substituted
content (uid normalised) in the canonical context, if every constituent a mention resolves to is alike
to every constituent whose substituted alias is the substituted mention -/
theorem hom_entry_eq (hA : Lawful A) (hC : ContentOnly A) (H : Homomorphic A) {φ : String → String}
    {s : List (Cst D)} (hn : (uids s).Nodup) (hfc : FullyCorrect A s) {c : Cst D} (hc : c ∈ s)
    (hbelow : ∀ m ∈ A.mentions c.defn, ∀ a ∈ s, a.alias = m → ∀ b ∈ s, φ b.alias = φ m →
      H.homI φ (entryOf A s a.uid) = H.homI φ (entryOf A s b.uid)) :
    A.analyse [] (ctxStar A H φ s) ⟨0, φ c.alias, c.kind, H.homD φ c.defn⟩ =
      H.homI φ (entryOf A s c.uid) := by
  have hu : c.uid ∈ uids s := mem_uids.2 ⟨c, hc, rfl⟩
  have hval : Val A s c.uid (entryOf A s c.uid) := (entryOf_final hA hn hu).val hA (hfc _ hu)
  obtain ⟨c1, hc1, hcu, jf, hd, hok, he⟩ := hval.inv
  have := eq_of_uid_eq hn hc1 hc hcu
  subst this
  rw [he] at hok
  have hctx : ∀ m ∈ A.mentions c1.defn,
      ctxStar A H φ s (φ m) = (ctxOf s jf m).map (H.homI φ) := by
    intro m hm
    cases hf : findAliasL s m with
    | none =>
      have := H.missing (skelOf s) (ctxOf s jf) c1 m hm (by unfold ctxOf; rw [hf]; rfl)
      rw [this] at hok; cases hok
    | some v =>
      obtain ⟨d, hdm, hdu, hda⟩ := findAliasL_mem hf
      have hj : jf v = entryOf A s v := (entryOf_eq hA hn (hd _ hm _ hf).final).symm
      unfold ctxOf ctxStar
      rw [hf]
      simp only [Option.map_some]
      cases hfind : s.find? (fun c0 => φ c0.alias == φ m) with
      | none =>
        have := List.find?_eq_none.1 hfind d hdm
        rw [hda] at this
        simp at this
      | some c0 =>
        have hc0 := List.mem_of_find?_eq_some hfind
        have e0 : φ c0.alias = φ m := by simpa using List.find?_some hfind
        simp only [Option.map_some]
        rw [hj, ← hdu, hbelow m hm d hdm hda c0 hc0 e0]
  have h1 := H.analyse_hom φ (skelOf s) [] (ctxOf s jf) (ctxStar A H φ s) c1 hok hctx
  rw [he, ← h1]
  exact (hC.indep [] [] (ctxStar A H φ s) { c1 with alias := φ c1.alias, defn := H.homD φ c1.defn } 0).symm

/-- the shape of a store after an identification, without `like`: the removed constituents (`K`) are
alike to a kept one with the same image, the kept ones are carried by their images -/
structure CarrierQuot (A : Analysis D I) (H : Homomorphic A) (τ : Nat → Nat) (φ : String → String)
    (K : Nat → Prop) (s s' : List (Cst D)) : Prop where
  nodupU : (uids s').Nodup
  nodupA : (s'.map (·.alias)).Nodup
  img : ∀ c ∈ s, ∃ c' ∈ s', c'.uid = τ c.uid ∧ c'.alias = φ c.alias
  carry : ∀ c ∈ s, ¬ K c.uid → (⟨τ c.uid, φ c.alias, c.kind, H.homD φ c.defn⟩ : Cst D) ∈ s'
  kept : ∀ c' ∈ s', ∃ c ∈ s, ¬ K c.uid ∧ c'.uid = τ c.uid
  pairs : ∀ k ∈ s, K k.uid → ∃ v ∈ s, ¬ K v.uid ∧ τ k.uid = τ v.uid ∧
    H.homI φ (entryOf A s k.uid) = H.homI φ (entryOf A s v.uid)
  acyclic : ∃ rk : Nat → Nat, ∀ c' ∈ s', ∀ m ∈ A.mentions c'.defn, ∀ v',
    findAliasL s' m = some v' → rk v' < rk c'.uid

theorem CarrierQuot.like_aux (hA : Lawful A) (hC : ContentOnly A) {H : Homomorphic A} {τ : Nat → Nat}
    {φ : String → String} {K : Nat → Prop} {s s' : List (Cst D)} (hn : (uids s).Nodup)
    (hfc : FullyCorrect A s) (hq : CarrierQuot A H τ φ K s s') (rk : Nat → Nat)
    (hrk : ∀ c' ∈ s', ∀ m ∈ A.mentions c'.defn, ∀ v', findAliasL s' m = some v' → rk v' < rk c'.uid) :
    ∀ (n : Nat), ∀ c ∈ s, ∀ d ∈ s, τ c.uid = τ d.uid → rk (τ c.uid) < n →
      H.homI φ (entryOf A s c.uid) = H.homI φ (entryOf A s d.uid) := by
  intro n
  induction n with
  | zero => intro _ _ _ _ _ h; cases h
  | succ n ih =>
    -- the case of two kept constituents
    have kept2 : ∀ c ∈ s, ∀ d ∈ s, ¬ K c.uid → ¬ K d.uid → τ c.uid = τ d.uid → rk (τ c.uid) < n + 1 →
        H.homI φ (entryOf A s c.uid) = H.homI φ (entryOf A s d.uid) := by
      intro c hc d hd hkc hkd e hlt
      have hcc := hq.carry c hc hkc
      have hdc := hq.carry d hd hkd
      have heq := eq_of_uid_eq hq.nodupU hcc hdc e
      have below : ∀ x ∈ s, (⟨τ x.uid, φ x.alias, x.kind, H.homD φ x.defn⟩ : Cst D) ∈ s' →
          rk (τ x.uid) < n + 1 →
          ∀ m ∈ A.mentions x.defn, ∀ a ∈ s, a.alias = m → ∀ b ∈ s, φ b.alias = φ m →
            H.homI φ (entryOf A s a.uid) = H.homI φ (entryOf A s b.uid) := by
        intro x _ hxc hxlt m hm a ha ham b hb hbm
        obtain ⟨a', ha', hau, haa⟩ := hq.img a ha
        obtain ⟨b', hb', hbu, hba⟩ := hq.img b hb
        have hab : a' = b' := eq_of_alias_eq hq.nodupA ha' hb' (by rw [haa, hba, ham, hbm])
        have hτ : τ a.uid = τ b.uid := by rw [← hau, ← hbu, hab]
        have hres : findAliasL s' (φ m) = some (τ a.uid) := by
          rw [← ham, ← haa, ← hau]; exact findAliasL_of_mem hq.nodupA ha'
        have h1 := hrk _ hxc (φ m)
          (by show φ m ∈ A.mentions (H.homD φ x.defn)
              rw [H.mentions_hom]; exact List.mem_map.2 ⟨_, hm, rfl⟩) _ hres
        exact ih a ha b hb hτ (Nat.lt_of_lt_of_le h1 (Nat.le_of_lt_succ hxlt))
      have e1 := hom_entry_eq hA hC H hn hfc hc (below c hc hcc hlt)
      have e2 := hom_entry_eq hA hC H hn hfc hd (below d hd hdc (e ▸ hlt))
      rw [← e1, ← e2]
      injection heq with _ h2 h3 h4
      rw [h2, h3, h4]
    -- a removed constituent is replaced by the kept one it is alike to
    have norm : ∀ c ∈ s, ∃ c0 ∈ s, ¬ K c0.uid ∧ τ c.uid = τ c0.uid ∧
        H.homI φ (entryOf A s c.uid) = H.homI φ (entryOf A s c0.uid) := by
      intro c hc
      by_cases hk : K c.uid
      · exact hq.pairs c hc hk
      · exact ⟨c, hc, hk, rfl, rfl⟩
    intro c hc d hd e hlt
    obtain ⟨c0, hc0, hkc, ec, lc⟩ := norm c hc
    obtain ⟨d0, hd0, hkd, ed, ld⟩ := norm d hd
    rw [lc, ld]
    exact kept2 c0 hc0 d0 hd0 hkc hkd (by rw [← ec, ← ed, e]) (by rw [← ec]; exact hlt)

/-- **like with like on the equated pairs suffices**: all constituents with one image are alike -/
theorem CarrierQuot.like (hA : Lawful A) (hC : ContentOnly A) {H : Homomorphic A} {τ : Nat → Nat}
    {φ : String → String} {K : Nat → Prop} {s s' : List (Cst D)} (hn : (uids s).Nodup)
    (hfc : FullyCorrect A s) (hq : CarrierQuot A H τ φ K s s') :
    ∀ c ∈ s, ∀ d ∈ s, τ c.uid = τ d.uid →
      H.homI φ (entryOf A s c.uid) = H.homI φ (entryOf A s d.uid) := by
  obtain ⟨rk, hrk⟩ := hq.acyclic
  intro c hc d hd e
  exact hq.like_aux hA hC hn hfc rk hrk (rk (τ c.uid) + 1) c hc d hd e (Nat.lt_succ_self _)

theorem CarrierQuot.toQuotientOf (hA : Lawful A) (hC : ContentOnly A) {H : Homomorphic A} {τ : Nat → Nat}
    {φ : String → String} {K : Nat → Prop} {s s' : List (Cst D)} (hn : (uids s).Nodup)
    (hfc : FullyCorrect A s) (hq : CarrierQuot A H τ φ K s s') : QuotientOf A H τ φ s s' where
  nodupU := hq.nodupU
  nodupA := hq.nodupA
  img := hq.img
  kept := by
    intro c' hc'
    obtain ⟨c, hc, hk, e⟩ := hq.kept c' hc'
    exact ⟨c, hc, eq_of_uid_eq hq.nodupU hc' (hq.carry c hc hk) e⟩
  like := hq.like hA hC hn hfc
  acyclic := hq.acyclic

end CCVerif.SchemaGen

/-! ## token level: a stage (`StageExact`) whose equated pairs are alike -/
namespace CCVerif.SynthCorrect
open CCVerif CCVerif.Translation CCVerif.Dedup CCVerif.Merge CCVerif.Equate CCVerif.Synth
open CCVerif.SchemaGen (Analysis Lawful ContentOnly Homomorphic QuotientOf CarrierQuot entryOf FullyCorrect
  findAliasL)

variable {D I : Type} {A : Analysis D I}

/-- LIKE WITH LIKE on the equated pairs only: key and value of every equation have the same entry
(status, typification) once the names are substituted -/
def PairsLike (V : View D) (A : Analysis D I) (H : Homomorphic A) (l : Schema) (eqs : List Entry)
    (Q : String → String) : Prop :=
  ∀ e ∈ eqs, H.homI Q (entryOf A (V.store l) e.key) = H.homI Q (entryOf A (V.store l) e.value)

theorem carrierQuot_view (V : View D) (H : Homomorphic A) (hV : V.CompatibleHom H)
    {l r : Schema} {tr : Tr} {eqs : List Entry} {Q : String → String} (hQ : StageExact l r tr eqs Q)
    (hvals : ∀ e ∈ eqs, e.value ∈ uids l ∧ e.value ∉ tkeys eqs)
    (hpl : PairsLike V A H l eqs Q) (hac : AcyclicSchema V A r) :
    CarrierQuot A H (image tr) Q (fun u => u ∈ tkeys eqs) (V.store l) (V.store r) where
  nodupU := by rw [uids_store]; exact hQ.nodupU
  nodupA := by rw [aliases_store]; exact hQ.nodupA
  img := by
    intro c' hc'
    obtain ⟨c, hc, rfl⟩ := List.mem_map.1 hc'
    obtain ⟨s, hs, hsu⟩ := List.mem_map.1 (hQ.img c.uid (List.mem_map.2 ⟨c, hc, rfl⟩))
    exact ⟨V.cst s, List.mem_map.2 ⟨s, hs, rfl⟩, hsu, (hQ.aliasOf c hc s hs hsu).symm⟩
  carry := by
    intro c' hc' hnk
    obtain ⟨c, hc, rfl⟩ := List.mem_map.1 hc'
    obtain ⟨s, hs, hu, hk, hd, _⟩ := hQ.content c hc hnk
    refine List.mem_map.2 ⟨s, hs, ?_⟩
    unfold View.cst
    simp only
    rw [hu, hk, hd, hV, ← hQ.aliasOf c hc s hs hu]
  kept := by
    intro s' hs'
    obtain ⟨s, hs, rfl⟩ := List.mem_map.1 hs'
    obtain ⟨c, hc, _, hnk, himg⟩ := hQ.kept s hs
    exact ⟨V.cst c, List.mem_map.2 ⟨c, hc, rfl⟩, hnk, himg.symm⟩
  pairs := by
    intro k' hk' hkk
    obtain ⟨k, hk, rfl⟩ := List.mem_map.1 hk'
    obtain ⟨e, he, hek⟩ := List.mem_map.1 (show k.uid ∈ tkeys eqs from hkk)
    obtain ⟨v, hv, hvu⟩ := List.mem_map.1 (hvals e he).1
    refine ⟨V.cst v, List.mem_map.2 ⟨v, hv, rfl⟩, ?_, ?_, ?_⟩
    · show v.uid ∉ tkeys eqs
      rw [hvu]; exact (hvals e he).2
    · show image tr k.uid = image tr v.uid
      rw [← hek, hvu]; exact hQ.pairs e he
    · have := hpl e he
      rw [hek, ← hvu] at this
      exact this
  acyclic := by
    obtain ⟨rk, hrk⟩ := hac
    refine ⟨rk, ?_⟩
    intro c' hc' m hm v' hv'
    obtain ⟨c, hc, rfl⟩ := List.mem_map.1 hc'
    obtain ⟨c2', hc2', rfl, rfl⟩ := SchemaGen.findAliasL_mem hv'
    obtain ⟨c2, hc2, rfl⟩ := List.mem_map.1 hc2'
    exact hrk c hc _ hm c2 hc2 rfl

/-- **like with like on the equated pairs suffices** (token level): in a stage described by
`StageExact` on a fully correct schema with an acyclic result, ALL constituents with one image — the
equated pairs and whatever the duplicate removal identified afterwards — are alike. -/
theorem likeWithLike_of_pairs (hA : Lawful A) (hC : ContentOnly A) (V : View D) (H : Homomorphic A)
    (hV : V.CompatibleHom H) {l r : Schema} {tr : Tr} {eqs : List Entry} {Q : String → String}
    (hw : (uids l).Nodup) (hfc : FullyCorrect A (V.store l)) (hQ : StageExact l r tr eqs Q)
    (hvals : ∀ e ∈ eqs, e.value ∈ uids l ∧ e.value ∉ tkeys eqs)
    (hpl : PairsLike V A H l eqs Q) (hac : AcyclicSchema V A r) : LikeWithLike V A H l tr Q := by
  have hq := carrierQuot_view V H hV hQ hvals hpl hac
  have hn : (SchemaGen.uids (V.store l)).Nodup := by rw [uids_store]; exact hw
  intro c hc d hd e
  exact hq.like hA hC hn hfc (V.cst c) (List.mem_map.2 ⟨c, hc, rfl⟩) (V.cst d) (List.mem_map.2 ⟨d, hd, rfl⟩) e

/-- **stage_correct**: a stage (`StageExact`: an accepted equation with its duplicate removal, the
duplicate removal alone, either followed by `ResetAliases`) on a fully correct schema whose equated
pairs are alike and whose result is acyclic: the image of every constituent has its old entry with the
renaming of the stage substituted, and the result is fully correct. -/
theorem stage_correct (hA : Lawful A) (hC : ContentOnly A) (V : View D) (H : Homomorphic A)
    (hV : V.CompatibleHom H) {l r : Schema} {tr : Tr} {eqs : List Entry} {Q : String → String}
    (hw : (uids l).Nodup) (hfc : FullyCorrect A (V.store l)) (hQ : StageExact l r tr eqs Q)
    (hvals : ∀ e ∈ eqs, e.value ∈ uids l ∧ e.value ∉ tkeys eqs)
    (hpl : PairsLike V A H l eqs Q) (hac : AcyclicSchema V A r) :
    (∀ c ∈ l, entryOf A (V.store r) (image tr c.uid) = H.homI Q (entryOf A (V.store l) c.uid)) ∧
    FullyCorrect A (V.store r) := by
  have hq := (carrierQuot_view V H hV hQ hvals hpl hac).toQuotientOf hA hC
    (by rw [uids_store]; exact hw) hfc
  have hn : (SchemaGen.uids (V.store l)).Nodup := by rw [uids_store]; exact hw
  exact ⟨fun c hc => SchemaGen.quotient_entries hA hC hn hfc hq (V.cst c) (List.mem_map.2 ⟨c, hc, rfl⟩),
    SchemaGen.quotient_fully_correct hA hC hn hfc hq⟩

/-- a fully correct schema has no dangling names (for an analysis that fails on a name that denotes
nothing): the proviso of the merge is automatic -/
theorem noCapture_of_correct (hA : Lawful A) (H : Homomorphic A) (V : View D) {a b : Schema} (mr : Schema)
    (ha : (uids a).Nodup) (hb : (uids b).Nodup)
    (h1 : FullyCorrect A (V.store a)) (h2 : FullyCorrect A (V.store b)) : NoCapture V A a b mr := by
  have key : ∀ (l : Schema), (uids l).Nodup → FullyCorrect A (V.store l) → ∀ n, ¬ Dangling V A l n := by
    rintro l hl hfc n ⟨hn, c, hc, hmn⟩
    exact SchemaGen.FullyCorrect.resolved hA H.missing (by rw [uids_store]; exact hl) hfc (V.cst c)
      (List.mem_map.2 ⟨c, hc, rfl⟩) n hmn ((findAliasL_store_none V).2 hn)
  rintro n (hd | hd)
  · exact absurd hd (key a ha h1 n)
  · exact absurd hd (key b hb h2 n)

end CCVerif.SynthCorrect
