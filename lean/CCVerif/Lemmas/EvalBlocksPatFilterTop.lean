import CCVerif.Lemmas.EvalBlocksPatTop
import CCVerif.Lemmas.EvalBlocksPatFilter
/-! Stage 11: evaluation of a closed expression with tuple patterns in any binding position AND filters anywhere
(`evaluate_blocksPat` of stage 10 with `PE2` for `PE`). -/
namespace CCVerif.Eval
open CCVerif.Syntax CCVerif.Spec CCVerif.Norm
open Val Ty

/-- **evaluation of a closed expression with patterns and filters**: `e` goes by pattern elimination with the filter
rules (`PE2`) to the expression `es` over plain variables, which lies in the typed fragment of stage 8 with normal form
`n`, and `n` is what the normaliser returns for `e`.  The answer of `Interpreter::Evaluate` is the value the reference
semantics assigns to `e` ITSELF at every fuel `≥ fuel`, or the model's `outOfFuel`, or a documented error - never `stuck`,
never `unknownError` -/
theorem evaluate_blocksPatFilter {env : Env} {G : TCtx} {lvl : Nat} (hG : GlobalsOK env G) {e es n : Ast} {τ : ExprTy} {f0 : Nat}
    (h : FragF env G lvl [] [] es n τ) (hu : PE2 (senvOf env) [] [] e es) (hn0 : normalizeTree env.funcs f0 e = some n)
    (fuel : Nat) :
    TopGood env fuel e τ (evaluate fuel env e).1 ∨ (evaluate fuel env e).1 = .outOfFuel ∨
    ∃ eid pos, (evaluate fuel env e).1 = .err eid pos ∧ DocErr eid := by
  have hs := h.shape_closed
  have hun : ∀ v, (∀ f', fuel ≤ f' → denote (senvOf env) f' .nil es = some v) →
      ∀ f', fuel ≤ f' → denote (senvOf env) f' .nil e = some v := fun v hd f' hf' =>
    hu.sound .nil .nil (URel.nil _ _) (EnvTy.nil _) fuel v (hd fuel (Nat.le_refl _)) f' (by omega)
  unfold evaluate
  rcases normalizeTree_stable hn0 fuel with hn | hn
  · right; left; simp [hn]
  · simp only [hn]
    unfold evalNorm
    rcases collect_shape8 hs fuel {} (NCInv.empty env) with hc | ⟨pos, hc⟩ | ⟨vars, al, nc, hc, hi, _, hcov⟩
    · right; left; simp [hc]
    · right; right; exact ⟨_, pos, by simp [hc], Or.inr (Or.inr (Or.inl rfl))⟩
    · simp only [hc]
      have hinv : Inv env { ids := nc.ids } [] [] .nil { data := nc.data, iters := 0 } :=
        ⟨hi.range, hi.inj, hi.glob, by intro x σ hx; simp [lookup] at hx, by intro x r hx; simp [lookup] at hx⟩
      have hsim := simF hG { ids := nc.ids } h fuel none { data := nc.data, iters := 0 } .nil hinv hcov
      cases τ with
      | ty ty =>
        rcases hsim with ⟨v, st', hr, _, hw, hn', hd⟩ | ⟨fl, k, hr, hf⟩
        · left; exact ⟨v, by simp [hr], hw, hn', hun _ hd⟩
        · rcases hf with rfl | ⟨eid, pos, rfl, hdoc⟩
          · right; left; simp [hr]
          · right; right; exact ⟨eid, pos, by simp [hr], hdoc⟩
      | logic =>
        rcases hsim with ⟨b, st', hr, _, hd⟩ | ⟨fl, k, hr, hf⟩
        · left; exact ⟨b, by simp [hr], hun _ hd⟩
        · rcases hf with rfl | ⟨eid, pos, rfl, hdoc⟩
          · right; left; simp [hr]
          · right; right; exact ⟨eid, pos, by simp [hr], hdoc⟩

end CCVerif.Eval
